#!/bin/sh
# setup: build everything from files on disk (offline): translator, Gen.v, Coq development (full .vo),
# extracted models, harness.  Fails on forbidden tokens.
set -e
cd "$(dirname "$0")"
export GOFLAGS=-mod=mod GOPROXY=off GOSUMDB=off GOTOOLCHAIN=local
python3 tools/setup.py
