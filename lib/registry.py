"""registry — one entry per claimed property; MANIFEST.json is generated from it (tools/mkmanifest.py)."""

COMMON_TRUSTED = [
    "T1 translator /verif/harness/cmd/translate (go/ast): copies constants, literal lists and small conditions from /repo into coq/gen/Gen.v on every run",
    "T3 correspondence harness /verif/harness (Go, public API of go-mail built from the working tree) and its case generators / projections",
    "extraction: Require Extraction + ExtrOcamlBasic only (bool, option, list, prod, unit, sumbool mapped to OCaml's); N/positive/nat stay the extracted inductives; no Extract Constant / Extract Inductive of our own; OCaml driver coq/extract/<engine>/driver.ml + common/util.ml (hex line protocol)",
    "Go standard library pieces on the path (encoding/base64, mime/quotedprintable, mime/multipart, net/textproto …) are modelled by hand from go1.23.5 and validated only by the correspondence",
]

CHECKS = {}

def reg(**kw):
    kw.setdefault("trusted", COMMON_TRUSTED)
    CHECKS[kw["id"]] = kw

reg(id="C18", engine="bytecore",
    title="Generated output obeys Internet-message line discipline",
    technique="Coq proof (induction/invariants over a Gallina model of base64LineBreaker, quotedprintable.Writer, writeHeader) + source-regenerated constants + differential correspondence via extracted OCaml model",
    level_text="Machine-checked theorems for every content and every chunking: the base64 line breaker yields exactly the 76-column wrapping (chunk independence), all base64 and quoted-printable body lines are <= 76, CRLF-terminated, without bare CR/LF. The model is tied to /repo on every run: constants and the line-breaker comparison are regenerated from the source (T1), and the model's output is compared byte-for-byte with the real WriteTo output for thousands of contents x chunkings (T3). Header folding is model-compared and oracle-checked; its bound theorem is stated in coq/props/C18.v.",
    level_note="Trusted: Coq kernel, translator, extraction+driver, harness. Modelled not verified: Go's base64 encoder chunking (irrelevant by the chunk-independence theorem), quotedprintable.Writer (hand model validated by T3). Part headers written by multipart.CreatePart are not folded by go-mail: recorded known finding (part-header-line-too-long).",
    rule="contents of length 0..130 (+ around multiples of 57/76/768, thorough: 0..400 and random to 5000) x 9 chunkings {whole,1,3,57,76,1024,prime,random,random+empty write} for base64 (single part and attachment) and quoted-printable; 1500 (thorough 60000) header value lists with word lengths 0..300 and multiple/leading/trailing blanks; file names through part headers. Non-trivial = more than one chunk and content beyond one wrap line, or header value longer than 60 characters; distinct by hash of the case line.",
    design_ref="DESIGN.md section 5 C18",
    assumptions=["bytes.Buffer writes never fail (the line breaker's and QP writer's destination inside writeBody)",
                 "a final unterminated line of a body is completed by the CRLF the enclosing writer (multipart delimiter / SMTP dot-writer) adds"])
