"""registry — one entry per claimed property; MANIFEST.json is generated from it (tools/mkmanifest.py)."""

COMMON_TRUSTED = [
    "T1 translator /verif/harness/cmd/translate (go/ast): copies constants, literal lists and small conditions from /repo into coq/gen/Gen.v on every run",
    "T3 correspondence harness /verif/harness (Go, public API of go-mail built from the working tree) and its case generators / projections",
    "extraction: Require Extraction + ExtrOcamlBasic only (bool, option, list, prod, unit, sumbool mapped to OCaml's); N/positive/nat stay the extracted inductives; no Extract Constant / Extract Inductive of our own; OCaml driver coq/extract/<engine>/driver.ml + common/util.ml (hex line protocol)",
    "Go standard library pieces on the path (encoding/base64, mime/quotedprintable, mime/multipart, net/textproto …) are modelled by hand from go1.23.5 and validated only by the correspondence",
]

CHECKS = {}

def reg(**kw):
    kw.setdefault("trusted", COMMON_TRUSTED)
    CHECKS[kw["id"]] = kw

import glob, importlib.util, os
for _p in sorted(glob.glob(os.path.join(os.path.dirname(os.path.abspath(__file__)), "checks", "C*.py"))):
    _spec = importlib.util.spec_from_file_location("check_" + os.path.basename(_p)[:-3], _p)
    _m = importlib.util.module_from_spec(_spec)
    _m.reg = reg
    _m.COMMON_TRUSTED = COMMON_TRUSTED
    _spec.loader.exec_module(_m)
