# registry entry for C10 (reg and COMMON_TRUSTED are injected by lib/registry.py)
reg(id="C10", engine="eml",
    title="Render -> parse -> render preserves the message",
    technique="placeholder",
    level_text="placeholder", level_note="placeholder", rule="placeholder",
    design_ref="DESIGN.md section 5 C10", assumptions=[])
