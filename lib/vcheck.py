"""vcheck — shared driver of all property checks (see DESIGN.md section 1.4).

   regenerate Gen.v from /repo (T1)  ->  make the property's Coq targets
   build the harness against /repo (-tags verif)  ->  corpus + generated cases
       implementation observables + direct oracle        (gmh)
       model observables (extracted OCaml model)          (model_<engine>)
   verdict: oracle failure (minus known findings) -> VIOLATION with the failing case
            broken proof / correspondence         -> search; VIOLATION (… no-failing-input-found)
"""
import fcntl, hashlib, json, os, re, shutil, subprocess, sys, time

VERIF = os.path.dirname(os.path.dirname(os.path.abspath(__file__)))
REPO = os.environ.get("VERIF_REPO", "/repo")
COQ = os.path.join(VERIF, "coq")
WORK = os.path.join(VERIF, "work")
BIN = os.path.join(WORK, "bin")
HARNESS = os.path.join(VERIF, "harness")

GOENV = dict(os.environ, GOFLAGS="-mod=mod", GOPROXY="off", GOSUMDB="off", GOTOOLCHAIN="local",
             CGO_ENABLED=os.environ.get("CGO_ENABLED", "0"))

FORBIDDEN = r"\b(Admitted|admit|Axiom|Axioms|Parameter|Parameters|Conjecture|Hypothesis|Variable|Variables)\b|Unset Guard|bypass_check|Admit Obligations|type-in-type|impredicative-set"


def sh(cmd, cwd=None, env=None, timeout=None, stdin=None):
    p = subprocess.run(cmd, cwd=cwd, env=env or GOENV, timeout=timeout, input=stdin,
                       stdout=subprocess.PIPE, stderr=subprocess.STDOUT, text=True,
                       shell=isinstance(cmd, str))
    return p.returncode, p.stdout


class Lock:
    def __init__(self, name="build"):
        os.makedirs(WORK, exist_ok=True)
        self.path = os.path.join(WORK, "." + name + ".lock")
    def __enter__(self):
        self.f = open(self.path, "w")
        fcntl.flock(self.f, fcntl.LOCK_EX)
        return self
    def __exit__(self, *a):
        fcntl.flock(self.f, fcntl.LOCK_UN)
        self.f.close()


def newest(paths):
    m = 0
    for p in paths:
        if os.path.isdir(p):
            for r, _, fs in os.walk(p):
                for f in fs:
                    m = max(m, os.path.getmtime(os.path.join(r, f)))
        elif os.path.exists(p):
            m = max(m, os.path.getmtime(p))
    return m


def build_go(name, pkg, tags=None, race=False):
    """(re)build a harness binary; Go's build cache makes this cheap when nothing changed.
    The module replaces github.com/wneessen/go-mail by /repo, so the working tree is what is built."""
    os.makedirs(BIN, exist_ok=True)
    shutil.copyfile(os.path.join(REPO, "go.sum"), os.path.join(HARNESS, "go.sum"))
    gm = os.path.join(HARNESS, "go.mod")
    txt = open(gm).read()
    new = re.sub(r"replace github.com/wneessen/go-mail => \S+", "replace github.com/wneessen/go-mail => " + REPO, txt)
    if new != txt:
        open(gm, "w").write(new)
    cmd = ["go", "build"]
    if tags:
        cmd += ["-tags", tags]
    env = dict(GOENV)
    if race:
        cmd += ["-race"]
        env["CGO_ENABLED"] = "1"
    cmd += ["-o", os.path.join(BIN, name), pkg]
    rc, out = sh(cmd, cwd=HARNESS, env=env, timeout=900)
    return rc == 0, out


def regen_gen():
    """T1: regenerate coq/gen/Gen.v from the working tree; touch the file only when it changes."""
    ok, out = build_go("translate", "./cmd/translate")
    if not ok:
        return False, "translator does not build:\n" + out
    rc, text = sh([os.path.join(BIN, "translate"), REPO])
    if rc != 0:
        return False, "translator failed:\n" + text
    path = os.path.join(COQ, "gen", "Gen.v")
    old = open(path).read() if os.path.exists(path) else None
    if old != text:
        os.makedirs(os.path.dirname(path), exist_ok=True)
        with open(path, "w") as f:
            f.write(text)
    m = re.search(r"\(\* untranslatable: (.*) \*\)", text)
    unt = [x for x in (m.group(1).split(", ") if m else []) if x]
    return True, unt


def coq_make(targets, timeout=1500):
    mk = os.path.join(COQ, "Makefile")
    cp = os.path.join(COQ, "_CoqProject")
    if not os.path.exists(mk) or os.path.getmtime(mk) < os.path.getmtime(cp):
        sh(["coq_makefile", "-f", "_CoqProject", "-o", "Makefile"], cwd=COQ)
    # every coqc under a time limit of its own: one file that hangs must not hold up the rest of the build
    rc, out = sh(["make", "-j16", "COQC=timeout %d coqc" % int(os.environ.get("VERIF_COQC_TIMEOUT", "900"))] + targets, cwd=COQ, timeout=timeout)
    return rc == 0, out


def build_model(engine):
    """extract the engine's model to OCaml (ExtrOcamlBasic only) and compile the driver"""
    d = os.path.join(COQ, "extract", engine)
    binp = os.path.join(BIN, "model_" + engine)
    src_m = newest([os.path.join(COQ, "theories"), os.path.join(COQ, "gen", "Gen.v"),
                    os.path.join(d, "Extract.v"), os.path.join(d, "driver.ml"),
                    os.path.join(COQ, "extract", "common", "util.ml")])
    if os.path.exists(binp) and os.path.getmtime(binp) >= src_m:
        return True, "up to date"
    ex = open(os.path.join(d, "Extract.v")).read()
    mods = []
    for m in re.finditer(r"From Verif Require Import ([^.]*)\.", ex):
        mods += m.group(1).split()
    okm, outm = coq_make(["theories/%s.vo" % m for m in mods])
    if not okm:
        return False, outm
    rc, out = sh(["coqc", "-Q", "../../theories", "Verif", "-Q", "../../gen", "VerifGen", "Extract.v"], cwd=d, timeout=900)
    if rc != 0:
        return False, out
    bd = os.path.join(WORK, "ocaml_" + engine)
    shutil.rmtree(bd, ignore_errors=True)
    os.makedirs(bd)
    for f in ("model.ml", "model.mli", "driver.ml"):
        shutil.copyfile(os.path.join(d, f), os.path.join(bd, f))
    shutil.copyfile(os.path.join(COQ, "extract", "common", "util.ml"), os.path.join(bd, "util.ml"))
    rc, out2 = sh(["ocamlfind", "ocamlopt", "-O2", "-w", "-a", "util.ml", "model.mli", "model.ml", "driver.ml", "-o", binp], cwd=bd, timeout=900)
    if rc != 0:
        rc, out2 = sh(["ocamlfind", "ocamlopt", "-w", "-a", "util.ml", "model.mli", "model.ml", "driver.ml", "-o", binp], cwd=bd, timeout=900)
    return rc == 0, out + out2


def forbidden_scan():
    bad = []
    for sub in ("theories", "proofs", "props", "gen", "extract"):
        for r, _, fs in os.walk(os.path.join(COQ, sub)):
            for f in fs:
                if f.endswith(".v"):
                    p = os.path.join(r, f)
                    txt = open(p).read()
                    txt = re.sub(r"\(\*.*?\*\)", " ", txt, flags=re.S)
                    for i, line in enumerate(txt.split("\n")):
                        if re.search(FORBIDDEN, line) and not re.match(r"\s*(Section|End|Context)\b", line):
                            # Variable/Hypothesis are fine inside a Section: checked separately
                            if re.search(r"\b(Variable|Variables|Hypothesis)\b", line) and in_section(txt, i):
                                continue
                            bad.append("%s:%d: %s" % (p, i + 1, line.strip()))
    return bad


def in_section(txt, lineno):
    depth = 0
    for i, line in enumerate(txt.split("\n")):
        if i >= lineno:
            break
        if re.match(r"\s*Section\s", line):
            depth += 1
        elif re.match(r"\s*End\s", line) and depth > 0:
            depth -= 1
    return depth > 0


def theorems_of(prop):
    p = os.path.join(COQ, "props", prop + ".v")
    txt = open(p).read()
    return re.findall(r"^\s*Theorem\s+(\w+)", txt, flags=re.M)


def print_assumptions(prop, thms, extra_mods=()):
    d = os.path.join(WORK, prop)
    os.makedirs(d, exist_ok=True)
    src = "From VerifProps Require Import %s.\n" % prop
    for t in thms:
        src += 'Print Assumptions %s.\n' % t
    with open(os.path.join(d, "Assume.v"), "w") as f:
        f.write(src)
    rc, out = sh(["coqc", "-Q", os.path.join(COQ, "theories"), "Verif", "-Q", os.path.join(COQ, "proofs"), "VerifProofs",
                  "-Q", os.path.join(COQ, "gen"), "VerifGen", "-Q", os.path.join(COQ, "props"), "VerifProps", "Assume.v"], cwd=d, timeout=600)
    res = {}
    if rc == 0:
        # the output of the Require re-prints nothing; split the Print Assumptions answers
        chunks = re.split(r"(?=Closed under the global context|Axioms:)", out)
        chunks = [c.strip() for c in chunks if c.strip()]
        for t, c in zip(thms, chunks):
            res[t] = " ".join(c.split())
    return rc == 0, res, out


def load_known(prop):
    findings, fixed = [], []
    p = os.path.join(VERIF, "known_findings.txt")
    if os.path.exists(p):
        for line in open(p):
            line = line.strip()
            m = re.match(r"finding:\s+property=(\S+)\s+class=(\S+)\s*(.*)", line)
            if m and m.group(1) == prop:
                findings.append((m.group(2), m.group(3)))
            m = re.match(r"fixed:\s+property=(\S+)\s+(.*)", line)
            if m and m.group(1) == prop:
                fixed.append(m.group(2))
    return findings, fixed


def run_impl(prop, tier, seed, d, cases=None, corpus=None, timeout=3000, binary="gmh", budget=0):
    cmd = [os.path.join(BIN, binary), "run", prop, "-tier", tier, "-seed", str(seed), "-dir", d]
    if cases:
        cmd += ["-cases", cases]
    if corpus and os.path.exists(corpus):
        cmd += ["-corpus", corpus]
    if budget:
        cmd += ["-budget", str(int(budget))]
    try:
        rc, out = sh(cmd, timeout=timeout)
    except subprocess.TimeoutExpired:
        return False, "timeout after %ss: %s" % (timeout, " ".join(cmd))
    return rc == 0, out


def run_model(engine, d, timeout=3000):
    with open(os.path.join(d, "cases.txt")) as fin, open(os.path.join(d, "model.txt"), "w") as fout:
        p = subprocess.run([os.path.join(BIN, "model_" + engine)], stdin=fin, stdout=fout, stderr=subprocess.PIPE, timeout=timeout)
    return p.returncode == 0, p.stderr.decode(errors="replace")


def compare(d):
    """line-by-line comparison of impl.txt and model.txt joined on the case id"""
    impl = {}
    for l in open(os.path.join(d, "impl.txt")):
        k, _, v = l.rstrip("\n").partition(" ")
        impl[k] = v
    mism = []
    n = 0
    seen = set()
    for l in open(os.path.join(d, "model.txt")):
        k, _, v = l.rstrip("\n").partition(" ")
        seen.add(k)
        n += 1
        if impl.get(k) != v:
            mism.append((k, impl.get(k), v))
    for k in impl:
        if k not in seen:
            mism.append((k, impl[k], None))
    return n, mism


def case_lines(d, ids):
    want = set(ids)
    res = {}
    for fn in ("cases.txt", "oracle_cases.txt"):
        p = os.path.join(d, fn)
        if os.path.exists(p):
            for l in open(p):
                k = l.split(" ", 1)[0]
                if k in want:
                    res[k] = l.rstrip("\n")
    return res


def short(s, n=160):
    s = str(s)
    return s if len(s) <= n else s[:n] + "…(%d chars)" % len(s)


def check(cfg, argv):
    """cfg: dict(id, engine, props_target (list), trusted (list), assumptions (list), rule, design_ref, extra_build (callable or None))"""
    prop = cfg["id"]
    t0 = time.time()
    tier = "quick"
    replay = None
    if len(argv) >= 1 and argv[0] in ("quick", "thorough"):
        tier = argv[0]
    if "--replay" in argv:
        replay = os.path.abspath(argv[argv.index("--replay") + 1])
    tier = os.environ.get("VERIF_TIER", tier) if not replay else tier
    if tier not in ("quick", "thorough"):
        tier = "quick"
    seed = int(os.environ.get("VERIF_SEED", "1") or "1")
    # one run of a property's check at a time (the work directory and the replays are per property);
    # held until the process exits
    global _PROP_LOCK
    _PROP_LOCK = Lock("check-" + prop).__enter__()
    d = os.path.join(WORK, prop)
    shutil.rmtree(d, ignore_errors=True)
    os.makedirs(d)
    os.makedirs(os.path.join(VERIF, "evidence"), exist_ok=True)
    os.makedirs(os.path.join(VERIF, "replays"), exist_ok=True)
    if not replay:
        for fn in os.listdir(os.path.join(VERIF, "replays")):
            if fn.startswith(prop + "-"):
                os.remove(os.path.join(VERIF, "replays", fn))

    broken = []      # proof obligations / correspondences that no longer check: (name, detail)
    notes = []
    thms = theorems_of(prop)
    assumptions = {}
    proof_ok = False
    with Lock():
        ok, unt = regen_gen()
        if not ok:
            broken.append(("T1 translator", unt))
            unt = []
        elif unt:
            notes.append("T1 items not locatable in the source: " + ", ".join(unt))
        bad = forbidden_scan()
        if bad:
            broken.append(("forbidden tokens in the Coq development", "\n".join(bad)))
        # only what this property needs is (re)built: its property file with everything below it, and (in build_model)
        # the theories its extraction imports.  VERIF_MAKE_ALL=1 builds the whole development first (keep going).
        out0 = ""
        if os.environ.get("VERIF_MAKE_ALL") == "1":
            _, out0 = coq_make(["-k"])
        ok, out = coq_make(cfg.get("props_target", ["props/%s.vo" % prop]))
        open(os.path.join(d, "coq_make.log"), "w").write(out0 + "\n=====\n" + out)
        if ok:
            proof_ok = True
            okA, assumptions, outA = print_assumptions(prop, thms)
            if not okA:
                broken.append(("Print Assumptions", outA[-2000:]))
        else:
            m = re.search(r'File "\./([^"]+)", line (\d+)', out)
            where = "%s line %s" % (m.group(1), m.group(2)) if m else "?"
            err = out[out.find("Error"):][:1500] if "Error" in out else out[-1500:]
            broken.append(("Coq proof obligation (%s)" % where, err))
        model_ok = False
        if cfg.get("engine"):
            ok, out = build_model(cfg["engine"])
            open(os.path.join(d, "model_build.log"), "w").write(out)
            model_ok = ok
            if not ok:
                broken.append(("extracted model does not build (engine %s)" % cfg["engine"], out[-1500:]))
        ok, out = build_go(cfg.get("go_binary", "gmh"), cfg.get("go_pkg", "./cmd/gmh"), tags="verif", race=cfg.get("race", False))
        open(os.path.join(d, "go_build.log"), "w").write(out)
        impl_built = ok
        if not ok:
            broken.append(("harness does not build against the working tree", out[-1500:]))

    # thorough tier: the independent checker re-checks the compiled property file and everything it depends on
    # and lists the axioms they rely on (coqchk -o); run under the build lock because it reads the .vo files
    coqchk_note = None
    if tier == "thorough" and proof_ok and not replay and os.environ.get("VERIF_NO_COQCHK") != "1":
        with Lock():
            rc, outc = 1, ""
            for attempt in (1, 2):
                # (re)build inside the same lock hold: another property's check may have rebuilt a shared file
                coq_make(cfg.get("props_target", ["props/%s.vo" % prop]))
                try:
                    rc, outc = sh(["coqchk", "-silent", "-o", "-Q", "theories", "Verif", "-Q", "proofs", "VerifProofs", "-Q", "gen", "VerifGen",
                                   "-Q", "props", "VerifProps", "VerifProps.%s" % prop], cwd=COQ, timeout=3000)
                except Exception as e:  # timeout
                    rc, outc = 1, "coqchk did not finish: %s" % e
                if rc == 0:
                    break
        open(os.path.join(d, "coqchk.log"), "w").write(outc)
        m = re.search(r"\* Axioms:\s*(.*?)\n\s*\n", outc, re.S)
        ax = " ".join(m.group(1).split()) if m else "?"
        if rc != 0:
            broken.append(("coqchk rejects props/%s.vo" % prop, outc[-1500:]))
        elif ax != "<none>":
            broken.append(("coqchk reports axioms under props/%s.vo" % prop, ax))
        coqchk_note = "coqchk -silent -o VerifProps.%s: exit %d, axioms: %s" % (prop, rc, ax)

    known, fixed = load_known(prop)
    known_classes = {c for c, _ in known}
    stats = {}
    failures = []
    mism = []
    compared = 0
    if impl_built:
        corpus = os.path.join(VERIF, "corpus", prop + ".txt")
        ok, out = run_impl(prop, tier, seed, d, cases=replay, corpus=None if replay else corpus,
                           binary=cfg.get("go_binary", "gmh"), timeout=cfg.get("impl_timeout", 3000))
        open(os.path.join(d, "impl_run.log"), "w").write(out)
        if not ok:
            broken.append(("harness run failed", out[-1500:]))
        else:
            stats = json.load(open(os.path.join(d, "stats.json")))
            failures = json.load(open(os.path.join(d, "failures.json")))
            if model_ok and cfg.get("engine"):
                ok, err = run_model(cfg["engine"], d)
                if not ok:
                    broken.append(("model run failed", err[-1500:]))
                else:
                    compared, mism = compare(d)
                    if mism:
                        lines = case_lines(d, [k for k, _, _ in mism[:5]])
                        det = "\n".join("case %s\n  impl : %s\n  model: %s" % (short(lines.get(k, k), 400), short(a), short(b)) for k, a, b in mism[:5])
                        broken.append(("correspondence model<->implementation (%d of %d cases differ)" % (len(mism), compared), det))

    # ---- verdict ----
    viol_lines = []
    kf_lines = []
    unknown = [f for f in failures if f["class"] not in known_classes]
    seen_known = {}
    for f in failures:
        if f["class"] in known_classes:
            seen_known.setdefault(f["class"], []).append(f)
    for c, desc in known:
        if c in seen_known:
            kf_lines.append("KNOWN-FINDING: property=%s %s: %s (%d cases this run, e.g. %s)" % (prop, c, desc, len(seen_known[c]), short(seen_known[c][0]["detail"], 120)))
    searched = 0
    if not unknown and broken and impl_built and not replay:
        # search for a concrete failing input: other seeds, thorough generator, time box
        budget = 60 if tier == "quick" else 600
        ts = time.time()
        k = 0
        while time.time() - ts < budget and not unknown:
            k += 1
            sd = os.path.join(d, "search%d" % k)
            ok, out = run_impl(prop, "thorough" if k > 1 else tier, seed + 1000 * k, sd, binary=cfg.get("go_binary", "gmh"), timeout=max(30, int(budget - (time.time() - ts)) + 60), budget=max(5, int(budget - (time.time() - ts))))
            if not ok:
                break
            fs = json.load(open(os.path.join(sd, "failures.json")))
            searched += json.load(open(os.path.join(sd, "stats.json"))).get("evaluations", 0)
            unknown = [f for f in fs if f["class"] not in known_classes]
            if unknown:
                for fn in ("cases.txt", "oracle_cases.txt"):
                    with open(os.path.join(d, fn), "a") as fo:
                        fo.write(open(os.path.join(sd, fn)).read())
            if k >= 6:
                break
    if unknown:
        byclass = {}
        for f in unknown:
            byclass.setdefault(f["class"], []).append(f)
        for c, fs in sorted(byclass.items()):
            lines = case_lines(d, [f["id"] for f in fs])
            fs2 = sorted(fs, key=lambda f: len(lines.get(f["id"], "")) or 10**9)
            best = fs2[0]
            rp = os.path.join(VERIF, "replays", "%s-%s.txt" % (prop, re.sub(r"[^A-Za-z0-9_.-]", "_", c)))
            with open(rp, "w") as fo:
                fo.write("# property %s violated on the implementation: class %s\n# %s\n# %d failing cases in this run; smallest first\n" % (prop, c, best["detail"].replace("\n", " "), len(fs)))
                for b in broken:
                    fo.write("# also no longer checking: %s\n" % b[0])
                for f in fs2[:3]:
                    if f["id"] in lines:
                        fo.write(lines[f["id"]] + "\n")
            viol_lines.append("VIOLATION property=%s replay=%s" % (prop, rp))
    elif broken:
        rp = os.path.join(VERIF, "replays", "%s-unchecked.txt" % prop)
        with open(rp, "w") as fo:
            fo.write("# property %s is no longer shown to hold; no failing input was found (%d further cases searched)\n" % (prop, searched))
            for name, det in broken:
                fo.write("# no longer checks: %s\n" % name)
                for l in str(det).split("\n")[:40]:
                    fo.write("#   %s\n" % l)
            lines = case_lines(d, [k for k, _, _ in mism[:20]])
            for k, _, _ in mism[:20]:
                if k in lines:
                    fo.write(lines[k] + "\n")
        viol_lines.append("VIOLATION property=%s replay=%s no-failing-input-found" % (prop, rp))

    # ---- evidence ----
    discharged = len(thms) if proof_ok else 0
    tb = list(cfg.get("trusted", []))
    tb.append("Coq 8.16.1 kernel + vm_compute; no native_compute; coqc full .vo build via coq_makefile")
    for t in thms:
        tb.append("Print Assumptions %s: %s" % (t, assumptions.get(t, "not available (proof broken)")))
    if coqchk_note:
        tb.append(coqchk_note)
    cov = {
        "obligations": max(1, len(thms)),
        "discharged": discharged,
        "checker_cmd": "make -C coq -j16 %s  (coqc 8.16.1) ; model_%s < cases | diff impl" % (" ".join(cfg.get("props_target", ["props/%s.vo" % prop])), cfg.get("engine", "-")),
        "trusted_base": tb,
        "theorems": thms,
        "evaluations": stats.get("evaluations", 0),
        "model_compared": compared,
        "disagreements_checked": len(mism),
        "distinct_nontrivial": stats.get("distinct_nontrivial", 0),
        "rule": cfg.get("rule", ""),
        "samples": stats.get("samples", []) or ["(no cases: harness did not run)"],
        "distribution": stats.get("distribution", {}),
        "harness_notes": stats.get("notes", {}),
        "known_findings_seen": [l for l in kf_lines],
        "fixed_entries": fixed,
        "broken": [b[0] for b in broken],
        "t1_notes": notes,
        "search_evaluations": searched,
        "replayed": replay or "",
        "explanation": cfg.get("explanation", ""),
    }
    ev = {"property_id": prop, "tier": tier, "seed": seed, "level": "proof", "coverage": cov,
          "assumptions": cfg.get("assumptions", []), "wall_s": round(time.time() - t0, 2), "violations": len(viol_lines)}
    with open(os.path.join(VERIF, "evidence", prop + ".json"), "w") as f:
        json.dump(ev, f, indent=1)
    for l in kf_lines:
        print(l)
    for b in broken:
        print("BROKEN: %s\n%s" % (b[0], "\n".join("    " + x for x in str(b[1]).split("\n")[:25])))
    print("%s %s: theorems %d/%d, cases %d (model-compared %d, mismatches %d), oracle failures %d (known %d), %.1fs" % (
        prop, tier, discharged, len(thms), stats.get("evaluations", 0), compared, len(mism), len(failures), len(failures) - len([f for f in failures if f["class"] not in known_classes]), time.time() - t0))
    for l in viol_lines:
        print(l)
    return 1 if viol_lines else 0
