#!/usr/bin/env python3
"""generate MANIFEST.json from lib/registry.py and lib/not_applicable.json"""
import json, os, sys
V = os.path.dirname(os.path.dirname(os.path.abspath(__file__)))
sys.path.insert(0, os.path.join(V, "lib"))
import registry
props = [json.loads(l)["id"] for l in open(os.path.join(V, "properties.jsonl"))]
na = json.load(open(os.path.join(V, "lib", "not_applicable.json")))
ready = set(json.load(open(os.path.join(V, "lib", "ready.json"))))
checks = []
for pid in props:
    c = registry.CHECKS.get(pid)
    if not c or pid not in ready:
        continue
    checks.append({
        "property_id": pid,
        "quick_cmd": "./check %s quick" % pid,
        "thorough_cmd": "./check %s thorough" % pid,
        "evidence_file": "/verif/evidence/%s.json" % pid,
        "replay_cmd_template": "./check %s --replay {path}" % pid,
        "engine": c.get("engine", ""),
        "level_claimed": {"category": "proof", "text": c["level_text"], "design_ref": c.get("design_ref", "")},
        "level_note": c["level_note"],
        "technique": c["technique"],
    })
engines = {}
for pid, c in registry.CHECKS.items():
    if pid not in ready:
        continue
    engines.setdefault(c.get("engine", ""), []).append(pid)
man = {
    "version": 1,
    "setup_cmd": "./setup.sh",
    "hooks": {"guard": "verif", "enable": "go build -tags verif (harness module replaces github.com/wneessen/go-mail by /repo)",
              "baseline_off_cmd": "cd /repo && go test -json -vet=off -count=1 -timeout 25m ./...",
              "source_commits": json.load(open(os.path.join(V, "lib", "hook_commits.json"))), "add_only": True},
    "engines": [{"name": e, "path": "/verif/coq/extract/%s" % e, "serves_properties": sorted(ps),
                 "kind_free_text": "Gallina model (coq/theories) + proofs (coq/proofs, coq/props) + extracted OCaml model driver; Go harness /verif/harness"} for e, ps in sorted(engines.items())],
    "checks": checks,
    "not_applicable": [x for x in na if x["property_id"] not in ready],
    "notes": "All checks: ./check <id> quick|thorough. Technique family: machine-checked proof in Coq 8.16.1 with a checked model<->code correspondence; see DESIGN.md.",
}
json.dump(man, open(os.path.join(V, "MANIFEST.json"), "w"), indent=1)
print("MANIFEST.json: %d checks, %d not_applicable" % (len(checks), len(man["not_applicable"])))
