#!/usr/bin/env python3
"""baseline_check.py [repo-dir] — run the repository's test suite (guard off) and verify that every test in
/root/.vp/BASELINE.json stable_pass still passes.  Exit 0 iff none of them fails or is missing."""
import json, os, subprocess, sys
repo = sys.argv[1] if len(sys.argv) > 1 else "/repo"
base = json.load(open("/root/.vp/BASELINE.json"))
want = set(base["stable_pass"])
import random
def run_once():
    # the suite binds fixed TCP ports derived from TEST_BASEPORT / TEST_BASEPORT_SMTP: pick private ranges so that
    # concurrent runs (other scratch worktrees) do not collide
    env = dict(os.environ, GOFLAGS="-mod=mod", GOPROXY="off", GOSUMDB="off", GOTOOLCHAIN="local")
    env.setdefault("TEST_BASEPORT", str(random.randrange(20000, 30000, 100)))
    env.setdefault("TEST_BASEPORT_SMTP", str(random.randrange(30100, 40000, 100)))
    p = subprocess.run(["go", "test", "-json", "-vet=off", "-count=1", "-timeout", "25m", "./..."], cwd=repo, env=env,
                       stdout=subprocess.PIPE, stderr=subprocess.STDOUT, text=True)
    res = {}
    for line in p.stdout.split("\n"):
        try:
            e = json.loads(line)
        except Exception:
            continue
        if e.get("Test") and e.get("Action") in ("pass", "fail", "skip"):
            res[e["Package"] + "::" + e["Test"]] = e["Action"]
    return res
res = run_once()
bad = sorted(t for t in want if res.get(t) != "pass")
if bad and len(bad) < 400:
    # port collisions with a concurrent run show up as scattered failures: a test counts as passing if it passes in a re-run
    res2 = run_once()
    bad = sorted(t for t in bad if res2.get(t) != "pass")
print("stable_pass tests: %d, passing now: %d, not passing: %d" % (len(want), len(want) - len(bad), len(bad)))
for t in bad[:40]:
    print("  NOT PASSING: %s (%s)" % (t, res.get(t, "missing")))
sys.exit(1 if bad else 0)
