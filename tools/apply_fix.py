#!/usr/bin/env python3
"""apply_fix.py <diff> : apply a proposed fix to /repo as one `fix:` commit (after the baseline suite passes)
and append the `fixed:` line to known_findings.txt."""
import re, subprocess, sys, os
d = os.path.abspath(sys.argv[1])
txt = open(d).read()
subj = re.search(r"^# fix:\s*(.*)$", txt, re.M).group(1).strip()
prop = re.search(r"^# property:\s*(\S+)", txt, re.M).group(1)
fin = re.search(r"^# failing input:\s*(.*)$", txt, re.M)
fin = fin.group(1).strip() if fin else ""
def sh(c, **k): return subprocess.run(c, shell=True, text=True, stdout=subprocess.PIPE, stderr=subprocess.STDOUT, **k)
r = sh("git -C /repo apply --3way --whitespace=nowarn %s" % d)
if r.returncode != 0:
    r2 = sh("git -C /repo apply --whitespace=nowarn %s" % d)
    if r2.returncode != 0:
        print("APPLY FAILED\n" + r.stdout + r2.stdout); sys.exit(1)
r = sh("cd /repo && gofmt -l . ; python3 /verif/tools/baseline_check.py /repo")
print(r.stdout.strip())
if r.returncode != 0:
    sh("git -C /repo checkout -- . ; git -C /repo reset -q"); print("BASELINE FAILED, reverted"); sys.exit(1)
import textwrap
body = textwrap.fill("Failing input before this change: " + fin, 78) if fin else ""
msg = "fix: " + subj + ("\n\n" + body if body else "")
open("/tmp/fixmsg.txt", "w").write(msg)
r = sh("git -C /repo add -A && git -C /repo commit -q -F /tmp/fixmsg.txt && git -C /repo log --oneline | head -1")
print(r.stdout.strip())
h = r.stdout.strip().split(" ")[0]
with open("/verif/known_findings.txt", "a") as f:
    f.write("fixed: property=%s %s %s\n" % (prop, h, fin or subj))
os.remove("/tmp/fixmsg.txt")
