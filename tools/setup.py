#!/usr/bin/env python3
import os, sys
V = os.path.dirname(os.path.dirname(os.path.abspath(__file__)))
sys.path.insert(0, os.path.join(V, "lib"))
import vcheck, registry
with vcheck.Lock():
    ok, unt = vcheck.regen_gen()
    if not ok:
        print(unt); sys.exit(1)
    bad = vcheck.forbidden_scan()
    if bad:
        print("forbidden tokens:\n" + "\n".join(bad)); sys.exit(1)
    ok, out = vcheck.coq_make([])
    if not ok:
        print(out[-4000:]); sys.exit(1)
    for e in sorted({c["engine"] for c in registry.CHECKS.values() if c.get("engine")}):
        ok, out = vcheck.build_model(e)
        if not ok:
            print(out[-4000:]); sys.exit(1)
    ok, out = vcheck.build_go("gmh", "./cmd/gmh", tags="verif")
    if not ok:
        print(out[-4000:]); sys.exit(1)
print("setup ok")
