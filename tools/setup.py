#!/usr/bin/env python3
import os, sys
V = os.path.dirname(os.path.dirname(os.path.abspath(__file__)))
sys.path.insert(0, os.path.join(V, "lib"))
import vcheck, registry
with vcheck.Lock():
    ok, unt = vcheck.regen_gen()
    if not ok:
        print(unt); sys.exit(1)
    bad = vcheck.forbidden_scan()
    if bad:
        print("forbidden tokens:\n" + "\n".join(bad)); sys.exit(1)
    import json
    ready = set(json.load(open(os.path.join(V, "lib", "ready.json"))))
    vcheck.coq_make(["-k"])          # everything that builds; work in progress must not block the claimed checks
    targets = []
    for pid, c in registry.CHECKS.items():
        if pid in ready:
            targets += c.get("props_target", ["props/%s.vo" % pid])
    ok, out = vcheck.coq_make(targets)
    if not ok:
        print(out[-4000:]); sys.exit(1)
    for e in sorted({c["engine"] for pid, c in registry.CHECKS.items() if c.get("engine") and pid in ready}):
        ok, out = vcheck.build_model(e)
        if not ok:
            print(out[-4000:]); sys.exit(1)
    ok, out = vcheck.build_go("gmh", "./cmd/gmh", tags="verif")
    if not ok:
        print(out[-4000:]); sys.exit(1)
    for pid, c in registry.CHECKS.items():
        if pid in ready and c.get("go_binary", "gmh") != "gmh":
            ok, out = vcheck.build_go(c["go_binary"], c.get("go_pkg", "./cmd/gmh"), tags="verif", race=c.get("race", False))
            if not ok:
                print(out[-4000:]); sys.exit(1)
print("setup ok")
