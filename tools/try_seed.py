#!/usr/bin/env python3
"""try_seed.py <dir with patch.diff [demo_test.go] meta.json> [--checks C01,C02,...]
Confirms a seeded change (applies to /repo HEAD in a scratch worktree, baseline suite passes, the demonstration
fails with and passes without the change), runs the property's check (and optionally others) against it in an
isolated copy of /verif, and stores everything under /verif/seeded/<name>/."""
import json, os, shutil, subprocess, sys, time
src = os.path.abspath(sys.argv[1])
name = os.path.basename(src.rstrip("/"))
if "--name" in sys.argv:
    name = sys.argv[sys.argv.index("--name") + 1]
meta = json.load(open(os.path.join(src, "meta.json")))
prop = meta.get("property", name.split("-")[0])
checks = [prop]
if "--checks" in sys.argv:
    checks = sys.argv[sys.argv.index("--checks") + 1].split(",")
env = dict(os.environ, GOFLAGS="-mod=mod", GOPROXY="off", GOSUMDB="off", GOTOOLCHAIN="local")
def sh(c, cwd=None, timeout=3600, e=None):
    p = subprocess.run(c, shell=True, cwd=cwd, env=e or env, stdout=subprocess.PIPE, stderr=subprocess.STDOUT, timeout=timeout)
    return p.returncode, p.stdout.decode("utf-8", "replace")
wt, vc = "/tmp/ts_" + name, "/tmp/tv_" + name
sh("git -C /repo worktree remove --force %s; rm -rf %s %s" % (wt, wt, vc))
rc, out = sh("git -C /repo worktree add -q --detach %s HEAD" % wt)
res = {"name": name, "property": prop, "repo_head": sh("git -C /repo log --format=%h -1")[1].strip()}
try:
    demo = os.path.join(src, "demo_test.go")
    sub = "."
    if os.path.exists(demo):
        import re as _re
        mpk = _re.search(r"^package\s+(\w+)", open(demo).read(), _re.M)
        if mpk and mpk.group(1) in ("smtp", "smtp_test"):
            sub = "./smtp"
    demo_dst = os.path.join(wt, sub, "zz_seed_demo_test.go")
    race = "-race " if any("-race" in c for c in meta.get("commands", [])) else ""  # the demonstration needs the race detector
    if os.path.exists(demo):
        shutil.copy(demo, demo_dst)
        rc0, o0 = sh("go test %s-vet=off -count=1 -run 'TestSeed' %s 2>&1 | tail -15" % (race, sub), cwd=wt, timeout=900)
        res["demo_without_patch"] = "PASS" if ("ok " in o0 and "FAIL" not in o0) else "FAIL:\n" + o0[-600:]
        os.remove(demo_dst)
    rc, out = sh("git apply --whitespace=nowarn %s" % os.path.join(src, "patch.diff"), cwd=wt)
    if rc != 0:  # the patch was made against an earlier HEAD: let git merge it
        rc, out = sh("git apply --3way --whitespace=nowarn %s && git reset -q" % os.path.join(src, "patch.diff"), cwd=wt)
        res["applied_3way"] = rc == 0
    res["applies"] = rc == 0
    if rc != 0:
        res["apply_error"] = out[-500:]
    rc, out = sh("go build ./... && python3 /verif/tools/baseline_check.py %s" % wt, cwd=wt)
    res["baseline"] = out.strip().split("\n")[0] if out.strip() else ""
    res["baseline_ok"] = rc == 0
    if os.path.exists(demo):
        shutil.copy(demo, demo_dst)
        rc1, o1 = sh("go test %s-vet=off -count=1 -run 'TestSeed' %s 2>&1 | tail -15" % (race, sub), cwd=wt, timeout=900)
        res["demo_with_patch"] = "FAIL (as intended)" if "FAIL" in o1 else "PASS (demo does not show the breakage):\n" + o1[-400:]
        os.remove(demo_dst)
    # the checks are taken from the last all-green snapshot when there is one (sub-agents' work in progress in
    # /verif must not decide the verdict)
    snap = os.environ.get("VERIF_SNAPSHOT", "/tmp/verif_good" if os.path.isdir("/tmp/verif_good") else "/verif")
    res["checks_from"] = snap
    sh("rsync -a --exclude work --exclude .git --exclude seeded %s/ %s/" % (snap, vc))
    res["checks"] = {}
    for c in checks:
        t = time.time()
        rc, out = sh("./check %s quick" % c, cwd=vc, e=dict(env, VERIF_REPO=wt, VERIF_COQC_TIMEOUT="900"), timeout=3000)
        lines = [l for l in out.split("\n") if l.startswith("VIOLATION") or l.startswith("BROKEN") or " quick:" in l]
        res["checks"][c] = {"exit": rc, "seconds": round(time.time() - t, 1), "lines": [l[:300] for l in lines][:12]}
        for l in out.split("\n"):
            if l.startswith("VIOLATION") and "replay=" in l:
                rp = l.split("replay=")[1].split(" ")[0]
                if os.path.exists(rp):
                    os.makedirs(os.path.join("/verif/seeded", name, "replays"), exist_ok=True)
                    shutil.copy(rp, os.path.join("/verif/seeded", name, "replays", c + "-" + os.path.basename(rp)))
finally:
    sh("git -C /repo worktree remove --force %s; rm -rf %s %s" % (wt, wt, vc))
dst = os.path.join("/verif/seeded", name)
os.makedirs(dst, exist_ok=True)
for f in os.listdir(src):
    if os.path.isfile(os.path.join(src, f)) and f != "meta.json":
        shutil.copy(os.path.join(src, f), os.path.join(dst, f))
prev_meta = {}
if os.path.exists(os.path.join(dst, "meta.json")):
    try:
        prev_meta = json.load(open(os.path.join(dst, "meta.json")))
    except Exception:
        prev_meta = {}
hist = prev_meta.get("history", [])
if prev_meta.get("verification"):
    pv = prev_meta["verification"]
    hist.append({"repo_head": pv.get("repo_head"), "checks": {c: {"exit": r.get("exit"), "lines": r.get("lines", [])[-3:]} for c, r in pv.get("checks", {}).items()}})
if hist:
    meta["history"] = hist
if prev_meta.get("note"):
    meta["note"] = prev_meta["note"]
try:
    _notes = json.load(open("/verif/seeded/notes.json"))
    if name in _notes:
        meta["note"] = _notes[name]
except Exception:
    pass
meta["verification"] = res
meta["what_i_ran"] = ["git worktree add /tmp/ts_%s HEAD; git apply patch.diff" % name, "python3 /verif/tools/baseline_check.py <worktree>",
                      "go test -run TestSeed . (with and without the patch)", "VERIF_REPO=<worktree> ./check <id> quick in an isolated copy of /verif"]
json.dump(meta, open(os.path.join(dst, "meta.json"), "w"), indent=1)
print(json.dumps(res, indent=1))
