// Package c18: line discipline of generated output (C18).
// Implementation side of the correspondence: renders through the public API with
// producers that emit their content in adversarial chunkings, projects the encoded body /
// the folded header field, and applies the direct line-discipline oracle to the whole output.
package c18

import (
	"bytes"
	"fmt"
	"io"
	"mime"
	"strings"
	"unicode/utf8"

	mail "github.com/wneessen/go-mail"
	"verif/harness/bytex"
	"verif/harness/hx"
)

type chunkWriter struct{ chunks [][]byte }

func (cw chunkWriter) write(w io.Writer) (int64, error) {
	var n int64
	for _, c := range cw.chunks {
		k, err := w.Write(c)
		n += int64(k)
		if err != nil {
			return n, err
		}
	}
	return n, nil
}

func render(m *mail.Msg) ([]byte, error) {
	var buf bytes.Buffer
	_, err := m.WriteTo(&buf)
	return buf.Bytes(), err
}

// runMix renders a multi-part message byte-exactly against the model and checks the line discipline of the whole
// output (short names and values: no line of the message may exceed 76 characters, none may contain a bare CR/LF).
func runMix(r *hx.Run, c hx.Case) {
	item := func(s string) [][2]string {
		if s == "-" {
			return nil
		}
		var out [][2]string
		for _, it := range strings.Split(s, ",") {
			f := strings.SplitN(it, ":", 2)
			out = append(out, [2]string{f[0], f[1]})
		}
		return out
	}
	spec := bytex.MsgSpec{From: "from@x.test", To: []string{"to@y.test"}, Enc: c.Args[0], Gen: []bytex.KV{{K: "Subject", V: []string{"mix"}}}}
	chunksOf := func(h string) [][]byte {
		var out [][]byte
		for _, x := range strings.Split(h, "+") {
			out = append(out, hx.UnHex(x))
		}
		return out
	}
	for i, p := range item(c.Args[1]) {
		ct := []string{"text/plain", "text/html", "text/x-third"}[i%3]
		spec.Parts = append(spec.Parts, bytex.PartSpec{CType: ct, Enc: p[0], Prod: bytex.Producer{Chunks: chunksOf(p[1])}})
	}
	for i, f := range item(c.Args[2]) {
		spec.Embeds = append(spec.Embeds, bytex.FileSpec{Name: fmt.Sprintf("e%d.bin", i), Enc: f[0], Prod: bytex.Producer{Chunks: chunksOf(f[1])}})
	}
	for i, f := range item(c.Args[3]) {
		spec.Attach = append(spec.Attach, bytex.FileSpec{Name: fmt.Sprintf("a%d.bin", i), Enc: f[0], Prod: bytex.Producer{Chunks: chunksOf(f[1])}})
	}
	bytex.ResetRand()
	m, err := spec.Build()
	if err != nil {
		r.Fail(c.ID, "harness-build", err.Error())
		return
	}
	desc := bytex.Describe(m, &spec, [3]string{}, bytex.DrawnBoundaries(0, 4))
	sink := &bytex.Sink{K: -1}
	_, werr, pan := bytex.SafeWriteTo(m, sink)
	if pan != nil || werr != nil {
		r.Fail(c.ID, "render-failed", fmt.Sprint(pan, werr))
		return
	}
	out := sink.Accepted
	r.Add(hx.Case{ID: c.ID, Kind: "render", Args: append([]string{desc, "inf", "mix"}, c.Args...)}, fmt.Sprintf("ok %d %s", len(out), hx.Hex(out)), true)
	all8 := true
	for _, l := range [][][2]string{item(c.Args[1]), item(c.Args[2]), item(c.Args[3])} {
		for _, it := range l {
			e := it[0]
			if e == "" {
				e = "x"
			}
			if e != "8bit" {
				all8 = false
			}
		}
	}
	_ = all8
	// every body here is quoted-printable or base64 (the generator uses no 8bit body), every name and value is short
	if cl, d := checkLines(out, 76, false); cl != "" {
		r.Fail(c.ID, "mix-"+cl, d)
	}
	// the caller changes the transfer encoding of every file after the first render (File.Enc is a public field) and
	// renders again: whatever encoding a part ANNOUNCES is the encoding its body has, so the line discipline holds
	files := append(append([]*mail.File{}, m.GetEmbeds()...), m.GetAttachments()...)
	if len(files) == 0 {
		return
	}
	for i, f := range files {
		f.Enc = []mail.Encoding{mail.NoEncoding, mail.EncodingQP, mail.EncodingB64}[(i+len(c.ID))%3]
	}
	bm, br, ba := bytex.Boundaries(out)
	desc2 := bytex.Describe(m, &spec, [3]string{bm, br, ba}, nil)
	sink2 := &bytex.Sink{K: -1}
	_, werr2, pan2 := bytex.SafeWriteTo(m, sink2)
	if pan2 != nil || werr2 != nil {
		r.Fail(c.ID, "render-failed", fmt.Sprint("second render: ", pan2, werr2))
		return
	}
	out2 := sink2.Accepted
	var rb2 [][]byte
	b2m, b2r, b2a := bytex.Boundaries(out2)
	for _, b := range []string{b2m, b2r, b2a} {
		if b != "" {
			rb2 = append(rb2, []byte(b))
		}
	}
	d2 := strings.TrimSuffix(desc2, ";N-") + ";N" + hx.HexList(rb2)
	r.Add(hx.Case{ID: c.ID + "-reenc", Kind: "render", Args: append([]string{d2, "inf", "mix"}, c.Args...)}, fmt.Sprintf("ok %d %s", len(out2), hx.Hex(out2)), true)
	if cl, d := checkLines(out2, 76, false); cl != "" {
		r.Fail(c.ID, "mix-reenc-"+cl, d)
	}
}

// splitHeaderBody splits at the first empty line.
func splitHeaderBody(out []byte) (hdr, body []byte, ok bool) {
	i := bytes.Index(out, []byte("\r\n\r\n"))
	if i < 0 {
		return out, nil, false
	}
	return out[:i+2], out[i+4:], true
}

// checkLines is the direct oracle: CRLF only, length bound per line; hdr tells whether the
// single-token exemption of header lines applies.  A final unterminated line is accepted
// (the message simply ends there; it is no bare CR or LF).
func checkLines(text []byte, max int, hdr bool) (string, string) {
	i := 0
	for i < len(text) {
		j := i
		for j < len(text) && text[j] != '\r' && text[j] != '\n' {
			j++
		}
		line := text[i:j]
		if j < len(text) {
			if text[j] == '\n' {
				return "bare-lf", fmt.Sprintf("bare LF at offset %d", j)
			}
			if j+1 >= len(text) || text[j+1] != '\n' {
				return "bare-cr", fmt.Sprintf("bare CR at offset %d", j)
			}
			j += 2
		}
		if len(line) > max {
			exempt := false
			if hdr {
				t := bytes.TrimLeft(line, " \t")
				exempt = !bytes.ContainsAny(t, " \t")
			}
			if !exempt {
				return "line-too-long", fmt.Sprintf("line of %d > %d: %.60q...", len(line), max, line)
			}
		}
		i = j
	}
	return "", ""
}

// field returns the raw lines (with CRLFs) of header field key in a header block.
func field(hdr []byte, key string) []byte {
	lines := bytes.SplitAfter(hdr, []byte("\r\n"))
	var out []byte
	in := false
	for _, l := range lines {
		if in {
			if len(l) > 0 && (l[0] == ' ' || l[0] == '\t') {
				out = append(out, l...)
				continue
			}
			break
		}
		if bytes.HasPrefix(l, []byte(key+":")) {
			in = true
			out = append(out, l...)
		}
	}
	return out
}

// tabOnlyLongLine: every over-long line of the field contains a TAB but no SP after its leading blank
func tabOnlyLongLine(f []byte) bool {
	for _, l := range bytes.Split(bytes.TrimSuffix(f, []byte("\r\n")), []byte("\r\n")) {
		if len(l) > 78 {
			t := bytes.TrimLeft(l, " ")
			if bytes.IndexByte(t, ' ') >= 0 && bytes.IndexByte(t, ' ') < len(t)-1 {
				// contains an SP inside: could have been folded there; only exempt "Key: " on the first line
				i := bytes.Index(t, []byte(": "))
				if i < 0 || bytes.IndexByte(t[i+2:], ' ') >= 0 {
					return false
				}
			}
			if bytes.IndexByte(t, '\t') < 0 {
				return false
			}
		}
	}
	return true
}

func unfold(f []byte) []byte {
	f = bytes.TrimSuffix(f, []byte("\r\n"))
	f = bytes.ReplaceAll(f, []byte("\r\n "), []byte(" "))
	f = bytes.ReplaceAll(f, []byte("\r\n\t"), []byte("\t"))
	return f
}

func runCase(r *hx.Run, c hx.Case) {
	defer func() {
		if p := recover(); p != nil {
			r.Fail(c.ID, "panic", fmt.Sprint(p))
			r.Add(c, "PANIC", true)
		}
	}()
	switch c.Kind {
	case "b64", "qp":
		chunks := hx.UnHexList(c.Args[0])
		enc := mail.EncodingB64
		if c.Kind == "qp" {
			enc = mail.EncodingQP
		}
		m := mail.NewMsg(mail.WithEncoding(enc))
		m.Subject("s")
		m.SetBodyWriter(mail.TypeTextPlain, chunkWriter{chunks}.write)
		out, err := render(m)
		if err != nil {
			r.Add(c, "ERR", true)
			return
		}
		hdr, body, ok := splitHeaderBody(out)
		if !ok {
			r.Fail(c.ID, "no-header-end", "no empty line in output")
			r.Add(c, "NOSPLIT", true)
			return
		}
		total := 0
		for _, ch := range chunks {
			total += len(ch)
		}
		r.Add(c, hx.Hex(body), len(chunks) > 1 && total > 57)
		if cl, d := checkLines(hdr, 78, true); cl != "" {
			r.Fail(c.ID, "hdr-"+cl, d)
		}
		if cl, d := checkLines(body, 76, false); cl != "" {
			r.Fail(c.ID, c.Kind+"-"+cl, d)
		}
	case "render":
		// replay of the model-side line of a mix case: <desc> inf mix <msgenc> <parts> <embeds> <attach>
		if len(c.Args) >= 7 && c.Args[2] == "addrs" {
			runCase(r, hx.Case{ID: c.ID, Kind: "addrs", Args: c.Args[3:7]})
		} else if len(c.Args) >= 6 && c.Args[2] == "ctype" {
			runCase(r, hx.Case{ID: c.ID, Kind: "ctype", Args: c.Args[3:6]})
		} else if len(c.Args) >= 7 && c.Args[2] == "mix" {
			runMix(r, hx.Case{ID: strings.TrimSuffix(c.ID, "-reenc"), Kind: "mix", Args: c.Args[3:7]})
		} else {
			r.Fail(c.ID, "bad-replay", "unknown render case")
		}
	case "addrs":
		// address headers with display names of every length around the folding limit: From / To / Cc / Reply-To are
		// folded like every other field (no line over 78 characters unless it is a single token)
		spec := bytex.MsgSpec{From: string(hx.UnHex(c.Args[0])), Gen: []bytex.KV{{K: "Subject", V: []string{"addrs"}}},
			Parts: []bytex.PartSpec{{CType: "text/plain", Prod: bytex.Producer{Chunks: [][]byte{[]byte("x\r\n")}}}}}
		for _, a := range hx.UnHexList(c.Args[1]) {
			spec.To = append(spec.To, string(a))
		}
		for _, a := range hx.UnHexList(c.Args[2]) {
			spec.Cc = append(spec.Cc, string(a))
		}
		spec.ReplyTo = string(hx.UnHex(c.Args[3]))
		bytex.ResetRand()
		m, err := spec.Build()
		if err != nil {
			r.AddOracleOnly(c, false) // the setter refused an address: not this property's subject
			return
		}
		desc := bytex.Describe(m, &spec, [3]string{}, bytex.DrawnBoundaries(0, 4))
		sink := &bytex.Sink{K: -1}
		_, werr, pan := bytex.SafeWriteTo(m, sink)
		if pan != nil || werr != nil {
			r.Fail(c.ID, "render-failed", fmt.Sprint(pan, werr))
			return
		}
		out := sink.Accepted
		r.Add(hx.Case{ID: c.ID, Kind: "render", Args: append([]string{desc, "inf", "addrs"}, c.Args...)}, fmt.Sprintf("ok %d %s", len(out), hx.Hex(out)), true)
		hdr, _, ok := splitHeaderBody(out)
		if !ok {
			r.Fail(c.ID, "no-header-end", "no empty line in output")
			return
		}
		if cl, d := checkLines(hdr, 78, true); cl != "" {
			r.Fail(c.ID, "addrs-hdr-"+cl, d)
		}
	case "ctype":
		// a single-part message whose content type has parameters of its own: its Content-Type / Content-Description
		// fields sit in the top-level header section and must be folded like every other field there
		ct := string(hx.UnHex(c.Args[0]))
		spec := bytex.MsgSpec{From: "from@x.test", To: []string{"to@y.test"}, Enc: c.Args[1], Gen: []bytex.KV{{K: "Subject", V: []string{"ctype"}}},
			Parts: []bytex.PartSpec{{CType: ct, Desc: string(hx.UnHex(c.Args[2])), Prod: bytex.Producer{Chunks: [][]byte{[]byte("body text\r\n")}}}}}
		bytex.ResetRand()
		m, err := spec.Build()
		if err != nil {
			r.Fail(c.ID, "harness-build", err.Error())
			return
		}
		desc := bytex.Describe(m, &spec, [3]string{}, bytex.DrawnBoundaries(0, 4))
		sink := &bytex.Sink{K: -1}
		_, werr, pan := bytex.SafeWriteTo(m, sink)
		if pan != nil || werr != nil {
			r.Fail(c.ID, "render-failed", fmt.Sprint(pan, werr))
			return
		}
		out := sink.Accepted
		r.Add(hx.Case{ID: c.ID, Kind: "render", Args: append([]string{desc, "inf", "ctype"}, c.Args...)}, fmt.Sprintf("ok %d %s", len(out), hx.Hex(out)), true)
		hdr, _, ok := splitHeaderBody(out)
		if !ok {
			r.Fail(c.ID, "no-header-end", "no empty line in output")
			return
		}
		if cl, d := checkLines(hdr, 78, true); cl != "" {
			r.Fail(c.ID, "ctype-hdr-"+cl, d)
		}
	case "mix":
		// a multipart message whose parts and files use different transfer encodings in a given order (the writer's
		// per-body scratch state must not leak from one body into the next): args <msgenc> <parts enc:chunks,…> <embeds> <attach>
		runMix(r, c)
	case "b64f":
		// base64 attachment inside multipart/mixed, chunked file writer
		chunks := hx.UnHexList(c.Args[0])
		m := mail.NewMsg()
		m.Subject("s")
		m.SetBodyString(mail.TypeTextPlain, "x")
		if err := m.AttachReader("a.bin", bytes.NewReader(nil)); err != nil {
			r.Add(c, "ERR", true)
			return
		}
		att := m.GetAttachments()
		att[0].Writer = chunkWriter{chunks}.write
		out, err := render(m)
		if err != nil {
			r.Add(c, "ERR", true)
			return
		}
		i := bytes.Index(out, []byte("Content-Disposition: attachment"))
		if i < 0 {
			r.Fail(c.ID, "no-attachment-part", "")
			r.Add(c, "NOPART", true)
			return
		}
		rest := out[i:]
		j := bytes.Index(rest, []byte("\r\n\r\n"))
		k := bytes.LastIndex(rest, []byte("\r\n--"))
		if j < 0 || k < j {
			r.Fail(c.ID, "no-attachment-body", "")
			r.Add(c, "NOBODY", true)
			return
		}
		// the CRLF in front of the delimiter belongs to the delimiter (RFC 2046)
		var body []byte
		if k >= j+4 {
			body = rest[j+4 : k]
		}
		r.Add(c, hx.Hex(body), len(chunks) > 1)
		if cl, d := checkLines(body, 76, false); cl != "" {
			r.Fail(c.ID, "b64f-"+cl, d)
		}
		if cl, d := checkLines(out, 998, false); cl != "" {
			r.Fail(c.ID, "msg-"+cl, d)
		}
	case "hdr":
		key := string(hx.UnHex(c.Args[0]))
		vals := hx.UnHexList(c.Args[1])
		svals := make([]string, len(vals))
		for i, v := range vals {
			svals[i] = string(v)
		}
		m := mail.NewMsg()
		m.SetGenHeader(mail.Header(key), svals...)
		m.SetBodyString(mail.TypeTextPlain, "x")
		out, err := render(m)
		if err != nil {
			r.Add(c, "ERR", true)
			return
		}
		hdr, _, ok := splitHeaderBody(out)
		if !ok {
			r.Fail(c.ID, "no-header-end", "no empty line in output")
			r.Add(c, "NOSPLIT", true)
			return
		}
		f := field(hdr, key)
		full := strings.Join(svals, ", ")
		r.Add(c, hx.Hex(f), len(full) > 60)
		if cl, d := checkLines(hdr, 78, true); cl != "" {
			if cl == "line-too-long" && bytes.Contains(f, []byte("\t")) && tabOnlyLongLine(f) {
				// the fold loop splits at SP only: words separated by TAB are one word for it
				cl = "line-too-long-tab-separated"
			}
			r.Fail(c.ID, "hdr-"+cl, d)
		}
		if len(vals) > 0 {
			want := key + ": " + full
			if got := string(unfold(f)); got != want {
				r.Fail(c.ID, "hdr-unfold-mismatch", fmt.Sprintf("unfolded %q want %q", got, want))
			}
		}
	case "hdrc":
		// values with CR, LF and other control characters (pure ASCII or not): what is stored is an encoded word, the
		// field is compared with the model on the STORED values, and the section must contain no bare CR/LF and no
		// field that was not set
		key := string(hx.UnHex(c.Args[0]))
		vals := hx.UnHexList(c.Args[1])
		svals := make([]string, len(vals))
		for i, v := range vals {
			svals[i] = string(v)
		}
		m := mail.NewMsg()
		m.SetGenHeader(mail.Header(key), svals...)
		m.SetBodyString(mail.TypeTextPlain, "x")
		stored := m.GetGenHeader(mail.Header(key))
		out, err := render(m)
		if err != nil {
			r.Add(c, "ERR", true)
			return
		}
		hdr, _, ok := splitHeaderBody(out)
		if !ok {
			r.Fail(c.ID, "no-header-end", "no empty line in output")
			r.Add(c, "NOSPLIT", true)
			return
		}
		f := field(hdr, key)
		sb := make([][]byte, len(stored))
		for i, v := range stored {
			sb[i] = []byte(v)
		}
		r.Add(hx.Case{ID: c.ID, Kind: "hdr", Args: []string{c.Args[0], hx.HexList(sb)}}, hx.Hex(f), true)
		if cl, d := checkLines(hdr, 78, true); cl != "" {
			r.Fail(c.ID, "hdrc-"+cl, d)
		}
		if len(stored) > 0 {
			want := key + ": " + strings.Join(stored, ", ")
			if got := string(unfold(f)); got != want {
				r.Fail(c.ID, "hdrc-unfold-mismatch", fmt.Sprintf("unfolded %q want %q", got, want))
			}
		}
		for _, l := range bytes.Split(hdr, []byte("\r\n")) {
			if len(l) == 0 || l[0] == ' ' || l[0] == '\t' {
				continue
			}
			name := string(l)
			if i := strings.IndexByte(name, ':'); i >= 0 {
				name = name[:i]
			}
			switch name {
			case key, "Date", "MIME-Version", "Message-ID", "User-Agent", "X-Mailer", "Content-Type", "Content-Transfer-Encoding":
			default:
				r.Fail(c.ID, "hdrc-extra-field", fmt.Sprintf("the header section has the line %q, which was never set (values %q)", l, svals))
			}
		}
		for i, raw := range svals {
			if i < len(stored) && utf8.ValidString(raw) && !strings.Contains(raw, "=?") {
				if got, derr := new(mime.WordDecoder).DecodeHeader(stored[i]); derr != nil || got != raw {
					r.Fail(c.ID, "hdrc-value-not-preserved", fmt.Sprintf("stored %q decodes to %q (%v), set was %q", stored[i], got, derr, raw))
				}
			}
		}
	case "fname":
		// part headers (Content-Type name=, Content-Disposition filename=) for a file name
		name := string(hx.UnHex(c.Args[0]))
		m := mail.NewMsg()
		m.SetBodyString(mail.TypeTextPlain, "x")
		if err := m.AttachReader(name, strings.NewReader("data")); err != nil {
			r.AddOracleOnly(c, true)
			return
		}
		out, err := render(m)
		r.AddOracleOnly(c, true)
		if err != nil {
			return
		}
		// header section of the attachment part
		i := bytes.Index(out, []byte("Content-Disposition: attachment"))
		if i < 0 {
			r.Fail(c.ID, "no-attachment-part", "")
			return
		}
		s := bytes.LastIndex(out[:i], []byte("\r\n--"))
		e := bytes.Index(out[i:], []byte("\r\n\r\n"))
		if s < 0 || e < 0 {
			r.Fail(c.ID, "no-attachment-part", "")
			return
		}
		ph := out[s+2 : i+e+2]
		if cl, d := checkLines(ph, 78, true); cl != "" {
			r.Fail(c.ID, "part-header-"+cl, d)
		}
	default:
		panic("unknown case kind " + c.Kind)
	}
}

var primes = []int{2, 3, 5, 7, 11, 13, 17, 19, 23, 29, 31, 37, 41, 43, 47, 53, 59, 61, 67, 71, 73, 79, 83, 89, 97, 101}

func chunkings(r *hx.Run, content []byte) [][][]byte {
	split := func(size func(i int) int) [][]byte {
		var out [][]byte
		rest := content
		for i := 0; len(rest) > 0; i++ {
			n := size(i)
			if n < 1 {
				n = 1
			}
			if n > len(rest) {
				n = len(rest)
			}
			out = append(out, rest[:n])
			rest = rest[n:]
		}
		return out
	}
	p := primes[r.Rng.Intn(len(primes))]
	fixed := []int{1, 3, 57, 76, 1024, p}
	var all [][][]byte
	all = append(all, [][]byte{content})
	for _, f := range fixed {
		f := f
		all = append(all, split(func(int) int { return f }))
	}
	all = append(all, split(func(int) int { return 1 + r.Rng.Intn(120) }))
	// occasionally an empty write in the middle
	rc := split(func(int) int { return 1 + r.Rng.Intn(40) })
	if len(rc) > 1 {
		k := r.Rng.Intn(len(rc))
		rc = append(rc[:k], append([][]byte{{}}, rc[k:]...)...)
	}
	all = append(all, rc)
	return all
}

func genContent(r *hx.Run, n int, textual bool) []byte {
	b := make([]byte, n)
	for i := range b {
		if textual {
			switch x := r.Rng.Intn(40); {
			case x == 0:
				b[i] = '\n'
			case x == 1:
				b[i] = '='
			case x == 2:
				b[i] = ' '
			case x == 3:
				b[i] = '\t'
			case x == 4:
				b[i] = byte(0xc3)
			case x == 5:
				b[i] = '.'
			case x == 6:
				b[i] = '\r'
			default:
				b[i] = byte(33 + r.Rng.Intn(94))
			}
		} else {
			b[i] = byte(r.Rng.Intn(256))
		}
	}
	if textual {
		// turn bare CRs into CRLF so that the text has CRLF/LF line breaks only
		b = bytes.ReplaceAll(b, []byte("\r"), []byte("\r\n"))
	}
	return b
}

func init() { hx.Register("C18", Run) }

// Run generates (or replays) the C18 cases.
func Run(r *hx.Run, replay []hx.Case) {
	if replay != nil {
		for _, c := range replay {
			runCase(r, c)
		}
		return
	}
	thorough := r.Tier == "thorough"
	// body lengths: 0..400 densely around the wrap points, multiples of 57/76/768
	lengths := []int{}
	for n := 0; n <= 130; n++ {
		lengths = append(lengths, n)
	}
	for _, base := range []int{57 * 3, 57 * 4, 76 * 3, 76 * 5, 399, 768, 1024, 1536} {
		for d := -2; d <= 2; d++ {
			lengths = append(lengths, base+d)
		}
	}
	if thorough {
		for n := 131; n <= 400; n++ {
			lengths = append(lengths, n)
		}
		for k := 0; k < 3000; k++ {
			lengths = append(lengths, r.Rng.Intn(5000))
		}
	}
	for _, n := range lengths {
		if r.Expired() {
			break
		}
		bin := genContent(r, n, false)
		txt := genContent(r, n, true)
		for ci, ch := range chunkings(r, bin) {
			if !thorough && n > 130 && ci > 3 && ci != 7 {
				continue
			}
			runCase(r, hx.Case{ID: r.NewID(), Kind: "b64", Args: []string{hx.HexList(ch)}})
			if ci%3 == 0 {
				runCase(r, hx.Case{ID: r.NewID(), Kind: "b64f", Args: []string{hx.HexList(ch)}})
			}
		}
		for ci, ch := range chunkings(r, txt) {
			if !thorough && n > 130 && ci > 3 && ci != 7 {
				continue
			}
			runCase(r, hx.Case{ID: r.NewID(), Kind: "qp", Args: []string{hx.HexList(ch)}})
		}
	}
	// address headers: the first address of each header with a display name of every length that brings the first
	// line to 70..90 characters, alone and followed by further addresses
	for n := 30; n <= 70; n++ {
		name := strings.Repeat("Nn ", n/3) + strings.Repeat("x", n%3)
		mk := func(local string) string { return fmt.Sprintf("\"%s\" <%s@example.com>", strings.TrimSpace(name), local) }
		one := func(l ...string) string {
			b := make([][]byte, len(l))
			for i, x := range l {
				b[i] = []byte(x)
			}
			return hx.HexList(b)
		}
		runCase(r, hx.Case{ID: r.NewID(), Kind: "addrs", Args: []string{hx.Hex([]byte(mk("from"))), one(mk("to")), one(mk("cc")), hx.Hex([]byte(mk("reply")))}})
		if n%2 == 0 {
			runCase(r, hx.Case{ID: r.NewID(), Kind: "addrs", Args: []string{hx.Hex([]byte("plain@example.com")), one(mk("to"), "second@example.com", mk("third")), one(mk("cc"), "\"Short\" <s@example.com>"), hx.Hex([]byte("r@example.com"))}})
		}
	}
	// single-part messages with long content types and descriptions
	for i, ct := range []string{"text/plain; format=flowed", "text/plain; format=flowed; delsp=yes; x-long-parameter=\"a value of some length that makes the field long\"",
		"text/calendar; method=REQUEST; component=VEVENT; x-producer=\"some calendar software 1.2.3\"", "application/x-very-long-subtype-name-that-goes-on-and-on-and-on-and-on-and-on-and-on; p=1",
		"text/html; x-a=1; x-b=2; x-c=3; x-d=4; x-e=5; x-f=6; x-g=7; x-h=8; x-i=9; x-j=10; x-k=11"} {
		for j, desc := range []string{"", "a description", strings.Repeat("long description words ", 6)} {
			runCase(r, hx.Case{ID: r.NewID(), Kind: "ctype", Args: []string{hx.Hex([]byte(ct)), []string{"quoted-printable", "base64", "8bit"}[(i+j)%3], hx.Hex([]byte(desc))}})
		}
	}
	// multi-part messages: every ordered pair / triple of encodings over body parts and files; contents whose
	// base64 form ends in a partial line (length not a multiple of 57) and quoted-printable text without a final line break
	{
		encs := []string{"quoted-printable", "base64"}
		conts := func(i int) string {
			l := [][]byte{[]byte("no final line break"), bytes.Repeat([]byte("x"), 58), []byte("line one\r\nline two"), bytes.Repeat([]byte("0123456789"), 11),
				[]byte("ends with break\r\n"), bytes.Repeat([]byte{0xc3, 0xa4}, 40)}
			b := l[i%len(l)]
			if i%2 == 0 && len(b) > 20 {
				return hx.Hex(b[:7]) + "+" + hx.Hex(b[7:])
			}
			return hx.Hex(b)
		}
		k := 0
		mk := func(es ...string) string {
			var it []string
			for _, e := range es {
				it = append(it, e+":"+conts(k))
				k++
			}
			if len(it) == 0 {
				return "-"
			}
			return strings.Join(it, ",")
		}
		for _, me := range []string{"quoted-printable", "base64"} {
			for _, a := range encs {
				for _, b := range encs {
					for rep := 0; rep < 3; rep++ {
						runCase(r, hx.Case{ID: r.NewID(), Kind: "mix", Args: []string{me, mk(a, b), "-", "-"}})
						runCase(r, hx.Case{ID: r.NewID(), Kind: "mix", Args: []string{me, mk(a), "-", mk(b)}})
						runCase(r, hx.Case{ID: r.NewID(), Kind: "mix", Args: []string{me, mk(a), mk(b), "-"}})
						for _, c3 := range encs {
							runCase(r, hx.Case{ID: r.NewID(), Kind: "mix", Args: []string{me, mk(a), mk(b), mk(c3)}})
							runCase(r, hx.Case{ID: r.NewID(), Kind: "mix", Args: []string{me, mk(a, b), "-", mk(c3, a)}})
						}
					}
				}
			}
		}
	}
	// header values: words of length 0..300, multiple / leading / trailing blanks
	nh := 1500
	if thorough {
		nh = 60000
	}
	for i := 0; i < nh && !r.Expired(); i++ {
		key := "X-Verif-" + strings.Repeat("k", r.Rng.Intn(30))
		nv := 1 + r.Rng.Intn(3)
		if r.Rng.Intn(50) == 0 {
			nv = 0
		}
		vals := make([][]byte, nv)
		for j := range vals {
			var sb strings.Builder
			nw := 1 + r.Rng.Intn(12)
			for w := 0; w < nw; w++ {
				wl := r.Rng.Intn(14)
				switch r.Rng.Intn(14) {
				case 12:
					// a long run of blanks (empty words)
					sb.WriteString(strings.Repeat(" ", 60+r.Rng.Intn(40)))
					wl = r.Rng.Intn(80)
				case 13:
					wl = 70 + r.Rng.Intn(6)
				case 0:
					wl = 0
				case 1:
					wl = 60 + r.Rng.Intn(20)
				case 2:
					wl = r.Rng.Intn(300)
				}
				for k := 0; k < wl; k++ {
					sb.WriteByte(byte(33 + r.Rng.Intn(94)))
				}
				if w < nw-1 || r.Rng.Intn(10) == 0 {
					sb.WriteByte(' ')
				}
			}
			v := sb.String()
			if r.Rng.Intn(10) == 0 {
				v = " " + v
			}
			vals[j] = []byte(v)
		}
		runCase(r, hx.Case{ID: r.NewID(), Kind: "hdr", Args: []string{hx.Hex([]byte(key)), hx.HexList(vals)}})
	}
	// values with control characters: pure ASCII with CR / LF / CRLF / NUL / ESC, and the same next to non-ASCII text
	{
		ctl := []string{"x\r\nBcc: eve@example.com", "x\nX-Injected: 1", "x\rX-Injected: 1", "line one\r\n line two", "a\x00b", "esc\x1b[0m", "\r\n", "\n", "\r",
			"tail\r\n", "\r\nhead", "caf\xc3\xa9\r\nX-Injected: 1", "bell\x07", "del\x7f", "x\r\n\r\nbody text", strings.Repeat("word ", 20) + "\r\nX: y"}
		for i, v := range ctl {
			runCase(r, hx.Case{ID: r.NewID(), Kind: "hdrc", Args: []string{hx.Hex([]byte("X-Verif-Ctl")), hx.HexList([][]byte{[]byte(v)})}})
			runCase(r, hx.Case{ID: r.NewID(), Kind: "hdrc", Args: []string{hx.Hex([]byte("Subject")), hx.HexList([][]byte{[]byte(v)})}})
			runCase(r, hx.Case{ID: r.NewID(), Kind: "hdrc", Args: []string{hx.Hex([]byte("X-Verif-Two")), hx.HexList([][]byte{[]byte("plain value"), []byte(ctl[(i+3)%len(ctl)]), []byte(v)})}})
		}
		nc := 150
		if thorough {
			nc = 5000
		}
		for i := 0; i < nc && !r.Expired(); i++ {
			n := 1 + r.Rng.Intn(40)
			b := make([]byte, n)
			for k := range b {
				switch r.Rng.Intn(6) {
				case 0:
					b[k] = byte(r.Rng.Intn(32))
				case 1:
					b[k] = []byte{'\r', '\n', ' ', ':'}[r.Rng.Intn(4)]
				default:
					b[k] = byte(33 + r.Rng.Intn(94))
				}
			}
			runCase(r, hx.Case{ID: r.NewID(), Kind: "hdrc", Args: []string{hx.Hex([]byte("X-Verif-Ctl")), hx.HexList([][]byte{b})}})
		}
	}
	// words separated by TAB instead of SP
	for i := 0; i < 12; i++ {
		v := strings.Repeat("a", 30+r.Rng.Intn(40)) + "\t" + strings.Repeat("b", 30+r.Rng.Intn(40))
		if i%3 == 0 {
			v = "short\t" + v + " tail"
		}
		runCase(r, hx.Case{ID: r.NewID(), Kind: "hdr", Args: []string{hx.Hex([]byte("X-Verif-Tab")), hx.HexList([][]byte{[]byte(v)})}})
	}
	// file names through the part headers
	nf := 60
	if thorough {
		nf = 2000
	}
	for i := 0; i < nf; i++ {
		n := 1 + r.Rng.Intn(80)
		var sb strings.Builder
		for k := 0; k < n; k++ {
			switch r.Rng.Intn(4) {
			case 0:
				sb.WriteRune(rune(0xe4 + r.Rng.Intn(20)))
			default:
				sb.WriteByte(byte(97 + r.Rng.Intn(26)))
			}
		}
		if i%3 == 0 { // pure ASCII names
			s := []byte(sb.String())
			for k := range s {
				if s[k] >= 128 {
					s[k] = 'a'
				}
			}
			sb.Reset()
			sb.Write(bytes.ToValidUTF8(s, []byte("a")))
		}
		runCase(r, hx.Case{ID: r.NewID(), Kind: "fname", Args: []string{hx.Hex([]byte(sb.String() + ".txt"))}})
	}
}
