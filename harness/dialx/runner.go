package dialx

import (
	"strings"
	"time"

	"verif/harness/hx"
)

// StallTimeout is the client timeout of cases in which the server goes silent.
const StallTimeout = 600 * time.Millisecond

// TimeoutFor: cases in which the server goes silent run with a short timeout, all others must never wait.
func TimeoutFor(c Case) time.Duration {
	if c.HS == "stall" || c.Mute >= 0 {
		return StallTimeout
	}
	for _, s := range c.Script {
		if s == "stall" || strings.HasPrefix(s, "ws") {
			return StallTimeout
		}
	}
	return 3 * time.Second
}

// FromReplay parses replay / corpus cases.
func FromReplay(r *hx.Run, replay []hx.Case) (cases []Case, ids []string) {
	for _, hc := range replay {
		c, err := Parse(hc.Kind, hc.Args)
		if err != nil {
			r.Fail(hc.ID, "bad-case", err.Error())
			continue
		}
		cases = append(cases, c)
		ids = append(ids, hc.ID)
	}
	return
}

// RunCases executes the cases (bounded parallelism, grouped by timeout), registers the observables in order and
// calls the property's direct oracle on every observation.
func RunCases(r *hx.Run, pki *PKI, cases []Case, ids []string, workers int, nontrivial func(Case) bool, oracle func(r *hx.Run, id string, c Case, o Obs)) {
	obs := make([]Obs, len(cases))
	errs := make([]error, len(cases))
	byT := map[time.Duration][]int{}
	for i, c := range cases {
		byT[TimeoutFor(c)] = append(byT[TimeoutFor(c)], i)
	}
	for t, idx := range byT {
		sub := make([]Case, len(idx))
		for k, i := range idx {
			sub[k] = cases[i]
		}
		o, e := RunAll(sub, pki, t, workers, r.Expired)
		for k, i := range idx {
			obs[i], errs[i] = o[k], e[k]
		}
	}
	for i, c := range cases {
		if errs[i] != nil {
			if !strings.HasPrefix(errs[i].Error(), "skipped") {
				r.Fail(ids[i], "harness-error", errs[i].Error())
			}
			continue
		}
		hc := hx.Case{ID: ids[i], Kind: c.Kind, Args: c.Args()}
		r.Add(hc, obs[i].Observable(c), nontrivial(c))
		r.Dist["policy:"+c.Policy]++
		r.Dist["auth:"+c.Auth]++
		r.Dist["handshake:"+c.HS]++
		res := strings.Join(obs[i].Results, "/")
		if obs[i].Phase != "" {
			res = obs[i].Phase + ":" + res
		}
		r.Dist["result:"+res]++
		if c.SSL {
			r.Dist["transport:tcp-implicit-tls"]++
		}
		oracle(r, ids[i], c, obs[i])
	}
}

// Baseline runs the all-OK dialogue of a configuration: number of script positions (decisions consumed: greeting,
// command lines, every client line of an AUTH exchange, end-of-data), index of the AUTH command's position (-1: none)
func Baseline(pki *PKI, c Case) (n, authPos int, srv string, err error) {
	c.Script = nil
	o, err := Run(c, pki, 3*time.Second)
	if err != nil {
		return 0, -1, "", err
	}
	authPos = -1
	if o.Srv != "-" {
		// up to and including the AUTH command positions and log entries are one to one
		for i, e := range strings.Split(o.Srv, ",") {
			if strings.HasPrefix(e, "AUTH:") && authPos < 0 {
				authPos = i
			}
		}
	}
	return o.Positions, authPos, o.Srv, nil
}

func OKs(n int) []string {
	s := make([]string, n)
	for i := range s {
		s[i] = "ok"
	}
	return s
}

// FallbackTCPCases: real loopback TCP, stock dialers (no WithDialContextFunc), the primary port closed, the fallback
// port a harness listener (verif hook VerifSetFallbackPort): implicit TLS clients x {the fallback server speaks TLS,
// speaks plain SMTP (the client must fail the handshake and never talk SMTP in clear), accepts and stays silent in
// the handshake, presents a wrong-name certificate, is closed too}, and clients with the opportunistic policy x
// {STARTTLS advertised or not, silent server, fallback closed}.
func FallbackTCPCases() []Case {
	var out []Case
	capsTLS := []string{"8BITMIME", "AUTH PLAIN LOGIN"}
	for _, host := range []string{OtherTCP, "127.0.0.1"} {
		for _, kind := range []string{"dial", "das"} {
			msgs := []int(nil)
			if kind == "das" {
				msgs = []int{1}
			}
			for _, auth := range []string{"NOAUTH", "AUTODISCOVER"} {
				ssl := Case{Kind: kind, Policy: "M", SSL: true, Auth: auth, Custom: "-", Host: host, Mute: -1, Caps: capsTLS, CapsTLS: capsTLS,
					HS: "ok", Msgs: msgs, Fallback: true, Refuse: 1, TCP: true}
				for _, hs := range []string{"ok", "plain", "stall", "wrongname"} {
					c := ssl
					c.HS = hs
					out = append(out, c)
				}
				c := ssl
				c.Refuse = 2
				out = append(out, c)
				for _, adv := range []bool{true, false} {
					o := Case{Kind: kind, Policy: "O", Auth: auth, Custom: "-", Host: host, Mute: -1, Caps: capsTLS, CapsTLS: capsTLS,
						HS: "ok", Msgs: msgs, Fallback: true, Refuse: 1, TCP: true}
					if adv {
						o.Caps = []string{"8BITMIME", "STARTTLS", "AUTH PLAIN LOGIN"}
					}
					out = append(out, o)
				}
			}
			o := Case{Kind: kind, Policy: "O", Auth: "NOAUTH", Custom: "-", Host: host, Mute: -1, Caps: capsTLS, CapsTLS: capsTLS,
				HS: "ok", Msgs: msgs, Fallback: true, Refuse: 1, TCP: true, Script: []string{"stall"}}
			out = append(out, o)
			o.Script, o.Refuse = nil, 2
			out = append(out, o)
		}
	}
	return out
}

// WriteStallCases: the server answers DATA with 354 and stops reading (the client's writes block until the write
// deadline: ws, or fail at once: wf) at every offset class of the content -- inside the headers, inside the body (large
// message), at the final dot (short message: nothing is written before the final flush) -- for DialAndSend, and for
// Dial / Send / (Send /) Reset / Close on a persistent connection, in cleartext and inside TLS.
func WriteStallCases(pki *PKI) ([]Case, error) {
	var out []Case
	caps := []string{"8BITMIME", "STARTTLS"}
	capsTLS := []string{"8BITMIME"}
	for _, pol := range []string{"N", "M"} {
		for _, kind := range []string{"das", "sess", "sess2"} {
			base := Case{Kind: kind, Policy: pol, Auth: "NOAUTH", Custom: "-", Host: OtherMem, Mute: -1, Caps: caps, CapsTLS: capsTLS, HS: "ok", Msgs: []int{1}}
			_, _, log, err := Baseline(pki, base)
			if err != nil {
				return nil, err
			}
			pd := -1
			for i, e := range strings.Split(log, ",") {
				if strings.HasPrefix(e, "DATA") && pd < 0 {
					pd = i
				}
			}
			if pd < 0 {
				continue
			}
			for _, tok := range []string{"ws:100", "ws:150000", "wsl", "wf:100", "wf:150000", "wfl"} {
				c := base
				c.Script = append(OKs(pd), tok)
				out = append(out, c)
			}
		}
	}
	return out, nil
}

// WriteStallTCPCases (thorough): the same over real loopback TCP -- the server stops reading after the 354 and the body
// is larger than the socket buffers, so the kernel blocks the client's write
func WriteStallTCPCases() []Case {
	var out []Case
	for _, kind := range []string{"das", "sess"} {
		c := Case{Kind: kind, Policy: "O", Auth: "NOAUTH", Custom: "-", Host: "127.0.0.1", Mute: -1, Caps: []string{"8BITMIME"}, CapsTLS: []string{"8BITMIME"},
			HS: "ok", Msgs: []int{1}, Fallback: true, Refuse: 1, TCP: true}
		pd := 5 // GREETING EHLO NOOP MAIL RCPT DATA
		c.Script = append(OKs(pd), "ws:0")
		out = append(out, c)
	}
	return out
}
