// Package dialx: helpers shared by the dial-dialogue harnesses (C07, C17, C19): a case = configuration of the
// go-mail client + behaviour of the scripted smtpx server (+ TLS handshake behaviour with certificates generated at
// run time); Run executes one case against the real client through its public API and returns the observables in
// exactly the text the extracted model (coq/extract/smtpdial/driver.ml) prints.
package dialx

import (
	"bytes"
	"context"
	"crypto/ecdsa"
	"crypto/elliptic"
	"crypto/rand"
	"crypto/tls"
	"crypto/x509"
	"crypto/x509/pkix"
	"encoding/base64"
	"encoding/hex"
	"encoding/pem"
	"errors"
	"fmt"
	"io"
	"math/big"
	"net"
	"net/textproto"
	"os"
	"path/filepath"
	"runtime"
	"strconv"
	"strings"
	"sync"
	"sync/atomic"
	"syscall"
	"time"

	mail "github.com/wneessen/go-mail"
	"github.com/wneessen/go-mail/smtp"

	"verif/harness/hx"
	"verif/harness/smtpx"
)

const (
	User     = "u5er.Name@verif.test"
	Pass     = "s3cr3t-Pa55w0rd!x"
	HeloName = "client.verif.test"
	OtherMem = "mail.verif.test" // a non-localhost host name for the in-memory transport
	OtherTCP = "127.0.0.2"       // a non-localhost host that is reachable without DNS (loopback /8)
)

// ---------------------------------------------------------------------------------------------
// PKI generated at run time; the harness CA becomes the process's system root through SSL_CERT_FILE so that
// go-mail's DEFAULT tls.Config (ServerName = host, no custom roots) is what gets exercised.

type PKI struct {
	Good, WrongName, Untrusted tls.Certificate
}

var (
	pkiOnce sync.Once
	pki     *PKI
	pkiErr  error
)

func mkCert(cn string, dns []string, ips []net.IP, ca *x509.Certificate, caKey *ecdsa.PrivateKey, isCA bool) (tls.Certificate, *x509.Certificate, *ecdsa.PrivateKey, error) {
	key, err := ecdsa.GenerateKey(elliptic.P256(), rand.Reader)
	if err != nil {
		return tls.Certificate{}, nil, nil, err
	}
	serial, _ := rand.Int(rand.Reader, big.NewInt(1<<62))
	tpl := &x509.Certificate{SerialNumber: serial, Subject: pkix.Name{CommonName: cn}, NotBefore: time.Now().Add(-time.Hour),
		NotAfter: time.Now().Add(48 * time.Hour), KeyUsage: x509.KeyUsageDigitalSignature, ExtKeyUsage: []x509.ExtKeyUsage{x509.ExtKeyUsageServerAuth},
		DNSNames: dns, IPAddresses: ips, BasicConstraintsValid: true}
	parent, pkey := ca, caKey
	if isCA {
		tpl.IsCA = true
		tpl.KeyUsage = x509.KeyUsageCertSign | x509.KeyUsageDigitalSignature
		parent, pkey = tpl, key
	}
	der, err := x509.CreateCertificate(rand.Reader, tpl, parent, &key.PublicKey, pkey)
	if err != nil {
		return tls.Certificate{}, nil, nil, err
	}
	c, _ := x509.ParseCertificate(der)
	return tls.Certificate{Certificate: [][]byte{der}, PrivateKey: key, Leaf: c}, c, key, nil
}

// Setup generates the PKI (once per process), writes the CA to dir and points SSL_CERT_FILE at it.  It must run
// before the process's first certificate verification against the system roots.
func Setup(dir string) (*PKI, error) {
	pkiOnce.Do(func() {
		_, ca, caKey, err := mkCert("verif harness CA", nil, nil, nil, nil, true)
		if err != nil {
			pkiErr = err
			return
		}
		_, ca2, ca2Key, err := mkCert("verif untrusted CA", nil, nil, nil, nil, true)
		if err != nil {
			pkiErr = err
			return
		}
		names := []string{"localhost", OtherMem}
		ips := []net.IP{net.ParseIP("127.0.0.1"), net.ParseIP("::1"), net.ParseIP(OtherTCP)}
		p := &PKI{}
		if p.Good, _, _, err = mkCert("good", names, ips, ca, caKey, false); err != nil {
			pkiErr = err
			return
		}
		if p.WrongName, _, _, err = mkCert("wrongname", []string{"elsewhere.invalid"}, []net.IP{net.ParseIP("10.255.255.1")}, ca, caKey, false); err != nil {
			pkiErr = err
			return
		}
		if p.Untrusted, _, _, err = mkCert("untrusted", names, ips, ca2, ca2Key, false); err != nil {
			pkiErr = err
			return
		}
		if err = os.MkdirAll(dir, 0o755); err != nil {
			pkiErr = err
			return
		}
		caFile := filepath.Join(dir, "harness-ca.pem")
		if err = os.WriteFile(caFile, pem.EncodeToMemory(&pem.Block{Type: "CERTIFICATE", Bytes: ca.Raw}), 0o644); err != nil {
			pkiErr = err
			return
		}
		emptyDir := filepath.Join(dir, "no-certs")
		_ = os.MkdirAll(emptyDir, 0o755)
		os.Setenv("SSL_CERT_FILE", caFile)
		os.Setenv("SSL_CERT_DIR", emptyDir)
		pki = p
	})
	return pki, pkiErr
}

// ServerTLS is the TLS configuration of a harness server with the good certificate.
func ServerTLS(p *PKI) *tls.Config {
	return &tls.Config{Certificates: []tls.Certificate{p.Good}, MinVersion: tls.VersionTLS12}
}

// ---------------------------------------------------------------------------------------------
// cases

type Case struct {
	Kind    string // dial | das | sess
	Policy  string // M | O | N
	SSL     bool
	Auth    string // SMTPAuthType value
	Custom  string // - | plain0 | plain1 | login0 | cram | xoauth2   (WithSMTPAuthCustom)
	Host    string
	NoNoop  bool
	Mute    int // -1: none; n: the server's (n+1)-th and later writes never arrive
	Caps    []string
	CapsTLS []string
	HS      string   // ok | wrongname | untrusted | garbage | stall
	Script  []string // ok | drop | stall | <code> | <code>b (base64 text) | <code>e (empty text)
	Msgs    []int    // recipients per message
	// a fallback port is configured (WithTLSPortPolicy / WithSSLPort(true) instead of WithTLSPolicy / WithSSL); Refuse:
	// the first Refuse attempts of the dial function fail (in-memory transport only)
	Fallback bool
	Refuse   int
	// TCP (with Fallback): real loopback sockets and the stock dialers, no WithDialContextFunc: the primary port is a
	// closed port, the fallback port (set through the verif hook VerifSetFallbackPort) a harness listener, or closed as
	// well when Refuse >= 2.  HS "plain" (with SSL): the fallback server speaks plain SMTP instead of TLS.
	TCP bool
}

// Net: the case runs over real TCP sockets (no tracked in-memory connection)
func (c Case) Net() bool { return c.SSL || c.TCP }

func list(l []string) string {
	if len(l) == 0 {
		return "-"
	}
	return strings.Join(l, ",")
}

func (c Case) Args() []string {
	caps := make([][]byte, len(c.Caps))
	for i, s := range c.Caps {
		caps[i] = []byte(s)
	}
	capst := make([][]byte, len(c.CapsTLS))
	for i, s := range c.CapsTLS {
		capst[i] = []byte(s)
	}
	mute := "-"
	if c.Mute >= 0 {
		mute = strconv.Itoa(c.Mute)
	}
	ms := make([]string, len(c.Msgs))
	for i, n := range c.Msgs {
		ms[i] = strconv.Itoa(n)
	}
	b := func(x bool) string {
		if x {
			return "1"
		}
		return "0"
	}
	args := []string{c.Policy, b(c.SSL), hx.Hex([]byte(c.Auth)), c.Custom, hx.Hex([]byte(c.Host)), b(c.NoNoop), mute,
		hx.HexList(caps), hx.HexList(capst), c.HS, list(c.Script), list(ms)}
	if c.Fallback || c.Refuse > 0 {
		fb := b(c.Fallback)
		if c.TCP {
			fb = "2"
		}
		args = append(args, fb, strconv.Itoa(c.Refuse))
	}
	return args
}

func Parse(kind string, a []string) (Case, error) {
	if len(a) != 12 && len(a) != 14 {
		return Case{}, fmt.Errorf("case needs 12 or 14 arguments, has %d", len(a))
	}
	c := Case{Kind: kind, Policy: a[0], SSL: a[1] == "1", Auth: string(hx.UnHex(a[2])), Custom: a[3], Host: string(hx.UnHex(a[4])),
		NoNoop: a[5] == "1", Mute: -1, HS: a[9]}
	if a[6] != "-" {
		c.Mute, _ = strconv.Atoi(a[6])
	}
	for _, x := range hx.UnHexList(a[7]) {
		c.Caps = append(c.Caps, string(x))
	}
	for _, x := range hx.UnHexList(a[8]) {
		c.CapsTLS = append(c.CapsTLS, string(x))
	}
	if a[10] != "-" {
		c.Script = strings.Split(a[10], ",")
	}
	if a[11] != "-" {
		for _, x := range strings.Split(a[11], ",") {
			n, _ := strconv.Atoi(x)
			c.Msgs = append(c.Msgs, n)
		}
	}
	if len(a) == 14 {
		c.Fallback = a[12] == "1" || a[12] == "2"
		c.TCP = a[12] == "2"
		c.Refuse, _ = strconv.Atoi(a[13])
	}
	return c, nil
}

const B64Text = "dmVyaWY=" // a valid base64 reply text ("verif")

// WriteStall parses a write-stall decision: ws:<n> / wf:<n> (the client may write n more bytes, then its writes block
// until the write deadline / fail; the message gets a large body so that the content does not fit into the bufio
// buffer), wsl / wfl (short message: nothing is written before the final flush in dataCloser.Close; n = 10)
func WriteStall(s string) (n int, fail, late bool) {
	fail = strings.HasPrefix(s, "wf")
	if i := strings.IndexByte(s, ':'); i >= 0 {
		n, _ = strconv.Atoi(s[i+1:])
		return n, fail, false
	}
	return 10, fail, true
}

// BigBody: the case needs a message whose content is written to the transport before the final flush
func (c Case) BigBody() bool {
	for _, s := range c.Script {
		if (strings.HasPrefix(s, "ws:") || strings.HasPrefix(s, "wf:")) && !strings.HasSuffix(s, "l") {
			return true
		}
	}
	return false
}

func decision(s string) smtpx.Decision {
	if strings.HasPrefix(s, "ws") || strings.HasPrefix(s, "wf") {
		// DATA position: 354, then the server stops reading (see WriteStall)
		n, fail, _ := WriteStall(s)
		kind := "stallwrite"
		if fail {
			kind = "failwrite"
		}
		return smtpx.Decision{Kind: kind, Code: n}
	}
	switch s {
	case "ok":
		return smtpx.OK()
	case "drop":
		return smtpx.Drop()
	case "stall":
		return smtpx.Stall()
	}
	if strings.HasSuffix(s, "b") {
		n, _ := strconv.Atoi(s[:len(s)-1])
		return smtpx.Reply(n, B64Text)
	}
	if strings.HasSuffix(s, "e") {
		n, _ := strconv.Atoi(s[:len(s)-1])
		return smtpx.Reply(n, smtpx.EmptyChallenge) // "334 " (an empty challenge; AUTH exchanges only)
	}
	n, _ := strconv.Atoi(s)
	return smtpx.Reply(n, "")
}

// ---------------------------------------------------------------------------------------------
// transports

// muteConn swallows the server's writes from the (n+1)-th on: the client sees a peer that went silent
type muteConn struct {
	net.Conn
	mu   sync.Mutex
	left int
}

func (m *muteConn) Write(p []byte) (int, error) {
	m.mu.Lock()
	if m.left <= 0 {
		m.mu.Unlock()
		return len(p), nil
	}
	m.left--
	m.mu.Unlock()
	return m.Conn.Write(p)
}

// tapConn records what the server side reads from a TCP connection (the client's raw bytes)
type tapConn struct {
	net.Conn
	mu  sync.Mutex
	got []byte
}

func (t *tapConn) Read(p []byte) (int, error) {
	n, err := t.Conn.Read(p)
	if n > 0 {
		t.mu.Lock()
		if len(t.got) < 1<<16 {
			t.got = append(t.got, p[:n]...)
		}
		t.mu.Unlock()
	}
	return n, err
}

func (t *tapConn) Got() []byte {
	t.mu.Lock()
	defer t.mu.Unlock()
	return append([]byte(nil), t.got...)
}

// ---------------------------------------------------------------------------------------------
// observations

type Obs struct {
	Results   []string // result class per public call
	Phase     string   // das: dial | send | close | ""
	Err       string   // text of the first error (for reports)
	Opened    bool     // the dial function handed a connection to the client
	Closed    bool
	Closes    int
	Arm       string // per cleartext read A/U, then "|" and the summary of the reads below TLS
	Srv       string
	LastVerb  string
	Positions int           // number of script decisions the server consumed (command positions incl. AUTH steps)
	Ended     bool          // the server side ended without being forced (the client closed, or the server closed itself)
	Hung      bool          // the watchdog had to tear the case down
	HungCall  string        // the public call that did not return within the bound
	Conn      *smtpx.Conn   // kind dialk: the connection left open for the next call
	Server    *smtpx.Server // kind dialk: its server
	Arms      int           // SetDeadline calls on the tracked connection (arming points passed)
	Spent     int           // deadlines waited out: timeouts of a read made under a deadline that had not expired before
	Calls     []CallTime    // wall time of every public call
	Elapsed   time.Duration
	Clear     []byte // mem: bytes the client wrote before its first TLS record; tcp: first raw bytes the server read
	AllTLS    bool   // tcp: the raw byte stream starts with a TLS handshake record
	Unarmed   int    // number of blocking reads made without a deadline
}

// CallTime is the wall time one public call took.
type CallTime struct {
	Name    string
	Elapsed time.Duration
}

// Observable renders exactly what the model driver prints for the case.
func (o Obs) Observable(c Case) string {
	rs := strings.Join(o.Results, "/")
	if o.Phase != "" {
		rs = o.Phase + ":" + rs
	}
	b := func(x bool) int {
		if x {
			return 1
		}
		return 0
	}
	if c.Net() {
		return fmt.Sprintf("%s ended=%d srv=%s", rs, b(o.Ended), o.Srv)
	}
	return fmt.Sprintf("%s closes=%d open=%d arm=%s arms=%d spent=%d srv=%s", rs, o.Closes, b(o.Opened && !o.Closed), o.Arm, o.Arms, o.Spent, o.Srv)
}

var errDialRefused = errors.New("dialx: connection refused (scripted)")

// Classify maps an error of the go-mail API to the model's error class.
func Classify(err error) string {
	if err == nil {
		return "ok"
	}
	var te *textproto.Error
	var pe textproto.ProtocolError
	var ne net.Error
	var b64 base64.CorruptInputError
	var x1 x509.HostnameError
	var x2 x509.UnknownAuthorityError
	var x3 x509.CertificateInvalidError
	var rh tls.RecordHeaderError
	msg := err.Error()
	switch {
	case errors.Is(err, errDialRefused), errors.Is(err, syscall.ECONNREFUSED):
		return "dialfail"
	case errors.Is(err, smtp.ErrUnencrypted):
		return "unenc"
	case errors.Is(err, smtp.ErrWrongHostname):
		return "wronghost"
	case errors.Is(err, smtp.ErrUnexpectedServerChallange), errors.Is(err, smtp.ErrUnexpectedServerResponse), errors.As(err, &b64):
		return "mech"
	case errors.Is(err, mail.ErrPlainAuthNotSupported), errors.Is(err, mail.ErrLoginAuthNotSupported), errors.Is(err, mail.ErrCramMD5AuthNotSupported),
		errors.Is(err, mail.ErrXOauth2AuthNotSupported), errors.Is(err, mail.ErrSCRAMSHA1AuthNotSupported), errors.Is(err, mail.ErrSCRAMSHA256AuthNotSupported),
		errors.Is(err, mail.ErrSCRAMSHA1PLUSAuthNotSupported), errors.Is(err, mail.ErrSCRAMSHA256PLUSAuthNotSupported):
		return "nomech"
	case errors.Is(err, mail.ErrNoSupportedAuthDiscovered):
		return "nodiscover"
	case errors.Is(err, smtp.ErrNonTLSConnection):
		return "nontls"
	case errors.Is(err, smtp.ErrNoConnection):
		return "noconn"
	case errors.Is(err, mail.ErrNoActiveConnection):
		return "notconn"
	case errors.Is(err, mail.ErrDeadlineExtendFailed):
		return "send"
	case strings.Contains(msg, "without a valid SCRAM server signature"):
		return "mech" // smtp.ErrScramServerNotVerified (matched by text: older trees do not have the variable)
	case strings.Contains(msg, "does not support STARTTLS"):
		return "nostarttls"
	case strings.Contains(msg, "server does not support SMTP AUTH") && !strings.Contains(msg, "type"):
		return "noauth"
	case strings.Contains(msg, "unsupported SMTP AUTH type"):
		return "badtype"
	case errors.As(err, &te):
		return fmt.Sprintf("code:%d", te.Code)
	case errors.As(err, &pe):
		return "proto"
	case errors.As(err, &x1), errors.As(err, &x2), errors.As(err, &x3), errors.As(err, &rh), strings.Contains(msg, "tls: "), strings.Contains(msg, "x509: "):
		return "tls"
	case errors.Is(err, io.EOF):
		return "eof"
	case errors.Is(err, os.ErrDeadlineExceeded), errors.Is(err, context.DeadlineExceeded), errors.As(err, &ne) && ne.Timeout():
		return "timeout"
	case errors.Is(err, io.ErrClosedPipe), errors.Is(err, net.ErrClosed), errors.Is(err, syscall.EPIPE):
		return "write"
	}
	return "other:" + strings.ReplaceAll(msg, " ", "_")
}

var bigBody = strings.Repeat("The quick brown fox jumps over the lazy dog. 0123456789 abcdefghijklmnopqrstuvwxyz\r\n", 4000) // ~ 330 KB

func newMsgSized(nrcpt int, big bool) *mail.Msg {
	m := newMsg(nrcpt)
	if big {
		m.SetBodyString(mail.TypeTextPlain, bigBody)
	}
	return m
}

// newMsgHuge: a body larger than the loopback socket buffers (~ 16 MB)
func newMsgHuge(nrcpt int) *mail.Msg {
	m := newMsg(nrcpt)
	m.SetBodyString(mail.TypeTextPlain, strings.Repeat(bigBody, 48))
	return m
}

func newMsg(nrcpt int) *mail.Msg {
	m := mail.NewMsg()
	_ = m.From("sender@verif.test")
	for i := 0; i < nrcpt; i++ {
		_ = m.AddTo(fmt.Sprintf("rcpt%d@verif.test", i))
	}
	m.Subject("dial dialogue")
	m.SetBodyString(mail.TypeTextPlain, "hello\r\n")
	return m
}

func customAuth(name, host string) smtp.Auth {
	switch name {
	case "plain0":
		return smtp.PlainAuth("", User, Pass, host, false)
	case "plain1":
		return smtp.PlainAuth("", User, Pass, host, true)
	case "login0":
		return smtp.LoginAuth(User, Pass, host, false)
	case "cram":
		return smtp.CRAMMD5Auth(User, Pass)
	case "xoauth2":
		return smtp.XOAuth2Auth(User, Pass)
	}
	return nil
}

// closeNotifyArtefact: after a 221 the reference server closes its end at once; tls.Conn.Close then may or may not be
// able to write its close_notify alert into the in-memory pipe (a timing race of the transport, on TCP the write
// succeeds).  The QUIT was acknowledged and the connection is closed: canonicalised to success.
func closeNotifyArtefact(err error) bool {
	return err != nil && strings.Contains(err.Error(), "closeNotify")
}

// Bound is the property's generous bound on the duration of one public call.
func Bound(timeout time.Duration) time.Duration {
	b := 20 * timeout
	if b < 5*time.Second {
		b = 5 * time.Second
	}
	return b
}

// Run executes one case against the real client.
func Run(c Case, p *PKI, timeout time.Duration) (Obs, error) { return RunWith(c, p, timeout, nil) }

// RunWith is Run with a client that the caller configures: build receives the transport options (the dial function of
// the in-memory transport) and returns the client; the configuration fields of the case then only describe what the
// model is to assume.
func RunWith(c Case, p *PKI, timeout time.Duration, build func(transport ...mail.Option) (*mail.Client, error)) (Obs, error) {
	var o Obs
	script := make([]smtpx.Decision, len(c.Script))
	for i, s := range c.Script {
		script[i] = decision(s)
	}
	srv := smtpx.NewServer(c.Caps, script)
	srv.StepAuth = true // one decision per client line of an AUTH exchange (the model's server semantics)
	srv.CapsAfterTLS = append([]string{}, c.CapsTLS...)
	release := make(chan struct{})
	var rawMu sync.Mutex
	var rawConn net.Conn // the server's underlying connection (for the garbage handshake)
	switch c.HS {
	case "ok", "plain":
		srv.TLSConfig = &tls.Config{Certificates: []tls.Certificate{p.Good}, MinVersion: tls.VersionTLS12}
	case "wrongname":
		srv.TLSConfig = &tls.Config{Certificates: []tls.Certificate{p.WrongName}, MinVersion: tls.VersionTLS12}
	case "untrusted":
		srv.TLSConfig = &tls.Config{Certificates: []tls.Certificate{p.Untrusted}, MinVersion: tls.VersionTLS12}
	case "garbage":
		srv.TLSConfig = &tls.Config{Certificates: []tls.Certificate{p.Good}, GetConfigForClient: func(chi *tls.ClientHelloInfo) (*tls.Config, error) {
			rawMu.Lock()
			rc := rawConn
			rawMu.Unlock()
			if rc == nil {
				rc = chi.Conn
			}
			_, _ = rc.Write([]byte("this is not a TLS record at all\r\n"))
			return nil, errors.New("garbage handshake")
		}}
	case "stall":
		srv.TLSConfig = &tls.Config{Certificates: []tls.Certificate{p.Good}, GetConfigForClient: func(chi *tls.ClientHelloInfo) (*tls.Config, error) {
			<-release
			return nil, errors.New("stalled handshake")
		}}
	default:
		return o, fmt.Errorf("unknown handshake behaviour %q", c.HS)
	}

	opts := []mail.Option{mail.WithTimeout(timeout), mail.WithHELO(HeloName)}
	pol := map[string]mail.TLSPolicy{"M": mail.TLSMandatory, "O": mail.TLSOpportunistic, "N": mail.NoTLS}
	if _, ok := pol[c.Policy]; !ok {
		return o, fmt.Errorf("unknown policy %q", c.Policy)
	}
	opts = append(opts, mail.WithTLSPolicy(pol[c.Policy]))
	if c.Fallback {
		// a public way to a fallback port that leaves useSSL alone: WithTLSPortPolicy(TLSOpportunistic) on the default
		// port (port 587, fallback 25); the policy is then set (again) to what the case says
		opts = append(opts, mail.WithTLSPortPolicy(mail.TLSOpportunistic), mail.WithTLSPolicy(pol[c.Policy]))
	}
	if c.Custom != "-" {
		a := customAuth(c.Custom, c.Host)
		if a == nil {
			return o, fmt.Errorf("unknown custom mechanism %q", c.Custom)
		}
		opts = append(opts, mail.WithSMTPAuthCustom(a))
		if c.Auth != string(mail.SMTPAuthCustom) {
			opts = append(opts, mail.WithSMTPAuth(mail.SMTPAuthType(c.Auth))) // the type is overwritten, the function stays
		}
	} else {
		opts = append(opts, mail.WithSMTPAuth(mail.SMTPAuthType(c.Auth)))
	}
	opts = append(opts, mail.WithUsername(User), mail.WithPassword(Pass))
	if c.NoNoop {
		opts = append(opts, mail.WithoutNoop())
	}

	var topts []mail.Option
	var memClient *smtpx.Conn
	var tap *tapConn
	var ln net.Listener
	fallbackPort := 0
	if c.Net() {
		// real sockets: "the server stops reading" = the server goroutine blocks until the case is over
		srv.OnWriteStall = func(int, bool) { <-release }
		srv.ImplicitTLS = c.SSL && c.HS != "plain"
		var err error
		addr := c.Host
		if strings.Contains(addr, ":") {
			addr = "[" + addr + "]"
		}
		closedPort := func() (int, error) { // listen, note the port, close: nobody listens there
			l, err := net.Listen("tcp", addr+":0")
			if err != nil {
				return 0, err
			}
			pt := l.Addr().(*net.TCPAddr).Port
			l.Close()
			return pt, nil
		}
		port := 0
		if c.TCP && c.Refuse >= 2 {
			if fallbackPort, err = closedPort(); err != nil {
				return o, fmt.Errorf("listen on %s: %w", c.Host, err)
			}
			close(srv.Done) // no server at all
		} else {
			ln, err = net.Listen("tcp", addr+":0")
			if err != nil {
				return o, fmt.Errorf("listen on %s: %w", c.Host, err)
			}
			port = ln.Addr().(*net.TCPAddr).Port
			go func() {
				conn, err := ln.Accept()
				if err != nil {
					close(srv.Done)
					return
				}
				tap = &tapConn{Conn: conn}
				rawMu.Lock()
				rawConn = conn
				rawMu.Unlock()
				var sc net.Conn = tap
				if c.Mute >= 0 {
					sc = &muteConn{Conn: tap, left: c.Mute}
				}
				srv.Serve(sc)
			}()
		}
		if c.TCP {
			// the harness listener is the FALLBACK port; the primary port is closed
			fallbackPort = port
			if c.Refuse >= 2 {
				fallbackPort, _ = closedPort()
			}
			if port, err = closedPort(); err != nil {
				return o, fmt.Errorf("listen on %s: %w", c.Host, err)
			}
		}
		if c.SSL {
			topts = append(topts, mail.WithSSL())
		}
		topts = append(topts, mail.WithPort(port))
		_ = port
	} else {
		attempts := 0
		topts = append(topts, mail.WithDialContextFunc(func(ctx context.Context, network, address string) (net.Conn, error) {
			attempts++
			if attempts <= c.Refuse {
				return nil, errDialRefused
			}
			cl, sv := smtpx.NewPair()
			memClient = cl
			srv.OnWriteStall = func(n int, fail bool) { cl.LimitWrites(n, fail) }
			rawMu.Lock()
			rawConn = sv
			rawMu.Unlock()
			var sc net.Conn = sv
			if c.Mute >= 0 {
				sc = &muteConn{Conn: sv, left: c.Mute}
			}
			go srv.Serve(sc)
			return cl, nil
		}))
	}
	var client *mail.Client
	var err error
	if build != nil {
		client, err = build(topts...)
	} else {
		client, err = mail.NewClient(c.Host, append(opts, topts...)...)
	}
	if err != nil {
		if ln != nil {
			ln.Close()
		}
		return o, fmt.Errorf("NewClient: %w", err)
	}
	if c.TCP {
		if err := setFallbackPort(client, fallbackPort); err != nil {
			if ln != nil {
				ln.Close()
			}
			return o, err
		}
	}
	msgs := make([]*mail.Msg, len(c.Msgs))
	for i, n := range c.Msgs {
		msgs[i] = newMsgSized(n, c.BigBody())
		if c.BigBody() && c.Net() {
			msgs[i] = newMsgHuge(n)
		}
	}

	type outcome struct {
		results []string
		phase   string
		first   error
	}
	// every public call runs in a goroutine of its own under the property's bound; a call that does not return is
	// recorded (Hung, HungCall) and its goroutine is abandoned: nothing below waits for it
	t0 := time.Now()
	ctx := context.Background()
	call := func(name string, f func() error) (error, bool) {
		ch := make(chan error, 1)
		tc := time.Now()
		go func() { ch <- f() }()
		select {
		case err := <-ch:
			o.Calls = append(o.Calls, CallTime{name, time.Since(tc)})
			return err, true
		case <-time.After(Bound(timeout)):
			o.Hung, o.HungCall = true, name
			return nil, false
		}
	}
	var oc outcome
	switch c.Kind {
	case "dial", "dialk":
		if err, ok := call("DialWithContext", func() error { return client.DialWithContext(ctx) }); ok {
			oc.results, oc.first = []string{Classify(err)}, err
		}
	case "das":
		if err, ok := call("DialAndSendWithContext", func() error { return client.DialAndSendWithContext(ctx, msgs...) }); ok {
			oc.first = err
			switch {
			case err == nil:
				oc.results = []string{"ok"}
			case strings.HasPrefix(err.Error(), "dial failed: "):
				oc.phase, oc.results = "dial", []string{Classify(errors.Unwrap(err))}
			case strings.HasPrefix(err.Error(), "send failed: "):
				oc.phase, oc.results = "send", []string{"send"}
			case strings.HasPrefix(err.Error(), "failed to close connection: "):
				oc.phase, oc.results = "close", []string{Classify(err)}
				if closeNotifyArtefact(err) {
					oc.phase, oc.results = "", []string{"ok"}
				}
			default:
				oc.results = []string{Classify(err)}
			}
		}
	default: // sess: DialWithContext, Send, Reset, Close; sess2: a second Send on the persistent connection before Reset
		err, ok := call("DialWithContext", func() error { return client.DialWithContext(ctx) })
		if ok {
			oc.first = err
			oc.results = []string{Classify(err)}
		}
		if ok && err == nil {
			sends := 1
			if c.Kind == "sess2" {
				sends = 2
			}
			for i := 0; i < sends && ok; i++ {
				ms := msgs
				if i > 0 {
					ms = make([]*mail.Msg, len(c.Msgs))
					for j, n := range c.Msgs {
						ms[j] = newMsgSized(n, c.BigBody())
					}
				}
				var e1 error
				if e1, ok = call("Send", func() error { return client.Send(ms...) }); ok {
					if e1 != nil {
						oc.results = append(oc.results, "send")
						if oc.first == nil {
							oc.first = e1
						}
					} else {
						oc.results = append(oc.results, "ok")
					}
				}
			}
			if ok {
				var e2 error
				if e2, ok = call("Reset", func() error { return client.Reset() }); ok {
					oc.results = append(oc.results, Classify(e2))
					if oc.first == nil {
						oc.first = e2
					}
				}
			}
			if ok {
				var e3 error
				if e3, ok = call("Close", func() error { return client.Close() }); ok {
					if closeNotifyArtefact(e3) {
						e3 = nil
					}
					oc.results = append(oc.results, Classify(e3))
					if oc.first == nil {
						oc.first = e3
					}
				}
			}
		}
	}
	o.Elapsed = time.Since(t0)
	if memClient != nil {
		o.Opened = true
		o.Closed, o.Closes = memClient.Closed()
	}
	close(release)
	if !c.Net() && memClient == nil {
		// every dial attempt was refused: no connection, no server
		o.Results, o.Phase = oc.results, oc.phase
		if oc.first != nil {
			o.Err = oc.first.Error()
		}
		o.Srv, o.Arm = "-", "|-"
		return o, nil
	}
	if ln != nil {
		ln.Close()
	}
	if o.Hung {
		// tear both ends down by force; the stuck call may or may not come back (a wait that no deadline and no Close
		// interrupts stays for ever): its goroutine is leaked
		blocked.Add(1)
		if memClient != nil {
			memClient.Close()
		}
		finished := make(chan struct{})
		go func() { srv.Finish(0); close(finished) }()
		select {
		case <-finished:
		case <-time.After(2 * time.Second):
		}
		oc.results = []string{"HANG"}
		oc.phase = ""
	}
	if c.Net() {
		// TCP: a write to a connection the peer has closed may succeed (the read then sees EOF) or fail (EPIPE, reset)
		for i, x := range oc.results {
			if x == "write" || x == "eof" || strings.Contains(x, "reset_by_peer") || strings.Contains(x, "broken_pipe") {
				oc.results[i] = "gone"
			}
		}
	}
	o.Results, o.Phase = oc.results, oc.phase
	if oc.first != nil {
		o.Err = oc.first.Error()
	}
	// a successful plain dial leaves the connection legitimately open: decide "ended" first, then clean up
	grace := 300 * time.Millisecond
	if c.Net() {
		grace = 1500 * time.Millisecond
	}
	stillOpen := (c.Kind == "dial" || c.Kind == "dialk") && len(oc.results) == 1 && oc.results[0] == "ok"
	if stillOpen && c.Kind == "dialk" && memClient != nil {
		// the connection is left open for the next call on the same Client: the caller tears it down (Conn, Server)
		o.Conn, o.Server = memClient, srv
	} else if stillOpen {
		if c.Net() {
			select {
			case <-srv.Done:
				o.Ended = true
			case <-time.After(50 * time.Millisecond):
				o.Ended = false
			}
		}
		if memClient != nil {
			memClient.Close()
		}
		srv.Finish(10 * time.Millisecond)
	} else if !o.Hung {
		srv.Finish(grace)
		o.Ended = !srv.ForcedStop
	}

	// the client (and with it the net.Conn of the stock dialer) must stay reachable until here: a garbage-collected
	// *net.TCPConn is closed by its finalizer, which would hide a leaked connection
	runtime.KeepAlive(client)
	o.Positions = srv.Consumed()
	tr, _ := srv.Snapshot()
	var sb []string
	for _, e := range tr {
		v := e.Verb
		if v == "EOD-MISSING" {
			continue // pseudo event of the reference server: the client went away while the server was in data mode
		}
		if v == "AUTH" {
			v = "AUTH:" + e.Arg
		}
		ph := "c"
		if e.TLS {
			ph = "t"
		}
		sb = append(sb, fmt.Sprintf("%s/%s:%d", v, ph, e.Code))
		o.LastVerb = e.Verb
	}
	o.Srv = strings.Join(sb, ",")
	if o.Srv == "" {
		o.Srv = "-"
	}

	if memClient != nil {
		set, tlsPhase, freshDL, tlsWriteDL := false, false, false, false
		var clear strings.Builder
		anyA, anyU := false, false
		for _, op := range memClient.Ops() {
			switch op.Kind {
			case 'D':
				if op.Dir == 'W' {
					// a write deadline of its own (crypto/tls sets 5 s around its close_notify alert): reads are not
					// affected, and a write that waits it out is not a period of the configured timeout
					tlsWriteDL = !op.Zero
					continue
				}
				tlsWriteDL = false
				set = !op.Zero
				if set {
					o.Arms++
					freshDL = true
				}
			case 'W':
				if op.Err == "timeout" && freshDL && !tlsWriteDL {
					o.Spent++ // a write that waited out the deadline
					freshDL = false
				}
				if op.Err == "" && !tlsPhase {
					if len(op.Data) >= 2 && op.Data[0] == 0x16 && op.Data[1] == 0x03 {
						tlsPhase = true
					} else {
						o.Clear = append(o.Clear, op.Data...)
					}
				}
			case 'R':
				if op.Err == "EOF" || op.Err == "closed" {
					continue
				}
				if op.Err == "timeout" && freshDL {
					o.Spent++
					freshDL = false
				}
				if !set {
					o.Unarmed++
				}
				if tlsPhase {
					if set {
						anyA = true
					} else {
						anyU = true
					}
				} else if set {
					clear.WriteByte('A')
				} else {
					clear.WriteByte('U')
				}
			}
		}
		sum := "-"
		switch {
		case anyA && anyU:
			sum = "M"
		case anyA:
			sum = "A"
		case anyU:
			sum = "U"
		}
		o.Arm = clear.String() + "|" + sum
	} else if tap != nil {
		o.Clear = tap.Got()
		o.AllTLS = len(o.Clear) == 0 || (len(o.Clear) >= 2 && o.Clear[0] == 0x16 && o.Clear[1] == 0x03)
		o.Opened = true
		if !c.SSL {
			// STARTTLS over TCP: the cleartext part ends where the first TLS record begins
			if i := bytes.Index(o.Clear, []byte("\r\n\x16\x03")); i >= 0 {
				o.Clear = o.Clear[:i+2]
			}
		}
	}
	if c.Net() && tap == nil {
		o.AllTLS = true // no connection reached a harness listener: nothing at all was received
	}
	if c.SSL && c.HS == "plain" {
		o.Srv = "-" // the fallback server is not a TLS server: its own log is not part of the comparison
	}
	return o, nil
}

// ---------------------------------------------------------------------------------------------
// direct oracle helpers (independent of the model)

// ClearLines splits the cleartext prefix into command lines.
func ClearLines(clear []byte) []string {
	var out []string
	for _, l := range bytes.Split(clear, []byte("\r\n")) {
		if len(l) > 0 {
			out = append(out, string(l))
		}
	}
	return out
}

// SecretForms lists the encodings of the password (and of the PLAIN initial response) searched for in clear text.
func SecretForms() map[string][]byte {
	plain := "\x00" + User + "\x00" + Pass
	return map[string][]byte{
		"password":            []byte(Pass),
		"base64(password)":    []byte(base64.StdEncoding.EncodeToString([]byte(Pass))),
		"hex(password)":       []byte(hex.EncodeToString([]byte(Pass))),
		"\\0user\\0password":  []byte(plain),
		"base64(\\0u\\0p)":    []byte(base64.StdEncoding.EncodeToString([]byte(plain))),
		"base64url(password)": []byte(base64.URLEncoding.EncodeToString([]byte(Pass))),
	}
}

// FindSecret reports the first encoding of the password that occurs in b ("" = none).
func FindSecret(b []byte) string {
	for name, f := range SecretForms() {
		if bytes.Contains(b, f) {
			return name
		}
	}
	// also look inside every base64 token of the text
	for _, tok := range bytes.FieldsFunc(b, func(r rune) bool { return r == ' ' || r == '\r' || r == '\n' }) {
		if dec, err := base64.StdEncoding.DecodeString(string(tok)); err == nil && len(dec) > 0 {
			if bytes.Contains(dec, []byte(Pass)) && !bytes.Contains(dec, []byte("auth=Bearer ")) {
				return "base64(...password...)"
			}
		}
	}
	return ""
}

// IsLocalhostName: the host kinds of the property text (independent list, not read from the source)
func IsLocalhostName(h string) bool { return h == "localhost" || h == "127.0.0.1" || h == "::1" }

// MaxBlocked: after this many cases in which a public call did not return, the remaining cases of a run are skipped
// (every blocked case costs the full bound and leaks a goroutine); the failures found so far are the replay.
const MaxBlocked = 50

var blocked atomic.Int32

// Blocked is the number of cases of this process in which a public call did not return.
func Blocked() int { return int(blocked.Load()) }

// RunAll runs the cases with bounded parallelism and returns the observations in order.
func RunAll(cases []Case, p *PKI, timeout time.Duration, workers int, stop func() bool) ([]Obs, []error) {
	obs := make([]Obs, len(cases))
	errs := make([]error, len(cases))
	var wg sync.WaitGroup
	sem := make(chan struct{}, workers)
	for i := range cases {
		if stop != nil && stop() {
			errs[i] = errors.New("skipped: time box")
			continue
		}
		if Blocked() >= MaxBlocked {
			errs[i] = errors.New("skipped: too many blocked cases")
			continue
		}
		wg.Add(1)
		sem <- struct{}{}
		go func(i int) {
			defer wg.Done()
			defer func() { <-sem }()
			obs[i], errs[i] = Run(cases[i], p, timeout)
		}(i)
	}
	wg.Wait()
	return obs, errs
}
