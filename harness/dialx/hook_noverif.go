//go:build !verif

package dialx

import (
	"errors"

	mail "github.com/wneessen/go-mail"
)

func setFallbackPort(c *mail.Client, port int) error {
	return errors.New("dialx: TCP fallback cases need the harness built with -tags verif (VerifSetFallbackPort)")
}
