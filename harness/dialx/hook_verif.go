//go:build verif

package dialx

import mail "github.com/wneessen/go-mail"

// setFallbackPort points the client's fallback port at a harness listener (add-only hook of /repo, build tag verif)
func setFallbackPort(c *mail.Client, port int) error {
	c.VerifSetFallbackPort(port)
	return nil
}
