// Package mimeread: an independent RFC 5322 / 2045 / 2046 reader used as the direct oracle of
// C01 / C08 / C10.  It shares no code with go-mail; only the base64 / quoted-printable DEcoders
// of the Go standard library are reused (go-mail uses the ENcoders).
package mimeread

import (
	"bytes"
	"encoding/base64"
	"fmt"
	"io"
	"mime"
	"mime/quotedprintable"
	"strings"
)

// Entity is a MIME entity: a leaf with decoded content or a multipart with children.
type Entity struct {
	Fields    [][2]string // header fields in order, unfolded
	MediaType string      // lower case
	CTParams  map[string]string
	Disp      string
	DispPar   map[string]string
	CTE       string
	Raw       []byte // the entity's body as transmitted
	Body      []byte // decoded content (leaves)
	Kids      []*Entity
	Boundary  string
}

func (e *Entity) Get(name string) string {
	for _, f := range e.Fields {
		if strings.EqualFold(f[0], name) {
			return f[1]
		}
	}
	return ""
}

// parseHeader splits a header section (lines end in CRLF) into unfolded fields.
func parseHeader(sec []byte) ([][2]string, error) {
	var out [][2]string
	for len(sec) > 0 {
		i := bytes.Index(sec, []byte("\r\n"))
		if i < 0 {
			return nil, fmt.Errorf("header line without CRLF")
		}
		line := string(sec[:i])
		sec = sec[i+2:]
		if line == "" {
			return nil, fmt.Errorf("empty line inside header section")
		}
		if line[0] == ' ' || line[0] == '\t' {
			if len(out) == 0 {
				return nil, fmt.Errorf("continuation without field")
			}
			out[len(out)-1][1] += line
			continue
		}
		c := strings.IndexByte(line, ':')
		if c <= 0 {
			return nil, fmt.Errorf("malformed field line %q", line)
		}
		out = append(out, [2]string{line[:c], strings.TrimLeft(line[c+1:], " ")})
	}
	return out, nil
}

// parseParams parses `value; k=v; k="v"` (quoted strings may contain ';' and '=').
func parseParams(v string) (string, map[string]string) {
	params := map[string]string{}
	var parts []string
	inq := false
	start := 0
	for i := 0; i < len(v); i++ {
		switch {
		case v[i] == '\\' && inq:
			i++
		case v[i] == '"':
			inq = !inq
		case v[i] == ';' && !inq:
			parts = append(parts, v[start:i])
			start = i + 1
		}
	}
	parts = append(parts, v[start:])
	val := strings.TrimSpace(parts[0])
	for _, p := range parts[1:] {
		p = strings.TrimSpace(p)
		eq := strings.IndexByte(p, '=')
		if eq < 0 {
			continue
		}
		k := strings.ToLower(strings.TrimSpace(p[:eq]))
		x := strings.TrimSpace(p[eq+1:])
		if len(x) >= 2 && x[0] == '"' && x[len(x)-1] == '"' {
			x = x[1 : len(x)-1]
			x = strings.ReplaceAll(x, `\"`, `"`)
			x = strings.ReplaceAll(x, `\\`, `\`)
		}
		params[k] = x
	}
	return val, params
}

// Read parses one entity: header section, blank line, body.
func Read(data []byte) (*Entity, error) {
	var hdr, body []byte
	if bytes.HasPrefix(data, []byte("\r\n")) {
		body = data[2:]
	} else {
		i := bytes.Index(data, []byte("\r\n\r\n"))
		if i < 0 {
			return nil, fmt.Errorf("no blank line after header section")
		}
		hdr, body = data[:i+2], data[i+4:]
	}
	fields, err := parseHeader(hdr)
	if err != nil {
		return nil, err
	}
	e := &Entity{Fields: fields, Raw: body}
	ct := e.Get("Content-Type")
	if ct == "" {
		ct = "text/plain"
	}
	mt, par := parseParams(ct)
	e.MediaType, e.CTParams = strings.ToLower(mt), par
	if cd := e.Get("Content-Disposition"); cd != "" {
		e.Disp, e.DispPar = parseParams(cd)
	}
	e.CTE = strings.ToLower(strings.TrimSpace(e.Get("Content-Transfer-Encoding")))
	if strings.HasPrefix(e.MediaType, "multipart/") {
		b := par["boundary"]
		if b == "" {
			return nil, fmt.Errorf("multipart without boundary")
		}
		e.Boundary = b
		kids, err := splitMultipart(body, b)
		if err != nil {
			return nil, err
		}
		for _, k := range kids {
			ke, err := Read(k)
			if err != nil {
				return nil, err
			}
			e.Kids = append(e.Kids, ke)
		}
		return e, nil
	}
	switch e.CTE {
	case "base64":
		clean := bytes.Map(func(r rune) rune {
			if r == '\r' || r == '\n' {
				return -1
			}
			return r
		}, body)
		dec, err := base64.StdEncoding.DecodeString(string(clean))
		if err != nil {
			return nil, fmt.Errorf("base64 body: %v", err)
		}
		e.Body = dec
	case "quoted-printable":
		dec, err := io.ReadAll(quotedprintable.NewReader(bytes.NewReader(body)))
		if err != nil {
			return nil, fmt.Errorf("quoted-printable body: %v", err)
		}
		e.Body = dec
	default:
		e.Body = body
	}
	return e, nil
}

// splitMultipart: RFC 2046 — the CRLF preceding a delimiter line belongs to the delimiter.
// SplitMultipart is exported for harnesses that need the raw bytes of each part.
func SplitMultipart(body []byte, boundary string) ([][]byte, error) { return splitMultipart(body, boundary) }

func splitMultipart(body []byte, boundary string) ([][]byte, error) {
	delim := []byte("--" + boundary)
	var parts [][]byte
	// the first delimiter may be at the very start of the body or after a preamble
	pos := -1
	if bytes.HasPrefix(body, delim) {
		pos = 0
	} else if i := bytes.Index(body, append([]byte("\r\n"), delim...)); i >= 0 {
		pos = i + 2
	}
	if pos < 0 {
		return nil, fmt.Errorf("no delimiter for boundary %q", boundary)
	}
	for {
		rest := body[pos+len(delim):]
		if bytes.HasPrefix(rest, []byte("--")) {
			return parts, nil // closing delimiter
		}
		if !bytes.HasPrefix(rest, []byte("\r\n")) {
			return nil, fmt.Errorf("garbage after delimiter")
		}
		start := pos + len(delim) + 2
		next := bytes.Index(body[start-2:], append([]byte("\r\n"), delim...))
		if next < 0 {
			return nil, fmt.Errorf("unterminated multipart (boundary %q)", boundary)
		}
		end := start - 2 + next
		if end < start {
			parts = append(parts, nil)
		} else {
			parts = append(parts, body[start:end])
		}
		pos = end + 2
	}
}

// Leaves lists the leaves in document order.
func (e *Entity) Leaves() []*Entity {
	if len(e.Kids) == 0 && !strings.HasPrefix(e.MediaType, "multipart/") {
		return []*Entity{e}
	}
	var out []*Entity
	for _, k := range e.Kids {
		out = append(out, k.Leaves()...)
	}
	return out
}

// Shape renders the multipart nesting, e.g. "mixed(related(alternative(leaf,leaf),leaf),leaf)".
func (e *Entity) Shape() string {
	if !strings.HasPrefix(e.MediaType, "multipart/") {
		return "leaf"
	}
	var k []string
	for _, c := range e.Kids {
		k = append(k, c.Shape())
	}
	return strings.TrimPrefix(e.MediaType, "multipart/") + "(" + strings.Join(k, ",") + ")"
}

// DecodeWord decodes RFC 2047 encoded-words in a parameter value.
func DecodeWord(s string) string {
	d := new(mime.WordDecoder)
	out, err := d.DecodeHeader(s)
	if err != nil {
		return s
	}
	return out
}
