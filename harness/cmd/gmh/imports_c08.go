package main

import _ "verif/harness/c08"
