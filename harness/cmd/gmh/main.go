// gmh — the implementation side of the correspondence checks.
//   gmh run <property> -tier quick|thorough -seed N -dir DIR [-cases FILE]
package main

import (
	"flag"
	"fmt"
	"os"
	"time"

	"verif/harness/hx"
)

// property packages register themselves in init() (hx.Register); one import file per
// property (imports_cXX.go) pulls the package in.
var registry = hx.Registry

func main() {
	if len(os.Args) < 3 || os.Args[1] != "run" {
		fmt.Fprintln(os.Stderr, "usage: gmh run <property> -tier T -seed N -dir DIR [-cases FILE]")
		os.Exit(2)
	}
	prop := os.Args[2]
	fs := flag.NewFlagSet("run", flag.ExitOnError)
	tier := fs.String("tier", "quick", "quick|thorough")
	seed := fs.Int64("seed", 1, "PRNG seed")
	dir := fs.String("dir", ".", "output directory")
	cases := fs.String("cases", "", "replay the cases of this file instead of generating")
	corpus := fs.String("corpus", "", "cases that run first (minimised earlier failures, refutation witnesses)")
	budget := fs.Int("budget", 0, "stop generating after this many seconds (0 = no limit)")
	_ = fs.Parse(os.Args[3:])
	f, ok := registry[prop]
	if !ok {
		fmt.Fprintln(os.Stderr, "unknown property", prop)
		os.Exit(2)
	}
	r := hx.NewRun(prop, *tier, *seed, *dir)
	if *budget > 0 {
		r.Deadline = time.Now().Add(time.Duration(*budget) * time.Second)
	}
	var replay []hx.Case
	if *cases != "" {
		var err error
		replay, err = hx.ReadCases(*cases)
		if err != nil {
			fmt.Fprintln(os.Stderr, err)
			os.Exit(2)
		}
		if replay == nil {
			replay = []hx.Case{}
		}
	}
	if *corpus != "" && replay == nil {
		if cc, err := hx.ReadCases(*corpus); err == nil && len(cc) > 0 {
			for i := range cc {
				cc[i].ID = "corpus-" + cc[i].ID
			}
			f(r, cc)
			r.Dist["corpus-cases"] = len(cc)
		}
	}
	f(r, replay)
	if err := r.Write(); err != nil {
		fmt.Fprintln(os.Stderr, err)
		os.Exit(2)
	}
}
