package main

import _ "verif/harness/c01"
