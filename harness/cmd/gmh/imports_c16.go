package main

import _ "verif/harness/c16"
