package main

// T1 for the S/MIME engine (C08): Msg.signMessage must check the pre-render's error before it signs.

import "go/ast"

func init() {
	extras = append(extras, func(p, sp *pkg) {
		emit("\n(* ---- S/MIME: Msg.signMessage ---- *)\n")
		checks := false
		if fn, ok := p.funcs["Msg.signMessage"]; ok && fn.Body != nil {
			l := fn.Body.List
			for i, st := range l {
				es, ok := st.(*ast.ExprStmt)
				if !ok || p.src(es.X) != "mw.writeMsg(m)" || i+1 >= len(l) {
					continue
				}
				// the statement directly after the pre-render: if mw.err != nil { return <error> }
				if is, ok := l[i+1].(*ast.IfStmt); ok && is.Init == nil && is.Else == nil && p.src(is.Cond) == "mw.err != nil" && returnsError(p, is.Body) {
					checks = true
				}
			}
		} else {
			untranslatable = append(untranslatable, "Msg.signMessage")
		}
		emitBool("sign_checks_prerender_error", checks,
			"msg.go signMessage: directly after the pre-render mw.writeMsg(m): if mw.err != nil { return error } (nothing is signed or written when the message cannot be rendered)")
	})
}
