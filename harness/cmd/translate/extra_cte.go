package main

// T1 for the byte core (C01): msgWriter.addFiles takes the BODY encoding of a file from the
// Content-Transfer-Encoding header the File already carries (pre-set by the caller or cached by an
// earlier render) — header and body encoding cannot disagree.

import "go/ast"

func init() {
	extras = append(extras, func(p, sp *pkg) {
		emit("\n(* ---- msgWriter.addFiles: body encoding of a file ---- *)\n")
		ok := false
		if fn, found := p.funcs["msgWriter.addFiles"]; found && fn.Body != nil {
			ast.Inspect(fn.Body, func(n ast.Node) bool {
				is, isIf := n.(*ast.IfStmt)
				if !isIf || is.Init == nil || is.Else == nil {
					return true
				}
				// if cte, ok := file.getHeader(HeaderContentTransferEnc); !ok { … } else { encoding = Encoding(cte) }
				if p.src(is.Init) == "cte, ok := file.getHeader(HeaderContentTransferEnc)" && p.src(is.Cond) == "!ok" &&
					hasAssign(p, is.Else, "encoding", "Encoding(cte)") {
					ok = true
				}
				return true
			})
		} else {
			untranslatable = append(untranslatable, "msgWriter.addFiles")
		}
		emitBool("addfiles_body_enc_from_header", ok,
			"msgwriter.go addFiles: if cte, ok := file.getHeader(HeaderContentTransferEnc); !ok { … } else { encoding = Encoding(cte) } (the body is encoded as the header the File carries says)")
	})
}
