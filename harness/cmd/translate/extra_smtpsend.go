package main

// T1 items of the smtpsend engine (C03, C04, C20), read from the AST of the working tree:
//   * the expectCode literal of every command of the send dialogue (smtp/smtp.go, smtp_ehlo.go),
//   * the recovery actions of sendSingleMsg after each failing step (client.go),
//   * whether isTempError unwraps, the regular expression of enhancedStatusCode and the iota
//     order of SendErrReason (senderror.go).
// A site that is not found in the expected shape is emitted with a value that makes the dependent
// proof obligation fail, and is listed as untranslatable.

import (
	"go/ast"
	"go/token"
	"sort"
	"strconv"
	"strings"
)

// sendExpectCodes: the first argument (integer literal) of every call of .cmd / .ReadResponse in fn
func sendExpectCodes(p *pkg, fnName string) ([]int64, bool) {
	fn, ok := p.funcs[fnName]
	if !ok || fn.Body == nil {
		return nil, false
	}
	var res []int64
	good := true
	ast.Inspect(fn.Body, func(x ast.Node) bool {
		ce, ok := x.(*ast.CallExpr)
		if !ok {
			return true
		}
		se, ok := ce.Fun.(*ast.SelectorExpr)
		if !ok || (se.Sel.Name != "cmd" && se.Sel.Name != "ReadResponse") || len(ce.Args) == 0 {
			return true
		}
		v, ok2 := p.evalInt(ce.Args[0])
		if !ok2 {
			good = false
			return true
		}
		res = append(res, v)
		return true
	})
	return res, good && len(res) > 0
}

func sendEmitExpect(p *pkg, coqName, fnName string) {
	codes, ok := sendExpectCodes(p, fnName)
	if ok {
		for _, c := range codes {
			if c != codes[0] {
				ok = false
			}
		}
	}
	if !ok || codes[0] < 0 {
		untranslatable = append(untranslatable, coqName)
		emit("(* UNTRANSLATABLE expectCode of %s *)\nDefinition %s : N := 0.\n", fnName, coqName)
		return
	}
	emit("(* %s: expectCode of the command / ReadResponse in %s *)\nDefinition %s : N := %d.\n", p.pos(p.funcs[fnName]), fnName, coqName, codes[0])
}

// sendCalls reports whether n contains a call of <recv>.<method>()
func sendCalls(p *pkg, n ast.Node, recv, method string) bool {
	found := false
	if n == nil {
		return false
	}
	ast.Inspect(n, func(x ast.Node) bool {
		if ce, ok := x.(*ast.CallExpr); ok {
			if se, ok := ce.Fun.(*ast.SelectorExpr); ok && se.Sel.Name == method {
				if id, ok := se.X.(*ast.Ident); ok && id.Name == recv {
					found = true
				}
			}
		}
		return true
	})
	return found
}

// sendResetFailBlock: inside n, the body of `if resetSendErr := client.Reset(); resetSendErr != nil { ... }`
func sendResetFailBlock(p *pkg, n ast.Node) *ast.BlockStmt {
	var res *ast.BlockStmt
	ast.Inspect(n, func(x ast.Node) bool {
		if is, ok := x.(*ast.IfStmt); ok && is.Init != nil && sendCalls(p, is.Init, "client", "Reset") && res == nil {
			res = is.Body
		}
		return true
	})
	return res
}

func init() {
	extras = append(extras, func(p, sp *pkg) {
		emit("\n(* ---- smtpsend engine: send dialogue (smtp/smtp.go, client.go, senderror.go) ---- *)\n")
		sendEmitExpect(sp, "exp_greet", "NewClient")
		sendEmitExpect(sp, "exp_ehlo", "Client.ehlo")
		sendEmitExpect(sp, "exp_helo", "Client.helo")
		sendEmitExpect(sp, "exp_mail", "Client.Mail")
		sendEmitExpect(sp, "exp_rcpt", "Client.Rcpt")
		sendEmitExpect(sp, "exp_data", "Client.Data")
		sendEmitExpect(sp, "exp_eod", "dataCloser.Close")
		sendEmitExpect(sp, "exp_rset", "Client.Reset")
		sendEmitExpect(sp, "exp_noop", "Client.Noop")
		sendEmitExpect(sp, "exp_quit", "Client.Quit")
		sendEmitExpect(sp, "exp_starttls", "Client.StartTLS")

		// the EHLO keywords the code consults: Extension("...") calls (both packages) and c.ext["..."] lookups (smtp)
		extNames := map[string]bool{}
		for _, pk := range []*pkg{p, sp} {
			for _, f := range pk.files {
				ast.Inspect(f, func(x ast.Node) bool {
					switch n := x.(type) {
					case *ast.CallExpr:
						if se, ok := n.Fun.(*ast.SelectorExpr); ok && se.Sel.Name == "Extension" && len(n.Args) == 1 {
							if bl, ok := n.Args[0].(*ast.BasicLit); ok && bl.Kind == token.STRING {
								if v, err := strconv.Unquote(bl.Value); err == nil {
									extNames[strings.ToUpper(v)] = true
								}
							}
						}
					case *ast.IndexExpr:
						if strings.HasSuffix(pk.src(n.X), ".ext") || pk.src(n.X) == "ext" {
							if bl, ok := n.Index.(*ast.BasicLit); ok && bl.Kind == token.STRING {
								if v, err := strconv.Unquote(bl.Value); err == nil {
									extNames[v] = true
								}
							}
						}
					}
					return true
				})
			}
		}
		var extList []string
		for k := range extNames {
			extList = append(extList, k)
		}
		sort.Strings(extList)
		extItems := make([]string, len(extList))
		for i, n := range extList {
			extItems[i] = coqBytes(n)
		}
		emit("(* EHLO keywords consulted by the code (Extension(...) / ext[...]), sorted: %s *)\nDefinition consulted_extensions : list (list N) :=\n  [%s].\n", strings.Join(extList, " "), strings.Join(extItems, ";\n   "))

		// SendWithSMTPClient: `for id, message := range X` and `X[id].sendError = ...` use the same slice X = messages
		loopOK := false
		if fn, ok := p.funcs["Client.SendWithSMTPClient"]; ok && fn.Body != nil {
			ast.Inspect(fn.Body, func(x ast.Node) bool {
				rs, ok := x.(*ast.RangeStmt)
				if !ok {
					return true
				}
				over := p.src(rs.X)
				key := ""
				if rs.Key != nil {
					key = p.src(rs.Key)
				}
				ast.Inspect(rs.Body, func(y ast.Node) bool {
					if as, ok := y.(*ast.AssignStmt); ok && len(as.Lhs) == 1 && strings.HasSuffix(p.src(as.Lhs[0]), ".sendError") {
						loopOK = over == "messages" && p.src(as.Lhs[0]) == "messages["+key+"].sendError"
					}
					return true
				})
				return true
			})
		} else {
			untranslatable = append(untranslatable, "send_loop_indexes_batch")
		}
		emit("(* client_120.go SendWithSMTPClient: the loop ranges over messages and stores the error at messages[id] *)\nDefinition send_loop_indexes_batch : bool := %v.\n", loopOK)

		// the guard of every ESMTP parameter in smtp.Client.Mail / Rcpt: (string literal that carries the parameter,
		// "<lookup>; <condition>") - a parameter may depend on the extension lookup (and the configured DSN option) only
		var guards []string
		for _, fnName := range []string{"Client.Mail", "Client.Rcpt"} {
			fn, ok := sp.funcs[fnName]
			if !ok || fn.Body == nil {
				untranslatable = append(untranslatable, "param_guards:"+fnName)
				continue
			}
			var assigns []*ast.AssignStmt
			ast.Inspect(fn.Body, func(x ast.Node) bool {
				if as, ok := x.(*ast.AssignStmt); ok {
					for _, l := range as.Lhs {
						if id, ok := l.(*ast.Ident); ok && id.Name == "ok" {
							assigns = append(assigns, as)
						}
					}
				}
				return true
			})
			ast.Inspect(fn.Body, func(x ast.Node) bool {
				is, ok := x.(*ast.IfStmt)
				if !ok {
					return true
				}
				var lits []string
				ast.Inspect(is.Body, func(y ast.Node) bool {
					if _, nested := y.(*ast.IfStmt); nested {
						return false
					}
					if bl, ok := y.(*ast.BasicLit); ok && bl.Kind == token.STRING {
						if v, err := strconv.Unquote(bl.Value); err == nil {
							for _, mk := range []string{"BODY=", "SMTPUTF8", "RET=", "NOTIFY="} {
								if strings.Contains(v, mk) {
									lits = append(lits, v)
									break
								}
							}
						}
					}
					return true
				})
				for _, lit := range lits {
					g := sp.src(is.Cond)
					if is.Init != nil {
						g = sp.src(is.Init) + "; " + g
					} else {
						var last *ast.AssignStmt
						for _, as := range assigns {
							if as.Pos() < is.Pos() && (is.Init == nil || as != is.Init) {
								last = as
							}
						}
						if last != nil {
							g = sp.src(last) + "; " + g
						}
					}
					guards = append(guards, "("+coqBytes(lit)+", "+coqBytes(g)+") (* "+strings.ReplaceAll(strings.ReplaceAll(lit+" <- "+g, "(*", "( *"), "*)", "* )")+" *)")
				}
				return true
			})
		}
		emit("(* smtp.go Mail / Rcpt: every ESMTP parameter with its guard *)\nDefinition param_guards : list (list N * list N) :=\n  [%s\n  ].\n", strings.Join(guards, ";\n   "))

		// dataCloser.Close reads the reply to the end of the mail data with ReadResponse (all lines of a multi-line
		// reply), not with ReadCodeLine (first line only: the rest would be taken for the next command's reply)
		full := false
		if fn, ok := sp.funcs["dataCloser.Close"]; ok && fn.Body != nil {
			ast.Inspect(fn.Body, func(x ast.Node) bool {
				if ce, ok := x.(*ast.CallExpr); ok {
					if se, ok := ce.Fun.(*ast.SelectorExpr); ok && se.Sel.Name == "ReadResponse" {
						full = true
					}
					if se, ok := ce.Fun.(*ast.SelectorExpr); ok && (se.Sel.Name == "ReadCodeLine" || se.Sel.Name == "ReadLine") {
						full = false
						return false
					}
				}
				return true
			})
		} else {
			untranslatable = append(untranslatable, "eod_reads_full_response")
		}
		emit("(* smtp.go dataCloser.Close: the end-of-data reply is read with Text.ReadResponse *)\nDefinition eod_reads_full_response : bool := %v.\n", full)

		// ehlo(): after the error check of the command the extension map is assigned unconditionally: the
		// assignment "c.ext = <ident>" is a top-level statement of the body and no statement before it (other than
		// the first "if err != nil { return err }") contains a return
		replaces, ehloLocated := false, false
		if fn, ok := sp.funcs["Client.ehlo"]; ok && fn.Body != nil {
			ehloLocated = true
			errChecks := 0
			for _, st := range fn.Body.List {
				if as, ok := st.(*ast.AssignStmt); ok && len(as.Lhs) == 1 && sp.src(as.Lhs[0]) == "c.ext" && as.Tok == token.ASSIGN {
					if _, isIdent := as.Rhs[0].(*ast.Ident); isIdent && sp.src(as.Rhs[0]) != "nil" {
						replaces = true
					}
					break
				}
				hasReturn := false
				ast.Inspect(st, func(x ast.Node) bool {
					if _, ok := x.(*ast.ReturnStmt); ok {
						hasReturn = true
					}
					return true
				})
				if hasReturn {
					if is, ok := st.(*ast.IfStmt); ok && errChecks == 0 && sp.src(is.Cond) == "err != nil" {
						errChecks++
						continue
					}
					break // an early return before the assignment
				}
			}
		}
		if !ehloLocated {
			untranslatable = append(untranslatable, "ehlo_replaces_ext")
		}
		emit("(* smtp_ehlo.go ehlo(): c.ext is assigned unconditionally after an accepted EHLO (no early return before it) *)\nDefinition ehlo_replaces_ext : bool := %v.\n", replaces)

		// StartTLS ends with "return c.ehlo()": the extension map of the plain-text session is replaced
		says := false
		if fn, ok := sp.funcs["Client.StartTLS"]; ok && fn.Body != nil && len(fn.Body.List) > 0 {
			if rs, ok := fn.Body.List[len(fn.Body.List)-1].(*ast.ReturnStmt); ok && len(rs.Results) == 1 && sp.src(rs.Results[0]) == "c.ehlo()" {
				says = true
			}
		} else {
			untranslatable = append(untranslatable, "starttls_says_ehlo")
		}
		emit("(* smtp.go StartTLS: the last statement is return c.ehlo() *)\nDefinition starttls_says_ehlo : bool := %v.\n", says)

		// recovery actions of sendSingleMsg
		flags := map[string]bool{}
		located := map[string]bool{}
		if fn, ok := p.funcs["Client.sendSingleMsg"]; ok && fn.Body != nil {
			list := fn.Body.List
			for i, st := range list {
				switch s := st.(type) {
				case *ast.IfStmt:
					if s.Init != nil && sendCalls(p, s.Init, "client", "Mail") {
						located["mail"] = true
						if b := sendResetFailBlock(p, s.Body); b != nil {
							flags["ssm_rset_fail_closes_mail"] = sendCalls(p, b, "client", "Close")
						} else {
							located["mail"] = false
						}
					}
					if id, ok := s.Cond.(*ast.Ident); ok && id.Name == "hasError" {
						located["rcpt"] = true
						if b := sendResetFailBlock(p, s.Body); b != nil {
							flags["ssm_rset_fail_closes_rcpt"] = sendCalls(p, b, "client", "Close")
						} else {
							located["rcpt"] = false
						}
					}
				case *ast.AssignStmt:
					if i+1 >= len(list) {
						continue
					}
					next, ok := list[i+1].(*ast.IfStmt)
					if !ok || !strings.Contains(p.src(next.Cond), "err != nil") {
						continue
					}
					if sendCalls(p, s, "client", "Data") {
						located["data"] = true
						flags["ssm_data_fail_resets"] = sendCalls(p, next.Body, "client", "Reset")
						if b := sendResetFailBlock(p, next.Body); b != nil {
							flags["ssm_rset_fail_closes_data"] = sendCalls(p, b, "client", "Close")
						}
					}
					if sendCalls(p, s, "message", "WriteTo") {
						located["write"] = true
						flags["ssm_write_fail_closes"] = sendCalls(p, next.Body, "client", "Close")
					}
				}
			}
		}
		for _, k := range []string{"mail", "rcpt", "data", "write"} {
			if !located[k] {
				untranslatable = append(untranslatable, "sendSingleMsg:"+k)
			}
		}
		for _, k := range []string{"ssm_write_fail_closes", "ssm_data_fail_resets", "ssm_rset_fail_closes_mail", "ssm_rset_fail_closes_rcpt", "ssm_rset_fail_closes_data"} {
			emit("(* client.go sendSingleMsg: recovery action present in the source *)\nDefinition %s : bool := %v.\n", k, flags[k])
		}

		// isTempError unwraps?
		unw := false
		if fn, ok := p.funcs["isTempError"]; ok && fn.Body != nil {
			unw = sendCalls(p, fn.Body, "errors", "Unwrap")
			emit("(* %s: isTempError calls errors.Unwrap *)\nDefinition is_temp_error_unwraps : bool := %v.\n", p.pos(fn), unw)
		} else {
			untranslatable = append(untranslatable, "isTempError")
			emit("(* UNTRANSLATABLE isTempError *)\nDefinition is_temp_error_unwraps : bool := false.\n")
		}

		// length guards: the classifiers index into err.Error(); each must look at len(...) first
		for _, g := range [][2]string{{"senderr_guard_temp", "isTempError"}, {"senderr_guard_code", "errorCode"}, {"senderr_guard_esc", "enhancedStatusCode"}} {
			has := false
			if fn, ok := p.funcs[g[1]]; ok && fn.Body != nil {
				ast.Inspect(fn.Body, func(x ast.Node) bool {
					if ce, ok := x.(*ast.CallExpr); ok {
						if id, ok := ce.Fun.(*ast.Ident); ok && id.Name == "len" {
							has = true
						}
					}
					return true
				})
				emit("(* %s: %s checks the length of the error text before indexing into it *)\nDefinition %s : bool := %v.\n", p.pos(fn), g[1], g[0], has)
			} else {
				untranslatable = append(untranslatable, g[0])
				emit("(* UNTRANSLATABLE %s *)\nDefinition %s : bool := false.\n", g[1], g[0])
			}
		}

		// the regular expression of enhancedStatusCode
		re, reOK := "", false
		if fn, ok := p.funcs["enhancedStatusCode"]; ok && fn.Body != nil {
			ast.Inspect(fn.Body, func(x ast.Node) bool {
				if ce, ok := x.(*ast.CallExpr); ok {
					f := p.src(ce.Fun)
					if (f == "regexp.Compile" || f == "regexp.MustCompile") && len(ce.Args) == 1 {
						if bl, ok := ce.Args[0].(*ast.BasicLit); ok && bl.Kind == token.STRING {
							if s, err := strconv.Unquote(bl.Value); err == nil && !reOK {
								re, reOK = s, true
							}
						}
					}
				}
				return true
			})
		}
		if reOK {
			emit("(* senderror.go enhancedStatusCode: regexp literal %s *)\nDefinition esc_regex : list N := %s.\n", strings.ReplaceAll(strings.ReplaceAll(re, "(*", "( *"), "*)", "* )"), coqBytes(re))
		} else {
			untranslatable = append(untranslatable, "esc_regex")
			emit("(* UNTRANSLATABLE regexp of enhancedStatusCode *)\nDefinition esc_regex : list N := [].\n")
		}

		// iota order of SendErrReason
		var names []string
		for _, f := range p.files {
			for _, d := range f.Decls {
				gd, ok := d.(*ast.GenDecl)
				if !ok || gd.Tok != token.CONST || len(gd.Specs) == 0 {
					continue
				}
				first := gd.Specs[0].(*ast.ValueSpec)
				if len(first.Names) == 1 && first.Names[0].Name == "ErrGetSender" {
					for _, s := range gd.Specs {
						for _, n := range s.(*ast.ValueSpec).Names {
							names = append(names, n.Name)
						}
					}
				}
			}
		}
		if len(names) == 0 {
			untranslatable = append(untranslatable, "send_err_reasons")
		}
		items := make([]string, len(names))
		for i, n := range names {
			items[i] = coqBytes(n)
		}
		emit("(* senderror.go: SendErrReason constants in iota order: %s *)\nDefinition send_err_reasons : list (list N) :=\n  [%s].\n", strings.Join(names, " "), strings.Join(items, ";\n   "))
	})
}
