package main

// extra emits the later sections (lock programs, panic-site inventory, regex literal);
// filled in as the properties that need them are built.
func extra(p, sp *pkg) {}
