package main

// extras: further Gen.v sections (lock programs, panic-site inventory, regex literal ...).
// Each engine adds a file extra_<engine>.go whose init() appends to this slice; sections are
// emitted in file-name order (Go runs init() of a package's files in that order).
var extras []func(p, sp *pkg)
