package main

// extra_addr.go — T1 for the `addr` engine (C05, C06).
//
// (1) the DSN option constants of client.go (the only values WithDSNMailReturnType /
//     WithDSNRcptNotifyType admit);
// (2) the string literals of smtp.Client.Mail / Rcpt / helo / ehlo and validateLine in source order
//     (format strings and parameter texts of the command lines);
// (3) the byte conditions of the two repaired sites: the HELO-name test in smtp.Client.Hello and the
//     control-character / needs-escape tests of smtpMailbox, plus smtpMailbox's literals (atext specials);
// (4) the table of the public address setters of Msg: which method each one delegates to, with which
//     header constant and which Sprintf format.
// A site that is not found is emitted with a value that makes the dependent obligation in
// coq/proofs/EnvelopeProofs.v / MsgAddrProofs.v fail, and is listed as untranslatable.

import (
	"fmt"
	"go/ast"
	"go/token"
	"strconv"
	"strings"
)

func addrStrLits(n ast.Node) []string {
	var res []string
	ast.Inspect(n, func(x ast.Node) bool {
		if bl, ok := x.(*ast.BasicLit); ok && bl.Kind == token.STRING {
			if s, err := strconv.Unquote(bl.Value); err == nil {
				res = append(res, s)
			}
		}
		return true
	})
	return res
}

func addrEmitLits(p *pkg, coqName, fnName string) {
	fn, ok := p.funcs[fnName]
	if !ok || fn.Body == nil {
		untranslatable = append(untranslatable, coqName)
		emit("(* UNTRANSLATABLE: function %s not found *)\nDefinition %s : list (list N) := [].\n", fnName, coqName)
		return
	}
	lits := addrStrLits(fn.Body)
	items := make([]string, len(lits))
	for i, s := range lits {
		items[i] = coqBytes(s)
	}
	emit("(* %s: string literals of %s in source order *)\nDefinition %s : list (list N) :=\n  [%s].\n", p.pos(fn), fnName, coqName, strings.Join(items, ";\n   "))
}

// addrBoolSite is boolSite with the source text made safe for a Coq comment (a double quote inside
// a comment opens a string for the Coq lexer).
func addrBoolSite(p *pkg, coqName, params, fnName string, pick func([]*ast.IfStmt) *ast.IfStmt, leaf map[string]string, fallback string) {
	fn, ok := p.funcs[fnName]
	if ok && fn.Body != nil {
		if st := pick(ifStmts(fn)); st != nil {
			if s, ok2 := p.expr(st.Cond, leaf); ok2 {
				emit("(* %s: in %s: if %s *)\nDefinition %s %s : bool := %s.\n", p.pos(st), fnName,
					strings.ReplaceAll(p.src(st.Cond), "\"", "''"), coqName, params, s)
				return
			}
		}
	}
	untranslatable = append(untranslatable, coqName)
	emit("(* UNTRANSLATABLE site %s in %s *)\nDefinition %s %s : bool := %s.\n", coqName, fnName, coqName, params, fallback)
}

// addrWrappers: the public address setters of Msg
var addrWrappers = []string{
	"EnvelopeFrom", "EnvelopeFromFormat", "From", "FromFormat",
	"To", "AddTo", "AddToFormat", "ToIgnoreInvalid", "ToFromString",
	"Cc", "AddCc", "AddCcFormat", "CcIgnoreInvalid", "CcFromString",
	"Bcc", "AddBcc", "AddBccFormat", "BccIgnoreInvalid", "BccFromString",
	"ReplyTo", "ReplyToFormat",
}

func init() {
	extras = append(extras, func(p, sp *pkg) {
		emit("\n(* ---- addr engine (C05, C06) ---- *)\n")
		for _, c := range [][2]string{
			{"dsn_ret_hdrs", "DSNMailReturnHeadersOnly"}, {"dsn_ret_full", "DSNMailReturnFull"},
			{"dsn_notify_never", "DSNRcptNotifyNever"}, {"dsn_notify_success", "DSNRcptNotifySuccess"},
			{"dsn_notify_failure", "DSNRcptNotifyFailure"}, {"dsn_notify_delay", "DSNRcptNotifyDelay"},
		} {
			p.constS(c[0], c[1])
		}
		addrEmitLits(sp, "smtp_mail_literals", "Client.Mail")
		addrEmitLits(sp, "smtp_rcpt_literals", "Client.Rcpt")
		addrEmitLits(sp, "smtp_helo_literals", "Client.helo")
		addrEmitLits(sp, "smtp_ehlo_literals", "Client.ehlo")
		addrEmitLits(sp, "smtp_validate_line_literals", "validateLine")
		addrEmitLits(p, "mailbox_literals", "smtpMailbox")

		pickWith := func(pk *pkg, sub string) func([]*ast.IfStmt) *ast.IfStmt {
			return func(l []*ast.IfStmt) *ast.IfStmt {
				for _, s := range l {
					if strings.Contains(pk.src(s.Cond), sub) {
						return s
					}
				}
				return nil
			}
		}
		// smtp.Client.Hello: the byte test that rejects a local name (false = nothing is rejected)
		addrBoolSite(sp, "helo_bad_byte", "(b : N)", "Client.Hello", pickWith(sp, "localName[i]"),
			map[string]string{"localName[i]": "b"}, "false")
		// smtpMailbox: the refusal test and the needs-backslash test of the quoting loop
		addrBoolSite(p, "mailbox_refuse_byte", "(b : N)", "smtpMailbox", pickWith(p, "0x7f"),
			map[string]string{"char": "b"}, "false")
		addrBoolSite(p, "mailbox_escape_byte", "(b : N)", "smtpMailbox", pickWith(p, `'"'`),
			map[string]string{"char": "b"}, "false")

		// setter table
		var rows []string
		for _, name := range addrWrappers {
			fn, ok := p.funcs["Msg."+name]
			callee, hdr, format := "", "", ""
			if ok && fn.Body != nil {
				ast.Inspect(fn.Body, func(x ast.Node) bool {
					ce, ok := x.(*ast.CallExpr)
					if !ok || callee != "" {
						return true
					}
					se, ok := ce.Fun.(*ast.SelectorExpr)
					if !ok {
						return true
					}
					if id, ok := se.X.(*ast.Ident); !ok || id.Name != "m" {
						return true
					}
					callee = se.Sel.Name
					if len(ce.Args) > 0 {
						if id, ok := ce.Args[0].(*ast.Ident); ok {
							if s, ok := p.evalStr(id); ok {
								hdr = s
							}
						}
					}
					return true
				})
				for _, s := range addrStrLits(fn.Body) {
					if strings.Contains(s, "%") {
						format = s
					}
				}
			}
			if callee == "" {
				untranslatable = append(untranslatable, "addr_setter_"+name)
			}
			rows = append(rows, "("+coqBytes(name)+", "+coqBytes(callee)+", "+coqBytes(hdr)+", "+coqBytes(format)+")")
		}
		// smtp.Client.Mail / Rcpt (repaired tree): the byte test that refuses a DSN parameter value
		addrBoolSite(sp, "param_bad_byte", "(b : N)", "validateParamValue", pickWith(sp, "value[i]"),
			map[string]string{"value[i]": "b"}, "false")
		// client.go DSN options: the expression that is validated (switch tag) is the one that is stored
		dsnSame := func(fnName, stored string) bool {
			fn, ok := p.funcs[fnName]
			if !ok || fn.Body == nil {
				return false
			}
			tagOK, storeOK := false, false
			ast.Inspect(fn.Body, func(x ast.Node) bool {
				switch t := x.(type) {
				case *ast.SwitchStmt:
					if t.Tag != nil && p.src(t.Tag) == stored {
						tagOK = true
					}
				case *ast.AssignStmt:
					for _, rhs := range t.Rhs {
						src := p.src(rhs)
						if src == stored || src == "append(rcptOpts, string("+stored+"))" {
							storeOK = true
						}
					}
				}
				return true
			})
			return tagOK && storeOK
		}
		emit("(* client.go: WithDSNMailReturnType / WithDSNRcptNotifyType store the very expression their switch validates *)\n")
		emit("Definition dsn_ret_validated_is_stored : bool := %v.\nDefinition dsn_notify_validated_is_stored : bool := %v.\n",
			dsnSame("WithDSNMailReturnType", "option"), dsnSame("WithDSNRcptNotifyType", "opt"))
		// Msg.Reset: a top-level statement of the body assigns a freshly made map to m.addrHeader
		realloc := false
		if fn, ok := p.funcs["Msg.Reset"]; ok && fn.Body != nil {
			for _, st := range fn.Body.List {
				if as, ok := st.(*ast.AssignStmt); ok && len(as.Lhs) == 1 && len(as.Rhs) == 1 && p.src(as.Lhs[0]) == "m.addrHeader" {
					if ce, ok := as.Rhs[0].(*ast.CallExpr); ok && p.src(ce.Fun) == "make" {
						realloc = true
					}
				}
			}
		} else {
			untranslatable = append(untranslatable, "reset_reallocates_addr_header")
		}
		emit("(* msg.go: Msg.Reset replaces m.addrHeader by a new map (unconditionally, at the top level of its body) *)\n")
		emit("Definition reset_reallocates_addr_header : bool := %v.\n", realloc)
		// the *Format setters: is the display name wrapped in quotedPairs(...) before it is interpolated?
		var fe []string
		for _, name := range []string{"EnvelopeFromFormat", "FromFormat", "AddToFormat", "AddCcFormat", "AddBccFormat", "ReplyToFormat", "RequestMDNAddToFormat"} {
			escaped := false
			if fn, ok := p.funcs["Msg."+name]; ok && fn.Body != nil {
				ast.Inspect(fn.Body, func(x ast.Node) bool {
					ce, ok := x.(*ast.CallExpr)
					if !ok || p.src(ce.Fun) != "fmt.Sprintf" || len(ce.Args) != 3 {
						return true
					}
					if p.src(ce.Args[1]) == "quotedPairs(name)" && p.src(ce.Args[2]) == "addr" {
						escaped = true
					}
					return true
				})
			} else {
				untranslatable = append(untranslatable, "addr_format_"+name)
			}
			fe = append(fe, fmt.Sprintf("(%s, %v)", coqBytes(name), escaped))
		}
		emit("(* msg.go: the *Format setters: (name, the display name passes through quotedPairs(name) inside fmt.Sprintf(format, _, addr)) *)\n")
		emit("Definition addr_format_escaped : list (list N * bool) :=\n  [%s].\n", strings.Join(fe, ";\n   "))
		addrEmitLits(p, "quoted_pairs_literals", "quotedPairs")
		emit("(* msg.go: for each public address setter of Msg: (name, method it delegates to, header constant passed, Sprintf format) *)\n")
		emit("Definition addr_setters : list (list N * list N * list N * list N) :=\n  [%s].\n", strings.Join(rows, ";\n   "))
	})
}
