package main

// T1 items of the smtpdial engine (C07, C17, C19): facts about client.go (DialToSMTPClientWithContext,
// CloseWithSMTPClient, checkConn, NewClient), auth.go (the SMTPAuthType strings), tls.go and smtp/auth.go
// (isLocalhost) read from the AST of the working tree.  A site that is not found in the expected shape is
// emitted with a value that makes the dependent proof obligation fail, and is listed as untranslatable.

import (
	"go/ast"
	"go/token"
	"sort"
	"strconv"
	"strings"
)

// callPositions returns the positions of all call expressions in n whose normalised source contains sub
func callPositions(p *pkg, n ast.Node, sub string) []token.Pos {
	var res []token.Pos
	if n == nil {
		return res
	}
	ast.Inspect(n, func(x ast.Node) bool {
		if ce, ok := x.(*ast.CallExpr); ok {
			if strings.Contains(p.src(ce.Fun), sub) {
				res = append(res, ce.Pos())
			}
		}
		return true
	})
	return res
}

// closesClient: the block contains a call that closes the smtp.Client's connection: either x.Close() directly
// or a call of a package-level function whose body calls .Close()
func closesClient(p *pkg, b *ast.BlockStmt) bool {
	found := false
	ast.Inspect(b, func(x ast.Node) bool {
		ce, ok := x.(*ast.CallExpr)
		if !ok {
			return true
		}
		fun := p.src(ce.Fun)
		if strings.HasSuffix(fun, ".Close") {
			found = true
		}
		if id, ok := ce.Fun.(*ast.Ident); ok {
			if fn, ok := p.funcs[id.Name]; ok && fn.Body != nil && len(callPositions(p, fn.Body, ".Close")) > 0 {
				found = true
			}
		}
		return true
	})
	return found
}

func init() {
	extras = append(extras, func(p, sp *pkg) {
		emit("\n(* ---- smtpdial engine: dial dialogue (client.go, auth.go, tls.go, smtp/auth.go) ---- *)\n")
		for _, c := range [][2]string{{"smtp_auth_cram_md5", "SMTPAuthCramMD5"}, {"smtp_auth_custom", "SMTPAuthCustom"}, {"smtp_auth_login", "SMTPAuthLogin"},
			{"smtp_auth_login_noenc", "SMTPAuthLoginNoEnc"}, {"smtp_auth_noauth", "SMTPAuthNoAuth"}, {"smtp_auth_plain", "SMTPAuthPlain"},
			{"smtp_auth_plain_noenc", "SMTPAuthPlainNoEnc"}, {"smtp_auth_xoauth2", "SMTPAuthXOAUTH2"}, {"smtp_auth_scram_sha1", "SMTPAuthSCRAMSHA1"},
			{"smtp_auth_scram_sha1_plus", "SMTPAuthSCRAMSHA1PLUS"}, {"smtp_auth_scram_sha256", "SMTPAuthSCRAMSHA256"},
			{"smtp_auth_scram_sha256_plus", "SMTPAuthSCRAMSHA256PLUS"}, {"smtp_auth_autodiscover", "SMTPAuthAutoDiscover"}} {
			p.constS(c[0], c[1])
		}
		// number of SMTPAuthType constants declared in auth.go
		nAuth := 0
		if f, ok := p.files["auth.go"]; ok {
			for _, d := range f.Decls {
				if gd, ok := d.(*ast.GenDecl); ok && gd.Tok == token.CONST {
					for _, s := range gd.Specs {
						vs := s.(*ast.ValueSpec)
						if id, ok := vs.Type.(*ast.Ident); ok && id.Name == "SMTPAuthType" {
							nAuth += len(vs.Names)
						}
					}
				}
			}
		}
		emit("(* auth.go: number of SMTPAuthType constants *)\nDefinition smtp_auth_type_count : N := %d.\n", nAuth)

		// default TLS policy
		if e, ok := p.consts["DefaultTLSPolicy"]; ok {
			emitBool("default_tls_policy_mandatory", p.src(e) == "TLSMandatory", p.pos(e)+": DefaultTLSPolicy = "+p.src(e))
		} else {
			untranslatable = append(untranslatable, "default_tls_policy_mandatory")
			emitBool("default_tls_policy_mandatory", false, "UNTRANSLATABLE DefaultTLSPolicy")
		}

		// isLocalhost names
		emitLitList(sp, "smtp_localhost_names", "isLocalhost")
		// isLocalhost as the exact predicate: the body must be a single "return <param> == "lit" || ... "; any other
		// shape (a further statement, a call such as strings.HasPrefix, a comparison other than ==) is untranslatable and
		// emitted as "everything is local", which breaks the obligation C07_source_is_localhost
		emit("Fixpoint gen_bytes_eqb (a b : list N) : bool :=\n  match a, b with\n  | [], [] => true\n  | x :: a', y :: b' => (x =? y) && gen_bytes_eqb a' b'\n  | _, _ => false\n  end.\n")
		locOK := false
		var locLits []string
		if fn, ok := sp.funcs["isLocalhost"]; ok && fn.Body != nil && len(fn.Body.List) == 1 && fn.Type.Params != nil &&
			len(fn.Type.Params.List) == 1 && len(fn.Type.Params.List[0].Names) == 1 {
			param := fn.Type.Params.List[0].Names[0].Name
			if rs, ok := fn.Body.List[0].(*ast.ReturnStmt); ok && len(rs.Results) == 1 {
				locOK = true
				var walk func(e ast.Expr)
				walk = func(e ast.Expr) {
					switch x := e.(type) {
					case *ast.ParenExpr:
						walk(x.X)
					case *ast.BinaryExpr:
						switch x.Op {
						case token.LOR:
							walk(x.X)
							walk(x.Y)
						case token.EQL:
							id, ok1 := x.X.(*ast.Ident)
							lit, ok2 := x.Y.(*ast.BasicLit)
							if ok1 && ok2 && id.Name == param && lit.Kind == token.STRING {
								if v, err := strconv.Unquote(lit.Value); err == nil {
									locLits = append(locLits, v)
									return
								}
							}
							locOK = false
						default:
							locOK = false
						}
					default:
						locOK = false
					}
				}
				walk(rs.Results[0])
				if locOK && len(locLits) > 0 {
					terms := make([]string, len(locLits))
					for i, l := range locLits {
						terms[i] = "gen_bytes_eqb n " + coqBytes(l)
					}
					emit("(* %s: isLocalhost: %s *)\nDefinition is_localhost (n : list N) : bool :=\n  %s.\n", sp.pos(fn), sp.src(rs), strings.Join(terms, " ||\n  "))
				} else {
					locOK = false
				}
			}
		}
		if !locOK {
			untranslatable = append(untranslatable, "is_localhost")
			emit("(* UNTRANSLATABLE: smtp/auth.go isLocalhost is not a disjunction of equalities with string literals *)\nDefinition is_localhost (n : list N) : bool := true.\n")
		}

		// NewClient: default tls.Config literal
		srvName, verifies, foundCfg := false, true, false
		if fn, ok := p.funcs["NewClient"]; ok && fn.Body != nil {
			ast.Inspect(fn.Body, func(x ast.Node) bool {
				cl, ok := x.(*ast.CompositeLit)
				if !ok || p.src(cl.Type) != "tls.Config" {
					return true
				}
				foundCfg = true
				for _, el := range cl.Elts {
					if kv, ok := el.(*ast.KeyValueExpr); ok {
						k, v := p.src(kv.Key), p.src(kv.Value)
						if k == "ServerName" && v == "host" {
							srvName = true
						}
						if k == "InsecureSkipVerify" && v != "false" {
							verifies = false
						}
					}
				}
				return true
			})
		}
		if !foundCfg {
			untranslatable = append(untranslatable, "default_tlsconfig")
			srvName, verifies = false, false
		}
		emitBool("default_tlsconfig_servername_is_host", srvName, "client.go NewClient: tls.Config literal has ServerName: host")
		emitBool("default_tlsconfig_verifies", verifies, "client.go NewClient: tls.Config literal does not set InsecureSkipVerify")

		// DialToSMTPClientWithContext: deadline armed before the greeting is read; every error return after
		// smtp.NewClient closes the client
		arms, closes, nErrRet := false, false, 0
		if fn, ok := p.funcs["Client.DialToSMTPClientWithContext"]; ok && fn.Body != nil {
			nc := callPositions(p, fn.Body, "smtp.NewClient")
			sd := callPositions(p, fn.Body, ".SetDeadline")
			if len(nc) == 1 && len(sd) >= 1 && sd[0] < nc[0] {
				arms = true
			}
			if len(nc) == 1 {
				closes = true
				for _, st := range fn.Body.List {
					is, ok := st.(*ast.IfStmt)
					// error returns after the NewClient call; the plain "if err != nil" directly after
					// smtp.NewClient (no init statement) is NewClient's own failure: it closes by itself
					if !ok || is.Pos() < nc[0] || is.Init == nil || !returnsError(p, is.Body) {
						continue
					}
					nErrRet++
					if !closesClient(p, is.Body) {
						closes = false
					}
				}
				if nErrRet < 3 {
					closes = false
				}
			}
		} else {
			untranslatable = append(untranslatable, "dial_site")
		}
		emitBool("dial_arms_before_greeting", arms, "client.go DialToSMTPClientWithContext: connection.SetDeadline(...) precedes smtp.NewClient(...)")
		emitBool("dial_error_returns_close", closes, "client.go DialToSMTPClientWithContext: every error return after smtp.NewClient (Hello, tls, auth) closes the client first")

		// CloseWithSMTPClient
		qClose, qArm := false, false
		if fn, ok := p.funcs["Client.CloseWithSMTPClient"]; ok && fn.Body != nil {
			q := callPositions(p, fn.Body, "client.Quit")
			ud := callPositions(p, fn.Body, ".UpdateDeadline")
			if len(q) == 1 && len(ud) >= 1 && ud[0] < q[0] {
				qArm = true
			}
			for _, is := range ifStmts(fn) {
				if is.Init != nil && len(callPositions(p, is.Init, "client.Quit")) == 1 && returnsError(p, is.Body) && closesClient(p, is.Body) {
					qClose = true
				}
			}
		} else {
			untranslatable = append(untranslatable, "close_site")
		}
		emitBool("close_on_quit_failure", qClose, "client.go CloseWithSMTPClient: the connection is closed when client.Quit() fails")
		emitBool("close_updates_deadline", qArm, "client.go CloseWithSMTPClient: UpdateDeadline precedes Quit")

		// checkConn
		ccArm := false
		if fn, ok := p.funcs["Client.checkConn"]; ok && fn.Body != nil {
			no := callPositions(p, fn.Body, ".Noop")
			ud := callPositions(p, fn.Body, ".UpdateDeadline")
			if len(no) == 1 && len(ud) >= 1 && ud[0] < no[0] {
				ccArm = true
			}
		} else {
			untranslatable = append(untranslatable, "checkconn_site")
		}
		emitBool("checkconn_deadline_before_noop", ccArm, "client.go checkConn: UpdateDeadline precedes Noop")

		// every deadline call of both packages: exactly the two setting sites (the dial, smtp.Client.UpdateDeadline), each
		// with "now + the configured timeout"; the three UpdateDeadline callers pass c.connTimeout
		sites, argsOK := 0, true
		argOf := func(pp *pkg, ce *ast.CallExpr) string {
			if len(ce.Args) != 1 {
				return ""
			}
			return pp.src(ce.Args[0])
		}
		for _, pp := range []*pkg{p, sp} {
			for name, fn := range pp.funcs {
				if fn.Body == nil {
					continue
				}
				ast.Inspect(fn.Body, func(x ast.Node) bool {
					ce, ok := x.(*ast.CallExpr)
					if !ok {
						return true
					}
					fun := pp.src(ce.Fun)
					switch {
					case strings.HasSuffix(fun, ".SetDeadline") || strings.HasSuffix(fun, ".SetReadDeadline") || strings.HasSuffix(fun, ".SetWriteDeadline"):
						sites++
						want := map[string]string{"Client.DialToSMTPClientWithContext": "time.Now().Add(c.connTimeout)", "Client.UpdateDeadline": "time.Now().Add(timeout)"}[name]
						if want == "" || argOf(pp, ce) != want || !strings.HasSuffix(fun, ".SetDeadline") {
							argsOK = false
						}
					case strings.HasSuffix(fun, ".UpdateDeadline"):
						if argOf(pp, ce) != "c.connTimeout" {
							argsOK = false
						}
					}
					return true
				})
			}
		}
		emit("(* client.go + smtp/smtp.go: number of Set(Read|Write)Deadline call sites *)\nDefinition deadline_call_sites : N := %d.\n", sites)
		emitBool("deadline_args_are_timeout", argsOK, "every SetDeadline is time.Now().Add(<the configured timeout>) in DialToSMTPClientWithContext / smtp.Client.UpdateDeadline; every UpdateDeadline call passes c.connTimeout")

		// the configuration path: ports, and "every policy / ssl setter assigns its field unconditionally"
		p.constN("default_port", "DefaultPort")
		p.constN("default_port_ssl", "DefaultPortSSL")
		p.constN("default_port_tls", "DefaultPortTLS")
		// lastAssign: the body has no return statement and its last top-level statement is "<lhs> = <rhs>"
		lastAssign := func(body *ast.BlockStmt, lhs, rhs string) bool {
			if body == nil || len(body.List) == 0 {
				return false
			}
			hasReturn := false
			ast.Inspect(body, func(x ast.Node) bool {
				if _, ok := x.(*ast.ReturnStmt); ok {
					hasReturn = true
				}
				return true
			})
			as, ok := body.List[len(body.List)-1].(*ast.AssignStmt)
			return ok && !hasReturn && len(as.Lhs) == 1 && len(as.Rhs) == 1 && as.Tok == token.ASSIGN && p.src(as.Lhs[0]) == lhs && p.src(as.Rhs[0]) == rhs
		}
		// optBody: the body of the closure "func(c *Client) error {...}" an Option constructor returns
		optBody := func(name string) *ast.BlockStmt {
			fn, ok := p.funcs[name]
			if !ok || fn.Body == nil {
				return nil
			}
			var res *ast.BlockStmt
			ast.Inspect(fn.Body, func(x ast.Node) bool {
				if fl, ok := x.(*ast.FuncLit); ok && res == nil {
					res = fl.Body
				}
				return true
			})
			return res
		}
		// optDoes: the closure is "<stmt>; return nil" with <stmt> the given source text
		optDoes := func(name, stmt string) bool {
			b := optBody(name)
			if b == nil || len(b.List) != 2 {
				return false
			}
			rs, ok := b.List[1].(*ast.ReturnStmt)
			return ok && len(rs.Results) == 1 && p.src(rs.Results[0]) == "nil" && p.src(b.List[0]) == stmt
		}
		body := func(name string) *ast.BlockStmt {
			if fn, ok := p.funcs[name]; ok {
				return fn.Body
			}
			return nil
		}
		portGuard := func(name string) bool { // the port / fallback side effects sit under "if c.port == DefaultPort"
			b := body(name)
			if b == nil || len(b.List) != 2 {
				return false
			}
			is, ok := b.List[0].(*ast.IfStmt)
			return ok && is.Init == nil && is.Else == nil && p.src(is.Cond) == "c.port == DefaultPort"
		}
		setters := lastAssign(body("Client.SetTLSPolicy"), "c.tlspolicy", "policy") && len(body("Client.SetTLSPolicy").List) == 1 &&
			lastAssign(body("Client.SetTLSPortPolicy"), "c.tlspolicy", "policy") && portGuard("Client.SetTLSPortPolicy") &&
			lastAssign(body("Client.SetSSL"), "c.useSSL", "ssl") && len(body("Client.SetSSL").List) == 1 &&
			lastAssign(body("Client.SetSSLPort"), "c.useSSL", "ssl") && portGuard("Client.SetSSLPort") &&
			optDoes("WithTLSPolicy", "c.tlspolicy = policy") && optDoes("WithTLSPortPolicy", "c.SetTLSPortPolicy(policy)") &&
			optDoes("WithSSL", "c.useSSL = true") && optDoes("WithSSLPort", "c.SetSSLPort(true, fallback)")
		emitBool("cfg_setters_unconditional", setters, "client.go: (With|Set)TLSPolicy, (With|Set)TLSPortPolicy, WithSSL/SetSSL, (With|Set)SSLPort assign tlspolicy / useSSL as their last statement, without a return before it; port side effects only under c.port == DefaultPort")

		// the fallback dial of DialToSMTPClientWithContext: the SAME callee expression and the SAME context argument as the
		// primary dial (only network / address differ); the context is the one derived with the connTimeout deadline
		sameCallee, sameCtx := false, false
		if fn, ok := p.funcs["Client.DialToSMTPClientWithContext"]; ok && fn.Body != nil {
			var prim, fb *ast.CallExpr
			derived := ""
			ast.Inspect(fn.Body, func(x ast.Node) bool {
				switch n := x.(type) {
				case *ast.AssignStmt:
					if len(n.Rhs) == 1 && len(n.Lhs) == 2 {
						if ce, ok := n.Rhs[0].(*ast.CallExpr); ok && (p.src(ce.Fun) == "context.WithDeadline" || p.src(ce.Fun) == "context.WithTimeout") {
							derived = p.src(n.Lhs[0])
						}
					}
				case *ast.CallExpr:
					for _, a := range n.Args {
						switch p.src(a) {
						case "c.ServerAddr()":
							if prim == nil {
								prim = n
							} else {
								prim = &ast.CallExpr{} // more than one primary dial: not the expected shape
							}
						case "c.serverFallbackAddr()":
							if fb == nil {
								fb = n
							} else {
								fb = &ast.CallExpr{}
							}
						}
					}
				}
				return true
			})
			if prim != nil && fb != nil && prim.Fun != nil && fb.Fun != nil && len(prim.Args) == 3 && len(fb.Args) == 3 {
				_, isIdent := prim.Fun.(*ast.Ident)
				sameCallee = isIdent && p.src(prim.Fun) == p.src(fb.Fun)
				sameCtx = derived != "" && p.src(prim.Args[0]) == derived && p.src(fb.Args[0]) == derived
			}
		} else {
			untranslatable = append(untranslatable, "fallback_dial_site")
		}
		emitBool("fallback_dial_same_callee", sameCallee, "client.go DialToSMTPClientWithContext: the fallback dial calls the same function value (one identifier) as the primary dial")
		emitBool("fallback_dial_same_ctx", sameCtx, "client.go DialToSMTPClientWithContext: primary and fallback dial both get the context derived with the connTimeout deadline")
		emitBool("fallback_dial_same_as_primary", sameCallee && sameCtx, "client.go DialToSMTPClientWithContext: fallback dial = primary dial up to network / address")

		// Client.DialWithContext always dials: the call of DialToSMTPClientWithContext is reached without any return before it
		alwaysDials := false
		if fn, ok := p.funcs["Client.DialWithContext"]; ok && fn.Body != nil {
			dc := callPositions(p, fn.Body, "c.DialToSMTPClientWithContext")
			if len(dc) == 1 {
				alwaysDials = true
				ast.Inspect(fn.Body, func(x ast.Node) bool {
					if rs, ok := x.(*ast.ReturnStmt); ok && rs.Pos() < dc[0] {
						alwaysDials = false
					}
					return true
				})
			}
		} else {
			untranslatable = append(untranslatable, "dialwithcontext_site")
		}
		emitBool("dial_always_dials", alwaysDials, "client.go DialWithContext: no return before the call of DialToSMTPClientWithContext (a new connection is dialed on every call)")

		// smtp.Client.cmd: every return path after Text.StartResponse(id) goes through Text.EndResponse(id) -- otherwise the
		// textproto pipeline is never advanced and the next command waits in StartResponse for ever
		endResp := false
		if fn, ok := sp.funcs["Client.cmd"]; ok && fn.Body != nil {
			st := callPositions(sp, fn.Body, ".StartResponse")
			en := callPositions(sp, fn.Body, ".EndResponse")
			if len(st) == 1 && len(en) == 1 && st[0] < en[0] {
				endResp = true
				ast.Inspect(fn.Body, func(x ast.Node) bool {
					if rs, ok := x.(*ast.ReturnStmt); ok && rs.Pos() > st[0] && rs.Pos() < en[0] {
						endResp = false
					}
					if _, ok := x.(*ast.DeferStmt); ok {
						endResp = false // a deferred call would need its own analysis
					}
					return true
				})
			}
		} else {
			untranslatable = append(untranslatable, "smtp_cmd_site")
		}
		emitBool("smtp_cmd_endresponse_always", endResp, "smtp/smtp.go Client.cmd: no return between Text.StartResponse(id) and Text.EndResponse(id)")

		// the inventory of deadline-(re)arming points: every function of client.go / smtp that calls Set*Deadline or
		// UpdateDeadline, with that call's place among the function's protocol calls ("*" marks a call inside a loop)
		landmarks := []string{"SetDeadline", "SetReadDeadline", "SetWriteDeadline", "UpdateDeadline", "NewClient", "Hello", "Noop", "Quit",
			"Mail", "Rcpt", "Data", "Reset", "StartTLS", "Auth", "HasConnection"}
		var inventory []string
		for _, pk := range []struct {
			name string
			pp   *pkg
		}{{"mail", p}, {"smtp", sp}} {
			var names []string
			for n := range pk.pp.funcs {
				names = append(names, n)
			}
			sort.Strings(names)
			for _, n := range names {
				fn := pk.pp.funcs[n]
				if fn.Body == nil {
					continue
				}
				type span struct{ a, b token.Pos }
				var loops []span
				ast.Inspect(fn.Body, func(x ast.Node) bool {
					switch l := x.(type) {
					case *ast.ForStmt:
						loops = append(loops, span{l.Body.Pos(), l.Body.End()})
					case *ast.RangeStmt:
						loops = append(loops, span{l.Body.Pos(), l.Body.End()})
					}
					return true
				})
				var seq []string
				arming := false
				ast.Inspect(fn.Body, func(x ast.Node) bool {
					ce, ok := x.(*ast.CallExpr)
					if !ok {
						return true
					}
					fun := pk.pp.src(ce.Fun)
					for _, lm := range landmarks {
						if fun == lm || strings.HasSuffix(fun, "."+lm) {
							t := lm
							for _, sp := range loops {
								if ce.Pos() >= sp.a && ce.Pos() < sp.b {
									t += "*"
									break
								}
							}
							seq = append(seq, t)
							if strings.Contains(lm, "Deadline") {
								arming = true
							}
						}
					}
					return true
				})
				if arming {
					inventory = append(inventory, pk.name+"."+n+": "+strings.Join(seq, " "))
				}
			}
		}
		invItems := make([]string, len(inventory))
		for i, l := range inventory {
			invItems[i] = coqBytes(l)
		}
		emit("(* deadline-(re)arming points: %s *)\nDefinition deadline_inventory : list (list N) :=\n  [%s].\n", strings.Join(inventory, " | "), strings.Join(invItems, ";\n   "))

		// every function of package smtp that locks a mutex (x.mutex.Lock / RLock) releases it on every return path: by
		// a defer, or explicitly before each return and before the end of the body.  A linear walk over the statements
		// with the state "held"; function literals are analysed as functions of their own.
		mutexOK := true
		var leaky []string
		isLock := func(pp *pkg, st ast.Stmt) (lock, unlock bool) {
			es, ok := st.(*ast.ExprStmt)
			if !ok {
				return
			}
			ce, ok := es.X.(*ast.CallExpr)
			if !ok {
				return
			}
			f := pp.src(ce.Fun)
			if !strings.Contains(f, "mutex.") && !strings.Contains(f, "Mutex.") {
				return
			}
			return strings.HasSuffix(f, ".Lock") || strings.HasSuffix(f, ".RLock"), strings.HasSuffix(f, ".Unlock") || strings.HasSuffix(f, ".RUnlock")
		}
		var walkBlock func(pp *pkg, list []ast.Stmt, held bool, bad *bool) bool
		walkBlock = func(pp *pkg, list []ast.Stmt, held bool, bad *bool) bool {
			for _, st := range list {
				if l, u := isLock(pp, st); l || u {
					held = l
					continue
				}
				switch x := st.(type) {
				case *ast.ReturnStmt:
					if held {
						*bad = true
					}
					return held
				case *ast.BlockStmt:
					held = walkBlock(pp, x.List, held, bad)
				case *ast.IfStmt:
					walkBlock(pp, x.Body.List, held, bad)
					if x.Else != nil {
						walkBlock(pp, []ast.Stmt{x.Else}, held, bad)
					}
				case *ast.ForStmt:
					walkBlock(pp, x.Body.List, held, bad)
				case *ast.RangeStmt:
					walkBlock(pp, x.Body.List, held, bad)
				case *ast.SwitchStmt:
					for _, cc := range x.Body.List {
						walkBlock(pp, cc.(*ast.CaseClause).Body, held, bad)
					}
				case *ast.TypeSwitchStmt:
					for _, cc := range x.Body.List {
						walkBlock(pp, cc.(*ast.CaseClause).Body, held, bad)
					}
				}
			}
			return held
		}
		checkBody := func(pp *pkg, name string, body *ast.BlockStmt) {
			if body == nil {
				return
			}
			// a deferred unlock (directly or inside a deferred function literal) releases on every path
			deferred := false
			for _, st := range body.List {
				if ds, ok := st.(*ast.DeferStmt); ok {
					src := pp.src(ds.Call)
					if strings.Contains(src, "Unlock()") {
						deferred = true
					}
				}
			}
			if deferred {
				return
			}
			bad := false
			if walkBlock(pp, body.List, false, &bad) {
				bad = true // still held at the end of the body
			}
			if bad {
				mutexOK = false
				leaky = append(leaky, name)
			}
		}
		var smtpNames []string
		for n := range sp.funcs {
			smtpNames = append(smtpNames, n)
		}
		sort.Strings(smtpNames)
		for _, n := range smtpNames {
			fn := sp.funcs[n]
			if fn.Body == nil {
				continue
			}
			checkBody(sp, n, fn.Body)
			ast.Inspect(fn.Body, func(x ast.Node) bool {
				if fl, ok := x.(*ast.FuncLit); ok {
					checkBody(sp, n+"/func", fl.Body)
				}
				return true
			})
		}
		emitBool("smtp_mutex_released_always", mutexOK, "package smtp: every function that locks a mutex unlocks it on every return path (by defer or explicitly); leaking: "+strings.Join(leaky, ", "))

		// sendSingleMsg: a failed RSET after a failed MAIL / RCPT / DATA closes the connection; a rejected DATA is
		// followed by RSET (repairs of C03/C04 that change the send dialogue the dial-and-send model runs through)
		sendAbort := false
		if fn, ok := p.funcs["Client.sendSingleMsg"]; ok && fn.Body != nil {
			sendAbort = len(callPositions(p, fn.Body, "client.Close")) >= 3 && len(callPositions(p, fn.Body, "client.Reset")) >= 3
		} else {
			untranslatable = append(untranslatable, "sendsingle_site")
		}
		emitBool("send_aborts_on_failed_rset", sendAbort, "client.go sendSingleMsg: RSET after a rejected DATA; client.Close() when the RSET after a failed MAIL/RCPT/DATA fails")
	})
}
