package main

// extra_eml.go — T1 for the `eml` engine (C09, C10).
//
// (1) string constants eml.go compares against (header names, media types, charsets);
// (2) the PANIC-SITE INVENTORY of eml.go: every IndexExpr, SliceExpr, non-comma-ok
//     TypeAssertExpr and explicit panic call, each as
//         (function name, normalised source text, guard text)
//     where the guard text is the conjunction of what syntactically dominates the site:
//     conditions of enclosing if statements (negated for the else branch), the left operands of
//     enclosing && (negated for ||) when the site is in the right operand, and the negated
//     conditions of earlier sibling `if c { …; return|goto|continue|break }` statements
//     (early exits).  The Coq side (proofs/EmlSites.v) lists the sites the model discharges and
//     requires gen ⊆ discharged, so a new or differently guarded index/slice expression is an
//     unmodelled site and breaks the obligation deterministically.

import (
	"go/ast"
	"go/token"
	"sort"
	"strings"
)

type emlSite struct {
	fn, text, guard, pos string
}

func terminates(b *ast.BlockStmt) bool {
	if b == nil || len(b.List) == 0 {
		return false
	}
	switch s := b.List[len(b.List)-1].(type) {
	case *ast.ReturnStmt, *ast.BranchStmt:
		return true
	case *ast.ExprStmt:
		if c, ok := s.X.(*ast.CallExpr); ok {
			if id, ok := c.Fun.(*ast.Ident); ok && id.Name == "panic" {
				return true
			}
		}
	}
	return false
}

func (p *pkg) emlSites(file *ast.File) []emlSite {
	var sites []emlSite
	for _, d := range file.Decls {
		fd, ok := d.(*ast.FuncDecl)
		if !ok || fd.Body == nil {
			continue
		}
		fname := fd.Name.Name
		if fd.Recv != nil && len(fd.Recv.List) > 0 {
			fname = recvName(fd.Recv.List[0].Type) + "." + fname
		}
		var stack []ast.Node
		guards := func() string {
			var g []string
			for i := 0; i+1 < len(stack); i++ {
				parent, child := stack[i], stack[i+1]
				switch pn := parent.(type) {
				case *ast.IfStmt:
					if child == ast.Node(pn.Body) {
						g = append(g, p.src(pn.Cond))
					} else if pn.Else != nil && child == pn.Else {
						g = append(g, "!("+p.src(pn.Cond)+")")
					}
				case *ast.BinaryExpr:
					if child == ast.Node(pn.Y) {
						if pn.Op == token.LAND {
							g = append(g, p.src(pn.X))
						} else if pn.Op == token.LOR {
							g = append(g, "!("+p.src(pn.X)+")")
						}
					}
				case *ast.ForStmt:
					if child == ast.Node(pn.Body) && pn.Cond != nil {
						g = append(g, "for "+p.src(pn.Cond))
					}
				case *ast.BlockStmt:
					for _, st := range pn.List {
						if ast.Node(st) == child {
							break
						}
						if is, ok := st.(*ast.IfStmt); ok && is.Else == nil && terminates(is.Body) {
							g = append(g, "!("+p.src(is.Cond)+")")
						}
					}
				}
			}
			return strings.Join(g, " && ")
		}
		add := func(n ast.Node) {
			sites = append(sites, emlSite{fn: fname, text: p.src(n), guard: guards(), pos: p.pos(n)})
		}
		ast.Inspect(fd.Body, func(n ast.Node) bool {
			if n == nil {
				stack = stack[:len(stack)-1]
				return true
			}
			stack = append(stack, n)
			switch t := n.(type) {
			case *ast.IndexExpr:
				add(t)
			case *ast.SliceExpr:
				add(t)
			case *ast.TypeAssertExpr:
				if t.Type != nil { // x.(type) of a type switch has Type == nil
					add(t)
				}
			case *ast.CallExpr:
				if id, ok := t.Fun.(*ast.Ident); ok && id.Name == "panic" {
					add(t)
				}
			}
			return true
		})
	}
	// comma-ok type assertions cannot panic: drop `v, ok := x.(T)` forms
	var res []emlSite
	okAssert := map[string]bool{}
	ast.Inspect(file, func(n ast.Node) bool {
		if as, ok := n.(*ast.AssignStmt); ok && len(as.Lhs) == 2 && len(as.Rhs) == 1 {
			if ta, ok := as.Rhs[0].(*ast.TypeAssertExpr); ok {
				okAssert[p.pos(ta)+p.src(ta)] = true
			}
		}
		return true
	})
	for _, s := range sites {
		if okAssert[s.pos+s.text] {
			continue
		}
		res = append(res, s)
	}
	sort.SliceStable(res, func(i, j int) bool {
		if res[i].fn != res[j].fn {
			return res[i].fn < res[j].fn
		}
		return false
	})
	return res
}

// emlAddrFromList recognises, in parseEMLHeaders:
//   addrHeaders := map[AddrHeader]func(...string) error{HeaderTo: msg.To, HeaderCc: msg.Cc, HeaderBcc: msg.Bcc}
//   X, err := netmail.ParseAddressList(v);  for _, a := range X { S = append(S, a.String()) };  addrFunc(S...)
func (p *pkg) emlAddrFromList() (bool, string) {
	fn, ok := p.funcs["parseEMLHeaders"]
	if !ok || fn.Body == nil {
		return false, "function not found"
	}
	setters := map[string]bool{}
	var listVar, strsVar string
	variadicCall := false
	ast.Inspect(fn.Body, func(n ast.Node) bool {
		switch t := n.(type) {
		case *ast.CompositeLit:
			if _, isMap := t.Type.(*ast.MapType); isMap {
				for _, el := range t.Elts {
					if kv, ok := el.(*ast.KeyValueExpr); ok {
						setters[p.src(kv.Key)+"="+p.src(kv.Value)] = true
					}
				}
			}
		case *ast.AssignStmt:
			if len(t.Rhs) == 1 {
				if c, ok := t.Rhs[0].(*ast.CallExpr); ok && p.src(c.Fun) == "netmail.ParseAddressList" && len(t.Lhs) >= 1 {
					listVar = p.src(t.Lhs[0])
				}
			}
		case *ast.RangeStmt:
			if listVar != "" && p.src(t.X) == listVar && t.Value != nil {
				elem := p.src(t.Value)
				for _, st := range t.Body.List {
					if as, ok := st.(*ast.AssignStmt); ok && len(as.Rhs) == 1 {
						if c, ok := as.Rhs[0].(*ast.CallExpr); ok && p.src(c.Fun) == "append" && len(c.Args) == 2 &&
							p.src(c.Args[1]) == elem+".String()" && p.src(c.Args[0]) == p.src(as.Lhs[0]) {
							strsVar = p.src(as.Lhs[0])
						}
					}
				}
			}
		case *ast.CallExpr:
			if strsVar != "" && t.Ellipsis.IsValid() && len(t.Args) == 1 && p.src(t.Args[0]) == strsVar {
				variadicCall = true
			}
		}
		return true
	})
	if !(setters["HeaderTo=msg.To"] && setters["HeaderCc=msg.Cc"] && setters["HeaderBcc=msg.Bcc"]) {
		return false, "the To/Cc/Bcc setters are not msg.To / msg.Cc / msg.Bcc"
	}
	if listVar == "" || strsVar == "" || !variadicCall {
		return false, "no setter call with the String() forms of the ParseAddressList elements"
	}
	return true, "addrFunc(" + strsVar + "...) with " + strsVar + " = String() of each element of " + listVar + " := netmail.ParseAddressList(v)"
}

func cmt(s string) string {
	s = strings.ReplaceAll(s, "(*", "( *")
	s = strings.ReplaceAll(s, "*)", "* )")
	s = strings.ReplaceAll(s, "\"", "''") // a double quote would open a string inside the Coq comment
	return strings.ReplaceAll(s, "\\", "\\\\")
}

func init() {
	extras = append(extras, func(p, sp *pkg) {
		emit("\n(* ---- eml engine (C09, C10): constants eml.go compares against ---- *)\n")
		for _, c := range [][2]string{
			{"hdr_content_type", "HeaderContentType"}, {"hdr_content_disposition", "HeaderContentDisposition"},
			{"hdr_content_transfer_enc", "HeaderContentTransferEnc"}, {"hdr_content_id", "HeaderContentID"},
			{"hdr_mime_version", "HeaderMIMEVersion"}, {"hdr_date", "HeaderDate"}, {"hdr_message_id", "HeaderMessageID"},
			{"hdr_subject", "HeaderSubject"}, {"hdr_user_agent", "HeaderUserAgent"}, {"hdr_x_mailer", "HeaderXMailer"},
			{"type_text_plain", "TypeTextPlain"}, {"type_text_html", "TypeTextHTML"},
			{"type_multipart_alternative", "TypeMultipartAlternative"}, {"type_multipart_mixed", "TypeMultipartMixed"},
			{"type_multipart_related", "TypeMultipartRelated"},
			{"charset_ascii", "CharsetASCII"}, {"charset_utf8", "CharsetUTF8"},
		} {
			p.constS(c[0], c[1])
		}

		// (3) To/Cc/Bcc of the parsed Msg are set from the ELEMENTS of the net/mail.ParseAddressList result
		emit("\n(* ---- eml engine: parseEMLHeaders sets To/Cc/Bcc from the parsed address list ---- *)\n")
		ok, why := p.emlAddrFromList()
		if !ok {
			untranslatable = append(untranslatable, "eml_addr_lists_from_parser")
		}
		emit("(* parseEMLHeaders: %s *)\nDefinition eml_addr_lists_from_parser : bool := %v.\n", cmt(why), ok)

		emit("\n(* ---- eml engine: panic-site inventory of eml.go: (function, expression, syntactic guard) ---- *)\n")
		f, ok := p.files["eml.go"]
		if !ok {
			untranslatable = append(untranslatable, "eml_panic_sites")
			// a site nobody can discharge: the inclusion obligation fails
			emit("(* UNTRANSLATABLE: eml.go not found *)\nDefinition eml_panic_sites : list (list N * list N * list N) := [([0], [0], [0])].\n")
			return
		}
		sites := p.emlSites(f)
		emit("Definition eml_panic_sites : list (list N * list N * list N) :=\n  [")
		for i, s := range sites {
			if i > 0 {
				emit(";\n   ")
			}
			emit("(* %s  %s :: %s  [%s] *)\n   (%s,\n    %s,\n    %s)", s.pos, s.fn, cmt(s.text), cmt(s.guard), coqBytes(s.fn), coqBytes(s.text), coqBytes(s.guard))
		}
		emit("].\n")
	})
}
