package main

// extra_eml.go — T1 for the `eml` engine (C09, C10).
//
// (1) string constants eml.go compares against (header names, media types, charsets);
// (2) the PANIC-SITE INVENTORY of eml.go: every IndexExpr, SliceExpr, non-comma-ok
//     TypeAssertExpr and explicit panic call, each as
//         (function name, normalised source text, guard text)
//     where the guard text is the conjunction of what syntactically dominates the site:
//     conditions of enclosing if statements (negated for the else branch), the left operands of
//     enclosing && (negated for ||) when the site is in the right operand, and the negated
//     conditions of earlier sibling `if c { …; return|goto|continue|break }` statements
//     (early exits).  The Coq side (proofs/EmlSites.v) lists the sites the model discharges and
//     requires gen ⊆ discharged, so a new or differently guarded index/slice expression is an
//     unmodelled site and breaks the obligation deterministically.

import (
	"go/ast"
	"go/token"
	"sort"
	"strings"
)

type emlSite struct {
	fn, text, guard, pos string
}

func terminates(b *ast.BlockStmt) bool {
	if b == nil || len(b.List) == 0 {
		return false
	}
	switch s := b.List[len(b.List)-1].(type) {
	case *ast.ReturnStmt, *ast.BranchStmt:
		return true
	case *ast.ExprStmt:
		if c, ok := s.X.(*ast.CallExpr); ok {
			if id, ok := c.Fun.(*ast.Ident); ok && id.Name == "panic" {
				return true
			}
		}
	}
	return false
}

func (p *pkg) emlSites(file *ast.File) []emlSite {
	var sites []emlSite
	for _, d := range file.Decls {
		fd, ok := d.(*ast.FuncDecl)
		if !ok || fd.Body == nil {
			continue
		}
		fname := fd.Name.Name
		if fd.Recv != nil && len(fd.Recv.List) > 0 {
			fname = recvName(fd.Recv.List[0].Type) + "." + fname
		}
		var stack []ast.Node
		guards := func() string {
			var g []string
			for i := 0; i+1 < len(stack); i++ {
				parent, child := stack[i], stack[i+1]
				switch pn := parent.(type) {
				case *ast.IfStmt:
					if child == ast.Node(pn.Body) {
						g = append(g, p.src(pn.Cond))
					} else if pn.Else != nil && child == pn.Else {
						g = append(g, "!("+p.src(pn.Cond)+")")
					}
				case *ast.BinaryExpr:
					if child == ast.Node(pn.Y) {
						if pn.Op == token.LAND {
							g = append(g, p.src(pn.X))
						} else if pn.Op == token.LOR {
							g = append(g, "!("+p.src(pn.X)+")")
						}
					}
				case *ast.ForStmt:
					if child == ast.Node(pn.Body) && pn.Cond != nil {
						g = append(g, "for "+p.src(pn.Cond))
					}
				case *ast.BlockStmt:
					for _, st := range pn.List {
						if ast.Node(st) == child {
							break
						}
						if is, ok := st.(*ast.IfStmt); ok && is.Else == nil && terminates(is.Body) {
							g = append(g, "!("+p.src(is.Cond)+")")
						}
					}
				}
			}
			return strings.Join(g, " && ")
		}
		add := func(n ast.Node) {
			sites = append(sites, emlSite{fn: fname, text: p.src(n), guard: guards(), pos: p.pos(n)})
		}
		ast.Inspect(fd.Body, func(n ast.Node) bool {
			if n == nil {
				stack = stack[:len(stack)-1]
				return true
			}
			stack = append(stack, n)
			switch t := n.(type) {
			case *ast.IndexExpr:
				add(t)
			case *ast.SliceExpr:
				add(t)
			case *ast.TypeAssertExpr:
				if t.Type != nil { // x.(type) of a type switch has Type == nil
					add(t)
				}
			case *ast.CallExpr:
				if id, ok := t.Fun.(*ast.Ident); ok && id.Name == "panic" {
					add(t)
				}
			}
			return true
		})
	}
	// comma-ok type assertions cannot panic: drop `v, ok := x.(T)` forms
	var res []emlSite
	okAssert := map[string]bool{}
	ast.Inspect(file, func(n ast.Node) bool {
		if as, ok := n.(*ast.AssignStmt); ok && len(as.Lhs) == 2 && len(as.Rhs) == 1 {
			if ta, ok := as.Rhs[0].(*ast.TypeAssertExpr); ok {
				okAssert[p.pos(ta)+p.src(ta)] = true
			}
		}
		return true
	})
	for _, s := range sites {
		if okAssert[s.pos+s.text] {
			continue
		}
		res = append(res, s)
	}
	sort.SliceStable(res, func(i, j int) bool {
		if res[i].fn != res[j].fn {
			return res[i].fn < res[j].fn
		}
		return false
	})
	return res
}

// emlAddrFromList recognises, in parseEMLHeaders:
//   addrHeaders := map[AddrHeader]func(...string) error{HeaderTo: msg.To, HeaderCc: msg.Cc, HeaderBcc: msg.Bcc}
//   X, err := netmail.ParseAddressList(v);  for _, a := range X { S = append(S, a.String()) };  addrFunc(S...)
func (p *pkg) emlAddrFromList() (bool, string) {
	fn, ok := p.funcs["parseEMLHeaders"]
	if !ok || fn.Body == nil {
		return false, "function not found"
	}
	setters := map[string]bool{}
	var listVar, strsVar string
	variadicCall := false
	ast.Inspect(fn.Body, func(n ast.Node) bool {
		switch t := n.(type) {
		case *ast.CompositeLit:
			if _, isMap := t.Type.(*ast.MapType); isMap {
				for _, el := range t.Elts {
					if kv, ok := el.(*ast.KeyValueExpr); ok {
						setters[p.src(kv.Key)+"="+p.src(kv.Value)] = true
					}
				}
			}
		case *ast.AssignStmt:
			if len(t.Rhs) == 1 {
				if c, ok := t.Rhs[0].(*ast.CallExpr); ok && p.src(c.Fun) == "netmail.ParseAddressList" && len(t.Lhs) >= 1 {
					listVar = p.src(t.Lhs[0])
				}
			}
		case *ast.RangeStmt:
			if listVar != "" && p.src(t.X) == listVar && t.Value != nil {
				elem := p.src(t.Value)
				for _, st := range t.Body.List {
					if as, ok := st.(*ast.AssignStmt); ok && len(as.Rhs) == 1 {
						if c, ok := as.Rhs[0].(*ast.CallExpr); ok && p.src(c.Fun) == "append" && len(c.Args) == 2 &&
							p.src(c.Args[1]) == elem+".String()" && p.src(c.Args[0]) == p.src(as.Lhs[0]) {
							strsVar = p.src(as.Lhs[0])
						}
					}
				}
			}
		case *ast.CallExpr:
			if strsVar != "" && t.Ellipsis.IsValid() && len(t.Args) == 1 && p.src(t.Args[0]) == strsVar {
				variadicCall = true
			}
		}
		return true
	})
	if !(setters["HeaderTo=msg.To"] && setters["HeaderCc=msg.Cc"] && setters["HeaderBcc=msg.Bcc"]) {
		return false, "the To/Cc/Bcc setters are not msg.To / msg.Cc / msg.Bcc"
	}
	if listVar == "" || strsVar == "" || !variadicCall {
		return false, "no setter call with the String() forms of the ParseAddressList elements"
	}
	return true, "addrFunc(" + strsVar + "...) with " + strsVar + " = String() of each element of " + listVar + " := netmail.ParseAddressList(v)"
}

// emlDecodeWhole recognises that every transfer decoding in eml.go consumes its WHOLE input:
//   handleEMLMultiPartBase64Encoding:  X, err := base64.StdEncoding.DecodeString(string(<data param>)); part.SetContent(string(X))
//   parseEMLBodyPlain:                 D := quotedprintable.NewReader(..) / base64.NewDecoder(..); B.ReadFrom(D); msg.SetBodyString(.., B.String())
//   parseEMLMultipart:                 data, err := io.ReadAll(multiPart)
// and that no function of eml.go calls a Read method itself (one Read returns one chunk, not the input).
func (p *pkg) emlDecodeWhole(file *ast.File) (bool, string) {
	call := func(e ast.Expr) (*ast.CallExpr, string) {
		if c, ok := e.(*ast.CallExpr); ok {
			return c, p.src(c.Fun)
		}
		return nil, ""
	}
	// (d) no direct Read
	direct := ""
	ast.Inspect(file, func(n ast.Node) bool {
		if c, ok := n.(*ast.CallExpr); ok {
			if sel, ok := c.Fun.(*ast.SelectorExpr); ok {
				switch sel.Sel.Name {
				case "Read", "ReadAt", "ReadByte", "ReadAtLeast", "ReadFull", "CopyN", "LimitReader":
					direct = p.src(c)
				}
			}
		}
		return true
	})
	if direct != "" {
		return false, "partial read in eml.go: " + direct
	}
	// (a) base64 body parts
	fn, ok := p.funcs["handleEMLMultiPartBase64Encoding"]
	if !ok || fn.Body == nil || fn.Type.Params == nil || len(fn.Type.Params.List) == 0 || len(fn.Type.Params.List[0].Names) == 0 {
		return false, "handleEMLMultiPartBase64Encoding not found"
	}
	data := fn.Type.Params.List[0].Names[0].Name
	decoded, stored := "", false
	ast.Inspect(fn.Body, func(n ast.Node) bool {
		switch t := n.(type) {
		case *ast.AssignStmt:
			if len(t.Rhs) == 1 && len(t.Lhs) == 2 {
				if c, f := call(t.Rhs[0]); c != nil && f == "base64.StdEncoding.DecodeString" && len(c.Args) == 1 && p.src(c.Args[0]) == "string("+data+")" {
					decoded = p.src(t.Lhs[0])
				}
			}
		case *ast.CallExpr:
			if decoded != "" && p.src(t.Fun) == "part.SetContent" && len(t.Args) == 1 && p.src(t.Args[0]) == "string("+decoded+")" {
				stored = true
			}
		}
		return true
	})
	if decoded == "" || !stored {
		return false, "handleEMLMultiPartBase64Encoding does not store base64.StdEncoding.DecodeString(string(" + data + ")) as the part content"
	}
	// (b) single-part bodies
	fn, ok = p.funcs["parseEMLBodyPlain"]
	if !ok || fn.Body == nil {
		return false, "parseEMLBodyPlain not found"
	}
	decoders, drained, bufs, set := map[string]bool{}, map[string]bool{}, map[string]bool{}, 0
	ast.Inspect(fn.Body, func(n ast.Node) bool {
		switch t := n.(type) {
		case *ast.AssignStmt:
			if len(t.Rhs) == 1 && len(t.Lhs) == 1 {
				if c, f := call(t.Rhs[0]); c != nil && (f == "quotedprintable.NewReader" || f == "base64.NewDecoder") {
					decoders[p.src(t.Lhs[0])] = true
				}
			}
		case *ast.CallExpr:
			if sel, ok := t.Fun.(*ast.SelectorExpr); ok && sel.Sel.Name == "ReadFrom" && len(t.Args) == 1 && decoders[p.src(t.Args[0])] {
				drained[p.src(t.Args[0])] = true
				bufs[p.src(sel.X)] = true
			}
			if p.src(t.Fun) == "msg.SetBodyString" && len(t.Args) >= 2 {
				if c, ok := t.Args[1].(*ast.CallExpr); ok {
					if sel, ok := c.Fun.(*ast.SelectorExpr); ok && sel.Sel.Name == "String" && bufs[p.src(sel.X)] {
						set++
					}
				}
			}
		}
		return true
	})
	if len(decoders) != 2 || len(drained) != 2 || set != 2 {
		return false, "parseEMLBodyPlain: the quoted-printable / base64 decoders are not drained with ReadFrom into the body"
	}
	// (c) the part data
	fn, ok = p.funcs["parseEMLMultipart"]
	all := false
	if ok && fn.Body != nil {
		ast.Inspect(fn.Body, func(n ast.Node) bool {
			if t, ok := n.(*ast.AssignStmt); ok && len(t.Rhs) == 1 {
				if c, f := call(t.Rhs[0]); c != nil && f == "io.ReadAll" && len(c.Args) == 1 && p.src(c.Args[0]) == "multiPart" {
					all = true
				}
			}
			return true
		})
	}
	if !all {
		return false, "parseEMLMultipart does not read the part with io.ReadAll(multiPart)"
	}
	return true, "part data = io.ReadAll(multiPart); base64 part = DecodeString(string(" + data + ")); plain bodies = ReadFrom(decoder); no direct Read call in eml.go"
}

func cmt(s string) string {
	s = strings.ReplaceAll(s, "(*", "( *")
	s = strings.ReplaceAll(s, "*)", "* )")
	s = strings.ReplaceAll(s, "\"", "''") // a double quote would open a string inside the Coq comment
	return strings.ReplaceAll(s, "\\", "\\\\")
}

func init() {
	extras = append(extras, func(p, sp *pkg) {
		emit("\n(* ---- eml engine (C09, C10): constants eml.go compares against ---- *)\n")
		for _, c := range [][2]string{
			{"hdr_content_type", "HeaderContentType"}, {"hdr_content_disposition", "HeaderContentDisposition"},
			{"hdr_content_transfer_enc", "HeaderContentTransferEnc"}, {"hdr_content_id", "HeaderContentID"},
			{"hdr_mime_version", "HeaderMIMEVersion"}, {"hdr_date", "HeaderDate"}, {"hdr_message_id", "HeaderMessageID"},
			{"hdr_subject", "HeaderSubject"}, {"hdr_user_agent", "HeaderUserAgent"}, {"hdr_x_mailer", "HeaderXMailer"},
			{"type_text_plain", "TypeTextPlain"}, {"type_text_html", "TypeTextHTML"},
			{"type_multipart_alternative", "TypeMultipartAlternative"}, {"type_multipart_mixed", "TypeMultipartMixed"},
			{"type_multipart_related", "TypeMultipartRelated"},
			{"charset_ascii", "CharsetASCII"}, {"charset_utf8", "CharsetUTF8"},
		} {
			p.constS(c[0], c[1])
		}

		// (3) To/Cc/Bcc of the parsed Msg are set from the ELEMENTS of the net/mail.ParseAddressList result
		emit("\n(* ---- eml engine: parseEMLHeaders sets To/Cc/Bcc from the parsed address list ---- *)\n")
		ok, why := p.emlAddrFromList()
		if !ok {
			untranslatable = append(untranslatable, "eml_addr_lists_from_parser")
		}
		emit("(* parseEMLHeaders: %s *)\nDefinition eml_addr_lists_from_parser : bool := %v.\n", cmt(why), ok)

		emit("\n(* ---- eml engine: panic-site inventory of eml.go: (function, expression, syntactic guard) ---- *)\n")
		f, ok := p.files["eml.go"]
		if !ok {
			untranslatable = append(untranslatable, "eml_panic_sites")
			// a site nobody can discharge: the inclusion obligation fails
			emit("Definition eml_decode_whole_input : bool := false.\n")
			emit("(* UNTRANSLATABLE: eml.go not found *)\nDefinition eml_panic_sites : list (list N * list N * list N) := [([0], [0], [0])].\n")
			return
		}
		// (4) every transfer decoding consumes its whole input (no single Read)
		okw, whyw := p.emlDecodeWhole(f)
		if !okw {
			untranslatable = append(untranslatable, "eml_decode_whole_input")
		}
		emit("(* eml.go decoders: %s *)\nDefinition eml_decode_whole_input : bool := %v.\n\n", cmt(whyw), okw)
		sites := p.emlSites(f)
		emit("Definition eml_panic_sites : list (list N * list N * list N) :=\n  [")
		for i, s := range sites {
			if i > 0 {
				emit(";\n   ")
			}
			emit("(* %s  %s :: %s  [%s] *)\n   (%s,\n    %s,\n    %s)", s.pos, s.fn, cmt(s.text), cmt(s.guard), coqBytes(s.fn), coqBytes(s.text), coqBytes(s.guard))
		}
		emit("].\n")
	})
}
