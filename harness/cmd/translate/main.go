// translate — T1: re-reads the go-mail sources (go/parser + go/ast only) and emits
// coq/gen/Gen.v: constants, literal lists at anchored sites, small boolean expressions
// translated leaf-by-leaf, lock programs and the panic-site inventory of eml.go.
// Every definition carries the source position and text as a comment.  A site that cannot
// be located or translated is emitted as a definition that cannot satisfy its obligation
// (and flagged UNTRANSLATABLE), so the dependent proof breaks instead of silently passing.
package main

import (
	"bytes"
	"fmt"
	"go/ast"
	"go/parser"
	"go/printer"
	"go/token"
	"os"
	"path/filepath"
	"sort"
	"strconv"
	"strings"
)

type pkg struct {
	fset   *token.FileSet
	files  map[string]*ast.File
	consts map[string]ast.Expr // const name -> value expr
	funcs  map[string]*ast.FuncDecl
}

func load(dir string) *pkg {
	p := &pkg{fset: token.NewFileSet(), files: map[string]*ast.File{}, consts: map[string]ast.Expr{}, funcs: map[string]*ast.FuncDecl{}}
	ents, err := os.ReadDir(dir)
	if err != nil {
		fmt.Fprintln(os.Stderr, err)
		os.Exit(2)
	}
	for _, e := range ents {
		n := e.Name()
		if e.IsDir() || !strings.HasSuffix(n, ".go") || strings.HasSuffix(n, "_test.go") {
			continue
		}
		f, err := parser.ParseFile(p.fset, filepath.Join(dir, n), nil, parser.ParseComments)
		if err != nil {
			fmt.Fprintln(os.Stderr, err)
			os.Exit(2)
		}
		// skip files guarded by build tags that exclude the default build (e.g. !go1.20)
		skip := false
		for _, cg := range f.Comments {
			if cg.Pos() > f.Package {
				break
			}
			for _, c := range cg.List {
				if strings.HasPrefix(c.Text, "//go:build") && (strings.Contains(c.Text, "!go1.2") || strings.Contains(c.Text, "verif")) {
					skip = true
				}
			}
		}
		if skip {
			continue
		}
		p.files[n] = f
		for _, d := range f.Decls {
			switch d := d.(type) {
			case *ast.GenDecl:
				if d.Tok == token.CONST || d.Tok == token.VAR {
					for _, s := range d.Specs {
						vs := s.(*ast.ValueSpec)
						for i, name := range vs.Names {
							if i < len(vs.Values) {
								p.consts[name.Name] = vs.Values[i]
							}
						}
					}
				}
			case *ast.FuncDecl:
				name := d.Name.Name
				if d.Recv != nil && len(d.Recv.List) > 0 {
					name = recvName(d.Recv.List[0].Type) + "." + name
				}
				p.funcs[name] = d
			}
		}
	}
	return p
}

func recvName(e ast.Expr) string {
	switch t := e.(type) {
	case *ast.StarExpr:
		return recvName(t.X)
	case *ast.Ident:
		return t.Name
	}
	return "?"
}

func (p *pkg) src(n ast.Node) string {
	var b bytes.Buffer
	_ = printer.Fprint(&b, p.fset, n)
	s := strings.Join(strings.Fields(b.String()), " ")
	s = strings.ReplaceAll(s, "(*", "( *")
	s = strings.ReplaceAll(s, "*)", "* )")
	return s
}

func (p *pkg) pos(n ast.Node) string {
	ps := p.fset.Position(n.Pos())
	return fmt.Sprintf("%s:%d", filepath.Base(ps.Filename), ps.Line)
}

// constant evaluation: ints and strings through identifier chains and conversions
func (p *pkg) evalInt(e ast.Expr) (int64, bool) {
	switch t := e.(type) {
	case *ast.BasicLit:
		if t.Kind == token.INT {
			v, err := strconv.ParseInt(t.Value, 0, 64)
			return v, err == nil
		}
		if t.Kind == token.CHAR {
			r, _, _, err := strconv.UnquoteChar(t.Value[1:len(t.Value)-1], '\'')
			return int64(r), err == nil
		}
	case *ast.Ident:
		if v, ok := p.consts[t.Name]; ok {
			return p.evalInt(v)
		}
	case *ast.ParenExpr:
		return p.evalInt(t.X)
	case *ast.BinaryExpr:
		a, ok1 := p.evalInt(t.X)
		b, ok2 := p.evalInt(t.Y)
		if ok1 && ok2 {
			switch t.Op {
			case token.ADD:
				return a + b, true
			case token.SUB:
				return a - b, true
			case token.MUL:
				return a * b, true
			}
		}
	case *ast.CallExpr: // conversion T(x)
		if len(t.Args) == 1 {
			return p.evalInt(t.Args[0])
		}
	}
	return 0, false
}

func (p *pkg) evalStr(e ast.Expr) (string, bool) {
	switch t := e.(type) {
	case *ast.BasicLit:
		if t.Kind == token.STRING {
			s, err := strconv.Unquote(t.Value)
			return s, err == nil
		}
	case *ast.Ident:
		if v, ok := p.consts[t.Name]; ok {
			return p.evalStr(v)
		}
	case *ast.ParenExpr:
		return p.evalStr(t.X)
	case *ast.CallExpr:
		if len(t.Args) == 1 {
			return p.evalStr(t.Args[0])
		}
	}
	return "", false
}

func coqBytes(s string) string {
	parts := make([]string, len(s))
	for i := 0; i < len(s); i++ {
		parts[i] = strconv.Itoa(int(s[i]))
	}
	return "[" + strings.Join(parts, "; ") + "]"
}

var out bytes.Buffer
var untranslatable []string

func emit(format string, a ...interface{}) { fmt.Fprintf(&out, format, a...) }

func (p *pkg) constN(coqName, goName string) {
	e, ok := p.consts[goName]
	if ok {
		if v, ok2 := p.evalInt(e); ok2 && v >= 0 {
			emit("(* %s: %s = %s *)\nDefinition %s : N := %d.\n", p.pos(e), goName, p.src(e), coqName, v)
			return
		}
	}
	untranslatable = append(untranslatable, goName)
	emit("(* UNTRANSLATABLE constant %s *)\nDefinition %s : N := 0.\n", goName, coqName)
}

func (p *pkg) constS(coqName, goName string) {
	e, ok := p.consts[goName]
	if ok {
		if v, ok2 := p.evalStr(e); ok2 {
			emit("(* %s: %s = %s *)\nDefinition %s : list N := %s.\n", p.pos(e), goName, strings.ReplaceAll(p.src(e), "\\", "\\\\"), coqName, coqBytes(v))
			return
		}
	}
	untranslatable = append(untranslatable, goName)
	emit("(* UNTRANSLATABLE constant %s *)\nDefinition %s : list N := [].\n", goName, coqName)
}

// boolean / arithmetic expression translation; leaf maps source text of a leaf to a Coq term
func (p *pkg) expr(e ast.Expr, leaf map[string]string) (string, bool) {
	if s, ok := leaf[p.src(e)]; ok {
		return s, true
	}
	switch t := e.(type) {
	case *ast.ParenExpr:
		s, ok := p.expr(t.X, leaf)
		return "(" + s + ")", ok
	case *ast.BasicLit, *ast.Ident:
		if v, ok := p.evalInt(e); ok && v >= 0 {
			return strconv.FormatInt(v, 10), true
		}
	case *ast.UnaryExpr:
		if t.Op == token.NOT {
			s, ok := p.expr(t.X, leaf)
			return "(negb " + s + ")", ok
		}
	case *ast.BinaryExpr:
		a, ok1 := p.expr(t.X, leaf)
		b, ok2 := p.expr(t.Y, leaf)
		if !(ok1 && ok2) {
			return "", false
		}
		switch t.Op {
		case token.ADD:
			return "(" + a + " + " + b + ")", true
		case token.LSS:
			return "(" + a + " <? " + b + ")", true
		case token.LEQ:
			return "(" + a + " <=? " + b + ")", true
		case token.GTR:
			return "(" + b + " <? " + a + ")", true
		case token.GEQ:
			return "(" + b + " <=? " + a + ")", true
		case token.EQL:
			return "(" + a + " =? " + b + ")", true
		case token.NEQ:
			return "(negb (" + a + " =? " + b + "))", true
		case token.LAND:
			return "(" + a + " && " + b + ")", true
		case token.LOR:
			return "(" + a + " || " + b + ")", true
		}
	}
	return "", false
}

// firstIf returns the n-th (0-based) if statement found in pre-order in the function body
func ifStmts(fn *ast.FuncDecl) []*ast.IfStmt {
	var res []*ast.IfStmt
	ast.Inspect(fn.Body, func(n ast.Node) bool {
		if s, ok := n.(*ast.IfStmt); ok {
			res = append(res, s)
		}
		return true
	})
	return res
}

func (p *pkg) boolSite(coqName, params, fnName string, pick func([]*ast.IfStmt) *ast.IfStmt, leaf map[string]string, fallback string) {
	fn, ok := p.funcs[fnName]
	if ok && fn.Body != nil {
		if st := pick(ifStmts(fn)); st != nil {
			if s, ok2 := p.expr(st.Cond, leaf); ok2 {
				emit("(* %s: in %s: if %s *)\nDefinition %s %s : bool := %s.\n", p.pos(st), fnName, p.src(st.Cond), coqName, params, s)
				return
			}
		}
	}
	untranslatable = append(untranslatable, coqName)
	emit("(* UNTRANSLATABLE site %s in %s *)\nDefinition %s %s : bool := %s.\n", coqName, fnName, coqName, params, fallback)
}

// composite literal lists of named string constants inside a function, n-th occurrence of element type
func (p *pkg) listSite(coqName, fnName, elemType string, nth int) {
	fn, ok := p.funcs[fnName]
	if ok && fn.Body != nil {
		var lits []*ast.CompositeLit
		ast.Inspect(fn.Body, func(n ast.Node) bool {
			if cl, ok := n.(*ast.CompositeLit); ok {
				if at, ok := cl.Type.(*ast.ArrayType); ok {
					if id, ok := at.Elt.(*ast.Ident); ok && id.Name == elemType {
						lits = append(lits, cl)
					}
				}
			}
			return true
		})
		if nth < len(lits) {
			cl := lits[nth]
			var items []string
			good := true
			for _, el := range cl.Elts {
				s, ok := p.evalStr(el)
				if !ok {
					good = false
					break
				}
				items = append(items, coqBytes(s))
			}
			if good {
				emit("(* %s: in %s: %s *)\nDefinition %s : list (list N) :=\n  [%s].\n", p.pos(cl), fnName, p.src(cl), coqName, strings.Join(items, ";\n   "))
				return
			}
		}
	}
	untranslatable = append(untranslatable, coqName)
	emit("(* UNTRANSLATABLE list site %s in %s *)\nDefinition %s : list (list N) := [].\n", coqName, fnName, coqName)
}

func main() {
	if len(os.Args) < 2 {
		fmt.Fprintln(os.Stderr, "usage: translate <repo>")
		os.Exit(2)
	}
	repo := os.Args[1]
	p := load(repo)
	sp := load(filepath.Join(repo, "smtp"))

	emit("(* Gen.v — GENERATED by /verif/harness/cmd/translate from the go-mail working tree.  Do not edit. *)\n")
	emit("From Coq Require Import NArith List Bool.\nImport ListNotations.\nOpen Scope N_scope.\nOpen Scope bool_scope.\n\n")

	emit("(* ---- constants ---- *)\n")
	p.constN("max_header_length", "MaxHeaderLength")
	p.constN("max_body_length", "MaxBodyLength")
	p.constS("single_newline", "SingleNewLine")
	p.constS("double_newline", "DoubleNewLine")
	p.constS("version", "VERSION")
	p.constS("smime_sig_type", "TypeSMIMESigned")
	for _, c := range [][2]string{{"enc_qp", "EncodingQP"}, {"enc_b64", "EncodingB64"}, {"enc_none", "NoEncoding"}, {"enc_7bit", "EncodingUSASCII"},
		{"hdr_from", "HeaderFrom"}, {"hdr_to", "HeaderTo"}, {"hdr_cc", "HeaderCc"}, {"hdr_bcc", "HeaderBcc"}, {"hdr_reply_to", "HeaderReplyTo"}, {"hdr_envelope_from", "HeaderEnvelopeFrom"},
		{"mime_alternative", "MIMEAlternative"}, {"mime_mixed", "MIMEMixed"}, {"mime_related", "MIMERelated"}, {"mime_smime_signed", "MIMESMIMESigned"}} {
		p.constS(c[0], c[1])
	}

	emit("\n(* ---- translated conditions ---- *)\n")
	// base64LineBreaker.Write: the "fits into the line buffer" test is the if whose condition mentions l.used
	p.boolSite("lb_fits", "(used len max : N)", "base64LineBreaker.Write", func(l []*ast.IfStmt) *ast.IfStmt {
		for _, s := range l {
			if strings.Contains(p.src(s.Cond), "l.used") {
				return s
			}
		}
		return nil
	}, map[string]string{"l.used": "used", "len(data)": "len", "MaxBodyLength": "max"}, "false")
	// sanitizeFilename: the replacement predicate
	p.boolSite("sanitize_bad", "(b : N)", "sanitizeFilename", func(l []*ast.IfStmt) *ast.IfStmt {
		if len(l) > 0 {
			return l[0]
		}
		return nil
	}, map[string]string{"input[i]": "b"}, "false")

	emit("\n(* ---- literal lists at anchored sites ---- *)\n")
	p.listSite("render_addr_headers", "msgWriter.writeMsg", "AddrHeader", 0)
	p.listSite("recipient_headers", "Msg.GetRecipients", "AddrHeader", 0)
	p.listSite("auth_prefer_encrypted", "Client.authTypeAutoDiscover", "SMTPAuthType", 0)
	p.listSite("auth_prefer_unencrypted", "Client.authTypeAutoDiscover", "SMTPAuthType", 1)
	p.listSite("eml_common_headers", "parseEMLHeaders", "Header", 0)

	for _, f := range extras {
		f(p, sp)
	}

	sort.Strings(untranslatable)
	emit("\n(* ---- status ---- *)\nDefinition untranslatable_count : N := %d.\n", len(untranslatable))
	emit("(* untranslatable: %s *)\n", strings.Join(untranslatable, ", "))
	os.Stdout.Write(out.Bytes())
}
