package main

// T1 items of the sasl engine (C14, C15, C16): facts about smtp/smtp.go (cmd, Auth) and smtp/auth_scram.go
// read from the AST of the working tree.  A site that is not found in the expected shape is emitted with a value
// that makes the dependent proof obligation fail, and is listed as untranslatable.

import (
	"go/ast"
	"go/token"
	"os"
	"path/filepath"
	"sort"
	"strconv"
	"strings"
)

func strLits(n ast.Node) []string {
	var res []string
	ast.Inspect(n, func(x ast.Node) bool {
		if bl, ok := x.(*ast.BasicLit); ok && bl.Kind == token.STRING {
			if s, err := strconv.Unquote(bl.Value); err == nil {
				res = append(res, s)
			}
		}
		return true
	})
	return res
}

func emitLitList(p *pkg, coqName, fnName string) {
	fn, ok := p.funcs[fnName]
	if !ok || fn.Body == nil {
		untranslatable = append(untranslatable, coqName)
		emit("(* UNTRANSLATABLE literal list of %s *)\nDefinition %s : list (list N) := [].\n", fnName, coqName)
		return
	}
	lits := strLits(fn.Body)
	items := make([]string, len(lits))
	for i, s := range lits {
		items[i] = coqBytes(s)
	}
	emit("(* %s: string literals of %s in source order *)\nDefinition %s : list (list N) :=\n  [%s].\n", p.pos(fn), fnName, coqName, strings.Join(items, ";\n   "))
}

func emitBool(coqName string, v bool, comment string) {
	emit("(* %s *)\nDefinition %s : bool := %v.\n", comment, coqName, v)
}

// hasAssign reports whether node contains the assignment "<lhs> = <rhs>" (source text, normalised)
func hasAssign(p *pkg, n ast.Node, lhs, rhs string) bool {
	found := false
	ast.Inspect(n, func(x ast.Node) bool {
		if as, ok := x.(*ast.AssignStmt); ok && len(as.Lhs) == 1 && len(as.Rhs) == 1 && as.Tok == token.ASSIGN {
			if p.src(as.Lhs[0]) == lhs && p.src(as.Rhs[0]) == rhs {
				found = true
			}
		}
		return true
	})
	return found
}

// returnsError: the block's last statement is a return whose last result is not the identifier nil
func returnsError(p *pkg, b *ast.BlockStmt) bool {
	if b == nil || len(b.List) == 0 {
		return false
	}
	rs, ok := b.List[len(b.List)-1].(*ast.ReturnStmt)
	if !ok || len(rs.Results) == 0 {
		return false
	}
	return p.src(rs.Results[len(rs.Results)-1]) != "nil"
}

func init() {
	extras = append(extras, func(p, sp *pkg) {
		emit("\n(* ---- sasl engine: smtp.Client.cmd / Auth, scramAuth ---- *)\n")

		// 1. redaction placeholder: the string literal(s) starting with '<' in Client.cmd must all be the same one
		ph, phOK := "", false
		if fn, ok := sp.funcs["Client.cmd"]; ok && fn.Body != nil {
			n := 0
			same := true
			for _, s := range strLits(fn.Body) {
				if strings.HasPrefix(s, "<") {
					if n == 0 {
						ph = s
					} else if s != ph {
						same = false
					}
					n++
				}
			}
			phOK = n == 2 && same
		}
		if phOK {
			emit("(* Client.cmd: placeholder logged instead of the command / of a 3xx reply text while authIsActive *)\nDefinition smtp_redacted_placeholder : list N := %s.\n", coqBytes(ph))
		} else {
			untranslatable = append(untranslatable, "smtp_redacted_placeholder")
			emit("(* UNTRANSLATABLE smtp_redacted_placeholder *)\nDefinition smtp_redacted_placeholder : list N := [].\n")
		}

		// 2. the command redaction test and the reply redaction test of Client.cmd
		cmdIfs := func(l []*ast.IfStmt, want string) *ast.IfStmt {
			for _, s := range l {
				if strings.Contains(sp.src(s.Cond), want) {
					return s
				}
			}
			return nil
		}
		sp.boolSite("smtp_cmd_redact", "(active : bool)", "Client.cmd", func(l []*ast.IfStmt) *ast.IfStmt {
			for _, s := range l {
				if sp.src(s.Cond) == "c.authIsActive" {
					return s
				}
			}
			return nil
		}, map[string]string{"c.authIsActive": "active"}, "false")
		sp.boolSite("smtp_reply_redact", "(active : bool) (code : N)", "Client.cmd", func(l []*ast.IfStmt) *ast.IfStmt {
			return cmdIfs(l, "code")
		}, map[string]string{"c.authIsActive": "active", "code": "code"}, "false")

		// 2b. the methods (and functions) of package smtp that assign authIsActive: the redaction flag is owned by Auth
		{
			var writers []string
			for name, f := range sp.funcs {
				if f.Body == nil {
					continue
				}
				w := false
				ast.Inspect(f.Body, func(x ast.Node) bool {
					switch t := x.(type) {
					case *ast.AssignStmt:
						for _, l := range t.Lhs {
							if strings.HasSuffix(sp.src(l), ".authIsActive") {
								w = true
							}
						}
					case *ast.IncDecStmt:
						if strings.HasSuffix(sp.src(t.X), ".authIsActive") {
							w = true
						}
					case *ast.UnaryExpr:
						if t.Op == token.AND && strings.HasSuffix(sp.src(t.X), ".authIsActive") {
							w = true
						}
					}
					return true
				})
				if w {
					writers = append(writers, name)
				}
			}
			sort.Strings(writers)
			items := make([]string, len(writers))
			for i, wn := range writers {
				items[i] = coqBytes(wn)
			}
			emit("(* functions of package smtp that assign (or take the address of) the field authIsActive: %s *)\nDefinition smtp_authIsActive_writers : list (list N) := [%s].\n", strings.Join(writers, ", "), strings.Join(items, "; "))
		}

		// 2c. the condition under which Auth opens the redaction window on entry (the if, outside the deferred function,
		// whose body assigns c.authIsActive = true), as a function of logAuthData and debug
		{
			var openIf *ast.IfStmt
			if fn, ok := sp.funcs["Client.Auth"]; ok && fn.Body != nil {
				for _, st := range fn.Body.List {
					if is, ok := st.(*ast.IfStmt); ok && hasAssign(sp, is.Body, "c.authIsActive", "true") {
						openIf = is
					}
				}
			}
			done := false
			if openIf != nil {
				if e, ok := sp.expr(openIf.Cond, map[string]string{"c.logAuthData": "lad", "c.debug": "dbg"}); ok {
					emit("(* %s: in Client.Auth: if %s { c.authIsActive = true } *)\nDefinition smtp_auth_entry_opens (lad dbg : bool) : bool := %s.\n", sp.pos(openIf), sp.src(openIf.Cond), e)
					done = true
				}
			}
			if !done {
				untranslatable = append(untranslatable, "smtp_auth_entry_opens")
				emit("(* UNTRANSLATABLE smtp_auth_entry_opens: no top-level if in Client.Auth over c.logAuthData / c.debug that sets c.authIsActive = true *)\nDefinition smtp_auth_entry_opens (lad dbg : bool) : bool := false.\n")
			}
		}

		// 2d. nothing outside the scramAuth value carries over from one exchange to the next: package-level variables of
		// internal/pbkdf2, package-level variables of package smtp assigned by scramAuth methods, and reset() only
		// assigns fields (it does not write through the old slices)
		{
			pk := load(filepath.Join(os.Args[1], "internal", "pbkdf2"))
			var vars []string
			for _, f := range pk.files {
				for _, d := range f.Decls {
					if gd, ok := d.(*ast.GenDecl); ok && gd.Tok == token.VAR {
						for _, spc := range gd.Specs {
							for _, n := range spc.(*ast.ValueSpec).Names {
								vars = append(vars, n.Name)
							}
						}
					}
				}
			}
			sort.Strings(vars)
			items := make([]string, len(vars))
			for i, v := range vars {
				items[i] = coqBytes(v)
			}
			emit("(* package-level variables of internal/pbkdf2: %s *)\nDefinition pbkdf2_package_vars : list (list N) := [%s].\n", strings.Join(vars, ", "), strings.Join(items, "; "))
			// package-level vars of smtp
			pkgVars := map[string]bool{}
			for _, f := range sp.files {
				for _, d := range f.Decls {
					if gd, ok := d.(*ast.GenDecl); ok && gd.Tok == token.VAR {
						for _, spc := range gd.Specs {
							for _, n := range spc.(*ast.ValueSpec).Names {
								pkgVars[n.Name] = true
							}
						}
					}
				}
			}
			var written []string
			for name, f := range sp.funcs {
				if !strings.HasPrefix(name, "scramAuth.") || f.Body == nil {
					continue
				}
				ast.Inspect(f.Body, func(x ast.Node) bool {
					if as, ok := x.(*ast.AssignStmt); ok && as.Tok != token.DEFINE {
						for _, l := range as.Lhs {
							root := l
							for {
								switch t := root.(type) {
								case *ast.IndexExpr:
									root = t.X
									continue
								case *ast.SelectorExpr:
									root = t.X
									continue
								case *ast.StarExpr:
									root = t.X
									continue
								}
								break
							}
							if id, ok := root.(*ast.Ident); ok && pkgVars[id.Name] {
								written = append(written, name+":"+id.Name)
							}
						}
					}
					return true
				})
			}
			sort.Strings(written)
			items = make([]string, len(written))
			for i, v := range written {
				items[i] = coqBytes(v)
			}
			emit("(* package-level variables of package smtp assigned inside scramAuth methods: %s *)\nDefinition scram_package_var_writes : list (list N) := [%s].\n", strings.Join(written, ", "), strings.Join(items, "; "))
			resetOK := false
			if fn, ok := sp.funcs["scramAuth.reset"]; ok && fn.Body != nil {
				resetOK = true
				for _, st := range fn.Body.List {
					as, ok := st.(*ast.AssignStmt)
					if !ok || len(as.Lhs) != 1 {
						resetOK = false
						continue
					}
					se, ok := as.Lhs[0].(*ast.SelectorExpr)
					if !ok || sp.src(se.X) != "a" {
						resetOK = false
					}
				}
			}
			emitBool("scram_reset_only_assigns_fields", resetOK, "scramAuth.reset consists of assignments a.<field> = <value> only (no writes through the old slices)")
		}

		// 3. the reply codes Auth dispatches on
		chal, succ, more := int64(0), int64(0), int64(0)
		deferred := false
		if fn, ok := sp.funcs["Client.Auth"]; ok && fn.Body != nil {
			ast.Inspect(fn.Body, func(x ast.Node) bool {
				switch t := x.(type) {
				case *ast.SwitchStmt:
					if t.Tag != nil && sp.src(t.Tag) == "code" {
						for _, st := range t.Body.List {
							cc := st.(*ast.CaseClause)
							if len(cc.List) != 1 {
								continue
							}
							v, ok := sp.evalInt(cc.List[0])
							if !ok {
								continue
							}
							body := ""
							for _, b := range cc.Body {
								body += sp.src(b) + ";"
							}
							if strings.Contains(body, "DecodeString(msg64)") {
								chal = v
							} else if strings.Contains(body, "msg = []byte(msg64)") {
								succ = v
							}
						}
					}
				case *ast.CallExpr:
					if sp.src(t.Fun) == "a.Next" && len(t.Args) == 2 {
						if be, ok := t.Args[1].(*ast.BinaryExpr); ok && be.Op == token.EQL && sp.src(be.X) == "code" {
							if v, ok := sp.evalInt(be.Y); ok {
								more = v
							}
						}
					}
				case *ast.DeferStmt:
					if fl, ok := t.Call.Fun.(*ast.FuncLit); ok && hasAssign(sp, fl.Body, "c.authIsActive", "false") {
						deferred = true
					}
				}
				return true
			})
		}
		// the decoded challenge reaches a.Next unchanged: msg is assigned exactly twice in Auth (case 334: the decoder's
		// result, case 235: the reply text) and is the first argument of a.Next
		passUnchanged := false
		if fn, ok := sp.funcs["Client.Auth"]; ok && fn.Body != nil {
			var rhs []string
			nextArg := ""
			ast.Inspect(fn.Body, func(x ast.Node) bool {
				switch t := x.(type) {
				case *ast.AssignStmt:
					for i, l := range t.Lhs {
						if sp.src(l) == "msg" {
							if len(t.Rhs) == len(t.Lhs) {
								rhs = append(rhs, sp.src(t.Rhs[i]))
							} else if len(t.Rhs) == 1 {
								rhs = append(rhs, sp.src(t.Rhs[0]))
							}
						}
					}
				case *ast.CallExpr:
					if sp.src(t.Fun) == "a.Next" && len(t.Args) == 2 {
						nextArg = sp.src(t.Args[0])
					}
				}
				return true
			})
			passUnchanged = nextArg == "msg" && len(rhs) == 2 && rhs[0] == "encoding.DecodeString(msg64)" && rhs[1] == "[]byte(msg64)"
		}
		emitBool("smtp_auth_challenge_passed_unchanged", passUnchanged, "Client.Auth: msg is assigned only by the decoder (case 334) and from the reply text (case 235) and handed to a.Next as it is")
		if chal == 0 || succ == 0 || more == 0 {
			untranslatable = append(untranslatable, "smtp_auth_codes")
		}
		emit("(* Client.Auth: switch code { case %d: base64 challenge; case %d: final reply }; a.Next(msg, code == %d) *)\n", chal, succ, more)
		emit("Definition smtp_auth_code_challenge : N := %d.\nDefinition smtp_auth_code_success : N := %d.\nDefinition smtp_auth_code_more : N := %d.\n", chal, succ, more)
		if !deferred {
			untranslatable = append(untranslatable, "smtp_auth_deactivation_deferred")
		}
		emitBool("smtp_auth_deactivation_deferred", deferred, "Client.Auth: a deferred function sets c.authIsActive = false")
		// ... unconditionally (a top-level statement of the deferred function), or only under a condition (if !c.logAuthData)
		uncond := false
		if fn, ok := sp.funcs["Client.Auth"]; ok && fn.Body != nil {
			ast.Inspect(fn.Body, func(x ast.Node) bool {
				if ds, ok := x.(*ast.DeferStmt); ok {
					if fl, ok := ds.Call.Fun.(*ast.FuncLit); ok {
						for _, st := range fl.Body.List {
							if as, ok := st.(*ast.AssignStmt); ok && len(as.Lhs) == 1 && sp.src(as.Lhs[0]) == "c.authIsActive" && sp.src(as.Rhs[0]) == "false" {
								uncond = true
							}
						}
					}
				}
				return true
			})
		}
		emitBool("smtp_auth_defer_unconditional", uncond, "Client.Auth: the deferred function clears c.authIsActive unconditionally (not only if !c.logAuthData)")

		// mail.Client.auth builds the mechanism for THIS dial (current user name, password, TLS state) and does not keep it:
		// no assignment to c.smtpAuth inside auth()
		keeps := true
		if fn, ok := p.funcs["Client.auth"]; ok && fn.Body != nil {
			keeps = false
			ast.Inspect(fn.Body, func(x ast.Node) bool {
				if as, ok := x.(*ast.AssignStmt); ok {
					for _, l := range as.Lhs {
						if p.src(l) == "c.smtpAuth" {
							keeps = true
						}
					}
				}
				return true
			})
		} else {
			untranslatable = append(untranslatable, "client_auth_keeps_mechanism")
		}
		emitBool("client_auth_keeps_mechanism", keeps, "mail.Client.auth assigns c.smtpAuth (a mechanism built on one dial would be reused on the next)")

		// loginAuth.Start resets the step counter (C14: a reused Auth value behaves like a fresh one)
		loginResets := false
		if fn, ok := sp.funcs["loginAuth.Start"]; ok && fn.Body != nil {
			loginResets = hasAssign(sp, fn.Body, "a.respStep", "0")
		}
		emitBool("login_start_resets_step", loginResets, "loginAuth.Start assigns a.respStep = 0")

		// 4. scramAuth: the three facts the C15 theorems need
		startResets := false
		if fn, ok := sp.funcs["scramAuth.Start"]; ok && fn.Body != nil {
			for _, st := range fn.Body.List {
				if es, ok := st.(*ast.ExprStmt); ok && sp.src(es.X) == "a.reset()" {
					startResets = true
				}
			}
		}
		emitBool("scram_start_resets", startResets, "scramAuth.Start calls a.reset() before returning the mechanism name")

		// Next: the branch for an EMPTY challenge is "a.reset(); return a.initialClientMessage()"
		restartResets := false
		if fn, ok := sp.funcs["scramAuth.Next"]; ok && fn.Body != nil {
			for _, is := range ifStmts(fn) {
				if sp.src(is.Cond) == "len(fromServer) == 0" && len(is.Body.List) == 2 {
					es, ok1 := is.Body.List[0].(*ast.ExprStmt)
					rs, ok2 := is.Body.List[1].(*ast.ReturnStmt)
					if ok1 && ok2 && sp.src(es.X) == "a.reset()" && len(rs.Results) == 1 && sp.src(rs.Results[0]) == "a.initialClientMessage()" {
						restartResets = true
					}
				}
			}
		}
		emitBool("scram_restart_resets", restartResets, "scramAuth.Next: if len(fromServer) == 0 { a.reset(); return a.initialClientMessage() }")

		// handleServerFirstResponse: the nonce test. Required shape: combinedNonce := parts[0][2:]; if <cond over
		// len(a.nonce) == 0 and bytes.HasPrefix(combinedNonce, a.nonce)> { return error }; a.nonce = combinedNonce
		{
			okShape := false
			var cond ast.Expr
			var at ast.Node
			if fn, ok := sp.funcs["scramAuth.handleServerFirstResponse"]; ok && fn.Body != nil {
				def, asg := false, false
				for _, st := range fn.Body.List {
					switch t := st.(type) {
					case *ast.AssignStmt:
						if len(t.Lhs) == 1 && len(t.Rhs) == 1 {
							if sp.src(t.Lhs[0]) == "combinedNonce" && sp.src(t.Rhs[0]) == "parts[0][2:]" {
								def = true
							}
							if sp.src(t.Lhs[0]) == "a.nonce" && sp.src(t.Rhs[0]) == "combinedNonce" {
								asg = true
							}
						}
					case *ast.IfStmt:
						if strings.Contains(sp.src(t.Cond), "a.nonce") && returnsError(sp, t.Body) && cond == nil {
							cond, at = t.Cond, t
						}
					}
				}
				okShape = def && asg && cond != nil
			}
			done := false
			if okShape {
				if e, ok := sp.expr(cond, map[string]string{"len(a.nonce) == 0": "nonce_nil", "bytes.HasPrefix(combinedNonce, a.nonce)": "has_prefix"}); ok {
					emit("(* %s: in scramAuth.handleServerFirstResponse: if %s { return error } *)\nDefinition scram_nonce_check (nonce_nil has_prefix : bool) : bool := %s.\n", sp.pos(at), sp.src(cond), e)
					done = true
				}
			}
			if !done {
				untranslatable = append(untranslatable, "scram_nonce_check")
				emit("(* UNTRANSLATABLE scram_nonce_check: the nonce test of handleServerFirstResponse is not a condition over len(a.nonce) == 0 and bytes.HasPrefix(combinedNonce, a.nonce) *)\nDefinition scram_nonce_check (nonce_nil has_prefix : bool) : bool := false.\n")
			}
		}

		// every "return nil, <e>" of the two server-message handlers constructs its error (a call such as errors.New /
		// fmt.Errorf), so that an error path cannot return (nil, nil), which Client.Auth takes for "exchange finished"
		errsOK := true
		for _, fnn := range []string{"scramAuth.handleServerFirstResponse", "scramAuth.handleServerValidationMessage"} {
			fn, ok := sp.funcs[fnn]
			if !ok || fn.Body == nil {
				errsOK = false
				continue
			}
			ast.Inspect(fn.Body, func(x ast.Node) bool {
				if rs, ok := x.(*ast.ReturnStmt); ok && len(rs.Results) == 2 && sp.src(rs.Results[0]) == "nil" {
					if _, isCall := rs.Results[1].(*ast.CallExpr); !isCall {
						errsOK = false
					}
				}
				return true
			})
		}
		emitBool("scram_error_returns_constructed", errsOK, "handleServerFirstResponse / handleServerValidationMessage: every return nil, e has e = a call (errors.New, fmt.Errorf)")

		// the AuthMessage is assembled from the server-first-message AS RECEIVED (fromServer), not from re-joined parts
		rawAM := false
		if fn, ok := sp.funcs["scramAuth.handleServerFirstResponse"]; ok && fn.Body != nil {
			n := 0
			ast.Inspect(fn.Body, func(x ast.Node) bool {
				if as, ok := x.(*ast.AssignStmt); ok && len(as.Lhs) == 1 && len(as.Rhs) == 1 && sp.src(as.Lhs[0]) == "a.authMessage" {
					n++
					if sp.src(as.Rhs[0]) == `[]byte(string(a.firstBareMsg) + "," + string(fromServer) + "," + string(msgWithoutProof))` {
						rawAM = true
					}
				}
				return true
			})
			if n != 1 {
				rawAM = false
			}
		}
		emitBool("scram_authmsg_uses_raw_server_first", rawAM, "handleServerFirstResponse: a.authMessage = firstBareMsg , fromServer , msgWithoutProof with fromServer the message as received")

		finalReq := false
		if fn, ok := sp.funcs["scramAuth.handleServerValidationMessage"]; ok && fn.Body != nil && len(fn.Body.List) > 0 {
			if is, ok := fn.Body.List[0].(*ast.IfStmt); ok {
				c := sp.src(is.Cond)
				if (c == "len(a.saltedPwd) == 0 || len(a.authMessage) == 0" || c == "len(a.authMessage) == 0 || len(a.saltedPwd) == 0") && returnsError(sp, is.Body) {
					finalReq = true
				}
			}
		}
		emitBool("scram_final_requires_first", finalReq, "scramAuth.handleServerValidationMessage starts with: if len(a.saltedPwd) == 0 || len(a.authMessage) == 0 { return nil, error }")

		doneReq := false
		if fn, ok := sp.funcs["scramAuth.Next"]; ok && fn.Body != nil {
			guard := false
			for _, st := range fn.Body.List {
				if is, ok := st.(*ast.IfStmt); ok && sp.src(is.Cond) == "len(a.nonce) > 0 && !a.serverVerified" && returnsError(sp, is.Body) {
					guard = true
				}
			}
			setTrue, clr1, clr2 := false, false, false
			if f2, ok := sp.funcs["scramAuth.handleServerValidationMessage"]; ok && f2.Body != nil {
				// the assignment must come after the signature comparison: it is the statement before the final return
				l := f2.Body.List
				if len(l) >= 2 {
					if as, ok := l[len(l)-2].(*ast.AssignStmt); ok && len(as.Lhs) == 1 && sp.src(as.Lhs[0]) == "a.serverVerified" && sp.src(as.Rhs[0]) == "true" {
						setTrue = true
					}
				}
				n := 0
				ast.Inspect(f2.Body, func(x ast.Node) bool {
					if as, ok := x.(*ast.AssignStmt); ok && len(as.Lhs) == 1 && sp.src(as.Lhs[0]) == "a.serverVerified" {
						n++
					}
					return true
				})
				if n != 1 {
					setTrue = false
				}
			}
			if f3, ok := sp.funcs["scramAuth.reset"]; ok && f3.Body != nil {
				clr1 = hasAssign(sp, f3.Body, "a.serverVerified", "false")
			}
			if f4, ok := sp.funcs["scramAuth.handleServerFirstResponse"]; ok && f4.Body != nil && len(f4.Body.List) > 0 {
				if as, ok := f4.Body.List[0].(*ast.AssignStmt); ok && len(as.Lhs) == 1 && sp.src(as.Lhs[0]) == "a.serverVerified" && sp.src(as.Rhs[0]) == "false" {
					clr2 = true
				}
			}
			// no other function may set the flag
			others := 0
			for name, f := range sp.funcs {
				if f.Body == nil || name == "scramAuth.reset" || name == "scramAuth.handleServerFirstResponse" || name == "scramAuth.handleServerValidationMessage" {
					continue
				}
				ast.Inspect(f.Body, func(x ast.Node) bool {
					if as, ok := x.(*ast.AssignStmt); ok {
						for _, l := range as.Lhs {
							if strings.HasSuffix(sp.src(l), ".serverVerified") {
								others++
							}
						}
					}
					return true
				})
			}
			doneReq = guard && setTrue && clr1 && clr2 && others == 0
		}
		emitBool("scram_done_requires_verified", doneReq, "scramAuth.Next(_, false): if len(a.nonce) > 0 && !a.serverVerified { return nil, error }; serverVerified set only after the signature comparison, cleared by reset and by handleServerFirstResponse")

		// 5. literals of the SCRAM computation
		emitLitList(sp, "scram_lits_client_proof", "scramAuth.computeClientProof")
		emitLitList(sp, "scram_lits_server_sig", "scramAuth.computeServerSignature")
		emitLitList(sp, "scram_lits_initial", "scramAuth.initialClientMessage")
		emitLitList(sp, "scram_lits_server_first", "scramAuth.handleServerFirstResponse")
		emitLitList(sp, "scram_lits_normalize", "scramAuth.normalizeUsername")
		// nonce buffer size: make([]byte, N) assigned to nonceBuffer
		nb := int64(0)
		if fn, ok := sp.funcs["scramAuth.initialClientMessage"]; ok && fn.Body != nil {
			ast.Inspect(fn.Body, func(x ast.Node) bool {
				if as, ok := x.(*ast.AssignStmt); ok && len(as.Lhs) == 1 && sp.src(as.Lhs[0]) == "nonceBuffer" && len(as.Rhs) == 1 {
					if ce, ok := as.Rhs[0].(*ast.CallExpr); ok && sp.src(ce.Fun) == "make" && len(ce.Args) == 2 {
						if v, ok := sp.evalInt(ce.Args[1]); ok {
							nb = v
						}
					}
				}
				return true
			})
		}
		if nb == 0 {
			untranslatable = append(untranslatable, "scram_nonce_bytes")
		}
		emit("(* scramAuth.initialClientMessage: nonceBuffer := make([]byte, %d) *)\nDefinition scram_nonce_bytes : N := %d.\n", nb, nb)
	})
}
