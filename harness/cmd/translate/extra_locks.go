package main

// extra_locks.go — T1(e): lock programs for C13 (engine "locks").
//
// For each anchored function the translator walks the body in source order and emits every
// control-flow path (entry -> return) as a Gallina list of events:
//
//	LLock m | LRLock m | LUnlock m | LRUnlock m   x.Lock() / x.RLock() / x.Unlock() / x.RUnlock()   (m = source text of x)
//	LCall f                                        any other call (f = source text of the callee expression)
//	LRead x | LWrite x                             read / assignment of a field of the method receiver (x = "recv.field")
//
// `defer` statements are moved to the end of each path (LIFO), the body of a deferred function
// literal is inlined there.  An `if`/`switch`/loop whose body contains a `return` or a mutex
// operation forks the path; bodies without either are inlined once in source order (an
// over-approximation: the events of both branches appear on the path — sound for the obligations,
// which all have the form "every event on every path happens while lock X is held" and "X is
// locked before / released after").  Names of functions in package smtp carry the prefix "smtp:".
// A function that cannot be found is emitted with the single path [LCall "UNTRANSLATABLE"], which
// no obligation accepts.

import (
	"fmt"
	"go/ast"
	"go/token"
	"os"
	"path/filepath"
	"regexp"
	"sort"
	"strings"
)

type lkEv struct{ kind, name string }

type lkState struct {
	evs    []lkEv
	defers [][]lkEv
}

func (s lkState) clone() lkState {
	n := lkState{evs: append([]lkEv(nil), s.evs...)}
	for _, d := range s.defers {
		n.defers = append(n.defers, d)
	}
	return n
}

type lkWalker struct {
	p      *pkg
	prefix string // "" for package mail, "smtp:" for package smtp
	recv   string // receiver identifier
	rtype  string // receiver type name
	paths  [][]lkEv
}

var lkBuiltins = map[string]bool{"len": true, "cap": true, "make": true, "new": true, "append": true, "copy": true, "delete": true,
	"string": true, "int": true, "int64": true, "uint": true, "byte": true, "bool": true, "panic": true, "recover": true,
	"uint8": true, "uint16": true, "uint32": true, "uint64": true, "int32": true, "float64": true, "error": true}

var lkMutexOps = map[string]string{"Lock": "Lock", "RLock": "RLock", "Unlock": "Unlock", "RUnlock": "RUnlock"}

// mutexOp recognises x.Lock() / x.RLock() / x.Unlock() / x.RUnlock() on something named *mutex*.
func (w *lkWalker) mutexOp(call *ast.CallExpr) (lkEv, bool) {
	sel, ok := call.Fun.(*ast.SelectorExpr)
	if !ok || len(call.Args) != 0 {
		return lkEv{}, false
	}
	kind, ok := lkMutexOps[sel.Sel.Name]
	if !ok {
		return lkEv{}, false
	}
	txt := w.p.src(sel.X)
	if !strings.Contains(strings.ToLower(txt), "mutex") {
		return lkEv{}, false
	}
	return lkEv{kind, w.prefix + txt}, true
}

func containsForkPoint(w *lkWalker, n ast.Node) bool {
	if n == nil {
		return false
	}
	found := false
	ast.Inspect(n, func(x ast.Node) bool {
		if found {
			return false
		}
		switch t := x.(type) {
		case *ast.FuncLit:
			return false
		case *ast.ReturnStmt:
			found = true
		case *ast.CallExpr:
			if _, ok := w.mutexOp(t); ok {
				found = true
			}
		}
		return true
	})
	return found
}

// isRecvField: e is recv.field (not a method of the receiver type)
func (w *lkWalker) isRecvField(e ast.Expr) (string, bool) {
	sel, ok := e.(*ast.SelectorExpr)
	if !ok {
		return "", false
	}
	id, ok := sel.X.(*ast.Ident)
	if !ok || id.Name != w.recv || w.recv == "" {
		return "", false
	}
	if _, isMethod := w.p.funcs[w.rtype+"."+sel.Sel.Name]; isMethod {
		return "", false
	}
	return w.prefix + w.recv + "." + sel.Sel.Name, true
}

// expr returns the events of evaluating e, operands before the operation.
func (w *lkWalker) expr(e ast.Expr) []lkEv {
	var evs []lkEv
	switch t := e.(type) {
	case nil:
	case *ast.CallExpr:
		if ev, ok := w.mutexOp(t); ok {
			return []lkEv{ev}
		}
		if fl, ok := t.Fun.(*ast.FuncLit); ok { // immediately invoked literal
			for _, a := range t.Args {
				evs = append(evs, w.expr(a)...)
			}
			return append(evs, w.flat(fl.Body)...)
		}
		isField := false
		switch f := t.Fun.(type) {
		case *ast.SelectorExpr:
			if _, ok := w.isRecvField(f); ok { // call through a function-typed field
				evs = append(evs, w.expr(f)...)
				isField = true
			} else {
				evs = append(evs, w.expr(f.X)...)
			}
		case *ast.Ident:
			if lkBuiltins[f.Name] {
				for _, a := range t.Args {
					evs = append(evs, w.expr(a)...)
				}
				return evs
			}
		default:
			evs = append(evs, w.expr(t.Fun)...)
		}
		for _, a := range t.Args {
			evs = append(evs, w.expr(a)...)
		}
		_ = isField
		return append(evs, lkEv{"Call", w.prefix + w.p.src(t.Fun)})
	case *ast.SelectorExpr:
		if n, ok := w.isRecvField(t); ok {
			if strings.Contains(strings.ToLower(n), "mutex") {
				return nil
			}
			return []lkEv{{"Read", n}}
		}
		return w.expr(t.X)
	case *ast.ParenExpr:
		return w.expr(t.X)
	case *ast.UnaryExpr:
		return w.expr(t.X)
	case *ast.StarExpr:
		return w.expr(t.X)
	case *ast.BinaryExpr:
		return append(w.expr(t.X), w.expr(t.Y)...)
	case *ast.IndexExpr:
		return append(w.expr(t.X), w.expr(t.Index)...)
	case *ast.SliceExpr:
		evs = append(evs, w.expr(t.X)...)
		evs = append(evs, w.expr(t.Low)...)
		evs = append(evs, w.expr(t.High)...)
		return append(evs, w.expr(t.Max)...)
	case *ast.TypeAssertExpr:
		return w.expr(t.X)
	case *ast.KeyValueExpr:
		return w.expr(t.Value)
	case *ast.CompositeLit:
		for _, el := range t.Elts {
			evs = append(evs, w.expr(el)...)
		}
		return evs
	}
	return evs
}

// lhs returns the events of assigning to e.
func (w *lkWalker) lhs(e ast.Expr) []lkEv {
	// a write THROUGH a pointer kept in a receiver field (recv.f.g = v, recv.f.g[i] = v, *recv.f = v) is a write
	// to an object shared by everything that holds the same pointer: recorded under the full source text
	if id, depth := lkRootIdent(e); id != nil && depth >= 2 && w.recv != "" && id.Name == w.recv {
		if _, isField := e.(*ast.IndexExpr); !isField || depth >= 3 {
			return append(w.expr(e), lkEv{"Write", w.prefix + w.p.src(e)})
		}
	}
	switch t := e.(type) {
	case *ast.SelectorExpr:
		if n, ok := w.isRecvField(t); ok {
			return []lkEv{{"Write", n}}
		}
		return w.expr(t.X)
	case *ast.IndexExpr:
		if n, ok := w.isRecvField(t.X); ok {
			return append(w.expr(t.Index), lkEv{"Write", n})
		}
		return append(w.expr(t.X), w.expr(t.Index)...)
	case *ast.StarExpr:
		return w.expr(t.X)
	case *ast.ParenExpr:
		return w.lhs(t.X)
	}
	return nil
}

// flat: events of a block in source order, no forking (used for deferred literals)
func (w *lkWalker) flat(b *ast.BlockStmt) []lkEv {
	sub := &lkWalker{p: w.p, prefix: w.prefix, recv: w.recv, rtype: w.rtype}
	sts := sub.stmts(b.List, lkState{})
	var evs []lkEv
	for _, s := range sts {
		evs = append(evs, s.evs...)
		break
	}
	if len(sts) == 0 && len(sub.paths) > 0 {
		evs = sub.paths[0]
	}
	return evs
}

func (w *lkWalker) finish(st lkState) {
	evs := append([]lkEv(nil), st.evs...)
	for i := len(st.defers) - 1; i >= 0; i-- {
		evs = append(evs, st.defers[i]...)
	}
	w.paths = append(w.paths, evs)
}

func (w *lkWalker) stmts(list []ast.Stmt, st lkState) []lkState {
	states := []lkState{st}
	for _, s := range list {
		var next []lkState
		for _, x := range states {
			next = append(next, w.stmt(s, x)...)
		}
		states = next
		if len(states) == 0 {
			break
		}
	}
	return states
}

func (w *lkWalker) branches(st lkState, fork bool, bodies [][]ast.Stmt, hasDefault bool) []lkState {
	if !fork {
		states := []lkState{st}
		for _, b := range bodies {
			var next []lkState
			for _, x := range states {
				next = append(next, w.stmts(b, x)...)
			}
			states = next
		}
		return states
	}
	var out []lkState
	for _, b := range bodies {
		out = append(out, w.stmts(b, st.clone())...)
	}
	if !hasDefault {
		out = append(out, st.clone())
	}
	return out
}

func (w *lkWalker) stmt(s ast.Stmt, st lkState) []lkState {
	switch t := s.(type) {
	case nil:
		return []lkState{st}
	case *ast.ExprStmt:
		st.evs = append(st.evs, w.expr(t.X)...)
	case *ast.AssignStmt:
		for _, r := range t.Rhs {
			st.evs = append(st.evs, w.expr(r)...)
		}
		for _, l := range t.Lhs {
			if t.Tok != token.ASSIGN && t.Tok != token.DEFINE { // x += y reads x as well
				st.evs = append(st.evs, w.expr(l)...)
			}
			st.evs = append(st.evs, w.lhs(l)...)
		}
	case *ast.IncDecStmt:
		st.evs = append(st.evs, w.expr(t.X)...)
		st.evs = append(st.evs, w.lhs(t.X)...)
	case *ast.DeclStmt:
		if gd, ok := t.Decl.(*ast.GenDecl); ok {
			for _, sp := range gd.Specs {
				if vs, ok := sp.(*ast.ValueSpec); ok {
					for _, v := range vs.Values {
						st.evs = append(st.evs, w.expr(v)...)
					}
				}
			}
		}
	case *ast.GoStmt:
		st.evs = append(st.evs, w.expr(t.Call)...)
	case *ast.DeferStmt:
		var d []lkEv
		if fl, ok := t.Call.Fun.(*ast.FuncLit); ok {
			d = w.flat(fl.Body)
		} else {
			d = w.expr(t.Call)
		}
		st.defers = append(st.defers, d)
	case *ast.ReturnStmt:
		for _, r := range t.Results {
			st.evs = append(st.evs, w.expr(r)...)
		}
		w.finish(st)
		return nil
	case *ast.BlockStmt:
		return w.stmts(t.List, st)
	case *ast.LabeledStmt:
		return w.stmt(t.Stmt, st)
	case *ast.IfStmt:
		sts := w.stmt(t.Init, st)
		var out []lkState
		for _, x := range sts {
			x.evs = append(x.evs, w.expr(t.Cond)...)
			bodies := [][]ast.Stmt{t.Body.List}
			hasElse := t.Else != nil
			if hasElse {
				bodies = append(bodies, []ast.Stmt{t.Else})
			}
			fork := containsForkPoint(w, t.Body) || containsForkPoint(w, t.Else)
			out = append(out, w.branches(x, fork, bodies, hasElse)...)
		}
		return out
	case *ast.ForStmt:
		sts := w.stmt(t.Init, st)
		var out []lkState
		for _, x := range sts {
			x.evs = append(x.evs, w.expr(t.Cond)...)
			ys := w.stmts(t.Body.List, x)
			for _, y := range ys {
				out = append(out, w.stmt(t.Post, y)...)
			}
		}
		return out
	case *ast.RangeStmt:
		st.evs = append(st.evs, w.expr(t.X)...)
		return w.stmts(t.Body.List, st)
	case *ast.SwitchStmt:
		sts := w.stmt(t.Init, st)
		var out []lkState
		for _, x := range sts {
			x.evs = append(x.evs, w.expr(t.Tag)...)
			var bodies [][]ast.Stmt
			hasDefault := false
			for _, c := range t.Body.List {
				cc := c.(*ast.CaseClause)
				if cc.List == nil {
					hasDefault = true
				}
				for _, e := range cc.List {
					x.evs = append(x.evs, w.expr(e)...)
				}
				bodies = append(bodies, cc.Body)
			}
			out = append(out, w.branches(x, containsForkPoint(w, t.Body), bodies, hasDefault)...)
		}
		return out
	case *ast.TypeSwitchStmt:
		var bodies [][]ast.Stmt
		hasDefault := false
		for _, c := range t.Body.List {
			cc := c.(*ast.CaseClause)
			if cc.List == nil {
				hasDefault = true
			}
			bodies = append(bodies, cc.Body)
		}
		return w.branches(st, containsForkPoint(w, t.Body), bodies, hasDefault)
	case *ast.SelectStmt:
		var bodies [][]ast.Stmt
		for _, c := range t.Body.List {
			bodies = append(bodies, c.(*ast.CommClause).Body)
		}
		return w.branches(st, containsForkPoint(w, t.Body), bodies, true)
	}
	return []lkState{st}
}

var lkIdentRe = regexp.MustCompile(`[^A-Za-z0-9]+`)

type lkEmitter struct {
	names map[string]string // source text -> Coq identifier
	order []string
}

func (e *lkEmitter) ident(name string) string {
	if id, ok := e.names[name]; ok {
		return id
	}
	base := "lkn_" + strings.Trim(lkIdentRe.ReplaceAllString(name, "_"), "_")
	id := base
	for n := 2; ; n++ {
		clash := false
		for _, v := range e.names {
			if v == id {
				clash = true
			}
		}
		if !clash {
			break
		}
		id = fmt.Sprintf("%s_%d", base, n)
	}
	e.names[name] = id
	e.order = append(e.order, name)
	return id
}

// lockProgram translates one function into its list of paths.
func lockProgram(p *pkg, prefix, fnName string) ([][]lkEv, string, bool) {
	fn, ok := p.funcs[fnName]
	if !ok || fn.Body == nil {
		return nil, "", false
	}
	w := &lkWalker{p: p, prefix: prefix}
	if fn.Recv != nil && len(fn.Recv.List) > 0 {
		w.rtype = recvName(fn.Recv.List[0].Type)
		if len(fn.Recv.List[0].Names) > 0 {
			w.recv = fn.Recv.List[0].Names[0].Name
		}
	}
	for _, st := range w.stmts(fn.Body.List, lkState{}) {
		w.finish(st) // falling off the end of the body
	}
	// de-duplicate identical paths, keep source order
	seen := map[string]bool{}
	var out [][]lkEv
	for _, pa := range w.paths {
		k := fmt.Sprint(pa)
		if !seen[k] {
			seen[k] = true
			out = append(out, pa)
		}
	}
	return out, p.pos(fn), true
}

// ---- Client field writes with the lockset held at the write (interprocedural over methods of Client) ----
//
// Extracted from the AST: assignments (=, op=, ++/--, := never applies) whose left-hand side is
// recv.field or recv.field[i] inside a method of Client, on every path (as produced by lockProgram) of
// every method reachable from the roots through direct calls recv.method(...), with the mutexes the
// calling chain holds at that point (Lock/RLock minus Unlock/RUnlock in path order, deferred unlocks
// at the path's end).  NOT extracted: writes through an alias or pointer (p := &c.f; *p = v),
// mutation of a map/slice/struct reached through a local copy of a field, writes performed by
// non-method functions that receive the Client, calls through function values / interfaces /
// method values, function literals that are not deferred or immediately invoked, goroutines started
// inside the methods, and writes to other objects (smtp.Client, Msg).
type fieldWrite struct {
	fn, field string
	ex, rd    []string
}

func lkRemove(xs []string, n string) []string {
	out := append([]string(nil), xs...)
	for i, x := range out {
		if x == n {
			return append(out[:i], out[i+1:]...)
		}
	}
	return out
}

func clientAccesses(p *pkg, roots []string, kind string) (ws []fieldWrite, reached []string) {
	seen := map[string]bool{}
	wseen := map[string]bool{}
	var walk func(fn string, ex, rd []string)
	walk = func(fn string, ex, rd []string) {
		key := fn + "|" + strings.Join(ex, ",") + "|" + strings.Join(rd, ",")
		if seen[key] {
			return
		}
		seen[key] = true
		decl, ok := p.funcs["Client."+fn]
		if !ok || decl.Body == nil {
			return
		}
		known := false
		for _, r := range reached {
			if r == fn {
				known = true
			}
		}
		if !known {
			reached = append(reached, fn)
		}
		recv := ""
		if decl.Recv != nil && len(decl.Recv.List) > 0 && len(decl.Recv.List[0].Names) > 0 {
			recv = decl.Recv.List[0].Names[0].Name
		}
		paths, _, _ := lockProgram(p, "", "Client."+fn)
		for _, pa := range paths {
			e, r := append([]string(nil), ex...), append([]string(nil), rd...)
			for _, ev := range pa {
				// mutex names are normalised to the field name so that different receiver identifiers agree
				n := ev.name
				if recv != "" && strings.HasPrefix(n, recv+".") {
					n = "c." + n[len(recv)+1:]
				}
				switch ev.kind {
				case "Lock":
					e = append(e, n)
				case "Unlock":
					e = lkRemove(e, n)
				case "RLock":
					r = append(r, n)
				case "RUnlock":
					r = lkRemove(r, n)
				case kind:
					k := fn + "|" + n + "|" + strings.Join(e, ",") + "|" + strings.Join(r, ",")
					if !wseen[k] {
						wseen[k] = true
						ws = append(ws, fieldWrite{fn, n, append([]string(nil), e...), append([]string(nil), r...)})
					}
				case "Call":
					if recv != "" && strings.HasPrefix(ev.name, recv+".") {
						m := ev.name[len(recv)+1:]
						if _, isMethod := p.funcs["Client."+m]; isMethod && !strings.Contains(m, ".") {
							walk(m, e, r)
						}
					}
				}
			}
		}
	}
	for _, r := range roots {
		walk(r, nil, nil)
	}
	return
}

// ---- ownership of the *smtp.Client on the DialAndSend path (escape inventory) ----
//
// For DialAndSendWithContext and every method of Client it hands its smtp.Client to (transitively), every
// occurrence of the variable holding the *smtp.Client (parameters of type *smtp.Client, locals defined
// from c.DialToSMTPClientWithContext(...) or smtp.NewClient(...)) is classified by its syntactic context:
//
//	def:<callee>   defined from that call          param          parameter declaration
//	call:<M>       receiver of the method call client.M(...)
//	arg:c.<M>      argument of a direct call of Client method M (M is then analysed too)
//	nilcmp         compared with nil              return         returned
//	escape:<what>  anything else: assigned to a variable or field, argument of another function,
//	               method value, captured by a function literal that is not deferred, used in a go statement
//
// Identification is by name inside one function body (no type checker): a shadowing declaration of the
// same name would be treated as the same variable (conservative: it can only add uses).
type varUse struct{ fn, use string }

func isSMTPClientPtr(e ast.Expr) bool {
	st, ok := e.(*ast.StarExpr)
	if !ok {
		return false
	}
	sel, ok := st.X.(*ast.SelectorExpr)
	if !ok {
		return false
	}
	id, ok := sel.X.(*ast.Ident)
	return ok && id.Name == "smtp" && sel.Sel.Name == "Client"
}

func smtpClientVarUses(p *pkg, root string) (uses []varUse, analysed []string) {
	done := map[string]bool{}
	seenUse := map[string]bool{}
	add := func(fn, u string) {
		if !seenUse[fn+"|"+u] {
			seenUse[fn+"|"+u] = true
			uses = append(uses, varUse{fn, u})
		}
	}
	var analyse func(fn string)
	analyse = func(fn string) {
		if done[fn] {
			return
		}
		done[fn] = true
		decl, ok := p.funcs[fn]
		if !ok || decl.Body == nil {
			add(fn, "escape:function-not-found")
			return
		}
		analysed = append(analysed, fn)
		recv := ""
		if decl.Recv != nil && len(decl.Recv.List) > 0 && len(decl.Recv.List[0].Names) > 0 {
			recv = decl.Recv.List[0].Names[0].Name
		}
		vars := map[string]bool{}
		if decl.Type.Params != nil {
			for _, f := range decl.Type.Params.List {
				if isSMTPClientPtr(f.Type) {
					for _, n := range f.Names {
						vars[n.Name] = true
						add(fn, "param")
					}
				}
			}
		}
		// locals defined from the two constructors
		ast.Inspect(decl.Body, func(n ast.Node) bool {
			as, ok := n.(*ast.AssignStmt)
			if !ok || len(as.Rhs) != 1 || len(as.Lhs) == 0 {
				return true
			}
			call, ok := as.Rhs[0].(*ast.CallExpr)
			if !ok {
				return true
			}
			ft := p.src(call.Fun)
			if ft == "smtp.NewClient" || ft == recv+".DialToSMTPClientWithContext" {
				if id, ok := as.Lhs[0].(*ast.Ident); ok && id.Name != "_" {
					vars[id.Name] = true
				}
			}
			return true
		})
		var stack []ast.Node
		ast.Inspect(decl, func(n ast.Node) bool {
			if n == nil {
				stack = stack[:len(stack)-1]
				return true
			}
			stack = append(stack, n)
			id, ok := n.(*ast.Ident)
			if !ok || !vars[id.Name] || len(stack) < 2 {
				return true
			}
			parent := stack[len(stack)-2]
			var grand ast.Node
			if len(stack) >= 3 {
				grand = stack[len(stack)-3]
			}
			// closures and go statements on the way up
			for i := len(stack) - 2; i >= 0; i-- {
				switch t := stack[i].(type) {
				case *ast.GoStmt:
					add(fn, "escape:go-statement")
				case *ast.FuncLit:
					deferred := false
					if i >= 2 {
						if ce, ok := stack[i-1].(*ast.CallExpr); ok && ce.Fun == ast.Expr(t) {
							if _, ok := stack[i-2].(*ast.DeferStmt); ok {
								deferred = true
							}
						}
					}
					if !deferred {
						add(fn, "escape:captured-by-closure")
					}
				}
			}
			switch pt := parent.(type) {
			case *ast.Field:
				// parameter declaration, recorded above
			case *ast.SelectorExpr:
				if pt.X == ast.Expr(id) {
					if ce, ok := grand.(*ast.CallExpr); ok && ce.Fun == ast.Expr(pt) {
						add(fn, "call:"+pt.Sel.Name)
					} else {
						add(fn, "escape:selector-"+pt.Sel.Name)
					}
				}
			case *ast.CallExpr:
				ft := p.src(pt.Fun)
				isArg := false
				for _, a := range pt.Args {
					if a == ast.Expr(id) {
						isArg = true
					}
				}
				if !isArg {
					break
				}
				if recv != "" && strings.HasPrefix(ft, recv+".") {
					m := ft[len(recv)+1:]
					if _, isMethod := p.funcs["Client."+m]; isMethod && !strings.Contains(m, ".") {
						add(fn, "arg:c."+m)
						analyse("Client." + m)
						break
					}
				}
				if fd, isFunc := p.funcs[ft]; isFunc && fd.Recv == nil { // package-level function of package mail
					add(fn, "arg:"+ft)
					analyse(ft)
					break
				}
				add(fn, "escape:argument-of-"+ft)
			case *ast.BinaryExpr:
				other := pt.X
				if pt.X == ast.Expr(id) {
					other = pt.Y
				}
				if oid, ok := other.(*ast.Ident); ok && oid.Name == "nil" && (pt.Op == token.EQL || pt.Op == token.NEQ) {
					add(fn, "nilcmp")
				} else {
					add(fn, "escape:operand")
				}
			case *ast.ReturnStmt:
				add(fn, "return")
			case *ast.AssignStmt:
				onLhs := false
				for _, l := range pt.Lhs {
					if l == ast.Expr(id) {
						onLhs = true
					}
				}
				if onLhs && len(pt.Rhs) == 1 {
					if ce, ok := pt.Rhs[0].(*ast.CallExpr); ok {
						ft := p.src(ce.Fun)
						if recv != "" && strings.HasPrefix(ft, recv+".") {
							ft = "c." + ft[len(recv)+1:]
						}
						add(fn, "def:"+ft)
						break
					}
				}
				if onLhs {
					add(fn, "escape:reassigned")
				} else {
					add(fn, "escape:assigned-to-"+p.src(pt.Lhs[0]))
				}
			default:
				add(fn, fmt.Sprintf("escape:%T", parent))
			}
			return true
		})
	}
	analyse(root)
	return
}

// ---- writes through pointer parameters and through pointers held in receiver fields ----
//
// paramPointeeWrites lists, for every function declaration of a package, the assignments (=, op=, ++/--)
// whose left-hand side is rooted at a pointer-typed PARAMETER p but is not p itself: p.f = v, p.f[i] = v,
// *p = v.  Such a write modifies an object of the caller (e.g. the *tls.Config that mail.Client keeps in
// c.tlsconfig and hands to smtp.Client.StartTLS for every connection).  Not seen: writes after copying the
// pointer into a local, writes performed by callees the parameter is passed on to, reflection.
func lkRootIdent(e ast.Expr) (*ast.Ident, int) {
	depth := 0
	for {
		switch t := e.(type) {
		case *ast.Ident:
			return t, depth
		case *ast.SelectorExpr:
			e = t.X
		case *ast.IndexExpr:
			e = t.X
		case *ast.StarExpr:
			e = t.X
		case *ast.ParenExpr:
			e = t.X
			continue
		default:
			return nil, depth
		}
		depth++
	}
}

func paramPointeeWrites(p *pkg, prefix string) (out [][2]string) {
	var names []string
	for n := range p.funcs {
		names = append(names, n)
	}
	sort.Strings(names)
	for _, n := range names {
		decl := p.funcs[n]
		if decl.Body == nil || decl.Type.Params == nil {
			continue
		}
		ptr := map[string]bool{}
		for _, f := range decl.Type.Params.List {
			if _, ok := f.Type.(*ast.StarExpr); ok {
				for _, id := range f.Names {
					ptr[id.Name] = true
				}
			}
		}
		if len(ptr) == 0 {
			continue
		}
		seen := map[string]bool{}
		check := func(l ast.Expr) {
			id, depth := lkRootIdent(l)
			if id != nil && depth > 0 && ptr[id.Name] {
				t := p.src(l)
				if !seen[t] {
					seen[t] = true
					out = append(out, [2]string{prefix + n, t})
				}
			}
		}
		ast.Inspect(decl.Body, func(x ast.Node) bool {
			switch t := x.(type) {
			case *ast.AssignStmt:
				if t.Tok != token.DEFINE {
					for _, l := range t.Lhs {
						check(l)
					}
				}
			case *ast.IncDecStmt:
				check(t.X)
			}
			return true
		})
	}
	return
}

// ---- package-level state: assignments to package-level variables outside init() and var initialisers ----
//
// For packages mail, smtp and log: the names declared by top-level `var` declarations, and every assignment
// (=, op=, ++/--) in a function body whose left-hand side is rooted at such a name, classified as
//
//	once    inside a function literal passed to a call x.Do(...) (sync.Once)
//	locked  after a x.Lock() call in the same function body (textual order)
//	unsync  anything else (atomics are method calls, not assignments, and do not appear here)
//
// A local variable shadowing a package-level name is NOT recognised (no type checker): it would be listed too.
func pkgVarWrites(p *pkg, prefix string) (out [][3]string) {
	vars := map[string]bool{}
	var fnames []string
	for fn := range p.files {
		fnames = append(fnames, fn)
	}
	sort.Strings(fnames)
	for _, fn := range fnames {
		for _, d := range p.files[fn].Decls {
			if gd, ok := d.(*ast.GenDecl); ok && gd.Tok == token.VAR {
				for _, sp := range gd.Specs {
					for _, id := range sp.(*ast.ValueSpec).Names {
						if id.Name != "_" {
							vars[id.Name] = true
						}
					}
				}
			}
		}
	}
	var names []string
	for n := range p.funcs {
		names = append(names, n)
	}
	sort.Strings(names)
	for _, n := range names {
		decl := p.funcs[n]
		if decl.Body == nil || (n == "init" && decl.Recv == nil) {
			continue
		}
		// names bound locally (parameters, receivers, :=, var) shadow the package-level ones
		local := map[string]bool{}
		if decl.Recv != nil {
			for _, f := range decl.Recv.List {
				for _, id := range f.Names {
					local[id.Name] = true
				}
			}
		}
		if decl.Type.Params != nil {
			for _, f := range decl.Type.Params.List {
				for _, id := range f.Names {
					local[id.Name] = true
				}
			}
		}
		if decl.Type.Results != nil {
			for _, f := range decl.Type.Results.List {
				for _, id := range f.Names {
					local[id.Name] = true
				}
			}
		}
		ast.Inspect(decl.Body, func(x ast.Node) bool {
			switch t := x.(type) {
			case *ast.AssignStmt:
				if t.Tok == token.DEFINE {
					for _, l := range t.Lhs {
						if id, ok := l.(*ast.Ident); ok {
							local[id.Name] = true
						}
					}
				}
			case *ast.ValueSpec:
				for _, id := range t.Names {
					local[id.Name] = true
				}
			case *ast.RangeStmt:
				if t.Tok == token.DEFINE {
					for _, e := range []ast.Expr{t.Key, t.Value} {
						if id, ok := e.(*ast.Ident); ok {
							local[id.Name] = true
						}
					}
				}
			}
			return true
		})
		var lockPos token.Pos
		ast.Inspect(decl.Body, func(x ast.Node) bool {
			if ce, ok := x.(*ast.CallExpr); ok {
				if sel, ok := ce.Fun.(*ast.SelectorExpr); ok && (sel.Sel.Name == "Lock") && len(ce.Args) == 0 {
					if lockPos == 0 || ce.Pos() < lockPos {
						lockPos = ce.Pos()
					}
				}
			}
			return true
		})
		seen := map[string]bool{}
		var stack []ast.Node
		check := func(l ast.Expr) {
			id, _ := lkRootIdent(l)
			if id == nil || !vars[id.Name] || local[id.Name] {
				return
			}
			class := "unsync"
			for i := len(stack) - 1; i >= 1; i-- {
				if fl, ok := stack[i].(*ast.FuncLit); ok {
					if ce, ok := stack[i-1].(*ast.CallExpr); ok {
						if sel, ok := ce.Fun.(*ast.SelectorExpr); ok && sel.Sel.Name == "Do" {
							for _, a := range ce.Args {
								if a == ast.Expr(fl) {
									class = "once"
								}
							}
						}
					}
				}
			}
			if class == "unsync" && lockPos != 0 && lockPos < l.Pos() {
				class = "locked"
			}
			k := id.Name + "|" + class
			if !seen[k] {
				seen[k] = true
				out = append(out, [3]string{prefix + n, prefix + id.Name, class})
			}
		}
		ast.Inspect(decl.Body, func(x ast.Node) bool {
			if x == nil {
				stack = stack[:len(stack)-1]
				return true
			}
			stack = append(stack, x)
			switch t := x.(type) {
			case *ast.AssignStmt:
				if t.Tok != token.DEFINE {
					for _, l := range t.Lhs {
						check(l)
					}
				}
			case *ast.IncDecStmt:
				check(t.X)
			}
			return true
		})
	}
	return
}

func init() {
	extras = append(extras, func(p, sp *pkg) {
		type item struct {
			coq, prefix, fn string
			pk              *pkg
		}
		items := []item{
			{"send_paths", "", "Client.Send", p},
			{"dial_and_send_paths", "", "Client.DialAndSendWithContext", p},
			{"dial_paths", "", "Client.DialToSMTPClientWithContext", p},
			{"send_batch_paths", "", "Client.SendWithSMTPClient", p},
			{"send_single_paths", "", "Client.sendSingleMsg", p},
			{"check_conn_paths", "", "Client.checkConn", p},
			{"reset_paths", "", "Client.ResetWithSMTPClient", p},
			{"close_paths", "", "Client.CloseWithSMTPClient", p},
			{"smtp_cmd_paths", "smtp:", "Client.cmd", sp},
			{"smtp_dc_write_paths", "smtp:", "dataCloser.Write", sp},
			{"smtp_dc_close_paths", "smtp:", "dataCloser.Close", sp},
			{"smtp_data_paths", "smtp:", "Client.Data", sp},
			{"smtp_update_deadline_paths", "smtp:", "Client.UpdateDeadline", sp},
			{"smtp_quit_paths", "smtp:", "Client.Quit", sp},
		}
		em := &lkEmitter{names: map[string]string{}}
		type res struct {
			it    item
			paths [][]lkEv
			pos   string
			ok    bool
		}
		var results []res
		for _, it := range items {
			paths, pos, ok := lockProgram(it.pk, it.prefix, it.fn)
			if !ok {
				untranslatable = append(untranslatable, it.coq)
				paths = [][]lkEv{{{"Call", "UNTRANSLATABLE"}}}
			}
			for _, pa := range paths {
				for _, ev := range pa {
					em.ident(ev.name)
				}
			}
			results = append(results, res{it, paths, pos, ok})
		}
		roots := []string{"DialWithContext", "DialAndSendWithContext", "DialAndSend", "Send", "Close", "Reset",
			"DialToSMTPClientWithContext", "SendWithSMTPClient", "CloseWithSMTPClient", "ResetWithSMTPClient"}
		writes, reached := clientAccesses(p, roots, "Write")
		// all methods of Client (sorted) as roots: which methods write which field under which lock
		var allMethods []string
		for name := range p.funcs {
			if strings.HasPrefix(name, "Client.") {
				allMethods = append(allMethods, name[len("Client."):])
			}
		}
		sort.Strings(allMethods)
		allWrites, _ := clientAccesses(p, allMethods, "Write")
		scopeReads, _ := clientAccesses(p, roots, "Read")
		ppw := append(paramPointeeWrites(sp, "smtp:"), paramPointeeWrites(p, "")...)
		// package log: receiver-field writes of the methods of the logger types (a logger is shared by all
		// connections of a Client and is called under per-connection locks only)
		var logWrites [][2]string
		if len(os.Args) > 1 {
			lp := load(filepath.Join(os.Args[1], "log"))
			var lnames []string
			for n, d := range lp.funcs {
				if d.Recv != nil {
					lnames = append(lnames, n)
				}
			}
			sort.Strings(lnames)
			for _, n := range lnames {
				paths, _, _ := lockProgram(lp, "log:", n)
				seenW := map[string]bool{}
				for _, pa := range paths {
					for _, ev := range pa {
						if ev.kind == "Write" && !seenW[ev.name] {
							seenW[ev.name] = true
							logWrites = append(logWrites, [2]string{"log:" + n, ev.name})
						}
					}
				}
			}
		}
		for _, w := range logWrites {
			em.ident(w[0])
			em.ident(w[1])
		}
		pvw := append(pkgVarWrites(p, ""), pkgVarWrites(sp, "smtp:")...)
		if len(os.Args) > 1 {
			pvw = append(pvw, pkgVarWrites(load(filepath.Join(os.Args[1], "log")), "log:")...)
		}
		for _, w := range pvw {
			em.ident(w[0])
			em.ident(w[1])
			em.ident(w[2])
		}
		for _, w := range ppw {
			em.ident(w[0])
			em.ident(w[1])
		}
		ownerUses, ownerFns := smtpClientVarUses(p, "Client.DialAndSendWithContext")
		{
			u2, f2 := smtpClientVarUses(p, "Client.DialToSMTPClientWithContext")
			ownerUses, ownerFns = append(ownerUses, u2...), append(ownerFns, f2...)
		}
		for _, u := range ownerUses {
			em.ident(u.fn)
			em.ident(u.use)
		}
		// package smtp: all field accesses of all methods of smtp.Client with the lockset (roots = all methods)
		var smtpMethods []string
		for name := range sp.funcs {
			if strings.HasPrefix(name, "Client.") {
				smtpMethods = append(smtpMethods, name[len("Client."):])
			}
		}
		sort.Strings(smtpMethods)
		smtpReads, _ := clientAccesses(sp, smtpMethods, "Read")
		smtpWrites, _ := clientAccesses(sp, smtpMethods, "Write")
		smtpAcc := append(append([]fieldWrite(nil), smtpReads...), smtpWrites...)
		for i := range smtpAcc {
			smtpAcc[i].fn = "smtp:" + smtpAcc[i].fn
			smtpAcc[i].field = "smtp:" + smtpAcc[i].field
			for j := range smtpAcc[i].ex {
				smtpAcc[i].ex[j] = "smtp:" + smtpAcc[i].ex[j]
			}
			for j := range smtpAcc[i].rd {
				smtpAcc[i].rd[j] = "smtp:" + smtpAcc[i].rd[j]
			}
			em.ident("Client." + smtpAcc[i].fn)
			em.ident(smtpAcc[i].field)
			for _, x := range append(append([]string(nil), smtpAcc[i].ex...), smtpAcc[i].rd...) {
				em.ident(x)
			}
		}
		for _, w := range append(append(append([]fieldWrite(nil), writes...), allWrites...), scopeReads...) {
			em.ident("Client." + w.fn)
			em.ident(w.field)
			for _, x := range append(append([]string(nil), w.ex...), w.rd...) {
				em.ident(x)
			}
		}
		emit("\n(* ---- lock programs (T1e, engine locks / C13): every control-flow path of the anchored functions as the\n")
		emit("        sequence of Lock/RLock/Unlock/RUnlock (defer moved to the path's end), calls and receiver-field accesses,\n")
		emit("        in source order; names are the source text (functions of package smtp prefixed \"smtp:\") ---- *)\n")
		emit("Inductive lock_ev : Type :=\n  | LLock (m : list N) | LRLock (m : list N) | LUnlock (m : list N) | LRUnlock (m : list N)\n  | LCall (f : list N) | LRead (x : list N) | LWrite (x : list N).\n")
		for _, n := range em.order {
			emit("Definition %s : list N := %s. (* %s *)\n", em.names[n], coqBytes(n), strings.ReplaceAll(strings.ReplaceAll(strings.ReplaceAll(n, "(*", "( *"), "*)", "* )"), "\"", "'"))
		}
		for _, r := range results {
			if r.ok {
				emit("(* %s: func %s%s — %d path(s) *)\n", r.pos, r.it.prefix, r.it.fn, len(r.paths))
			} else {
				emit("(* UNTRANSLATABLE function %s%s *)\n", r.it.prefix, r.it.fn)
			}
			emit("Definition %s : list (list lock_ev) :=\n  [", r.it.coq)
			for i, pa := range r.paths {
				if i > 0 {
					emit(";\n   ")
				}
				parts := make([]string, len(pa))
				for j, ev := range pa {
					parts[j] = "L" + ev.kind + " " + em.names[ev.name]
				}
				emit("[%s]", strings.Join(parts, "; "))
			}
			emit("].\n")
		}
		// Client field accesses
		ids := func(xs []string) string {
			parts := make([]string, len(xs))
			for j, x := range xs {
				parts[j] = em.names[x]
			}
			return "[" + strings.Join(parts, "; ") + "]"
		}
		emitAcc := func(name string, l []fieldWrite) {
			emit("Definition %s : list (list N * list N * list (list N) * list (list N)) :=\n  [", name)
			for i, w := range l {
				if i > 0 {
					emit(";\n   ")
				}
				emit("(%s, %s, %s, %s)", em.names["Client."+w.fn], em.names[w.field], ids(w.ex), ids(w.rd))
			}
			emit("].\n")
		}
		emit("(* writes of mail.Client fields on the paths reachable from %s\n   through direct method calls (methods reached: %s): (method, field, mutexes held exclusively, mutexes read-held) *)\n",
			strings.Join(roots, ", "), strings.Join(reached, ", "))
		emitAcc("client_field_writes", writes)
		emit("(* the same inventory with EVERY method of Client as a root (%d methods): all assignments to Client fields after\n   construction (option closures run inside NewClient and are not methods) *)\n", len(allMethods))
		emitAcc("client_all_writes", allWrites)
		emit("(* reads of Client fields on the in-scope paths (same roots as client_field_writes) with the lockset at the read *)\n")
		emitAcc("client_inscope_reads", scopeReads)
		emit("(* package smtp: every access (read or write) to a field of smtp.Client in any of its %d methods, with the lockset\n   (each method is a root; direct c.method() calls are followed with the caller's lockset) *)\n", len(smtpMethods))
		emitAcc("smtp_client_accesses", smtpAcc)
		emit("(* assignments through pointer PARAMETERS (function, left-hand side) in packages smtp and mail: writes to objects of the caller *)\n")
		emit("Definition param_pointee_writes : list (list N * list N) :=\n  [")
		for i, w := range ppw {
			if i > 0 {
				emit(";\n   ")
			}
			emit("(%s, %s)", em.names[w[0]], em.names[w[1]])
		}
		emit("].\n")
		emit("(* assignments to package-level variables of packages mail, smtp and log in function bodies other than init():\n   (function, variable, once | locked | unsync) *)\n")
		emit("Definition package_var_writes : list (list N * list N * list N) :=\n  [")
		for i, w := range pvw {
			if i > 0 {
				emit(";\n   ")
			}
			emit("(%s, %s, %s)", em.names[w[0]], em.names[w[1]], em.names[w[2]])
		}
		emit("].\n")
		emit("(* package log: fields of a logger written by its own methods (method, field) *)\n")
		emit("Definition log_method_writes : list (list N * list N) :=\n  [")
		for i, w := range logWrites {
			if i > 0 {
				emit(";\n   ")
			}
			emit("(%s, %s)", em.names[w[0]], em.names[w[1]])
		}
		emit("].\n")
		emit("(* ownership of the *smtp.Client on the DialAndSend path: uses of the variable in %s *)\n", strings.Join(ownerFns, ", "))
		emit("Definition smtp_client_var_uses : list (list N * list N) :=\n  [")
		for i, u := range ownerUses {
			if i > 0 {
				emit(";\n   ")
			}
			emit("(%s, %s)", em.names[u.fn], em.names[u.use])
		}
		emit("].\n")
		emit("Definition client_reached_methods : N := %d.\n", len(reached))
	})
}
