// Package c01: rendered MIME carries exactly the content the caller supplied (C01).
package c01

import (
	"bytes"
	"fmt"
	mail "github.com/wneessen/go-mail"
	"strings"

	"verif/harness/bytex"
	"verif/harness/hx"
	"verif/harness/mimeread"
)

func init() { hx.Register("C01", Run) }

var encs = []string{"quoted-printable", "base64", "8bit"}

// content classes of the property's quantifier
func contents(r *hx.Run, text bool) [][]byte {
	line := func(n int) string { return strings.Repeat("x", n) }
	fixed := []string{"", "plain line\r\n", "=", ".", ".\r\n", "..leading dots\r\n.\r\n", "a=b=c =3D\r\n", "trailing blanks   \r\n\ttab\t\r\n",
		"no final newline", "\r\n", "\r\n\r\n\r\n", "lf only\nsecond\n", "mixed\r\nlf\ncrlf\r\n",
		"--not-a-boundary\r\n", "--" + strings.Repeat("ab", 30) + "\r\n", "--" + strings.Repeat("ab", 30) + "--\r\n",
		line(73) + "\r\n", line(74) + "\r\n", line(75) + "\r\n", line(76) + "\r\n", line(77) + "\r\n", line(78) + "\r\n", line(79) + "\r\n",
		line(997) + "\r\n", line(998) + "\r\n", line(1001) + "\r\n", "From the start\r\n", "\xc3\xa4\xc3\xb6\xc3\xbc UTF-8 \xe2\x82\xac\r\n",
		line(74) + " \r\n", line(75) + "=\r\n", line(72) + "\xc3\xa4\xc3\xa4\r\n"}
	var out [][]byte
	for _, f := range fixed {
		out = append(out, []byte(f))
	}
	n := 6
	if r.Tier == "thorough" {
		n = 60
	}
	for i := 0; i < n; i++ {
		l := r.Rng.Intn(600)
		if r.Rng.Intn(4) == 0 {
			l = r.Rng.Intn(4096)
		}
		b := make([]byte, l)
		for j := range b {
			if text {
				switch x := r.Rng.Intn(30); {
				case x == 0:
					b[j] = '\n'
				case x == 1:
					b[j] = '='
				case x == 2:
					b[j] = ' '
				case x == 3:
					b[j] = '.'
				case x == 4:
					b[j] = 0xc3
				case x == 5:
					b[j] = '-'
				default:
					b[j] = byte(33 + r.Rng.Intn(94))
				}
			} else {
				b[j] = byte(r.Rng.Intn(256))
			}
		}
		out = append(out, b)
	}
	return out
}

// canonical form of quoted-printable text: LF -> CRLF (bare CR does not occur in the inputs)
func canonText(b []byte) []byte {
	b = bytes.ReplaceAll(b, []byte("\r\n"), []byte("\n"))
	return bytes.ReplaceAll(b, []byte("\n"), []byte("\r\n"))
}

func sanitizeName(s string) string {
	b := []byte(s)
	for i := range b {
		c := b[i]
		if c < 32 || c == 34 || c == 47 || c == 58 || c == 60 || c == 62 || c == 63 || c == 92 || c == 124 || c == 127 {
			b[i] = '_'
		}
	}
	return string(b)
}

type leafWant struct {
	kind    string // part, embed, attach
	ctype   string
	charset string
	enc     string
	name    string
	content []byte
}

func expectedShape(n, e, a int) string {
	kids := func(k int) []string {
		l := make([]string, k)
		for i := range l {
			l[i] = "leaf"
		}
		return l
	}
	inner := kids(n)
	if n > 1 {
		inner = []string{"alternative(" + strings.Join(inner, ",") + ")"}
	}
	rel := append(inner, kids(e)...)
	if (n > 0 && e > 0) || e > 1 {
		rel = []string{"related(" + strings.Join(rel, ",") + ")"}
	}
	mix := append(rel, kids(a)...)
	if (n > 0 && a > 0) || a > 1 {
		mix = []string{"mixed(" + strings.Join(mix, ",") + ")"}
	}
	return strings.Join(mix, ",")
}

// case args: <spec> inf <n> <e> <a>   (spec is self-contained for the model; the Go side rebuilds
// the message from a compact description stored in the remaining args)
// to stay replayable the Go-side description is: <msgenc> <parts: enc:hexcontent,...> <embeds: enc:name:hexcontent,...> <attach: ...>
func runCase(r *hx.Run, c hx.Case) {
	msgenc := c.Args[2]
	parseList := func(s string) [][]string {
		if s == "-" {
			return nil
		}
		var out [][]string
		for _, it := range strings.Split(s, ",") {
			out = append(out, strings.Split(it, ":"))
		}
		return out
	}
	parts, embeds, attach := parseList(c.Args[3]), parseList(c.Args[4]), parseList(c.Args[5])
	spec := bytex.MsgSpec{From: "from@x.test", To: []string{"to@y.test"}, Enc: msgenc,
		Gen: []bytex.KV{{K: "Subject", V: []string{"content fidelity"}}}}
	var want []leafWant
	chunk := func(b []byte) [][]byte {
		if len(b) == 0 {
			return nil
		}
		if len(b) < 40 {
			return [][]byte{b}
		}
		k := len(b) / 3
		return [][]byte{b[:k], b[k : 2*k], b[2*k:]}
	}
	for i, p := range parts {
		content := hx.UnHex(p[1])
		ct := "text/plain"
		if i == 1 {
			ct = "text/html"
		} else if i > 1 {
			ct = "text/x-alt" + fmt.Sprint(i)
		}
		if len(p) > 3 && p[3] != "" {
			ct = string(hx.UnHex(p[3])) // a content type given by the case (parameters of its own, unusual case, ...)
		}
		enc := p[0]
		src := ""
		if len(p) > 2 {
			src = p[2]
		}
		spec.Parts = append(spec.Parts, bytex.PartSpec{CType: ct, Enc: enc, Prod: bytex.Producer{Chunks: chunk(content)}, Src: src})
		e := enc
		if e == "" {
			e = msgenc
		}
		want = append(want, leafWant{kind: "part", ctype: ct, charset: "UTF-8", enc: e, content: content})
	}
	mk := func(items [][]string, kind string) []bytex.FileSpec {
		var fs []bytex.FileSpec
		for _, f := range items {
			content := hx.UnHex(f[2])
			name := string(hx.UnHex(f[1]))
			src := ""
			if len(f) > 3 {
				src = f[3]
			}
			pre := ""
			if len(f) > 4 {
				pre = f[4] // a Content-Transfer-Encoding header pre-set on the File
			}
			fs = append(fs, bytex.FileSpec{Name: name, Enc: f[0], Prod: bytex.Producer{Chunks: chunk(content)}, Src: src, PreCTE: pre})
			e := f[0]
			if e == "" {
				e = "base64"
			}
			if pre != "" {
				e = pre // the header on the File wins: the leaf must be announced AND encoded that way
			}
			want = append(want, leafWant{kind: kind, enc: e, name: name, content: content})
		}
		return fs
	}
	spec.Embeds = mk(embeds, "embed")
	spec.Attach = mk(attach, "attach")
	bytex.ResetRand()
	m, err := spec.Build()
	if err != nil {
		r.Fail(c.ID, "harness-build", err.Error())
		return
	}
	// an earlier render of a different message that fails half-way must not influence this one
	// (state shared between renders would show up as foreign bytes in the leaves)
	{
		other := bytex.MsgSpec{From: "other@x.test", To: []string{"else@y.test"}, Enc: msgenc,
			Parts:  []bytex.PartSpec{{CType: "text/plain", Prod: bytex.Producer{Chunks: [][]byte{bytes.Repeat([]byte("CONFIDENTIAL other message. "), 40)}}}},
			Attach: []bytex.FileSpec{{Name: "other.bin", Prod: bytex.Producer{Chunks: [][]byte{bytes.Repeat([]byte("secret"), 200)}}}}}
		if om, err := other.Build(); err == nil {
			// vary the failure offset over headers, first body, attachment body
			seq := 0
			if i := strings.LastIndexByte(c.ID, '-'); i >= 0 {
				fmt.Sscanf(c.ID[i+1:], "%d", &seq)
			}
			_, _, _ = bytex.SafeWriteTo(om, &bytex.Sink{K: 600 + (seq*137)%1900})
		}
		bytex.ResetRand()
	}
	desc := bytex.Describe(m, &spec, [3]string{}, bytex.DrawnBoundaries(0, 4))
	sink := &bytex.Sink{K: -1}
	_, werr, pan := bytex.SafeWriteTo(m, sink)
	if pan != nil || werr != nil {
		r.Fail(c.ID, "render-failed", fmt.Sprint(pan, werr))
		return
	}
	out := sink.Accepted
	mc := hx.Case{ID: c.ID, Kind: "render", Args: append([]string{desc, "inf"}, c.Args[2:]...)}
	r.Add(mc, fmt.Sprintf("ok %d %s", len(out), hx.Hex(out)), len(want) > 1)

	checkLeaves(r, c.ID, out, want, len(parts), len(embeds), len(attach))

	// the same message rendered again (the boundaries of the first render are cached in the Msg now): the same
	// leaves, and byte-exact against the model with the cached boundaries
	bm, br, ba := bytex.Boundaries(out)
	if len(c.Args) > 6 && c.Args[6] == "flip" {
		// between the renders the caller changes the encoding fields: File.Enc of every file (the header cached on
		// the File by the first render keeps governing header AND body: the leaves must not change) and the
		// encoding of every part (no cache: the part is announced and encoded the new way)
		other := map[string]string{"": "8bit", "base64": "8bit", "8bit": "base64", "quoted-printable": "base64"}
		for _, f := range append(append([]*mail.File(nil), m.GetEmbeds()...), m.GetAttachments()...) {
			f.Enc = mail.Encoding(other[string(f.Enc)])
		}
		want = append([]leafWant(nil), want...)
		for i, p := range m.GetParts() {
			if i < len(want) && want[i].kind == "part" && want[i].enc != "base64" {
				p.SetEncoding(mail.EncodingB64)
				want[i].enc = "base64"
			}
		}
	}
	desc2 := bytex.Describe(m, &spec, [3]string{bm, br, ba}, nil)
	sink2 := &bytex.Sink{K: -1}
	_, werr2, pan2 := bytex.SafeWriteTo(m, sink2)
	if pan2 != nil || werr2 != nil {
		r.Fail(c.ID, "render-failed", fmt.Sprint("second render: ", pan2, werr2))
		return
	}
	out2 := sink2.Accepted
	var rb2 [][]byte
	b2m, b2r, b2a := bytex.Boundaries(out2)
	for _, b := range []string{b2m, b2r, b2a} {
		if b != "" {
			rb2 = append(rb2, []byte(b))
		}
	}
	d2 := strings.TrimSuffix(desc2, ";N-") + ";N" + hx.HexList(rb2)
	r.Add(hx.Case{ID: c.ID + "-again", Kind: "render", Args: append([]string{d2, "inf"}, c.Args[2:]...)}, fmt.Sprintf("ok %d %s", len(out2), hx.Hex(out2)), len(want) > 1)
	checkLeaves(r, c.ID, out2, want, len(parts), len(embeds), len(attach))
}

// checkLeaves is the direct oracle: the independent reader applied to the rendered bytes finds the expected
// nesting and, in order, one leaf per entry of want.
func checkLeaves(r *hx.Run, id string, out []byte, want []leafWant, n, e, a int) {
	c := hx.Case{ID: id}
	ent, err := mimeread.Read(out)
	if err != nil {
		r.Fail(c.ID, "unreadable", err.Error())
		return
	}
	if n >= 1 {
		if got, wantS := ent.Shape(), expectedShape(n, e, a); got != wantS {
			r.Fail(c.ID, "nesting", fmt.Sprintf("shape %s, want %s", got, wantS))
		}
	}
	leaves := ent.Leaves()
	if n == 0 {
		// no body part: outside the property's quantifier (every message has a body); only count leaves when well-formed
		return
	}
	if len(leaves) != len(want) {
		r.Fail(c.ID, "leaf-count", fmt.Sprintf("%d leaves, want %d (shape %s)", len(leaves), len(want), ent.Shape()))
		return
	}
	for i, w := range want {
		l := leaves[i]
		tag := fmt.Sprintf("leaf %d (%s, %s)", i, w.kind, w.enc)
		if l.CTE != w.enc {
			r.Fail(c.ID, "leaf-encoding", fmt.Sprintf("%s: Content-Transfer-Encoding %q", tag, l.CTE))
		}
		exp := w.content
		if w.enc == "quoted-printable" {
			exp = canonText(exp)
		}
		got := l.Body
		if !bytes.Equal(got, exp) {
			cl := "leaf-content-" + w.kind + "-" + strings.ReplaceAll(w.enc, "-", "")
			r.Fail(c.ID, cl, fmt.Sprintf("%s: decoded content differs: got %d bytes %.60q, want %d bytes %.60q", tag, len(got), got, len(exp), exp))
		}
		switch w.kind {
		case "part":
			// the declared type may carry parameters of its own ("text/plain; format=flowed"): the reader must find the
			// bare type, those parameters and the charset
			base, own := w.ctype, map[string]string{}
			if k := strings.IndexByte(base, ';'); k >= 0 {
				for _, kv := range strings.Split(base[k+1:], ";") {
					if e := strings.IndexByte(kv, '='); e > 0 {
						own[strings.ToLower(strings.TrimSpace(kv[:e]))] = strings.Trim(strings.TrimSpace(kv[e+1:]), "\"")
					}
				}
				base = strings.TrimSpace(base[:k])
			}
			if !strings.EqualFold(l.MediaType, base) || !strings.EqualFold(l.CTParams["charset"], w.charset) {
				r.Fail(c.ID, "leaf-type", fmt.Sprintf("%s: type %q charset %q, declared %q", tag, l.MediaType, l.CTParams["charset"], w.ctype))
			}
			for k, v := range own {
				if l.CTParams[k] != v {
					r.Fail(c.ID, "leaf-type", fmt.Sprintf("%s: parameter %s=%q of the declared type %q reads as %q", tag, k, v, w.ctype, l.CTParams[k]))
				}
			}
		default:
			wantDisp := "attachment"
			if w.kind == "embed" {
				wantDisp = "inline"
			}
			if l.Disp != wantDisp {
				r.Fail(c.ID, "leaf-disposition", fmt.Sprintf("%s: disposition %q", tag, l.Disp))
			}
			// the declared media type of a file: derived from the extension of ITS OWN name by the standard library
			// (application/octet-stream when there is none)
			if wt := bytex.MimeOf(&mail.File{Name: w.name}); !strings.EqualFold(strings.SplitN(wt, ";", 2)[0], l.MediaType) {
				r.Fail(c.ID, "leaf-file-type", fmt.Sprintf("%s: %q is declared as %q, its extension says %q", tag, w.name, l.MediaType, wt))
			}
			wn := sanitizeName(w.name)
			if mimeread.DecodeWord(l.DispPar["filename"]) != wn || mimeread.DecodeWord(l.CTParams["name"]) != wn {
				r.Fail(c.ID, "leaf-filename", fmt.Sprintf("%s: filename %q / name %q, want %q", tag, l.DispPar["filename"], l.CTParams["name"], wn))
			}
		}
	}
}

// the builder entry points a file's content can come through (bytex.FileSpec.Src)
var fileSrcs = []string{"", "buf", "rs", "file", "tpl", "buf", "iofs"}

func Run(r *hx.Run, replay []hx.Case) {
	defer bytex.CleanTemp()
	if replay != nil {
		for _, c := range replay {
			if c.Kind == "c01b" || c.Kind == "build" || (c.Kind == "render" && len(c.Args) >= 5 && c.Args[2] == "script") {
				switch c.Kind {
				case "build":
					// the model case: <desc> <msgenc> <ops>
					c = hx.Case{ID: c.ID, Kind: "c01b", Args: []string{c.Args[1], c.Args[2]}}
				case "render":
					c = hx.Case{ID: strings.TrimSuffix(c.ID, "-r"), Kind: "c01b", Args: []string{c.Args[3], c.Args[4]}}
				}
				runScript(r, c)
				continue
			}
			c.ID = strings.TrimSuffix(c.ID, "-again")
			if len(c.Args) < 6 {
				r.Fail(c.ID, "bad-replay", "case needs 6 arguments")
				continue
			}
			runCase(r, c)
		}
		return
	}
	thorough := r.Tier == "thorough"
	txt := contents(r, true)
	bin := contents(r, false)
	pick := func(l [][]byte) []byte { return l[r.Rng.Intn(len(l))] }
	names := []string{"a.bin", "report final.pdf", "na\xc3\xafve r\xc3\xa9sum\xc3\xa9.txt", "semi;colon=x.txt", "quote\"d.txt", "UPPER.TXT",
		// blanks and format characters outside ASCII (no-break space, ideographic space, ZWNJ, soft hyphen): not touched by the documented sanitiser
		"LICENSE", "picture.png", "blob.unknownext", "no\xc2\xa0break.txt", "ideo\xe3\x80\x80space.pdf", "zw\xe2\x80\x8cnj.bin", "soft\xc2\xadhyphen.txt", "latin1-\xe9-not-utf8.bin"}
	emit := func(n, e, a int, msgenc string, ci int) {
		var ps, es, as []string
		for i := 0; i < n; i++ {
			enc := ""
			if i > 0 || ci%2 == 1 {
				enc = encs[(ci+i)%3]
			}
			content := txt[(ci+i*7)%len(txt)]
			if enc == "base64" || (enc == "" && msgenc == "base64") {
				if r.Rng.Intn(2) == 0 {
					content = pick(bin)
				}
			}
			// builder entry point: writer function or string
			ctx := ""
			if (ci+i)%5 == 2 {
				ctx = hx.Hex([]byte([]string{"text/plain; format=flowed", "text/calendar; method=REQUEST", "Text/Plain", "text/plain; format=flowed; delsp=yes", "application/x-custom+xml"}[(ci/5+i)%5]))
			}
			ps = append(ps, enc+":"+hx.Hex(content)+":"+[]string{"", "str", "set"}[(ci/3+i)%3]+":"+ctx)
		}
		for i := 0; i < e; i++ {
			enc := []string{"", "base64", "8bit"}[(ci+i)%3]
			content := bin[(ci+i*5)%len(bin)]
			if enc == "8bit" {
				content = txt[(ci+i*3)%len(txt)]
			}
			es = append(es, enc+":"+hx.Hex([]byte(names[(ci+i)%len(names)]))+":"+hx.Hex(content)+":"+fileSrcs[(ci/2+i)%len(fileSrcs)])
		}
		for i := 0; i < a; i++ {
			enc := []string{"", "8bit", "base64"}[(ci+i)%3]
			content := bin[(ci+i*11)%len(bin)]
			if enc == "8bit" {
				content = txt[(ci+i*13)%len(txt)]
			}
			as = append(as, enc+":"+hx.Hex([]byte(names[(ci+i+2)%len(names)]))+":"+hx.Hex(content)+":"+fileSrcs[(ci/2+i+3)%len(fileSrcs)])
		}
		j := func(l []string) string {
			if len(l) == 0 {
				return "-"
			}
			return strings.Join(l, ",")
		}
		runCase(r, hx.Case{ID: r.NewID(), Kind: "c01", Args: []string{"-", "inf", msgenc, j(ps), j(es), j(as)}})
	}
	maxN, maxF := 3, 2
	reps := 6
	if thorough {
		reps = 60
	}
	ci := 0
	for n := 1; n <= maxN; n++ {
		for e := 0; e <= maxF; e++ {
			for a := 0; a <= maxF; a++ {
				for _, me := range encs {
					for k := 0; k < reps; k++ {
						if r.Expired() {
							return
						}
						emit(n, e, a, me, ci)
						ci++
					}
				}
			}
		}
	}
	// every content class once as the only body part in every encoding
	for i := range txt {
		for _, me := range encs {
			var ps []string
			ps = append(ps, ":"+hx.Hex(txt[i]))
			runCase(r, hx.Case{ID: r.NewID(), Kind: "c01", Args: []string{"-", "inf", me, strings.Join(ps, ","), "-", "-"}})
		}
	}
	// a Content-Transfer-Encoding header pre-set on the File (every encoding, equal to / different from File.Enc),
	// and encoding fields changed between the two renders
	{
		k := 0
		for _, pre := range []string{"", "base64", "8bit", "quoted-printable"} {
			for _, enc := range []string{"", "base64", "8bit"} {
				for _, flip := range []string{"", "flip"} {
					if pre == "" && flip == "" {
						continue // covered above
					}
					tcontent := txt[k%len(txt)]
					bcontent := bin[k%len(bin)]
					ec, ac := bcontent, tcontent
					if pre == "8bit" || pre == "quoted-printable" || (pre == "" && enc == "8bit") {
						ec = tcontent
					}
					es := enc + ":" + hx.Hex([]byte("logo.png")) + ":" + hx.Hex(ec) + "::" + pre
					as := enc + ":" + hx.Hex([]byte(names[k%len(names)])) + ":" + hx.Hex(ac) + "::" + pre
					args := []string{"-", "inf", encs[k%3], ":" + hx.Hex(txt[(k+1)%len(txt)]) + "," + "base64:" + hx.Hex(txt[(k+2)%len(txt)]), es, as}
					if flip != "" {
						args = append(args, flip)
					}
					runCase(r, hx.Case{ID: r.NewID(), Kind: "c01", Args: args})
					k++
				}
			}
		}
	}
	genScripts(r, thorough)
	// the degenerate shapes without a body (outside the quantifier; render must still match the model)
	emit(0, 1, 0, "quoted-printable", ci)
	emit(0, 0, 1, "quoted-printable", ci+1)
	emit(0, 0, 2, "base64", ci+2)
}
