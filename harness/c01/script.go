package c01

// Builder scripts: sequences of SetBody*/AddAlternative*/Attach*/Embed*/SetAttachments/SetEmbeds/UnsetAll*/Reset
// calls on one Msg.  The resulting lists are compared with the model (coq/theories/Builder.v, kind "build") and
// with the harness' own bookkeeping of what the calls asked for; the rendering of the final message goes
// through the same correspondence and leaf oracle as the plain cases.
//
// op syntax ('/'-separated, identical for the model):
//   s<ct>:<enc|->:<charset|->:<desc>:<chunks>   SetBody…      a…  AddAlternative…   (hex fields)
//   t<name>:<mime>:<enc|->:<desc>:<chunks>      Attach…       e…  Embed…
//   T<k> / E<k>   SetAttachments / SetEmbeds(current[:k])     ut ue up  UnsetAll{Attachments,Embeds,Parts}    r Reset

import (
	"bytes"
	"fmt"
	"strconv"
	"strings"

	mail "github.com/wneessen/go-mail"
	"verif/harness/bytex"
	"verif/harness/hx"
)

type refPart struct {
	ct, enc, cs, desc string
	content           []byte
}
type refFile struct {
	name, enc, desc string
	content         []byte
}

func unhexs(s string) string { return string(hx.UnHex(s)) }

func imin(a, b int) int {
	if a < b {
		return a
	}
	return b
}

func runScript(r *hx.Run, c hx.Case) {
	msgenc, ops := c.Args[0], c.Args[1]
	base := bytex.MsgSpec{From: "from@x.test", To: []string{"to@y.test"}, Enc: msgenc,
		Gen: []bytex.KV{{K: "Subject", V: []string{"builder script"}}}}
	bytex.ResetRand()
	m, err := base.Build()
	if err != nil {
		r.Fail(c.ID, "harness-build", err.Error())
		return
	}
	descBase := bytex.Describe(m, &base, [3]string{}, nil)
	var parts []refPart
	var emb, att []refFile
	reset := false
	opt := func(s string) string {
		if s == "-" {
			return ""
		}
		return s
	}
	for i, op := range strings.Split(ops, "/") {
		if op == "" {
			continue
		}
		tag, body := op[0], op[1:]
		f := strings.Split(body, ":")
		switch tag {
		case 's', 'a':
			if len(f) != 5 {
				r.Fail(c.ID, "bad-replay", "part op needs 5 fields")
				return
			}
			ct, enc, cs, desc := unhexs(f[0]), opt(f[1]), unhexs(opt(f[2])), unhexs(f[3])
			content := bytes.Join(hx.UnHexList(f[4]), nil)
			var po []mail.PartOption
			if enc != "" {
				po = append(po, mail.WithPartEncoding(mail.Encoding(enc)))
			}
			if cs != "" {
				po = append(po, mail.WithPartCharset(mail.Charset(cs)))
			}
			if desc != "" {
				po = append(po, mail.WithPartContentDescription(desc))
			}
			prod := bytex.Producer{Chunks: hx.UnHexList(f[4])}
			str := i%2 == 1
			switch {
			case tag == 's' && str:
				m.SetBodyString(mail.ContentType(ct), string(content), po...)
			case tag == 's':
				m.SetBodyWriter(mail.ContentType(ct), prod.Write, po...)
			case str:
				m.AddAlternativeString(mail.ContentType(ct), string(content), po...)
			default:
				m.AddAlternativeWriter(mail.ContentType(ct), prod.Write, po...)
			}
			// what the call asks for: the part with the message's defaults where no option is given
			p := refPart{ct: ct, enc: enc, cs: cs, desc: desc, content: content}
			if p.enc == "" {
				p.enc = msgenc
			}
			if p.cs == "" {
				p.cs = "UTF-8"
			}
			if tag == 's' {
				parts = []refPart{p}
			} else {
				parts = append(parts, p)
			}
		case 't', 'e':
			if len(f) != 5 {
				r.Fail(c.ID, "bad-replay", "file op needs 5 fields")
				return
			}
			name, enc, desc := unhexs(f[0]), opt(f[2]), unhexs(f[3])
			content := bytes.Join(hx.UnHexList(f[4]), nil)
			var fo []mail.FileOption
			if enc != "" {
				fo = append(fo, mail.WithFileEncoding(mail.Encoding(enc)))
			}
			if desc != "" {
				fo = append(fo, mail.WithFileDescription(desc))
			}
			var ferr error
			switch {
			case tag == 't' && i%3 == 0:
				m.AttachReadSeeker(name, bytes.NewReader(content), fo...)
			case tag == 't':
				ferr = m.AttachReader(name, bytes.NewReader(content), fo...)
			case i%3 == 0:
				m.EmbedReadSeeker(name, bytes.NewReader(content), fo...)
			default:
				ferr = m.EmbedReader(name, bytes.NewReader(content), fo...)
			}
			if ferr != nil {
				r.Fail(c.ID, "harness-build", ferr.Error())
				return
			}
			rf := refFile{name: name, enc: enc, desc: desc, content: content}
			if tag == 't' {
				att = append(att, rf)
			} else {
				emb = append(emb, rf)
			}
		case 'T':
			k, _ := strconv.Atoi(body)
			if k > len(att) {
				k = len(att)
			}
			m.SetAttachments(m.GetAttachments()[:imin(k, len(m.GetAttachments()))])
			att = att[:k]
		case 'E':
			k, _ := strconv.Atoi(body)
			if k > len(emb) {
				k = len(emb)
			}
			m.SetEmbeds(m.GetEmbeds()[:imin(k, len(m.GetEmbeds()))])
			emb = emb[:k]
		case 'u':
			switch body {
			case "t":
				m.UnsetAllAttachments()
				att = nil
			case "e":
				m.UnsetAllEmbeds()
				emb = nil
			case "p": // documented: "unsets the embeds and attachments of the message"
				m.UnsetAllParts()
				att, emb = nil, nil
			}
		case 'r':
			m.Reset()
			parts, att, emb = nil, nil, nil
			reset = true
		default:
			r.Fail(c.ID, "bad-replay", "unknown builder op "+op)
			return
		}
	}
	// ---- the lists of the real Msg
	hexs := func(s string) string { return hx.Hex([]byte(s)) }
	var ps, es, ts []string
	listsOK := len(m.GetParts()) == len(parts) && len(m.GetEmbeds()) == len(emb) && len(m.GetAttachments()) == len(att)
	for i, p := range m.GetParts() {
		content, _ := p.GetContent()
		ps = append(ps, fmt.Sprintf("%s:%s:%s:%s:%s", hexs(string(p.GetContentType())), string(p.GetEncoding()), hexs(string(p.GetCharset())),
			hexs(p.GetDescription()), hx.Hex(content)))
		if listsOK {
			w := parts[i]
			if string(p.GetContentType()) != w.ct || string(p.GetEncoding()) != w.enc || string(p.GetCharset()) != w.cs ||
				p.GetDescription() != w.desc || !bytes.Equal(content, w.content) {
				listsOK = false
			}
		}
	}
	fileSum := func(fs []*mail.File, ref []refFile) []string {
		var out []string
		for i, f := range fs {
			var buf bytes.Buffer
			_, _ = f.Writer(&buf)
			enc := "-"
			if f.Enc != "" {
				enc = string(f.Enc)
			}
			out = append(out, fmt.Sprintf("%s:%s:%s:%s:%s", hexs(f.Name), hexs(bytex.MimeOf(f)), enc, hexs(f.Desc), hx.Hex(buf.Bytes())))
			if listsOK {
				w := ref[i]
				if f.Name != w.name || string(f.Enc) != w.enc || f.Desc != w.desc || !bytes.Equal(buf.Bytes(), w.content) {
					listsOK = false
				}
			}
		}
		return out
	}
	es, ts = fileSum(m.GetEmbeds(), emb), fileSum(m.GetAttachments(), att)
	j := func(l []string) string {
		if len(l) == 0 {
			return "-"
		}
		return strings.Join(l, ",")
	}
	nGen := 0
	for _, k := range []string{"Date", "Message-ID", "Subject", "MIME-Version", "User-Agent", "X-Mailer"} {
		if m.GetGenHeader(mail.Header(k)) != nil {
			nGen++
		}
	}
	nAddr, hasFrom := 0, 0
	for _, k := range []mail.AddrHeader{mail.HeaderTo, mail.HeaderCc, mail.HeaderReplyTo} {
		if len(m.GetAddrHeader(k)) > 0 {
			nAddr++
		}
	}
	if len(m.GetFrom()) > 0 {
		hasFrom = 1
	}
	obs := fmt.Sprintf("P=%s E=%s T=%s G=%d A=%d F=%d", j(ps), j(es), j(ts), nGen, nAddr, hasFrom)
	r.Add(hx.Case{ID: c.ID, Kind: "build", Args: []string{descBase, msgenc, modelOps(ops, m)}}, obs, true)
	if !listsOK {
		r.Fail(c.ID, "builder-lists", fmt.Sprintf("after %s the Msg has %d parts / %d embeds / %d attachments that are not what the calls asked for (%d / %d / %d): %s",
			ops, len(m.GetParts()), len(m.GetEmbeds()), len(m.GetAttachments()), len(parts), len(emb), len(att), obs))
		return
	}
	if reset != (hasFrom == 0 && nAddr == 0 && nGen == 0) {
		r.Fail(c.ID, "builder-reset", fmt.Sprintf("Reset called: %v, but From present: %d, address headers: %d, generic headers: %d", reset, hasFrom, nAddr, nGen))
	}
	if len(parts) == 0 {
		return
	}
	// ---- render the final message: correspondence + leaves
	if reset {
		_ = m.From(base.From)
		_ = m.To(base.To...)
		m.SetGenHeader(mail.HeaderDate, bytex.FixedDate)
		m.SetGenHeader(mail.HeaderMessageID, bytex.FixedMsgID)
		m.SetGenHeader(mail.Header("Subject"), "builder script")
	}
	final := base
	var want []leafWant
	for _, p := range parts {
		final.Parts = append(final.Parts, bytex.PartSpec{CType: p.ct, Enc: p.enc, Charset: p.cs, Desc: p.desc, Prod: bytex.Producer{Chunks: [][]byte{p.content}}})
		want = append(want, leafWant{kind: "part", ctype: p.ct, charset: p.cs, enc: p.enc, content: p.content})
	}
	mkf := func(l []refFile, kind string) []bytex.FileSpec {
		var out []bytex.FileSpec
		for _, f := range l {
			out = append(out, bytex.FileSpec{Name: f.name, Enc: f.enc, Desc: f.desc, Prod: bytex.Producer{Chunks: [][]byte{f.content}}})
			e := f.enc
			if e == "" {
				e = "base64"
			}
			want = append(want, leafWant{kind: kind, enc: e, name: f.name, content: f.content})
		}
		return out
	}
	final.Embeds, final.Attach = mkf(emb, "embed"), mkf(att, "attach")
	bytex.ResetRand()
	desc := bytex.Describe(m, &final, [3]string{}, bytex.DrawnBoundaries(0, 4))
	sink := &bytex.Sink{K: -1}
	_, werr, pan := bytex.SafeWriteTo(m, sink)
	if pan != nil || werr != nil {
		r.Fail(c.ID, "render-failed", fmt.Sprint(pan, werr))
		return
	}
	r.Add(hx.Case{ID: c.ID + "-r", Kind: "render", Args: []string{desc, "inf", "script", msgenc, ops}}, fmt.Sprintf("ok %d %s", len(sink.Accepted), hx.Hex(sink.Accepted)), true)
	checkLeaves(r, c.ID, sink.Accepted, want, len(parts), len(emb), len(att))
}

// modelOps rewrites the mime field of the file ops with the oracle value (the media type derivation is the
// standard library's): the model's file record carries it.
func modelOps(ops string, m *mail.Msg) string {
	var out []string
	for _, op := range strings.Split(ops, "/") {
		if op != "" && (op[0] == 't' || op[0] == 'e') {
			f := strings.Split(op[1:], ":")
			if len(f) == 5 {
				f[1] = hx.Hex([]byte(bytex.MimeOf(&mail.File{Name: unhexs(f[0])})))
				op = string(op[0]) + strings.Join(f, ":")
			}
		}
		out = append(out, op)
	}
	return strings.Join(out, "/")
}

// genScripts emits the builder-script cases: all short scripts over a small alphabet plus random longer ones.
func genScripts(r *hx.Run, thorough bool) {
	hexs := func(s string) string { return hx.Hex([]byte(s)) }
	txt := []string{"first body\r\n", "<p>html</p>\r\n", "third alternative with = and trailing blank \r\n", ""}
	part := func(tag string, i int) string {
		enc := []string{"-", "base64", "quoted-printable", "8bit"}[i%4]
		cs := []string{"-", hexs("ISO-8859-1")}[(i/4)%2]
		desc := []string{"", "a description"}[(i/3)%2]
		ct := []string{"text/plain", "text/html", "text/x-third"}[i%3]
		return tag + hexs(ct) + ":" + enc + ":" + cs + ":" + hexs(desc) + ":" + hx.HexList([][]byte{[]byte(txt[i%len(txt)])})
	}
	file := func(tag string, i int) string {
		name := []string{"a.bin", "report final.pdf", "na\xc3\xafve.txt", "b.png"}[i%4]
		enc := []string{"-", "base64", "8bit"}[i%3]
		desc := []string{"", "file description"}[(i/2)%2]
		content := []string{"\x00\x01binary\xff", "plain file content\r\n", strings.Repeat("0123456789", 17)}[i%3]
		if enc == "8bit" {
			content = "eight bit text\r\n"
		}
		return tag + hexs(name) + ":" + hexs("-") + ":" + enc + ":" + hexs(desc) + ":" + hx.HexList([][]byte{[]byte(content)})
	}
	alphabet := func(i int) []string {
		return []string{part("s", i), part("a", i+1), file("t", i), file("e", i+1), "T1", "E0", "ut", "ue", "up", "r", part("a", i+2), file("t", i+2)}
	}
	encs := []string{"quoted-printable", "base64", "8bit"}
	ci := 0
	emit := func(ops []string) {
		if r.Expired() {
			return
		}
		runScript(r, hx.Case{ID: r.NewID(), Kind: "c01b", Args: []string{encs[ci%3], strings.Join(ops, "/")}})
		ci++
	}
	// every script of length <= 2 after a fixed prefix (body + alternative + attachment + embed), and of length 3 from the empty message
	al := alphabet(0)
	prefix := []string{part("s", 0), part("a", 1), file("t", 0), file("e", 1)}
	for _, a := range al {
		emit(append(append([]string{}, prefix...), a))
		for _, b := range al {
			emit(append(append([]string{}, prefix...), a, b))
		}
	}
	for _, a := range al[:4] {
		for _, b := range al {
			emit([]string{a, b, part("a", 5)})
		}
	}
	n := 150
	if thorough {
		n = 4000
	}
	for k := 0; k < n; k++ {
		l := 3 + r.Rng.Intn(8)
		var ops []string
		al := alphabet(r.Rng.Intn(24))
		for i := 0; i < l; i++ {
			ops = append(ops, al[r.Rng.Intn(len(al))])
		}
		emit(ops)
	}
}
