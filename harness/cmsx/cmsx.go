// Package cmsx: an independent verifier for detached CMS SignedData (RFC 5652) as used by
// S/MIME multipart/signed, written on encoding/asn1 + crypto/x509 only (no go-mail code).
package cmsx

import (
	"bytes"
	"crypto"
	"crypto/ecdsa"
	"crypto/rsa"
	"crypto/sha256"
	"crypto/x509"
	"encoding/asn1"
	"fmt"
)

var (
	oidSignedData    = asn1.ObjectIdentifier{1, 2, 840, 113549, 1, 7, 2}
	oidData          = asn1.ObjectIdentifier{1, 2, 840, 113549, 1, 7, 1}
	oidContentType   = asn1.ObjectIdentifier{1, 2, 840, 113549, 1, 9, 3}
	oidMessageDigest = asn1.ObjectIdentifier{1, 2, 840, 113549, 1, 9, 4}
	oidSHA256        = asn1.ObjectIdentifier{2, 16, 840, 1, 101, 3, 4, 2, 1}
)

type contentInfo struct {
	ContentType asn1.ObjectIdentifier
	Content     asn1.RawValue `asn1:"explicit,optional,tag:0"`
}

type signedData struct {
	Version          int
	DigestAlgorithms []algID `asn1:"set"`
	ContentInfo      encapContent
	Certificates     asn1.RawValue `asn1:"optional,tag:0"`
	CRLs             asn1.RawValue `asn1:"optional,tag:1"`
	SignerInfos      []signerInfo  `asn1:"set"`
}

type encapContent struct {
	ContentType asn1.ObjectIdentifier
	Content     asn1.RawValue `asn1:"explicit,optional,tag:0"`
}

type algID struct {
	Algorithm  asn1.ObjectIdentifier
	Parameters asn1.RawValue `asn1:"optional"`
}

type issuerAndSerial struct {
	Issuer asn1.RawValue
	Serial asn1.RawValue
}

type signerInfo struct {
	Version         int
	SID             issuerAndSerial
	DigestAlgorithm algID
	SignedAttrs     asn1.RawValue `asn1:"optional,tag:0"`
	SigAlgorithm    algID
	Signature       []byte
	UnsignedAttrs   asn1.RawValue `asn1:"optional,tag:1"`
}

type attribute struct {
	Type   asn1.ObjectIdentifier
	Values asn1.RawValue `asn1:"set"`
}

// Result of a verification.
type Result struct {
	Digest     []byte // messageDigest attribute
	NCerts     int
	SignerCert *x509.Certificate
	Certs      []*x509.Certificate
}

// Verify checks a detached SignedData over content: digest attribute = SHA-256(content), signature over
// the DER SET OF signed attributes valid under the signer certificate contained in the structure.
func Verify(der []byte, content []byte) (*Result, error) {
	var ci contentInfo
	rest, err := asn1.Unmarshal(der, &ci)
	if err != nil || len(rest) != 0 {
		return nil, fmt.Errorf("ContentInfo: %v (trailing %d)", err, len(rest))
	}
	if !ci.ContentType.Equal(oidSignedData) {
		return nil, fmt.Errorf("not SignedData")
	}
	var sd signedData
	if _, err := asn1.Unmarshal(ci.Content.Bytes, &sd); err != nil {
		return nil, fmt.Errorf("SignedData: %v", err)
	}
	if len(sd.ContentInfo.Content.Bytes) != 0 {
		return nil, fmt.Errorf("signature is not detached")
	}
	if !sd.ContentInfo.ContentType.Equal(oidData) {
		return nil, fmt.Errorf("eContentType is not id-data")
	}
	certs, err := x509.ParseCertificates(sd.Certificates.Bytes)
	if err != nil {
		return nil, fmt.Errorf("certificates: %v", err)
	}
	if len(sd.SignerInfos) != 1 {
		return nil, fmt.Errorf("%d signer infos", len(sd.SignerInfos))
	}
	si := sd.SignerInfos[0]
	if !si.DigestAlgorithm.Algorithm.Equal(oidSHA256) {
		return nil, fmt.Errorf("digest algorithm %v is not SHA-256", si.DigestAlgorithm.Algorithm)
	}
	res := &Result{NCerts: len(certs), Certs: certs}
	for _, c := range certs {
		if bytes.Equal(c.RawIssuer, si.SID.Issuer.FullBytes) && bytes.Equal(c.SerialNumber.Bytes(), trimSerial(si.SID.Serial.Bytes)) {
			res.SignerCert = c
		}
	}
	if res.SignerCert == nil {
		return nil, fmt.Errorf("signer certificate not included")
	}
	// signed attributes
	var attrs []attribute
	for rest := si.SignedAttrs.Bytes; len(rest) > 0; {
		var a attribute
		var err error
		rest, err = asn1.Unmarshal(rest, &a)
		if err != nil {
			return nil, fmt.Errorf("signed attributes: %v", err)
		}
		attrs = append(attrs, a)
	}
	var ctOK bool
	for _, a := range attrs {
		switch {
		case a.Type.Equal(oidMessageDigest):
			var d []byte
			if _, err := asn1.Unmarshal(a.Values.Bytes, &d); err != nil {
				return nil, fmt.Errorf("messageDigest: %v", err)
			}
			res.Digest = d
		case a.Type.Equal(oidContentType):
			var o asn1.ObjectIdentifier
			if _, err := asn1.Unmarshal(a.Values.Bytes, &o); err == nil && o.Equal(oidData) {
				ctOK = true
			}
		}
	}
	if res.Digest == nil || !ctOK {
		return res, fmt.Errorf("signed attributes lack messageDigest / contentType")
	}
	sum := sha256.Sum256(content)
	if !bytes.Equal(sum[:], res.Digest) {
		return res, fmt.Errorf("digest-mismatch: messageDigest %x, SHA-256 of the first body part %x", res.Digest[:8], sum[:8])
	}
	// signature is over the DER encoding of the attributes as SET OF (tag 0x31)
	tbs := append([]byte{}, si.SignedAttrs.FullBytes...)
	tbs[0] = 0x31
	h := sha256.Sum256(tbs)
	switch pk := res.SignerCert.PublicKey.(type) {
	case *rsa.PublicKey:
		if err := rsa.VerifyPKCS1v15(pk, crypto.SHA256, h[:], si.Signature); err != nil {
			return res, fmt.Errorf("signature-invalid: %v", err)
		}
	case *ecdsa.PublicKey:
		if !ecdsa.VerifyASN1(pk, h[:], si.Signature) {
			return res, fmt.Errorf("signature-invalid: ecdsa")
		}
	default:
		return res, fmt.Errorf("unsupported key type %T", pk)
	}
	return res, nil
}

func trimSerial(b []byte) []byte {
	for len(b) > 1 && b[0] == 0 {
		b = b[1:]
	}
	return b
}
