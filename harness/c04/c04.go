// Package c04: implementation side of the C04 check (engine smtpsend); the shared machinery is in harness/sendx.
package c04

import (
	"verif/harness/hx"
	"verif/harness/sendx"
)

func init() { hx.Register("C04", Run) }

// Run generates (or replays) the cases of C04, drives the real client and applies the direct oracle.
func Run(r *hx.Run, replay []hx.Case) {
	sendx.RunProp(r, replay, "C04")
	sendx.RunDirect(r, replay)
}
