package c14

// mail.Client level (C14): one mail.Client value dials 2 or 3 times (DialWithContext -> Close -> DialWithContext ...),
// each dial over a new in-memory connection to a reference SMTP server that performs a real STARTTLS handshake
// (crypto/tls, TLS 1.2 or 1.3, certificate generated at run time) or stays in clear (the -NOENC types), and then verifies
// the AUTH exchange with the reference SASL servers, deriving the channel binding from ITS OWN end of THAT connection.
// Between dials the credentials may be changed with SetUsername / SetPassword.
// Oracle: a dial succeeds exactly when the credentials configured at that moment are the account's; the user name the
// verifier saw is the configured one.  Oracle only (the model side of C14 is the mechanism level).

import (
	"bufio"
	"context"
	"crypto/tls"
	"fmt"
	"net"
	"strconv"
	"strings"
	"sync"
	"time"

	mail "github.com/wneessen/go-mail"
	"verif/harness/hx"
	"verif/harness/saslx"
)

var mechOfName = map[string]string{"PLAIN": "plain", "LOGIN": "login", "CRAM-MD5": "cram", "XOAUTH2": "xoauth2",
	"SCRAM-SHA-1": "sha1", "SCRAM-SHA-256": "sha256", "SCRAM-SHA-1-PLUS": "sha1plus", "SCRAM-SHA-256-PLUS": "sha256plus"}

type mcServer struct {
	mu       sync.Mutex
	user     string // the account
	secret   string
	starttls bool
	tlsVer   uint16
	adv      string // advertised mechanisms
	// per connection results
	accepted []bool
	mechs    []string
	errs     []string
}

func (s *mcServer) serve(conn net.Conn) {
	defer conn.Close()
	_ = conn.SetDeadline(time.Now().Add(10 * time.Second))
	rd := bufio.NewReader(conn)
	var w net.Conn = conn
	write := func(t string) { _, _ = w.Write([]byte(t + "\r\n")) }
	var tst *tls.ConnectionState
	accepted, mech, errText := false, "", ""
	defer func() {
		s.mu.Lock()
		s.accepted = append(s.accepted, accepted)
		s.mechs = append(s.mechs, mech)
		s.errs = append(s.errs, errText)
		s.mu.Unlock()
	}()
	write("220 localhost ESMTP")
	var rs *ref
	k := 0
	for {
		line, err := rd.ReadString('\n')
		if err != nil {
			return
		}
		line = strings.TrimRight(line, "\r\n")
		up := strings.ToUpper(line)
		switch {
		case rs != nil && !accepted && k > 0 && line != "QUIT" && !strings.HasPrefix(up, "NOOP"):
			// inside an AUTH exchange
			r := rs.reply(k, line)
			if line != "*" {
				k++
			}
			accepted = rs.ok
			if r.code != 334 {
				k = 0
			}
			write(strings.TrimRight(saslx.FormatReply(r.code, r.text), "\r\n"))
		case strings.HasPrefix(up, "EHLO"), strings.HasPrefix(up, "HELO"):
			write("250-localhost")
			if s.starttls && tst == nil {
				write("250-STARTTLS")
			}
			write("250-AUTH " + s.adv)
			write("250 OK")
		case up == "STARTTLS":
			write("220 go ahead")
			cfg, err := saslx.ServerTLSConfig(s.tlsVer)
			if err != nil {
				errText = err.Error()
				return
			}
			tc := tls.Server(conn, cfg)
			if err := tc.Handshake(); err != nil {
				errText = "handshake: " + err.Error()
				return
			}
			st := tc.ConnectionState()
			tst = &st
			w = tc
			rd = bufio.NewReader(tc)
		case strings.HasPrefix(up, "AUTH "):
			parts := strings.SplitN(line, " ", 3)
			mech = mechOfName[strings.ToUpper(parts[1])]
			sp := &spec{mech: mech, right: true, user: s.user, secret: s.secret, salt: []byte("mc-salt-0123"), iter: 3}
			rs = newRef(sp, tst)
			k = 0
			r := rs.reply(k, line)
			k++
			accepted = rs.ok
			if r.code != 334 {
				k = 0
			}
			write(strings.TrimRight(saslx.FormatReply(r.code, r.text), "\r\n"))
		case up == "QUIT":
			write("221 bye")
			return
		default:
			write("250 ok")
		}
	}
}

var authTypes = map[string]mail.SMTPAuthType{"plain": mail.SMTPAuthPlain, "plain-noenc": mail.SMTPAuthPlainNoEnc, "login": mail.SMTPAuthLogin,
	"login-noenc": mail.SMTPAuthLoginNoEnc, "cram": mail.SMTPAuthCramMD5, "xoauth2": mail.SMTPAuthXOAUTH2, "sha1": mail.SMTPAuthSCRAMSHA1,
	"sha256": mail.SMTPAuthSCRAMSHA256, "sha1plus": mail.SMTPAuthSCRAMSHA1PLUS, "sha256plus": mail.SMTPAuthSCRAMSHA256PLUS, "auto": mail.SMTPAuthAutoDiscover}

// case: mcd <authtype> <tls 0|12|13> <ndials> <change none|follow|wrong> <user> <secret>
//
//	change: between dials the client's credentials are left alone / changed together with the account (must still be
//	accepted) / the client's password is changed to a wrong one (must be rejected from then on)
func runMCD(r *hx.Run, c hx.Case) {
	at := c.Args[0]
	tv, _ := strconv.Atoi(c.Args[1])
	nd, _ := strconv.Atoi(c.Args[2])
	change := c.Args[3]
	user, secret := string(hx.UnHex(c.Args[4])), string(hx.UnHex(c.Args[5]))
	srv := &mcServer{user: user, secret: secret, starttls: tv != 0, adv: "PLAIN LOGIN CRAM-MD5 XOAUTH2 SCRAM-SHA-1 SCRAM-SHA-256"}
	if tv == 12 {
		srv.tlsVer = tls.VersionTLS12
	} else {
		srv.tlsVer = tls.VersionTLS13
	}
	if tv != 0 {
		srv.adv += " SCRAM-SHA-1-PLUS SCRAM-SHA-256-PLUS"
	}
	var wg sync.WaitGroup
	dial := func(ctx context.Context, network, address string) (net.Conn, error) {
		a, b := saslx.Pipe()
		wg.Add(1)
		go func() { defer wg.Done(); srv.serve(b) }()
		return a, nil
	}
	policy := mail.NoTLS
	if tv != 0 {
		policy = mail.TLSMandatory
	}
	opts := []mail.Option{mail.WithPort(25), mail.WithTLSPolicy(policy), mail.WithSMTPAuth(authTypes[at]), mail.WithUsername(user),
		mail.WithPassword(secret), mail.WithDialContextFunc(dial), mail.WithTimeout(8 * time.Second),
		mail.WithTLSConfig(&tls.Config{InsecureSkipVerify: true, ServerName: "localhost", MinVersion: srv.tlsVer, MaxVersion: srv.tlsVer})}
	cl, err := mail.NewClient("localhost", opts...)
	if err != nil {
		r.Fail(c.ID, "harness", err.Error())
		return
	}
	r.AddOracleOnly(c, true)
	r.Dist["mailclient:"+at]++
	r.Dist["mailclient-change:"+change]++
	expectOK := true
	for i := 0; i < nd; i++ {
		if i > 0 {
			switch change {
			case "follow":
				user, secret = user+"2", secret+"-new"
				srv.mu.Lock()
				srv.user, srv.secret = user, secret
				srv.mu.Unlock()
				cl.SetUsername(user)
				cl.SetPassword(secret)
			case "wrong":
				cl.SetPassword(secret + "-wrong")
				expectOK = false
			}
		}
		ctx, cancel := context.WithTimeout(context.Background(), 8*time.Second)
		derr := cl.DialWithContext(ctx)
		cancel()
		if derr == nil {
			_ = cl.Close()
		}
		wg.Wait()
		srv.mu.Lock()
		acc, mech, serr := false, "", ""
		if len(srv.accepted) > i {
			acc, mech, serr = srv.accepted[i], srv.mechs[i], srv.errs[i]
		}
		srv.mu.Unlock()
		if serr != "" {
			r.Fail(c.ID, "harness", "server: "+serr)
			return
		}
		ok := derr == nil && acc
		if expectOK && !ok {
			r.Fail(c.ID, "dial-rejected-with-right-credentials", fmt.Sprintf("auth type %s, tls %d, dial %d of %d on one mail.Client (credentials: %s): DialWithContext error %v, reference verifier (%s) accepted=%v",
				at, tv, i+1, nd, change, derr, mech, acc))
			return
		}
		if !expectOK && (derr == nil || acc) {
			r.Fail(c.ID, "dial-accepted-with-wrong-current-credentials", fmt.Sprintf("auth type %s, tls %d, dial %d of %d after SetPassword(wrong): DialWithContext error %v, reference verifier (%s) accepted=%v",
				at, tv, i+1, nd, derr, mech, acc))
			return
		}
	}
}
