// Package c14: "SASL mechanisms interoperate with conforming servers" (C14).
// The real mechanisms (PLAIN, LOGIN, CRAM-MD5, XOAUTH2, SCRAM-SHA-1/-256 and the -PLUS variants) are driven through
// smtp.Client.Auth against the reference servers of harness/saslx (written from RFC 4616, 2195, 5802/7677/9266 and
// validated on the RFC vectors at start-up), once with the right and once with a wrong secret at the server.
// For the -PLUS variants a real crypto/tls handshake (TLS 1.2 / TLS 1.3, certificate generated at run time) is made
// per case over an in-memory pipe; the client gets the client end's ConnectionState (what Client.auth obtains from
// GetTLSConnectionState), the reference server derives its channel binding from the SERVER end.
//
// observable (kind auth14, compared with the model): result class and every line the client wrote, byte-exact
// (the client nonce is taken from the observed client-first and handed to the model as the randomness oracle).
// Further model-compared kinds: hash / hmac / pbkdf2 (Crypto.v and the pbkdf2.Key transliteration against Go's
// crypto and the reference Hi), esc / unesc / atoi / b64d (the stdlib pieces the model re-implements).
// direct oracle: the reference server accepts exactly when the secret is right; two attempts (also on the same Auth
// value) use different nonces.
// Reuse (kind xs / auth14s): 2 and 3 exchanges on ONE Auth value of every mechanism, each on a new connection, the
// earlier ones completed / rejected with 535 / 454 / dropped at every step, the last one honest: it must be accepted by
// the reference verifier; the model threads the mechanism state (LOGIN step counter, scramAuth fields) through the calls.
package c14

import (
	"crypto/md5"
	"crypto/tls"
	"encoding/base64"
	"fmt"
	"strconv"
	"strings"

	"github.com/wneessen/go-mail/smtp"
	"verif/harness/hx"
	"verif/harness/saslx"
)

type spec struct {
	mech   string // plain login cram xoauth2 sha1 sha256 sha1plus sha256plus
	right  bool
	user   string
	secret string
	ident  string
	salt   []byte
	iter   int
	tlsVer uint16
	ws     int    // index into wsVariants: white space the reference servers put around / into their challenges
	ext    string // extensions the reference SCRAM server appends to its server-first-message
	prefix string // put in front of the server-first-message (mandatory extension "m=..,")
}

// white space (SP, HT, CR, LF) at the beginning / end of a decoded challenge; the third element goes inside
var wsVariants = [][3]string{{"", "", ""}, {" ", "", ""}, {"", " ", ""}, {"\t", "\t", ""}, {"\r\n", "", ""}, {"", "\r\n", ""},
	{" \t", "\n", " \t "}, {"", "", " "}, {"\n", " ", "\r"}, {"  ", "\t\n", ""}}

func (sp *spec) deco(m string) string { w := wsVariants[sp.ws%len(wsVariants)]; return w[0] + m + w[1] }

type reply struct {
	code int
	text string
}

func hashOf(mech string) saslx.Hash {
	if strings.HasPrefix(mech, "sha1") {
		return saslx.SHA1
	}
	return saslx.SHA256
}

func isScram(m string) bool { return strings.HasPrefix(m, "sha") }
func isPlus(m string) bool  { return strings.HasSuffix(m, "plus") }

// the reference server's reply to the k-th line of the exchange
type ref struct {
	sp     *spec
	secret string
	scram  *saslx.ScramServer
	chal   string
	ok     bool // the server accepted
}

func (s *ref) reply(k int, line string) reply {
	fail := reply{535, "5.7.8 authentication failed"}
	okr := func() reply { s.ok = true; return reply{235, "2.7.0 ok"} }
	arg := func() []byte {
		parts := strings.SplitN(line, " ", 3)
		if len(parts) < 3 {
			return nil
		}
		b, _ := saslx.UnB64(parts[2])
		return b
	}
	dec := func() []byte { b, _ := saslx.UnB64(line); return b }
	switch {
	case line == "*":
		return reply{501, "5.0.0 aborted"}
	case line == "QUIT":
		return reply{221, "2.0.0 bye"}
	}
	switch s.sp.mech {
	case "plain":
		if z, u, p, err := saslx.ParsePlain(arg()); err == nil && z == s.sp.ident && u == s.sp.user && p == s.secret {
			return okr()
		}
		return fail
	case "login":
		switch k {
		case 0:
			return reply{334, saslx.B64([]byte(s.sp.deco("Username:")))}
		case 1:
			if string(dec()) != s.sp.user {
				return fail
			}
			return reply{334, saslx.B64([]byte(s.sp.deco("Password:")))}
		default:
			if string(dec()) == s.secret {
				return okr()
			}
			return fail
		}
	case "cram":
		if k == 0 {
			// the challenge as ISSUED (with its white space) is what the verifier computes HMAC-MD5 over
			s.chal = s.sp.deco(saslx.CramChallenge(fmt.Sprintf("%d.%d%s", len(s.sp.user), len(s.secret), wsVariants[s.sp.ws%len(wsVariants)][2])))
			return reply{334, saslx.B64([]byte(s.chal))}
		}
		if u, ok := saslx.VerifyCram(s.chal, dec(), func(string) (string, bool) { return s.secret, true }); ok && u == s.sp.user {
			return okr()
		}
		return fail
	case "xoauth2":
		if k == 0 {
			if u, t, err := saslx.ParseXOAuth2(arg()); err == nil && u == s.sp.user && t == s.secret {
				return okr()
			}
			return reply{334, saslx.B64([]byte(s.sp.deco(`{"status":"401"}`)))}
		}
		return fail
	default:
		switch k {
		case 0:
			return reply{334, ""}
		case 1:
			sf, err := s.scram.First(dec())
			if err != nil {
				return fail
			}
			return reply{334, saslx.B64(sf)}
		case 2:
			fin, err := s.scram.Final(dec())
			if err != nil {
				return fail
			}
			return reply{334, saslx.B64(fin)}
		default:
			return okr()
		}
	}
}

func mkAuth(sp *spec, st *tls.ConnectionState) smtp.Auth {
	switch sp.mech {
	case "plain":
		return smtp.PlainAuth(sp.ident, sp.user, sp.secret, "localhost", false)
	case "login":
		return smtp.LoginAuth(sp.user, sp.secret, "localhost", false)
	case "cram":
		return smtp.CRAMMD5Auth(sp.user, sp.secret)
	case "xoauth2":
		return smtp.XOAuth2Auth(sp.user, sp.secret)
	case "sha1":
		return smtp.ScramSHA1Auth(sp.user, sp.secret)
	case "sha256":
		return smtp.ScramSHA256Auth(sp.user, sp.secret)
	case "sha1plus":
		return smtp.ScramSHA1PlusAuth(sp.user, sp.secret, st)
	default:
		return smtp.ScramSHA256PlusAuth(sp.user, sp.secret, st)
	}
}

func newRef(sp *spec, srvState *tls.ConnectionState) *ref {
	s := &ref{sp: sp, secret: sp.secret}
	if !sp.right {
		s.secret = sp.secret + "x"
	}
	if isScram(sp.mech) {
		np, _ := saslx.Opaque(s.secret)
		st := saslx.Store(hashOf(sp.mech), string(np), sp.salt, sp.iter)
		// the account name at the server is the prepared (PRECIS OpaqueString) form of the user name
		acct := sp.user
		if nu, ok := saslx.Opaque(sp.user); ok {
			acct = string(nu)
		}
		s.scram = &saslx.ScramServer{Hash: hashOf(sp.mech), Plus: isPlus(sp.mech), NonceSuffix: "c14srv", FirstExt: sp.ext, FirstPrefix: sp.prefix,
			Lookup: func(u string) (saslx.Stored, bool) { return st, u == acct }}
		if srvState != nil {
			s.scram.CBType, s.scram.CBData, _ = saslx.ChannelBinding(*srvState)
		}
	}
	return s
}

// one Auth call with the given Auth value; returns class, lines, replies, whether the reference accepted
func runOnce(sp *spec, a smtp.Auth, srvState *tls.ConnectionState) (string, []string, []reply, bool, error) {
	return runDisturbed(sp, a, srvState, "ok", 0)
}

// runDisturbed is one exchange in which the server deviates at step [at] of the exchange (0 = the AUTH command):
// "f535" rejects with 535, "t454" answers 454 (temporary failure), "drop" closes the connection without a reply;
// "ok" is the undisturbed reference server.
func runDisturbed(sp *spec, a smtp.Auth, srvState *tls.ConnectionState, mode string, at int) (string, []string, []reply, bool, error) {
	rs := newRef(sp, srvState)
	var replies []reply
	k := 0
	dropped := false
	sess, err := saslx.NewSession("localhost", []string{"AUTH PLAIN LOGIN CRAM-MD5 XOAUTH2 SCRAM-SHA-1 SCRAM-SHA-256"}, func(line string) string {
		if dropped {
			return ""
		}
		var r reply
		switch {
		case line == "*" || line == "QUIT" || mode == "ok" || k != at:
			r = rs.reply(k, line)
		case mode == "f535":
			r = reply{535, "5.7.8 authentication failed"}
		case mode == "t454":
			r = reply{454, "4.7.0 temporary authentication failure"}
		default:
			dropped = true
			return ""
		}
		if line != "*" && line != "QUIT" {
			k++
		}
		replies = append(replies, r)
		return saslx.FormatReply(r.code, r.text)
	})
	if err != nil {
		return "", nil, nil, false, err
	}
	aerr := sess.Client.Auth(a)
	_ = sess.Conn.Close()
	return saslx.Classify(aerr), sess.Lines, replies, rs.ok, nil
}

func nonces(lines []string) (raw [][]byte, txt []string) {
	for _, l := range lines {
		if m, ok := saslx.UnB64(l); ok {
			if cf, err := saslx.ParseClientFirst(m); err == nil {
				txt = append(txt, cf.Nonce)
				if r, ok := saslx.UnB64(cf.Nonce); ok {
					raw = append(raw, r)
				}
			}
		}
	}
	return
}

func hexLines(l []string) string {
	bl := make([][]byte, len(l))
	for i, x := range l {
		bl[i] = []byte(x)
	}
	return hx.HexList(bl)
}

func replyArg(rs []reply) string {
	if len(rs) == 0 {
		return "-"
	}
	parts := make([]string, len(rs))
	for i, r := range rs {
		parts[i] = strconv.Itoa(r.code) + ":" + hx.Hex([]byte(r.text))
	}
	return strings.Join(parts, ",")
}

func opt(b []byte, ok bool) string {
	if !ok {
		return "!"
	}
	return hx.Hex(b)
}

func b2s(b bool) string {
	if b {
		return "1"
	}
	return "0"
}

// case: x <mech> <right> <user> <secret> <ident> <salt> <iter> <tlsver> <retry 0|1> <modelcompare 0|1>
func runX(r *hx.Run, c hx.Case) {
	sp := &spec{mech: c.Args[0], right: c.Args[1] == "1", user: string(hx.UnHex(c.Args[2])), secret: string(hx.UnHex(c.Args[3])),
		ident: string(hx.UnHex(c.Args[4])), salt: hx.UnHex(c.Args[5])}
	sp.iter, _ = strconv.Atoi(c.Args[6])
	v, _ := strconv.Atoi(c.Args[7])
	sp.tlsVer = uint16(v)
	retry := c.Args[8] == "1"
	compare := c.Args[9] == "1"
	if len(c.Args) > 10 {
		sp.ext = string(hx.UnHex(c.Args[10]))
	}
	if len(c.Args) > 11 {
		sp.prefix = string(hx.UnHex(c.Args[11]))
	}
	if len(c.Args) > 12 {
		sp.ws, _ = strconv.Atoi(c.Args[12])
		if isScram(sp.mech) && sp.ws > 0 {
			// SCRAM: the white space rides at the end of an extension of the server-first-message (part of the AuthMessage)
			w := wsVariants[sp.ws%len(wsVariants)]
			sp.ext += ",x=" + w[2] + "a" + w[1]
		}
	}
	scArg := hx.Hex([]byte(strings.Join(c.Args, " ")))
	var cst, sst *tls.ConnectionState
	if isPlus(sp.mech) {
		cc, sc, err := saslx.NewTLSPair(sp.tlsVer)
		if err != nil {
			r.Fail(c.ID, "harness", err.Error())
			return
		}
		a, b := cc.ConnectionState(), sc.ConnectionState()
		cst, sst = &a, &b
		defer cc.Close()
		defer sc.Close()
	}
	a := mkAuth(sp, cst)
	class, lines, replies, accepted, err := runOnce(sp, a, sst)
	if err != nil {
		r.Fail(c.ID, "harness", err.Error())
		return
	}
	r.Dist["mech:"+sp.mech]++
	r.Dist["result:"+class]++
	// oracle
	valid := true
	var nu, np []byte
	var uok, pok bool
	if isScram(sp.mech) {
		nu, uok = saslx.Opaque(saslx.EscapeName(sp.user))
		np, pok = saslx.Opaque(sp.secret)
		_, sok := saslx.Opaque(sp.secret + "x")
		valid = uok && pok && sok
	}
	if sp.mech == "plain" && (strings.Contains(sp.user+sp.secret+sp.ident, "\x00") || sp.user == "" || sp.secret == "") {
		valid = false
	}
	if sp.mech == "xoauth2" && strings.Contains(sp.user+sp.secret, "\x01") {
		valid = false
	}
	if sp.prefix != "" && isScram(sp.mech) {
		if class == "OK" {
			r.Fail(c.ID, "mandatory-extension-accepted", fmt.Sprintf("%s: server-first with the unknown mandatory extension %q was accepted", sp.mech, sp.prefix))
		}
		valid = false
	}
	if valid {
		if sp.right && (class != "OK" || !accepted) {
			r.Fail(c.ID, "rejected-with-right-credentials", fmt.Sprintf("%s user %q secret %q: class %s, reference accepted=%v, lines %q", sp.mech, sp.user, sp.secret, class, accepted, lines))
		}
		if !sp.right && (class == "OK" || accepted) {
			r.Fail(c.ID, "accepted-with-wrong-credentials", fmt.Sprintf("%s user %q: class %s, reference accepted=%v", sp.mech, sp.user, class, accepted))
		}
	}
	raw, txt := nonces(lines)
	if retry && isScram(sp.mech) {
		// a second attempt with the SAME Auth value on a new connection
		class2, lines2, _, accepted2, err := runOnce(sp, a, sst)
		if err == nil {
			_, txt2 := nonces(lines2)
			if len(txt) > 0 && len(txt2) > 0 && txt[0] == txt2[0] {
				r.Fail(c.ID, "nonce-reused", fmt.Sprintf("%s: both attempts on the same Auth value used the nonce %q", sp.mech, txt[0]))
			}
			if valid && sp.right && (class2 != "OK" || !accepted2) {
				r.Fail(c.ID, "retry-rejected-with-right-credentials", fmt.Sprintf("%s: second attempt on the same Auth value: class %s", sp.mech, class2))
			}
		}
	}
	if !compare {
		r.AddOracleOnly(c, true)
		return
	}
	var margs []string
	switch sp.mech {
	case "plain":
		margs = []string{"plain", hx.Hex([]byte(sp.ident)), hx.Hex([]byte(sp.user)), hx.Hex([]byte(sp.secret)), hx.Hex([]byte("localhost")), "0", hx.Hex([]byte("localhost")), "0"}
	case "login":
		margs = []string{"login", hx.Hex([]byte(sp.user)), hx.Hex([]byte(sp.secret)), hx.Hex([]byte("localhost")), "0", hx.Hex([]byte("localhost")), "0"}
	case "cram":
		margs = []string{"cram", hx.Hex([]byte(sp.user)), hx.Hex([]byte(sp.secret))}
	case "xoauth2":
		margs = []string{"xoauth2", hx.Hex([]byte(sp.user)), hx.Hex([]byte(sp.secret))}
	default:
		margs = []string{"scram", sp.mech, hx.Hex([]byte(sp.user)), hx.Hex([]byte(sp.secret)), opt(nu, uok), opt(np, pok), hx.HexList(raw), saslx.TLSArg(cst)}
	}
	mc := hx.Case{ID: c.ID, Kind: "auth14", Args: append(append([]string{"0", replyArg(replies)}, margs...), scArg)}
	r.Add(mc, fmt.Sprintf("%s S:%s", hx.Hex([]byte(class)), hexLines(lines)), true)
	// the Gallina reference server (Sasl.scram_server_first / _final) against the Go reference server of this exchange
	if isScram(sp.mech) && sp.prefix == "" && len(lines) >= 3 && len(replies) >= 3 && uok && pok {
		cf, ok1 := saslx.UnB64(lines[1])
		cfin, ok2 := saslx.UnB64(lines[2])
		srvSecret := sp.secret
		if !sp.right {
			srvSecret += "x"
		}
		nsp, ok3 := saslx.Opaque(srvSecret)
		acct, ok4 := saslx.Opaque(sp.user)
		if ok1 && ok2 && ok3 && ok4 {
			cbn, cbd := "~", "~"
			if sst != nil {
				t, d, _ := saslx.ChannelBinding(*sst)
				cbn, cbd = hx.Hex([]byte(t)), hx.Hex(d)
			}
			o := "!"
			if replies[1].code == 334 {
				sf, _ := saslx.UnB64(replies[1].text)
				o = hx.Hex(sf) + " !"
				if replies[2].code == 334 {
					fin, _ := saslx.UnB64(replies[2].text)
					o = hx.Hex(sf) + " " + hx.Hex(fin)
				}
			}
			r.Dist["refserver"]++
			r.Add(hx.Case{ID: c.ID + "s", Kind: "srv", Args: []string{sp.mech, cbn, cbd, hx.Hex([]byte("c14srv")), hx.Hex([]byte(sp.ext)), hx.Hex(acct), hx.Hex(nsp),
				hx.Hex(sp.salt), strconv.Itoa(sp.iter), hx.Hex(cf), hx.Hex(cfin), scArg}}, o, true)
		}
	}
}

var exSteps = map[string]int{"plain": 1, "login": 3, "cram": 2, "xoauth2": 1, "sha1": 4, "sha256": 4, "sha1plus": 4, "sha256plus": 4}

// several exchanges on the SAME Auth value, each on a new connection: the first n-1 are disturbed (mode, at), the
// last one is honest with the right secret and must be accepted.
// case: xs <mech> <user> <secret> <ident> <salt> <iter> <tlsver> <mode> <at> <n>
func runXS(r *hx.Run, c hx.Case) {
	sp := &spec{mech: c.Args[0], right: true, user: string(hx.UnHex(c.Args[1])), secret: string(hx.UnHex(c.Args[2])),
		ident: string(hx.UnHex(c.Args[3])), salt: hx.UnHex(c.Args[4])}
	sp.iter, _ = strconv.Atoi(c.Args[5])
	v, _ := strconv.Atoi(c.Args[6])
	sp.tlsVer = uint16(v)
	mode := c.Args[7]
	at, _ := strconv.Atoi(c.Args[8])
	n, _ := strconv.Atoi(c.Args[9])
	// how the account's (salt, iteration count) change from one exchange to the next (a server may re-salt an account or
	// raise its iteration count at any time): same | iter | salt | both
	vary := "same"
	if len(c.Args) > 10 {
		vary = c.Args[10]
	}
	salt0, iter0 := sp.salt, sp.iter
	scArg := hx.Hex([]byte(strings.Join(c.Args, " ")))
	var cst, sst *tls.ConnectionState
	if isPlus(sp.mech) {
		cc, sc, err := saslx.NewTLSPair(sp.tlsVer)
		if err != nil {
			r.Fail(c.ID, "harness", err.Error())
			return
		}
		a, b := cc.ConnectionState(), sc.ConnectionState()
		cst, sst = &a, &b
		defer cc.Close()
		defer sc.Close()
	}
	valid := true
	var nu, np []byte
	var uok, pok bool
	if isScram(sp.mech) {
		nu, uok = saslx.Opaque(saslx.EscapeName(sp.user))
		np, pok = saslx.Opaque(sp.secret)
		valid = uok && pok
	}
	a := mkAuth(sp, cst)
	var obsParts, scripts []string
	var raws [][]byte
	seen := map[string]bool{}
	for i := 0; i < n; i++ {
		m := mode
		if i == n-1 {
			m = "ok"
		}
		sp.salt, sp.iter = salt0, iter0
		if i > 0 && (vary == "iter" || vary == "both") {
			sp.iter = iter0 + 1 + i
		}
		if i > 0 && (vary == "salt" || vary == "both") {
			sp.salt = append(append([]byte{}, salt0...), byte(i))
		}
		class, lines, replies, accepted, err := runDisturbed(sp, a, sst, m, at)
		if err != nil {
			r.Fail(c.ID, "harness", err.Error())
			return
		}
		raw, txt := nonces(lines)
		raws = append(raws, raw...)
		for _, t := range txt {
			if seen[t] {
				r.Fail(c.ID, "nonce-reused", fmt.Sprintf("%s: exchange %d on the same Auth value reuses the nonce %q", sp.mech, i+1, t))
			}
			seen[t] = true
		}
		if valid && m == "ok" && (class != "OK" || !accepted) {
			r.Fail(c.ID, "reuse-rejected-with-right-credentials", fmt.Sprintf("%s: exchange %d of %d on the same Auth value (earlier ones: %s at step %d) with the right secret: class %s, reference accepted=%v, client lines %q",
				sp.mech, i+1, n, mode, at, class, accepted, lines))
		}
		if m != "ok" && class == "OK" {
			r.Fail(c.ID, "disturbed-exchange-reported-success", fmt.Sprintf("%s: exchange %d (%s at step %d) returned nil", sp.mech, i+1, m, at))
		}
		obsParts = append(obsParts, fmt.Sprintf("%s S:%s", hx.Hex([]byte(class)), hexLines(lines)))
		scripts = append(scripts, replyArg(replies))
	}
	r.Dist["reuse:"+sp.mech]++
	r.Dist["reuse-mode:"+mode]++
	var margs []string
	switch sp.mech {
	case "plain":
		margs = []string{"plain", hx.Hex([]byte(sp.ident)), hx.Hex([]byte(sp.user)), hx.Hex([]byte(sp.secret)), hx.Hex([]byte("localhost")), "0", hx.Hex([]byte("localhost")), "0"}
	case "login":
		margs = []string{"login", hx.Hex([]byte(sp.user)), hx.Hex([]byte(sp.secret)), hx.Hex([]byte("localhost")), "0", hx.Hex([]byte("localhost")), "0"}
	case "cram":
		margs = []string{"cram", hx.Hex([]byte(sp.user)), hx.Hex([]byte(sp.secret))}
	case "xoauth2":
		margs = []string{"xoauth2", hx.Hex([]byte(sp.user)), hx.Hex([]byte(sp.secret))}
	default:
		margs = []string{"scram", sp.mech, hx.Hex([]byte(sp.user)), hx.Hex([]byte(sp.secret)), opt(nu, uok), opt(np, pok), hx.HexList(raws), saslx.TLSArg(cst)}
	}
	mc := hx.Case{ID: c.ID, Kind: "auth14s", Args: append(append([]string{"0", strings.Join(scripts, "/")}, margs...), scArg)}
	r.Add(mc, strings.Join(obsParts, " | "), true)
}

// a -PLUS Auth value is bound to the tls.ConnectionState given to its constructor (mail.Client.auth builds a new value
// with the current state on every dial).  Used on ANOTHER TLS connection it presents the old connection's binding, and a
// conforming server (binding from its own end of the new connection) must reject: the binding is that of the actual
// connection or the exchange fails.  case: stale <mech> <tlsver1> <tlsver2>; oracle only.
func runStale(r *hx.Run, c hx.Case) {
	sp := &spec{mech: c.Args[0], right: true, user: "user", secret: "pencil", salt: []byte("stale-salt"), iter: 2}
	v1, _ := strconv.Atoi(c.Args[1])
	v2, _ := strconv.Atoi(c.Args[2])
	c1, s1, err1 := saslx.NewTLSPair(uint16(v1))
	c2, s2, err2 := saslx.NewTLSPair(uint16(v2))
	if err1 != nil || err2 != nil {
		r.Fail(c.ID, "harness", "tls pair")
		return
	}
	defer c1.Close()
	defer s1.Close()
	defer c2.Close()
	defer s2.Close()
	cst, sst1, sst2 := c1.ConnectionState(), s1.ConnectionState(), s2.ConnectionState()
	a := mkAuth(sp, &cst)
	r.AddOracleOnly(c, true)
	if class, _, _, acc, err := runOnce(sp, a, &sst1); err != nil || class != "OK" || !acc {
		r.Fail(c.ID, "rejected-with-right-credentials", fmt.Sprintf("%s on its own connection: class %s accepted=%v", sp.mech, class, acc))
	}
	class, lines, replies, acc, err := runOnce(sp, a, &sst2)
	if err == nil && (class == "OK" || acc) {
		r.Fail(c.ID, "stale-channel-binding-accepted", fmt.Sprintf("%s: binding of another TLS connection accepted (class %s, reference accepted=%v)", sp.mech, class, acc))
	}
	// the Gallina reference server must reject the same client messages (its channel-binding check)
	if err == nil && len(lines) >= 3 && len(replies) >= 3 {
		cf, ok1 := saslx.UnB64(lines[1])
		cfin, ok2 := saslx.UnB64(lines[2])
		t, d, _ := saslx.ChannelBinding(sst2)
		if ok1 && ok2 {
			o := "!"
			if replies[1].code == 334 {
				sf, _ := saslx.UnB64(replies[1].text)
				o = hx.Hex(sf) + " !"
				if replies[2].code == 334 {
					fin, _ := saslx.UnB64(replies[2].text)
					o = hx.Hex(sf) + " " + hx.Hex(fin)
				}
			}
			r.Add(hx.Case{ID: c.ID + "s", Kind: "srvstale", Args: []string{sp.mech, hx.Hex([]byte(t)), hx.Hex(d), hx.Hex([]byte("c14srv")), "~", hx.Hex([]byte(sp.user)),
				hx.Hex([]byte(sp.secret)), hx.Hex(sp.salt), strconv.Itoa(sp.iter), hx.Hex(cf), hx.Hex(cfin), hx.Hex([]byte(strings.Join(c.Args, " ")))}}, o, true)
		}
	}
}

func runCase(r *hx.Run, c hx.Case) {
	defer func() {
		if p := recover(); p != nil {
			r.Fail(c.ID, "panic", fmt.Sprint(p))
		}
	}()
	switch c.Kind {
	case "x":
		runX(r, c)
	case "xs":
		runXS(r, c)
	case "stale":
		runStale(r, c)
	case "mcd":
		runMCD(r, c)
	case "srvstale":
		runStale(r, hx.Case{ID: strings.TrimSuffix(c.ID, "s"), Kind: "stale", Args: strings.Split(string(hx.UnHex(c.Args[len(c.Args)-1])), " ")})
	case "auth14s":
		runXS(r, hx.Case{ID: c.ID, Kind: "xs", Args: strings.Split(string(hx.UnHex(c.Args[len(c.Args)-1])), " ")})
	case "srv":
		runX(r, hx.Case{ID: strings.TrimSuffix(c.ID, "s"), Kind: "x", Args: strings.Split(string(hx.UnHex(c.Args[len(c.Args)-1])), " ")})
	case "auth14":
		runX(r, hx.Case{ID: c.ID, Kind: "x", Args: strings.Split(string(hx.UnHex(c.Args[len(c.Args)-1])), " ")})
	case "hash":
		m := hx.UnHex(c.Args[1])
		var out []byte
		switch c.Args[0] {
		case "sha1":
			out = saslx.H(saslx.SHA1, m)
		case "sha256":
			out = saslx.H(saslx.SHA256, m)
		default:
			s := md5.Sum(m)
			out = s[:]
		}
		r.Add(c, hx.Hex(out), len(m) > 55)
	case "hmac":
		k, m := hx.UnHex(c.Args[1]), hx.UnHex(c.Args[2])
		var out []byte
		switch c.Args[0] {
		case "sha1":
			out = saslx.HMAC(saslx.SHA1, k, m)
		case "sha256":
			out = saslx.HMAC(saslx.SHA256, k, m)
		default:
			out = saslx.HMAC(saslx.Hash{Name: "MD5", New: md5.New, Size: 16}, k, m)
		}
		r.Add(c, hx.Hex(out), len(k) > 64 || len(m) > 55)
	case "pbkdf2":
		h := hashOf(c.Args[0])
		it, _ := strconv.Atoi(c.Args[3])
		r.Add(c, hx.Hex(saslx.Hi(h, hx.UnHex(c.Args[1]), hx.UnHex(c.Args[2]), it)), it > 1)
	case "esc":
		r.Add(c, hx.Hex([]byte(strings.NewReplacer("=", "=3D", ",", "=2C").Replace(string(hx.UnHex(c.Args[0]))))), true)
	case "unesc":
		if u, ok := saslx.UnescapeName(string(hx.UnHex(c.Args[0]))); ok {
			r.Add(c, hx.Hex([]byte(u)), true)
		} else {
			r.Add(c, "!", true)
		}
	case "atoi":
		if v, err := strconv.Atoi(string(hx.UnHex(c.Args[0]))); err == nil {
			r.Add(c, strconv.Itoa(v), true)
		} else {
			r.Add(c, "!", true)
		}
	case "b64d":
		if b, err := base64.StdEncoding.DecodeString(string(hx.UnHex(c.Args[0]))); err == nil {
			r.Add(c, hx.Hex(b), true)
		} else {
			r.Add(c, "!", true)
		}
	default:
		panic("unknown case kind " + c.Kind)
	}
}

func init() { hx.Register("C14", Run) }

var mechs = []string{"plain", "login", "cram", "xoauth2", "sha1", "sha256", "sha1plus", "sha256plus"}

func genString(r *hx.Run, kind int) string {
	pool := []string{"user", "pencil", "a,b", "x=y", "=", ",", ",=,=", "Jürgen", "пароль", "密码", "a b", " lead", "trail ", "tab\there", "\x7f", "Ⅸ", "é", "user@example.com", "%s%d", "\"q\"", "", "=2C", "=3D"}
	switch kind % 3 {
	case 0:
		return pool[r.Rng.Intn(len(pool))]
	case 1:
		n := 1 + r.Rng.Intn(20)
		b := make([]byte, n)
		for i := range b {
			b[i] = byte(33 + r.Rng.Intn(94))
		}
		return string(b)
	default:
		return pool[r.Rng.Intn(len(pool))] + pool[r.Rng.Intn(len(pool))]
	}
}

func randBytes(r *hx.Run, n int) []byte {
	b := make([]byte, n)
	r.Rng.Read(b)
	return b
}

// Run generates (or replays) the C14 cases.
func Run(r *hx.Run, replay []hx.Case) {
	if err := saslx.SelfTest(); err != nil {
		r.Fail("selftest", "reference-selftest", err.Error())
		return
	}
	if replay != nil {
		for _, c := range replay {
			runCase(r, c)
		}
		return
	}
	thorough := r.Tier == "thorough"
	n := 800
	if thorough {
		n = 12000
	}
	for i := 0; i < n && !r.Expired(); i++ {
		m := mechs[i%len(mechs)]
		if isPlus(m) && !thorough && i%3 != 0 {
			m = mechs[(i/3)%6]
		}
		user, secret := genString(r, i), genString(r, i/3)
		ident := ""
		if m == "plain" && r.Rng.Intn(4) == 0 {
			ident = genString(r, 0)
		}
		right := "1"
		if r.Rng.Intn(3) == 0 {
			right = "0"
		}
		iter := 1 + r.Rng.Intn(64)
		if isScram(m) && !thorough {
			iter = 1 + r.Rng.Intn(8) // model speed; larger counts below, oracle only
		}
		ver := tls.VersionTLS12
		if r.Rng.Intn(2) == 0 {
			ver = tls.VersionTLS13
		}
		retry := "0"
		if r.Rng.Intn(4) == 0 {
			retry = "1"
		}
		// RFC 5802 section 7: the server may append extensions to its first message; "m=" in front is a mandatory extension
		ext, prefix := "", ""
		if isScram(m) {
			ext = []string{"", ",x-ext=1", ",a=b,c=d", ",x=", "", ",z=" + strings.Repeat("y", 40), ",x-ext=1"}[r.Rng.Intn(7)]
			if r.Rng.Intn(12) == 0 {
				prefix = "m=1,"
			}
		}
		runCase(r, hx.Case{ID: r.NewID(), Kind: "x", Args: []string{m, right, hx.Hex([]byte(user)), hx.Hex([]byte(secret)), hx.Hex([]byte(ident)),
			hx.Hex(randBytes(r, 1+r.Rng.Intn(64))), strconv.Itoa(iter), strconv.Itoa(ver), retry, "1", hx.Hex([]byte(ext)), hx.Hex([]byte(prefix)),
			strconv.Itoa([]int{0, i % len(wsVariants)}[i/8%2])}})
	}
	// reuse of one Auth value for 2 and 3 exchanges (new connection each): every mechanism x first exchange(s)
	// {completed, rejected with 535 / 454 at step k, connection dropped at step k, for every step k} x {2, 3 exchanges}
	rounds := 1
	if thorough {
		rounds = 10
	}
	for round := 0; round < rounds && !r.Expired(); round++ {
		for _, m := range mechs {
			type dm struct {
				mode string
				at   int
			}
			ds := []dm{{"ok", 0}}
			for k := 0; k < exSteps[m]; k++ {
				ds = append(ds, dm{"f535", k}, dm{"t454", k}, dm{"drop", k})
			}
			for _, d := range ds {
				for _, n := range []int{2, 3} {
					user, secret := genString(r, 1), genString(r, 1)
					if round%2 == 1 {
						user, secret = genString(r, 0)+"u", genString(r, 0)+"p"
					}
					ver := []int{tls.VersionTLS12, tls.VersionTLS13}[(n+d.at+round)%2]
					varies := []string{"same"}
					if isScram(m) {
						varies = []string{"same", "iter", "salt", "both"}
					}
					for _, vy := range varies {
						if !thorough && vy != "same" && d.mode != "ok" && d.at != 2 {
							continue // quick: the variations after a completed exchange and after one that got past the server-first
						}
						runCase(r, hx.Case{ID: r.NewID(), Kind: "xs", Args: []string{m, hx.Hex([]byte(user)), hx.Hex([]byte(secret)), "~",
							hx.Hex(randBytes(r, 1+r.Rng.Intn(32))), strconv.Itoa(1 + r.Rng.Intn(4)), strconv.Itoa(ver), d.mode, strconv.Itoa(d.at), strconv.Itoa(n), vy}})
					}
				}
			}
		}
	}
	// one mail.Client value, 2 and 3 dials, every auth type, clear / STARTTLS with TLS 1.2 / 1.3, credentials unchanged /
	// changed together with the account / changed to wrong ones
	for _, at := range []string{"plain", "login", "cram", "xoauth2", "sha1", "sha256", "sha1plus", "sha256plus", "auto", "plain-noenc", "login-noenc"} {
		for _, tv := range []string{"0", "12", "13"} {
			noenc := strings.HasSuffix(at, "-noenc")
			if (noenc && tv != "0") || (strings.HasSuffix(at, "plus") && tv == "0") {
				continue
			}
			for _, ch := range []string{"none", "follow", "wrong"} {
				for _, nd := range []string{"2", "3"} {
					if r.Expired() || (!thorough && nd == "3" && ch != "none") {
						continue
					}
					runCase(r, hx.Case{ID: r.NewID(), Kind: "mcd", Args: []string{at, tv, nd, ch, hx.Hex([]byte(genString(r, 1) + "u")), hx.Hex([]byte(genString(r, 1) + "p"))}})
				}
			}
		}
	}
	for _, m := range []string{"sha1plus", "sha256plus"} {
		for _, vv := range [][2]int{{tls.VersionTLS12, tls.VersionTLS12}, {tls.VersionTLS13, tls.VersionTLS13}, {tls.VersionTLS12, tls.VersionTLS13}} {
			runCase(r, hx.Case{ID: r.NewID(), Kind: "stale", Args: []string{m, strconv.Itoa(vv[0]), strconv.Itoa(vv[1])}})
		}
	}
	// realistic and maximal iteration counts: reference server only (the extracted hashes are too slow for them)
	big := []int{64, 1000, 4096, 20000}
	for i := 0; i < 4*len(big) && !r.Expired(); i++ {
		m := []string{"sha1", "sha256", "sha1plus", "sha256plus"}[i%4]
		ver := []int{tls.VersionTLS12, tls.VersionTLS13}[(i/4)%2]
		runCase(r, hx.Case{ID: r.NewID(), Kind: "x", Args: []string{m, b2s(i%3 != 0), hx.Hex([]byte(genString(r, 1))), hx.Hex([]byte(genString(r, 1))), "~",
			hx.Hex(randBytes(r, 16)), strconv.Itoa(big[i/4]), strconv.Itoa(ver), "1", "0"}})
	}
	// the executable crypto and the stdlib pieces of the model against Go
	nc := 150
	if thorough {
		nc = 500
	}
	for i := 0; i < nc && !r.Expired(); i++ {
		h := []string{"sha1", "sha256", "md5"}[i%3]
		ml := []int{0, 1, 55, 56, 63, 64, 65, 119, 120}[i%9] + r.Rng.Intn(3)
		runCase(r, hx.Case{ID: r.NewID(), Kind: "hash", Args: []string{h, hx.Hex(randBytes(r, ml))}})
		kl := []int{0, 1, 20, 63, 64, 65, 100}[i%7]
		runCase(r, hx.Case{ID: r.NewID(), Kind: "hmac", Args: []string{h, hx.Hex(randBytes(r, kl)), hx.Hex(randBytes(r, r.Rng.Intn(130)))}})
		if h != "md5" {
			hl := "20"
			if h == "sha256" {
				hl = "32"
			}
			runCase(r, hx.Case{ID: r.NewID(), Kind: "pbkdf2", Args: []string{h, hx.Hex(randBytes(r, r.Rng.Intn(70))), hx.Hex(randBytes(r, r.Rng.Intn(40))), strconv.Itoa(1 + r.Rng.Intn(6)), hl}})
		}
		runCase(r, hx.Case{ID: r.NewID(), Kind: "esc", Args: []string{hx.Hex([]byte(genString(r, i)))}})
		runCase(r, hx.Case{ID: r.NewID(), Kind: "unesc", Args: []string{hx.Hex([]byte(strings.NewReplacer("=", "=3D", ",", "=2C").Replace(genString(r, i)) + []string{"", "=", "=2", ",", "=3d"}[i%5]))}})
		at := []string{"1", "4096", "+7", "-3", "", "+", "12a", "007", "9223372036854775807", "9223372036854775808", "-9223372036854775808", "1_0", " 1", "99999999999999999999"}[i%14]
		runCase(r, hx.Case{ID: r.NewID(), Kind: "atoi", Args: []string{hx.Hex([]byte(at))}})
		bd := base64.StdEncoding.EncodeToString(randBytes(r, r.Rng.Intn(10)))
		bd = []string{bd, bd + "=", "\r\n" + bd, strings.TrimRight(bd, "="), bd + "QQ==", "Q\nUJD", "QR==", "!!!", "QUJD\r\n"}[i%9]
		runCase(r, hx.Case{ID: r.NewID(), Kind: "b64d", Args: []string{hx.Hex([]byte(bd))}})
	}
}
