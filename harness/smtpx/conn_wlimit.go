package smtpx

import (
	"io"
	"net"
	"os"
	"syscall"
	"time"
)

// LimitWrites makes the peer "stop reading": this end's Write accepts n more bytes and then, like a net.Conn whose
// socket buffers are full, blocks until the write deadline (SetDeadline / SetWriteDeadline) and returns
// os.ErrDeadlineExceeded -- for ever if no deadline is set, until Close -- or, with fail, returns a write error
// (broken pipe) at once.  Add-only: a Conn on which LimitWrites was never called behaves as before.
func (c *Conn) LimitWrites(n int, fail bool) {
	c.mu.Lock()
	c.wlimOn, c.wlimLeft, c.wlimFail = true, n, fail
	c.mu.Unlock()
}

func (c *Conn) writeLimited() bool {
	c.mu.Lock()
	defer c.mu.Unlock()
	return c.wlimOn
}

func (c *Conn) limitedWrite(p []byte, isArmed bool) (int, error) {
	c.mu.Lock()
	n := len(p)
	if n > c.wlimLeft {
		n = c.wlimLeft
	}
	c.wlimLeft -= n
	fail := c.wlimFail
	c.mu.Unlock()
	if n > 0 {
		h := c.wr
		h.mu.Lock()
		if h.rclose || h.wclose {
			h.mu.Unlock()
			c.log(Op{Kind: 'W', Armed: isArmed, Err: "peer closed"})
			return 0, io.ErrClosedPipe
		}
		h.buf = append(h.buf, p[:n]...)
		h.cond.Broadcast()
		h.mu.Unlock()
	}
	if n == len(p) {
		c.log(Op{Kind: 'W', Data: append([]byte(nil), p...), Armed: isArmed})
		return n, nil
	}
	if fail {
		c.log(Op{Kind: 'W', Data: append([]byte(nil), p[:n]...), Armed: isArmed, Err: "broken pipe"})
		return n, &net.OpError{Op: "write", Net: "mem", Err: os.NewSyscallError("write", syscall.EPIPE)}
	}
	for {
		c.mu.Lock()
		closed, dl := c.closed, c.wdl
		c.mu.Unlock()
		if closed {
			c.log(Op{Kind: 'W', Data: append([]byte(nil), p[:n]...), Armed: isArmed, Err: "closed"})
			return n, net.ErrClosed
		}
		if !dl.IsZero() && !time.Now().Before(dl) {
			c.log(Op{Kind: 'W', Data: append([]byte(nil), p[:n]...), Armed: isArmed, Err: "timeout"})
			return n, os.ErrDeadlineExceeded
		}
		time.Sleep(2 * time.Millisecond)
	}
}
