package smtpx

import (
	"bufio"
	"bytes"
	"crypto/tls"
	"encoding/base64"
	"fmt"
	"net"
	"strings"
	"sync"
	"time"
)

// Decision is the server's choice for one command position.  The zero value means
// "behave normally (accept)".  One decision is consumed by the greeting, by every command
// line received, and by every end-of-data; when the script is exhausted all further
// decisions are OK, so a script lists the deviations only.
type Decision struct {
	Kind string // "" or "ok": normal reply; "reply": Code/Text; "drop": close instead of replying; "stall": never reply
	Code int
	Text string // may contain "\n" for multi-line replies
}

func OK() Decision                         { return Decision{} }
func Reply(code int, text string) Decision { return Decision{Kind: "reply", Code: code, Text: text} }
func Drop() Decision                       { return Decision{Kind: "drop"} }
func Stall() Decision                      { return Decision{Kind: "stall"} }

// Raw: send text verbatim (lines separated by "\n", written with CRLF) and close the connection - for
// malformed replies (continuation lines with differing codes, missing final line).
func Raw(text string) Decision { return Decision{Kind: "raw", Text: text} }

// ParseDecision reads the case-file syntax: ok | drop | stall | <code>[:<text with _ for blanks>]
func ParseDecision(s string) Decision {
	switch s {
	case "ok", "":
		return OK()
	case "drop":
		return Drop()
	case "stall":
		return Stall()
	}
	code, text := s, ""
	if i := strings.IndexByte(s, ':'); i >= 0 {
		code, text = s[:i], strings.ReplaceAll(s[i+1:], "_", " ")
	}
	n := 0
	fmt.Sscanf(code, "%d", &n)
	return Reply(n, text)
}

func (d Decision) String() string {
	switch d.Kind {
	case "", "ok":
		return "ok"
	case "drop", "stall":
		return d.Kind
	}
	if d.Text == "" {
		return fmt.Sprintf("%d", d.Code)
	}
	return fmt.Sprintf("%d:%s", d.Code, strings.ReplaceAll(d.Text, " ", "_"))
}

// Event is one command (or data block) the server received, with the reference automaton's verdict.
type Event struct {
	Verb     string // GREETING, EHLO, HELO, STARTTLS, AUTH, MAIL, RCPT, DATA, EOD, RSET, NOOP, QUIT, VRFY, other: UNKNOWN
	Line     string // the raw command line (without CRLF); for EOD: ""
	Arg      string // MAIL/RCPT: the path inside <>, EHLO/HELO: the name
	Params   []string
	Legal    bool
	Why      string // reason when not legal
	Code     int    // reply code sent (0: dropped / stalled)
	Reply    string // full reply text sent
	TLS      bool   // received inside TLS
	Accepted bool   // server state advanced (2yz/3yz)
}

// Commit is a message accepted with a 2yz reply at end-of-data.
type Commit struct {
	From string
	Rcpt []string
	Data []byte // dot-unstuffed content as transmitted (lines CRLF-terminated)
}

// Server is the scripted reference server (RFC 5321 section 4.1.4 state machine).
type Server struct {
	Hostname     string
	Caps         []string // EHLO keywords (with parameters), e.g. "8BITMIME", "AUTH PLAIN LOGIN", "STARTTLS"
	CapsAfterTLS []string // if non-nil, advertised after STARTTLS instead of Caps
	Script       []Decision
	TLSConfig    *tls.Config // for STARTTLS / implicit TLS
	ImplicitTLS  bool
	NoHELO       bool // reject HELO/EHLO is done through the script; NoHELO unused
	// StepAuth (default false = the behaviour described above): every client line of an AUTH exchange (the AUTH
	// command and each continuation line) consumes one decision of the script, see server_stepauth.go
	StepAuth bool
	// OnWriteStall (default nil = no effect): called when the DATA position carries a decision of kind "stallwrite" /
	// "failwrite" (Code = number of further bytes the client may write), before the 354 is sent; the harness makes the
	// client's connection stall or fail its writes from there (Conn.LimitWrites) -- "the server stops reading"
	OnWriteStall func(n int, fail bool)

	mu      sync.Mutex
	Trace   []Event
	Commits []Commit
	// Accepted: like Commits, but recorded at the moment the server decides to accept at end-of-data - also when
	// the reply can no longer be delivered because the client has closed the connection (Commits needs the reply
	// to be written).  Added for sendx; Commits is unchanged.
	Accepted []Commit
	SawEOF  bool   // the client closed the connection (server read EOF)
	ReadErr string // other read error
	Done    chan struct{}
	pos     int
	conn    net.Conn
	// ForcedStop is set by Finish when the dialogue had to be torn down by the harness because
	// the client neither closed the connection nor continued the dialogue.
	ForcedStop bool
}

// Finish waits for the dialogue to end; if it has not ended after d the server side is closed
// by force (the client left the connection open) and ForcedStop is set.
func (s *Server) Finish(d time.Duration) {
	select {
	case <-s.Done:
		return
	case <-time.After(d):
	}
	s.mu.Lock()
	s.ForcedStop = true
	c := s.conn
	s.mu.Unlock()
	if c != nil {
		c.Close()
	}
	<-s.Done
}

// NewServer returns a server with the usual capability set.
func NewServer(caps []string, script []Decision) *Server {
	return &Server{Hostname: "verif.test", Caps: caps, Script: script, Done: make(chan struct{})}
}

func (s *Server) next() Decision {
	s.mu.Lock()
	defer s.mu.Unlock()
	if s.pos < len(s.Script) {
		d := s.Script[s.pos]
		s.pos++
		return d
	}
	s.pos++
	return OK()
}

// Consumed is the number of decisions consumed so far (= command positions seen).
func (s *Server) Consumed() int { s.mu.Lock(); defer s.mu.Unlock(); return s.pos }

func (s *Server) record(e Event) {
	s.mu.Lock()
	s.Trace = append(s.Trace, e)
	s.mu.Unlock()
}

// Snapshot returns copies of the trace and the commit log.
func (s *Server) Snapshot() ([]Event, []Commit) {
	s.mu.Lock()
	defer s.mu.Unlock()
	return append([]Event(nil), s.Trace...), append([]Commit(nil), s.Commits...)
}

type session struct {
	helo     bool
	esmtp    bool
	ext      map[string]bool
	txn      int // 0 idle, 1 MAIL accepted, 2 >=1 RCPT accepted
	from     string
	rcpt     []string
	rejected int // RCPT rejected in this transaction
	tls      bool
	authed   bool
}

func okClass(code int) bool { return code >= 200 && code < 400 }

func defaultReply(verb string, s *Server, sess *session) (int, string) {
	switch verb {
	case "GREETING":
		return 220, s.Hostname + " ESMTP verif"
	case "EHLO":
		caps := s.Caps
		if sess.tls && s.CapsAfterTLS != nil {
			caps = s.CapsAfterTLS
		}
		return 250, strings.Join(append([]string{s.Hostname}, caps...), "\n")
	case "HELO":
		return 250, s.Hostname
	case "MAIL":
		return 250, "2.1.0 Ok"
	case "RCPT":
		return 250, "2.1.5 Ok"
	case "DATA":
		return 354, "End data with <CR><LF>.<CR><LF>"
	case "EOD":
		return 250, "2.0.0 Ok: queued"
	case "RSET", "NOOP":
		return 250, "2.0.0 Ok"
	case "QUIT":
		return 221, "2.0.0 Bye"
	case "STARTTLS":
		return 220, "2.0.0 Ready to start TLS"
	case "AUTH":
		return 235, "2.7.0 Authentication successful"
	}
	return 500, "5.5.2 Error: command not recognized"
}

func formatReply(code int, text string) string {
	lines := strings.Split(text, "\n")
	var b strings.Builder
	for i, l := range lines {
		sep := "-"
		if i == len(lines)-1 {
			sep = " "
		}
		fmt.Fprintf(&b, "%03d%s%s\r\n", code, sep, l)
	}
	return b.String()
}

func parsePath(rest string) (path string, params []string, ok bool) {
	// rest = "<path> param param"
	rest = strings.TrimSpace(rest)
	if !strings.HasPrefix(rest, "<") {
		return "", nil, false
	}
	// the path may contain a quoted string with '>' inside
	inq := false
	end := -1
	for i := 1; i < len(rest); i++ {
		ch := rest[i]
		if inq {
			if ch == '\\' {
				i++
			} else if ch == '"' {
				inq = false
			}
			continue
		}
		if ch == '"' {
			inq = true
		} else if ch == '>' {
			end = i
			break
		}
	}
	if end < 0 {
		return "", nil, false
	}
	path = rest[1:end]
	tail := strings.TrimSpace(rest[end+1:])
	if tail != "" {
		params = strings.Fields(tail)
	}
	return path, params, true
}

// Serve runs the dialogue on conn until the connection ends.
func (s *Server) Serve(conn net.Conn) {
	defer close(s.Done)
	defer conn.Close()
	s.mu.Lock()
	s.conn = conn
	s.mu.Unlock()
	sess := &session{ext: map[string]bool{}}
	if s.ImplicitTLS {
		tc := tls.Server(conn, s.TLSConfig)
		if err := tc.Handshake(); err != nil {
			s.mu.Lock()
			s.ReadErr = "tls handshake: " + err.Error()
			s.mu.Unlock()
			return
		}
		conn = tc
		sess.tls = true
	}
	br := bufio.NewReader(conn)
	var eodData []byte // the content of the DATA block whose end-of-data is being answered
	send := func(e *Event, verb string, d Decision) bool {
		code, text := defaultReply(verb, s, sess)
		switch d.Kind {
		case "drop":
			s.record(*e)
			return false
		case "raw":
			// a malformed reply: Text is written verbatim (LF -> CRLF), then the connection is closed.  For the
			// dialogue this is a drop (Code 0) - the bytes are what a client must not choke on.
			e.Reply = strings.ReplaceAll(d.Text, "\n", "\r\n")
			s.record(*e)
			_, _ = conn.Write([]byte(e.Reply))
			return false
		case "stall":
			s.record(*e)
			// hold the connection open silently until the client goes away
			buf := make([]byte, 4096)
			for {
				if _, err := conn.Read(buf); err != nil {
					s.mu.Lock()
					s.SawEOF = true
					s.mu.Unlock()
					return false
				}
			}
		case "reply":
			code = d.Code
			if d.Text != "" {
				text = d.Text
			} else if !okClass(code) {
				text = "rejected"
			}
			if verb == "EHLO" && okClass(code) && d.Text == "" {
				_, text = defaultReply(verb, s, sess)
			}
		}
		e.Code = code
		e.Reply = formatReply(code, text)
		e.Accepted = okClass(code)
		if verb == "DATA" {
			e.Accepted = code >= 300 && code < 400
		}
		s.record(*e)
		if verb == "EOD" && e.Accepted {
			// the server has accepted the message now, whether or not the client is still there to read the reply
			s.mu.Lock()
			s.Accepted = append(s.Accepted, Commit{From: sess.from, Rcpt: append([]string(nil), sess.rcpt...), Data: append([]byte(nil), eodData...)})
			s.mu.Unlock()
		}
		if _, err := conn.Write([]byte(e.Reply)); err != nil {
			return false
		}
		return true
	}

	// greeting
	ge := Event{Verb: "GREETING", Legal: true, TLS: sess.tls}
	if !send(&ge, "GREETING", s.next()) {
		return
	}
	if ge.Code != 220 {
		// RFC 5321: after a 554 greeting the server waits for QUIT; keep serving
	}
	for {
		line, err := br.ReadString('\n')
		if err != nil {
			s.mu.Lock()
			if len(line) == 0 {
				s.SawEOF = true
			} else {
				s.ReadErr = "partial line: " + line
			}
			s.mu.Unlock()
			return
		}
		raw := strings.TrimRight(line, "\r\n")
		e := Event{Line: raw, TLS: sess.tls, Legal: true}
		if !strings.HasSuffix(line, "\r\n") {
			e.Legal, e.Why = false, "command line not terminated by CRLF"
		}
		if strings.ContainsAny(raw, "\r\n") {
			e.Legal, e.Why = false, "bare CR/LF inside command line"
		}
		up := strings.ToUpper(raw)
		verb := "UNKNOWN"
		switch {
		case strings.HasPrefix(up, "EHLO"):
			verb = "EHLO"
		case strings.HasPrefix(up, "HELO"):
			verb = "HELO"
		case strings.HasPrefix(up, "MAIL FROM:"):
			verb = "MAIL"
		case strings.HasPrefix(up, "RCPT TO:"):
			verb = "RCPT"
		case up == "DATA":
			verb = "DATA"
		case up == "RSET":
			verb = "RSET"
		case up == "NOOP":
			verb = "NOOP"
		case up == "QUIT":
			verb = "QUIT"
		case up == "STARTTLS":
			verb = "STARTTLS"
		case strings.HasPrefix(up, "AUTH "):
			verb = "AUTH"
		case up == "*":
			verb = "ABORT"
		}
		e.Verb = verb
		illegal := func(why string) {
			if e.Legal {
				e.Legal, e.Why = false, why
			}
		}
		d := s.next()
		switch verb {
		case "EHLO", "HELO":
			e.Arg = strings.TrimSpace(raw[4:])
			if e.Arg == "" || strings.ContainsAny(e.Arg, " \t") {
				illegal("HELO/EHLO argument is not a single domain token")
			}
			if !send(&e, verb, d) {
				return
			}
			if e.Accepted {
				sess.helo = true
				sess.txn, sess.rcpt, sess.rejected = 0, nil, 0
				sess.ext = map[string]bool{}
				sess.esmtp = verb == "EHLO"
				if verb == "EHLO" {
					for i, l := range strings.Split(strings.TrimRight(e.Reply, "\r\n"), "\r\n") {
						if i == 0 || len(l) < 4 {
							continue
						}
						kw := strings.ToUpper(strings.Fields(l[4:] + " ")[0])
						sess.ext[kw] = true
					}
				}
			}
		case "STARTTLS":
			if !sess.ext["STARTTLS"] {
				illegal("STARTTLS not advertised")
			}
			if sess.tls {
				illegal("STARTTLS inside TLS")
			}
			if !send(&e, verb, d) {
				return
			}
			if e.Code == 220 {
				if s.TLSConfig == nil {
					return
				}
				tc := tls.Server(conn, s.TLSConfig)
				if err := tc.Handshake(); err != nil {
					s.mu.Lock()
					s.ReadErr = "tls handshake: " + err.Error()
					s.mu.Unlock()
					return
				}
				conn = tc
				br = bufio.NewReader(conn)
				sess = &session{ext: map[string]bool{}, tls: true}
			}
		case "AUTH":
			if !sess.ext["AUTH"] {
				illegal("AUTH not advertised")
			}
			if sess.txn != 0 {
				illegal("AUTH inside a mail transaction")
			}
			if sess.authed {
				illegal("AUTH after successful AUTH")
			}
			f := strings.Fields(raw)
			mech := ""
			if len(f) > 1 {
				mech = strings.ToUpper(f[1])
			}
			e.Arg = mech
			if len(f) > 2 {
				e.Params = f[2:]
			}
			// LOGIN and initial-response-less PLAIN need intermediate challenges
			steps := 0
			if mech == "LOGIN" {
				steps = 2
				if len(f) > 2 {
					steps = 1
				}
			} else if mech == "PLAIN" && len(f) == 2 {
				steps = 1
			} else if mech == "CRAM-MD5" {
				steps = 1
			}
			if s.StepAuth {
				// add-only extension (server_stepauth.go): one decision per client line of the AUTH exchange
				if !s.stepAuth(conn, br, &e, d, steps, mech, len(f) > 2, func(ev *Event, dd Decision) bool { return send(ev, "AUTH", dd) }) {
					return
				}
				if e.Code == 235 {
					sess.authed = true
				}
				continue
			}
			if (d.Kind == "" || d.Kind == "ok" || (d.Kind == "reply" && okClass(d.Code))) && steps > 0 {
				prompts := []string{"VXNlcm5hbWU6", "UGFzc3dvcmQ6"}
				if mech == "LOGIN" && len(f) > 2 {
					prompts = prompts[1:]
				}
				if mech == "PLAIN" {
					prompts = []string{""}
				}
				if mech == "CRAM-MD5" {
					prompts = []string{base64.StdEncoding.EncodeToString([]byte("<1896.697170952@verif.test>"))}
				}
				for i := 0; i < steps; i++ {
					if _, err := conn.Write([]byte("334 " + prompts[i] + "\r\n")); err != nil {
						return
					}
					resp, err := br.ReadString('\n')
					if err != nil {
						s.mu.Lock()
						s.SawEOF = true
						s.mu.Unlock()
						return
					}
					e.Params = append(e.Params, strings.TrimRight(resp, "\r\n"))
				}
			}
			if !send(&e, verb, d) {
				return
			}
			if e.Code == 235 {
				sess.authed = true
			}
		case "MAIL":
			if !sess.helo {
				illegal("MAIL before HELO/EHLO")
			}
			if sess.txn != 0 {
				illegal("MAIL inside an open transaction (nested MAIL)")
			}
			path, params, ok := parsePath(raw[len("MAIL FROM:"):])
			if !ok {
				illegal("MAIL FROM: reverse-path syntax")
			}
			e.Arg, e.Params = path, params
			for _, p := range params {
				kw := strings.ToUpper(strings.SplitN(p, "=", 2)[0])
				need := map[string]string{"BODY": "8BITMIME", "SMTPUTF8": "SMTPUTF8", "RET": "DSN", "ENVID": "DSN", "SIZE": "SIZE", "AUTH": "AUTH"}[kw]
				if need == "" {
					illegal("unknown MAIL parameter " + kw)
				} else if !sess.ext[need] {
					illegal("MAIL parameter " + kw + " without " + need + " in the latest EHLO reply")
				}
			}
			if !send(&e, verb, d) {
				return
			}
			if e.Accepted {
				sess.txn, sess.from, sess.rcpt, sess.rejected = 1, path, nil, 0
			}
		case "RCPT":
			if sess.txn == 0 {
				illegal("RCPT without an accepted MAIL")
			}
			path, params, ok := parsePath(raw[len("RCPT TO:"):])
			if !ok {
				illegal("RCPT TO: forward-path syntax")
			}
			e.Arg, e.Params = path, params
			for _, p := range params {
				kw := strings.ToUpper(strings.SplitN(p, "=", 2)[0])
				if kw != "NOTIFY" && kw != "ORCPT" {
					illegal("unknown RCPT parameter " + kw)
				} else if !sess.ext["DSN"] {
					illegal("RCPT parameter " + kw + " without DSN in the latest EHLO reply")
				}
			}
			if !send(&e, verb, d) {
				return
			}
			if sess.txn != 0 {
				if e.Accepted {
					sess.txn = 2
					sess.rcpt = append(sess.rcpt, path)
				} else {
					sess.rejected++
				}
			}
		case "DATA":
			if sess.txn != 2 {
				illegal("DATA without an accepted recipient")
			}
			if sess.rejected > 0 {
				illegal("DATA although a recipient of this message was rejected")
			}
			if (d.Kind == "stallwrite" || d.Kind == "failwrite") && s.OnWriteStall != nil {
				s.OnWriteStall(d.Code, d.Kind == "failwrite") // add-only hook; the reply is the normal 354
			}
			if !send(&e, verb, d) {
				return
			}
			if e.Code == 354 {
				// data mode
				var data bytes.Buffer
				for {
					dl, err := br.ReadString('\n')
					if err != nil {
						s.mu.Lock()
						s.SawEOF = true
						s.mu.Unlock()
						s.record(Event{Verb: "EOD-MISSING", Legal: true, TLS: sess.tls, Line: fmt.Sprintf("%d bytes of unterminated content", data.Len()+len(dl))})
						return
					}
					if dl == ".\r\n" {
						break
					}
					if strings.HasPrefix(dl, ".") {
						dl = dl[1:]
					}
					data.WriteString(dl)
				}
				ee := Event{Verb: "EOD", TLS: sess.tls, Legal: true}
				eodData = data.Bytes()
				if !send(&ee, "EOD", s.next()) {
					return
				}
				if ee.Accepted {
					s.mu.Lock()
					s.Commits = append(s.Commits, Commit{From: sess.from, Rcpt: append([]string(nil), sess.rcpt...), Data: append([]byte(nil), data.Bytes()...)})
					s.mu.Unlock()
				}
				sess.txn, sess.rcpt, sess.rejected = 0, nil, 0
			}
		case "RSET":
			if !send(&e, verb, d) {
				return
			}
			if e.Accepted {
				sess.txn, sess.rcpt, sess.rejected = 0, nil, 0
			}
		case "NOOP":
			if !send(&e, verb, d) {
				return
			}
		case "QUIT":
			if !send(&e, verb, d) {
				return
			}
			if e.Code == 221 {
				return
			}
		default:
			illegal("unknown command")
			if !send(&e, verb, d) {
				return
			}
		}
	}
}

// Transcript renders the trace compactly: "VERB arg [params] -> code" per event, "!" marks illegal events.
func Transcript(tr []Event) []string {
	out := make([]string, 0, len(tr))
	for _, e := range tr {
		s := e.Verb
		if e.Arg != "" {
			s += " " + e.Arg
		}
		if len(e.Params) > 0 && e.Verb != "AUTH" {
			s += " [" + strings.Join(e.Params, " ") + "]"
		}
		s += fmt.Sprintf(" -> %d", e.Code)
		if !e.Legal {
			s += " !" + e.Why
		}
		out = append(out, s)
	}
	return out
}

// SnapshotAccepted returns a copy of the messages accepted at end-of-data (see Server.Accepted).
func (s *Server) SnapshotAccepted() []Commit {
	s.mu.Lock()
	defer s.mu.Unlock()
	return append([]Commit(nil), s.Accepted...)
}
