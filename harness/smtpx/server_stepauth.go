package smtpx

import (
	"bufio"
	"encoding/base64"
	"net"
	"strings"
)

// EmptyChallenge as the Text of a Reply(334, ...) decision sends the empty challenge "334 " (StepAuth mode only).
const EmptyChallenge = "\x00empty"

// stepAuth runs one AUTH exchange in StepAuth mode: every client line of the exchange -- the AUTH command (decision d)
// and each continuation line -- consumes one decision of the script:
//
//	ok                 the normal next thing: the mechanism's next 334 prompt if one is left (LOGIN: 2, 1 with an
//	                   initial response; PLAIN without initial response: 1; CRAM-MD5: 1), otherwise the final 235
//	Reply(334, text)   a challenge (text "" = the default AUTH text, which is not base64; EmptyChallenge = ""); it takes
//	                   the place of a prompt; the exchange goes on
//	Reply(other code)  the final reply of the exchange
//	drop / stall       as everywhere
//
// The exchange is recorded as ONE event (verb AUTH, Arg = mechanism, Params = the continuation lines) when it ends.
// Returns false when the connection is over.
func (s *Server) stepAuth(conn net.Conn, br *bufio.Reader, e *Event, d Decision, steps int, mech string, hasIR bool, final func(*Event, Decision) bool) bool {
	prompts := []string{"VXNlcm5hbWU6", "UGFzc3dvcmQ6"}
	if mech == "LOGIN" && hasIR {
		prompts = prompts[1:]
	}
	if mech == "PLAIN" {
		prompts = []string{""}
	}
	if mech == "CRAM-MD5" {
		prompts = []string{base64.StdEncoding.EncodeToString([]byte("<1896.697170952@verif.test>"))}
	}
	if steps > len(prompts) {
		steps = len(prompts)
	}
	for {
		challenge := ""
		switch {
		case (d.Kind == "" || d.Kind == "ok") && steps > 0:
			challenge = prompts[len(prompts)-steps]
			steps--
		case d.Kind == "reply" && d.Code == 334:
			switch d.Text {
			case "":
				_, challenge = defaultReply("AUTH", s, nil)
			case EmptyChallenge:
				challenge = ""
			default:
				challenge = d.Text
			}
			if steps > 0 {
				steps--
			}
		default:
			return final(e, d)
		}
		if _, err := conn.Write([]byte("334 " + challenge + "\r\n")); err != nil {
			return false
		}
		resp, err := br.ReadString('\n')
		if err != nil {
			s.mu.Lock()
			s.SawEOF = true
			s.mu.Unlock()
			return false
		}
		e.Params = append(e.Params, strings.TrimRight(resp, "\r\n"))
		d = s.next()
	}
}
