// Package smtpx: in-memory transport and scripted RFC 5321 reference server shared by the
// SMTP-dialogue property harnesses (C03 C04 C05 C06 C07 C13 C17 C19 C20).
package smtpx

import (
	"io"
	"net"
	"os"
	"sync"
	"time"
)

// half is one direction of the duplex connection: an unbounded buffer.
type half struct {
	mu     sync.Mutex
	cond   *sync.Cond
	buf    []byte
	wclose bool // the writing side closed: reader sees EOF after draining
	rclose bool // the reading side closed: writes fail
}

func newHalf() *half { h := &half{}; h.cond = sync.NewCond(&h.mu); return h }

// Op is one operation of the client side in program order (the deterministic observable
// used for "in step" and "deadline armed" analyses).
type Op struct {
	Kind  byte   // 'W' write, 'R' read, 'C' close, 'D' SetDeadline/SetReadDeadline
	Data  []byte // W: bytes written; R: bytes returned
	Armed bool   // R/W: a non-zero deadline lying in the future was set when the call started
	Err   string // R/W: error text ("" = none)
	Zero  bool   // D: the deadline was cleared (zero time)
	Dir   byte   // D: which deadline: 'B' SetDeadline, 'R' SetReadDeadline, 'W' SetWriteDeadline (add-only field)
}

// Conn is one end of a buffered in-memory duplex connection with deadline support.
// Writes never block; a write after the peer closed fails deterministically.
type Conn struct {
	rd, wr *half
	name   string

	mu        sync.Mutex
	rdl, wdl  time.Time
	closed    bool
	track     bool
	ops       []Op
	closes    int
	deadlines int
	// write-side stall / failure (add-only, see LimitWrites in conn_wlimit.go); off by default
	wlimOn   bool
	wlimLeft int
	wlimFail bool
}

// NewPair returns the two ends; the client end records its operations.
func NewPair() (client, server *Conn) {
	a, b := newHalf(), newHalf()
	client = &Conn{rd: a, wr: b, name: "client", track: true}
	server = &Conn{rd: b, wr: a, name: "server"}
	return
}

type addr string

func (a addr) Network() string { return "mem" }
func (a addr) String() string  { return string(a) }

func (c *Conn) LocalAddr() net.Addr  { return addr(c.name) }
func (c *Conn) RemoteAddr() net.Addr { return addr("peer-of-" + c.name) }

func (c *Conn) log(op Op) {
	if c.track {
		c.mu.Lock()
		c.ops = append(c.ops, op)
		c.mu.Unlock()
	}
}

func (c *Conn) armed(t time.Time) bool { return !t.IsZero() && t.After(time.Now()) }

func (c *Conn) Read(p []byte) (int, error) {
	c.mu.Lock()
	dl := c.rdl
	closed := c.closed
	c.mu.Unlock()
	isArmed := c.armed(dl)
	if closed {
		c.log(Op{Kind: 'R', Armed: isArmed, Err: "closed"})
		return 0, net.ErrClosed
	}
	h := c.rd
	h.mu.Lock()
	var timer *time.Timer
	if !dl.IsZero() {
		d := time.Until(dl)
		if d < 0 {
			d = 0
		}
		timer = time.AfterFunc(d, func() { h.mu.Lock(); h.cond.Broadcast(); h.mu.Unlock() })
		defer timer.Stop()
	}
	for len(h.buf) == 0 && !h.wclose && !h.rclose {
		if !dl.IsZero() && !time.Now().Before(dl) {
			h.mu.Unlock()
			c.log(Op{Kind: 'R', Armed: isArmed, Err: "timeout"})
			return 0, os.ErrDeadlineExceeded
		}
		h.cond.Wait()
	}
	if h.rclose {
		h.mu.Unlock()
		c.log(Op{Kind: 'R', Armed: isArmed, Err: "closed"})
		return 0, net.ErrClosed
	}
	if len(h.buf) == 0 {
		h.mu.Unlock()
		c.log(Op{Kind: 'R', Armed: isArmed, Err: "EOF"})
		return 0, io.EOF
	}
	n := copy(p, h.buf)
	h.buf = h.buf[n:]
	h.mu.Unlock()
	c.log(Op{Kind: 'R', Data: append([]byte(nil), p[:n]...), Armed: isArmed})
	return n, nil
}

func (c *Conn) Write(p []byte) (int, error) {
	c.mu.Lock()
	closed := c.closed
	isArmed := c.armed(c.wdl)
	c.mu.Unlock()
	if closed {
		c.log(Op{Kind: 'W', Armed: isArmed, Err: "closed"})
		return 0, net.ErrClosed
	}
	if c.writeLimited() {
		return c.limitedWrite(p, isArmed)
	}
	h := c.wr
	h.mu.Lock()
	if h.rclose || h.wclose {
		h.mu.Unlock()
		c.log(Op{Kind: 'W', Armed: isArmed, Err: "peer closed"})
		return 0, io.ErrClosedPipe
	}
	h.buf = append(h.buf, p...)
	h.cond.Broadcast()
	h.mu.Unlock()
	c.log(Op{Kind: 'W', Data: append([]byte(nil), p...), Armed: isArmed})
	return len(p), nil
}

func (c *Conn) Close() error {
	c.mu.Lock()
	already := c.closed
	c.closed = true
	c.closes++
	c.mu.Unlock()
	c.log(Op{Kind: 'C'})
	if already {
		return net.ErrClosed
	}
	c.wr.mu.Lock()
	c.wr.wclose = true
	c.wr.cond.Broadcast()
	c.wr.mu.Unlock()
	c.rd.mu.Lock()
	c.rd.rclose = true
	c.rd.cond.Broadcast()
	c.rd.mu.Unlock()
	return nil
}

func (c *Conn) SetDeadline(t time.Time) error {
	c.mu.Lock()
	c.rdl, c.wdl = t, t
	c.deadlines++
	c.mu.Unlock()
	c.log(Op{Kind: 'D', Zero: t.IsZero(), Dir: 'B'})
	c.rd.mu.Lock()
	c.rd.cond.Broadcast()
	c.rd.mu.Unlock()
	return nil
}

func (c *Conn) SetReadDeadline(t time.Time) error {
	c.mu.Lock()
	c.rdl = t
	c.deadlines++
	c.mu.Unlock()
	c.log(Op{Kind: 'D', Zero: t.IsZero(), Dir: 'R'})
	c.rd.mu.Lock()
	c.rd.cond.Broadcast()
	c.rd.mu.Unlock()
	return nil
}

func (c *Conn) SetWriteDeadline(t time.Time) error {
	c.mu.Lock()
	c.wdl = t
	c.deadlines++
	c.mu.Unlock()
	c.log(Op{Kind: 'D', Zero: t.IsZero(), Dir: 'W'})
	return nil
}

// Ops returns a copy of the recorded operations.
func (c *Conn) Ops() []Op {
	c.mu.Lock()
	defer c.mu.Unlock()
	return append([]Op(nil), c.ops...)
}

// Closed reports whether Close was called on this end, and how often.
func (c *Conn) Closed() (bool, int) {
	c.mu.Lock()
	defer c.mu.Unlock()
	return c.closed, c.closes
}

// DeadlineCalls is the number of Set*Deadline calls.
func (c *Conn) DeadlineCalls() int {
	c.mu.Lock()
	defer c.mu.Unlock()
	return c.deadlines
}

// Written concatenates everything written on this end (the byte-exact tap).
func (c *Conn) Written() []byte {
	var out []byte
	for _, op := range c.Ops() {
		if op.Kind == 'W' {
			out = append(out, op.Data...)
		}
	}
	return out
}
