package smtpx

import (
	"context"
	"net"
	"strings"
)

// Dialer hands go-mail the client end of a fresh in-memory connection served by srv.
// Use with mail.WithDialContextFunc(d.Dial).
type Dialer struct {
	Srv    *Server
	Client *Conn // set by Dial: the tracked client end
	Dials  int
}

func (d *Dialer) Dial(ctx context.Context, network, address string) (net.Conn, error) {
	c, s := NewPair()
	d.Client = c
	d.Dials++
	go d.Srv.Serve(s)
	return c, nil
}

// InStep analyses the client's operation log (cleartext sessions): every command line and
// every end-of-data must be followed by at least one successful read before the next command
// is written.  Returns the offending writes.
func InStep(ops []Op) []string {
	var bad []string
	inData := false
	awaiting := "" // command written whose reply has not been read yet
	var pending []byte
	for _, op := range ops {
		switch op.Kind {
		case 'R':
			if len(op.Data) > 0 {
				awaiting = ""
			}
		case 'W':
			if op.Err != "" {
				continue
			}
			pending = append(pending, op.Data...)
			for {
				i := strings.Index(string(pending), "\r\n")
				if i < 0 {
					break
				}
				line := string(pending[:i])
				pending = pending[i+2:]
				if inData {
					if line == "." {
						inData = false
						awaiting = "end-of-data"
					}
					continue
				}
				if awaiting != "" {
					bad = append(bad, "wrote "+quote(line)+" before reading the reply to "+quote(awaiting))
				}
				awaiting = line
				if strings.EqualFold(line, "DATA") {
					// data mode starts once the 354 has been read; content lines follow after a read
					inData = false
				}
			}
		}
		// DATA: after the reply to DATA was read, subsequent writes are content
		if op.Kind == 'R' && len(op.Data) >= 3 && string(op.Data[:3]) == "354" {
			inData = true
		}
	}
	return bad
}

func quote(s string) string {
	if len(s) > 40 {
		s = s[:40] + "..."
	}
	return "\"" + s + "\""
}
