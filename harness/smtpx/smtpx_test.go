package smtpx

import (
	"context"
	"errors"
	"io"
	"strings"
	"testing"
	"time"

	mail "github.com/wneessen/go-mail"
)

func newMsg(t *testing.T, from, to, body string) *mail.Msg {
	m := mail.NewMsg()
	if err := m.From(from); err != nil {
		t.Fatal(err)
	}
	if err := m.To(to); err != nil {
		t.Fatal(err)
	}
	m.Subject("s")
	m.SetBodyString(mail.TypeTextPlain, body)
	return m
}

func TestAllOK(t *testing.T) {
	srv := NewServer([]string{"8BITMIME", "DSN", "ENHANCEDSTATUSCODES"}, nil)
	d := &Dialer{Srv: srv}
	c, err := mail.NewClient("verif.test", mail.WithTLSPolicy(mail.NoTLS), mail.WithDialContextFunc(d.Dial), mail.WithTimeout(2*time.Second))
	if err != nil {
		t.Fatal(err)
	}
	if err := c.DialAndSendWithContext(context.Background(), newMsg(t, "a@x.test", "b@y.test", "hello"), newMsg(t, "c@x.test", "d@y.test", "world")); err != nil {
		t.Fatal(err)
	}
	srv.Finish(300 * time.Millisecond)
	tr, commits := srv.Snapshot()
	t.Log(strings.Join(Transcript(tr), "\n"))
	if len(commits) != 2 {
		t.Fatalf("commits: %d", len(commits))
	}
	for _, e := range tr {
		if !e.Legal {
			t.Errorf("illegal: %s %s", e.Line, e.Why)
		}
	}
	if bad := InStep(d.Client.Ops()); len(bad) > 0 {
		t.Errorf("out of step: %v", bad)
	}
	closed, n := d.Client.Closed()
	t.Logf("closed=%v closes=%d deadlines=%d sawEOF=%v", closed, n, d.Client.DeadlineCalls(), srv.SawEOF)
}

func TestRenderFailure(t *testing.T) {
	srv := NewServer([]string{"8BITMIME"}, nil)
	d := &Dialer{Srv: srv}
	c, _ := mail.NewClient("verif.test", mail.WithTLSPolicy(mail.NoTLS), mail.WithDialContextFunc(d.Dial), mail.WithTimeout(2*time.Second))
	m := newMsg(t, "a@x.test", "b@y.test", "hello")
	m.SetBodyWriter(mail.TypeTextPlain, func(w io.Writer) (int64, error) {
		w.Write([]byte("partial content"))
		return 15, errors.New("producer failed")
	})
	m2 := newMsg(t, "c@x.test", "d@y.test", "second")
	err := c.DialAndSendWithContext(context.Background(), m, m2)
	t.Log("err:", err)
	srv.Finish(300 * time.Millisecond)
	tr, commits := srv.Snapshot()
	t.Log(strings.Join(Transcript(tr), "\n"))
	closed, _ := d.Client.Closed()
	t.Logf("forced=%v clientClosed=%v", srv.ForcedStop, closed)
	t.Logf("commits=%d delivered1=%v delivered2=%v outofstep=%v", len(commits), m.IsDelivered(), m2.IsDelivered(), InStep(d.Client.Ops()))
}

func TestDataReject(t *testing.T) {
	srv := NewServer([]string{"8BITMIME"}, []Decision{OK(), OK(), OK(), OK(), OK(), Reply(554, "no")})
	d := &Dialer{Srv: srv}
	c, _ := mail.NewClient("verif.test", mail.WithTLSPolicy(mail.NoTLS), mail.WithDialContextFunc(d.Dial), mail.WithTimeout(2*time.Second))
	err := c.DialAndSendWithContext(context.Background(), newMsg(t, "a@x.test", "b@y.test", "hello"), newMsg(t, "c@x.test", "d@y.test", "world"))
	t.Log("err:", err)
	srv.Finish(300 * time.Millisecond)
	tr, commits := srv.Snapshot()
	t.Log(strings.Join(Transcript(tr), "\n"))
	t.Logf("commits=%d", len(commits))
}
