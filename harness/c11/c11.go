// Package c11: rendering is repeatable and all output paths agree (C11).
package c11

import (
	"bufio"
	"bytes"
	"context"
	"crypto/ecdsa"
	"crypto/elliptic"
	crand "crypto/rand"
	"crypto/x509"
	"crypto/x509/pkix"
	"embed"
	"fmt"
	"io"
	"math/big"
	"os"
	"path/filepath"
	"strings"
	"time"

	mail "github.com/wneessen/go-mail"
	"verif/harness/bytex"
	"verif/harness/cmsx"
	"verif/harness/hx"
	"verif/harness/mimeread"
	"verif/harness/smtpx"
)

func init() { hx.Register("C11", Run) }

//go:embed testdata/embedded.txt
var embFS embed.FS

type shape struct {
	name   string
	spec   bytex.MsgSpec
	extra  func(m *mail.Msg, dir string) error // file sources outside the spec (fs, read-seeker, templates): oracle-only shapes
	model  bool                                // the spec describes the whole message (model-comparable)
	signed bool                                // S/MIME-signed: renders are compared by their signed entity
}

var (
	signKey  *ecdsa.PrivateKey
	signCert *x509.Certificate
)

func signer() (*ecdsa.PrivateKey, *x509.Certificate, error) {
	if signKey != nil {
		return signKey, signCert, nil
	}
	k, err := ecdsa.GenerateKey(elliptic.P256(), crand.Reader)
	if err != nil {
		return nil, nil, err
	}
	now := time.Now()
	t := &x509.Certificate{SerialNumber: big.NewInt(7), Subject: pkix.Name{CommonName: "c11 signer"}, NotBefore: now.Add(-time.Hour),
		NotAfter: now.Add(240 * time.Hour), KeyUsage: x509.KeyUsageDigitalSignature, EmailAddresses: []string{"from@x.test"}}
	der, err := x509.CreateCertificate(crand.Reader, t, t, &k.PublicKey, k)
	if err != nil {
		return nil, nil, err
	}
	c, err := x509.ParseCertificate(der)
	if err != nil {
		return nil, nil, err
	}
	signKey, signCert = k, c
	return k, c, nil
}

// the signed entity of a multipart/signed rendering, after checking that the detached signature in the
// same rendering is a signature over exactly that entity
func signedEntity(out []byte) ([]byte, error) {
	ent, err := mimeread.Read(out)
	if err != nil {
		return nil, err
	}
	if ent.MediaType != "multipart/signed" {
		return nil, fmt.Errorf("top level is %s, not multipart/signed", ent.MediaType)
	}
	raw, err := mimeread.SplitMultipart(ent.Raw, ent.Boundary)
	if err != nil || len(raw) != 2 || len(ent.Kids) != 2 {
		return nil, fmt.Errorf("multipart/signed with %d parts (%v)", len(raw), err)
	}
	if _, err := cmsx.Verify(ent.Kids[1].Body, raw[0]); err != nil {
		return nil, fmt.Errorf("the signature is not over the entity in the message: %v", err)
	}
	return raw[0], nil
}

func prod(s string) bytex.Producer { return bytex.Producer{Chunks: [][]byte{[]byte(s)}} }

func shapes() []shape {
	txt := "Hello W\xc3\xb6rld = 1\r\nsecond line \r\n.dot\r\n"
	html := "<p>Hello</p>\r\n"
	bin := "\x00\x01binary\xff data long enough for more than one base64 line: 0123456789012345678901234567890123456789"
	base := func() bytex.MsgSpec {
		return bytex.MsgSpec{From: "from@x.test", To: []string{"to@y.test"},
			Gen: []bytex.KV{{K: "Subject", V: []string{"repeatable rendering"}},
				// multi-valued headers with empty values in every position, and a value that needs encoding
				{K: "Keywords", V: []string{"alpha", "", "omega"}}, {K: "X-Multi", V: []string{"", "na\xc3\xafve", "", "last"}},
				{K: "X-Empty-Last", V: []string{"one", "two", ""}}}}
	}
	P := func(ct, enc, content string) bytex.PartSpec {
		return bytex.PartSpec{CType: ct, Enc: enc, Prod: prod(content)}
	}
	F := func(name, enc, desc, content string) bytex.FileSpec {
		return bytex.FileSpec{Name: name, Enc: enc, Desc: desc, Prod: prod(content)}
	}
	var out []shape
	add := func(name string, f func(s *bytex.MsgSpec)) {
		s := base()
		f(&s)
		out = append(out, shape{name: name, spec: s, model: true})
	}
	add("plain", func(s *bytex.MsgSpec) { s.Parts = []bytex.PartSpec{P("text/plain", "", txt)} })
	add("alt-attach", func(s *bytex.MsgSpec) {
		s.Parts = []bytex.PartSpec{P("text/plain", "", txt), P("text/html", "base64", html)}
		s.Attach = []bytex.FileSpec{F("a.bin", "", "desc", bin)}
	})
	add("file-8bit", func(s *bytex.MsgSpec) {
		s.Parts = []bytex.PartSpec{P("text/plain", "", txt)}
		s.Attach = []bytex.FileSpec{F("plain.txt", "8bit", "", "eight bit file\r\n"), F("b.bin", "base64", "", bin)}
	})
	add("embed-attach", func(s *bytex.MsgSpec) {
		s.Parts = []bytex.PartSpec{P("text/plain", "8bit", txt), P("text/html", "", html)}
		s.Embeds = []bytex.FileSpec{F("logo.png", "", "", bin)}
		s.Attach = []bytex.FileSpec{F("doc.pdf", "", "", bin)}
	})
	add("nonascii-ids", func(s *bytex.MsgSpec) {
		// embeds whose default Content-ID (= the name) and explicit Content-ID are not ASCII: what the first render
		// caches in File.Header must be a fixpoint
		s.Parts = []bytex.PartSpec{P("text/html", "", "<p>html</p>\r\n")}
		e1 := F("gr\xc3\xbc\xc3\x9fe.png", "", "", bin)
		e2 := F("logo.png", "", "Beschreibung \xc3\xa4\xc3\xb6", bin)
		e2.CID = "kennung-\xc3\xa4\xc3\xb6\xc3\xbc@x.test"
		s.Embeds = []bytex.FileSpec{e1, e2}
		a1 := F("\xc3\xbcbersicht \xe2\x82\xac.pdf", "", "", bin)
		a1.CID = "<anlage-\xc3\xa9@x.test>"
		s.Attach = []bytex.FileSpec{a1}
	})
	add("attach-only", func(s *bytex.MsgSpec) { s.Attach = []bytex.FileSpec{F("only.bin", "8bit", "d", "x\r\n")} })
	add("embed-only", func(s *bytex.MsgSpec) { s.Embeds = []bytex.FileSpec{F("e.png", "", "", bin)} })
	add("preformatted", func(s *bytex.MsgSpec) {
		s.Pre = []bytex.KV{{K: "X-C", V: []string{"c"}}, {K: "X-A", V: []string{"a"}}, {K: "X-B", V: []string{"b"}}, {K: "X-D", V: []string{"d"}}}
		s.Parts = []bytex.PartSpec{P("text/plain", "", txt)}
	})
	add("no-date-set", func(s *bytex.MsgSpec) { s.Parts = []bytex.PartSpec{P("text/plain", "", txt)} })
	// a producer that can be switched to fail (op "P" toggles it): a failed render through any path
	// followed by successful ones; oracle only
	out = append(out, shape{name: "flaky-producer", spec: func() bytex.MsgSpec {
		s := base()
		s.Parts = []bytex.PartSpec{P("text/plain", "", txt)}
		s.Attach = []bytex.FileSpec{F("a.bin", "", "", bin)}
		return s
	}(), extra: func(m *mail.Msg, dir string) error {
		att := m.GetAttachments()
		orig := att[0].Writer
		att[0].Writer = func(w io.Writer) (int64, error) {
			if flakyFail {
				return 0, fmt.Errorf("verif: source temporarily unavailable")
			}
			return orig(w)
		}
		return nil
	}})
	// file sources beyond in-memory producers: oracle only (stability of the real sources)
	out = append(out, shape{name: "sources", spec: func() bytex.MsgSpec {
		s := base()
		s.Parts = []bytex.PartSpec{P("text/plain", "", txt)}
		return s
	}(), extra: func(m *mail.Msg, dir string) error {
		fn := filepath.Join(dir, "fsfile.txt")
		if err := os.WriteFile(fn, []byte("file system file\r\n"), 0o644); err != nil {
			return err
		}
		m.AttachFile(fn, mail.WithFileEncoding(mail.NoEncoding))
		if err := m.AttachReader("reader.bin", strings.NewReader(bin)); err != nil {
			return err
		}
		m.AttachReadSeeker("seeker.bin", bytes.NewReader([]byte(bin)))
		if err := m.EmbedFromEmbedFS("testdata/embedded.txt", &embFS); err != nil {
			return err
		}
		m.EmbedReadSeeker("seek.png", bytes.NewReader([]byte(bin)), mail.WithFileEncoding(mail.NoEncoding))
		// a read-seeker the caller has already read from: its content is what follows the current position,
		// on every render
		pos := bytes.NewReader([]byte("SKIPPED-PREFIX:" + bin))
		if _, err := pos.Seek(int64(len("SKIPPED-PREFIX:")), io.SeekStart); err != nil {
			return err
		}
		m.AttachReadSeeker("positioned.bin", pos)
		// plain readers the caller has already read from (AttachReader / EmbedReader take what is left, once):
		// a *bytes.Reader, a *strings.Reader and a *bufio.Reader at a non-zero position
		br := bytes.NewReader([]byte("CONSUMED-PREFIX:" + bin))
		if _, err := br.Seek(int64(len("CONSUMED-PREFIX:")), io.SeekStart); err != nil {
			return err
		}
		if err := m.AttachReader("consumed-bytes-reader.bin", br); err != nil {
			return err
		}
		sr := strings.NewReader("CONSUMED-PREFIX:" + bin)
		if _, err := io.CopyN(io.Discard, sr, int64(len("CONSUMED-PREFIX:"))); err != nil {
			return err
		}
		if err := m.EmbedReader("consumed-strings-reader.bin", sr); err != nil {
			return err
		}
		bu := bufio.NewReader(strings.NewReader("CONSUMED-PREFIX:" + bin))
		if _, err := bu.Discard(len("CONSUMED-PREFIX:")); err != nil {
			return err
		}
		if err := m.AttachReader("consumed-bufio-reader.bin", bu); err != nil {
			return err
		}
		// sources large enough that a failing destination stops the copy in the middle of the source
		big := bytes.Repeat([]byte("0123456789abcdef"), 300)
		m.AttachReadSeeker("big-seeker.bin", bytes.NewReader(big))
		if err := m.AttachReader("big-reader.bin", bytes.NewReader(big)); err != nil {
			return err
		}
		bf := filepath.Join(dir, "bigfile.bin")
		if err := os.WriteFile(bf, big, 0o644); err != nil {
			return err
		}
		fh, err := os.Open(bf)
		if err != nil {
			return err
		}
		m.AttachReadSeeker("big-osfile.bin", fh)
		return nil
	}})
	// S/MIME-signed messages: every render carries the same signed entity, and the signature in each render is
	// one over that entity; with a producer that can be switched to fail (the failure then happens inside the
	// pre-render of the signing step)
	sign := func(m *mail.Msg, dir string) error {
		k, c, err := signer()
		if err != nil {
			return err
		}
		return m.SignWithKeypair(k, c, nil)
	}
	out = append(out, shape{name: "signed", signed: true, spec: func() bytex.MsgSpec {
		s := base()
		s.Parts = []bytex.PartSpec{P("text/plain", "", txt), P("text/html", "base64", html)}
		s.Attach = []bytex.FileSpec{F("a.bin", "", "desc", bin)}
		s.Embeds = []bytex.FileSpec{F("logo.png", "", "", bin)}
		return s
	}(), extra: sign})
	out = append(out, shape{name: "signed-flaky", signed: true, spec: func() bytex.MsgSpec {
		s := base()
		s.Parts = []bytex.PartSpec{P("text/plain", "", txt)}
		s.Attach = []bytex.FileSpec{F("a.bin", "", "", bin)}
		return s
	}(), extra: func(m *mail.Msg, dir string) error {
		att := m.GetAttachments()
		orig := att[0].Writer
		att[0].Writer = func(w io.Writer) (int64, error) {
			if flakyFail {
				return 0, fmt.Errorf("verif: source temporarily unavailable")
			}
			return orig(w)
		}
		return sign(m, dir)
	}})
	return out
}

var flakyFail bool

type failWriter struct{ k int }

func (f *failWriter) Write(p []byte) (int, error) {
	if len(p) <= f.k {
		f.k -= len(p)
		return len(p), nil
	}
	n := f.k
	f.k = 0
	return n, io.ErrClosedPipe
}

// one render through the given path; returns the bytes (nil, false if the op is a failing one)
func renderOp(m *mail.Msg, op string, dir string, rd **mail.Reader) ([]byte, bool, error) {
	switch op[0] {
	case 'W':
		var b bytes.Buffer
		_, err := m.WriteTo(&b)
		return b.Bytes(), true, err
	case 'w':
		var b bytes.Buffer
		_, err := m.Write(&b)
		return b.Bytes(), true, err
	case 'X':
		var b bytes.Buffer
		_, err := m.WriteToSkipMiddleware(&b, "none")
		return b.Bytes(), true, err
	case 'R', 'U':
		if op[0] == 'R' || *rd == nil {
			*rd = m.NewReader()
		} else {
			m.UpdateReader(*rd)
		}
		// drain with varying buffer sizes
		var out []byte
		sizes := []int{1, 7, 64, 1000, 3}
		for i := 0; ; i++ {
			buf := make([]byte, sizes[i%len(sizes)])
			n, err := (*rd).Read(buf)
			out = append(out, buf[:n]...)
			if err == io.EOF {
				break
			}
			if err != nil {
				return out, true, err
			}
			if i > 1000000 {
				return out, true, fmt.Errorf("reader does not terminate")
			}
		}
		return out, true, nil
	case 'F':
		fn := filepath.Join(dir, "out.eml")
		if err := m.WriteToFile(fn); err != nil {
			return nil, true, err
		}
		b, err := os.ReadFile(fn)
		return b, true, err
	case 'T':
		fn, err := m.WriteToTempFile()
		if err != nil {
			return nil, true, err
		}
		defer os.Remove(fn)
		b, err := os.ReadFile(fn)
		return b, true, err
	case 'S':
		srv := smtpx.NewServer([]string{"8BITMIME", "SMTPUTF8"}, nil)
		d := &smtpx.Dialer{Srv: srv}
		c, err := mail.NewClient("verif.test", mail.WithTLSPolicy(mail.NoTLS), mail.WithDialContextFunc(d.Dial), mail.WithTimeout(3*time.Second))
		if err != nil {
			return nil, true, err
		}
		err = c.DialAndSendWithContext(context.Background(), m)
		srv.Finish(500 * time.Millisecond)
		_, commits := srv.Snapshot()
		if err != nil {
			return nil, true, err
		}
		if len(commits) != 1 {
			return nil, true, fmt.Errorf("server committed %d messages", len(commits))
		}
		return commits[0].Data, true, nil
	case 'e':
		// an edit between renders: e<kind>:<hex args>
		f := strings.Split(op, ":")
		switch {
		case f[0] == "eS" && len(f) == 2:
			m.Subject(string(hx.UnHex(f[1])))
		case f[0] == "eA" && len(f) == 4:
			pr := bytex.Producer{Chunks: [][]byte{hx.UnHex(f[3])}}
			m.AddAlternativeWriter(mail.ContentType(hx.UnHex(f[1])), pr.Write, mail.WithPartEncoding(mail.Encoding(f[2])))
		case f[0] == "eT" && len(f) == 4:
			if err := m.AttachReader(string(hx.UnHex(f[1])), bytes.NewReader(hx.UnHex(f[3]))); err != nil {
				return nil, false, err
			}
		default:
			return nil, false, fmt.Errorf("bad edit op %q", op)
		}
		return nil, false, nil
	case 'P':
		flakyFail = !flakyFail
		return nil, false, nil
	case 'K':
		var k int
		fmt.Sscanf(op[1:], "%d", &k)
		_, _ = m.WriteTo(&failWriter{k: k})
		return nil, false, nil
	}
	return nil, false, fmt.Errorf("unknown op %q", op)
}

// the content the dot-writer transmits ends in CRLF (it completes an unterminated last line)
func sendCanon(b []byte) []byte {
	if !bytes.HasSuffix(b, []byte("\r\n")) {
		return append(append([]byte(nil), b...), '\r', '\n')
	}
	return b
}

// case args: <shape index> <ops comma separated> <spec (model shapes) or ->
func runCase(r *hx.Run, c hx.Case, sh []shape) {
	var si int
	fmt.Sscanf(c.Args[0], "%d", &si)
	if si < 0 || si >= len(sh) {
		r.Fail(c.ID, "bad-replay", "shape index")
		return
	}
	s := sh[si]
	ops := strings.Split(c.Args[1], ",")
	_ = os.MkdirAll(r.Dir, 0o755)
	dir, err := os.MkdirTemp(r.Dir, "c11-")
	if err != nil {
		r.Fail(c.ID, "harness", err.Error())
		return
	}
	defer os.RemoveAll(dir)
	bytex.ResetRand()
	flakyFail = false
	m, err := s.spec.Build()
	if err != nil {
		r.Fail(c.ID, "harness-build", err.Error())
		return
	}
	if s.extra != nil {
		if err := s.extra(m, dir); err != nil {
			r.Fail(c.ID, "harness-build", err.Error())
			return
		}
	}
	var first []byte
	have := false
	var outs [][]byte
	var rd *mail.Reader
	class := "history-" + s.name
	func() {
		defer func() {
			if p := recover(); p != nil {
				r.Fail(c.ID, "panic-"+s.name, fmt.Sprint(p))
			}
		}()
		for i, op := range ops {
			b, isRender, err := renderOp(m, op, dir, &rd)
			if !isRender {
				if err != nil {
					r.Fail(c.ID, "harness-edit", err.Error())
					return
				}
				if op[0] == 'e' {
					have = false // the edited message: the next render is the new reference
				}
				continue
			}
			if flakyFail {
				if err == nil {
					r.Fail(c.ID, "failed-render-not-reported-"+s.name, fmt.Sprintf("op %d (%s): producer failed but the render reported success", i, op))
				}
				continue
			}
			if err != nil {
				r.Fail(c.ID, "render-error-"+s.name, fmt.Sprintf("op %d (%s): %v", i, op, err))
				return
			}
			if s.signed {
				e, serr := signedEntity(b)
				if serr != nil {
					r.Fail(c.ID, "signed-"+s.name, fmt.Sprintf("op %d (%s): %v", i, op, serr))
					return
				}
				if !have {
					first, have = e, true
				} else if !bytes.Equal(e, first) {
					r.Fail(c.ID, class, fmt.Sprintf("op %d (%s): signed entity differs from the first render: %s", i, op, firstDiff(first, e)))
				}
				continue
			}
			cmp := b
			if op[0] == 'S' {
				// what the server committed is the rendering with a final CRLF
				if have {
					if !bytes.Equal(b, sendCanon(first)) {
						r.Fail(c.ID, class, fmt.Sprintf("op %d (%s) differs from the first render: %s", i, op, firstDiff(sendCanon(first), b)))
					}
					outs = append(outs, b)
					continue
				}
			}
			if op[0] == 'S' {
				// first render of the (edited) message through Send: the reference is what was rendered; the
				// committed data is that with a final CRLF
				outs = append(outs, b)
				first, have = b, true
				continue
			}
			if !have {
				first, have = cmp, true
			} else if !bytes.Equal(cmp, first) {
				r.Fail(c.ID, class, fmt.Sprintf("op %d (%s) differs from the first render: %s", i, op, firstDiff(first, cmp)))
			}
			outs = append(outs, cmp)
		}
	}()
	nontrivial := len(ops) >= 2
	if s.model {
		r.Add(c, hx.HexList(outs), nontrivial)
	} else {
		r.AddOracleOnly(c, nontrivial)
	}
}

func firstDiff(a, b []byte) string {
	i := 0
	for i < len(a) && i < len(b) && a[i] == b[i] {
		i++
	}
	lo := i - 30
	if lo < 0 {
		lo = 0
	}
	ha, hb := i+40, i+40
	if ha > len(a) {
		ha = len(a)
	}
	if hb > len(b) {
		hb = len(b)
	}
	return fmt.Sprintf("at offset %d: %q vs %q (lengths %d / %d)", i, a[lo:ha], b[lo:hb], len(a), len(b))
}

func mkSpec(s shape) string {
	if !s.model {
		return "-"
	}
	bytex.ResetRand()
	m, err := s.spec.Build()
	if err != nil {
		panic(err)
	}
	return bytex.Describe(m, &s.spec, [3]string{}, bytex.DrawnBoundaries(0, 40))
}

func Run(r *hx.Run, replay []hx.Case) {
	sh := shapes()
	if replay != nil {
		for _, c := range replay {
			if len(c.Args) < 3 {
				r.Fail(c.ID, "bad-replay", "case needs 3 arguments")
				continue
			}
			runCase(r, c, sh)
		}
		return
	}
	alphabet := []string{"W", "w", "R", "U", "F", "T", "S", "X", "K0", "K50", "K333", "K700"}
	n := 40
	if r.Tier == "thorough" {
		n = 1500
	}
	for si, s := range sh {
		spec := mkSpec(s)
		// fixed histories first: every single path twice, and a failed render followed by successful ones
		fixed := [][]string{{"W", "W"}, {"W", "w", "R", "U", "F"}, {"W", "T", "S", "W"}, {"K50", "W", "W"}, {"K333", "W", "K700", "W"}, {"R", "U", "U"}, {"S", "W"}, {"W", "X", "W"}}
		if s.name == "flaky-producer" || s.name == "signed-flaky" {
			fixed = append(fixed, []string{"W", "R", "P", "U", "P", "U", "W"}, []string{"P", "R", "P", "U", "W"}, []string{"W", "P", "W", "F", "T", "S", "P", "W", "R", "U"},
				[]string{"R", "P", "U", "U", "P", "U", "U"})
		}
		if s.name == "sources" {
			// a destination that fails in the middle of each large source (the copy from the source stops half-way)
			for _, k := range []int{3000, 4500, 6000, 9000, 11000, 13000, 16000, 18000, 20000, 22500} {
				fixed = append(fixed, []string{fmt.Sprintf("K%d", k), "W", "W"}, []string{"W", fmt.Sprintf("K%d", k), "R", "W"})
			}
		}
		if s.extra == nil {
			eS := "eS:" + hx.Hex([]byte("edited subject \xc3\xa4"))
			eA := "eA:" + hx.Hex([]byte("text/x-added")) + ":base64:" + hx.Hex([]byte("added alternative\r\n"))
			eT := "eT:" + hx.Hex([]byte("added.bin")) + ":" + hx.Hex([]byte("application/octet-stream")) + ":" + hx.Hex([]byte("added attachment data"))
			fixed = append(fixed, []string{"W", eS, "W", "R"}, []string{"W", eA, "F", "W"}, []string{"R", eT, "U", "W", "S"},
				[]string{"K50", eS, eA, eT, "W", "w", "T"}, []string{"W", eT, "K333", eA, "W", "X"})
		}
		if s.signed {
			// WriteToSkipMiddleware is not one of the property's render paths and does not sign (it writes the
			// unsigned message): signed histories use the other paths
			for i := range fixed {
				for j := range fixed[i] {
					if fixed[i][j] == "X" {
						fixed[i][j] = "w"
					}
				}
			}
		}
		for _, h := range fixed {
			runCase(r, hx.Case{ID: r.NewID(), Kind: "history", Args: []string{fmt.Sprint(si), strings.Join(h, ","), spec}}, sh)
		}
		for i := 0; i < n && !r.Expired(); i++ {
			l := 2 + r.Rng.Intn(4)
			h := make([]string, l)
			for j := range h {
				h[j] = alphabet[r.Rng.Intn(len(alphabet))]
				if (s.name == "flaky-producer" || s.name == "signed-flaky") && r.Rng.Intn(4) == 0 {
					h[j] = "P"
				}
				if s.signed && h[j] == "X" {
					h[j] = "F"
				}
				if s.extra == nil && r.Rng.Intn(6) == 0 {
					switch r.Rng.Intn(3) {
					case 0:
						h[j] = "eS:" + hx.Hex([]byte(fmt.Sprintf("subject %d", r.Rng.Intn(1000))))
					case 1:
						h[j] = "eA:" + hx.Hex([]byte("text/x-added")) + ":" + []string{"base64", "quoted-printable", "8bit"}[r.Rng.Intn(3)] + ":" + hx.Hex([]byte(fmt.Sprintf("alternative %d\r\n", r.Rng.Intn(1000))))
					default:
						h[j] = "eT:" + hx.Hex([]byte(fmt.Sprintf("added%d.bin", r.Rng.Intn(10)))) + ":" + hx.Hex([]byte("application/octet-stream")) + ":" + hx.Hex([]byte(fmt.Sprintf("data %d", r.Rng.Intn(1000))))
					}
				}
				if h[j][0] == 'K' && r.Rng.Intn(2) == 0 {
					h[j] = fmt.Sprintf("K%d", r.Rng.Intn(1500))
					if s.name == "sources" || r.Rng.Intn(4) == 0 {
						h[j] = fmt.Sprintf("K%d", r.Rng.Intn(24000))
					}
				}
			}
			// each history is repeated to expose map-order variation
			for rep := 0; rep < 2; rep++ {
				runCase(r, hx.Case{ID: r.NewID(), Kind: "history", Args: []string{fmt.Sprint(si), strings.Join(h, ","), spec}}, sh)
			}
		}
	}
}
