// Package c02: no caller-supplied text can alter the header block (C02).
package c02

import (
	"bytes"
	"fmt"
	"io"
	"mime"
	"net/mail"
	"regexp"
	"sort"
	"strings"
	"unicode/utf8"

	gomail "github.com/wneessen/go-mail"
	"verif/harness/bytex"
	"verif/harness/hx"
)

func init() { hx.Register("C02", Run) }

var setters = []string{"subject", "gen", "org", "ua", "msgid", "fname", "ename", "fdesc", "edesc", "pdesc", "pdesc2", "cid", "acid", "dispname", "uaonly", "xmonly",
	// the setters that take the display name as an argument of its own and do the formatting themselves
	"fromfmt", "tofmt", "ccfmt", "replyfmt", "mdnfmt"}

// the header field and the address a *Format setter's display name ends up with
var fmtField = map[string][2]string{"fromfmt": {"From", "fmt@x.test"}, "tofmt": {"To", "fmt@x.test"}, "ccfmt": {"Cc", "fmt@x.test"},
	"replyfmt": {"Reply-To", "fmt@x.test"}, "mdnfmt": {"Disposition-Notification-To", "fmt@x.test"}, "dispname": {"From", "from@x.test"}}

// build the message for a (setter, value) pair; wordB selects the B word encoder
// msgEnc is the message-level encoding of the case in progress when it is neither quoted-printable nor base64
// ("8bit", "7bit": the header word encoder then falls back to Q); "" otherwise.
var msgEnc string

func build(setter string, val string, wordB bool) (*gomail.Msg, *bytex.MsgSpec, error) {
	s := &bytex.MsgSpec{From: "from@x.test", To: []string{"to@y.test"}}
	if wordB {
		s.Enc = "base64"
	} else if msgEnc != "" {
		s.Enc = msgEnc
	}
	txt := bytex.Producer{Chunks: [][]byte{[]byte("plain body\r\n")}}
	html := bytex.Producer{Chunks: [][]byte{[]byte("<p>html body</p>\r\n")}}
	data := bytex.Producer{Chunks: [][]byte{[]byte("file data")}}
	s.Parts = []bytex.PartSpec{{CType: "text/plain", Prod: txt}, {CType: "text/html", Prod: html}}
	s.Embeds = []bytex.FileSpec{{Name: "logo.png", Prod: data}}
	s.Attach = []bytex.FileSpec{{Name: "doc.txt", Prod: data}}
	switch setter {
	case "subject":
		s.Gen = append(s.Gen, bytex.KV{K: "Subject", V: []string{val}})
	case "gen":
		s.Gen = append(s.Gen, bytex.KV{K: "X-Custom-Header", V: []string{val, "second value"}})
	case "org":
		s.Gen = append(s.Gen, bytex.KV{K: "Organization", V: []string{val}})
	case "ua":
		s.Gen = append(s.Gen, bytex.KV{K: "User-Agent", V: []string{val}}, bytex.KV{K: "X-Mailer", V: []string{val}})
	case "uaonly":
		// only one of the two fields is set by the caller (generic setter): it must stay what it is and the other
		// one must not appear
		s.Gen = append(s.Gen, bytex.KV{K: "User-Agent", V: []string{val}})
	case "xmonly":
		s.Gen = append(s.Gen, bytex.KV{K: "X-Mailer", V: []string{val}})
	case "msgid":
		s.Gen = append(s.Gen, bytex.KV{K: "Message-ID", V: []string{"<" + val + ">"}})
	case "fname":
		s.Attach[0].Name = val
	case "ename":
		s.Embeds[0].Name = val
	case "fdesc":
		s.Attach[0].Desc = val
	case "edesc":
		s.Embeds[0].Desc = val
	case "pdesc":
		s.Parts[1].Desc = val
	case "pdesc2":
		// the description is changed with Part.SetDescription after the message has been rendered once
		s.Parts[1].Desc = "initial description \xc3\xa4"
	case "cid":
		s.Embeds[0].CID = val
	case "acid":
		s.Attach[0].CID = val
	case "dispname":
		a := mail.Address{Name: val, Address: "from@x.test"}
		s.From = a.String()
	}
	bytex.ResetRand()
	m, err := s.Build()
	if err != nil {
		return m, s, err
	}
	switch setter {
	case "fromfmt":
		err = m.FromFormat(val, fmtField[setter][1])
	case "tofmt":
		err = m.AddToFormat(val, fmtField[setter][1])
	case "ccfmt":
		err = m.AddCcFormat(val, fmtField[setter][1])
	case "replyfmt":
		err = m.ReplyToFormat(val, fmtField[setter][1])
	case "mdnfmt":
		err = m.RequestMDNAddToFormat(val, fmtField[setter][1])
		s.Gen = append(s.Gen, bytex.KV{K: "Disposition-Notification-To"}) // for Describe: read the stored value back
	case "pdesc2":
		if _, werr := m.WriteTo(io.Discard); werr != nil {
			return m, s, werr
		}
		ps := m.GetParts()
		if len(ps) < 2 {
			return m, s, fmt.Errorf("verif: message has %d parts", len(ps))
		}
		ps[1].SetDescription(val)
		s.Parts[1].Desc = val
	}
	return m, s, err
}

// strict RFC 5322 field parser for one header section: returns the field names in order and the
// unfolded values; any violation is reported as an error string.
func parseSection(sec []byte) (names []string, values []string, problem string) {
	lines := bytes.Split(sec, []byte("\r\n"))
	if len(lines) > 0 && len(lines[len(lines)-1]) == 0 {
		lines = lines[:len(lines)-1]
	}
	for _, l := range lines {
		if bytes.ContainsAny(l, "\r\n") {
			return nil, nil, "bare CR or LF inside a header line"
		}
		for _, b := range l {
			if b == 0 || b > 126 || (b < 32 && b != '\t') {
				return nil, nil, fmt.Sprintf("non-printable byte 0x%02x in header line", b)
			}
		}
		if len(l) == 0 {
			return nil, nil, "premature end of headers (empty line inside the section)"
		}
		if l[0] == ' ' || l[0] == '\t' {
			if len(names) == 0 {
				return nil, nil, "continuation line before any field"
			}
			values[len(values)-1] += string(l)
			continue
		}
		i := bytes.IndexByte(l, ':')
		if i <= 0 {
			return nil, nil, fmt.Sprintf("line is neither a field nor a continuation: %q", l)
		}
		name := string(l[:i])
		for _, b := range []byte(name) {
			if b <= 32 || b >= 127 {
				return nil, nil, fmt.Sprintf("illegal field name %q", name)
			}
		}
		names = append(names, name)
		values = append(values, strings.TrimPrefix(string(l[i+1:]), " "))
	}
	return names, values, ""
}

// sections splits a rendered message into its header sections: top level and one per MIME part.
func sections(out []byte) [][]byte {
	var secs [][]byte
	i := bytes.Index(out, []byte("\r\n\r\n"))
	if i < 0 {
		return [][]byte{out}
	}
	secs = append(secs, out[:i+2])
	rest := out[i+4:]
	for {
		j := bytes.Index(rest, []byte("--"))
		if j < 0 {
			break
		}
		// a delimiter line starts at the beginning of a line
		if j > 0 && rest[j-1] != '\n' {
			rest = rest[j+2:]
			continue
		}
		e := bytes.Index(rest[j:], []byte("\r\n"))
		if e < 0 {
			break
		}
		line := rest[j : j+e]
		rest = rest[j+e+2:]
		if bytes.HasSuffix(line, []byte("--")) {
			continue // closing delimiter
		}
		k := bytes.Index(rest, []byte("\r\n\r\n"))
		if k < 0 {
			secs = append(secs, rest)
			break
		}
		secs = append(secs, rest[:k+2])
		rest = rest[k+4:]
	}
	return secs
}

var dec = new(mime.WordDecoder)

var lookalike = regexp.MustCompile(`=\?[^?\s]+\?[bBqQ]\?[^?\s]*\?=`)

func isPrintableASCII(s string) bool {
	for i := 0; i < len(s); i++ {
		if (s[i] < 32 || s[i] > 126) && s[i] != '\t' {
			return false
		}
	}
	return true
}

// qBackslashName: the names for which net/mail.Address.String() produces a Q encoded-word with a raw backslash:
// the name needs encoding (a byte outside printable ASCII), contains a backslash and none of the characters for
// which Address.String() switches to B-encoding.
func qBackslashName(name string) bool {
	needs := false
	for i := 0; i < len(name); i++ {
		if name[i] >= 0x7f || (name[i] < 0x20 && name[i] != '\t') {
			needs = true
		}
	}
	return needs && strings.Contains(name, "\\") && !strings.ContainsAny(name, "\"#$%&'(),.:;<>@[]^`{|}~")
}

func wsNorm(s string) string { return strings.Join(strings.Fields(s), " ") }

func sanitizeName(s string) string {
	b := []byte(s)
	for i := range b {
		c := b[i]
		if c < 32 || c == 34 || c == 47 || c == 58 || c == 60 || c == 62 || c == 63 || c == 92 || c == 124 || c == 127 {
			b[i] = '_'
		}
	}
	return string(b)
}

var topAllowed = map[string]bool{"Date": true, "Message-ID": true, "MIME-Version": true, "User-Agent": true, "X-Mailer": true,
	"Subject": true, "X-Custom-Header": true, "Organization": true, "From": true, "To": true, "Content-Type": true,
	"Cc": true, "Reply-To": true, "Disposition-Notification-To": true}
var partAllowed = map[string]bool{"Content-Type": true, "Content-Transfer-Encoding": true, "Content-Description": true,
	"Content-Disposition": true, "Content-Id": true}

func runCase(r *hx.Run, c hx.Case) {
	setter := c.Args[0]
	val := string(hx.UnHex(c.Args[1]))
	wordB := c.Args[2] == "b"
	msgEnc = map[string]string{"n": "8bit", "7": "7bit"}[c.Args[2]]
	defer func() { msgEnc = "" }()
	m, s, err := build(setter, val, wordB)
	if err != nil {
		// the setter rejected the value: allowed by the property
		r.Dist["rejected-by-setter"]++
		r.AddOracleOnly(c, true)
		return
	}
	if c.Kind == "wordenc" {
		// stored (encoded) subject value vs the model's word encoder
		m2 := gomail.NewMsg()
		if wordB {
			m2 = gomail.NewMsg(gomail.WithEncoding(gomail.EncodingB64))
		} else if msgEnc != "" {
			m2 = gomail.NewMsg(gomail.WithEncoding(gomail.Encoding(msgEnc)))
		}
		m2.Subject(val)
		got := m2.GetGenHeader(gomail.HeaderSubject)
		r.Add(c, hx.Hex([]byte(got[0])), true)
		return
	}
	sink := &bytex.Sink{K: -1}
	_, werr, pan := bytex.SafeWriteTo(m, sink)
	if pan != nil {
		r.Fail(c.ID, "panic", fmt.Sprint(pan))
		r.AddOracleOnly(c, true)
		return
	}
	if werr != nil {
		r.Fail(c.ID, "render-error", werr.Error())
		r.AddOracleOnly(c, true)
		return
	}
	out := sink.Accepted
	// model comparison: exact bytes from the message state before the render
	bytex.ResetRand()
	setter0 := setter
	if setter == "pdesc2" {
		// what the first render cached (Date, Message-ID, boundaries) is fixed / drawn alike: the render after the
		// change equals the first render of the message that had the description from the start
		setter0 = "pdesc"
	}
	m0, s0, _ := build(setter0, val, wordB)
	spec := bytex.Describe(m0, s0, [3]string{}, bytex.DrawnBoundaries(0, 4))
	_ = s
	cc := hx.Case{ID: c.ID, Kind: "render", Args: []string{spec, "inf", c.Args[0], c.Args[1], c.Args[2]}}
	r.Add(cc, fmt.Sprintf("ok %d %s", len(out), hx.Hex(out)), true)

	// direct oracle
	for si, sec := range sections(out) {
		names, values, problem := parseSection(sec)
		where := "top-level"
		allowed := topAllowed
		if si > 0 {
			where = fmt.Sprintf("part %d", si)
			allowed = partAllowed
		}
		if problem != "" {
			r.Fail(c.ID, "header-"+setter+"-malformed", fmt.Sprintf("%s header section: %s (value %q)", where, problem, val))
			continue
		}
		seen := map[string]bool{}
		for i, n := range names {
			if (setter == "uaonly" && n == "X-Mailer") || (setter == "xmonly" && n == "User-Agent") {
				r.Fail(c.ID, "header-"+setter+"-extra-field", fmt.Sprintf("%s header section has the field %q, which the caller did not set (only the other one of User-Agent / X-Mailer was set)", where, n))
			}
			if !allowed[n] {
				r.Fail(c.ID, "header-"+setter+"-extra-field", fmt.Sprintf("%s header section has unexpected field %q (value %q)", where, n, val))
			}
			if seen[n] {
				r.Fail(c.ID, "header-"+setter+"-duplicate", fmt.Sprintf("%s header section has field %q twice (value %q)", where, n, val))
			}
			seen[n] = true
			// fidelity of the free-text value
			var want string
			check := false
			switch {
			case si == 0 && n == "Subject" && setter == "subject", si == 0 && n == "Organization" && setter == "org",
				si == 0 && n == "User-Agent" && (setter == "ua" || setter == "uaonly"), si == 0 && n == "X-Mailer" && setter == "xmonly":
				want, check = val, true
			case si > 0 && n == "Content-Description" && (setter == "fdesc" || setter == "edesc" || setter == "pdesc" || setter == "pdesc2"):
				want, check = val, true
			}
			if ff, ok := fmtField[setter]; ok && si == 0 && n == ff[0] && utf8.ValidString(val) {
				// the display name, read by the standard library's address parser (not go-mail's code), is the string
				// that was set (a name of blanks only is no name at all)
				l, perr := mail.ParseAddressList(values[i])
				if perr != nil && qBackslashName(val) {
					// net/mail's Address.String() (go1.23) Q-encodes a name that needs encoding and contains a backslash but
					// none of the characters that make it choose B-encoding, and leaves the backslash raw inside the
					// encoded-word; net/mail's own parser (and every reader that applies RFC 2047 section 5 (3)) then cannot read
					// the phrase.  The stored name is right, the header section is well-formed, the rendered name is not
					// reliably readable: known finding (standard library), class below.
					r.Fail(c.ID, "dispname-backslash-q-encoded-word", fmt.Sprintf("%s: %s = %q: the display name %q is Q-encoded with a raw backslash (%v)", where, n, values[i], val, perr))
					continue
				}
				found := false
				for _, a := range l {
					if a.Address == ff[1] {
						found = true
						if wsNorm(a.Name) != wsNorm(val) {
							r.Fail(c.ID, "value-"+setter+"-not-preserved", fmt.Sprintf("%s: %s carries the display name %q, set was %q", where, n, a.Name, val))
						}
					}
				}
				if perr != nil || !found {
					r.Fail(c.ID, "value-"+setter+"-not-preserved", fmt.Sprintf("%s: %s = %q does not carry the address %s (parse error %v)", where, n, values[i], ff[1], perr))
				}
			}
			if check { // byte-exact also for values that are not valid UTF-8 (the encoded-word carries the bytes)
				got, derr := dec.DecodeHeader(values[i])
				if derr != nil || wsNorm(got) != wsNorm(want) {
					cl := "value-" + setter + "-not-preserved"
					if lookalike.MatchString(val) && isPrintableASCII(val) {
						// a printable-ASCII value that itself looks like an RFC 2047 encoded-word
						cl = "encoded-word-lookalike-verbatim"
					}
					r.Fail(c.ID, cl, fmt.Sprintf("%s %s decodes to %q, set was %q (err %v)", where, n, got, want, derr))
				}
			}
			if si > 0 && n == "Content-Disposition" && (setter == "fname" || setter == "ename") {
				// filename="…": RFC 2047 decoded, must be the sanitised name
				v := values[i]
				if k := strings.Index(v, `filename="`); k >= 0 && strings.HasSuffix(v, `"`) {
					raw := v[k+len(`filename="`) : len(v)-1]
					got, derr := dec.DecodeHeader(raw)
					isThis := (setter == "fname" && strings.HasPrefix(v, "attachment")) || (setter == "ename" && strings.HasPrefix(v, "inline"))
					if isThis && (derr != nil || wsNorm(got) != wsNorm(sanitizeName(val))) {
						r.Fail(c.ID, "value-"+setter+"-not-preserved", fmt.Sprintf("%s filename decodes to %q, want %q", where, got, sanitizeName(val)))
					}
				}
			}
		}
	}
}

// ---- kind "setters": a sequence of setter calls on a new Msg; the observable is the stored generic header map ----

var setterKeys = []string{"Subject", "X-Custom", "Organization", "User-Agent", "X-Mailer", "Message-ID", "Precedence", "X-Priority",
	"Comments", "Keywords", "Importance"}

var importances = map[string]gomail.Importance{"low": gomail.ImportanceLow, "high": gomail.ImportanceHigh,
	"nonurgent": gomail.ImportanceNonUrgent, "urgent": gomail.ImportanceUrgent, "normal": gomail.ImportanceNormal}

func runSetters(r *hx.Run, c hx.Case) {
	if len(c.Args) < 2 {
		r.Fail(c.ID, "bad-replay", "setters case needs 2 arguments")
		return
	}
	m := gomail.NewMsg()
	if c.Args[0] == "b" {
		m = gomail.NewMsg(gomail.WithEncoding(gomail.EncodingB64))
	}
	asked := map[string][]string{} // the harness' own bookkeeping of what the calls asked for (raw strings)
	set := func(k string, vs ...string) { asked[k] = vs }
	for _, op := range strings.Split(c.Args[1], "/") {
		if op == "" {
			continue
		}
		body := op[1:]
		switch op[0] {
		case 'g':
			kv := strings.SplitN(body, "=", 2)
			if len(kv) != 2 {
				r.Fail(c.ID, "bad-replay", "bad g op")
				return
			}
			key := string(hx.UnHex(kv[0]))
			var vals []string
			for _, b := range hx.UnHexList(kv[1]) {
				vals = append(vals, string(b))
			}
			raw := append([]string(nil), vals...)
			m.SetGenHeader(gomail.Header(key), vals...)
			set(key, raw...)
		case 's':
			v := string(hx.UnHex(body))
			m.Subject(v)
			set("Subject", v)
		case 'o':
			v := string(hx.UnHex(body))
			m.SetOrganization(v)
			set("Organization", v)
		case 'u':
			v := string(hx.UnHex(body))
			m.SetUserAgent(v)
			set("User-Agent", v)
			set("X-Mailer", v)
		case 'm':
			v := string(hx.UnHex(body))
			m.SetMessageIDWithValue(v)
			set("Message-ID", "<"+v+">")
		case 'b':
			m.SetBulk()
			set("Precedence", "bulk")
			set("X-Auto-Response-Suppress", "All")
		case 'i':
			imp, ok := importances[body]
			if !ok {
				r.Fail(c.ID, "bad-replay", "bad importance")
				return
			}
			m.SetImportance(imp)
			if imp != gomail.ImportanceNormal {
				set("Importance", imp.String())
				set("Priority", imp.NumString())
				set("X-Priority", imp.XPrioString())
				set("X-MSMail-Priority", imp.NumString())
			}
		case 'r':
			m.Reset()
			asked = map[string][]string{}
		default:
			r.Fail(c.ID, "bad-replay", "bad setter op")
			return
		}
	}
	var items []string
	for _, k := range append(append([]string(nil), setterKeys...), "X-Auto-Response-Suppress", "Priority", "X-MSMail-Priority") {
		vs := m.GetGenHeader(gomail.Header(k))
		if len(vs) == 0 {
			if len(asked[k]) != 0 {
				r.Fail(c.ID, "setters-value-lost", fmt.Sprintf("header %s has no stored value, asked %q", k, asked[k]))
			}
			continue
		}
		hs := make([]string, len(vs))
		for i, v := range vs {
			hs[i] = hx.Hex([]byte(v))
			// direct oracle: what is stored is printable, and decodes (standard library decoder) to what was asked
			if !isPrintableASCII(v) {
				r.Fail(c.ID, "setters-stored-not-printable", fmt.Sprintf("header %s stores %q", k, v))
			}
			if i < len(asked[k]) {
				raw := asked[k][i]
				if utf8.ValidString(raw) && !strings.Contains(raw, "=?") {
					got, derr := dec.DecodeHeader(v)
					if derr != nil || got != raw {
						r.Fail(c.ID, "setters-value-not-preserved", fmt.Sprintf("header %s: stored %q decodes to %q, asked %q (err %v)", k, v, got, raw, derr))
					}
				}
			}
		}
		if len(vs) != len(asked[k]) {
			r.Fail(c.ID, "setters-value-count", fmt.Sprintf("header %s stores %d values, asked %d", k, len(vs), len(asked[k])))
		}
		items = append(items, hx.Hex([]byte(k))+"="+strings.Join(hs, ","))
	}
	sort.Strings(items)
	obs := "-"
	if len(items) > 0 {
		obs = strings.Join(items, ";")
	}
	r.Add(c, obs, true)
}

func genSetters(r *hx.Run, vs [][]byte) hx.Case {
	pick := func() []byte { return vs[r.Rng.Intn(len(vs))] }
	n := 1 + r.Rng.Intn(8)
	ops := make([]string, 0, n)
	for i := 0; i < n; i++ {
		switch r.Rng.Intn(12) {
		case 0, 1, 2:
			k := setterKeys[r.Rng.Intn(len(setterKeys))]
			nv := r.Rng.Intn(4)
			l := make([][]byte, nv)
			for j := range l {
				l[j] = pick()
			}
			ops = append(ops, "g"+hx.Hex([]byte(k))+"="+hx.HexList(l))
		case 3, 4:
			ops = append(ops, "s"+hx.Hex(pick()))
		case 5:
			ops = append(ops, "o"+hx.Hex(pick()))
		case 6:
			ops = append(ops, "u"+hx.Hex(pick()))
		case 7:
			ops = append(ops, "m"+hx.Hex(pick()))
		case 8:
			ops = append(ops, "b")
		case 9, 10:
			ops = append(ops, "i"+[]string{"low", "high", "nonurgent", "urgent", "normal"}[r.Rng.Intn(5)])
		default:
			ops = append(ops, "r")
		}
	}
	e := "q"
	if r.Rng.Intn(3) == 0 {
		e = "b"
	}
	return hx.Case{ID: r.NewID(), Kind: "setters", Args: []string{e, strings.Join(ops, "/")}}
}

func values(r *hx.Run, thorough bool) [][]byte {
	var vs [][]byte
	for b := 0; b < 256; b++ {
		vs = append(vs, []byte{byte(b)}, []byte{'a', byte(b), 'b'}, []byte{'x', 'y', byte(b)})
	}
	fixed := []string{"", "x\r\nX-Injected: 1", "x\nX-Injected: 1", "x\rX-Injected: 1", "x\r\n\r\nbody", "a\x00b", "=?utf-8?q?a?=",
		"na\xc3\xafve r\xc3\xa9sum\xc3\xa9", "\xff\xfe invalid utf8", "tab\there", "  leading and trailing  ", "a;b=c\"d\\e", "quote\"inside",
		strings.Repeat("w", 80), strings.Repeat("long word ", 30), strings.Repeat("\xc3\xa4", 70), strings.Repeat("\xe2\x82\xac", 40),
		"\xc3\xa9\\x", "J\xc3\xbcrgen \\ M", "no\xc2\xa0break name", "ideo\xe3\x80\x80space", "zw\xe2\x80\x8cnj", "soft\xc2\xadhyphen", "lrm\xe2\x80\x8emark", "C:\\dir\\file", "a\\b", "back\\\\slash", "(comment) name", "name (comment)", "a, b", "<angle>", "semi;colon", "at@sign", "dot.ted name",
		"c\r\nX: 2", "<id@host>", "caf\xc3\xa9 \r\n folded", "\r\n", "\r", "\n", "a\r\n b",
		// long runs of blanks: whitespace-only continuation lines must not turn into empty lines
		"Hello" + strings.Repeat(" ", 74) + "world", "Hello" + strings.Repeat(" ", 75) + "world", "Hello" + strings.Repeat(" ", 76) + "world",
		"a " + strings.Repeat(" ", 90) + "b", strings.Repeat(" ", 80), "x" + strings.Repeat(" ", 160) + "y", "tab" + strings.Repeat("\t", 80) + "end",
		strings.Repeat("w", 72) + "  " + strings.Repeat("v", 71), strings.Repeat("w", 72) + strings.Repeat(" ", 5) + strings.Repeat("v", 71)}
	for _, f := range fixed {
		vs = append(vs, []byte(f))
	}
	n := 60
	if thorough {
		n = 3000
	}
	for i := 0; i < n; i++ {
		l := r.Rng.Intn(120)
		b := make([]byte, l)
		for j := range b {
			switch r.Rng.Intn(12) {
			case 0:
				b[j] = byte(r.Rng.Intn(32))
			case 1:
				b[j] = byte(128 + r.Rng.Intn(128))
			case 2:
				b[j] = ' '
			case 3:
				b[j] = "=?_\"\\<>:;,"[r.Rng.Intn(10)]
			default:
				b[j] = byte(33 + r.Rng.Intn(94))
			}
		}
		if r.Rng.Intn(3) == 0 {
			b = bytes.ToValidUTF8(b, []byte("\xc3\xa9"))
		}
		if r.Rng.Intn(4) == 0 && l > 2 {
			// a long run of blanks somewhere inside
			k := r.Rng.Intn(l)
			b = append(append(append([]byte(nil), b[:k]...), bytes.Repeat([]byte(" "), 60+r.Rng.Intn(60))...), b[k:]...)
		}
		vs = append(vs, b)
	}
	return vs
}

func Run(r *hx.Run, replay []hx.Case) {
	if replay != nil {
		for _, c := range replay {
			if c.Kind == "setters" {
				runSetters(r, c)
				continue
			}
			if c.Kind == "render" && len(c.Args) >= 5 {
				c = hx.Case{ID: c.ID, Kind: "hv", Args: c.Args[2:5]}
			}
			if len(c.Args) < 3 {
				r.Fail(c.ID, "bad-replay", "case needs 3 arguments")
				continue
			}
			runCase(r, c)
		}
		return
	}
	thorough := r.Tier == "thorough"
	vs := values(r, thorough)
	nseq := 300
	if thorough {
		nseq = 6000
	}
	for i := 0; i < nseq && !r.Expired(); i++ {
		runSetters(r, genSetters(r, vs))
	}
	for vi, v := range vs {
		if r.Expired() {
			break
		}
		for _, e := range []string{"q", "b", "n", "7"} {
			if (e == "n" || e == "7") && vi%8 != 0 {
				continue
			}
			r0 := hx.Case{ID: r.NewID(), Kind: "wordenc", Args: []string{"subject", hx.Hex(v), e}}
			runCase(r, r0)
		}
		for si, st := range setters {
			// quick: every value through two setters (rotating), fixed values through all
			if !thorough && vi < 768 && (vi+si)%len(setters) > 1 {
				continue
			}
			e := "q"
			if (vi+si)%3 == 0 {
				e = "b"
			}
			// every fifth case with a message encoding that has no header word encoder of its own (8bit, 7bit)
			if (vi+si)%5 == 1 {
				e = []string{"n", "7"}[(vi+si)%2]
			}
			runCase(r, hx.Case{ID: r.NewID(), Kind: "hv", Args: []string{st, hx.Hex(v), e}})
		}
	}
}
