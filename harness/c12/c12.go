// Package c12: render failures are reported — never a panic, never silent success (C12).
package c12

import (
	"fmt"
	"strings"

	mail "github.com/wneessen/go-mail"
	"verif/harness/bytex"
	"verif/harness/hx"
)

func init() { hx.Register("C12", Run) }

// A case: kind render|renderlen, args: spec, sink.  To be replayable the case must carry how to
// rebuild the Msg: a third argument holds the Go-side shape id (index into shapes()) and
// whether the Msg was rendered once before ("cached").
type shape struct {
	name string
	spec bytex.MsgSpec
}

func prod(s string, chunk int, fail bool) bytex.Producer {
	b := []byte(s)
	var ch [][]byte
	if chunk <= 0 || chunk >= len(b) {
		if len(b) > 0 {
			ch = [][]byte{b}
		}
	} else {
		for len(b) > 0 {
			n := chunk
			if n > len(b) {
				n = len(b)
			}
			ch = append(ch, b[:n])
			b = b[n:]
		}
	}
	return bytex.Producer{Chunks: ch, Fail: fail}
}

func shapes() []shape {
	txt := "Hello W\xc3\xb6rld = 1\r\nsecond line with trailing blank \r\n.leading dot\r\n"
	html := "<p>Hello <b>W\xc3\xb6rld</b></p>\r\n"
	bin := "\x00\x01\x02binary\xff\xfe data that is long enough to need more than one base64 line, really, it is: 0123456789"
	P := func(ct, enc, desc, content string, fail bool) bytex.PartSpec {
		return bytex.PartSpec{CType: ct, Enc: enc, Desc: desc, Prod: prod(content, 17, fail)}
	}
	F := func(name, enc, desc, content string, fail bool) bytex.FileSpec {
		return bytex.FileSpec{Name: name, Enc: enc, Desc: desc, Prod: prod(content, 23, fail)}
	}
	base := func() bytex.MsgSpec {
		return bytex.MsgSpec{From: "Sender Name <from@x.test>", To: []string{"to1@y.test", "\"Two, T\" <to2@y.test>"}, Cc: []string{"cc@z.test"},
			Gen: []bytex.KV{{K: "Subject", V: []string{"A subject line that is long enough to be folded by the header writer at least once, yes"}}}}
	}
	var out []shape
	add := func(name string, f func(s *bytex.MsgSpec)) {
		s := base()
		f(&s)
		out = append(out, shape{name, s})
	}
	add("plain-qp", func(s *bytex.MsgSpec) { s.Parts = []bytex.PartSpec{P("text/plain", "", "", txt, false)} })
	add("plain-b64", func(s *bytex.MsgSpec) { s.Enc = "base64"; s.Parts = []bytex.PartSpec{P("text/plain", "", "", txt, false)} })
	add("plain-8bit", func(s *bytex.MsgSpec) { s.Enc = "8bit"; s.Parts = []bytex.PartSpec{P("text/plain", "", "", txt, false)} })
	add("plain-7bit", func(s *bytex.MsgSpec) { s.Enc = "7bit"; s.Parts = []bytex.PartSpec{P("text/plain", "", "", "ascii only = x\r\nline two\r\n", false)} })
	add("alt", func(s *bytex.MsgSpec) {
		s.Parts = []bytex.PartSpec{P("text/plain", "", "", txt, false), P("text/html", "base64", "the html part", html, false)}
	})
	add("alt-attach", func(s *bytex.MsgSpec) {
		s.Parts = []bytex.PartSpec{P("text/plain", "", "", txt, false), P("text/html", "", "", html, false)}
		s.Attach = []bytex.FileSpec{F("report.bin", "", "", bin, false)}
	})
	add("plain-embed-attach", func(s *bytex.MsgSpec) {
		s.Parts = []bytex.PartSpec{P("text/plain", "8bit", "", txt, false)}
		s.Embeds = []bytex.FileSpec{F("logo.png", "", "a logo", bin, false)}
		s.Attach = []bytex.FileSpec{F("a.txt", "8bit", "", "plain file\r\n", false), F("b.bin", "base64", "", bin, false)}
	})
	add("alt-embed-attach", func(s *bytex.MsgSpec) {
		s.Parts = []bytex.PartSpec{P("text/plain", "", "", txt, false), P("text/html", "", "", html, false)}
		s.Embeds = []bytex.FileSpec{F("logo.png", "", "", bin, false)}
		s.Attach = []bytex.FileSpec{F("doc.pdf", "", "", bin, false)}
	})
	add("attach-only", func(s *bytex.MsgSpec) { s.Attach = []bytex.FileSpec{F("only.bin", "", "d", bin, false)} })
	add("two-attach-only", func(s *bytex.MsgSpec) {
		s.Attach = []bytex.FileSpec{F("one.bin", "", "", bin, false), F("two.txt", "8bit", "", "x\r\n", false)}
	})
	add("embed-only", func(s *bytex.MsgSpec) { s.Embeds = []bytex.FileSpec{F("e.png", "", "", bin, false)} })
	add("empty-bodies", func(s *bytex.MsgSpec) {
		s.Parts = []bytex.PartSpec{P("text/plain", "", "", "", false), P("text/html", "", "", "", false)}
		s.Attach = []bytex.FileSpec{F("empty.bin", "", "", "", false)}
	})
	add("preformatted", func(s *bytex.MsgSpec) {
		s.Pre = []bytex.KV{{K: "X-Pre-B", V: []string{"value b"}}, {K: "X-Pre-A", V: []string{"folded\r\n value a"}}}
		s.Parts = []bytex.PartSpec{P("text/plain", "", "", txt, false)}
	})
	// producer failures: before / after emitting data, each producer position
	add("part-prod-fails-after", func(s *bytex.MsgSpec) {
		s.Parts = []bytex.PartSpec{P("text/plain", "", "", txt, true), P("text/html", "", "", html, false)}
	})
	add("part-prod-fails-before", func(s *bytex.MsgSpec) {
		s.Parts = []bytex.PartSpec{P("text/plain", "", "", txt, false), P("text/html", "", "", "", true)}
	})
	add("single-prod-fails", func(s *bytex.MsgSpec) { s.Parts = []bytex.PartSpec{P("text/plain", "8bit", "", txt, true)} })
	add("attach-prod-fails", func(s *bytex.MsgSpec) {
		s.Parts = []bytex.PartSpec{P("text/plain", "", "", txt, false)}
		s.Attach = []bytex.FileSpec{F("a.bin", "", "", bin, true), F("b.bin", "", "", bin, false)}
	})
	add("attach-source-gone", func(s *bytex.MsgSpec) {
		// a file that could be opened when it was attached and cannot be opened when the message is rendered
		// (io/fs source, file-system source): the producer fails before emitting anything
		s.Parts = []bytex.PartSpec{P("text/plain", "", "", txt, false)}
		a, b := F("gone.bin", "", "", "", true), F("gone-too.txt", "8bit", "", "", true)
		a.Src, b.Src = "iofsgone", "filegone"
		s.Attach = []bytex.FileSpec{a, b}
	})
	add("embed-source-gone", func(s *bytex.MsgSpec) {
		s.Parts = []bytex.PartSpec{P("text/html", "", "", html, false)}
		e := F("gone.png", "", "", "", true)
		e.Src = "iofsgone"
		s.Embeds = []bytex.FileSpec{e}
	})
	add("attach-only-source-gone", func(s *bytex.MsgSpec) {
		a := F("only.bin", "", "", "", true)
		a.Src = "iofsgone"
		s.Attach = []bytex.FileSpec{a}
	})
	add("embed-prod-fails-before", func(s *bytex.MsgSpec) {
		s.Parts = []bytex.PartSpec{P("text/plain", "", "", txt, false)}
		s.Embeds = []bytex.FileSpec{F("e.png", "", "", "", true)}
	})
	return out
}

// case args: <spec> <sink> <shapeIndex> <cached 0|1>
func runCase(r *hx.Run, c hx.Case, sh []shape) {
	var si, cached, k int
	fmt.Sscanf(c.Args[2], "%d", &si)
	fmt.Sscanf(c.Args[3], "%d", &cached)
	if si < 0 || si >= len(sh) {
		r.Fail(c.ID, "bad-replay", "shape index out of range")
		return
	}
	spec := sh[si].spec
	bytex.ResetRand()
	m, err := spec.Build()
	if err != nil {
		r.Fail(c.ID, "harness-build", err.Error())
		return
	}
	if cached == 1 {
		var full bytex.Sink
		full.K = -1
		// the first render may fail (producer failures); a panic there is reported by the fresh case
		_, _, _ = bytex.SafeWriteTo(m, &full)
	}
	sink := &bytex.Sink{K: -1}
	s := c.Args[1]
	if s != "inf" {
		fmt.Sscanf(s[1:], "%d", &k)
		sink.K = k
		sink.Recover = s[0] == 'r'
	}
	class := "ok"
	var n int64
	func() {
		defer func() {
			if p := recover(); p != nil {
				class = "panic"
				r.Fail(c.ID, "panic-"+sh[si].name, fmt.Sprintf("WriteTo panicked: %v (sink %s, cached=%d)", p, s, cached))
			}
		}()
		n, err = m.WriteTo(sink)
		if err != nil {
			class = "err"
		}
	}()
	anyProdFail := false
	for _, p := range spec.Parts {
		anyProdFail = anyProdFail || p.Prod.Fail
	}
	for _, f := range spec.Embeds {
		anyProdFail = anyProdFail || f.Prod.Fail
	}
	for _, f := range spec.Attach {
		anyProdFail = anyProdFail || f.Prod.Fail
	}
	if class != "panic" {
		if (sink.Failed || anyProdFail) && class == "ok" {
			r.Fail(c.ID, "silent-success", fmt.Sprintf("%s sink %s cached=%d: destination or producer failed but WriteTo returned nil (n=%d, accepted=%d)", sh[si].name, s, cached, n, len(sink.Accepted)))
		}
		if int(n) != len(sink.Accepted) {
			cl := "count-mismatch"
			r.Fail(c.ID, cl, fmt.Sprintf("%s sink %s cached=%d: returned count %d, destination accepted %d bytes (err=%v)", sh[si].name, s, cached, n, len(sink.Accepted), err))
		}
		if !sink.Failed && !anyProdFail && class != "ok" {
			r.Fail(c.ID, "spurious-error", fmt.Sprintf("%s: nothing failed but WriteTo returned %v", sh[si].name, err))
		}
	}
	nontrivial := s != "inf" || anyProdFail
	if c.Kind == "render" {
		r.Add(c, fmt.Sprintf("%s %d %s", class, n, hx.Hex(sink.Accepted)), nontrivial)
	} else {
		r.Add(c, fmt.Sprintf("%s %d %d", class, n, len(sink.Accepted)), nontrivial)
	}
}

// mkCase describes the Msg state the model starts from and returns the case.
func mkCase(r *hx.Run, sh []shape, si int, cached bool, sink string) (hx.Case, int) {
	spec := sh[si].spec
	bytex.ResetRand()
	m, err := spec.Build()
	if err != nil {
		panic(err)
	}
	kind := "render"
	var cb [3]string
	total := 0
	if cached {
		full := &bytex.Sink{K: -1}
		_, _, _ = bytex.SafeWriteTo(m, full)
		cb[0], cb[1], cb[2] = bytex.Boundaries(full.Accepted)
		total = len(full.Accepted)
	} else {
		m2, _ := spec.Build()
		full := &bytex.Sink{K: -1}
		_, _, _ = bytex.SafeWriteTo(m2, full)
		total = len(full.Accepted)
		bytex.ResetRand()
	}
	rb := bytex.DrawnBoundaries(bytex.RandDraws(), 4)
	desc := bytex.Describe(m, &spec, cb, rb)
	c := hx.Case{ID: r.NewID(), Kind: kind, Args: []string{desc, sink, fmt.Sprint(si), map[bool]string{false: "0", true: "1"}[cached]}}
	return c, total
}

// Run: exhaustive in k per shape (quick: every offset for fresh messages of the small shapes and
// a stride for the rest; thorough: every offset, both sink kinds, fresh and cached).
func Run(r *hx.Run, replay []hx.Case) {
	sh := shapes()
	if replay != nil {
		for _, c := range replay {
			if len(c.Args) < 4 {
				r.Fail(c.ID, "bad-replay", "case needs 4 arguments")
				continue
			}
			runCase(r, c, sh)
		}
		return
	}
	thorough := r.Tier == "thorough"
	for si := range sh {
		for _, cached := range []bool{false, true} {
			// successful render first
			c, total := mkCase(r, sh, si, cached, "inf")
			runCase(r, c, sh)
			stride := 1
			if !thorough {
				stride = 1 + total/160
			}
			off := r.Rng.Intn(stride)
			for k := off; k < total; k += stride {
				if r.Expired() {
					return
				}
				for _, rec := range []string{"k", "r"} {
					if !thorough && rec == "r" && (k/stride)%2 == 1 {
						continue
					}
					c.ID = r.NewID()
					c.Args = []string{c.Args[0], fmt.Sprintf("%s%d", rec, k), c.Args[2], c.Args[3]}
					runCase(r, c, sh)
				}
			}
			r.Dist["shape:"+sh[si].name+":len"] = total
		}
	}
	r.Notes["shapes"] = strings.Join(func() []string {
		var n []string
		for _, s := range sh {
			n = append(n, s.name)
		}
		return n
	}(), ",")
	_ = mail.VERSION
}
