module verif/harness

go 1.20

require github.com/wneessen/go-mail v0.0.0

require golang.org/x/text v0.22.0

replace github.com/wneessen/go-mail => /repo
