package sendx

import (
	"fmt"
	"strings"

	"github.com/wneessen/go-mail/smtp"
	"verif/harness/hx"
	"verif/harness/smtpx"
)

// RunDirect: smtp.Client.Mail / Rcpt called directly (without mail.Client), with ASCII and non-ASCII addresses, for
// every capability subset, EHLO or HELO fallback, DSN options set or not.  Oracle-only cases (kind "smtp"): every
// ESMTP parameter the server receives must have been advertised in the EHLO reply in force (smtpx legality).
func RunDirect(r *hx.Run, replay []hx.Case) {
	type dcase struct {
		caps   []string
		from   string
		rcpts  []string
		mr, rn string
		script []smtpx.Decision
		id     string
	}
	var cases []dcase
	if replay != nil {
		for _, rc := range replay {
			if rc.Kind != "smtp" || len(rc.Args) != 6 {
				continue
			}
			c := dcase{id: rc.ID, from: string(hx.UnHex(rc.Args[1])), mr: rc.Args[3], rn: rc.Args[4]}
			if rc.Args[0] != "-" {
				c.caps = strings.Split(strings.ReplaceAll(rc.Args[0], "_", " "), ",")
			}
			for _, b := range hx.UnHexList(rc.Args[2]) {
				c.rcpts = append(c.rcpts, string(b))
			}
			if rc.Args[5] != "-" {
				for _, t := range strings.Split(rc.Args[5], ",") {
					c.script = append(c.script, ParseDecision(t))
				}
			}
			cases = append(cases, c)
		}
	} else {
		froms := []string{"plain@from.test", "jürgen@from.test", "s@exämple.test", "δοκιμή@π.test"}
		for mask := 0; mask < 16; mask++ {
			var caps []string
			for i, k := range allCaps {
				if mask&(1<<i) != 0 {
					caps = append(caps, k)
				}
			}
			for fi, f := range froms {
				for _, helo := range []bool{false, true} {
					for _, dsn := range []bool{false, true} {
						c := dcase{caps: caps, from: f, rcpts: []string{"rüdiger@to.test", froms[(fi+1)%len(froms)]}, mr: "-", rn: "-"}
						if dsn {
							c.mr, c.rn = "FULL", "SUCCESS,FAILURE"
						}
						if helo {
							c.script = scriptWith(map[int]string{1: negDev[1]})
						}
						if fi%2 == 1 && mask%3 == 0 {
							c.caps = append(append([]string{}, caps...), inertCaps[0]...)
						}
						cases = append(cases, c)
					}
				}
			}
		}
	}
	for _, c := range cases {
		id := c.id
		if id == "" {
			id = r.NewID()
		}
		srv := smtpx.NewServer(c.caps, c.script)
		cc, sc := smtpx.NewPair()
		go srv.Serve(sc)
		func() {
			cl, err := smtp.NewClient(cc, "verif.test")
			if err != nil {
				return
			}
			if err = cl.Hello(HeloName); err != nil {
				return
			}
			if c.mr != "-" {
				cl.SetDSNMailReturnOption(c.mr)
			}
			if c.rn != "-" {
				cl.SetDSNRcptNotifyOption(c.rn)
			}
			if err = cl.Mail(c.from); err == nil {
				for _, rc := range c.rcpts {
					_ = cl.Rcpt(rc)
				}
			}
			_ = cl.Quit()
		}()
		_ = cc.Close()
		<-srv.Done
		tr, _ := srv.Snapshot()
		caps := "-"
		if len(c.caps) > 0 {
			caps = strings.ReplaceAll(strings.Join(c.caps, ","), " ", "_")
		}
		sc2 := "-"
		if len(c.script) > 0 {
			l := make([]string, len(c.script))
			for i, d := range c.script {
				l[i] = DecisionString(d)
			}
			sc2 = strings.Join(l, ",")
		}
		var rl [][]byte
		for _, x := range c.rcpts {
			rl = append(rl, []byte(x))
		}
		nonASCII := false
		for _, b := range []byte(c.from + strings.Join(c.rcpts, "")) {
			if b >= 0x80 {
				nonASCII = true
			}
		}
		r.AddOracleOnly(hx.Case{ID: id, Kind: "smtp", Args: []string{caps, hx.Hex([]byte(c.from)), hx.HexList(rl), c.mr, c.rn, sc2}}, nonASCII)
		for _, e := range tr {
			if !e.Legal {
				r.Fail(id, legalClass(e.Why), fmt.Sprintf("smtp.Client called directly: %q: %s", e.Line, e.Why))
			}
		}
	}
}
