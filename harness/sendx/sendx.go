// Package sendx: shared implementation side of the send co-simulation checks C03, C04, C20
// (engine smtpsend).  One case = capability set + client configuration + batch of message
// specifications (with producer failure points) + server reply script.  The real go-mail
// client (public API: NewClient + WithDialContextFunc + DialAndSendWithContext) is driven
// against the scripted reference server of harness/smtpx; three projections of the same run
// are compared with the extracted Coq model, and three direct oracles (written from the
// property texts, independent of the model) look at the implementation's behaviour.
package sendx

import (
	"bytes"
	"context"
	"crypto/ecdsa"
	"crypto/elliptic"
	crand "crypto/rand"
	"crypto/tls"
	"crypto/x509"
	"crypto/x509/pkix"
	"errors"
	"fmt"
	"hash/adler32"
	"io"
	"math/big"
	"net"
	"os"
	"runtime/debug"
	"strconv"
	"strings"
	"sync"
	"time"

	mail "github.com/wneessen/go-mail"
	maillog "github.com/wneessen/go-mail/log"
	"verif/harness/hx"
	"verif/harness/smtpx"
)

// HeloName is the fixed EHLO/HELO argument (the model driver uses the same constant).
const HeloName = "client.test"

// MsgSpec describes one message of the batch.
type MsgSpec struct {
	From  string   // "" = no From address (GetSender fails)
	Rcpts []string // distributed over To, Cc, Bcc by position (i mod 3)
	Enc   byte     // 'q' quoted-printable, 'b' base64, 'n' NoEncoding (8bit; needs 8BITMIME)
	Kind  byte     // 'N' a nil entry of the batch (no message at all), 's' string body, 'w' body writer failing after K bytes, 'a' body + attachment whose reader fails after K bytes, 'A' body + attachment (ok)
	K     int
	Body  []byte
	// ErrText is the Error() text of the failing producer (kinds 'w' and 'a'); HasErrText tells whether it was
	// given in the case line (otherwise DefaultErrText).
	ErrText    string
	HasErrText bool
}

// DefaultErrText is the producer error text of cases that do not specify one.
const DefaultErrText = "producer failed"

func (s MsgSpec) errText() string {
	if s.HasErrText {
		return s.ErrText
	}
	return DefaultErrText
}

// Case is a parsed case line.
type Case struct {
	// TLS is the client's TLS policy: 'N' NoTLS (default), 'O' TLSOpportunistic, 'M' TLSMandatory.  CapsTLS is
	// what the server advertises in the EHLO reply inside TLS (may be empty; only meaningful when TLS != 'N').
	TLS     byte
	CapsTLS []string
	Caps    []string
	Ret     string // DSN MAIL RET option ("" = unset)
	Notify  string // DSN RCPT NOTIFY options, comma separated ("" = unset)
	NoNoop  bool
	Script  []smtpx.Decision
	Msgs    []MsgSpec
	// Prog selects the entry points of go-mail the case goes through ("" = "das"):
	//   das    DialAndSendWithContext(ctx, msgs...)
	//   dasn   DialAndSend(msgs...)
	//   send   DialWithContext; Send(msgs...); Close            (the Client's own connection)
	//   reset  DialWithContext; Send(first half); Reset; Send(second half); Close
	//   conc   DialWithContext; Send(first message) whose body producer - running inside DATA - starts
	//          `go Send(remaining messages)` on the same Client, waits 50 ms and goes on writing; Close when both
	//          have returned.  Client.Send serialises (sendMutex): the observable is Send(first); Send(rest).
	//   two    DialToSMTPClientWithContext twice (two smtp.Clients of one Client value, alive at the same time);
	//          SendWithSMTPClient(first half) on the one, (second half) on the other; CloseWithSMTPClient both.
	//          Each connection has its own server running the same script.
	Prog string
	// Offset is the index of Msgs[0] within the batch of the whole case (sub-cases of "two")
	Offset int
}

// Split is the number of messages of the first batch (programs reset, two: the first half; conc: the first message).
func (c *Case) Split() int {
	if c.Prog == "conc" {
		if len(c.Msgs) == 0 {
			return 0
		}
		return 1
	}
	return (len(c.Msgs) + 1) / 2
}

// TwoBatches: the program calls Send twice on one connection.
func (c *Case) TwoBatches() bool { return c.Prog == "reset" || c.Prog == "conc" }

func (s MsgSpec) String() string {
	from := "!"
	if s.From != "" {
		from = hx.Hex([]byte(s.From))
	}
	rc := "-"
	if len(s.Rcpts) > 0 {
		l := make([]string, len(s.Rcpts))
		for i, r := range s.Rcpts {
			l[i] = hx.Hex([]byte(r))
		}
		rc = strings.Join(l, ",")
	}
	base := fmt.Sprintf("%s:%s:%c:%c:%d:%s", from, rc, s.Enc, s.Kind, s.K, hx.Hex(s.Body))
	if s.HasErrText {
		base += ":" + hx.Hex([]byte(s.ErrText))
	}
	return base
}

func parseMsg(t string) (MsgSpec, error) {
	f := strings.Split(t, ":")
	if len(f) != 6 && len(f) != 7 {
		return MsgSpec{}, fmt.Errorf("bad message spec %q", t)
	}
	var s MsgSpec
	if f[0] != "!" {
		s.From = string(hx.UnHex(f[0]))
	}
	if f[1] != "-" {
		for _, r := range strings.Split(f[1], ",") {
			s.Rcpts = append(s.Rcpts, string(hx.UnHex(r)))
		}
	}
	if len(f[2]) != 1 || len(f[3]) != 1 {
		return s, fmt.Errorf("bad message spec %q", t)
	}
	s.Enc, s.Kind = f[2][0], f[3][0]
	s.K, _ = strconv.Atoi(f[4])
	s.Body = hx.UnHex(f[5])
	if len(f) == 7 {
		s.ErrText, s.HasErrText = string(hx.UnHex(f[6])), true
	}
	return s, nil
}

// DecisionString / ParseDecision: smtpx syntax plus '|' for a line break inside the text.
func DecisionString(d smtpx.Decision) string {
	if d.Kind == "raw" {
		return "raw=" + strings.ReplaceAll(strings.ReplaceAll(d.Text, " ", "_"), "\n", "|")
	}
	return strings.ReplaceAll(d.String(), "\n", "|")
}

func ParseDecision(s string) smtpx.Decision {
	if strings.HasPrefix(s, "raw=") {
		// a malformed reply written verbatim, then the connection is closed
		return smtpx.Raw(strings.ReplaceAll(strings.ReplaceAll(s[4:], "_", " "), "|", "\n"))
	}
	d := smtpx.ParseDecision(s)
	d.Text = strings.ReplaceAll(d.Text, "|", "\n")
	return d
}

// Args renders the input part of the case line (without the derived render results).
func (c *Case) Args() []string {
	caps := "-"
	if len(c.Caps) > 0 {
		caps = strings.ReplaceAll(strings.Join(c.Caps, ","), " ", "_")
	}
	if c.TLS == 'O' || c.TLS == 'M' {
		after := "-"
		if len(c.CapsTLS) > 0 {
			after = strings.ReplaceAll(strings.Join(c.CapsTLS, ","), " ", "_")
		}
		caps += "/" + string(c.TLS) + "/" + after
	}
	ret, notify := "-", "-"
	if c.Ret != "" {
		ret = c.Ret
	}
	if c.Notify != "" {
		notify = c.Notify
	}
	noop := "1"
	if c.NoNoop {
		noop = "0"
	}
	if c.Prog != "" && c.Prog != "das" {
		noop += "@" + c.Prog
	}
	sc := "-"
	if len(c.Script) > 0 {
		l := make([]string, len(c.Script))
		for i, d := range c.Script {
			l[i] = DecisionString(d)
		}
		sc = strings.Join(l, ",")
	}
	ms := "-"
	if len(c.Msgs) > 0 {
		l := make([]string, len(c.Msgs))
		for i, m := range c.Msgs {
			l[i] = m.String()
		}
		ms = strings.Join(l, ";")
	}
	return []string{caps, ret, notify, noop, sc, ms}
}

// ParseCase reads the input part of a case line (a trailing derived field is ignored: it is recomputed).
func ParseCase(args []string) (*Case, error) {
	if len(args) < 6 {
		return nil, fmt.Errorf("case needs 6 fields, has %d", len(args))
	}
	c := &Case{TLS: 'N'}
	capTok := strings.Split(args[0], "/")
	if capTok[0] != "-" {
		c.Caps = strings.Split(strings.ReplaceAll(capTok[0], "_", " "), ",")
	}
	if len(capTok) == 3 && (capTok[1] == "O" || capTok[1] == "M") {
		c.TLS = capTok[1][0]
		c.CapsTLS = []string{}
		if capTok[2] != "-" {
			c.CapsTLS = strings.Split(strings.ReplaceAll(capTok[2], "_", " "), ",")
		}
	}
	if args[1] != "-" {
		c.Ret = args[1]
	}
	if args[2] != "-" {
		c.Notify = args[2]
	}
	noopTok := strings.SplitN(args[3], "@", 2)
	c.NoNoop = noopTok[0] == "0"
	if len(noopTok) == 2 {
		c.Prog = noopTok[1]
	}
	if args[4] != "-" {
		for _, t := range strings.Split(args[4], ",") {
			c.Script = append(c.Script, ParseDecision(t))
		}
	}
	if args[5] != "-" {
		for _, t := range strings.Split(args[5], ";") {
			m, err := parseMsg(t)
			if err != nil {
				return nil, err
			}
			c.Msgs = append(c.Msgs, m)
		}
	}
	return c, nil
}

// failing read-seeker: delivers data[:k] and then fails
type failRS struct {
	data []byte
	k    int
	pos  int
	err  error
}

func (f *failRS) Read(p []byte) (int, error) {
	if f.pos >= f.k {
		return 0, f.err
	}
	n := copy(p, f.data[f.pos:f.k])
	f.pos += n
	return n, nil
}

func (f *failRS) Seek(off int64, whence int) (int64, error) {
	if whence == io.SeekStart {
		f.pos = int(off)
	}
	return int64(f.pos), nil
}

// classErr is a producer error of a particular class: its text is exactly the case's error text, but it unwraps
// to a well-known sentinel and/or reports itself as a timeout (what a producer that reads from the network or
// under a context returns).  How a rendering failure is handled must not depend on the class of the error.
type classErr struct {
	text    string
	inner   error
	timeout bool
}

func (e *classErr) Error() string   { return e.text }
func (e *classErr) Unwrap() error   { return e.inner }
func (e *classErr) Timeout() bool   { return e.timeout }
func (e *classErr) Temporary() bool { return e.timeout }

// producerError chooses the class from the first word of the text (the text itself is what the model sees).
func producerError(text string) error {
	switch {
	case strings.HasPrefix(text, "timeout"):
		return &classErr{text: text, timeout: true}
	case strings.HasPrefix(text, "deadline"):
		return &classErr{text: text, inner: os.ErrDeadlineExceeded, timeout: true}
	case strings.HasPrefix(text, "ctx"):
		return &classErr{text: text, inner: context.DeadlineExceeded, timeout: true}
	case strings.HasPrefix(text, "canceled"):
		return &classErr{text: text, inner: context.Canceled}
	case strings.HasPrefix(text, "eof"):
		return &classErr{text: text, inner: io.EOF}
	case strings.HasPrefix(text, "closed"):
		return &classErr{text: text, inner: net.ErrClosed}
	}
	return errors.New(text)
}

// Build constructs a fresh Msg from its specification.  Date, Message-ID and the MIME boundary are
// fixed so that two Msg values built from the same specification render to the same bytes.
// Build constructs a fresh Msg; see BuildHooked.
func Build(i int, s MsgSpec) *mail.Msg { return BuildHooked(i, s, nil) }

// BuildHooked: like Build; hook (if not nil) is called from inside the body producer - i.e. while the message is
// being written into the DATA stream - after the first part of the body was written.
func BuildHooked(i int, s MsgSpec, hook func()) *mail.Msg {
	if s.Kind == 'N' {
		return nil // a nil entry of the batch: SendWithSMTPClient skips it
	}
	enc := mail.EncodingQP
	switch s.Enc {
	case 'b':
		enc = mail.EncodingB64
	case 'n':
		enc = mail.NoEncoding
	}
	m := mail.NewMsg(mail.WithEncoding(enc), mail.WithBoundary(fmt.Sprintf("verifboundary%d", i)))
	if s.From != "" {
		_ = m.From(s.From)
	}
	for j, r := range s.Rcpts {
		switch j % 3 {
		case 0:
			_ = m.AddTo(r)
		case 1:
			_ = m.AddCc(r)
		default:
			_ = m.AddBcc(r)
		}
	}
	m.Subject(fmt.Sprintf("message %d", i))
	m.SetDateWithValue(time.Unix(1700000000+int64(i), 0).UTC())
	m.SetMessageIDWithValue(fmt.Sprintf("m%d.case@verif.test", i))
	body := s.Body
	errProducer := producerError(s.errText())
	switch s.Kind {
	case 'w':
		k := s.K
		if k > len(body) {
			k = len(body)
		}
		m.SetBodyWriter(mail.TypeTextPlain, func(w io.Writer) (int64, error) {
			n, _ := w.Write(body[:k])
			if hook != nil {
				hook()
			}
			return int64(n), errProducer
		})
	case 'a', 'A':
		m.SetBodyString(mail.TypeTextPlain, string(body))
		att := bytes.Repeat([]byte("attachment data 0123456789\n"), 8)
		k := len(att) + 1 // never reached: reader ends with EOF first
		if s.Kind == 'a' {
			k = s.K
			if k > len(att) {
				k = len(att)
			}
		}
		if s.Kind == 'a' {
			m.AttachReadSeeker("file.bin", &failRS{data: att, k: k, err: errProducer})
		} else {
			m.AttachReadSeeker("file.bin", bytes.NewReader(att))
		}
	default:
		if hook != nil {
			// same bytes as SetBodyString, written in two parts with the hook in between
			m.SetBodyWriter(mail.TypeTextPlain, func(w io.Writer) (int64, error) {
				h := len(body) / 2
				n1, err := w.Write(body[:h])
				if err != nil {
					return int64(n1), err
				}
				hook()
				n2, err := w.Write(body[h:])
				return int64(n1 + n2), err
			})
		} else {
			m.SetBodyString(mail.TypeTextPlain, string(body))
		}
	}
	return m
}

// Render is the independent rendering of a message specification (fresh Msg, plain buffer).
func Render(i int, s MsgSpec) (content []byte, err error) {
	if s.Kind == 'N' {
		return nil, nil
	}
	var buf bytes.Buffer
	_, err = Build(i, s).WriteTo(&buf)
	return buf.Bytes(), err
}

// DotCanon is the form in which content written to an SMTP DATA dot-writer arrives at the server after
// dot-unstuffing: a line feed that does not complete a CRLF gets a CR, and the content is completed to end
// with CRLF.  (Written as the obvious left-to-right scan; "CR CR LF" counts as a bare CR followed by a
// CR that is *not* pending any more — the quirk of net/textproto's writer — so the LF gets its own CR.)
func DotCanon(b []byte) []byte {
	out := make([]byte, 0, len(b)+2)
	const (
		begin = iota
		beginLine
		cr
		data
	)
	st := begin
	for _, c := range b {
		switch st {
		case begin, beginLine, data:
			st = data
			if c == '\r' {
				st = cr
			}
			if c == '\n' {
				out = append(out, '\r')
				st = beginLine
			}
		case cr:
			st = data
			if c == '\n' {
				st = beginLine
			}
		}
		out = append(out, c)
	}
	switch st {
	case begin, data:
		out = append(out, '\r', '\n')
	case cr:
		out = append(out, '\n')
	}
	return out
}

// MsgResult is what the client reports for one message after the call.
type MsgResult struct {
	Delivered bool
	HasErr    bool
	Reason    int
	Code      int
	Temp      bool
	ESC       string
	Rcpts     []string
}

// Result is everything observed in one run.
type Result struct {
	Contents   [][]byte // independent render (full content, or the prefix written before the producer failed)
	Failed     []bool
	RenderErr  []error // the error of the independent render (nil = none)
	Panic      string  // Send panicked: the recovered value
	PanicWhere string  // innermost go-mail function on the panicking stack
	Err        error
	RetKind    string // nil | dial | conncheck | joined | close | other
	Joined     int
	// program reset: result of the second Send and of Reset ("" when not run)
	RetKind2 string
	Joined2  int
	ResetOK  string // "1" Reset returned nil, "0" an error, "-" not called
	// the client's own view of the dialogue (go-mail debug log); HasLog is false for the program with two
	// connections, whose log interleaves both
	Log    []LogEntry
	HasLog bool
	// program conc: the concurrent Send did not return within the time box
	Deadlock bool
	Msgs       []MsgResult
	Trace      []smtpx.Event
	Commits    []smtpx.Commit
	Ops        []smtpx.Op
	ClientShut bool // the client closed its end itself
	DialOK     bool
}

func hasCap(caps []string, c string) bool {
	for _, x := range caps {
		if x == c {
			return true
		}
	}
	return false
}

// LogEntry is one record of go-mail's debug log: a command as the client formatted it, or a reply as the client
// parsed it (code and message of the reply it attributes to the command before).
type LogEntry struct {
	ToServer bool
	Text     string // ToServer: the command line
	Code     int    // reply code (0: no reply was read)
	Msg      string // reply message, lines joined with "\n"
}

type caseLogger struct {
	mu      sync.Mutex
	entries []LogEntry
}

func (l *caseLogger) add(lg maillog.Log) {
	l.mu.Lock()
	defer l.mu.Unlock()
	if lg.Direction == maillog.DirClientToServer {
		l.entries = append(l.entries, LogEntry{ToServer: true, Text: fmt.Sprintf(lg.Format, lg.Messages...)})
		return
	}
	e := LogEntry{}
	if len(lg.Messages) == 2 {
		if c, ok := lg.Messages[0].(int); ok {
			e.Code = c
		}
		e.Msg = fmt.Sprint(lg.Messages[1])
	} else {
		e.Msg = fmt.Sprintf(lg.Format, lg.Messages...)
	}
	l.entries = append(l.entries, e)
}
func (l *caseLogger) Debugf(lg maillog.Log) { l.add(lg) }
func (l *caseLogger) Infof(lg maillog.Log)  {}
func (l *caseLogger) Warnf(lg maillog.Log)  {}
func (l *caseLogger) Errorf(lg maillog.Log) {}

// session is one connection of a case: its own scripted server and the tracked client end.
type session struct {
	srv  *smtpx.Server
	conn *smtpx.Conn
}

// multiDialer gives every dial of the case a fresh server running the case's script.
type multiDialer struct {
	logger   *caseLogger
	c        *Case
	mu       sync.Mutex
	sessions []*session
}

func (d *multiDialer) Dial(ctx context.Context, network, address string) (net.Conn, error) {
	srv := smtpx.NewServer(d.c.Caps, append([]smtpx.Decision(nil), d.c.Script...))
	serverTLS, _ := tlsConfigs()
	srv.TLSConfig = serverTLS
	if d.c.TLS == 'O' || d.c.TLS == 'M' {
		srv.CapsAfterTLS = append([]string{}, d.c.CapsTLS...) // non-nil also when empty
	}
	cc, sc := smtpx.NewPair()
	d.mu.Lock()
	d.sessions = append(d.sessions, &session{srv: srv, conn: cc})
	d.mu.Unlock()
	go srv.Serve(sc)
	return cc, nil
}

func newClient(c *Case, d *multiDialer) (*mail.Client, error) {
	policy := mail.NoTLS
	_, clientTLS := tlsConfigs()
	if c.TLS == 'O' {
		policy = mail.TLSOpportunistic
	}
	if c.TLS == 'M' {
		policy = mail.TLSMandatory
	}
	opts := []mail.Option{mail.WithTLSPolicy(policy), mail.WithTLSConfig(clientTLS), mail.WithDialContextFunc(d.Dial),
		mail.WithTimeout(20 * time.Second), mail.WithHELO(HeloName), mail.WithLogger(d.logger), mail.WithDebugLog()} // no script of this engine stalls; the timeout only has to survive a loaded machine
	if c.Ret != "" {
		opts = append(opts, mail.WithDSNMailReturnType(mail.DSNMailReturnOption(c.Ret)))
	}
	if c.Notify != "" {
		var l []mail.DSNRcptNotifyOption
		for _, n := range strings.Split(c.Notify, ",") {
			l = append(l, mail.DSNRcptNotifyOption(n))
		}
		opts = append(opts, mail.WithDSNRcptNotifyType(l...))
	}
	if c.NoNoop {
		opts = append(opts, mail.WithoutNoop())
	}
	return mail.NewClient("verif.test", opts...)
}

// classifySend: the kind of the error a Send / SendWithSMTPClient returned
func classifySend(err error) (string, int) {
	if err == nil {
		return "nil", 0
	}
	var se *mail.SendError
	if j, ok := err.(interface{ Unwrap() []error }); ok {
		return "joined", len(j.Unwrap())
	}
	if errors.As(err, &se) && se.Reason == mail.ErrConnCheck {
		return "conncheck", 0
	}
	return "other", 0
}

// guard runs f and converts a panic into res.Panic / res.PanicWhere
func guard(res *Result, f func()) {
	defer func() {
		if p := recover(); p != nil {
			res.Panic = fmt.Sprint(p)
			res.PanicWhere = "unknown"
			st := string(debug.Stack())
			best := -1
			for _, fn := range []string{"isTempError", "errorCode", "enhancedStatusCode", "sendSingleMsg", "WriteTo", "SendWithSMTPClient"} {
				if i := strings.Index(st, "go-mail."+fn+"("); i >= 0 && (best < 0 || i < best) {
					best, res.PanicWhere = i, fn
				} else if i := strings.Index(st, ")."+fn+"("); i >= 0 && (best < 0 || i < best) {
					best, res.PanicWhere = i, fn
				}
			}
		}
	}()
	f()
}

// prerender fills the independent renderings of the case's messages
func prerender(c *Case, res *Result) {
	for i, s := range c.Msgs {
		content, rerr := Render(i+c.Offset, s)
		if (s.Kind == 'w' || s.Kind == 'a') && rerr == nil {
			// the specification says the producer fails: whether the rendering failed is not for the library's
			// own WriteTo to decide (a WriteTo that swallows the producer's error must not fool the oracle)
			rerr = fmt.Errorf("verif: WriteTo reported no error although the producer failed: %w", producerError(s.errText()))
		}
		res.Contents = append(res.Contents, content)
		res.Failed = append(res.Failed, rerr != nil)
		res.RenderErr = append(res.RenderErr, rerr)
	}
}

// collect gathers what the server saw and what the messages report
func collect(res *Result, sess *session, msgs []*mail.Msg) {
	if sess != nil {
		res.ClientShut, _ = sess.conn.Closed()
		// make the server see the end of the connection if the client left it open (C19's subject, not ours)
		_ = sess.conn.Close()
		<-sess.srv.Done
		res.Ops = sess.conn.Ops()
		res.Trace, _ = sess.srv.Snapshot()
		res.Commits = sess.srv.SnapshotAccepted() // accepted at end-of-data, also if the client did not wait for the reply
	}
	if res.Panic != "" {
		res.RetKind = "panic"
	}
	if res.RetKind == "close" {
		// "failed to close connection" although QUIT was answered 221: the error comes from closing the transport
		// (inside TLS, Close writes a close_notify alert; the in-memory transport fails a write to a peer that has
		// already closed, a real socket buffers it) - not from the dialogue.  TCP-level behaviour is not modelled.
		for _, e := range res.Trace {
			if e.Verb == "QUIT" {
				if e.Code == 221 {
					res.RetKind = "nil"
				}
				break
			}
		}
	}
	res.DialOK = res.RetKind != "dial"
	for _, m := range msgs {
		if m == nil {
			res.Msgs = append(res.Msgs, MsgResult{})
			continue
		}
		mr := MsgResult{Delivered: m.IsDelivered(), HasErr: m.HasSendError()}
		var se *mail.SendError
		if m.HasSendError() && errors.As(m.SendError(), &se) {
			mr.Reason = int(se.Reason)
			mr.Code = se.ErrorCode()
			mr.Temp = se.IsTemp()
			mr.ESC = se.EnhancedStatusCode()
			txt := se.Error()
			const mark = ", affected recipient(s): "
			if i := strings.Index(txt, mark); i >= 0 {
				rest := txt[i+len(mark):]
				if j := strings.Index(rest, ", affected message ID: "); j >= 0 {
					rest = rest[:j]
				}
				mr.Rcpts = strings.Split(rest, ", ")
			}
		}
		res.Msgs = append(res.Msgs, mr)
	}
}

// SubRun is one connection of a case with the sub-case (its share of the batch) it served.
type SubRun struct {
	Case *Case
	Res  *Result
}

// RunProgram drives the real client through one case along the entry points its program names.
func RunProgram(c *Case) []SubRun {
	if c.Prog == "two" {
		return runTwoClients(c)
	}
	return []SubRun{{c, RunCase(c)}}
}

// RunCase: the programs with one connection.
func RunCase(c *Case) *Result {
	res := &Result{ResetOK: "-"}
	prerender(c, res)
	d := &multiDialer{c: c, logger: &caseLogger{}}
	cl, err := newClient(c, d)
	if err != nil {
		res.Err = err
		res.RetKind = "newclient:" + err.Error()
		return res
	}
	msgs := make([]*mail.Msg, len(c.Msgs))
	for i, s := range c.Msgs {
		msgs[i] = Build(i+c.Offset, s)
	}
	ctx := context.Background()
	guard(res, func() {
		switch c.Prog {
		case "conc":
			if derr := cl.DialWithContext(ctx); derr != nil {
				res.Err, res.RetKind = derr, "dial"
				return
			}
			var rest []*mail.Msg
			if len(msgs) > 1 {
				rest = msgs[1:]
			}
			launched := false
			done := make(chan struct{})
			var panic2 interface{}
			var err2 error
			second := func() {
				defer close(done)
				defer func() { panic2 = recover() }()
				err2 = cl.Send(rest...)
			}
			if len(msgs) > 0 {
				// the message handed to Send carries the hook; its independent rendering (prerender) does not
				msgs[0] = BuildHooked(c.Offset, c.Msgs[0], func() {
					if !launched {
						launched = true
						go second()
						time.Sleep(50 * time.Millisecond)
					}
				})
			}
			var sendErr error
			func() {
				defer func() {
					if p := recover(); p != nil {
						if launched {
							<-done
						}
						_ = cl.Close()
						panic(p)
					}
				}()
				sendErr = cl.Send(msgs[:c.Split()]...)
			}()
			res.RetKind, res.Joined = classifySend(sendErr)
			if !launched {
				second() // the first message never reached its body producer: the second Send follows sequentially
			}
			select {
			case <-done:
			case <-time.After(60 * time.Second):
				res.Deadlock = true
			}
			if !res.Deadlock {
				if panic2 != nil {
					_ = cl.Close()
					panic(panic2)
				}
				res.RetKind2, res.Joined2 = classifySend(err2)
			}
			_ = cl.Close()
			res.Err = sendErr
		case "send", "reset":
			if derr := cl.DialWithContext(ctx); derr != nil {
				res.Err, res.RetKind = derr, "dial"
				return
			}
			first, second := msgs, []*mail.Msg(nil)
			if c.Prog == "reset" {
				first, second = msgs[:c.Split()], msgs[c.Split():]
			}
			var sendErr error
			func() {
				defer func() {
					if p := recover(); p != nil {
						_ = cl.Close() // what DialAndSend's deferred close does while the panic unwinds
						panic(p)
					}
				}()
				sendErr = cl.Send(first...)
				res.RetKind, res.Joined = classifySend(sendErr)
				if c.Prog == "reset" {
					res.ResetOK = "1"
					if rerr := cl.Reset(); rerr != nil {
						res.ResetOK = "0"
					}
					err2 := cl.Send(second...)
					res.RetKind2, res.Joined2 = classifySend(err2)
				}
			}()
			closeErr := cl.Close()
			res.Err = sendErr
			if c.Prog == "send" && sendErr == nil && closeErr != nil {
				res.Err, res.RetKind = closeErr, "close"
			}
		default:
			var derr error
			if c.Prog == "dasn" {
				derr = cl.DialAndSend(msgs...)
			} else {
				derr = cl.DialAndSendWithContext(ctx, msgs...)
			}
			res.Err = derr
			switch {
			case derr == nil:
				res.RetKind = "nil"
			case strings.HasPrefix(derr.Error(), "dial failed"):
				res.RetKind = "dial"
			case strings.HasPrefix(derr.Error(), "failed to close connection"):
				res.RetKind = "close"
			case strings.HasPrefix(derr.Error(), "send failed"):
				res.RetKind, res.Joined = classifySend(errors.Unwrap(derr))
			default:
				res.RetKind = "other"
			}
		}
	})
	var sess *session
	if len(d.sessions) > 0 {
		sess = d.sessions[0]
	}
	collect(res, sess, msgs)
	res.Log = append([]LogEntry(nil), d.logger.entries...)
	res.HasLog = true
	return res
}

// runTwoClients: two smtp.Clients obtained from one Client value and alive at the same time.
func runTwoClients(c *Case) []SubRun {
	k := c.Split()
	c1, c2 := *c, *c
	c1.Msgs, c1.Prog = c.Msgs[:k], "das"
	c2.Msgs, c2.Prog, c2.Offset = c.Msgs[k:], "das", c.Offset+k
	r1, r2 := &Result{ResetOK: "-"}, &Result{ResetOK: "-"}
	prerender(&c1, r1)
	prerender(&c2, r2)
	d := &multiDialer{c: c, logger: &caseLogger{}}
	cl, err := newClient(c, d)
	if err != nil {
		r1.RetKind, r2.RetKind = "newclient:"+err.Error(), "newclient:"+err.Error()
		return []SubRun{{&c1, r1}, {&c2, r2}}
	}
	build := func(sc *Case) []*mail.Msg {
		l := make([]*mail.Msg, len(sc.Msgs))
		for i, s := range sc.Msgs {
			l[i] = Build(i+sc.Offset, s)
		}
		return l
	}
	m1, m2 := build(&c1), build(&c2)
	ctx := context.Background()
	var sessA, sessB *session
	a, errA := cl.DialToSMTPClientWithContext(ctx)
	if len(d.sessions) > 0 {
		sessA = d.sessions[0]
	}
	n := len(d.sessions)
	b, errB := cl.DialToSMTPClientWithContext(ctx)
	if len(d.sessions) > n {
		sessB = d.sessions[n]
	}
	if errA != nil {
		r1.Err, r1.RetKind = errA, "dial"
	} else {
		guard(r1, func() {
			defer func() {
				if p := recover(); p != nil {
					_ = cl.CloseWithSMTPClient(a)
					panic(p)
				}
			}()
			e := cl.SendWithSMTPClient(a, m1...)
			r1.Err = e
			r1.RetKind, r1.Joined = classifySend(e)
		})
	}
	if errB != nil {
		r2.Err, r2.RetKind = errB, "dial"
	} else {
		guard(r2, func() {
			defer func() {
				if p := recover(); p != nil {
					_ = cl.CloseWithSMTPClient(b)
					panic(p)
				}
			}()
			e := cl.SendWithSMTPClient(b, m2...)
			r2.Err = e
			r2.RetKind, r2.Joined = classifySend(e)
		})
	}
	if errA == nil && r1.Panic == "" {
		if e := cl.CloseWithSMTPClient(a); e != nil && r1.RetKind == "nil" {
			r1.RetKind = "close"
		}
	}
	if errB == nil && r2.Panic == "" {
		if e := cl.CloseWithSMTPClient(b); e != nil && r2.RetKind == "nil" {
			r2.RetKind = "close"
		}
	}
	collect(r1, sessA, m1)
	collect(r2, sessB, m2)
	return []SubRun{{&c1, r1}, {&c2, r2}}
}

// Derived renders the derived field of the case line: per message "<content hex>/0" or
// "<content hex>/1/<error text hex>/<unwrapped error text hex or !>".
func (r *Result) Derived() string {
	if len(r.Contents) == 0 {
		return "-"
	}
	l := make([]string, len(r.Contents))
	for i := range r.Contents {
		f := "0"
		if r.Failed[i] {
			// the error as the classifiers see it: its text and the text of errors.Unwrap(err) ("!" = no wrapped error)
			inner := "!"
			if u := errors.Unwrap(r.RenderErr[i]); u != nil {
				inner = hx.Hex([]byte(u.Error()))
			}
			f = "1/" + hx.Hex([]byte(r.RenderErr[i].Error())) + "/" + inner
		}
		l[i] = hx.Hex(r.Contents[i]) + "/" + f
	}
	return strings.Join(l, ";")
}

func tok(s string) string {
	if s == "" {
		return "~"
	}
	return s
}

// dialogue is the command stream the checks talk about: everything up to and including the first QUIT
// (what follows a first QUIT is C19's subject); when the dial failed only the dial dialogue.
func (r *Result) dialogue() []smtpx.Event {
	var out []smtpx.Event
	for _, e := range r.Trace {
		if e.Verb == "EOD-MISSING" {
			continue
		}
		if !r.DialOK && e.Verb != "GREETING" && e.Verb != "EHLO" && e.Verb != "HELO" && e.Verb != "STARTTLS" {
			break
		}
		out = append(out, e)
		if e.Verb == "QUIT" {
			break
		}
	}
	return out
}

func boolc(b bool) string {
	if b {
		return "1"
	}
	return "0"
}

// ObsC04: the command stream with arguments, parameters, reply codes and the reference server's verdict.
func (r *Result) ObsC04() string {
	var evs []string
	for _, e := range r.dialogue() {
		p := "-"
		if len(e.Params) > 0 {
			p = strings.Join(e.Params, "+")
		}
		evs = append(evs, fmt.Sprintf("%s:%s:%s:%d:%s", e.Verb, tok(e.Arg), p, e.Code, map[bool]string{true: "L", false: "I"}[e.Legal]))
	}
	return fmt.Sprintf("dial=%s step=%s T=%s", boolc(r.DialOK), boolc(len(r.OutOfStep()) == 0), strings.Join(evs, "|"))
}

// ObsC03: commit log (length and Adler-32 of every committed message) and the per-message flags.
func (r *Result) ObsC03() string {
	cs := "-"
	if len(r.Commits) > 0 {
		l := make([]string, len(r.Commits))
		for i, c := range r.Commits {
			l[i] = fmt.Sprintf("%s>%s/%d/%d", tok(c.From), strings.Join(c.Rcpt, "+"), len(c.Data), adler32.Checksum(c.Data))
		}
		cs = strings.Join(l, ",")
	}
	var dl, el strings.Builder
	for _, m := range r.Msgs {
		dl.WriteString(boolc(m.Delivered))
		el.WriteString(boolc(m.HasErr))
	}
	return fmt.Sprintf("dial=%s C=%s D=%s E=%s P=%s", boolc(r.DialOK), cs, tok(dl.String()), tok(el.String()), boolc(r.Panic != ""))
}

// ObsC20: SendError fields per message, kind of the returned error and number of joined errors.
func (r *Result) ObsC20() string {
	var l []string
	for _, m := range r.Msgs {
		if !m.HasErr {
			l = append(l, "-")
			continue
		}
		rc := "-"
		if len(m.Rcpts) > 0 {
			rc = strings.Join(m.Rcpts, "+")
		}
		l = append(l, fmt.Sprintf("%d/%d/%s/%s/%s", m.Reason, m.Code, boolc(m.Temp), hx.Hex([]byte(m.ESC)), rc))
	}
	ms := "-"
	if len(l) > 0 {
		ms = strings.Join(l, ";")
	}
	if r.RetKind2 != "" || r.ResetOK != "-" {
		k2 := r.RetKind2
		if k2 == "" {
			k2 = "-"
		}
		return fmt.Sprintf("R=%s+%s+r%s J=%d+%d M=%s", r.RetKind, k2, r.ResetOK, r.Joined, r.Joined2, ms)
	}
	return fmt.Sprintf("R=%s J=%d M=%s", r.RetKind, r.Joined, ms)
}

// OutOfStep: commands written before the reply to the previous one was read.  The analysis stops at the
// first read that reports the end of the connection: nothing written afterwards reaches a server.
func (r *Result) OutOfStep() []string {
	ops := r.Ops
	// after STARTTLS the connection carries TLS records: the analysis covers the plain-text prefix
	for i, op := range ops {
		if op.Kind == 'W' && bytes.Contains(op.Data, []byte("STARTTLS\r\n")) {
			j := i + 1
			for j < len(ops) && !(ops[j].Kind == 'R' && len(ops[j].Data) > 0) {
				j++
			}
			if j < len(ops) {
				j++
			}
			ops = ops[:j]
			break
		}
	}
	for i, op := range ops {
		if op.Kind == 'R' && (op.Err == "EOF" || op.Err == "closed") {
			ops = ops[:i]
			break
		}
	}
	return smtpx.InStep(ops)
}

// ---------- TLS material (generated once per process) ----------

var (
	tlsOnce   sync.Once
	tlsServer *tls.Config
	tlsClient *tls.Config
)

// tlsConfigs returns the server configuration (a certificate for verif.test created at run time) and a client
// configuration that trusts exactly that certificate and expects the name verif.test.
func tlsConfigs() (*tls.Config, *tls.Config) {
	tlsOnce.Do(func() {
		key, err := ecdsa.GenerateKey(elliptic.P256(), crand.Reader)
		if err != nil {
			panic(err)
		}
		tmpl := &x509.Certificate{
			SerialNumber: big.NewInt(1), Subject: pkix.Name{CommonName: "verif.test"}, DNSNames: []string{"verif.test"},
			NotBefore: time.Now().Add(-time.Hour), NotAfter: time.Now().Add(24 * time.Hour),
			KeyUsage: x509.KeyUsageDigitalSignature | x509.KeyUsageCertSign, ExtKeyUsage: []x509.ExtKeyUsage{x509.ExtKeyUsageServerAuth},
			IsCA: true, BasicConstraintsValid: true,
		}
		der, err := x509.CreateCertificate(crand.Reader, tmpl, tmpl, &key.PublicKey, key)
		if err != nil {
			panic(err)
		}
		cert, _ := x509.ParseCertificate(der)
		pool := x509.NewCertPool()
		pool.AddCert(cert)
		tlsServer = &tls.Config{Certificates: []tls.Certificate{{Certificate: [][]byte{der}, PrivateKey: key}}, MinVersion: tls.VersionTLS12}
		tlsClient = &tls.Config{RootCAs: pool, ServerName: "verif.test", MinVersion: tls.VersionTLS12}
	})
	return tlsServer, tlsClient
}
