package sendx

import (
	"bufio"
	"bytes"
	"fmt"
	"math/rand"
	"net/textproto"
	"runtime"
	"strings"
	"sync"

	"verif/harness/hx"
	"verif/harness/smtpx"
)

var allCaps = []string{"8BITMIME", "SMTPUTF8", "DSN", "ENHANCEDSTATUSCODES"}

var bodies = [][]byte{
	[]byte("Hello World\r\nsecond line\r\n"),
	[]byte(".leading dot\r\n..two dots\r\n.\r\nbare\nline feed\r\nlast line without end"),
	[]byte("Gr\xc3\xbc\xc3\x9fe aus K\xc3\xb6ln\r\n=3D equals and a long line " + "0123456789 0123456789 0123456789 0123456789 0123456789 0123456789 0123456789 0123456789\r\n"),
	[]byte("cr cr lf\r\r\n.x\rbare cr\r"),
	[]byte(""),
	[]byte("x"),
}

// error texts of failing producers: empty, shorter than a reply code, looking like a reply
// the first word selects the class of the error value (sendx.producerError): timeout-class, context, EOF, closed
var producerTexts = []string{"", "4", "5", "45", "2", "451 4.3.0 looks like a reply", "x",
	"timeout: i/o timeout", "deadline exceeded while reading the source", "ctx deadline exceeded", "canceled by caller", "eof from the source", "closed network connection"}

// capabilities a server may advertise and go-mail (without SMTP AUTH configured) never looks at
var inertCaps = [][]string{
	{"PIPELINING", "X-FOO"},
	{"PIPELINING"},
	{"X-FOO bar"},
	{"PIPELINING", "SIZE 10240000", "CHUNKING", "AUTH PLAIN LOGIN", "HELP", "ETRN", "BINARYMIME", "REQUIRETLS", "X-FOO"},
}

var negDev = []string{"451:4.3.0_try_again_later", "554:5.7.1_rejected_by_policy", "drop"}
var oddDev = []string{"250:2.0.0_Ok|2.0.0_second_line", "354:go|ahead", "raw=250-2.0.0_Ok|251_differs", "554:5.7.1_no|5.7.1_really_no|5.7.1_never",
	"251:2.1.5_will_forward", "252:2.0.0_cannot_verify", "250:2.0.0_custom_ok", "354:go_ahead", "220:hello", "550", "421:4.3.2_shutting_down"}

func mkMsgs(nm, nr int, enc byte, body []byte) []MsgSpec {
	ms := make([]MsgSpec, nm)
	for i := range ms {
		ms[i] = MsgSpec{From: fmt.Sprintf("s%d@from.test", i), Enc: enc, Kind: 's', Body: body}
		for j := 0; j < nr; j++ {
			ms[i].Rcpts = append(ms[i].Rcpts, fmt.Sprintf("r%d%d@to.test", i, j))
		}
	}
	return ms
}

func cloneMsgs(ms []MsgSpec) []MsgSpec {
	out := make([]MsgSpec, len(ms))
	copy(out, ms)
	return out
}

// scriptWith returns a script of OK decisions with the given deviations (position -> decision text).
func scriptWith(dev map[int]string) []smtpx.Decision {
	n := 0
	for p := range dev {
		if p+1 > n {
			n = p + 1
		}
	}
	sc := make([]smtpx.Decision, n)
	for p, d := range dev {
		sc[p] = ParseDecision(d)
	}
	return sc
}

// enumerate all scripts with at most maxDev deviations (from alphabet) over the first npos positions.
func enumScripts(npos, maxDev int, alphabet []string, f func([]smtpx.Decision)) {
	var rec func(start int, left int, dev map[int]string)
	rec = func(start, left int, dev map[int]string) {
		if len(dev) > 0 {
			f(scriptWith(dev))
		}
		if left == 0 {
			return
		}
		for p := start; p < npos; p++ {
			for _, a := range alphabet {
				dev[p] = a
				rec(p+1, left-1, dev)
				delete(dev, p)
			}
		}
	}
	rec(0, maxDev, map[int]string{})
}

func randomCase(rng *rand.Rand, prop string) *Case {
	c := &Case{TLS: 'N'}
	for _, k := range allCaps {
		if rng.Intn(3) != 0 {
			c.Caps = append(c.Caps, k)
		}
	}
	switch rng.Intn(5) {
	case 0:
		c.Ret = "FULL"
	case 1:
		c.Ret, c.Notify = "HDRS", "SUCCESS,FAILURE"
	case 2:
		c.Notify = "NEVER"
	}
	if rng.Intn(2) == 0 {
		c.Caps = append(c.Caps, inertCaps[rng.Intn(len(inertCaps))]...)
	}
	c.NoNoop = rng.Intn(8) == 0
	c.Prog = []string{"das", "das", "das", "dasn", "send", "reset", "two", "das", "das", "conc"}[rng.Intn(10)]
	c.TLS = 'N'
	if rng.Intn(6) == 0 {
		// a STARTTLS session: other capabilities inside TLS than before
		c.TLS = []byte{'O', 'M'}[rng.Intn(2)]
		if rng.Intn(8) != 0 {
			c.Caps = append(c.Caps, "STARTTLS")
		}
		c.CapsTLS = []string{}
		for _, k := range allCaps {
			if rng.Intn(2) == 0 {
				c.CapsTLS = append(c.CapsTLS, k)
			}
		}
	}
	nm, nr := 1+rng.Intn(3), 1+rng.Intn(3)
	enc := []byte{'q', 'q', 'b', 'n', 'n'}[rng.Intn(5)]
	c.Msgs = mkMsgs(nm, nr, enc, bodies[rng.Intn(len(bodies))])
	for i := range c.Msgs {
		c.Msgs[i].Body = bodies[rng.Intn(len(bodies))]
		if rng.Intn(3) == 0 {
			c.Msgs[i].Enc = []byte{'q', 'b', 'n'}[rng.Intn(3)]
		}
		switch rng.Intn(9) {
		case 0:
			c.Msgs[i].Kind, c.Msgs[i].K = 'w', 0
		case 1:
			c.Msgs[i].Kind, c.Msgs[i].K = 'w', 1+rng.Intn(20)
		case 2:
			c.Msgs[i].Kind, c.Msgs[i].K = 'a', rng.Intn(200)
		case 3:
			c.Msgs[i].Kind = 'A'
		}
		if (c.Msgs[i].Kind == 'w' || c.Msgs[i].Kind == 'a') && rng.Intn(3) == 0 {
			c.Msgs[i].ErrText, c.Msgs[i].HasErrText = producerTexts[rng.Intn(len(producerTexts))], true
		}
		if rng.Intn(25) == 0 {
			c.Msgs[i].From = ""
		}
		if rng.Intn(12) == 0 {
			c.Msgs[i] = MsgSpec{Kind: 'N', Enc: 'q'}
			continue
		}
		if rng.Intn(6) == 0 && c.Msgs[i].From != "" {
			c.Msgs[i].From = "j\u00fc" + c.Msgs[i].From // a non-ASCII local part
		}
		if rng.Intn(6) == 0 && len(c.Msgs[i].Rcpts) > 0 {
			c.Msgs[i].Rcpts[0] = "\u00e9" + c.Msgs[i].Rcpts[0]
		}
		if rng.Intn(25) == 0 {
			c.Msgs[i].Rcpts = nil
		}
	}
	// random script: up to 3 (sometimes more) deviations over a long script
	n := 3 + 7*nm + nm*nr + rng.Intn(6)
	ndev := rng.Intn(4)
	if rng.Intn(10) == 0 {
		ndev = 4 + rng.Intn(6)
	}
	dev := map[int]string{}
	minOdd := 3 // no OK-class reply with custom text at an EHLO position (the scripted server would take it as the capability list)
	if c.TLS == 'O' || c.TLS == 'M' {
		minOdd = 4 // position 3 is the EHLO inside TLS
	}
	for i := 0; i < ndev; i++ {
		p := rng.Intn(n)
		switch {
		case prop == "C20" && rng.Intn(3) != 0:
			dev[p] = c20Decision(rng, 400+rng.Intn(200), rng.Intn(len(c20Kinds)))
		case p >= minOdd && rng.Intn(4) == 0:
			dev[p] = oddDev[rng.Intn(len(oddDev))]
		default:
			dev[p] = negDev[rng.Intn(len(negDev))]
		}
	}
	c.Script = scriptWith(dev)
	return c
}

var c20Kinds = []string{"plain", "esc-start", "esc-later", "ip-later", "multi-start", "multi-later", "esc-only", "not-esc", "multi3-start"}

func c20Decision(rng *rand.Rand, code, kind int) string {
	cls := code / 100
	a, b := rng.Intn(10), rng.Intn(300)
	switch c20Kinds[kind] {
	case "plain":
		return fmt.Sprintf("%d:mailbox_unavailable", code)
	case "esc-start":
		return fmt.Sprintf("%d:%d.%d.%d_mailbox_unavailable", code, cls, a, b)
	case "esc-later":
		return fmt.Sprintf("%d:rejected_see_%d.%d.%d_for_details", code, cls, a, b)
	case "ip-later":
		return fmt.Sprintf("%d:relay_to_10.2.3.4_denied", code)
	case "multi-start":
		return fmt.Sprintf("%d:%d.%d.%d_first_line|%d.%d.%d_second_line", code, cls, a, b, cls, a, b)
	case "multi3-start":
		return fmt.Sprintf("%d:%d.%d.%d_first_line|second_line_without_code|%d.%d.%d_third_line", code, cls, a, b, cls, a, b)
	case "multi-later":
		return fmt.Sprintf("%d:no_code_here|%d.%d.%d_on_the_second_line", code, cls, a, b)
	case "esc-only":
		return fmt.Sprintf("%d:%d.%d.%d", code, cls, a, b)
	default:
		return fmt.Sprintf("%d:5.1234.1_is_not_a_status_code_but_2.0.0_is", code)
	}
}

// generate produces the cases of one property check.
func generate(r *hx.Run, prop string) []*Case {
	var out []*Case
	thorough := r.Tier == "thorough"
	nadd := 0
	withInert := func(c *Case, inert []string) *Case {
		d := *c
		d.Caps = append(append([]string{}, c.Caps...), inert...)
		if c.TLS == 'O' || c.TLS == 'M' {
			d.CapsTLS = append(append([]string{}, c.CapsTLS...), inert...)
		}
		return &d
	}
	add := func(c *Case) {
		out = append(out, c)
		nadd++
		// capabilities the client does not use itself: every case in which a producer fails also runs with
		// PIPELINING + an unknown extension, every 5th other case with one of the inert sets (thorough: every case)
		fails := false
		for _, m := range c.Msgs {
			if m.Kind == 'w' || m.Kind == 'a' {
				fails = true
			}
		}
		if fails {
			out = append(out, withInert(c, inertCaps[0]))
		}
		if nadd%5 == 0 || thorough {
			out = append(out, withInert(c, inertCaps[1+nadd%(len(inertCaps)-1)]))
		}
	}
	base := func(nm, nr int, enc byte, caps []string, sc []smtpx.Decision) *Case {
		return &Case{Caps: caps, Msgs: mkMsgs(nm, nr, enc, bodies[0]), Script: sc}
	}
	// the all-OK runs for every batch shape
	for nm := 1; nm <= 3; nm++ {
		for nr := 1; nr <= 3; nr++ {
			add(base(nm, nr, 'q', allCaps, nil))
		}
	}
	maxDev := 2
	if thorough {
		maxDev = 3
	}
	switch prop {
	case "C04":
		// every script with <= maxDev deviations over the positions of a 2-message x 1-recipient dialogue
		enumScripts(18, maxDev, negDev, func(sc []smtpx.Decision) { add(base(2, 1, 'q', allCaps, sc)) })
		// single deviations for every capability subset x DSN configuration x encoding
		for mask := 0; mask < 16; mask++ {
			var caps []string
			for i, k := range allCaps {
				if mask&(1<<i) != 0 {
					caps = append(caps, k)
				}
			}
			for cfg := 0; cfg < 4; cfg++ {
				for _, enc := range []byte{'q', 'n'} {
					for p := -1; p < 12; p += 1 {
						for _, a := range negDev[:2] {
							if p < 0 && a != negDev[0] {
								continue
							}
							var sc []smtpx.Decision
							if p >= 0 {
								sc = scriptWith(map[int]string{p: a})
							}
							c := base(2, 2, enc, caps, sc)
							switch cfg {
							case 1:
								c.Ret = "FULL"
							case 2:
								c.Ret, c.Notify = "HDRS", "SUCCESS,FAILURE"
							case 3:
								c.Notify = "NEVER"
							}
							if !thorough && p >= 0 && (mask+cfg+p)%3 != 0 {
								continue
							}
							add(c)
						}
					}
				}
			}
		}
		// the dial prefix: every combination of {ok, 4yz, 5yz, drop, unusual code} at greeting / EHLO / HELO-or-NOOP,
		// for several capability sets, 8bit and DSN configurations (ext map dropped after the HELO fallback)
		dialAlpha := []string{"ok", "451:4.3.0_try_again_later", "554:5.7.1_rejected_by_policy", "drop", "250:not_a_greeting_code", "421:4.3.2_closing"}
		for _, a0 := range dialAlpha {
			for _, a1 := range dialAlpha {
				for _, a2 := range dialAlpha[:4] {
					for ci, caps := range [][]string{allCaps, nil, allCaps[:1], {"DSN", "SMTPUTF8"}} {
						if a1 == "250:not_a_greeting_code" {
							continue // an OK-class reply with custom text to EHLO would be taken as the capability list
						}
						for _, enc := range []byte{'q', 'n'} {
							if !thorough && a0 != "ok" && (ci > 0 || enc == 'n') {
								continue // nothing follows a refused greeting: one configuration is enough
							}
							c := base(1, 2, enc, caps, scriptWith(map[int]string{0: a0, 1: a1, 2: a2}))
							c.Ret, c.Notify = "FULL", "FAILURE"
							add(c)
						}
					}
				}
			}
		}
		// STARTTLS sessions: a second EHLO inside TLS REPLACES the extension map.  Capability sets before TLS
		// (all with STARTTLS, one without) x every capability set after TLS (incl. the empty one) x policy x encoding
		subsets := func(mask int) []string {
			var l []string
			for i, k := range allCaps {
				if mask&(1<<i) != 0 {
					l = append(l, k)
				}
			}
			return l
		}
		preMasks := []int{15, 1, 6, 0, 9}
		if thorough {
			preMasks = []int{0, 1, 2, 3, 4, 5, 6, 7, 8, 9, 10, 11, 12, 13, 14, 15}
		}
		for _, pm := range preMasks {
			for post := 0; post < 16; post++ {
				for _, pol := range []byte{'M', 'O'} {
					for _, enc := range []byte{'q', 'n'} {
						c := base(2, 2, enc, append(subsets(pm), "STARTTLS"), nil)
						c.TLS, c.CapsTLS = pol, subsets(post)
						if post%5 == 0 && post != 0 {
							c.CapsTLS = append(c.CapsTLS, "STARTTLS") // advertised again inside TLS: must not be used
						}
						c.Ret, c.Notify = "FULL", "FAILURE"
						add(c)
					}
				}
			}
		}
		for _, pol := range []byte{'M', 'O'} { // STARTTLS not advertised: mandatory -> dial fails, opportunistic -> plain session
			c := base(1, 1, 'n', allCaps, nil)
			c.TLS, c.CapsTLS = pol, []string{}
			add(c)
		}
		// deviations at STARTTLS (position 2) and at the EHLO inside TLS (position 3)
		for _, post := range [][]string{{}, allCaps} {
			for _, pol := range []byte{'M', 'O'} {
				for _, a := range []string{"451:4.3.0_try_again_later", "554:5.7.1_rejected_by_policy", "drop", "220:2.0.0_custom_go_ahead", "250:not_the_starttls_code"} {
					c := base(2, 1, 'n', append(append([]string{}, allCaps...), "STARTTLS"), scriptWith(map[int]string{2: a}))
					c.TLS, c.CapsTLS = pol, post
					add(c)
				}
				for _, a := range negDev {
					c := base(2, 1, 'q', append(append([]string{}, allCaps...), "STARTTLS"), scriptWith(map[int]string{3: a}))
					c.TLS, c.CapsTLS = pol, post
					add(c)
					c2 := base(2, 1, 'q', append(append([]string{}, allCaps...), "STARTTLS"), scriptWith(map[int]string{1: a}))
					c2.TLS, c2.CapsTLS = pol, post // first EHLO refused: HELO fallback, no STARTTLS possible
					add(c2)
				}
			}
		}
		// producer failures x single deviations
		for _, k := range []struct {
			kind byte
			k    int
		}{{'w', 0}, {'w', 7}, {'a', 40}} {
			enumScripts(20, 1, negDev, func(sc []smtpx.Decision) {
				c := base(3, 1, 'q', allCaps, sc)
				c.Msgs[0].Kind, c.Msgs[0].K = k.kind, k.k
				add(c)
			})
		}
	case "C03":
		// producer failure points x all scripts with <= maxDev deviations (2 messages, the first one fails)
		fails := []struct {
			kind byte
			k    int
			enc  byte
		}{{'w', 0, 'q'}, {'w', 9, 'n'}, {'a', 50, 'q'}}
		for fi, f := range fails {
			md := maxDev
			if fi > 0 && !thorough {
				md = 1
			}
			enumScripts(17, md, negDev, func(sc []smtpx.Decision) {
				c := base(2, 1, f.enc, allCaps, sc)
				c.Msgs[0].Kind, c.Msgs[0].K = f.kind, f.k
				c.Msgs[0].Body, c.Msgs[1].Body = bodies[1], bodies[2]
				add(c)
			})
		}
		// no producer failure: all scripts with <= 2 deviations, 8bit bodies with dots and bare line feeds
		enumScripts(17, 2, negDev, func(sc []smtpx.Decision) {
			c := base(2, 1, 'n', allCaps, sc)
			c.Msgs[0].Body, c.Msgs[1].Body = bodies[1], bodies[3]
			add(c)
		})
		// producer errors with empty / one- and two-byte / reply-like texts, body producer and attachment producer,
		// in the first and in the second message, with and without ENHANCEDSTATUSCODES
		for _, txt := range producerTexts {
			for _, kind := range []byte{'w', 'a'} {
				for pos := 0; pos < 2; pos++ {
					for _, enc := range []byte{'q', 'n'} {
						for _, caps := range [][]string{allCaps, allCaps[:1]} {
							c := base(2, 1, enc, caps, nil)
							c.Msgs[pos].Kind, c.Msgs[pos].K, c.Msgs[pos].ErrText, c.Msgs[pos].HasErrText = kind, 3, txt, true
							add(c)
						}
					}
				}
			}
		}
		// failure in the second / third message, every failure offset class
		for k := 0; k <= 30; k += 3 {
			for _, kind := range []byte{'w', 'a'} {
				for pos := 0; pos < 3; pos++ {
					c := base(3, 2, 'q', allCaps, nil)
					c.Msgs[pos].Kind, c.Msgs[pos].K = kind, k*7
					add(c)
				}
			}
		}
	case "C20":
		// producer errors with unusual texts (the classifiers work on the text, also of errors that are no replies)
		for _, txt := range producerTexts {
			for _, kind := range []byte{'w', 'a'} {
				c := base(2, 1, 'q', allCaps, nil)
				c.Msgs[0].Kind, c.Msgs[0].K, c.Msgs[0].ErrText, c.Msgs[0].HasErrText = kind, 5, txt, true
				add(c)
			}
		}
		// every code 400..599 x every text kind, at the command positions of a 2-message x 2-recipient batch
		// positions (all-OK): 0 greeting 1 EHLO 2 NOOP | 3 MAIL 4 RCPT 5 RCPT 6 DATA 7 EOD 8 NOOP 9 RSET | 10 MAIL 11 RCPT 12 RCPT 13 DATA 14 EOD 15 NOOP 16 RSET | 17 QUIT
		poss := []int{3, 4, 5, 6, 7, 9, 10, 11, 12, 13, 14, 16}
		n := 0
		for code := 400; code <= 599; code++ {
			for kind := range c20Kinds {
				if !thorough && (code+kind)%2 == 1 && kind > 3 {
					continue
				}
				p := poss[n%len(poss)]
				n++
				caps := allCaps
				if n%5 == 0 {
					caps = allCaps[:3] // ENHANCEDSTATUSCODES not advertised
				}
				dev := map[int]string{p: c20Decision(r.Rng, code, kind)}
				if n%7 == 0 && (p == 4 || p == 11) {
					// both recipients rejected, different codes
					dev[p+1] = c20Decision(r.Rng, 400+(code*7)%200, (kind+1)%len(c20Kinds))
				}
				if n%11 == 0 && p != 9 && p != 16 && p != 7 && p != 14 {
					// the RSET after the failed step fails as well
					q := map[int]int{3: 4, 4: 6, 5: 6, 6: 7, 10: 11, 11: 13, 12: 13, 13: 14}[p]
					dev[q] = c20Decision(r.Rng, 400+(code*3)%200, 1)
				}
				add(&Case{Caps: caps, Msgs: mkMsgs(2, 2, 'q', bodies[0]), Script: scriptWith(dev)})
			}
		}
		// pairs of deviations over the whole dialogue (codes fixed)
		enumScripts(18, 2, []string{"450:4.2.0_busy", "553:rejected_10.5.1.1_is_not_allowed", "drop"}, func(sc []smtpx.Decision) {
			add(base(2, 1, 'q', allCaps, sc))
		})
	}
	// multi-line replies (RFC 5321 4.2.1) at EVERY command position of a 2-message batch: accepting (the code the
	// command expects) and rejecting, two and three lines; and the malformed variants (a continuation line with a
	// different code, a missing final line), after which the server closes the connection
	mlCode := map[int]int{0: 220, 2: 250, 3: 250, 4: 250, 5: 354, 6: 250, 7: 250, 8: 250, 9: 250, 10: 250, 11: 354, 12: 250, 13: 250, 14: 250, 15: 221}
	for p := 0; p <= 15; p++ {
		code, ok := mlCode[p]
		if !ok {
			continue // position 1 is EHLO: its reply is multi-line anyway, its text is the capability list
		}
		for _, d := range []string{
			fmt.Sprintf("%d:2.0.0_first_line|2.0.0_queued_as_X", code),
			fmt.Sprintf("%d:2.0.0_first_line|second_line|2.0.0_third_line", code),
			"451:4.3.0_first_line|4.3.0_try_again_later",
			"554:5.7.1_first_line|5.7.1_second_line|5.7.1_rejected_by_policy",
			fmt.Sprintf("raw=%d-2.0.0_first_line|%d_a_different_code", code, code+1),
			fmt.Sprintf("raw=%d-2.0.0_a_continuation_line_and_nothing_after_it", code),
		} {
			for _, prog := range []string{"das", "send"} {
				c := base(2, 1, 'q', allCaps, scriptWith(map[int]string{p: d}))
				c.Prog = prog
				add(c)
			}
		}
	}
	// the same inside TLS (positions shifted by STARTTLS and the second EHLO) at end-of-data and RSET
	for _, p := range []int{8, 10, 14} {
		c := base(2, 1, 'q', append(append([]string{}, allCaps...), "STARTTLS"), scriptWith(map[int]string{p: "250:2.0.0_first_line|2.0.0_queued_as_X"}))
		c.TLS, c.CapsTLS = 'M', allCaps
		add(c)
	}
	// concurrent Send calls on one dialled Client: the body producer of the first message (inside DATA) starts
	// `go Send(rest)`; Client.Send serialises them, so the dialogue is Send(first); Send(rest)
	for _, nm := range []int{2, 3} {
		for _, v := range []struct {
			kind byte
			enc  byte
		}{{'s', 'q'}, {'s', 'n'}, {'w', 'q'}, {'w', 'n'}} {
			enumScripts(16, 1, negDev, func(sc []smtpx.Decision) {
				c := base(nm, 1, v.enc, allCaps, sc)
				c.Prog = "conc"
				c.Msgs[0].Kind, c.Msgs[0].K, c.Msgs[0].Body = v.kind, 9, bodies[1]
				add(c)
			})
			c := base(nm, 2, v.enc, allCaps, nil)
			c.Prog = "conc"
			c.Msgs[0].Kind, c.Msgs[0].K, c.Msgs[0].Body = v.kind, 9, bodies[2]
			add(c)
		}
	}
	// nil entries in the batch (first, middle, last, several, only nils), followed by a message that fails - producer
	// failure or a rejected MAIL / RCPT / DATA / end-of-data - for every program
	nilSpec := MsgSpec{Kind: 'N', Enc: 'q'}
	withNils := func(c *Case, pattern string) *Case { // pattern: 'N' = nil entry, 'm' = the next real message
		d := *c
		d.Msgs = nil
		k := 0
		for _, ch := range pattern {
			if ch == 'N' {
				d.Msgs = append(d.Msgs, nilSpec)
			} else if k < len(c.Msgs) {
				d.Msgs = append(d.Msgs, c.Msgs[k])
				k++
			}
		}
		return &d
	}
	for _, pattern := range []string{"Nmm", "mNm", "mmN", "NNmm", "NmNm", "N", "NN", "mNNm"} {
		for _, prog := range []string{"das", "dasn", "send", "reset", "two", "conc"} {
			c := base(2, 2, 'q', allCaps, nil)
			c.Prog = prog
			add(withNils(c, pattern))
			for k := 0; k < 2; k++ { // the k-th real message fails
				cw := base(2, 2, 'n', allCaps, nil)
				cw.Prog = prog
				cw.Msgs[k].Kind, cw.Msgs[k].K = 'w', 6
				add(withNils(cw, pattern))
			}
			if prog == "das" || prog == "send" {
				enumScripts(16, 1, negDev[:2], func(sc []smtpx.Decision) {
					cd := base(2, 1, 'q', allCaps, sc)
					cd.Prog = prog
					add(withNils(cd, pattern))
				})
			} else {
				for _, p := range []int{3, 4, 5, 6, 9, 10, 11, 12} {
					cd := base(2, 1, 'q', allCaps, scriptWith(map[int]string{p: negDev[1]}))
					cd.Prog = prog
					add(withNils(cd, pattern))
				}
			}
		}
	}
	// envelope addresses with non-ASCII local parts / domains x every capability subset (SMTPUTF8, 8BITMIME, DSN ...
	// present or absent), EHLO accepted or HELO fallback, DSN options: the parameters must follow the EHLO reply in force,
	// never the address text
	if prop == "C04" {
		intl := [][2]string{{"j\u00fcrgen@from.test", "r\u00fcdiger@to.test"}, {"s@ex\u00e4mple.test", "r@b\u00fccher.test"}, {"\u03b4\u03bf\u03ba\u03b9\u03bc\u03ae@from.test", "plain@to.test"}}
		for mask := 0; mask < 16; mask++ {
			var caps []string
			for i, k := range allCaps {
				if mask&(1<<i) != 0 {
					caps = append(caps, k)
				}
			}
			for ai, a := range intl {
				for _, helo := range []bool{false, true} {
					for _, dsn := range []bool{false, true} {
						if !thorough && helo && dsn && ai > 0 {
							continue
						}
						var sc []smtpx.Decision
						if helo {
							sc = scriptWith(map[int]string{1: negDev[1]})
						}
						c := base(2, 2, []byte{'q', 'n'}[(mask+ai)%2], caps, sc)
						for i := range c.Msgs {
							c.Msgs[i].From = fmt.Sprintf("%d%s", i, a[0])
							c.Msgs[i].Rcpts[1] = fmt.Sprintf("%d%s", i, a[1])
						}
						if dsn {
							c.Ret, c.Notify = "HDRS", "SUCCESS,FAILURE"
						}
						c.Prog = []string{"das", "send", "reset"}[(mask+ai)%3]
						add(c)
						if mask%4 == 1 { // inside TLS with another set
							ct := *c
							ct.Caps = append(append([]string{}, caps...), "STARTTLS")
							ct.TLS, ct.CapsTLS = 'M', allCaps[:1]
							add(&ct)
						}
					}
				}
			}
		}
	}
	// the other entry points (same oracles): DialAndSend, Dial+Send+Close, Send/Reset/Send, two smtp.Clients of one Client
	for _, prog := range []string{"dasn", "send", "reset", "two"} {
		for _, noNoop := range []bool{false, true} {
			enumScripts(22, 1, negDev, func(sc []smtpx.Decision) {
				c := base(3, 1, 'q', allCaps, sc)
				c.Prog, c.NoNoop = prog, noNoop
				add(c)
			})
			for _, k := range []int{0, 1, 2} { // producer failure in the first / second half
				c := base(3, 2, 'n', allCaps, nil)
				c.Prog, c.NoNoop = prog, noNoop
				c.Msgs[k].Kind, c.Msgs[k].K = 'w', 4
				add(c)
			}
		}
	}
	// random long scripts / shapes / configurations
	nrand := 1500
	if thorough {
		nrand = 60000
	}
	for i := 0; i < nrand; i++ {
		add(randomCase(r.Rng, prop))
	}
	return out
}

// RunProp is the harness entry point shared by C03, C04 and C20.
func RunProp(r *hx.Run, replay []hx.Case, prop string) {
	kind := strings.ToLower(prop)
	var cases []*Case
	var ids []string
	if replay != nil {
		for _, rc := range replay {
			if rc.Kind == "dot" || rc.Kind == "smtp" {
				continue
			}
			c, err := ParseCase(rc.Args)
			if err != nil {
				r.Fail(rc.ID, "unreadable-case", err.Error())
				continue
			}
			cases = append(cases, c)
			ids = append(ids, rc.ID)
		}
	} else {
		cases = generate(r, prop)
		for range cases {
			ids = append(ids, r.NewID())
		}
	}
	results := make([][]SubRun, len(cases))
	workers := runtime.NumCPU()
	if workers > 8 {
		workers = 8
	}
	var wg sync.WaitGroup
	next := make(chan int)
	for w := 0; w < workers; w++ {
		wg.Add(1)
		go func() {
			defer wg.Done()
			for i := range next {
				results[i] = RunProgram(cases[i])
			}
		}()
	}
	for i := range cases {
		if r.Expired() {
			break
		}
		next <- i
	}
	close(next)
	wg.Wait()
	for i, c := range cases {
		subs := results[i]
		if subs == nil {
			continue
		}
		var derived []string
		for _, sr := range subs {
			if dv := sr.Res.Derived(); dv != "-" {
				derived = append(derived, dv)
			}
		}
		dv := "-"
		if len(derived) > 0 {
			dv = strings.Join(derived, ";")
		}
		args := append(c.Args(), dv)
		hc := hx.Case{ID: ids[i], Kind: kind, Args: args}
		nontrivial := false
		for _, d := range c.Script {
			if d.Kind != "" && d.Kind != "ok" {
				nontrivial = true
				r.Dist["deviation:"+d.Kind]++
			}
		}
		prog := c.Prog
		if prog == "" {
			prog = "das"
		}
		r.Dist["program:"+prog]++
		r.Dist[fmt.Sprintf("batch:%dmsg", len(c.Msgs))]++
		r.Dist[fmt.Sprintf("caps:%d", len(c.Caps))]++
		var obsl []string
		var fs []Finding
		for _, sr := range subs {
			res := sr.Res
			for j := range sr.Case.Msgs {
				if res.Failed[j] {
					nontrivial = true
					r.Dist[fmt.Sprintf("producer-failure:%c", sr.Case.Msgs[j].Kind)]++
				}
			}
			r.Dist["return:"+strings.SplitN(res.RetKind, ":", 2)[0]]++
			switch prop {
			case "C03":
				obsl, fs = append(obsl, res.ObsC03()), append(fs, OracleC03(sr.Case, res)...)
			case "C04":
				obsl, fs = append(obsl, res.ObsC04()), append(fs, OracleC04(sr.Case, res)...)
			default:
				obsl, fs = append(obsl, res.ObsC20()), append(fs, OracleC20(sr.Case, res)...)
			}
		}
		obs := strings.Join(obsl, " || ")
		r.Add(hc, obs, nontrivial)
		for _, f := range fs {
			r.Fail(ids[i], f.Class, f.Detail)
		}
	}
}

// ---------- the dot-writer itself (C03): real net/textproto against the model's dot_encode / dot_decode ----------

func dotWire(chunks [][]byte) []byte {
	var buf bytes.Buffer
	bw := bufio.NewWriter(&buf)
	w := textproto.NewWriter(bw).DotWriter()
	for _, c := range chunks {
		_, _ = w.Write(c)
	}
	_ = w.Close()
	return buf.Bytes()
}

// serverDecode is the receiving side as RFC 5321 4.5.2 describes it (and harness/smtpx implements it)
func serverDecode(wire []byte) ([]byte, bool) {
	var data []byte
	for {
		i := bytes.IndexByte(wire, '\n')
		if i < 0 {
			return nil, false
		}
		line := wire[:i+1]
		wire = wire[i+1:]
		if string(line) == ".\r\n" {
			return data, len(wire) == 0
		}
		if line[0] == '.' {
			line = line[1:]
		}
		data = append(data, line...)
	}
}

// RunDot adds the dot-writer cases (kind "dot") to a C03 run.
func RunDot(r *hx.Run, replay []hx.Case) {
	alphabet := []byte{'.', '\r', '\n', 'a', '.', '\n', 'b', ' '}
	n := 400
	if r.Tier == "thorough" {
		n = 20000
	}
	var cases [][][]byte
	var ids []string
	if replay != nil {
		for _, rc := range replay {
			if rc.Kind == "dot" && len(rc.Args) == 1 {
				cases = append(cases, hx.UnHexList(rc.Args[0]))
				ids = append(ids, rc.ID)
			}
		}
	} else {
		cases = append(cases, nil, [][]byte{{}}, [][]byte{[]byte(".")}, [][]byte{[]byte(".\r\n")}, [][]byte{[]byte("\r")}, [][]byte{[]byte("a\r\r\n.b")})
		for i := 0; i < n; i++ {
			nc := 1 + r.Rng.Intn(4)
			var cs [][]byte
			for j := 0; j < nc; j++ {
				l := r.Rng.Intn(7)
				c := make([]byte, l)
				for k := range c {
					c[k] = alphabet[r.Rng.Intn(len(alphabet))]
				}
				cs = append(cs, c)
			}
			cases = append(cases, cs)
		}
	}
	for i, cs := range cases {
		var id string
		if replay != nil {
			id = ids[i]
		} else {
			id = r.NewID()
		}
		wire := dotWire(cs)
		all := bytes.Join(cs, nil)
		canon := DotCanon(all)
		obs := hx.Hex(wire) + " " + hx.Hex(canon)
		r.Add(hx.Case{ID: id, Kind: "dot", Args: []string{hx.HexList(cs)}}, obs, len(all) > 2)
		if dec, ok := serverDecode(wire); !ok || !bytes.Equal(dec, canon) {
			r.Fail(id, "dot-roundtrip", fmt.Sprintf("content %q: wire %q decodes to %q, expected %q", all, wire, dec, canon))
		}
	}
}
