package sendx

import (
	"bytes"
	"fmt"
	"regexp"
	"strings"

	"verif/harness/smtpx"
)

// Finding is one direct-oracle failure: a stable class name and a description.
type Finding struct{ Class, Detail string }

// ---------- C03: the server only ever commits complete messages; IsDelivered tells the truth ----------

// OracleC03 compares the server's commit log with independent full renderings of the batch and the
// per-message flags with the replies the server actually sent at end-of-data.
func OracleC03(c *Case, r *Result) []Finding {
	var out []Finding
	if r.Deadlock {
		out = append(out, Finding{"conc-deadlock", "a Send started from inside the body producer of another Send on the same Client did not return within 60 s"})
	}
	if r.Panic != "" {
		out = append(out, Finding{"send-panic-" + r.PanicWhere, fmt.Sprintf("Send panicked: %s", r.Panic)})
	}
	if !r.DialOK {
		if len(r.Commits) > 0 {
			out = append(out, Finding{"commit-without-send", "the dial failed but the server committed a message"})
		}
		return out
	}
	matched := make([]int, len(c.Msgs))
	for ci, cm := range r.Commits {
		found := -1
		for j, s := range c.Msgs {
			if r.Failed[j] || s.From != cm.From {
				continue
			}
			if bytes.Equal(DotCanon(r.Contents[j]), cm.Data) && strings.Join(s.Rcpts, ",") == strings.Join(cm.Rcpt, ",") {
				found = j
				break
			}
		}
		if found < 0 {
			what := "is not the complete rendering of any message of the batch"
			for j := range c.Msgs {
				full := DotCanon(r.Contents[j])
				if len(cm.Data) > 0 && len(cm.Data) <= len(full)+2 && bytes.HasPrefix(full, cm.Data[:len(cm.Data)-min(2, len(cm.Data))]) {
					what = fmt.Sprintf("is a fragment (%d bytes) of message %d (rendering failed: %v, complete rendering: %d bytes)", len(cm.Data), j, r.Failed[j], len(full))
					break
				}
			}
			out = append(out, Finding{"commit-not-a-complete-message", fmt.Sprintf("commit %d (from %s, %d bytes) %s", ci, cm.From, len(cm.Data), what)})
			continue
		}
		matched[found]++
	}
	for j, n := range matched {
		if n > 1 {
			out = append(out, Finding{"committed-twice", fmt.Sprintf("message %d was committed %d times in one call", j, n)})
		}
	}
	// an aborted DATA stays aborted: after DATA was accepted for a message whose producer fails, the server must not
	// receive the end-of-data line nor any further command on that connection
	{
		cur, aborted := "", ""
		for _, e := range r.Trace {
			if aborted != "" {
				switch e.Verb {
				case "EOD-MISSING":
				case "EOD":
					out = append(out, Finding{"aborted-data-terminated", fmt.Sprintf("the producer of the message of %s failed after DATA, but the server received the end-of-data line (reply %d)", aborted, e.Code)})
				default:
					out = append(out, Finding{"command-after-aborted-data", fmt.Sprintf("the producer of the message of %s failed after DATA, but the server then received %q", aborted, e.Line)})
				}
				continue
			}
			if e.Verb == "MAIL" && e.Accepted {
				cur = e.Arg
			}
			if e.Verb == "DATA" && e.Code == 354 {
				for j, s := range c.Msgs {
					if s.From == cur && r.Failed[j] {
						aborted = cur
					}
				}
			}
		}
	}
	// end-of-data acknowledgements per envelope sender (the generator uses one sender per message)
	acked := map[string]int{} // sender -> number of 250 replies at end-of-data
	cur := ""
	for _, e := range r.Trace {
		switch e.Verb {
		case "MAIL":
			if e.Accepted {
				cur = e.Arg
			}
		case "EOD":
			if e.Code == 250 {
				acked[cur]++
			}
		}
	}
	for j, s := range c.Msgs {
		if j >= len(r.Msgs) {
			break
		}
		m := r.Msgs[j]
		if s.From == "" {
			if m.Delivered {
				out = append(out, Finding{"delivered-without-ack", fmt.Sprintf("message %d has no sender but IsDelivered() = true", j)})
			}
			continue
		}
		if m.Delivered && acked[s.From] == 0 {
			out = append(out, Finding{"delivered-without-ack", fmt.Sprintf("message %d: IsDelivered() = true but the server never acknowledged an end-of-data of a transaction of %s with 250", j, s.From)})
		}
		if !m.Delivered && acked[s.From] > 0 {
			out = append(out, Finding{"acked-not-delivered", fmt.Sprintf("message %d: the server acknowledged an end-of-data of a transaction of %s with 250 but IsDelivered() = false", j, s.From)})
		}
		if r.Failed[j] {
			if m.Delivered {
				out = append(out, Finding{"render-failure-delivered", fmt.Sprintf("message %d: rendering fails but IsDelivered() = true", j)})
			}
			kind := r.RetKind
			if c.TwoBatches() && j >= c.Split() {
				kind = r.RetKind2
			}
			if !m.HasErr && kind != "conncheck" {
				out = append(out, Finding{"render-failure-no-error", fmt.Sprintf("message %d: rendering fails but the message carries no SendError", j)})
			}
		}
	}
	return out
}

func min(a, b int) int {
	if a < b {
		return a
	}
	return b
}

// capsAt is what an accepted EHLO advertises outside / inside TLS.
func (c *Case) capsAt(inTLS bool) []string {
	if inTLS && (c.TLS == 'O' || c.TLS == 'M') {
		return c.CapsTLS
	}
	return c.Caps
}

// ---------- C04: the dialogue stays legal and in step ----------

func legalClass(why string) string {
	switch {
	case strings.Contains(why, "STARTTLS"):
		return "starttls-illegal"
	case strings.Contains(why, "nested MAIL"):
		return "nested-mail"
	case strings.Contains(why, "RCPT without"):
		return "rcpt-without-mail"
	case strings.Contains(why, "DATA without"):
		return "data-without-rcpt"
	case strings.Contains(why, "DATA although"):
		return "data-after-rejected-rcpt"
	case strings.Contains(why, "in the latest EHLO reply"):
		return "param-not-advertised"
	case strings.Contains(why, "unknown MAIL parameter"), strings.Contains(why, "unknown RCPT parameter"):
		return "unknown-parameter"
	case strings.Contains(why, "unknown command"):
		return "unknown-command"
	case strings.Contains(why, "before HELO"):
		return "mail-before-helo"
	case strings.Contains(why, "CR/LF"), strings.Contains(why, "CRLF"):
		return "bad-line-ending"
	case strings.Contains(why, "syntax"):
		return "path-syntax"
	}
	return "illegal-other"
}

// OracleC04: legality verdicts of the reference server, reply attribution (in step), local refusal of 8bit
// messages without 8BITMIME.
func OracleC04(c *Case, r *Result) []Finding {
	var out []Finding
	ext8 := false // the latest accepted EHLO advertised 8BITMIME
	for _, e := range r.dialogue() {
		if !e.Legal {
			out = append(out, Finding{legalClass(e.Why), fmt.Sprintf("%q: %s", e.Line, e.Why)})
		}
		if e.Verb == "EHLO" && e.Accepted {
			ext8 = hasCap(c.capsAt(e.TLS), "8BITMIME")
		}
		if (e.Verb == "HELO" && e.Accepted) || (e.Verb == "STARTTLS" && e.Code == 220) {
			ext8 = false
		}
		if e.Verb == "MAIL" && !ext8 {
			for _, s := range c.Msgs {
				if s.From == e.Arg && s.Enc == 'n' {
					out = append(out, Finding{"8bit-not-refused", fmt.Sprintf("8bit message of %s reached MAIL although 8BITMIME was not advertised", s.From)})
				}
			}
		}
	}
	if bad := r.OutOfStep(); len(bad) > 0 {
		out = append(out, Finding{"out-of-step", strings.Join(bad, "; ")})
	}
	out = append(out, r.Misattributed()...)
	// the dial prefix: nothing is written before the greeting was read; nothing at all after a greeting other than 220
	for _, op := range r.Ops {
		if op.Kind == 'R' && len(op.Data) > 0 {
			break
		}
		if op.Kind == 'W' && op.Err == "" {
			out = append(out, Finding{"command-before-greeting", fmt.Sprintf("wrote %q before anything was read", op.Data)})
			break
		}
	}
	if len(r.Trace) > 1 && r.Trace[0].Verb == "GREETING" && r.Trace[0].Code != 220 {
		out = append(out, Finding{"command-after-refused-greeting", fmt.Sprintf("greeting answered %d but the client sent %q", r.Trace[0].Code, r.Trace[1].Line)})
	}
	// after the HELO fallback the extension map is gone: no parameters at all
	helo := false
	for _, e := range r.dialogue() {
		if e.Verb == "HELO" && e.Accepted {
			helo = true
		}
		if e.Verb == "EHLO" && e.Accepted {
			helo = false
		}
		if helo && (e.Verb == "MAIL" || e.Verb == "RCPT") && len(e.Params) > 0 {
			out = append(out, Finding{"param-after-helo-fallback", fmt.Sprintf("%q after the HELO fallback", e.Line)})
		}
	}
	return out
}

// ---------- C20: SendError reflects the server's verdict ----------

var escStart = regexp.MustCompile(`^([245]\.[0-9]{1,3}\.[0-9]{1,3})( |$)`)

// replyText is the text of the first line of a formatted reply ("554-5.7.1 a\r\n554 b\r\n" -> "5.7.1 a").
func replyText(formatted string) string {
	l := formatted
	if i := strings.Index(l, "\r\n"); i >= 0 {
		l = l[:i]
	}
	if len(l) >= 4 {
		return l[4:]
	}
	return ""
}

// Go-mail's SendErrReason values (senderror.go iota order) as the property names them.
const (
	reasonMail   = 2
	reasonRcpt   = 3
	reasonData   = 4
	reasonClose  = 5
	reasonReset  = 6
	reasonWrite  = 7
	reasonNo8bit = 9
)

// OracleC20 recomputes, from the replies the server actually sent, what the SendError of every message has to say.
func OracleC20(c *Case, r *Result) []Finding {
	var out []Finding
	if r.Panic != "" {
		return []Finding{{"send-panic-" + r.PanicWhere, fmt.Sprintf("Send panicked: %s", r.Panic)}}
	}
	if !r.DialOK {
		return out
	}
	// is ENHANCEDSTATUSCODES in force (latest accepted EHLO advertised it)?
	esc := false
	for _, e := range r.Trace {
		if e.Verb == "EHLO" && e.Accepted {
			esc = hasCap(c.capsAt(e.TLS), "ENHANCEDSTATUSCODES")
		}
		if (e.Verb == "HELO" && e.Accepted) || (e.Verb == "STARTTLS" && e.Code == 220) {
			esc = false
		}
	}
	dlg := r.dialogue()
	nerr := 0
	for j, s := range c.Msgs {
		if j >= len(r.Msgs) {
			break
		}
		m := r.Msgs[j]
		if m.HasErr {
			nerr++
		}
		if s.From == "" {
			continue
		}
		// the events of this message: from its MAIL to the next MAIL / QUIT
		var seg []smtpx.Event
		in := false
		for _, e := range dlg {
			if e.Verb == "MAIL" || e.Verb == "QUIT" {
				if in {
					break
				}
				if e.Verb == "MAIL" && e.Arg == s.From {
					in = true
				}
			}
			if in {
				seg = append(seg, e)
			}
		}
		if len(seg) == 0 {
			continue // never reached the wire (refused locally, or the connection was gone)
		}
		step, rejected := -1, []string(nil)
		var verdict *smtpx.Event
		complete := false
		sawEOD := false
	scan:
		for i := range seg {
			e := &seg[i]
			switch e.Verb {
			case "MAIL":
				if e.Code != 250 {
					step, verdict = reasonMail, e
					break scan
				}
			case "RCPT":
				if e.Code/10 != 25 {
					step, verdict = reasonRcpt, e
					rejected = append(rejected, e.Arg)
					if e.Code == 0 {
						// connection dropped: the remaining recipients cannot be transmitted any more and fail locally
						after := false
						for _, rc := range s.Rcpts {
							if after {
								rejected = append(rejected, rc)
							}
							if rc == e.Arg {
								after = true
							}
						}
						break scan
					}
				}
			case "DATA":
				if step == reasonRcpt {
					break scan
				}
				if e.Code != 354 {
					step, verdict = reasonData, e
					break scan
				}
			case "EOD":
				sawEOD = true
				if e.Code != 250 {
					step, verdict = reasonClose, e
					break scan
				}
			case "NOOP":
				if sawEOD && e.Code != 250 {
					step, verdict = reasonReset, nil // the NOOP of the connection check: its reply is not carried
					break scan
				}
			case "RSET":
				if step == reasonRcpt {
					break scan
				}
				if sawEOD {
					if e.Code != 250 {
						step, verdict = reasonReset, e
					} else {
						complete = true
					}
					break scan
				}
			}
		}
		if r.Failed[j] && step < 0 {
			// rendering fails after DATA was accepted
			hasData := false
			for _, e := range seg {
				if e.Verb == "DATA" && e.Code == 354 {
					hasData = true
				}
			}
			if hasData {
				step = reasonWrite
			}
		}
		switch {
		case step < 0 && complete:
			if m.HasErr {
				out = append(out, Finding{"unaffected-has-error", fmt.Sprintf("message %d: every command was answered as expected but the message carries a SendError (reason %d)", j, m.Reason)})
			}
		case step >= 0:
			if !m.HasErr {
				out = append(out, Finding{"failed-without-error", fmt.Sprintf("message %d failed at step %d but carries no SendError", j, step)})
				break
			}
			if m.Reason != step {
				out = append(out, Finding{"step-mismatch", fmt.Sprintf("message %d: failing step %d, SendError names %d", j, step, m.Reason)})
				break
			}
			if step == reasonRcpt && strings.Join(rejected, ",") != strings.Join(m.Rcpts, ",") {
				out = append(out, Finding{"rcpt-list-mismatch", fmt.Sprintf("message %d: rejected recipients %v, SendError lists %v", j, rejected, m.Rcpts)})
			}
			if verdict == nil && step == reasonReset {
				// the NOOP of the connection check after a delivered message was refused: the error is
				// ErrNoActiveConnection, its reply is not carried (NOOP is not one of the property's positions)
				if m.Code != 0 || m.Temp || m.ESC != "" {
					out = append(out, Finding{"code-mismatch-at-noop", fmt.Sprintf("message %d: NOOP refused after delivery, SendError carries code %d temp %v esc %q", j, m.Code, m.Temp, m.ESC)})
				}
				break
			}
			if verdict == nil {
				// no reply involved (render failure, rejected connection check): the property speaks about replies only;
				// go-mail classifies such errors by their text as well (by design, see senderror_test.go)
				break
			}
			if verdict.Code >= 400 && verdict.Code <= 599 {
				// one class per command position, so that a classifier change at one position always has its own replay
				suffix := "-at-" + map[int]string{reasonMail: "mail", reasonRcpt: "rcpt", reasonData: "data", reasonClose: "eod", reasonReset: "rset"}[step]
				if m.Code != verdict.Code {
					// did the fields come from the RSET that followed the failed step?
					for i := range seg {
						if seg[i].Verb == "RSET" && step != reasonReset && seg[i].Code == m.Code && m.Code != 0 {
							suffix = "-at-rset-after-failure"
						}
					}
					out = append(out, Finding{"code-mismatch" + suffix, fmt.Sprintf("message %d: reply %d at step %d, ErrorCode() = %d", j, verdict.Code, step, m.Code)})
				}
				if m.Temp != (verdict.Code/100 == 4) {
					out = append(out, Finding{"temp-mismatch" + suffix, fmt.Sprintf("message %d: reply %d at step %d, IsTemp() = %v", j, verdict.Code, step, m.Temp)})
				}
				want := ""
				if esc {
					if mm := escStart.FindStringSubmatch(replyText(verdict.Reply)); mm != nil {
						want = mm[1]
					}
				}
				if m.ESC != want {
					cl := "esc-mismatch"
					if want == "" {
						cl = "esc-not-at-start"
						if !esc {
							cl = "esc-not-advertised"
						}
					}
					out = append(out, Finding{cl + suffix, fmt.Sprintf("message %d: reply %q (ENHANCEDSTATUSCODES in force: %v), EnhancedStatusCode() = %q, expected %q", j, strings.TrimSpace(verdict.Reply), esc, m.ESC, want)})
				}
			} else if verdict.Code == 0 {
				if m.Code != 0 || m.Temp || m.ESC != "" {
					out = append(out, Finding{"code-mismatch-at-drop", fmt.Sprintf("message %d: connection dropped at step %d but the SendError carries code %d temp %v esc %q", j, step, m.Code, m.Temp, m.ESC)})
				}
			}
		}
	}
	joinCheck := func(kind string, joined, n int, what string) {
		if kind == "joined" && joined != n {
			out = append(out, Finding{"join-count-mismatch", fmt.Sprintf("%s: %d messages carry a SendError, the joined error has %d entries", what, n, joined)})
		}
		if (kind == "nil" || kind == "close") && n != 0 {
			out = append(out, Finding{"join-count-mismatch", fmt.Sprintf("%s: %d messages carry a SendError but Send returned %s", what, n, kind)})
		}
		if kind == "conncheck" && n != 0 {
			out = append(out, Finding{"join-count-mismatch", fmt.Sprintf("%s: the connection check failed but %d messages carry a SendError", what, n)})
		}
	}
	if c.TwoBatches() {
		n1, n2 := 0, 0
		for j, m := range r.Msgs {
			if m.HasErr {
				if j < c.Split() {
					n1++
				} else {
					n2++
				}
			}
		}
		joinCheck(r.RetKind, r.Joined, n1, "first Send")
		joinCheck(r.RetKind2, r.Joined2, n2, "second Send")
	} else {
		joinCheck(r.RetKind, r.Joined, nerr, "Send")
	}
	// the connection check in front of a batch and the QUIT: the kind of the returned error follows the reply
	if !c.TwoBatches() {
		var noop1, quit *smtpx.Event
		for i := range dlg {
			e := &dlg[i]
			if e.Verb == "NOOP" && noop1 == nil {
				noop1 = e
			}
			if e.Verb == "MAIL" && noop1 == nil {
				break
			}
			if e.Verb == "QUIT" {
				quit = e
			}
		}
		if noop1 != nil && !c.NoNoop {
			if (noop1.Code != 250) != (r.RetKind == "conncheck") {
				out = append(out, Finding{"result-mismatch-at-noop", fmt.Sprintf("connection check NOOP answered %d, Send returned %s", noop1.Code, r.RetKind)})
			}
		}
		if quit != nil && nerr == 0 && r.RetKind != "conncheck" && (c.Prog == "" || c.Prog == "das" || c.Prog == "dasn" || c.Prog == "send") {
			if (quit.Code != 221) != (r.RetKind == "close") {
				out = append(out, Finding{"result-mismatch-at-quit", fmt.Sprintf("QUIT answered %d, the call returned %s", quit.Code, r.RetKind)})
			}
		}
	}
	return out
}

// replyMessage is the message of a formatted reply as net/textproto joins it: the text of every line without
// "ddd-" / "ddd ", separated by "\n".
func replyMessage(formatted string) string {
	var l []string
	for _, line := range strings.Split(strings.TrimSuffix(formatted, "\r\n"), "\r\n") {
		if len(line) >= 4 {
			l = append(l, line[4:])
		} else {
			l = append(l, "")
		}
	}
	return strings.Join(l, "\n")
}

// Misattributed compares the client's own view of the dialogue (debug log: every command and the reply the client
// parsed for it) with the server's: the k-th command the client sent must be the k-th command the server
// received, and the reply the client attributes to it must be - code and complete message, all lines - the reply
// the server gave to exactly that command.  A continuation line (or any left-over) taken for the reply to the
// next command shows up here, also inside TLS.
func (r *Result) Misattributed() []Finding {
	if !r.HasLog {
		return nil
	}
	var cmds []smtpx.Event
	for _, e := range r.Trace {
		if e.Verb != "GREETING" && e.Verb != "EOD" && e.Verb != "EOD-MISSING" {
			cmds = append(cmds, e)
		}
	}
	k := 0
	var cur *smtpx.Event
	sent := ""
	for _, le := range r.Log {
		if le.ToServer {
			sent, cur = le.Text, nil
			if k < len(cmds) {
				cur = &cmds[k]
				k++
				if cur.Line != sent {
					return []Finding{{"reply-misattributed", fmt.Sprintf("command %d: the client sent %q, the server received %q as a command", k, sent, cur.Line)}}
				}
			}
			continue
		}
		if sent == "" {
			continue // the greeting is not logged as a reply to a command
		}
		switch {
		case cur == nil:
			if le.Code != 0 {
				return []Finding{{"reply-misattributed", fmt.Sprintf("%q never reached the server as a command, but the client took \"%d %s\" for its reply", sent, le.Code, le.Msg)}}
			}
		case cur.Code == 0:
			if le.Code != 0 {
				return []Finding{{"reply-misattributed", fmt.Sprintf("%q was not answered (connection dropped), but the client took \"%d %s\" for its reply", sent, le.Code, le.Msg)}}
			}
		default:
			if le.Code != cur.Code || le.Msg != replyMessage(cur.Reply) {
				return []Finding{{"reply-misattributed", fmt.Sprintf("%q was answered %q, the client took \"%d %s\" for its reply", sent, strings.TrimSpace(cur.Reply), le.Code, le.Msg)}}
			}
		}
		sent = ""
	}
	return nil
}
