// Package c07: "TLS policy and credential confidentiality hold against any server".  T2: the COMPLETE finite
// configuration table {4 TLS policies} x {13 auth types (+ a caller-supplied mechanism)} x {localhost names, other host}
// x {STARTTLS advertised or not} x {STARTTLS reply 220 / 4yz / 5yz / garbage} x {handshake ok / wrong-name certificate /
// untrusted certificate / garbage} x {AUTH lists of a small family}; every row is a real dial of the real client against
// the smtpx server with real crypto/tls, certificates generated at run time and go-mail's DEFAULT tls.Config (the
// harness CA is the process's system root via SSL_CERT_FILE).  Each row is a case: the model computes the same
// decision (result class, server log with clear/TLS flag per command, deadline arming) and the two must be equal.
// Direct oracle: the byte-exact tap of the client (everything before its first TLS record; for implicit TLS the raw
// bytes the TCP server read) is scanned for commands and for the password in plain, base64, hex and "\0u\0p" form.
package c07

import (
	"fmt"
	"path/filepath"
	"strings"

	"verif/harness/dialx"
	"verif/harness/hx"
)

func init() { hx.Register("C07", Run) }

var AuthTypes = []string{"CRAM-MD5", "CUSTOM", "LOGIN", "LOGIN-NOENC", "NOAUTH", "PLAIN", "PLAIN-NOENC", "XOAUTH2",
	"SCRAM-SHA-1", "SCRAM-SHA-1-PLUS", "SCRAM-SHA-256", "SCRAM-SHA-256-PLUS", "AUTODISCOVER"}

// the family of advertised AUTH parameter lists ("-" = no AUTH line at all, "" = an AUTH line without mechanisms)
var AuthLists = []string{"-", "", "PLAIN", "LOGIN", "PLAIN LOGIN", "CRAM-MD5", "PLAIN LOGIN CRAM-MD5", "XOAUTH2",
	"SCRAM-SHA-256 SCRAM-SHA-1", "SCRAM-SHA-256-PLUS SCRAM-SHA-256 PLAIN", "LOGIN CRAM-MD5 XOAUTH2 SCRAM-SHA-1-PLUS SCRAM-SHA-1",
	"XPLAIN LOGINX", "PLAIN LOGIN CRAM-MD5 XOAUTH2 SCRAM-SHA-1 SCRAM-SHA-1-PLUS SCRAM-SHA-256 SCRAM-SHA-256-PLUS"}

func caps(list string, starttls bool) []string {
	c := []string{"8BITMIME"}
	if starttls {
		c = append(c, "STARTTLS")
	}
	if list == "" {
		c = append(c, "AUTH")
	} else if list != "-" {
		c = append(c, "AUTH "+list)
	}
	return append(c, "ENHANCEDSTATUSCODES")
}

func verbOf(line string) string {
	f := strings.Fields(line)
	if len(f) == 0 {
		return ""
	}
	return strings.ToUpper(f[0])
}

func oracle(r *hx.Run, id string, c dialx.Case, o dialx.Obs) {
	if o.Hung {
		r.Fail(id, "call-blocked-beyond-bound", "dial did not return")
		return
	}
	what := fmt.Sprintf("policy %s ssl %v auth %s host %s handshake %s: result %s, server log %s", c.Policy, c.SSL, c.Auth, c.Host, c.HS, strings.Join(o.Results, "/"), o.Srv)
	lines := dialx.ClearLines(o.Clear)
	if c.SSL {
		if !o.AllTLS {
			r.Fail(id, "implicit-tls-cleartext", fmt.Sprintf("with implicit TLS the first bytes on the wire are not a TLS record: %q; %s", head(o.Clear), what))
		}
	} else {
		if c.Policy == "M" {
			for _, l := range lines {
				switch verbOf(l) {
				case "EHLO", "HELO", "STARTTLS", "QUIT":
				default:
					v := verbOf(l)
					switch v {
					case "AUTH", "MAIL", "RCPT", "DATA", "NOOP", "RSET", "VRFY", "*":
					default:
						v = "AUTH-DATA" // a continuation line of an AUTH exchange or message content
					}
					r.Fail(id, "mandatory-tls-cleartext-"+v, fmt.Sprintf("TLSMandatory: %q was sent before a TLS handshake completed; %s", l, what))
				}
			}
		}
		callerChoice := strings.HasSuffix(c.Auth, "-NOENC") || dialx.IsLocalhostName(c.Host) || c.Custom != "-"
		if f := dialx.FindSecret(o.Clear); f != "" && !callerChoice {
			r.Fail(id, "password-in-cleartext", fmt.Sprintf("the %s occurs in the cleartext part of the byte stream; %s", f, what))
		}
		if c.Auth == "AUTODISCOVER" {
			for _, l := range lines {
				u := strings.ToUpper(l)
				if strings.HasPrefix(u, "AUTH PLAIN") || strings.HasPrefix(u, "AUTH LOGIN") {
					r.Fail(id, "autodiscover-password-mechanism-unencrypted", fmt.Sprintf("auto-discovery chose %q on an unencrypted connection; %s", l, what))
				}
			}
		}
	}
	if c.HS != "ok" && strings.Contains(o.Srv, "/t:") {
		r.Fail(id, "proceeded-after-invalid-handshake", "commands were sent inside a TLS session whose handshake must not have succeeded; "+what)
	}
}

func head(b []byte) []byte {
	if len(b) > 40 {
		return b[:40]
	}
	return b
}

func Run(r *hx.Run, replay []hx.Case) {
	pki, err := dialx.Setup(filepath.Join(r.Dir, "pki"))
	if err != nil {
		r.Fail("setup", "harness-setup", err.Error())
		return
	}
	var cases []dialx.Case
	var ids []string
	if replay != nil {
		cases, ids = dialx.FromReplay(r, replay)
	} else {
		cases = Table(r.Tier == "thorough")
		for range cases {
			ids = append(ids, r.NewID())
		}
		r.Notes["table_rows"] = len(cases)
	}
	nontriv := func(c dialx.Case) bool { return c.Auth != "NOAUTH" || c.Policy != "N" || c.SSL }
	dialx.RunCases(r, pki, cases, ids, 32, nontriv, oracle)
}

// Table enumerates the complete configuration table.  Dimensions that cannot influence a row are not multiplied out:
// the STARTTLS reply exists only when STARTTLS is sent (mandatory: always when advertised; opportunistic: when
// advertised), the handshake only after a 220 (or with implicit TLS).  quick: the localhost names 127.0.0.1 and ::1
// run with a reduced AUTH-list family (they differ from "localhost" only in the string compared by isLocalhost).
func Table(thorough bool) []dialx.Case {
	var out []dialx.Case
	replies := []string{"ok", "454", "554", "0", "421"}
	hss := []string{"ok", "wrongname", "untrusted", "garbage"}
	type authv struct{ typ, custom string }
	var auths []authv
	for _, a := range AuthTypes {
		auths = append(auths, authv{a, "-"})
	}
	auths = append(auths, authv{"CUSTOM", "plain0"})
	memHosts := []string{"localhost", dialx.OtherMem, "127.0.0.1", "::1"}
	tcpHosts := []string{"127.0.0.1", dialx.OtherTCP}
	for _, a := range auths {
		for li, list := range AuthLists {
			authDec := "ok"
			if strings.Contains(list, "SCRAM") {
				authDec = "535" // no harness server speaks SCRAM (what a bare 235 does to a SCRAM client is C15's subject)
			}
			for hi, host := range memHosts {
				if hi >= 2 && !thorough && li%4 != 2 {
					continue
				}
				step := "" // decision for the 2nd client line of the AUTH exchange ("" = none)
				row := func(pol string, adv bool, reply, hs string) {
					c := dialx.Case{Kind: "dial", Policy: pol, Auth: a.typ, Custom: a.custom, Host: host, Mute: -1,
						Caps: caps(list, adv), CapsTLS: caps(list, false), HS: hs}
					sent := adv && pol != "N"
					switch {
					case sent && reply == "ok" && hs == "ok":
						c.Script = []string{"ok", "ok", "ok", "ok", authDec}
					case sent:
						c.Script = []string{"ok", "ok", reply}
					default:
						c.Script = []string{"ok", "ok", authDec}
					}
					if step != "" {
						c.Script = append(c.Script, step)
					}
					out = append(out, c)
				}
				for _, adv := range []bool{false, true} {
					row("N", adv, "ok", "ok")
				}
				// the AUTH exchange refused with 421 / 530 / 454 on the cleartext connection (the server does not disconnect)
				if authDec == "ok" {
					for _, d := range []string{"421", "530", "454"} {
						save := authDec
						authDec = d
						row("N", false, "ok", "ok")
						authDec = save
					}
				}
				// the 2nd step of a multi-step exchange (LOGIN user name, CRAM-MD5 response) refused, or the server gone
				if authDec == "ok" && (strings.HasPrefix(a.typ, "LOGIN") || a.typ == "CRAM-MD5" || a.typ == "AUTODISCOVER") {
					for _, d := range []string{"535", "421", "drop", "334b"} {
						step = d
						row("N", false, "ok", "ok")
						row("M", true, "ok", "ok")
						step = ""
					}
				}
				for _, pol := range []string{"M", "O"} {
					row(pol, false, "ok", "ok")
					for _, rep := range replies {
						if rep == "ok" {
							for _, hs := range hss {
								row(pol, true, rep, hs)
							}
						} else {
							row(pol, true, rep, "ok")
						}
					}
				}
			}
			for _, host := range tcpHosts {
				for _, hs := range hss {
					c := dialx.Case{Kind: "dial", Policy: "M", SSL: true, Auth: a.typ, Custom: a.custom, Host: host, Mute: -1,
						Caps: caps(list, false), CapsTLS: caps(list, false), HS: hs, Script: []string{"ok", "ok", authDec}}
					out = append(out, c)
				}
			}
		}
	}
	return out
}
