// Package c07: "TLS policy and credential confidentiality hold against any server".  T2: the COMPLETE finite
// configuration table {4 TLS policies} x {13 auth types (+ a caller-supplied mechanism)} x {localhost names, other host}
// x {STARTTLS advertised or not} x {STARTTLS reply 220 / 4yz / 5yz / garbage} x {handshake ok / wrong-name certificate /
// untrusted certificate / garbage} x {AUTH lists of a small family}; every row is a real dial of the real client against
// the smtpx server with real crypto/tls, certificates generated at run time and go-mail's DEFAULT tls.Config (the
// harness CA is the process's system root via SSL_CERT_FILE).  Each row is a case: the model computes the same
// decision (result class, server log with clear/TLS flag per command, deadline arming) and the two must be equal.
// Direct oracle: the byte-exact tap of the client (everything before its first TLS record; for implicit TLS the raw
// bytes the TCP server read) is scanned for commands and for the password in plain, base64, hex and "\0u\0p" form.
package c07

import (
	"context"
	"errors"
	"fmt"
	"net"
	"path/filepath"
	"reflect"
	"strings"
	"sync"
	"time"

	mail "github.com/wneessen/go-mail"

	"verif/harness/dialx"
	"verif/harness/hx"
	"verif/harness/smtpx"
)

func init() { hx.Register("C07", Run) }

var AuthTypes = []string{"CRAM-MD5", "CUSTOM", "LOGIN", "LOGIN-NOENC", "NOAUTH", "PLAIN", "PLAIN-NOENC", "XOAUTH2",
	"SCRAM-SHA-1", "SCRAM-SHA-1-PLUS", "SCRAM-SHA-256", "SCRAM-SHA-256-PLUS", "AUTODISCOVER"}

// the family of advertised AUTH parameter lists ("-" = no AUTH line at all, "" = an AUTH line without mechanisms)
var AuthLists = []string{"-", "", "PLAIN", "LOGIN", "PLAIN LOGIN", "CRAM-MD5", "PLAIN LOGIN CRAM-MD5", "XOAUTH2",
	"SCRAM-SHA-256 SCRAM-SHA-1", "SCRAM-SHA-256-PLUS SCRAM-SHA-256 PLAIN", "LOGIN CRAM-MD5 XOAUTH2 SCRAM-SHA-1-PLUS SCRAM-SHA-1",
	"XPLAIN LOGINX", "PLAIN LOGIN CRAM-MD5 XOAUTH2 SCRAM-SHA-1 SCRAM-SHA-1-PLUS SCRAM-SHA-256 SCRAM-SHA-256-PLUS"}

// LookAlikeHosts: names that look like the local machine but are not one of "localhost", "127.0.0.1", "::1"
var LookAlikeHosts = []string{"localhost.example.com", "localhost.", "localhost.localdomain", "LOCALHOST", "localhost6",
	"ip6-localhost", "127.0.0.2", "127.0.0.1.nip.io", "[::1]", "::2", "0.0.0.0", "mylocalhost", "localhost:25"}

var lookalikeAuth = map[string]bool{"PLAIN": true, "LOGIN": true, "PLAIN-NOENC": true, "LOGIN-NOENC": true, "AUTODISCOVER": true, "CUSTOM": true}

func caps(list string, starttls bool) []string {
	c := []string{"8BITMIME"}
	if starttls {
		c = append(c, "STARTTLS")
	}
	if list == "" {
		c = append(c, "AUTH")
	} else if list != "-" {
		c = append(c, "AUTH "+list)
	}
	return append(c, "ENHANCEDSTATUSCODES")
}

func verbOf(line string) string {
	f := strings.Fields(line)
	if len(f) == 0 {
		return ""
	}
	return strings.ToUpper(f[0])
}

func oracle(r *hx.Run, id string, c dialx.Case, o dialx.Obs) {
	if o.Hung {
		r.Fail(id, "call-blocked-beyond-bound", "dial did not return")
		return
	}
	what := fmt.Sprintf("policy %s ssl %v auth %s host %s handshake %s: result %s, server log %s", c.Policy, c.SSL, c.Auth, c.Host, c.HS, strings.Join(o.Results, "/"), o.Srv)
	lines := dialx.ClearLines(o.Clear)
	if c.SSL {
		if !o.AllTLS {
			r.Fail(id, "implicit-tls-cleartext", fmt.Sprintf("with implicit TLS the first bytes on the wire are not a TLS record: %q; %s", head(o.Clear), what))
		}
	} else {
		if c.Policy == "M" {
			for _, l := range lines {
				switch verbOf(l) {
				case "EHLO", "HELO", "STARTTLS", "QUIT":
				default:
					v := verbOf(l)
					switch v {
					case "AUTH", "MAIL", "RCPT", "DATA", "NOOP", "RSET", "VRFY", "*":
					default:
						v = "AUTH-DATA" // a continuation line of an AUTH exchange or message content
					}
					r.Fail(id, "mandatory-tls-cleartext-"+v, fmt.Sprintf("TLSMandatory: %q was sent before a TLS handshake completed; %s", l, what))
				}
			}
		}
		// a caller-supplied mechanism that allows unencrypted use is the caller's choice; the strict ones are not
		callerChoice := strings.HasSuffix(c.Auth, "-NOENC") || dialx.IsLocalhostName(c.Host) ||
			(c.Custom != "-" && c.Custom != "plain0" && c.Custom != "login0")
		if f := dialx.FindSecret(o.Clear); f != "" && !callerChoice {
			r.Fail(id, "password-in-cleartext", fmt.Sprintf("the %s occurs in the cleartext part of the byte stream; %s", f, what))
		}
		if c.Auth == "AUTODISCOVER" {
			for _, l := range lines {
				u := strings.ToUpper(l)
				if strings.HasPrefix(u, "AUTH PLAIN") || strings.HasPrefix(u, "AUTH LOGIN") {
					r.Fail(id, "autodiscover-password-mechanism-unencrypted", fmt.Sprintf("auto-discovery chose %q on an unencrypted connection; %s", l, what))
				}
			}
		}
	}
	if c.HS != "ok" && strings.Contains(o.Srv, "/t:") {
		r.Fail(id, "proceeded-after-invalid-handshake", "commands were sent inside a TLS session whose handshake must not have succeeded; "+what)
	}
}

func head(b []byte) []byte {
	if len(b) > 40 {
		return b[:40]
	}
	return b
}

func Run(r *hx.Run, replay []hx.Case) {
	pki, err := dialx.Setup(filepath.Join(r.Dir, "pki"))
	if err != nil {
		r.Fail("setup", "harness-setup", err.Error())
		return
	}
	var cases []dialx.Case
	var ids []string
	if replay != nil {
		var rest []hx.Case
		for _, hc := range replay {
			if hc.Kind == "cfg" && len(hc.Args) == 1 {
				runCfg(r, pki, hc.ID, hc.Args[0])
			} else if hc.Kind == "smtpc" {
				runSMTPLevel(r, pki, hc.ID, hc.Args)
			} else if strings.HasPrefix(hc.Kind, "seq") {
				if steps, err := parseSeq(hc.Args); err != nil {
					r.Fail(hc.ID, "bad-case", err.Error())
				} else {
					runSeqKind(r, pki, hc.ID, hc.Kind, steps)
				}
			} else {
				rest = append(rest, hc)
			}
		}
		cases, ids = dialx.FromReplay(r, rest)
	} else {
		cases = append(Table(r.Tier == "thorough"), dialx.FallbackTCPCases()...)
		for range cases {
			ids = append(ids, r.NewID())
		}
		r.Notes["table_rows"] = len(cases)
		seqs := cfgSequences()
		r.Notes["config_paths"] = len(seqs)
		for _, calls := range seqs {
			if r.Expired() {
				break
			}
			runCfg(r, pki, r.NewID(), calls)
		}
		for _, hc := range smtpLevelCases() {
			runSMTPLevel(r, pki, r.NewID(), hc.Args)
		}
		dseq := seqCases()
		dkinds := make([]string, len(dseq))
		for i := range dkinds {
			dkinds[i] = "seq"
		}
		hk, hs := historyCases()
		dseq, dkinds = append(dseq, hs...), append(dkinds, hk...)
		r.Notes["dial_sequences"] = len(dseq)
		// the sequences are independent (client and servers of their own): run them in parallel into private result
		// sets and merge these in order
		locals := make([]*hx.Run, len(dseq))
		ids := make([]string, len(dseq))
		for i := range dseq {
			ids[i] = r.NewID()
		}
		var wg sync.WaitGroup
		sem := make(chan struct{}, 16)
		for i := range dseq {
			if r.Expired() {
				break
			}
			wg.Add(1)
			sem <- struct{}{}
			go func(i int) {
				defer wg.Done()
				defer func() { <-sem }()
				lr := hx.NewRun(r.Prop, r.Tier, r.Seed, r.Dir)
				runSeqKind(lr, pki, ids[i], dkinds[i], dseq[i])
				locals[i] = lr
			}(i)
		}
		wg.Wait()
		for _, lr := range locals {
			if lr == nil {
				continue
			}
			for k, c := range lr.Cases {
				r.Add(c, strings.TrimPrefix(lr.Impl[k], c.ID+" "), true)
			}
			r.Failures = append(r.Failures, lr.Failures...)
			for key, n := range lr.Dist {
				if !strings.HasPrefix(key, "kind:") {
					r.Dist[key] += n
				}
			}
		}
	}
	nontriv := func(c dialx.Case) bool { return c.Auth != "NOAUTH" || c.Policy != "N" || c.SSL }
	dialx.RunCases(r, pki, cases, ids, 32, nontriv, oracle)
}

// Table enumerates the complete configuration table.  Dimensions that cannot influence a row are not multiplied out:
// the STARTTLS reply exists only when STARTTLS is sent (mandatory: always when advertised; opportunistic: when
// advertised), the handshake only after a 220 (or with implicit TLS).  quick: the localhost names 127.0.0.1 and ::1
// run with a reduced AUTH-list family (they differ from "localhost" only in the string compared by isLocalhost).
func Table(thorough bool) []dialx.Case {
	var out []dialx.Case
	replies := []string{"ok", "454", "554", "0", "421"}
	hss := []string{"ok", "wrongname", "untrusted", "garbage"}
	type authv struct{ typ, custom string }
	var auths []authv
	for _, a := range AuthTypes {
		auths = append(auths, authv{a, "-"})
	}
	auths = append(auths, authv{"CUSTOM", "plain0"})
	memHosts := []string{"localhost", dialx.OtherMem, "127.0.0.1", "::1"}
	tcpHosts := []string{"127.0.0.1", dialx.OtherTCP}
	for _, a := range auths {
		for li, list := range AuthLists {
			authDec := "ok"
			if strings.Contains(list, "SCRAM") {
				authDec = "535" // no harness server speaks SCRAM (what a bare 235 does to a SCRAM client is C15's subject)
			}
			for hi, host := range memHosts {
				if hi >= 2 && !thorough && li%4 != 2 {
					continue
				}
				step := "" // decision for the 2nd client line of the AUTH exchange ("" = none)
				row := func(pol string, adv bool, reply, hs string) {
					c := dialx.Case{Kind: "dial", Policy: pol, Auth: a.typ, Custom: a.custom, Host: host, Mute: -1,
						Caps: caps(list, adv), CapsTLS: caps(list, false), HS: hs}
					sent := adv && pol != "N"
					switch {
					case sent && reply == "ok" && hs == "ok":
						c.Script = []string{"ok", "ok", "ok", "ok", authDec}
					case sent:
						c.Script = []string{"ok", "ok", reply}
					default:
						c.Script = []string{"ok", "ok", authDec}
					}
					if step != "" {
						c.Script = append(c.Script, step)
					}
					out = append(out, c)
				}
				for _, adv := range []bool{false, true} {
					row("N", adv, "ok", "ok")
				}
				// the AUTH exchange refused with 421 / 530 / 454 on the cleartext connection (the server does not disconnect)
				if authDec == "ok" {
					for _, d := range []string{"421", "530", "454"} {
						save := authDec
						authDec = d
						row("N", false, "ok", "ok")
						authDec = save
					}
				}
				// the 2nd step of a multi-step exchange (LOGIN user name, CRAM-MD5 response) refused, or the server gone
				if authDec == "ok" && (strings.HasPrefix(a.typ, "LOGIN") || a.typ == "CRAM-MD5" || a.typ == "AUTODISCOVER") {
					for _, d := range []string{"535", "421", "drop", "334b"} {
						step = d
						row("N", false, "ok", "ok")
						row("M", true, "ok", "ok")
						step = ""
					}
				}
				for _, pol := range []string{"M", "O"} {
					row(pol, false, "ok", "ok")
					for _, rep := range replies {
						if rep == "ok" {
							for _, hs := range hss {
								row(pol, true, rep, hs)
							}
						} else {
							row(pol, true, rep, "ok")
						}
					}
				}
			}
			// look-alike host names that are NOT the local machine for smtp.isLocalhost: every row without a TLS handshake
			// (where the question "may the password go out in clear?" arises), for the password-revealing auth types
			if lookalikeAuth[a.typ] && (li == 2 || li == 3 || li == 4 || li == len(AuthLists)-1) {
				for _, host := range LookAlikeHosts {
					row := func(pol string, adv bool, reply string) {
						c := dialx.Case{Kind: "dial", Policy: pol, Auth: a.typ, Custom: a.custom, Host: host, Mute: -1,
							Caps: caps(list, adv), CapsTLS: caps(list, false), HS: "ok"}
						if adv && pol != "N" {
							c.Script = []string{"ok", "ok", reply}
						} else {
							c.Script = []string{"ok", "ok", authDec}
						}
						out = append(out, c)
					}
					row("N", false, "ok")
					row("N", true, "ok")
					row("O", false, "ok")
					row("M", false, "ok")
					row("O", true, "454")
				}
			}
			for _, host := range tcpHosts {
				for _, hs := range hss {
					c := dialx.Case{Kind: "dial", Policy: "M", SSL: true, Auth: a.typ, Custom: a.custom, Host: host, Mute: -1,
						Caps: caps(list, false), CapsTLS: caps(list, false), HS: hs, Script: []string{"ok", "ok", authDec}}
					out = append(out, c)
				}
			}
		}
	}
	return out
}

// ---------------------------------------------------------------------------------------------
// the configuration path: short sequences of the calls that decide TLS policy / port / fallback port / implicit TLS
// (options and setters mixed: all options are applied by NewClient in order, the setters afterwards), applied to the
// real client.  Observed: TLSPolicy(), ServerAddr() (public getters), the address of the second dial attempt (fallback
// port; the first attempt is refused by the dial function), useSSL (no getter: read through reflection), and a real
// DialAndSend of the configured client against a server that does not offer STARTTLS.

type cfgCall struct {
	tok    string
	option mail.Option
	setter func(c *mail.Client)
	policy string // the policy this call names ("" = none)
	ssl    string // the ssl flag this call names ("" = none)
}

func cfgAlphabet() (opts, sets []cfgCall) {
	pols := []struct {
		n string
		p mail.TLSPolicy
	}{{"M", mail.TLSMandatory}, {"O", mail.TLSOpportunistic}, {"N", mail.NoTLS}}
	for _, q := range pols {
		q := q
		opts = append(opts, cfgCall{tok: "WP:" + q.n, option: mail.WithTLSPolicy(q.p), policy: q.n})
		opts = append(opts, cfgCall{tok: "WQ:" + q.n, option: mail.WithTLSPortPolicy(q.p), policy: q.n})
		sets = append(sets, cfgCall{tok: "SP:" + q.n, setter: func(c *mail.Client) { c.SetTLSPolicy(q.p) }, policy: q.n})
		sets = append(sets, cfgCall{tok: "SQ:" + q.n, setter: func(c *mail.Client) { c.SetTLSPortPolicy(q.p) }, policy: q.n})
	}
	opts = append(opts, cfgCall{tok: "WS", option: mail.WithSSL(), ssl: "1"})
	for _, fb := range []bool{false, true} {
		fb := fb
		opts = append(opts, cfgCall{tok: "WL:" + b01(fb), option: mail.WithSSLPort(fb), ssl: "1"})
		for _, ssl := range []bool{false, true} {
			ssl := ssl
			sets = append(sets, cfgCall{tok: "SL:" + b01(ssl) + b01(fb), setter: func(c *mail.Client) { c.SetSSLPort(ssl, fb) }, ssl: b01(ssl)})
		}
	}
	for _, ssl := range []bool{false, true} {
		ssl := ssl
		sets = append(sets, cfgCall{tok: "SS:" + b01(ssl), setter: func(c *mail.Client) { c.SetSSL(ssl) }, ssl: b01(ssl)})
	}
	for _, port := range []int{25, 2525} {
		opts = append(opts, cfgCall{tok: fmt.Sprintf("WN:%d", port), option: mail.WithPort(port)})
	}
	return
}

func b01(x bool) string {
	if x {
		return "1"
	}
	return "0"
}

// cfgSequences: all sequences of length 1..3, options first
func cfgSequences() []string {
	opts, sets := cfgAlphabet()
	var all []cfgCall
	all = append(append(all, opts...), sets...)
	isOpt := func(c cfgCall) bool { return c.option != nil }
	var out []string
	var rec func(prefix []cfgCall, n int)
	rec = func(prefix []cfgCall, n int) {
		if len(prefix) > 0 {
			toks := make([]string, len(prefix))
			for i, c := range prefix {
				toks[i] = c.tok
			}
			out = append(out, strings.Join(toks, ","))
		}
		if n == 0 {
			return
		}
		for _, c := range all {
			if len(prefix) > 0 && isOpt(c) && !isOpt(prefix[len(prefix)-1]) {
				continue // an option cannot follow a setter
			}
			rec(append(append([]cfgCall{}, prefix...), c), n-1)
		}
	}
	rec(nil, 3)
	return out
}

func runCfg(r *hx.Run, pki *dialx.PKI, id, calls string) {
	opts, sets := cfgAlphabet()
	byTok := map[string]cfgCall{}
	for _, c := range append(opts, sets...) {
		byTok[c.tok] = c
	}
	var seq []cfgCall
	for _, t := range strings.Split(calls, ",") {
		c, ok := byTok[t]
		if !ok {
			r.Fail(id, "bad-case", "unknown configuration call "+t)
			return
		}
		seq = append(seq, c)
	}
	build := func(extra ...mail.Option) (*mail.Client, error) {
		var os []mail.Option
		for _, c := range seq {
			if c.option != nil {
				os = append(os, c.option)
			}
		}
		os = append(os, mail.WithHELO(dialx.HeloName), mail.WithTimeout(3*time.Second))
		os = append(os, extra...)
		cl, err := mail.NewClient(dialx.OtherMem, os...)
		if err != nil {
			return nil, err
		}
		for _, c := range seq {
			if c.setter != nil {
				c.setter(cl)
			}
		}
		return cl, nil
	}
	// (a) getters, and the dial addresses (every attempt refused)
	var addrs []string
	cl, err := build(mail.WithDialContextFunc(func(ctx context.Context, network, address string) (net.Conn, error) {
		addrs = append(addrs, address)
		return nil, errors.New("refused")
	}))
	if err != nil {
		r.Fail(id, "harness-error", err.Error())
		return
	}
	pol := map[string]string{"TLSMandatory": "M", "TLSOpportunistic": "O", "NoTLS": "N"}[cl.TLSPolicy()]
	port := portOf(cl.ServerAddr())
	_ = cl.DialWithContext(context.Background())
	fb := 0
	if len(addrs) >= 2 {
		fb = portOf(addrs[1])
	}
	if len(addrs) >= 1 && portOf(addrs[0]) != port {
		r.Fail(id, "dial-address-differs-from-ServerAddr", fmt.Sprintf("%s: ServerAddr %s, dialed %v", calls, cl.ServerAddr(), addrs))
	}
	ssl := "?"
	if f := reflect.ValueOf(cl).Elem().FieldByName("useSSL"); f.IsValid() && f.Kind() == reflect.Bool {
		ssl = b01(f.Bool())
	}
	// the specification, independently of the model: the last call that names a policy / an ssl flag decides
	wantPol, wantSSL := "M", "0"
	for _, c := range seq {
		if c.policy != "" {
			wantPol = c.policy
		}
		if c.ssl != "" {
			wantSSL = c.ssl
		}
	}
	if pol != wantPol {
		r.Fail(id, "policy-in-force-differs-from-last-setting", fmt.Sprintf("%s: TLSPolicy() = %s, the last policy-setting call says %s", calls, cl.TLSPolicy(), wantPol))
	}
	if ssl != "?" && ssl != wantSSL {
		r.Fail(id, "ssl-in-force-differs-from-last-setting", fmt.Sprintf("%s: useSSL = %s, the last ssl-setting call says %s", calls, ssl, wantSSL))
	}
	obs := fmt.Sprintf("policy=%s port=%d fb=%d ssl=%s", pol, port, fb, ssl)
	// (b) the configured client really dials and sends against a server that does not offer STARTTLS
	if ssl == "1" {
		obs += " dial=-"
	} else {
		c := dialx.Case{Kind: "das", Policy: pol, Auth: "NOAUTH", Custom: "-", Host: dialx.OtherMem, Mute: -1,
			Caps: []string{"8BITMIME"}, CapsTLS: []string{"8BITMIME"}, HS: "ok", Msgs: []int{1}, Fallback: fb != 0}
		o, err := dialx.RunWith(c, pki, 3*time.Second, func(extra ...mail.Option) (*mail.Client, error) { return build(extra...) })
		if err != nil {
			r.Fail(id, "harness-error", err.Error())
			return
		}
		obs += " dial=" + o.Observable(c)
		if wantPol == "M" && strings.Contains(o.Srv, "MAIL/c") {
			r.Fail(id, "mandatory-policy-lost-on-config-path", fmt.Sprintf("%s: the last policy-setting call says TLSMandatory, the server offers no STARTTLS, yet MAIL was sent in clear: %s", calls, o.Srv))
		}
		for _, l := range dialx.ClearLines(o.Clear) {
			if wantPol == "M" {
				switch verbOf(l) {
				case "EHLO", "HELO", "STARTTLS", "QUIT":
				default:
					r.Fail(id, "mandatory-policy-lost-on-config-path", fmt.Sprintf("%s: %q in clear under a mandatory policy", calls, l))
				}
			}
		}
	}
	r.Add(hx.Case{ID: id, Kind: "cfg", Args: []string{calls}}, obs, len(seq) > 1)
	r.Dist["cfg-path-length:"+fmt.Sprint(len(seq))]++
	r.Dist["cfg-effective:"+pol+"/ssl"+ssl]++
}

func portOf(addr string) int {
	i := strings.LastIndex(addr, ":")
	n := 0
	fmt.Sscanf(addr[i+1:], "%d", &n)
	return n
}

// ---------------------------------------------------------------------------------------------
// sequences of dials of ONE mail.Client: DialAndSend twice / Dial-Send-Reset-Close twice or three times, the server's
// behaviour (and possibly the client's policy, through SetTLSPolicy) differing between the dials.  Every step is
// observed and judged like a single dial; the model runs every step from its configuration alone.

func seqArgs(steps []dialx.Case) []string {
	var a []string
	for i, c := range steps {
		if i > 0 {
			a = append(a, "/")
		}
		a = append(a, c.Kind)
		a = append(a, c.Args()...)
	}
	return a
}

func parseSeq(args []string) ([]dialx.Case, error) {
	var steps []dialx.Case
	var cur []string
	flush := func() error {
		if len(cur) == 0 {
			return fmt.Errorf("empty step")
		}
		c, err := dialx.Parse(cur[0], cur[1:])
		if err != nil {
			return err
		}
		steps = append(steps, c)
		cur = nil
		return nil
	}
	for _, t := range args {
		if t == "/" {
			if err := flush(); err != nil {
				return nil, err
			}
			continue
		}
		cur = append(cur, t)
	}
	if err := flush(); err != nil {
		return nil, err
	}
	return steps, nil
}

func runSeq(r *hx.Run, pki *dialx.PKI, id string, steps []dialx.Case) {
	runSeqKind(r, pki, id, "seq", steps)
}

// runSeqKind: kind seq[Q][R] -- Q: the policy is changed through SetTLSPortPolicy instead of SetTLSPolicy; R: Reset() is
// called on the Client between the dials.  A step of kind dialk leaves its connection open for the next dial.
func runSeqKind(r *hx.Run, pki *dialx.PKI, id, kind string, steps []dialx.Case) {
	portPolicy, resetBetween := strings.Contains(kind[3:], "Q"), strings.Contains(kind[3:], "R")
	type kept struct {
		conn *smtpx.Conn
		srv  *smtpx.Server
		n    int
		step int
	}
	var open []kept
	defer func() {
		for _, k := range open {
			k.conn.Close()
			k.srv.Finish(20 * time.Millisecond)
		}
	}()
	first := steps[0]
	pol := map[string]mail.TLSPolicy{"M": mail.TLSMandatory, "O": mail.TLSOpportunistic, "N": mail.NoTLS}
	shared, err := mail.NewClient(first.Host, mail.WithHELO(dialx.HeloName), mail.WithTimeout(3*time.Second),
		mail.WithTLSPolicy(pol[first.Policy]), mail.WithSMTPAuth(mail.SMTPAuthType(first.Auth)),
		mail.WithUsername(dialx.User), mail.WithPassword(dialx.Pass))
	if err != nil {
		r.Fail(id, "harness-error", err.Error())
		return
	}
	var obs []string
	for k, c := range steps {
		c := c
		build := func(transport ...mail.Option) (*mail.Client, error) {
			// the configuration in force at THIS dial: setters between the dials (no-ops when nothing changes)
			if portPolicy {
				shared.SetTLSPortPolicy(pol[c.Policy])
			} else {
				shared.SetTLSPolicy(pol[c.Policy])
			}
			shared.SetSMTPAuth(mail.SMTPAuthType(c.Auth))
			shared.SetUsername(dialx.User)
			shared.SetPassword(dialx.Pass)
			for _, o := range transport {
				if err := o(shared); err != nil {
					return nil, err
				}
			}
			return shared, nil
		}
		o, err := dialx.RunWith(c, pki, 3*time.Second, build)
		if err != nil {
			r.Fail(id, "harness-error", err.Error())
			return
		}
		obs = append(obs, o.Observable(c))
		sid := fmt.Sprintf("%s (dial %d of %d)", id, k+1, len(steps))
		n0 := len(r.Failures)
		oracle(r, id, c, o)
		// the configuration in force at this dial must be applied to a NEW connection: a dial that reports success has
		// reached this step's server, and nothing more was written on a connection of an earlier dial
		if len(o.Results) > 0 && o.Results[0] == "ok" && o.Srv == "-" {
			r.Fail(id, "dial-success-without-new-connection", fmt.Sprintf("policy %s auth %s: DialWithContext reported success but no connection reached the server of this dial (results %s)", c.Policy, c.Auth, strings.Join(o.Results, "/")))
		}
		for _, kp := range open {
			if w := kp.conn.Written(); len(w) > kp.n {
				more := string(w[kp.n:])
				if len(more) > 120 {
					more = more[:120]
				}
				r.Fail(id, "dial-reused-earlier-connection", fmt.Sprintf("policy in force %s, auth %s: during this dial and its calls the client wrote on the connection of dial %d: %q", c.Policy, c.Auth, kp.step, more))
			}
		}
		for i := range open {
			open[i].n = len(open[i].conn.Written())
		}
		if o.Conn != nil {
			if resetBetween {
				_ = shared.Reset()
			}
			open = append(open, kept{o.Conn, o.Server, len(o.Conn.Written()), k + 1})
		}
		// auto-discovery is a function of this dial's advertised list and encryption state: on an unencrypted connection
		// it must end in "no supported mechanism" or in a mechanism that does not carry the password, never in the
		// refusal of PLAIN / LOGIN (which would mean an earlier, encrypted dial's choice was replayed)
		if c.Auth == "AUTODISCOVER" && !strings.Contains(o.Srv, "/t:") && len(o.Results) > 0 {
			last := o.Results[0]
			if last == "unenc" {
				r.Fail(id, "autodiscover-replays-earlier-choice", fmt.Sprintf("dial %d of the sequence is unencrypted, yet auto-discovery chose PLAIN/LOGIN (refused by the mechanism): %s", k+1, o.Srv))
			}
		}
		for i := n0; i < len(r.Failures); i++ {
			r.Failures[i].Detail = sid + ": " + r.Failures[i].Detail
		}
	}
	r.Add(hx.Case{ID: id, Kind: kind, Args: seqArgs(steps)}, strings.Join(obs, " / "), true)
	r.Dist["sequence-length:"+fmt.Sprint(len(steps))]++
	r.Dist["sequence-auth:"+first.Auth]++
}

// seqCases: transitions {TLS ok -> STARTTLS not advertised, TLS ok -> STARTTLS answered 454, plain -> TLS, mandatory
// TLS -> policy switched to NoTLS, TLS -> stripped -> TLS} x {same AUTH list, a different one} x every auth type x
// {localhost, other host} x {DialAndSend, Dial+Send+Reset+Close}
func seqCases() [][]dialx.Case {
	var out [][]dialx.Case
	// same list on every dial (with and without a mechanism that auto-discovery may use unencrypted), and a changing one
	lists := [][2]string{{"PLAIN LOGIN CRAM-MD5", "PLAIN LOGIN CRAM-MD5"}, {"PLAIN LOGIN", "PLAIN LOGIN"}, {"LOGIN", "LOGIN"}, {"PLAIN LOGIN", "LOGIN CRAM-MD5"}}
	type beh struct {
		pol    string
		adv    bool
		script []string
	}
	tlsOK := func(p string) beh { return beh{p, true, nil} }
	trans := [][]beh{
		{tlsOK("O"), {"O", false, nil}},
		{tlsOK("O"), {"O", true, []string{"ok", "ok", "454"}}},
		{{"N", false, nil}, tlsOK("O")},
		{tlsOK("M"), {"N", true, nil}},
		{tlsOK("O"), {"O", false, nil}, tlsOK("O")},
	}
	for _, a := range AuthTypes {
		if a == "CUSTOM" {
			continue
		}
		for _, host := range []string{"localhost", dialx.OtherMem} {
			for _, kind := range []string{"das", "sess"} {
				for _, ls := range lists {
					for _, tr := range trans {
						var steps []dialx.Case
						for i, b := range tr {
							list := ls[0]
							if i%2 == 1 {
								list = ls[1]
							}
							c := dialx.Case{Kind: kind, Policy: b.pol, Auth: a, Custom: "-", Host: host, Mute: -1,
								Caps: caps(list, b.adv), CapsTLS: caps(list, false), HS: "ok", Script: b.script, Msgs: []int{1}}
							if strings.HasPrefix(a, "SCRAM") {
								// no harness server speaks SCRAM: where AUTH is reached it is answered 535
								c.Caps, c.CapsTLS = caps(list+" "+a, b.adv), caps(list+" "+a, false)
								if b.script == nil {
									if b.adv && b.pol != "N" {
										c.Script = []string{"ok", "ok", "ok", "ok", "535"}
									} else {
										c.Script = []string{"ok", "ok", "535"}
									}
								}
							}
							steps = append(steps, c)
						}
						out = append(out, steps)
					}
				}
			}
		}
	}
	return out
}

// historyCases: a first dial under a weak configuration whose connection stays open (no Close; optionally a Reset), then a
// configuration change through a setter (TLS policy via SetTLSPolicy or SetTLSPortPolicy, auth type and credentials), then
// a second dial with Send / Reset / Close under the new configuration, against servers with STARTTLS working, not
// advertised, or answered 454
func historyCases() (kinds []string, out [][]dialx.Case) {
	list := "PLAIN LOGIN CRAM-MD5"
	type srv2 struct {
		adv    bool
		script []string
	}
	for _, host := range []string{dialx.OtherMem, "localhost"} {
		for _, p1 := range []string{"N", "O"} {
			for _, auths := range [][2]string{{"NOAUTH", "NOAUTH"}, {"NOAUTH", "CRAM-MD5"}, {"PLAIN-NOENC", "PLAIN"}} {
				for _, p2 := range []string{"M", "O"} {
					for _, s2 := range []srv2{{true, nil}, {false, nil}, {true, []string{"ok", "ok", "454"}}} {
						for _, kind := range []string{"seq", "seqQ", "seqR", "seqQR"} {
							c1 := dialx.Case{Kind: "dialk", Policy: p1, Auth: auths[0], Custom: "-", Host: host, Mute: -1,
								Caps: caps(list, false), CapsTLS: caps(list, false), HS: "ok"}
							c2 := dialx.Case{Kind: "sess", Policy: p2, Auth: auths[1], Custom: "-", Host: host, Mute: -1,
								Caps: caps(list, s2.adv), CapsTLS: caps(list, false), HS: "ok", Script: s2.script, Msgs: []int{1}}
							kinds = append(kinds, kind)
							out = append(out, []dialx.Case{c1, c2})
						}
					}
				}
			}
		}
	}
	return
}
