package c07

// smtp.Client level (oracle only): NewClient over an smtpx pair -> Hello -> StartTLS against a server whose handshake
// {completes, presents a wrong-name certificate, an untrusted certificate, garbage} -> Auth(PlainAuth / LoginAuth with
// allowUnenc = false) REGARDLESS of what StartTLS returned (a caller that ignores the error) -> scan of everything the
// client wrote to the raw socket.  The server keeps the connection open after a failed handshake and answers whatever
// arrives in clear, so that a password sent in clear is seen.

import (
	"bufio"
	"crypto/tls"
	"fmt"
	"net"
	"strings"
	"time"

	"github.com/wneessen/go-mail/smtp"

	"verif/harness/dialx"
	"verif/harness/hx"
	"verif/harness/smtpx"
)

func smtpLevelCases() []hx.Case {
	var out []hx.Case
	for _, hs := range []string{"ok", "wrongname", "untrusted", "garbage"} {
		for _, mech := range []string{"plain", "login"} {
			for _, host := range []string{dialx.OtherMem, "localhost.example.com"} {
				if hs == "ok" && host != dialx.OtherMem {
					continue // the harness certificate does not name that host
				}
				out = append(out, hx.Case{Kind: "smtpc", Args: []string{hs, mech, hx.Hex([]byte(host))}})
			}
		}
	}
	return out
}

func runSMTPLevel(r *hx.Run, pki *dialx.PKI, id string, args []string) {
	if len(args) != 3 {
		r.Fail(id, "bad-case", "smtpc needs 3 arguments")
		return
	}
	hs, mech, host := args[0], args[1], string(hx.UnHex(args[2]))
	cl, sv := smtpx.NewPair()
	_ = cl.SetDeadline(time.Now().Add(3 * time.Second))
	_ = sv.SetDeadline(time.Now().Add(3 * time.Second))
	done := make(chan struct{})
	go func() { // a server that survives a failed handshake and goes on in clear
		defer close(done)
		var conn net.Conn = sv
		br := bufio.NewReader(conn)
		reply := func(s string) { _, _ = conn.Write([]byte(s)) }
		reply("220 verif.test ESMTP\r\n")
		for {
			line, err := br.ReadString('\n')
			if err != nil {
				return
			}
			up := strings.ToUpper(strings.TrimSpace(line))
			switch {
			case strings.HasPrefix(up, "EHLO"):
				reply("250-verif.test\r\n250-STARTTLS\r\n250 AUTH PLAIN LOGIN\r\n")
			case up == "STARTTLS":
				reply("220 go ahead\r\n")
				if hs == "garbage" {
					buf := make([]byte, 4096)
					_, _ = conn.Read(buf) // the ClientHello
					reply("this is not TLS\r\n")
					br = bufio.NewReader(conn)
					continue
				}
				cert := map[string]tls.Certificate{"ok": pki.Good, "wrongname": pki.WrongName, "untrusted": pki.Untrusted}[hs]
				tc := tls.Server(conn, &tls.Config{Certificates: []tls.Certificate{cert}, MinVersion: tls.VersionTLS12})
				if err := tc.Handshake(); err == nil {
					conn = tc
				}
				br = bufio.NewReader(conn) // after a failed handshake: the raw connection again
			case strings.HasPrefix(up, "AUTH LOGIN"):
				reply("334 VXNlcm5hbWU6\r\n")
				if _, err := br.ReadString('\n'); err != nil {
					return
				}
				reply("334 UGFzc3dvcmQ6\r\n")
				if _, err := br.ReadString('\n'); err != nil {
					return
				}
				reply("235 ok\r\n")
			case strings.HasPrefix(up, "AUTH"):
				reply("235 ok\r\n")
			case up == "QUIT":
				reply("221 bye\r\n")
				return
			default:
				reply("500 what\r\n")
			}
		}
	}()
	var log []string
	c, err := smtp.NewClient(cl, host)
	if err != nil {
		r.Fail(id, "harness-error", err.Error())
		return
	}
	log = append(log, "Hello="+dialx.Classify(c.Hello(dialx.HeloName)))
	errTLS := c.StartTLS(&tls.Config{ServerName: host, MinVersion: tls.VersionTLS12})
	log = append(log, "StartTLS="+dialx.Classify(errTLS))
	var a smtp.Auth
	if mech == "plain" {
		a = smtp.PlainAuth("", dialx.User, dialx.Pass, host, false)
	} else {
		a = smtp.LoginAuth(dialx.User, dialx.Pass, host, false)
	}
	log = append(log, "Auth="+dialx.Classify(c.Auth(a))) // the caller ignored the StartTLS error
	_ = c.Close()
	cl.Close()
	<-done
	written := cl.Written()
	if f := dialx.FindSecret(written); f != "" {
		r.Fail(id, "password-in-cleartext-after-starttls", fmt.Sprintf("smtp.Client against %s (handshake %s), %s with allowUnenc=false: the %s is in the bytes written to the raw socket; calls: %s",
			host, hs, strings.ToUpper(mech), f, strings.Join(log, " ")))
	}
	if hs == "ok" && errTLS != nil {
		r.Fail(id, "harness-error", "the good handshake failed: "+errTLS.Error())
	}
	r.AddOracleOnly(hx.Case{ID: id, Kind: "smtpc", Args: args}, true)
	r.Dist["smtpc:"+hs+":"+strings.Join(log, " ")]++
}
