// Package c16: "Authentication secrets never reach the debug log" (C16).
// The real mechanisms are driven through smtp.Client.Auth (and, for the option plumbing, through
// mail.Client.DialWithContext) against reference SASL servers (harness/saslx) whose honest behaviour is disturbed
// at one step: 535, malformed challenge, unexpected extra challenge, disconnect, a garbage line instead of a reply,
// silence until the read times out (each right after EACH client line of the exchange); also wrong credentials.
// Kind cc: another public method of the same smtp.Client (Close, Quit, Reset, Noop) is called between two SASL steps, at
// every step of every mechanism (deterministically, from inside the mechanism's Next, when the Client's mutex is free -
// the interleaving a second goroutine could produce); nothing the mechanism handed out may reach any logger.  Sessions
// come in three hello modes: explicit Client.Hello before Auth, Auth as the first command on the connection (the
// implicit EHLO inside Auth is then logged with the logger attached), and the same with the HELO fallback.
//
// observable (compared with the model, kind auth16): result class, authIsActive / connection closed at return,
// every line written, every log.Log record handed to a capturing logger (direction + rendered text), and the two
// records of a NOOP sent after Auth.
// direct oracle: no record of the capturing logger and no byte of the formatted output of log.Stdlog / log.JSONlog
// contains the secret in plain, base64, hex, nor any line the client wrote during the exchange (raw or decoded);
// the NOOP after Auth is logged verbatim; with the opt-in the AUTH line is logged.
package c16

import (
	"bytes"
	"context"
	"crypto/tls"
	"encoding/base64"
	"encoding/hex"
	"encoding/json"
	"fmt"
	"net"
	"strconv"
	"strings"

	mail "github.com/wneessen/go-mail"
	"github.com/wneessen/go-mail/log"
	"github.com/wneessen/go-mail/smtp"
	"verif/harness/hx"
	"verif/harness/saslx"
)

// ---- capturing logger ----
// recs: every record rendered at the moment it is handed over (compared with the model).  raw: the log.Log values
// themselves, RETAINED as given (Format and Messages, nothing copied) - a custom logger is free to format later;
// Late renders them after the session.
type capLogger struct {
	recs [][]byte
	raw  []log.Log
}

func render(l log.Log) []byte {
	d := byte('<')
	if l.Direction == log.DirClientToServer {
		d = '>'
	}
	return append([]byte{d}, []byte(fmt.Sprintf(l.Format, l.Messages...))...)
}

// Late renders the retained records now.
func (c *capLogger) Late() [][]byte {
	out := make([][]byte, len(c.raw))
	for i, l := range c.raw {
		out[i] = render(l)
	}
	return out
}

// batchLogger retains records and renders them in batches of n (a buffering custom logger); the rest at Flush.
type batchLogger struct {
	n    int
	pend []log.Log
	out  [][]byte
}

func (b *batchLogger) add(l log.Log) {
	b.pend = append(b.pend, l)
	if len(b.pend) >= b.n {
		b.Flush()
	}
}
func (b *batchLogger) Flush() {
	for _, l := range b.pend {
		b.out = append(b.out, render(l))
	}
	b.pend = nil
}
func (b *batchLogger) Debugf(l log.Log) { b.add(l) }
func (b *batchLogger) Infof(l log.Log)  { b.add(l) }
func (b *batchLogger) Warnf(l log.Log)  { b.add(l) }
func (b *batchLogger) Errorf(l log.Log) { b.add(l) }

func (c *capLogger) add(l log.Log) {
	c.raw = append(c.raw, l)
	d := byte('<')
	if l.Direction == log.DirClientToServer {
		d = '>'
	}
	c.recs = append(c.recs, append([]byte{d}, []byte(fmt.Sprintf(l.Format, l.Messages...))...))
}
func (c *capLogger) Debugf(l log.Log) { c.add(l) }
func (c *capLogger) Infof(l log.Log)  { c.add(l) }
func (c *capLogger) Warnf(l log.Log)  { c.add(l) }
func (c *capLogger) Errorf(l log.Log) { c.add(l) }

// ---- scenarios ----
type scenario struct {
	mech   string // plain login cram xoauth2 sha1 sha256 sha256plus
	mut    string // none f535 malformed extra drop wrongpw
	at     int    // step the mutation applies to
	user   string
	secret string
	lad    bool
	// helloLines: EHLO/HELO lines of the last run that happened with the logger attached (implicit hello inside Auth)
	helloLines int
	hello      string // "e" explicit Client.Hello before Auth, "i" implicit EHLO inside Auth, "h" implicit with HELO fallback
	tlsState   *tls.ConnectionState
}

type reply struct {
	code int
	text string
}

// raw is non-empty when the server does something else than sending a well-formed reply (code -1: a garbage line,
// code -2: silence until the read times out); the client's read fails
func (r reply) raw() string {
	switch r.code {
	case -1:
		return "@#\r\n"
	case -2:
		return saslx.StallMarker
	}
	return ""
}

// honest reference server for one exchange; reply to the k-th line (0 = the AUTH command)
type refServer struct {
	sc        *scenario
	srvSecret string
	scram     *saslx.ScramServer
	chal      string
}

func (s *refServer) honest(k int, line string) reply {
	fail := reply{535, "5.7.8 authentication failed"}
	arg := func() []byte {
		parts := strings.SplitN(line, " ", 3)
		if len(parts) < 3 {
			return nil
		}
		b, _ := saslx.UnB64(parts[2])
		return b
	}
	dec := func() []byte { b, _ := saslx.UnB64(line); return b }
	switch s.sc.mech {
	case "plain":
		if _, u, p, err := saslx.ParsePlain(arg()); err == nil && u == s.sc.user && p == s.srvSecret {
			return reply{235, "2.7.0 ok"}
		}
		return fail
	case "login":
		switch k {
		case 0:
			return reply{334, saslx.B64([]byte("Username:"))}
		case 1:
			return reply{334, saslx.B64([]byte("Password:"))}
		default:
			if string(dec()) == s.srvSecret {
				return reply{235, "2.7.0 ok"}
			}
			return fail
		}
	case "cram":
		if k == 0 {
			s.chal = saslx.CramChallenge("1896.697170952")
			return reply{334, saslx.B64([]byte(s.chal))}
		}
		if u, ok := saslx.VerifyCram(s.chal, dec(), func(string) (string, bool) { return s.srvSecret, true }); ok && u == s.sc.user {
			return reply{235, "2.7.0 ok"}
		}
		return fail
	case "xoauth2":
		if k == 0 {
			if u, t, err := saslx.ParseXOAuth2(arg()); err == nil && u == s.sc.user && t == s.srvSecret {
				return reply{235, "2.7.0 ok"}
			}
			return reply{334, saslx.B64([]byte(`{"status":"401","schemes":"bearer"}`))}
		}
		return fail
	default: // scram
		switch k {
		case 0:
			return reply{334, ""}
		case 1:
			sf, err := s.scram.First(dec())
			if err != nil {
				return fail
			}
			return reply{334, saslx.B64(sf)}
		case 2:
			fin, err := s.scram.Final(dec())
			if err != nil {
				return fail
			}
			return reply{334, saslx.B64(fin)}
		default:
			return reply{235, "2.7.0 ok"}
		}
	}
}

func hashOf(mech string) saslx.Hash {
	if mech == "sha1" {
		return saslx.SHA1
	}
	return saslx.SHA256
}

func newRef(sc *scenario) *refServer {
	s := &refServer{sc: sc, srvSecret: sc.secret}
	if sc.mut == "wrongpw" {
		s.srvSecret = sc.secret + "-not"
	}
	if strings.HasPrefix(sc.mech, "sha") {
		np, _ := saslx.Opaque(s.srvSecret)
		st := saslx.Store(hashOf(sc.mech), string(np), []byte("c16-salt"), 3)
		s.scram = &saslx.ScramServer{Hash: hashOf(sc.mech), Plus: sc.mech == "sha256plus", NonceSuffix: "c16srv",
			Lookup: func(string) (saslx.Stored, bool) { return st, true }}
		if sc.tlsState != nil {
			s.scram.CBType, s.scram.CBData, _ = saslx.ChannelBinding(*sc.tlsState)
		}
	}
	return s
}

// script state: decides the reply for each line, applying the mutation
type scripted struct {
	ref     *refServer
	sc      *scenario
	k       int // honest step counter
	n       int // lines seen
	extra   bool
	replies []reply
	dropped bool
}

func (s *scripted) onLine(line string) (reply, bool) {
	if s.dropped {
		return reply{}, false
	}
	var r reply
	switch {
	case line == "NOOP" || line == "RSET":
		return reply{250, "ok"}, true // outside the script
	case line == "*":
		r = reply{501, "5.0.0 aborted"}
	case line == "QUIT":
		r = reply{221, "2.0.0 bye"}
	default:
		step := s.n
		s.n++
		switch {
		case s.sc.mut == "f535" && step == s.sc.at:
			r = reply{535, "5.7.8 authentication failed"}
		case s.sc.mut == "malformed" && step == s.sc.at:
			r = reply{334, "!!!not-base64!!!"}
		case s.sc.mut == "drop" && step == s.sc.at:
			s.dropped = true
			return reply{}, false
		case s.sc.mut == "garbage" && step == s.sc.at:
			r = reply{-1, ""} // no reply code: textproto reports a protocol error, no reply was received
		case s.sc.mut == "stall" && step == s.sc.at:
			r = reply{-2, ""} // silence until the read deadline
		case s.sc.mut == "extra" && step == s.sc.at && !s.extra:
			s.extra = true
			r = reply{334, saslx.B64([]byte("one more?"))}
		default:
			r = s.ref.honest(s.k, line)
			s.k++
		}
	}
	s.replies = append(s.replies, r)
	return r, true
}

func mkAuth(sc *scenario) smtp.Auth {
	switch sc.mech {
	case "plain":
		return smtp.PlainAuth("", sc.user, sc.secret, "localhost", false)
	case "login":
		return smtp.LoginAuth(sc.user, sc.secret, "localhost", false)
	case "cram":
		return smtp.CRAMMD5Auth(sc.user, sc.secret)
	case "xoauth2":
		return smtp.XOAuth2Auth(sc.user, sc.secret)
	case "sha1":
		return smtp.ScramSHA1Auth(sc.user, sc.secret)
	case "sha256":
		return smtp.ScramSHA256Auth(sc.user, sc.secret)
	default:
		return smtp.ScramSHA256PlusAuth(sc.user, sc.secret, sc.tlsState)
	}
}

var capsLine = "AUTH PLAIN LOGIN CRAM-MD5 XOAUTH2 SCRAM-SHA-1 SCRAM-SHA-256 SCRAM-SHA-256-PLUS"

// one run through smtp.Client.Auth with the given logger; returns class, lines, replies, whether closed
func runSMTP(sc *scenario, lg log.Logger) (string, []string, []reply, bool, error) {
	st := &scripted{ref: newRef(sc), sc: sc}
	sess, err := saslx.NewSessionHello("localhost", []string{capsLine}, func(line string) string {
		r, ok := st.onLine(line)
		if !ok {
			return ""
		}
		if r.raw() != "" {
			return r.raw()
		}
		return saslx.FormatReply(r.code, r.text)
	}, sc.hello)
	if err != nil {
		return "", nil, nil, false, err
	}
	c := sess.Client
	defer func() { sc.helloLines = sess.HelloLines }()
	c.SetLogger(lg)
	c.SetDebugLog(true)
	if sc.lad {
		c.SetLogAuthData()
	}
	aerr := c.Auth(mkAuth(sc))
	closed := sess.Conn.CloseCount() > 0
	var lines []string
	for _, l := range sess.Lines {
		lines = append(lines, l)
	}
	if !closed {
		st.dropped = false
		_ = c.Noop()
		_ = sess.Conn.Close()
	}
	return saslx.Classify(aerr), lines, st.replies, closed, nil
}

// ---- the secret scan ----
func needles(sc *scenario, lines []string) map[string][]byte {
	n := map[string][]byte{}
	sec := []byte(sc.secret)
	n["plain"] = sec
	n["base64"] = []byte(base64.StdEncoding.EncodeToString(sec))
	n["hex"] = []byte(hex.EncodeToString(sec))
	n["plain-framing"] = []byte(base64.StdEncoding.EncodeToString([]byte("\x00" + sc.user + "\x00" + sc.secret)))
	n["xoauth2-framing"] = []byte(base64.StdEncoding.EncodeToString([]byte("user=" + sc.user + "\x01auth=Bearer " + sc.secret + "\x01\x01")))
	for i, l := range lines {
		if l == "*" || l == "QUIT" || l == "NOOP" || len(l) < 8 {
			continue
		}
		if strings.HasPrefix(l, "AUTH ") {
			parts := strings.SplitN(l, " ", 3)
			if len(parts) < 3 {
				continue
			}
			l = parts[2]
		}
		n[fmt.Sprintf("client-line-%d", i)] = []byte(l)
		if d, ok := saslx.UnB64(l); ok && len(d) >= 8 {
			n[fmt.Sprintf("client-line-%d-decoded", i)] = d
			// SCRAM proof / CRAM digest: the last attribute / word
			s := string(d)
			if j := strings.LastIndex(s, ",p="); j >= 0 {
				n["scram-proof"] = []byte(s[j+3:])
			}
			if j := strings.LastIndex(s, " "); j >= 0 && len(s)-j-1 == 32 {
				n["cram-digest"] = []byte(s[j+1:])
			}
		}
	}
	return n
}

func scan(r *hx.Run, id, where string, text []byte, nd map[string][]byte) {
	for name, v := range nd {
		if len(v) >= 6 && bytes.Contains(text, v) {
			r.Fail(id, "secret-in-log-"+where, fmt.Sprintf("%s (%q) occurs in the %s output", name, v, where))
			return
		}
	}
}

func jsonMsgs(out []byte) []byte {
	var all []byte
	for _, line := range bytes.Split(out, []byte("\n")) {
		var m map[string]interface{}
		if json.Unmarshal(line, &m) == nil {
			if s, ok := m["msg"].(string); ok {
				all = append(all, []byte(s)...)
				all = append(all, '\n')
			}
		}
	}
	return all
}

func replyArg(rs []reply) string {
	if len(rs) == 0 {
		return "-"
	}
	parts := make([]string, len(rs))
	for i, r := range rs {
		if r.raw() != "" {
			parts[i] = "bad"
			continue
		}
		parts[i] = strconv.Itoa(r.code) + ":" + hx.Hex([]byte(r.text))
	}
	return strings.Join(parts, ",")
}

func b2s(b bool) string {
	if b {
		return "1"
	}
	return "0"
}

func opt(b []byte, ok bool) string {
	if !ok {
		return "!"
	}
	return hx.Hex(b)
}

func randsOf(lines []string) [][]byte {
	var out [][]byte
	for _, l := range lines {
		if m, ok := saslx.UnB64(l); ok {
			if cf, err := saslx.ParseClientFirst(m); err == nil {
				if raw, ok := saslx.UnB64(cf.Nonce); ok {
					out = append(out, raw)
				}
			}
		}
	}
	return out
}

func hexLines(l []string) string {
	bl := make([][]byte, len(l))
	for i, x := range l {
		bl[i] = []byte(x)
	}
	return hx.HexList(bl)
}

// case: sc <mech> <mut> <at> <lad> <user> <secret>
func runCase(r *hx.Run, c hx.Case) {
	defer func() {
		if p := recover(); p != nil {
			r.Fail(c.ID, "panic", fmt.Sprint(p))
		}
	}()
	switch c.Kind {
	case "sc", "auth16":
		var sc scenario
		if c.Kind == "auth16" {
			// a replayed model case carries its scenario in the last argument
			c = hx.Case{ID: c.ID, Kind: "sc", Args: strings.Split(string(hx.UnHex(c.Args[len(c.Args)-1])), " ")}
		}
		sc.mech, sc.mut = c.Args[0], c.Args[1]
		sc.at, _ = strconv.Atoi(c.Args[2])
		sc.lad = c.Args[3] == "1"
		sc.user, sc.secret = string(hx.UnHex(c.Args[4])), string(hx.UnHex(c.Args[5]))
		sc.hello = "e"
		if len(c.Args) > 6 {
			sc.hello = c.Args[6]
		}
		if sc.mech == "sha256plus" {
			sc.tlsState = saslx.TLSState(tls.VersionTLS13)
		}
		scArg := hx.Hex([]byte(strings.Join(c.Args, " ")))
		// 1. capturing logger: compared with the model
		cap := &capLogger{}
		class, lines, replies, closed, err := runSMTP(&sc, cap)
		if err != nil {
			r.Fail(c.ID, "harness", err.Error())
			return
		}
		nd := needles(&sc, lines)
		var authRecs, postRecs [][]byte
		authRecs = cap.recs
		if sc.hello != "e" {
			// the implicit EHLO (and HELO) inside Auth was logged too: two records per hello line, before the AUTH records;
			// the model starts after the hello exchange
			nh := 2 * sc.helloLines
			if nh > len(authRecs) {
				nh = len(authRecs)
			}
			authRecs = authRecs[nh:]
		}
		if !closed && len(authRecs) >= 2 {
			authRecs, postRecs = authRecs[:len(authRecs)-2], authRecs[len(authRecs)-2:]
		}
		var authLines []string
		for _, l := range lines {
			if l != "NOOP" {
				authLines = append(authLines, l)
			}
		}
		if !sc.lad {
			for _, rec := range cap.recs {
				scan(r, c.ID, "capture", rec, nd)
			}
			// a custom logger that keeps the log.Log values and formats them after the session
			for _, rec := range cap.Late() {
				scan(r, c.ID, "retaining-logger", rec, nd)
			}
		} else if len(authRecs) > 0 && len(authLines) > 0 && string(authRecs[0]) != ">"+authLines[0] {
			r.Fail(c.ID, "opt-in-not-logged", fmt.Sprintf("with SetLogAuthData the first record is %q, the AUTH line %q", authRecs[0], authLines[0]))
		}
		if !closed {
			if len(postRecs) != 2 || string(postRecs[0]) != ">NOOP" || string(postRecs[1]) != "<250 ok" {
				r.Fail(c.ID, "post-auth-not-verbatim", fmt.Sprintf("NOOP after Auth logged as %q", postRecs))
			}
		}
		// the model case
		var margs []string
		switch sc.mech {
		case "plain":
			margs = []string{"plain", "~", hx.Hex([]byte(sc.user)), hx.Hex([]byte(sc.secret)), hx.Hex([]byte("localhost")), "0", hx.Hex([]byte("localhost")), "0"}
		case "login":
			margs = []string{"login", hx.Hex([]byte(sc.user)), hx.Hex([]byte(sc.secret)), hx.Hex([]byte("localhost")), "0", hx.Hex([]byte("localhost")), "0"}
		case "cram":
			margs = []string{"cram", hx.Hex([]byte(sc.user)), hx.Hex([]byte(sc.secret))}
		case "xoauth2":
			margs = []string{"xoauth2", hx.Hex([]byte(sc.user)), hx.Hex([]byte(sc.secret))}
		default:
			nu, uok := saslx.Opaque(saslx.EscapeName(sc.user))
			np, pok := saslx.Opaque(sc.secret)
			margs = []string{"scram", sc.mech, hx.Hex([]byte(sc.user)), hx.Hex([]byte(sc.secret)), opt(nu, uok), opt(np, pok),
				hx.HexList(randsOf(authLines)), saslx.TLSArg(sc.tlsState)}
		}
		mc := hx.Case{ID: c.ID, Kind: "auth16", Args: append(append([]string{b2s(sc.lad), replyArg(replies)}, margs...), scArg)}
		post := "-"
		if !closed {
			post = hx.HexList(postRecs)
		}
		observable := fmt.Sprintf("%s 0 %s S:%s L:%s P:%s", hx.Hex([]byte(class)), b2s(closed), hexLines(authLines), hx.HexList(authRecs), post)
		r.Dist["mech:"+sc.mech]++
		r.Dist["mut:"+sc.mut]++
		r.Dist["hello:"+sc.hello]++
		r.Dist["result:"+class]++
		r.Add(mc, observable, sc.mut != "none")
		if sc.lad {
			return
		}
		// 2. custom loggers that format in batches of 3 / 4 records
		for _, n := range []int{3, 4} {
			bl := &batchLogger{n: n}
			if _, lb, _, _, err := runSMTP(&sc, bl); err == nil {
				bl.Flush()
				ndb := needles(&sc, lb)
				for _, rec := range bl.out {
					scan(r, c.ID, "batching-logger", rec, ndb)
				}
			}
		}
		// 3. the stock loggers: formatted output scanned
		var sb, jb bytes.Buffer
		if _, l2, _, _, err := runSMTP(&sc, log.New(&sb, log.LevelDebug)); err == nil {
			scan(r, c.ID, "stdlog", sb.Bytes(), needles(&sc, l2))
			if !bytes.Contains(sb.Bytes(), []byte("<SMTP auth data redacted>")) {
				r.Fail(c.ID, "stdlog-no-placeholder", "no redaction placeholder in the Stdlog output")
			}
		}
		if _, l3, _, _, err := runSMTP(&sc, log.NewJSON(&jb, log.LevelDebug)); err == nil {
			nd3 := needles(&sc, l3)
			scan(r, c.ID, "jsonlog", jb.Bytes(), nd3)
			scan(r, c.ID, "jsonlog", jsonMsgs(jb.Bytes()), nd3)
		}
	case "mc":
		runMailClient(r, c)
	case "cc":
		runCC(r, c)
	case "aa":
		runAA(r, c)
	default:
		panic("unknown case kind " + c.Kind)
	}
}

// hookAuth wraps a mechanism: before its at-th call of Next it runs call() - another public method of the same
// smtp.Client (Close, Quit, Reset, Noop), as a second goroutine (an application timeout, a keep-alive) could between two
// SASL steps, when the Client's mutex is free.  It records everything the mechanism hands to the Auth loop.
type hookAuth struct {
	inner smtp.Auth
	at, n int
	call  func()
	resps [][]byte
}

func (h *hookAuth) Start(si *smtp.ServerInfo) (string, []byte, error) {
	if h.at == -1 && h.call != nil {
		h.call() // before the AUTH command is sent
	}
	m, resp, err := h.inner.Start(si)
	if resp != nil {
		h.resps = append(h.resps, resp)
	}
	return m, resp, err
}

func (h *hookAuth) Next(fromServer []byte, more bool) ([]byte, error) {
	if h.n == h.at && h.call != nil {
		h.call()
	}
	h.n++
	resp, err := h.inner.Next(fromServer, more)
	if len(resp) > 0 {
		h.resps = append(h.resps, resp)
	}
	return resp, err
}

// case: cc <mech> <method> <at> <hello e|i> <user> <secret>; oracle only, every logger.
//
//	method: close quit reset noop | dbgon (the session starts with debug logging OFF, SetDebugLog(true) is called at that
//	point) | dbgtoggle (SetDebugLog(true), (false), SetLogger, (true)) | setlogger (the logger is replaced by a second one;
//	both are scanned) | logauth (SetLogAuthData: from then on the data MAY be logged - only the records handed over before
//	the call are scanned; afterwards the NOOP after Auth must be logged verbatim);  at = -1: inside Start, before the AUTH
//	command is sent; at = k: before the k-th call of Next
func runCC(r *hx.Run, c hx.Case) {
	var sc scenario
	sc.mech, sc.mut = c.Args[0], "none"
	method := c.Args[1]
	at, _ := strconv.Atoi(c.Args[2])
	sc.hello = c.Args[3]
	sc.user, sc.secret = string(hx.UnHex(c.Args[4])), string(hx.UnHex(c.Args[5]))
	if sc.mech == "sha256plus" {
		sc.tlsState = saslx.TLSState(tls.VersionTLS13)
	}
	r.AddOracleOnly(c, true)
	r.Dist["concurrent:"+method]++
	debugOff := method == "dbgon" || method == "dbgtoggle"
	// one session; lg2 replaces lg for method setlogger; atCall is run when the method is called
	one := func(lg, lg2 log.Logger, atCall func()) (*hookAuth, []string) {
		st := &scripted{ref: newRef(&sc), sc: &sc}
		sess, err := saslx.NewSessionHello("localhost", []string{capsLine}, func(line string) string {
			rp, ok := st.onLine(line)
			if !ok {
				return ""
			}
			return saslx.FormatReply(rp.code, rp.text)
		}, sc.hello)
		if err != nil {
			return nil, nil
		}
		cl := sess.Client
		cl.SetLogger(lg)
		if !debugOff {
			cl.SetDebugLog(true)
		}
		h := &hookAuth{inner: mkAuth(&sc), at: at}
		h.call = func() {
			if atCall != nil {
				atCall()
			}
			switch method {
			case "close":
				_ = cl.Close()
			case "quit":
				_ = cl.Quit()
			case "reset":
				_ = cl.Reset()
			case "noop":
				_ = cl.Noop()
			case "dbgon":
				cl.SetDebugLog(true)
			case "dbgtoggle":
				cl.SetDebugLog(true)
				cl.SetDebugLog(false)
				cl.SetLogger(lg)
				cl.SetDebugLog(true)
			case "setlogger":
				cl.SetLogger(lg2)
			case "logauth":
				cl.SetLogAuthData()
			}
		}
		_ = cl.Auth(h)
		if sess.Conn.CloseCount() == 0 {
			_ = cl.Noop()
			_ = sess.Conn.Close()
		}
		return h, sess.Lines
	}
	nd := func(h *hookAuth, lines []string) map[string][]byte {
		m := needles(&sc, lines)
		for i, rp := range h.resps {
			if len(rp) >= 6 {
				m[fmt.Sprintf("sasl-response-%d", i)] = rp
				m[fmt.Sprintf("sasl-response-%d-base64", i)] = []byte(base64.StdEncoding.EncodeToString(rp))
			}
		}
		return m
	}
	where := "-after-concurrent-" + method
	cap, cap2 := &capLogger{}, &capLogger{}
	cut := -1
	if h, lines := one(cap, cap2, func() { cut = len(cap.recs) }); h != nil {
		n := nd(h, lines)
		recs, late := cap.recs, cap.Late()
		if method == "logauth" {
			// the opt-in was given at record [cut]: what was handed over before must be clean; what follows may carry the data
			if cut >= 0 && cut <= len(recs) {
				recs, late = recs[:cut], nil
			}
			if k := len(cap.recs); k >= 2 && string(cap.recs[k-2]) != ">NOOP" && string(cap.recs[k-1]) == "<250 ok" {
				r.Fail(c.ID, "window-left-open-after-optin-during-auth", fmt.Sprintf("%s: SetLogAuthData called while Auth was running (at %d): the NOOP after Auth is logged as %q", sc.mech, at, cap.recs[k-2]))
			}
		}
		for _, rec := range append(append([][]byte{}, recs...), cap2.recs...) {
			scan(r, c.ID, "capture"+where, rec, n)
		}
		for _, rec := range append(append([][]byte{}, late...), cap2.Late()...) {
			scan(r, c.ID, "retaining-logger"+where, rec, n)
		}
	}
	if method == "logauth" {
		return
	}
	bl, bl2 := &batchLogger{n: 3}, &batchLogger{n: 3}
	if h, lines := one(bl, bl2, nil); h != nil {
		bl.Flush()
		bl2.Flush()
		n := nd(h, lines)
		for _, rec := range append(append([][]byte{}, bl.out...), bl2.out...) {
			scan(r, c.ID, "batching-logger"+where, rec, n)
		}
	}
	var sb, jb bytes.Buffer
	if h, lines := one(log.New(&sb, log.LevelDebug), log.New(&sb, log.LevelDebug), nil); h != nil {
		scan(r, c.ID, "stdlog"+where, sb.Bytes(), nd(h, lines))
	}
	if h, lines := one(log.NewJSON(&jb, log.LevelDebug), log.NewJSON(&jb, log.LevelDebug), nil); h != nil {
		n := nd(h, lines)
		scan(r, c.ID, "jsonlog"+where, jb.Bytes(), n)
		scan(r, c.ID, "jsonlog"+where, jsonMsgs(jb.Bytes()), n)
	}
}

// two and three Auth calls on ONE smtp.Client (one connection): the first fails after the AUTH command was sent (535, wrong
// password, malformed / extra challenge -> abort with "*" and QUIT), then Auth is called again (same or another mechanism);
// the server answers the QUIT of the aborted exchange with 221 (the client closes: the next AUTH line is still handed to
// the logger before the write fails) or with 250 (the connection stays usable).  Oracle only; every logger.
// case: aa <mech1> <mut1> <at1> <mech2> <quitcode> <n> <user> <secret>
func runAA(r *hx.Run, c hx.Case) {
	mech1, mut1 := c.Args[0], c.Args[1]
	at1, _ := strconv.Atoi(c.Args[2])
	mech2 := c.Args[3]
	quit := c.Args[4]
	n, _ := strconv.Atoi(c.Args[5])
	user, secret := string(hx.UnHex(c.Args[6])), string(hx.UnHex(c.Args[7]))
	r.AddOracleOnly(c, true)
	r.Dist["multi-auth:"+mech1+">"+mech2]++
	mk := func(mech, mut string, at int) *scenario {
		sc := &scenario{mech: mech, mut: mut, at: at, user: user, secret: secret, hello: "e"}
		if mech == "sha256plus" {
			sc.tlsState = saslx.TLSState(tls.VersionTLS13)
		}
		return sc
	}
	one := func(lg log.Logger) map[string][]byte {
		var st *scripted
		sess, err := saslx.NewSessionHello("localhost", []string{capsLine}, func(line string) string {
			if line == "QUIT" && quit == "250" {
				return "250 2.0.0 not yet\r\n"
			}
			rp, ok := st.onLine(line)
			if !ok {
				return ""
			}
			if rp.raw() != "" {
				return rp.raw()
			}
			return saslx.FormatReply(rp.code, rp.text)
		}, "e")
		if err != nil {
			return nil
		}
		cl := sess.Client
		cl.SetLogger(lg)
		cl.SetDebugLog(true)
		nd := map[string][]byte{}
		for i := 0; i < n; i++ {
			sc := mk(mech2, "none", 0)
			if i == 0 || (n == 3 && i == 1) {
				sc = mk(mech1, mut1, at1)
			}
			st = &scripted{ref: newRef(sc), sc: sc}
			h := &hookAuth{inner: mkAuth(sc), at: -2}
			_ = cl.Auth(h)
			for k, v := range needles(sc, sess.Lines) {
				nd[k] = v
			}
			for j, rp := range h.resps {
				if len(rp) >= 6 {
					nd[fmt.Sprintf("auth%d-sasl-response-%d", i, j)] = rp
					nd[fmt.Sprintf("auth%d-sasl-response-%d-base64", i, j)] = []byte(base64.StdEncoding.EncodeToString(rp))
				}
			}
		}
		_ = sess.Conn.Close()
		return nd
	}
	where := "-second-auth-on-client"
	cap := &capLogger{}
	if nd := one(cap); nd != nil {
		for _, rec := range cap.recs {
			scan(r, c.ID, "capture"+where, rec, nd)
		}
		for _, rec := range cap.Late() {
			scan(r, c.ID, "retaining-logger"+where, rec, nd)
		}
	}
	bl := &batchLogger{n: 3}
	if nd := one(bl); nd != nil {
		bl.Flush()
		for _, rec := range bl.out {
			scan(r, c.ID, "batching-logger"+where, rec, nd)
		}
	}
	var sb, jb bytes.Buffer
	if nd := one(log.New(&sb, log.LevelDebug)); nd != nil {
		scan(r, c.ID, "stdlog"+where, sb.Bytes(), nd)
	}
	if nd := one(log.NewJSON(&jb, log.LevelDebug)); nd != nil {
		scan(r, c.ID, "jsonlog"+where, jb.Bytes(), nd)
		scan(r, c.ID, "jsonlog"+where, jsonMsgs(jb.Bytes()), nd)
	}
}

// mail.Client level: option plumbing (WithLogger, WithDebugLog, WithLogAuthData); oracle only
// case: mc <mech> <mut> <at> <lad> <user> <secret>
func runMailClient(r *hx.Run, c hx.Case) {
	var sc scenario
	sc.mech, sc.mut = c.Args[0], c.Args[1]
	sc.at, _ = strconv.Atoi(c.Args[2])
	sc.lad = c.Args[3] == "1"
	sc.user, sc.secret = string(hx.UnHex(c.Args[4])), string(hx.UnHex(c.Args[5]))
	st := &scripted{ref: newRef(&sc), sc: &sc}
	var lines []string
	inHello := true
	conn := saslx.NewFuncConn("220 localhost ESMTP\r\n", func(line string) string {
		if inHello && strings.HasPrefix(line, "EHLO") {
			inHello = false
			return "250-localhost\r\n250-" + capsLine + "\r\n250 OK\r\n"
		}
		lines = append(lines, line)
		rp, ok := st.onLine(line)
		if !ok {
			return ""
		}
		if rp.raw() != "" {
			return rp.raw()
		}
		return saslx.FormatReply(rp.code, rp.text)
	})
	at := map[string]mail.SMTPAuthType{"plain": mail.SMTPAuthPlainNoEnc, "login": mail.SMTPAuthLoginNoEnc, "cram": mail.SMTPAuthCramMD5,
		"xoauth2": mail.SMTPAuthXOAUTH2, "sha1": mail.SMTPAuthSCRAMSHA1, "sha256": mail.SMTPAuthSCRAMSHA256}[sc.mech]
	cap := &capLogger{}
	opts := []mail.Option{mail.WithPort(25), mail.WithTLSPolicy(mail.NoTLS), mail.WithSMTPAuth(at), mail.WithUsername(sc.user),
		mail.WithPassword(sc.secret), mail.WithLogger(cap), mail.WithDebugLog(),
		mail.WithDialContextFunc(func(ctx context.Context, network, address string) (net.Conn, error) { return conn, nil })}
	if sc.lad {
		opts = append(opts, mail.WithLogAuthData())
	}
	cl, err := mail.NewClient("localhost", opts...)
	if err != nil {
		r.Fail(c.ID, "harness", err.Error())
		return
	}
	derr := cl.DialWithContext(context.Background())
	if derr == nil {
		_ = cl.Close()
	}
	r.Dist["mailclient:"+sc.mech]++
	r.AddOracleOnly(c, sc.mut != "none")
	nd := needles(&sc, lines)
	if !sc.lad {
		for _, rec := range cap.recs {
			scan(r, c.ID, "mailclient-capture", rec, nd)
		}
		if derr == nil {
			found := false
			for _, rec := range cap.recs {
				if string(rec) == ">QUIT" {
					found = true
				}
			}
			if !found {
				r.Fail(c.ID, "post-auth-not-verbatim", "the QUIT of Close after a successful dial is not logged verbatim")
			}
		}
	} else if derr == nil {
		found := false
		for _, rec := range cap.recs {
			if len(lines) > 0 && string(rec) == ">"+lines[0] {
				found = true
			}
		}
		if !found {
			r.Fail(c.ID, "opt-in-not-logged", "WithLogAuthData: the AUTH line is not in the log")
		}
	}
}

func init() { hx.Register("C16", Run) }

var mechs = []string{"plain", "login", "cram", "xoauth2", "sha1", "sha256", "sha256plus"}
var steps = map[string]int{"plain": 1, "login": 3, "cram": 2, "xoauth2": 1, "sha1": 4, "sha256": 4, "sha256plus": 4}

func secretOf(r *hx.Run, i int) string {
	const al = "abcdefghijklmnopqrstuvwxyzABCDEFGHIJKLMNOPQRSTUVWXYZ0123456789"
	special := []string{"", ",", "=", " ", "\"", "\\", "é", "%s", "<>", "+/"}
	b := make([]byte, 8+r.Rng.Intn(10))
	for j := range b {
		b[j] = al[r.Rng.Intn(len(al))]
	}
	return "S3cr3t" + special[i%len(special)] + string(b)
}

// Run generates (or replays) the C16 cases.
func Run(r *hx.Run, replay []hx.Case) {
	if err := saslx.SelfTest(); err != nil {
		r.Fail("selftest", "reference-selftest", err.Error())
		return
	}
	if replay != nil {
		for _, c := range replay {
			runCase(r, c)
		}
		return
	}
	rounds := 8
	if r.Tier == "thorough" {
		rounds = 80
	}
	// another public method of the same smtp.Client called between two SASL steps (every step of every mechanism)
	ccRounds := 1
	if r.Tier == "thorough" {
		ccRounds = 10
	}
	for round := 0; round < ccRounds && !r.Expired(); round++ {
		for _, m := range mechs {
			for at := -1; at < steps[m]; at++ {
				for _, method := range []string{"close", "quit", "reset", "noop", "dbgon", "dbgtoggle", "setlogger", "logauth"} {
					for _, h := range []string{"e", "i"} {
						runCase(r, hx.Case{ID: r.NewID(), Kind: "cc", Args: []string{m, method, strconv.Itoa(at), h,
							hx.Hex([]byte("user")), hx.Hex([]byte(secretOf(r, at+1+round)))}})
					}
				}
			}
		}
	}
	// two / three Auth calls on one smtp.Client, the first one(s) failing after the AUTH command was sent
	for round := 0; round < ccRounds && !r.Expired(); round++ {
		for _, m := range mechs {
			type fm struct {
				mut string
				at  int
			}
			for _, f := range []fm{{"wrongpw", 0}, {"f535", 0}, {"f535", steps[m] - 1}, {"malformed", 0}, {"extra", 0}} {
				for _, m2 := range []string{m, "plain"} {
					for _, q := range []string{"221", "250"} {
						for _, n := range []string{"2", "3"} {
							runCase(r, hx.Case{ID: r.NewID(), Kind: "aa", Args: []string{m, f.mut, strconv.Itoa(f.at), m2, q, n,
								hx.Hex([]byte("user")), hx.Hex([]byte(secretOf(r, f.at+round)))}})
						}
					}
				}
			}
		}
	}
	users := []string{"user", "user@example.com", "u,s=er", "Jürgen"}
	i := 0
	for round := 0; round < rounds && !r.Expired(); round++ {
		for _, m := range mechs {
			muts := []struct {
				mut string
				at  int
			}{{"none", 0}, {"wrongpw", 0}}
			for k := 0; k < steps[m]+1; k++ {
				muts = append(muts, struct {
					mut string
					at  int
				}{"f535", k}, struct {
					mut string
					at  int
				}{"malformed", k}, struct {
					mut string
					at  int
				}{"extra", k}, struct {
					mut string
					at  int
				}{"drop", k}, struct {
					mut string
					at  int
				}{"garbage", k}, struct {
					mut string
					at  int
				}{"stall", k})
			}
			for _, mu := range muts {
				for _, lad := range []string{"0", "1"} {
					if lad == "1" && round > 0 && mu.mut != "none" {
						continue
					}
					i++
					user := users[i%len(users)]
					args := []string{m, mu.mut, strconv.Itoa(mu.at), lad, hx.Hex([]byte(user)), hx.Hex([]byte(secretOf(r, i)))}
					runCase(r, hx.Case{ID: r.NewID(), Kind: "sc", Args: args})
					// Auth as the FIRST command on the connection (implicit EHLO inside Auth; HELO fallback)
					if lad == "0" && (mu.mut == "none" || mu.mut == "wrongpw" || (mu.mut == "f535" && mu.at == steps[m]-1) || (mu.mut == "malformed" && mu.at == 0)) {
						for _, h := range []string{"i", "h"} {
							runCase(r, hx.Case{ID: r.NewID(), Kind: "sc", Args: append(append([]string{}, args...), h)})
						}
					}
					if m != "sha256plus" && (round == 0 || r.Tier == "thorough") {
						runCase(r, hx.Case{ID: r.NewID(), Kind: "mc", Args: args})
					}
				}
			}
		}
	}
}
