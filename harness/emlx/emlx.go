// Package emlx: helpers shared by the EML harnesses (C09, C10).
//
// Oracle tree: the model of eml.go (coq/theories/Eml.v) does not model the Go standard library;
// it takes the *results* of net/mail.ReadMessage, the address/date parsers, mime.ParseMediaType,
// mime/multipart.Reader and the transfer decoders as oracle arguments.  Tree computes exactly
// those results for a given input by calling the real stdlib (never go-mail), and prints them in
// the token format coq/extract/eml/driver.ml reads.
package emlx

import (
	"bytes"
	"encoding/base64"
	"errors"
	"fmt"
	"io"
	"mime"
	"mime/multipart"
	"mime/quotedprintable"
	netmail "net/mail"
	"runtime/debug"
	"sort"
	"strings"
	"time"

	mail "github.com/wneessen/go-mail"
	"verif/harness/hx"
)

// FailReader delivers data[:off] (in chunks of at most Chunk bytes, 0 = everything) and then fails.
type FailReader struct {
	Data  []byte
	Off   int // fail when this many bytes were delivered; < 0: never fail (EOF at the end)
	Chunk int
	pos   int
}

var ErrInjected = errors.New("injected read error")

func (f *FailReader) Read(p []byte) (int, error) {
	limit := len(f.Data)
	if f.Off >= 0 && f.Off < limit {
		limit = f.Off
	}
	if f.pos >= limit {
		if f.Off >= 0 && f.Off <= len(f.Data) {
			return 0, ErrInjected
		}
		return 0, io.EOF
	}
	n := limit - f.pos
	if n > len(p) {
		n = len(p)
	}
	if f.Chunk > 0 && n > f.Chunk {
		n = f.Chunk
	}
	copy(p, f.Data[f.pos:f.pos+n])
	f.pos += n
	return n, nil
}

func b01(b bool) string {
	if b {
		return "1"
	}
	return "0"
}

// entity prints one entity (header + body) and, recursively, what multipart.Reader yields on it.
func entity(sb *strings.Builder, h map[string][]string, getCT string, body []byte, readOK bool, depth int) {
	keys := make([]string, 0, len(h))
	n := 0
	for k, vs := range h {
		keys = append(keys, k)
		n += len(vs)
	}
	sort.Strings(keys)
	fmt.Fprintf(sb, " E %d", n)
	for _, k := range keys {
		for _, v := range h[k] {
			fmt.Fprintf(sb, " %s %s", hx.Hex([]byte(k)), hx.Hex([]byte(v)))
		}
	}
	mediatype, params, err := mime.ParseMediaType(getCT)
	boundary, hb := "", false
	switch {
	case err != nil && strings.EqualFold(err.Error(), "mime: no media type"):
		sb.WriteString(" N")
	case err != nil:
		sb.WriteString(" X")
	default:
		cs := "-"
		if v, ok := params["charset"]; ok {
			cs = hx.Hex([]byte(v))
		}
		boundary, hb = params["boundary"]
		fmt.Fprintf(sb, " M %s %s %s", hx.Hex([]byte(mediatype)), cs, b01(hb))
	}
	rawh := hx.Hex(body)
	dec := func(d []byte, err error) string {
		if err != nil {
			return "!"
		}
		if h := hx.Hex(d); h != rawh {
			return h
		}
		return "="
	}
	qd, qerr := io.ReadAll(quotedprintable.NewReader(bytes.NewReader(body)))
	sd, serr := io.ReadAll(base64.NewDecoder(base64.StdEncoding, bytes.NewReader(body)))
	dd, derr := base64.StdEncoding.DecodeString(string(body))
	fmt.Fprintf(sb, " %s %s %s %s %s", b01(readOK), rawh, dec(qd, qerr), dec(sd, serr), dec(dd, derr))
	if !hb || depth > 40 {
		sb.WriteString(" 0 1")
		return
	}
	type part struct {
		h    map[string][]string
		data []byte
		ok   bool
	}
	var parts []part
	endOK := false
	mr := multipart.NewReader(bytes.NewReader(body), boundary)
	for {
		p, err := mr.NextPart()
		if err != nil {
			endOK = errors.Is(err, io.EOF)
			break
		}
		data, rerr := io.ReadAll(p)
		parts = append(parts, part{h: p.Header, data: data, ok: rerr == nil})
	}
	fmt.Fprintf(sb, " %d %s", len(parts), b01(endOK))
	for _, p := range parts {
		entity(sb, p.h, netmail.Header(p.h).Get("Content-Type"), p.data, p.ok, depth+1)
	}
}

// Tree returns the oracle tokens "<msg_ok> <addr_ok> <date_ok> <entity…>" for the input read
// through a FailReader with the given fail offset (off < 0: no failure) and chunk size.
func Tree(raw []byte, off, chunk int) string {
	var sb strings.Builder
	pm, err := netmail.ReadMessage(&FailReader{Data: raw, Off: off, Chunk: chunk})
	var body bytes.Buffer
	if err == nil {
		_, err = body.ReadFrom(pm.Body)
	}
	if err != nil || pm == nil {
		return "0 - - - - - E 0 N 1 ~ = = = 0 1"
	}
	strs := func(l []*netmail.Address) string {
		out := "a"
		for i, a := range l {
			if i > 0 {
				out += ","
			}
			out += hx.Hex([]byte(a.String()))
		}
		return out
	}
	from, to := "-", [3]string{"-", "-", "-"}
	if v := pm.Header.Get("From"); v != "" {
		if a, e := netmail.ParseAddress(v); e != nil {
			from = "!"
		} else {
			from = strs([]*netmail.Address{a})
		}
	}
	for i, k := range []string{"To", "Cc", "Bcc"} {
		if v := pm.Header.Get(k); v != "" {
			if l, e := netmail.ParseAddressList(v); e != nil {
				to[i] = "!"
			} else {
				to[i] = strs(l)
			}
		}
	}
	date := "-"
	if t, e := pm.Header.Date(); e == nil {
		date = "d" + hx.Hex([]byte(t.Format(time.RFC1123Z)))
	} else if !errors.Is(e, netmail.ErrHeaderNotPresent) {
		date = "!"
	}
	fmt.Fprintf(&sb, "1 %s %s %s %s %s", from, to[0], to[1], to[2], date)
	entity(&sb, pm.Header, pm.Header.Get("Content-Type"), body.Bytes(), true, 0)
	return sb.String()
}

// GenKeys: the generic header fields parseEMLHeaders can set (commonHeaders + Date); the Msg has
// no getter that enumerates its generic headers, so the projection probes these.
var GenKeys = []mail.Header{
	mail.HeaderContentType, mail.HeaderImportance, mail.HeaderInReplyTo, mail.HeaderListUnsubscribe,
	mail.HeaderListUnsubscribePost, mail.HeaderMessageID, mail.HeaderMIMEVersion, mail.HeaderOrganization,
	mail.HeaderPrecedence, mail.HeaderPriority, mail.HeaderReferences, mail.HeaderSubject, mail.HeaderUserAgent,
	mail.HeaderXMailer, mail.HeaderXMSMailPriority, mail.HeaderXPriority, mail.HeaderDate,
}

func joinOrDash(l []string) string {
	if len(l) == 0 {
		return "-"
	}
	return strings.Join(l, ",")
}

// Observe projects a parsed Msg onto what the model computes (same text as driver.ml show_state).
func Observe(m *mail.Msg) string {
	var parts, atts, embs, gen []string
	for _, p := range m.GetParts() {
		c, err := p.GetContent()
		ch := hx.Hex(c)
		if err != nil {
			ch = "ERR"
		}
		parts = append(parts, hx.Hex([]byte(p.GetContentType()))+":"+hx.Hex([]byte(p.GetCharset()))+":"+hx.Hex([]byte(p.GetEncoding()))+":"+ch)
	}
	file := func(f *mail.File) string {
		var b bytes.Buffer
		bh := "ERR"
		if _, err := f.Writer(&b); err == nil {
			bh = hx.Hex(b.Bytes())
		}
		return hx.Hex([]byte(f.Name)) + ":" + hx.Hex([]byte(f.Header.Get("Content-ID"))) + ":" + bh
	}
	for _, f := range m.GetAttachments() {
		atts = append(atts, file(f))
	}
	for _, f := range m.GetEmbeds() {
		embs = append(embs, file(f))
	}
	for _, k := range GenKeys {
		if len(m.GetGenHeader(k)) > 0 {
			gen = append(gen, hx.Hex([]byte(k)))
		}
	}
	sort.Strings(gen)
	al := func(l []string) string {
		var h []string
		for _, a := range l {
			h = append(h, hx.Hex([]byte(a)))
		}
		return joinOrDash(h)
	}
	return fmt.Sprintf("ok cs=%s enc=%s parts=%s att=%s emb=%s gen=%s from=%s to=%s cc=%s bcc=%s", hx.Hex([]byte(m.Charset())), hx.Hex([]byte(m.Encoding())),
		joinOrDash(parts), joinOrDash(atts), joinOrDash(embs), joinOrDash(gen),
		al(m.GetFromString()), al(m.GetToString()), al(m.GetCcString()), al(m.GetBccString()))
}

// GenValues: the values of the generic headers C10 looks at (Subject, Date), as stored in the Msg.
func GenValues(m *mail.Msg) string {
	get := func(k mail.Header) string {
		if v := m.GetGenHeader(k); len(v) > 0 {
			return hx.Hex([]byte(v[0]))
		}
		return "-"
	}
	return "subj=" + get(mail.HeaderSubject) + " date=" + get(mail.HeaderDate)
}

// Result of running the real parser on one input.
type Result struct {
	Obs      string // "ok …" | "err" | "panic" | "hang"
	Msg      *mail.Msg
	PanicMsg string
	PanicFn  string // innermost go-mail function on the panicking stack
}

func panicFunc(stack string) string {
	lines := strings.Split(stack, "\n")
	seenPanic := false
	for _, l := range lines {
		if strings.HasPrefix(l, "panic(") {
			seenPanic = true
			continue
		}
		if seenPanic && strings.HasPrefix(l, "github.com/wneessen/go-mail") {
			l = strings.TrimPrefix(l, "github.com/wneessen/go-mail")
			if i := strings.Index(l, "("); i > 0 && !strings.HasPrefix(l[strings.LastIndex(l[:i], ".")+1:], "func") {
				l = l[:strings.LastIndex(l, "(")]
			}
			l = strings.TrimLeft(l, "./")
			l = strings.NewReplacer("(*", "", ")", "", "*", "").Replace(l)
			return l
		}
	}
	return "unknown"
}

// Parse runs EMLToMsgFromString (off < 0 && chunk == 0) or EMLToMsgFromReader on a FailReader,
// with recover() and a wall-clock box.
func Parse(raw []byte, off, chunk int, box time.Duration) Result {
	ch := make(chan Result, 1)
	go func() {
		var res Result
		defer func() {
			if p := recover(); p != nil {
				res = Result{Obs: "panic", PanicMsg: fmt.Sprint(p), PanicFn: panicFunc(string(debug.Stack()))}
			}
			ch <- res
		}()
		var m *mail.Msg
		var err error
		if off < 0 && chunk == 0 {
			m, err = mail.EMLToMsgFromString(string(raw))
		} else {
			m, err = mail.EMLToMsgFromReader(&FailReader{Data: raw, Off: off, Chunk: chunk})
		}
		if err != nil {
			res = Result{Obs: "err"}
			return
		}
		res = Result{Obs: Observe(m), Msg: m}
	}()
	select {
	case r := <-ch:
		return r
	case <-time.After(box):
		return Result{Obs: "hang"}
	}
}

// FrontArgs: the net/mail results the Gallina front end (EmlFront.eml_parse) takes as oracles:
// "<from> <date> <value>=<result>…" for the address-list fields present in the header.
func FrontArgs(raw []byte) []string {
	pm, err := netmail.ReadMessage(bytes.NewReader(raw))
	if err != nil {
		return []string{"-", "-"}
	}
	strs := func(l []*netmail.Address) string {
		out := "a"
		for i, a := range l {
			if i > 0 {
				out += ","
			}
			out += hx.Hex([]byte(a.String()))
		}
		return out
	}
	from := "-"
	if v := pm.Header.Get("From"); v != "" {
		if a, e := netmail.ParseAddress(v); e != nil {
			from = "!"
		} else {
			from = strs([]*netmail.Address{a})
		}
	}
	date := "-"
	if t, e := pm.Header.Date(); e == nil {
		date = "d" + hx.Hex([]byte(t.Format(time.RFC1123Z)))
	} else if !errors.Is(e, netmail.ErrHeaderNotPresent) {
		date = "!"
	}
	out := []string{from, date}
	for _, k := range []string{"To", "Cc", "Bcc"} {
		if v := pm.Header.Get(k); v != "" {
			r := "!"
			if l, e := netmail.ParseAddressList(v); e == nil {
				r = strs(l)
			}
			out = append(out, hx.Hex([]byte(v))+"="+r)
		}
	}
	return out
}
