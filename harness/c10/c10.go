// Package c10: render -> parse -> render preserves the message (C10).
//
// Per case (kind "rt", a message spec inside the parser's feature set):
//   build the Msg -> render R1 -> EMLToMsgFromString(R1) = m2
//   oracle 1: m2 shows the same subject, From/To/Cc, date, parts (type, charset, content) and files
//             (name, bytes, kind) as the spec, nothing added
//   re-render m2 -> R2
//   oracle 2: strict parse of every header block of R2: no duplicated singleton field
//   oracle 3: an independent MIME read of R2 (net/mail + mime/multipart + stdlib decoders, no go-mail)
//             yields the spec's content again
//   correspondence (T3): the model (Eml.parse_eml on the stdlib's view of R1, EmlRender.rerender_fields)
//             must predict the getters of m2 and the top-level header field names of R2, in order.
// Kind "fname": the file-name path alone (render_filename -> parse_multipart_header -> filename_of)
// against the model's roundtrip_filename.
// Every oracle failure gets a class that names the specific defect (dup-content-type-single, …).
package c10

import (
	"bytes"
	"crypto/md5"
	"path/filepath"
	"encoding/base64"
	"fmt"
	"io"
	"mime"
	"mime/multipart"
	"mime/quotedprintable"
	netmail "net/mail"
	"strconv"
	"strings"
	"time"
	"unicode/utf8"

	mail "github.com/wneessen/go-mail"
	"verif/harness/emlx"
	"verif/harness/hx"
)

func init() { hx.Register("C10", Run) }

type fileSpec struct {
	name    string
	content []byte
}

type spec struct {
	enc      string
	subject  string
	fromName string
	nTo, nCc int
	toNames  []string // display names of the To recipients (nil: the default "Tö i")
	ccNames  []string // display names of the Cc recipients (nil: bare addresses); "" = bare address
	date     int64
	plain    *string
	html     *string
	penc     string     // per-part encoding of the plain part ("" = the message's)
	henc     string     // per-part encoding of the html part
	extra    []partSpec // further alternatives, in order
	atts     []fileSpec
	embs     []fileSpec
}

// partSpec: one further alternative part
type partSpec struct {
	html    bool
	content string
	enc     string
}

func withEnc(h, enc string) string {
	if enc == "" {
		return h
	}
	return h + "@" + hx.Hex([]byte(enc))
}

func splitEnc(a string) (string, string) {
	h, e, has := strings.Cut(a, "@")
	if !has {
		return h, ""
	}
	return h, string(hx.UnHex(e))
}

func optHex(s *string) string {
	if s == nil {
		return "-"
	}
	return hx.Hex([]byte(*s))
}

func optUnhex(s string) *string {
	if s == "-" {
		return nil
	}
	v := string(hx.UnHex(s))
	return &v
}

func filesHex(l []fileSpec) string {
	if len(l) == 0 {
		return "-"
	}
	var p []string
	for _, f := range l {
		p = append(p, hx.Hex([]byte(f.name))+":"+hx.Hex(f.content))
	}
	return strings.Join(p, ",")
}

func filesUnhex(s string) []fileSpec {
	if s == "-" {
		return nil
	}
	var out []fileSpec
	for _, p := range strings.Split(s, ",") {
		a, b, _ := strings.Cut(p, ":")
		out = append(out, fileSpec{string(hx.UnHex(a)), hx.UnHex(b)})
	}
	return out
}

func (s spec) args() []string {
	return []string{hx.Hex([]byte(s.enc)), hx.Hex([]byte(s.subject)), hx.Hex([]byte(s.fromName)), countArg(s.nTo, s.toNames), countArg(s.nCc, s.ccNames),
		strconv.FormatInt(s.date, 10), withEnc(optHex(s.plain), s.penc), s.htmlArg(), filesHex(s.atts), filesHex(s.embs)}
}

// htmlArg: "<html|->[@enc]" followed by "+p:<content>[@enc]" / "+h:<content>[@enc]" per further alternative
func (s spec) htmlArg() string {
	out := withEnc(optHex(s.html), s.henc)
	for _, e := range s.extra {
		t := "p"
		if e.html {
			t = "h"
		}
		out += "+" + t + ":" + withEnc(hx.Hex([]byte(e.content)), e.enc)
	}
	return out
}

func specOf(a []string) spec {
	nTo, toNames := countUnarg(a[3])
	nCc, ccNames := countUnarg(a[4])
	d, _ := strconv.ParseInt(a[5], 10, 64)
	ph, penc := splitEnc(a[6])
	hparts := strings.Split(a[7], "+")
	hh, henc := splitEnc(hparts[0])
	sp := spec{enc: string(hx.UnHex(a[0])), subject: string(hx.UnHex(a[1])), fromName: string(hx.UnHex(a[2])), nTo: nTo, nCc: nCc, toNames: toNames, ccNames: ccNames, date: d,
		plain: optUnhex(ph), html: optUnhex(hh), penc: penc, henc: henc, atts: filesUnhex(a[8]), embs: filesUnhex(a[9])}
	for _, e := range hparts[1:] {
		t, rest, _ := strings.Cut(e, ":")
		c, enc := splitEnc(rest)
		sp.extra = append(sp.extra, partSpec{html: t == "h", content: string(hx.UnHex(c)), enc: enc})
	}
	return sp
}

func (s spec) shape() string {
	var p []string
	if len(s.atts) > 0 {
		p = append(p, "mixed")
	}
	if len(s.embs) > 0 {
		p = append(p, "related")
	}
	if n := len(s.expectedParts()); n > 1 {
		p = append(p, "alt")
	}
	if len(p) == 0 {
		return "single"
	}
	return strings.Join(p, "-")
}

func toName(i int) string { return fmt.Sprintf("Tö %d", i) }

func (s spec) toNameAt(i int) string {
	if s.toNames != nil && i < len(s.toNames) {
		return s.toNames[i]
	}
	return toName(i)
}

func (s spec) ccNameAt(i int) string {
	if s.ccNames != nil && i < len(s.ccNames) {
		return s.ccNames[i]
	}
	return ""
}

// count[:hexname,hexname,…]
func countArg(n int, names []string) string {
	out := strconv.Itoa(n)
	if names != nil {
		var h []string
		for _, x := range names {
			h = append(h, hx.Hex([]byte(x)))
		}
		out += ":" + strings.Join(h, ",")
	}
	return out
}

func countUnarg(a string) (int, []string) {
	c, rest, has := strings.Cut(a, ":")
	n, _ := strconv.Atoi(c)
	if !has {
		return n, nil
	}
	names := []string{}
	for _, h := range strings.Split(rest, ",") {
		names = append(names, string(hx.UnHex(h)))
	}
	return n, names
}

// the class of the known finding dispname-backslash-q-encoded-word (net/mail cannot read its own output)
func backslashQ(name string) bool {
	nonASCII := false
	for i := 0; i < len(name); i++ {
		if name[i] >= 128 || name[i] < 32 {
			nonASCII = true
		}
	}
	return nonASCII && strings.Contains(name, "\\") && !strings.ContainsAny(name, "\"#$%&'(),.:;<>@[]^`{|}~")
}

func (s spec) hasBackslashQ() bool {
	if backslashQ(s.fromName) {
		return true
	}
	for i := 0; i < s.nTo; i++ {
		if backslashQ(s.toNameAt(i)) {
			return true
		}
	}
	for i := 0; i < s.nCc; i++ {
		if backslashQ(s.ccNameAt(i)) {
			return true
		}
	}
	return false
}

func (s spec) build() (*mail.Msg, error) {
	m := mail.NewMsg(mail.WithEncoding(mail.Encoding(s.enc)))
	if err := m.FromFormat(s.fromName, "from@x.test"); err != nil {
		return nil, err
	}
	for i := 0; i < s.nTo; i++ {
		if err := m.AddToFormat(s.toNameAt(i), fmt.Sprintf("to%d@x.test", i)); err != nil {
			return nil, err
		}
	}
	for i := 0; i < s.nCc; i++ {
		if err := m.AddCcFormat(s.ccNameAt(i), fmt.Sprintf("cc%d@x.test", i)); err != nil {
			return nil, err
		}
	}
	m.Subject(s.subject)
	m.SetDateWithValue(time.Unix(s.date, 0).UTC())
	m.SetMessageIDWithValue("fixed.id@x.test")
	for i, p := range s.expectedParts() {
		var opts []mail.PartOption
		if p.enc != "" {
			opts = append(opts, mail.WithPartEncoding(mail.Encoding(p.enc)))
		}
		if i == 0 {
			m.SetBodyString(mail.ContentType(p.ctype), p.content, opts...)
		} else {
			m.AddAlternativeString(mail.ContentType(p.ctype), p.content, opts...)
		}
	}
	for _, f := range s.atts {
		if err := m.AttachReader(f.name, bytes.NewReader(f.content)); err != nil {
			return nil, err
		}
	}
	for _, f := range s.embs {
		if err := m.EmbedReader(f.name, bytes.NewReader(f.content)); err != nil {
			return nil, err
		}
	}
	return m, nil
}

func render(m *mail.Msg) ([]byte, error) {
	var b bytes.Buffer
	_, err := m.WriteTo(&b)
	return b.Bytes(), err
}

// ---------- strict header block parse ----------

// fields returns the field names of a header block (text up to the first empty line), unfolding
// continuation lines; ok=false when a line is neither a field start nor a continuation.
func fields(block []byte) (names []string, ok bool) {
	ok = true
	for _, l := range strings.Split(string(block), "\r\n") {
		if l == "" {
			continue
		}
		if l[0] == ' ' || l[0] == '\t' {
			if len(names) == 0 {
				ok = false
			}
			continue
		}
		i := strings.IndexByte(l, ':')
		if i <= 0 || strings.ContainsAny(l[:i], " \t") {
			ok = false
			continue
		}
		names = append(names, l[:i])
	}
	return
}

func headerBlock(msg []byte) []byte {
	if i := bytes.Index(msg, []byte("\r\n\r\n")); i >= 0 {
		return msg[:i+2]
	}
	return msg
}

var singletons = map[string]bool{"content-type": true, "content-transfer-encoding": true, "mime-version": true, "subject": true, "date": true,
	"message-id": true, "from": true, "to": true, "cc": true, "content-disposition": true, "content-id": true, "user-agent": true, "x-mailer": true}

func dupSingleton(names []string) string {
	seen := map[string]bool{}
	for _, n := range names {
		k := strings.ToLower(n)
		if singletons[k] && seen[k] {
			return k
		}
		seen[k] = true
	}
	return ""
}

// ---------- independent MIME reader (stdlib only) ----------

type leaf struct {
	ctype, charset, disp, name, cid string
	content                       []byte
	headerNames                   []string
}

func decodeBody(cte string, raw []byte) ([]byte, error) {
	switch strings.ToLower(strings.TrimSpace(cte)) {
	case "base64":
		return io.ReadAll(base64.NewDecoder(base64.StdEncoding, bytes.NewReader(raw)))
	case "quoted-printable":
		return io.ReadAll(quotedprintable.NewReader(bytes.NewReader(raw)))
	default:
		return raw, nil
	}
}

var wordDec = new(mime.WordDecoder)

func readEntity(h map[string][]string, body []byte, out *[]leaf, structure *[]string, depth int) error {
	hdr := netmail.Header(h)
	ct := hdr.Get("Content-Type")
	mt, params, err := mime.ParseMediaType(ct)
	if err != nil {
		if ct != "" {
			return fmt.Errorf("content-type %q: %v", ct, err)
		}
		mt, params = "text/plain", map[string]string{"charset": "us-ascii"}
	}
	var names []string
	for k, vs := range h {
		for range vs {
			names = append(names, k)
		}
	}
	if strings.HasPrefix(mt, "multipart/") {
		*structure = append(*structure, strings.Repeat(">", depth)+mt)
		mr := multipart.NewReader(bytes.NewReader(body), params["boundary"])
		for {
			p, err := mr.NextRawPart()
			if err == io.EOF {
				return nil
			}
			if err != nil {
				return err
			}
			data, err := io.ReadAll(p)
			if err != nil {
				return err
			}
			if err := readEntity(p.Header, data, out, structure, depth+1); err != nil {
				return err
			}
		}
	}
	content, err := decodeBody(hdr.Get("Content-Transfer-Encoding"), body)
	if err != nil {
		return fmt.Errorf("decoding %s body: %v", hdr.Get("Content-Transfer-Encoding"), err)
	}
	l := leaf{ctype: mt, charset: params["charset"], content: content, cid: hdr.Get("Content-Id"), headerNames: names}
	if cd := hdr.Get("Content-Disposition"); cd != "" {
		d, dp, err := mime.ParseMediaType(cd)
		if err != nil {
			return fmt.Errorf("content-disposition %q: %v", cd, err)
		}
		l.disp = d
		l.name = dp["filename"]
		if dec, err := wordDec.DecodeHeader(l.name); err == nil {
			l.name = dec
		}
	}
	*out = append(*out, l)
	return nil
}

func readMIME(raw []byte) (hdr netmail.Header, leaves []leaf, structure []string, err error) {
	pm, err := netmail.ReadMessage(bytes.NewReader(raw))
	if err != nil {
		return nil, nil, nil, err
	}
	body, err := io.ReadAll(pm.Body)
	if err != nil {
		return nil, nil, nil, err
	}
	err = readEntity(pm.Header, body, &leaves, &structure, 0)
	return pm.Header, leaves, structure, err
}

// ---------- comparison with the spec ----------

// text comparison: the writer terminates the last line of a part; the readers see the CRLF that
// belongs to the multipart delimiter as not part of the body.  Bodies in the generated specs end
// without a line break, so equality is exact.
type expPart struct{ ctype, content, enc string } // enc: the per-part option ("" = none)

func (s spec) expectedParts() []expPart {
	var out []expPart
	if s.plain != nil {
		out = append(out, expPart{"text/plain", *s.plain, s.penc})
	}
	if s.html != nil {
		out = append(out, expPart{"text/html", *s.html, s.henc})
	}
	for _, e := range s.extra {
		t := "text/plain"
		if e.html {
			t = "text/html"
		}
		out = append(out, expPart{t, e.content, e.enc})
	}
	return out
}

// effEnc: the transfer encoding the part is rendered with
func (s spec) effEnc(p expPart) string {
	if p.enc != "" {
		return p.enc
	}
	return s.enc
}

func nameClass(name string) string {
	switch {
	case strings.Contains(name, ";"):
		return "filename-semicolon"
	case !isPrintableASCII(sanitized(name)):
		return "filename-encoded-word"
	default:
		return "filename-other"
	}
}

func isPrintableASCII(s string) bool {
	for i := 0; i < len(s); i++ {
		if s[i] < 32 || s[i] > 126 {
			return false
		}
	}
	return true
}

// what sanitizeFilename does (bytes replaced by '_'): a name it changes cannot survive by design
func sanitized(s string) string {
	b := []byte(s)
	for i, c := range b {
		if c < 32 || c == 34 || c == 47 || c == 58 || c == 60 || c == 62 || c == 63 || c == 92 || c == 124 || c == 127 {
			b[i] = '_'
		}
	}
	return string(b)
}

func fileBytes(f *mail.File) ([]byte, error) {
	var b bytes.Buffer
	_, err := f.Writer(&b)
	return b.Bytes(), err
}

// checkParsed: oracle 1
func (s spec) checkParsed(r *hx.Run, id string, m2 *mail.Msg) {
	shape := s.shape()
	// subject
	subj := ""
	if v := m2.GetGenHeader(mail.HeaderSubject); len(v) > 0 {
		subj = v[0]
		if d, err := wordDec.DecodeHeader(subj); err == nil {
			subj = d
		}
	}
	if !sameText(s.subject, subj) {
		r.Fail(id, "subject-mismatch", fmt.Sprintf("subject %q parsed back as %q", s.subject, subj))
	}
	// addresses
	from := m2.GetFrom()
	if len(from) != 1 || from[0].Address != "from@x.test" || !sameText(s.fromName, from[0].Name) {
		r.Fail(id, "from-mismatch", fmt.Sprintf("from name %q parsed back as %v", s.fromName, from))
	}
	to := m2.GetTo()
	if len(to) != s.nTo {
		r.Fail(id, "to-count", fmt.Sprintf("%d To addresses parsed back as %d", s.nTo, len(to)))
	} else {
		for i, a := range to {
			if a.Address != fmt.Sprintf("to%d@x.test", i) || !sameText(s.toNameAt(i), a.Name) {
				r.Fail(id, "to-mismatch", fmt.Sprintf("To[%d] (name %q) parsed back as %v", i, s.toNameAt(i), a))
				break
			}
		}
	}
	if cc := m2.GetCc(); len(cc) != s.nCc {
		r.Fail(id, "cc-count", fmt.Sprintf("%d Cc addresses parsed back as %d", s.nCc, len(cc)))
	} else {
		for i, a := range cc {
			if a.Address != fmt.Sprintf("cc%d@x.test", i) || !sameText(s.ccNameAt(i), a.Name) {
				r.Fail(id, "cc-mismatch", fmt.Sprintf("Cc[%d] (name %q) parsed back as %v", i, s.ccNameAt(i), a))
				break
			}
		}
	}
	// date
	if v := m2.GetGenHeader(mail.HeaderDate); len(v) != 1 {
		r.Fail(id, "date-missing", "no Date after parse")
	} else if t, err := time.Parse(time.RFC1123Z, v[0]); err != nil || t.Unix() != s.date {
		r.Fail(id, "date-mismatch", fmt.Sprintf("date %d parsed back as %q", s.date, v[0]))
	}
	// parts
	exp := s.expectedParts()
	parts := m2.GetParts()
	if len(parts) != len(exp) {
		var cts []string
		for _, p := range parts {
			cts = append(cts, string(p.GetContentType()))
		}
		cls := "part-count-" + shape
		if len(parts) == len(exp)+1 && strings.HasPrefix(cts[len(cts)-1], "multipart/alternative") {
			cls = "phantom-multipart-alternative-part"
		}
		r.Fail(id, cls, fmt.Sprintf("%d body parts parsed back as %d: %v", len(exp), len(parts), cts))
	}
	for i := 0; i < len(exp) && i < len(parts); i++ {
		p := parts[i]
		c, err := p.GetContent()
		if string(p.GetContentType()) != exp[i].ctype {
			r.Fail(id, "part-type-mismatch", fmt.Sprintf("part %d type %q parsed back as %q", i, exp[i].ctype, p.GetContentType()))
		} else if !strings.EqualFold(string(p.GetCharset()), "UTF-8") {
			r.Fail(id, "part-charset-mismatch", fmt.Sprintf("part %d charset parsed back as %q", i, p.GetCharset()))
		} else if err != nil || string(c) != exp[i].content {
			cls := "part-content-mismatch-" + s.effEnc(exp[i])
			if s.effEnc(exp[i]) == "7bit" {
				cls = "7bit-requoted"
			}
			r.Fail(id, cls, fmt.Sprintf("part %d (%s, %s) content %.60q parsed back as %.60q (err %v)", i, exp[i].ctype, s.effEnc(exp[i]), exp[i].content, c, err))
		}
	}
	// files
	chk := func(kind string, want []fileSpec, got []*mail.File) {
		if len(want) != len(got) {
			r.Fail(id, kind+"-count-"+shape, fmt.Sprintf("%d %ss parsed back as %d", len(want), kind, len(got)))
			return
		}
		for i, w := range want {
			if got[i].Name != sanitized(w.name) {
				r.Fail(id, nameClass(w.name), fmt.Sprintf("%s name %q parsed back as %q", kind, w.name, got[i].Name))
			}
			if b, err := fileBytes(got[i]); err != nil || !bytes.Equal(b, w.content) {
				r.Fail(id, kind+"-bytes-mismatch", fmt.Sprintf("%s %q: %d bytes parsed back as %d (err %v)", kind, w.name, len(w.content), len(b), err))
			}
		}
	}
	chk("attachment", s.atts, m2.GetAttachments())
	chk("embed", s.embs, m2.GetEmbeds())
}

// partBlocks: the header blocks of all MIME parts (depth > 0) of a rendering, found by boundary lines
func partBlocks(raw []byte) [][]byte {
	var out [][]byte
	lines := bytes.SplitAfter(raw, []byte("\r\n"))
	for i := 0; i < len(lines); i++ {
		l := bytes.TrimRight(lines[i], "\r\n")
		if bytes.HasPrefix(l, []byte("--")) && !bytes.HasSuffix(l, []byte("--")) && len(l) > 20 {
			var blk []byte
			for j := i + 1; j < len(lines) && len(bytes.TrimRight(lines[j], "\r\n")) > 0; j++ {
				blk = append(blk, lines[j]...)
			}
			out = append(out, blk)
		}
	}
	return out
}

// checkRerender: oracles 2 and 3 on R2
func (s spec) checkRerender(r *hx.Run, id string, r2 []byte) {
	shape := s.shape()
	names, ok := fields(headerBlock(r2))
	if !ok {
		r.Fail(id, "rerender-header-syntax", "header block of the re-render has a line that is no field")
	}
	if d := dupSingleton(names); d != "" {
		r.Fail(id, "dup-"+d+"-"+shape, fmt.Sprintf("re-rendered header has %q twice: %v", d, names))
	}
	for _, blk := range partBlocks(r2) {
		pn, _ := fields(blk)
		if d := dupSingleton(pn); d != "" {
			r.Fail(id, "dup-part-"+d+"-"+shape, fmt.Sprintf("a part header of the re-render has %q twice: %v", d, pn))
		}
	}
	hdr, leaves, structure, err := readMIME(r2)
	if err != nil {
		r.Fail(id, "rerender-unreadable-"+shape, fmt.Sprintf("independent reader fails on the re-render: %v", err))
		return
	}
	if subj, err := wordDec.DecodeHeader(hdr.Get("Subject")); err != nil || !sameText(s.subject, subj) {
		r.Fail(id, "rerender-subject-mismatch", fmt.Sprintf("subject %q re-rendered as %q", s.subject, hdr.Get("Subject")))
	}
	if al, err := hdr.AddressList("From"); err != nil || len(al) != 1 || !sameText(s.fromName, al[0].Name) || al[0].Address != "from@x.test" {
		r.Fail(id, "rerender-from-mismatch", fmt.Sprintf("from %q re-rendered as %q", s.fromName, hdr.Get("From")))
	}
	chkList := func(field string, n int, nameAt func(int) string, addr string) {
		if n == 0 {
			if hdr.Get(field) != "" {
				r.Fail(id, "rerender-"+strings.ToLower(field)+"-added", fmt.Sprintf("%s re-rendered as %q", field, hdr.Get(field)))
			}
			return
		}
		al, err := hdr.AddressList(field)
		if err != nil || len(al) != n {
			r.Fail(id, "rerender-"+strings.ToLower(field)+"-mismatch", fmt.Sprintf("%d %s recipients re-rendered as %q", n, field, hdr.Get(field)))
			return
		}
		for i, a := range al {
			if !sameText(nameAt(i), a.Name) || a.Address != fmt.Sprintf(addr, i) {
				r.Fail(id, "rerender-"+strings.ToLower(field)+"-mismatch", fmt.Sprintf("%s[%d] (name %q) re-rendered as %v", field, i, nameAt(i), a))
				return
			}
		}
	}
	chkList("To", s.nTo, s.toNameAt, "to%d@x.test")
	chkList("Cc", s.nCc, s.ccNameAt, "cc%d@x.test")
	if d, err := hdr.Date(); err != nil || d.Unix() != s.date {
		r.Fail(id, "rerender-date-mismatch", fmt.Sprintf("date re-rendered as %q", hdr.Get("Date")))
	}
	// leaves: text parts first (in order), then embeds, then attachments
	var texts, embs, atts []leaf
	for _, l := range leaves {
		switch l.disp {
		case "attachment":
			atts = append(atts, l)
		case "inline":
			embs = append(embs, l)
		default:
			texts = append(texts, l)
		}
	}
	exp := s.expectedParts()
	if len(texts) != len(exp) {
		var cts []string
		for _, l := range texts {
			cts = append(cts, l.ctype)
		}
		cls := "rerender-part-count-" + shape
		if len(texts) == len(exp)+1 && cts[len(cts)-1] == "multipart/alternative" {
			cls = "phantom-multipart-alternative-part"
		}
		r.Fail(id, cls, fmt.Sprintf("%d body parts re-rendered as %d: %v (structure %v)", len(exp), len(texts), cts, structure))
	}
	for i := 0; i < len(exp) && i < len(texts); i++ {
		l := texts[i]
		if l.ctype != exp[i].ctype || !strings.EqualFold(l.charset, "UTF-8") {
			r.Fail(id, "rerender-part-type-mismatch", fmt.Sprintf("part %d re-rendered as %s; charset=%s", i, l.ctype, l.charset))
		} else if string(l.content) != exp[i].content {
			cls := "rerender-content-mismatch-" + s.effEnc(exp[i])
			if s.effEnc(exp[i]) == "7bit" {
				cls = "7bit-requoted"
			}
			r.Fail(id, cls, fmt.Sprintf("part %d (%s, %s) content %.60q re-rendered as %.60q", i, exp[i].ctype, s.effEnc(exp[i]), exp[i].content, l.content))
		}
	}
	chk := func(kind string, want []fileSpec, got []leaf) {
		if len(want) != len(got) {
			r.Fail(id, "rerender-"+kind+"-count-"+shape, fmt.Sprintf("%d %ss re-rendered as %d", len(want), kind, len(got)))
			return
		}
		for i, w := range want {
			if got[i].name != sanitized(w.name) {
				r.Fail(id, nameClass(w.name), fmt.Sprintf("%s name %q re-rendered as %q", kind, w.name, got[i].name))
			}
			if !bytes.Equal(got[i].content, w.content) {
				r.Fail(id, "rerender-"+kind+"-bytes-mismatch", fmt.Sprintf("%s %q: bytes differ after the second trip", kind, w.name))
			}
		}
	}
	chk("attachment", s.atts, atts)
	chk("embed", s.embs, embs)
}

// boundariesOf: the boundaries a rendering announces, in order of appearance (outermost first)
func boundariesOf(raw []byte) string {
	var out []string
	for _, l := range strings.Split(string(raw), "\r\n") {
		if strings.HasPrefix(l, " boundary=") {
			out = append(out, hx.Hex([]byte(strings.TrimPrefix(l, " boundary="))))
		}
	}
	if len(out) == 0 {
		return "-"
	}
	return strings.Join(out, ",")
}

// mimeTable: what addFiles derives from the file names of the parsed Msg (mime.TypeByExtension)
func mimeTable(m *mail.Msg) string {
	var out []string
	add := func(fs []*mail.File) {
		for _, f := range fs {
			t := mime.TypeByExtension(filepath.Ext(f.Name))
			if t == "" {
				t = "application/octet-stream"
			}
			out = append(out, hx.Hex([]byte(f.Name))+"="+hx.Hex([]byte(t)))
		}
	}
	add(m.GetEmbeds())
	add(m.GetAttachments())
	if len(out) == 0 {
		return "-"
	}
	return strings.Join(out, ",")
}

// checkFirstRender: an independent reader of the FIRST rendering sees, for every file, the name that was attached
// after the documented replacement of control and path characters (bytes < 32, DEL, and " / : < > ? \ |) - the
// reference is the documented rule (func sanitized), not the library's function
func (s spec) checkFirstRender(r *hx.Run, id string, r1 []byte) {
	s.checkFirstRenderHeaders(r, id, r1)
	_, leaves, _, err := readMIME(r1)
	if err != nil {
		return // unreadable first renderings are C01's subject; the re-render checks report them for C10
	}
	var embs, atts []leaf
	for _, l := range leaves {
		switch l.disp {
		case "attachment":
			atts = append(atts, l)
		case "inline":
			embs = append(embs, l)
		}
	}
	chk := func(kind string, want []fileSpec, got []leaf) {
		if len(want) != len(got) {
			return
		}
		for i, w := range want {
			if got[i].name != sanitized(w.name) {
				r.Fail(id, "first-render-filename", fmt.Sprintf("%s name %q is rendered as %q (documented replacement gives %q)", kind, w.name, got[i].name, sanitized(w.name)))
			}
		}
	}
	chk("attachment", s.atts, atts)
	chk("embed", s.embs, embs)
}

// rawField: the field body of the first field called name in a header block, unfolded per RFC 5322 2.2.3 (every
// CRLF that is followed by SP or TAB is removed, the white space stays) - our own reader: textproto would trim
// and re-join continuation lines
func rawField(block []byte, name string) (string, bool) {
	lines := strings.Split(string(block), "\r\n")
	for i, l := range lines {
		if len(l) > len(name) && strings.EqualFold(l[:len(name)], name) && l[len(name)] == ':' {
			v := l[len(name)+1:]
			for j := i + 1; j < len(lines) && len(lines[j]) > 0 && (lines[j][0] == ' ' || lines[j][0] == '\t'); j++ {
				v += lines[j]
			}
			return v, true
		}
	}
	return "", false
}

func trimWS(v string) string { return strings.Trim(v, " \t") }

// irregularWS: leading / trailing blanks, TABs or runs of blanks - what textproto's line joining may change
func irregularWS(v string) bool {
	return v != trimWS(v) || strings.Contains(v, "  ") || strings.Contains(v, "\t")
}

func normWS(v string) string { return strings.Join(strings.Fields(v), " ") }

// sameText: equality of a value that went through the PARSER (textproto trims and joins folded lines):
// byte-exact for regular values, modulo white-space runs for irregular ones
func sameText(set, got string) bool {
	if irregularWS(set) {
		return normWS(set) == normWS(got)
	}
	return set == got
}

// checkFirstRenderHeaders: the Subject and the From / To / Cc display names that were set are what a reader of the
// FIRST rendering finds - RFC 5322 unfolding, RFC 2047 decoding; byte-exact including inner runs of blanks and TABs
// (leading and trailing white space of the whole value is insignificant)
func (s spec) checkFirstRenderHeaders(r *hx.Run, id string, r1 []byte) {
	if s.fromName == "" && s.subject == "" && s.nTo == 0 {
		return // fname cases carry no header spec
	}
	hb := headerBlock(r1)
	if v, ok := rawField(hb, "Subject"); ok || s.subject != "" {
		d, err := wordDec.DecodeHeader(trimWS(v))
		if err != nil || trimWS(d) != trimWS(s.subject) {
			r.Fail(id, "first-render-subject", fmt.Sprintf("subject %q is rendered as %q", s.subject, v))
		}
	}
	names := func(field string, n int, nameAt func(int) string) {
		if n == 0 {
			return
		}
		v, ok := rawField(hb, field)
		if !ok {
			r.Fail(id, "first-render-"+strings.ToLower(field), fmt.Sprintf("no %s field in the rendering", field))
			return
		}
		al, err := netmail.ParseAddressList(trimWS(v))
		if err != nil {
			if s.hasBackslashQ() {
				r.Fail(id, "dispname-backslash-q-encoded-word", fmt.Sprintf("%s %q is unreadable: %v", field, v, err))
			} else {
				r.Fail(id, "first-render-"+strings.ToLower(field), fmt.Sprintf("%s %q is unreadable: %v", field, v, err))
			}
			return
		}
		if len(al) != n {
			r.Fail(id, "first-render-"+strings.ToLower(field), fmt.Sprintf("%d %s recipients rendered as %q", n, field, v))
			return
		}
		for i, a := range al {
			if trimWS(a.Name) != trimWS(nameAt(i)) {
				r.Fail(id, "first-render-"+strings.ToLower(field)+"-name", fmt.Sprintf("%s display name %q is rendered as %q (%q)", field, nameAt(i), a.Name, v))
				return
			}
		}
	}
	names("From", 1, func(int) string { return s.fromName })
	names("To", s.nTo, s.toNameAt)
	names("Cc", s.nCc, s.ccNameAt)
}

// ---------- one case ----------

func runRT(r *hx.Run, id string, s spec) {
	c := hx.Case{ID: id, Kind: "rt", Args: s.args()}
	defer func() {
		if p := recover(); p != nil {
			r.Fail(id, "panic", fmt.Sprint(p))
			r.AddOracleOnly(c, true)
		}
	}()
	r.Dist["shape:"+s.shape()]++
	r.Dist["enc:"+s.enc]++
	m1, err := s.build()
	if err != nil {
		r.Dist["build-refused"]++
		r.AddOracleOnly(c, false)
		return
	}
	r1, err := render(m1)
	if err != nil {
		r.Fail(id, "render-error", err.Error())
		r.AddOracleOnly(c, true)
		return
	}
	s.checkFirstRender(r, id, r1)
	res := emlx.Parse(r1, -1, 0, 10*time.Second)
	// T3: the model's prediction for the getters of m2 and the field names of R2
	tree := emlx.Tree(r1, -1, 0)
	flags := fmt.Sprintf("1%s%s", b01(s.nTo > 0), b01(s.nCc > 0))
	mc := hx.Case{ID: id, Kind: "rt", Args: append(append(s.args(), flags), strings.Split(tree, " ")...)}
	if res.Msg == nil && s.hasBackslashQ() {
		r.Fail(id, "dispname-backslash-q-encoded-word", fmt.Sprintf("parsing go-mail's own rendering: %s (a display name is non-ASCII with a backslash)", res.Obs))
		r.Add(mc, res.Obs, true)
		return
	}
	if res.Msg == nil {
		r.Fail(id, "parse-"+res.Obs+"-"+s.shape(), fmt.Sprintf("parsing go-mail's own rendering: %s %s", res.Obs, res.PanicMsg))
		r.Add(mc, res.Obs, true)
		return
	}
	m2 := res.Msg
	s.checkParsed(r, id, m2)
	r2, err := render(m2)
	if err != nil {
		r.Fail(id, "rerender-error", err.Error())
		r.Add(mc, res.Obs+" | ERR", true)
		return
	}
	names, _ := fields(headerBlock(r2))
	r.Add(mc, res.Obs+" "+emlx.GenValues(m2)+" | "+strings.Join(names, ","), true)
	// kind rr: the writer model applied to EmlRerender.msg_of_parsed (the Writer.msg the parsed Msg denotes), with
	// the boundaries of the real re-render, must produce the bytes of the real re-render
	r.Add(hx.Case{ID: id + "r", Kind: "rr", Args: append([]string{boundariesOf(r2), mimeTable(m2)}, strings.Split(tree, " ")...)},
		fmt.Sprintf("%d %x", len(r2), md5.Sum(r2)), true)
	// kind front: the whole parse in Gallina from the rendered bytes (MimeRead.read_tree + EmlFront + Eml)
	r.Add(hx.Case{ID: id + "f", Kind: "front", Args: append([]string{hx.Hex(r1)}, emlx.FrontArgs(r1)...)}, res.Obs+" "+emlx.GenValues(m2), true)
	s.checkRerender(r, id, r2)
}

func b01(b bool) string {
	if b {
		return "1"
	}
	return "0"
}

// dec2047 case: the Gallina transliteration of mime.WordDecoder.DecodeHeader against the stdlib
func runDec(r *hx.Run, id string, v string) {
	c := hx.Case{ID: id, Kind: "dec2047", Args: []string{hx.Hex([]byte(v))}}
	d, err := wordDec.DecodeHeader(v)
	if err != nil {
		r.Add(c, "err", true)
		return
	}
	r.Add(c, "ok "+hx.Hex([]byte(d)), strings.Contains(v, "=?"))
}

// fname case: attach a file with this name, render, parse, read the name back
func runFname(r *hx.Run, id string, name string) {
	c := hx.Case{ID: id, Kind: "fname", Args: []string{hx.Hex([]byte(name))}}
	m := mail.NewMsg()
	_ = m.From("from@x.test")
	_ = m.To("to@x.test")
	m.SetBodyString(mail.TypeTextPlain, "x")
	if err := m.AttachReader(name, strings.NewReader("data")); err != nil {
		r.AddOracleOnly(c, false)
		return
	}
	r1, err := render(m)
	if err != nil {
		r.Fail(id, "render-error", err.Error())
		r.AddOracleOnly(c, true)
		return
	}
	spec{atts: []fileSpec{{name, []byte("data")}}}.checkFirstRender(r, id, r1)
	res := emlx.Parse(r1, -1, 0, 10*time.Second)
	if res.Msg == nil || len(res.Msg.GetAttachments()) != 1 {
		r.Fail(id, "fname-parse-"+res.Obs, fmt.Sprintf("name %q: %s", name, res.Obs))
		r.Add(c, res.Obs, true)
		return
	}
	got := res.Msg.GetAttachments()[0].Name
	// model: Writer.file_hdrs (word encoder included) composed with the parser model
	r.Add(c, "ok "+hx.Hex([]byte(got)), true)
	r.Dist["fname:"+nameClass(name)]++
	if got != sanitized(name) {
		r.Fail(id, nameClass(name), fmt.Sprintf("attachment name %q parsed back as %q", name, got))
	}
}

// ---------- generators ----------

type g struct{ r *hx.Run }

func (x g) n(k int) int   { return x.r.Rng.Intn(k) }
func (x g) p(pc int) bool { return x.r.Rng.Intn(100) < pc }

var uni = []string{"ä", "é", "ß", "€", "日本", "ñ", "Ω", "ü"}

func (x g) words(maxWords int, unicodePct int) string {
	var w []string
	for k := 1 + x.n(maxWords); k > 0; k-- {
		var sb strings.Builder
		for j := 1 + x.n(9); j > 0; j-- {
			if x.p(unicodePct) {
				sb.WriteString(uni[x.n(len(uni))])
			} else {
				sb.WriteByte("abcdefghijklmnopqrstuvwxyzABCDEFGHIJKLMNOP0123456789"[x.n(52)])
			}
		}
		w = append(w, sb.String())
	}
	return strings.Join(w, " ")
}

func (x g) text(html bool) string {
	if x.p(4) { // empty content, or only a line end
		return []string{"", "", "\r\n"}[x.n(3)]
	}
	if x.p(2) { // a larger one
		c := sizeClasses[1+x.n(2)]
		return sizedText(c[x.n(len(c))]+x.n(3)-1, html, x.n(100))
	}
	var sb strings.Builder
	if html {
		sb.WriteString("<p>")
	}
	lines := 1 + x.n(4)
	for i := 0; i < lines; i++ {
		if i > 0 {
			sb.WriteString("\r\n")
		}
		switch x.n(8) {
		case 0:
			sb.WriteString("a=b and c=3D")
		case 1:
			sb.WriteString(strings.Repeat("long line ", 9+x.n(6)) + "end")
		case 2:
			sb.WriteString(x.words(6, 40))
		case 3:
			sb.WriteString("From here. .dot")
		default:
			sb.WriteString(x.words(8, 5))
		}
	}
	if html {
		sb.WriteString("</p>")
	}
	return sb.String()
}

var oddRunes = []string{"\u00a0", "\u3000", "\u200c", "\u200d", "\u00ad", "\u2028", "\ufeff", "\u0085"}

func (x g) fileName() string {
	ext := []string{".txt", ".pdf", ".png", ".bin", "", ".tar.gz"}[x.n(6)]
	if x.p(8) {
		// printable-looking names with non-ASCII spaces and format characters (not control, not path characters)
		return x.words(1, 0) + oddRunes[x.n(len(oddRunes))] + x.words(1, 20) + ext
	}
	switch x.n(12) {
	case 0:
		return "a;b" + ext
	case 1:
		return "a=b" + ext
	case 2:
		return x.words(2, 60) + ext
	case 3:
		return "with blank " + x.words(1, 0) + ext
	case 4:
		return "semi; equals=1" + ext
	default:
		return x.words(1, 0) + ext
	}
}

func (x g) content() []byte {
	if x.p(5) {
		return nil
	}
	if x.p(2) { // a larger one
		c := sizeClasses[1+x.n(2)]
		return sizedBytes(c[x.n(len(c))]+x.n(3)-1, x.n(100))
	}
	b := make([]byte, x.n(200))
	for i := range b {
		b[i] = byte(x.n(256))
	}
	return b
}

// sizedText: CRLF text of exactly n bytes (lines of at most 70 bytes; '=' and non-ASCII near the start)
func sizedText(n int, html bool, salt int) string {
	var sb strings.Builder
	if html {
		sb.WriteString("<p>")
	}
	if n >= 40 {
		sb.WriteString("caf\u00e9 a=b \u20ac\r\n")
	}
	for k := 0; sb.Len() < n; k++ {
		line := fmt.Sprintf("line %d/%d of a body of %d bytes, filler: ", k, salt, n)
		line += strings.Repeat("abcdefghij", 7)[:(k*7+salt)%(70-len(line)+1)]
		sb.WriteString(line + "\r\n")
	}
	t := []byte(sb.String()[:n])
	if n > 0 && t[n-1] == '\r' { // no line break cut in half at the end (a bare CR is outside the feature set)
		t[n-1] = '.'
	}
	return string(t)
}

// sizedBytes: n bytes over all byte values
func sizedBytes(n, salt int) []byte {
	b := make([]byte, n)
	v := uint32(salt*2654435761 + n)
	for i := range b {
		v = v*1664525 + 1013904223
		b[i] = byte(v >> 24)
	}
	return b
}

// content sizes over several orders of magnitude: around the base64 line (57 bytes in, 76 out), the streaming
// decoders' chunk sizes (~750, 1 k, 3 k, 4 k, 8 k) and beyond (20 k, 64 k)
var sizeClasses = [][]int{{1, 56, 57, 58, 75, 76, 77, 114, 228}, {700, 746, 747, 748, 749, 760, 800, 1000, 1023, 1024, 1025},
	{3000, 3072, 4095, 4096, 4097, 8191, 8192, 8193}, {20000, 65535, 65536, 65537, 100000}}

const nSizedPos = 6

// sizedSpec: content of n bytes at position pos - 0 plain of an alternative pair, 1 html of the pair, 2 single-part
// body, 3 attachment, 4 embed, 5 body part next to an attachment
func sizedSpec(enc string, pos, n int) spec {
	small, smallH := "short text", "<p>short</p>"
	s := spec{enc: enc, subject: fmt.Sprintf("size %d at %d", n, pos), fromName: "Sender", nTo: 1, date: 1700000000}
	switch pos {
	case 0:
		t := sizedText(n, false, pos)
		s.plain, s.html = &t, &smallH
	case 1:
		t := sizedText(n, true, pos)
		s.plain, s.html = &small, &t
	case 2:
		t := sizedText(n, false, pos)
		s.plain = &t
	case 3:
		s.plain, s.atts = &small, []fileSpec{{"big.bin", sizedBytes(n, pos)}}
	case 4:
		s.plain, s.embs = &small, []fileSpec{{"big.png", sizedBytes(n, pos)}}
	default:
		t := sizedText(n, false, pos)
		s.plain, s.atts = &t, []fileSpec{{"a.txt", []byte("attached")}}
	}
	return s
}

func (x g) spec() spec {
	s := spec{enc: []string{"quoted-printable", "base64", "7bit", "8bit"}[x.n(4)], date: 1700000000 + int64(x.n(100000000))}
	s.subject = x.words(6, 15)
	if x.p(12) {
		// runs of blanks / TABs between the words, sometimes leading or trailing blanks
		s.subject = strings.NewReplacer(" ", []string{"  ", " \t", "   ", "\t"}[x.n(4)]).Replace(x.words(8, 0))
		if x.p(30) {
			s.subject = " " + s.subject + "  "
		}
	}
	if x.p(10) {
		s.subject = strings.Repeat("long subject word ", 4+x.n(5)) + x.words(2, 30)
	}
	s.fromName = x.words(2, 25)
	s.nTo = 1 + x.n(3)
	s.nCc = x.n(3)
	if x.p(35) {
		// names with characters that make net/mail quote or encode the phrase
		nm := func() string {
			w := x.words(1+x.n(2), 15)
			switch x.n(8) {
			case 0:
				return w + ", " + x.words(1, 0)
			case 1:
				return w + "; " + x.words(1, 0)
			case 2:
				return w + ": <" + x.words(1, 0) + ">"
			case 3:
				return "(" + w + ") J. R."
			case 4:
				return w + " @ \"" + x.words(1, 0) + "\""
			case 5:
				return w + "\\, x"
			case 6:
				return ""
			default:
				return w
			}
		}
		s.fromName = nm()
		if s.fromName == "" {
			s.fromName = "F"
		}
		for i := 0; i < s.nTo; i++ {
			s.toNames = append(s.toNames, nm())
		}
		for i := 0; i < s.nCc; i++ {
			s.ccNames = append(s.ccNames, nm())
		}
	}
	shape := x.n(10)
	pl, ht := x.text(false), x.text(true)
	switch {
	case shape < 4:
		s.plain = &pl
	case shape < 5:
		s.html = &ht
	default:
		s.plain, s.html = &pl, &ht
	}
	if s.enc == "7bit" && x.p(70) {
		// inside what 7bit may legally carry: ASCII, short lines
		v := "plain ascii line\r\nsecond line"
		s.plain = &v
		if s.html != nil {
			h := "<p>ascii only</p>"
			s.html = &h
		}
	}
	if x.p(40) {
		// per-part encodings (random order), sometimes a third alternative
		pe := []string{"quoted-printable", "base64", "8bit"}
		if s.plain != nil {
			s.penc = pe[x.n(3)]
		}
		if s.html != nil {
			s.henc = pe[x.n(3)]
		}
		if s.plain != nil && s.html != nil && x.p(40) {
			s.extra = append(s.extra, partSpec{html: x.p(50), content: x.text(false), enc: pe[x.n(3)]})
		}
	}
	if x.p(45) {
		for k := 1 + x.n(2); k > 0; k-- {
			s.atts = append(s.atts, fileSpec{x.fileName(), x.content()})
		}
	}
	if x.p(30) {
		for k := 1 + x.n(2); k > 0; k-- {
			s.embs = append(s.embs, fileSpec{x.fileName(), x.content()})
		}
	}
	return s
}

// Run generates (or replays) the C10 cases.
func Run(r *hx.Run, replay []hx.Case) {
	if replay != nil {
		for _, c := range replay {
			switch c.Kind {
			case "rt":
				if len(c.Args) >= 10 {
					runRT(r, c.ID, specOf(c.Args))
				}
			case "fname":
				runFname(r, c.ID, string(hx.UnHex(c.Args[0])))
			case "dec2047":
				runDec(r, c.ID, string(hx.UnHex(c.Args[0])))
			case "front", "rr": // replayed through its rt case
			}
		}
		return
	}
	x := g{r}
	nrt, nfn := 1500, 1500
	if r.Tier == "thorough" {
		nrt, nfn = 40000, 30000
	}
	// every shape x encoding once, small
	for _, enc := range []string{"quoted-printable", "base64", "7bit", "8bit"} {
		for shape := 0; shape < 16; shape++ {
			pl, ht := "plain text", "<p>html</p>"
			s := spec{enc: enc, subject: "subject " + enc, fromName: "Sender", nTo: 1, date: 1700000000}
			if shape&1 != 0 {
				s.plain = &pl
			}
			if shape&2 != 0 {
				s.html = &ht
			}
			if s.plain == nil && s.html == nil {
				continue
			}
			if shape&4 != 0 {
				s.atts = []fileSpec{{"a.txt", []byte("attached")}}
			}
			if shape&8 != 0 {
				s.embs = []fileSpec{{"i.png", []byte("\x89PNG")}}
			}
			runRT(r, r.NewID(), s)
		}
	}
	// white space inside unencoded header values: runs of blanks, TABs, leading / trailing blanks, short and long
	// enough to be folded, in the Subject and in From / To / Cc display names
	for _, subj := range []string{"Re:  column  aligned   text", "tab\there", " leading and trailing ", "a  b", "x \t y",
		strings.Repeat("wide  gap ", 12) + "end", strings.Repeat("w\tt ", 25), "trailing blanks   "} {
		for _, nm := range []string{"Alice  M.  Example", "Tab\tName", " Lead", "plain", strings.Repeat("Very  Long  ", 6) + "Name"} {
			p0 := "body"
			runRT(r, r.NewID(), spec{enc: "quoted-printable", subject: subj, fromName: nm, nTo: 2, nCc: 1,
				toNames: []string{nm, "Bob  B."}, ccNames: []string{"C  c"}, date: 1700000000, plain: &p0})
		}
	}
	// display names that make net/mail quote the phrase (or encode it): comma, semicolon, colon, angle brackets,
	// parentheses, dots, at-sign, quotes, backslash - in From, To and Cc, 1..3 recipients, mixed with plain ones
	special := []string{"Doe, John", "a;b", "Team: ops", "<angle>", "(paren) x", "J. R. Smith", "me@home", "say \"hi\"", "back\\slash",
		"Dö, J", "Smith, J.; \"x\" <y> (z) @ \\", "plain name", "", "O'Neil & Co", "[list] #1", "D\u00f6 \\ x"}
	for i, n1 := range special {
		p0 := "body"
		for k := 1; k <= 3; k++ {
			tn := []string{n1, "Plain", special[(i+5)%len(special)]}[:k]
			cn := []string{special[(i+3)%len(special)], ""}[:k%3]
			runRT(r, r.NewID(), spec{enc: "quoted-printable", subject: "names", fromName: special[(i+1)%len(special)], nTo: k, nCc: len(cn),
				toNames: tn, ccNames: cn, date: 1700000000, plain: &p0})
		}
	}
	// per-part transfer encodings: ALL ordered pairs and triples of {qp, base64, 8bit, 7bit} for the
	// alternatives of one container, under every message-level default, alone and followed by an
	// embed / an attachment / both (the part encoding must depend on the part's own headers only)
	encs := []string{"quoted-printable", "base64", "8bit", "7bit"}
	body := func(enc string, html bool, k int) string {
		t := fmt.Sprintf("part %d: a=b and c=3D, caf\u00e9 \u20ac", k)
		if enc == "7bit" {
			t = fmt.Sprintf("part %d plain ascii only", k)
		}
		if html {
			return "<p>" + t + "</p>"
		}
		return t
	}
	tuple := func(def string, pe []string, files int) {
		s := spec{enc: def, subject: "per-part encodings", fromName: "Sender", nTo: 1, date: 1700000000}
		p0, h1 := body(pe[0], false, 0), body(pe[1], true, 1)
		s.plain, s.penc, s.html, s.henc = &p0, pe[0], &h1, pe[1]
		for k := 2; k < len(pe); k++ {
			s.extra = append(s.extra, partSpec{html: k%2 == 1, content: body(pe[k], k%2 == 1, k), enc: pe[k]})
		}
		if files&1 != 0 {
			s.embs = []fileSpec{{"i.png", []byte("\x89PNG")}}
		}
		if files&2 != 0 {
			s.atts = []fileSpec{{"a.txt", []byte("attached")}}
		}
		runRT(r, r.NewID(), s)
	}
	for di, def := range encs {
		for _, e0 := range encs {
			for _, e1 := range encs {
				for files := 0; files < 4; files++ {
					tuple(def, []string{e0, e1}, files)
				}
				for _, e2 := range encs {
					// triples: every message default in thorough, one rotating default in quick
					if r.Tier == "thorough" || di == (len(e0)+len(e1)+len(e2))%4 {
						tuple(def, []string{e0, e1, e2}, (len(e0)+len(e2))%4)
					}
				}
			}
		}
	}
	// single part with a part-level encoding different from the message default, with files
	for _, def := range encs {
		for _, e0 := range encs {
			p0 := body(e0, false, 0)
			runRT(r, r.NewID(), spec{enc: def, subject: "s", fromName: "Sender", nTo: 1, date: 1700000000, plain: &p0, penc: e0,
				atts: []fileSpec{{"a.txt", []byte("attached")}}, embs: []fileSpec{{"i.png", []byte("\x89PNG")}}})
		}
	}
	// EMPTY contents: an empty text/plain next to HTML (and the reverse), an empty body with an attachment, empty
	// attachment / embed bytes, a part consisting only of a line end - under quoted-printable, base64, 8bit; every
	// part and every file must come back (count, order, type, content)
	for _, enc := range []string{"quoted-printable", "base64", "8bit"} {
		empty, crlf, lf, txt, htm := "", "\r\n", "\r\n\r\n", "some text", "<p>html</p>" // (bare LF is canonicalised by quoted-printable: C10_body_roundtrip)
		nofile, ef := []fileSpec(nil), []fileSpec{{"empty.txt", nil}}
		ff, ef2 := []fileSpec{{"a.txt", []byte("attached")}}, []fileSpec{{"e1.bin", nil}, {"full.bin", []byte("x")}, {"e2.bin", nil}}
		type ec struct {
			plain, html *string
			extra       []partSpec
			atts, embs  []fileSpec
		}
		for _, c := range []ec{
			{&empty, &htm, nil, nofile, nofile}, {&txt, &empty, nil, nofile, nofile}, {&empty, &empty, nil, nofile, nofile},
			{&empty, nil, nil, nofile, nofile}, {nil, &empty, nil, nofile, nofile},
			{&empty, nil, nil, ff, nofile}, {&empty, nil, nil, nofile, ff}, {&empty, &htm, nil, ff, ff}, {&empty, &empty, nil, ef, ef},
			{&txt, nil, nil, ef, nofile}, {&txt, nil, nil, nofile, ef}, {&txt, &htm, nil, ef2, ef2}, {&empty, nil, nil, ef, nofile},
			{&crlf, nil, nil, nofile, nofile}, {&crlf, &htm, nil, nofile, nofile}, {&txt, &crlf, nil, ff, nofile}, {&lf, &htm, nil, nofile, ff},
			{&txt, &htm, []partSpec{{false, "", ""}}, nofile, nofile}, {&empty, &htm, []partSpec{{true, "", ""}, {false, "last", ""}}, ff, nofile},
			{&txt, &empty, []partSpec{{false, "\r\n", ""}}, nofile, ef},
		} {
			runRT(r, r.NewID(), spec{enc: enc, subject: "empty contents", fromName: "Sender", nTo: 1, date: 1700000000,
				plain: c.plain, html: c.html, extra: c.extra, atts: c.atts, embs: c.embs})
		}
		// an empty part whose own encoding differs from the message's
		for _, pe := range []string{"quoted-printable", "base64", "8bit"} {
			if pe != enc {
				runRT(r, r.NewID(), spec{enc: enc, subject: "empty contents", fromName: "Sender", nTo: 1, date: 1700000000,
					plain: &empty, penc: pe, html: &htm, atts: ef})
			}
		}
	}
	// content SIZES over several orders of magnitude, for every encoding and every place a content can be in (part of
	// a multipart, single-part body, attachment, embed): every leaf must come back byte for byte, all of it.
	// quick: one size of each class per (encoding, place), rotating so that every size is used; thorough: all
	for ei, enc := range []string{"quoted-printable", "base64", "8bit"} {
		for pos := 0; pos < nSizedPos; pos++ {
			for ci, class := range sizeClasses {
				if r.Tier == "thorough" {
					for _, n := range class {
						runRT(r, r.NewID(), sizedSpec(enc, pos, n))
					}
				} else {
					q := class
					if ci == 3 {
						q = class[:4] // 100 000 bytes: thorough only
					}
					runRT(r, r.NewID(), sizedSpec(enc, pos, q[(ei*nSizedPos+pos+ci)%len(q)]))
				}
			}
		}
	}
	for i := 0; i < nrt && !r.Expired(); i++ {
		runRT(r, r.NewID(), x.spec())
	}
	// RFC 2047 decoding: hand-picked shapes, then Q and B encodings of generated subjects and mutations of them
	for _, v := range []string{"", "plain", "=?UTF-8?q?a?=", "=?utf-8?Q?a_b=3D?= =?UTF-8?b?Yw==?=", "x =?UTF-8?q?a?= y", "=?UTF-8?q?a?=  =?UTF-8?q?b?=",
		"=?UTF-8?q?a?= x =?UTF-8?q?b?=", "=?ISO-8859-1?q?caf=E9?=", "=?us-ascii?q?caf=E9?=", "=?koi8-r?q?x?=", "=?UTF-8?x?a?=", "=?UTF-8?q?=zz?= tail",
		"=?UTF-8?b?!!!?= =?UTF-8?q?ok?=", "=?UTF-8?q", "=?UTF-8?q?", "=?UTF-8?q?a", "=?", "a=?b?c?d?=e", "=?UTF-8?q??=", "=?UTF-8?Q?=e2=82=ac?=", "=?UTF-8?q?a?=\t=?UTF-8?q?b?=",
		"=?UTF-8?q?a b?=", "=?UTF-8?b?YQ?=", "=?UTF-8?q?=4?="} {
		runDec(r, r.NewID(), v)
	}
	ndec := 1500
	if r.Tier == "thorough" {
		ndec = 30000
	}
	for i := 0; i < ndec && !r.Expired(); i++ {
		s := x.words(1+x.n(14), 25)
		var v string
		switch x.n(5) {
		case 0:
			v = mime.QEncoding.Encode("UTF-8", s)
		case 1:
			v = mime.BEncoding.Encode("UTF-8", s)
		case 2:
			v = mime.QEncoding.Encode("UTF-8", s) + " " + x.words(2, 0) + " " + mime.BEncoding.Encode("UTF-8", x.words(3, 50))
		case 3:
			b := []byte(mime.QEncoding.Encode("UTF-8", s))
			if len(b) > 0 {
				b[x.n(len(b))] = byte(32 + x.n(95))
			}
			v = string(b)
		default:
			v = s
		}
		runDec(r, r.NewID(), v)
	}
	// file names: every printable ASCII byte in three positions, then generated names
	for b := 32; b < 127; b++ {
		for _, f := range []string{"%sx.txt", "a%sb.txt", "ab%s"} {
			runFname(r, r.NewID(), fmt.Sprintf(f, string(rune(b))))
		}
	}
	for _, o := range oddRunes {
		for _, f := range []string{"%sx.txt", "a%sb.txt", "ab%s", "r\u00e9sum\u00e9%s.pdf"} {
			runFname(r, r.NewID(), fmt.Sprintf(f, o))
		}
	}
	for i := 0; i < nfn && !r.Expired(); i++ {
		name := x.fileName()
		if x.p(30) {
			b := make([]byte, 1+x.n(12))
			for j := range b {
				b[j] = byte(32 + x.n(95))
			}
			name = string(b)
		}
		if !utf8.ValidString(name) {
			continue
		}
		runFname(r, r.NewID(), name)
	}
}
