// Package c19: "No connection outlives a failed operation".  Every failing reply {4yz, 5yz, garbage, drop} (plus failing
// tails: the QUIT / abort that follows the failure is itself rejected or dropped) at every position of the dial and
// dial-and-send dialogues x TLS policies x auth types, handshake failures, implicit TLS over TCP.  Observable compared
// with the model: result class, Close calls / open flag of the tracked connection, deadline arming per read, the
// server's log of processed positions.  Direct oracle: after an error return the connection must have been closed;
// a successful DialAndSend ends with QUIT and a closed connection.
package c19

import (
	"fmt"
	"path/filepath"
	"strings"
	"time"

	"verif/harness/dialx"
	"verif/harness/hx"
)

func init() { hx.Register("C19", Run) }

var capsPre = []string{"8BITMIME", "STARTTLS", "AUTH PLAIN LOGIN CRAM-MD5 XOAUTH2 SCRAM-SHA-256"}
var capsTLS = []string{"8BITMIME", "AUTH PLAIN LOGIN CRAM-MD5 XOAUTH2 SCRAM-SHA-256"}

// TimeoutFor: cases in which the server goes silent run with a short timeout, all others must never wait
func TimeoutFor(c dialx.Case) time.Duration {
	if c.HS == "stall" || c.Mute >= 0 {
		return 500 * time.Millisecond
	}
	for _, s := range c.Script {
		if s == "stall" || strings.HasPrefix(s, "ws") {
			return 500 * time.Millisecond
		}
	}
	return 3 * time.Second
}

func oks(n int) []string {
	s := make([]string, n)
	for i := range s {
		s[i] = "ok"
	}
	return s
}

// Oracle is the direct check of the property on one observation.
func Oracle(r *hx.Run, id string, c dialx.Case, o dialx.Obs) {
	if o.Hung {
		r.Fail(id, "call-blocked-beyond-bound", fmt.Sprintf("%s did not return within %v", c.Kind, dialx.Bound(TimeoutFor(c))))
		return
	}
	failed := false
	for _, x := range o.Results {
		if x != "ok" {
			failed = true
		}
	}
	open := o.Opened && !o.Closed
	if c.Net() {
		open = o.Opened && !o.Ended
	}
	what := fmt.Sprintf("result %s (%s), server saw %s, Close calls %d", strings.Join(o.Results, "/"), o.Err, o.Srv, o.Closes)
	switch c.Kind {
	case "dial":
		if failed && open {
			r.Fail(id, "dial-error-leaves-connection-open", "DialWithContext returned an error but the connection was not closed: "+what)
		}
	case "das":
		if open {
			cls := "das-success-leaves-connection-open"
			switch o.Phase {
			case "dial":
				cls = "dial-error-leaves-connection-open"
			case "send":
				cls = "send-error-leaves-connection-open"
			case "close":
				cls = "failed-quit-leaves-connection-open"
			}
			r.Fail(id, cls, "DialAndSendWithContext returned with the connection still open: "+what)
		}
		if !failed && o.LastVerb != "QUIT" {
			r.Fail(id, "success-without-quit", "DialAndSendWithContext succeeded but the last command was "+o.LastVerb+": "+what)
		}
	case "sess":
		// DialWithContext, Send, Reset, Close: a failed dial must have closed the connection; after Close() has returned
		// (with or without an error) the connection must be closed whatever happened in between
		if open {
			cls := "close-leaves-connection-open"
			if len(o.Results) == 1 {
				cls = "dial-error-leaves-connection-open"
			}
			r.Fail(id, cls, "the connection is still open after the last public call returned: "+what)
		}
	}
}

func Run(r *hx.Run, replay []hx.Case) {
	pki, err := dialx.Setup(filepath.Join(r.Dir, "pki"))
	if err != nil {
		r.Fail("setup", "harness-setup", err.Error())
		return
	}
	var cases []dialx.Case
	var ids []string
	if replay != nil {
		for _, hc := range replay {
			if hc.Kind == "redial" {
				runRedial(r, pki, hc.ID, hc.Args)
				continue
			}
			c, err := dialx.Parse(hc.Kind, hc.Args)
			if err != nil {
				r.Fail(hc.ID, "bad-case", err.Error())
				continue
			}
			cases = append(cases, c)
			ids = append(ids, hc.ID)
		}
	} else {
		cases = generate(r, pki)
		for range cases {
			ids = append(ids, r.NewID())
		}
		for _, hc := range redialCases() {
			runRedial(r, pki, r.NewID(), hc.Args)
		}
	}
	runCases(r, pki, cases, ids)
}

func runCases(r *hx.Run, pki *dialx.PKI, cases []dialx.Case, ids []string) {
	// group by timeout so that RunAll can take one value
	obs := make([]dialx.Obs, len(cases))
	errs := make([]error, len(cases))
	byT := map[time.Duration][]int{}
	for i, c := range cases {
		byT[TimeoutFor(c)] = append(byT[TimeoutFor(c)], i)
	}
	for t, idx := range byT {
		sub := make([]dialx.Case, len(idx))
		for k, i := range idx {
			sub[k] = cases[i]
		}
		o, e := dialx.RunAll(sub, pki, t, 32, r.Expired)
		for k, i := range idx {
			obs[i], errs[i] = o[k], e[k]
		}
	}
	for i, c := range cases {
		if errs[i] != nil {
			if !strings.HasPrefix(errs[i].Error(), "skipped") {
				r.Fail(ids[i], "harness-error", errs[i].Error())
			}
			continue
		}
		hc := hx.Case{ID: ids[i], Kind: c.Kind, Args: c.Args()}
		nontriv := len(c.Script) > 0 || c.HS != "ok"
		r.Add(hc, obs[i].Observable(c), nontriv)
		r.Dist["policy:"+c.Policy]++
		r.Dist["auth:"+c.Auth]++
		r.Dist["result:"+obs[i].Phase+":"+strings.Join(obs[i].Results, "/")]++
		if c.SSL {
			r.Dist["transport:tcp-implicit-tls"]++
		}
		Oracle(r, ids[i], c, obs[i])
	}
}

// positions of the all-OK dialogue of a configuration (script decisions consumed, AUTH steps included) and the AUTH position
func baseline(pki *dialx.PKI, c dialx.Case) (n, authPos int, err error) {
	n, authPos, _, err = dialx.Baseline(pki, c)
	return
}

func isScram(a string) bool { return strings.HasPrefix(a, "SCRAM") }

func generate(r *hx.Run, pki *dialx.PKI) []dialx.Case {
	thorough := r.Tier == "thorough"
	var out []dialx.Case
	auths := []string{"NOAUTH", "PLAIN", "LOGIN", "CRAM-MD5", "XOAUTH2", "SCRAM-SHA-256", "PLAIN-NOENC", "LOGIN-NOENC", "AUTODISCOVER"}
	if thorough {
		auths = append(auths, "SCRAM-SHA-1", "SCRAM-SHA-256-PLUS", "CUSTOM")
	}
	// the deviation alphabet: every reply code class a server uses to refuse or shut down (421 closing channel, 4yz,
	// 5yz incl. 530/535 auth codes), garbage, drop -- at every command position of the dial, connection-check, send and
	// close phases.  quick: the failing tails (the QUIT / abort that follows is itself rejected or dropped) are combined
	// with 421, 550 and drop only; thorough: with everything.
	fails := []string{"421", "450", "451", "452", "500", "502", "503", "530", "535", "550", "554", "0", "drop"}
	tails := [][]string{nil, {"500", "500", "500", "500"}, {"drop"}}
	tailed := map[string]bool{"421": true, "550": true, "drop": true}
	if thorough {
		fails = append(fails, "250", "334", "334b", "235", "999")
		tails = append(tails, []string{"451", "451", "451", "451"}, []string{"0", "0", "0"}, []string{"ok", "500"}, []string{"421", "421", "421"})
	}
	add := func(base dialx.Case) {
		if r.Expired() {
			return
		}
		// the SCRAM mechanisms against a server that does not speak SCRAM: the AUTH command is always answered 535
		// where it is reached (what a bare 235 does to the SCRAM client is C15's subject)
		n, pa, err := baseline(pki, base)
		if err != nil {
			r.Fail("baseline", "harness-error", err.Error())
			return
		}
		fix := func(s []string) []string {
			if isScram(base.Auth) && pa >= 0 {
				for len(s) <= pa {
					s = append(s, "ok")
				}
				if s[pa] == "ok" || s[pa] == "235" || s[pa] == "250" {
					s[pa] = "535"
				}
			}
			return s
		}
		c0 := base
		c0.Script = fix(nil)
		out = append(out, c0)
		// SCRAM: an empty challenge makes the client send its first message; the deviation then hits the 2nd step of
		// the exchange (incl. a 235 before any server signature was verified, and a second challenge)
		if isScram(base.Auth) && pa >= 0 {
			for _, f := range append(append([]string{}, fails...), "ok", "235", "334b", "334e", "334") {
				for ti, t := range tails {
					if ti > 0 && !thorough && !tailed[f] {
						continue
					}
					if base.Kind == "sess" && !thorough && ti > 0 {
						continue
					}
					c := base
					c.Script = append(append(oks(pa), "334e", f), t...)
					out = append(out, c)
				}
			}
		}
		for p := 0; p < n; p++ {
			for _, f := range fails {
				for ti, t := range tails {
					if ti > 0 && !thorough && !tailed[f] {
						continue
					}
					if base.Kind == "sess" && !thorough && (ti > 0 || !tailed[f]) {
						continue
					}
					c := base
					s := append(oks(p), f)
					s = append(s, t...)
					c.Script = fix(s)
					out = append(out, c)
				}
			}
		}
	}
	for _, pol := range []string{"N", "O", "M"} {
		for _, a := range auths {
			for _, kind := range []string{"dial", "das", "sess"} {
				hosts := []string{dialx.OtherMem}
				if pol == "N" && (a == "PLAIN" || a == "LOGIN") {
					hosts = append(hosts, "localhost")
				}
				for _, h := range hosts {
					base := dialx.Case{Kind: kind, Policy: pol, Auth: a, Custom: "-", Host: h, Mute: -1, Caps: capsPre, CapsTLS: capsTLS, HS: "ok"}
					if kind != "dial" {
						base.Msgs = []int{1 + r.Rng.Intn(2)}
						if thorough {
							base.Msgs = append(base.Msgs, 1)
						}
					}
					if a == "CUSTOM" {
						base.Custom = "cram"
					}
					add(base)
				}
			}
		}
	}
	// failed handshakes
	for _, pol := range []string{"O", "M"} {
		for _, hs := range []string{"wrongname", "untrusted", "garbage"} {
			for _, kind := range []string{"dial", "das"} {
				for _, t := range tails {
					c := dialx.Case{Kind: kind, Policy: pol, Auth: "PLAIN", Custom: "-", Host: dialx.OtherMem, Mute: -1, Caps: capsPre, CapsTLS: capsTLS, HS: hs}
					if kind == "das" {
						c.Msgs = []int{1}
					}
					c.Script = append(oks(3), t...)
					out = append(out, c)
				}
			}
		}
	}
	// STARTTLS not advertised / no AUTH advertised
	for _, pol := range []string{"O", "M"} {
		for _, a := range []string{"NOAUTH", "PLAIN", "AUTODISCOVER"} {
			for _, t := range tails {
				c := dialx.Case{Kind: "dial", Policy: pol, Auth: a, Custom: "-", Host: dialx.OtherMem, Mute: -1, Caps: []string{"8BITMIME"}, CapsTLS: capsTLS, HS: "ok"}
				c.Script = append(oks(2), t...)
				out = append(out, c)
			}
		}
	}
	// a silent server: the connection must be closed after the timeout as well
	nst := 6
	if thorough {
		nst = 12
	}
	for p := 0; p < nst; p++ {
		for _, kind := range []string{"dial", "das"} {
			c := dialx.Case{Kind: kind, Policy: "N", Auth: "CRAM-MD5", Custom: "-", Host: dialx.OtherMem, Mute: -1, Caps: capsPre, CapsTLS: capsTLS, HS: "ok"}
			if kind == "das" {
				c.Msgs = []int{1}
			}
			c.Script = append(oks(p), "stall")
			out = append(out, c)
		}
	}
	// implicit TLS over TCP with the stock tls.Dialer
	for _, a := range []string{"NOAUTH", "PLAIN"} {
		for _, kind := range []string{"dial", "das"} {
			base := dialx.Case{Kind: kind, Policy: "M", SSL: true, Auth: a, Custom: "-", Host: "127.0.0.1", Mute: -1, Caps: capsTLS, CapsTLS: capsTLS, HS: "ok"}
			if kind == "das" {
				base.Msgs = []int{1}
			}
			n, _, err := baseline(pki, base)
			if err != nil {
				r.Fail("baseline", "harness-error", err.Error())
				continue
			}
			out = append(out, base)
			for p := 0; p < n; p++ {
				for _, f := range []string{"550", "drop"} {
					c := base
					c.Script = append(oks(p), f)
					out = append(out, c)
					if thorough {
						c2 := base
						c2.Script = append(append(oks(p), f), "500", "500", "500")
						out = append(out, c2)
					}
				}
			}
		}
	}
	out = append(out, dialx.FallbackTCPCases()...)
	if ws, err := dialx.WriteStallCases(pki); err == nil {
		out = append(out, ws...)
	} else {
		r.Fail("baseline", "harness-error", err.Error())
	}
	for _, hs := range []string{"wrongname", "untrusted", "garbage"} {
		out = append(out, dialx.Case{Kind: "dial", Policy: "M", SSL: true, Auth: "NOAUTH", Custom: "-", Host: "127.0.0.1", Mute: -1, Caps: capsTLS, CapsTLS: capsTLS, HS: hs})
	}
	return out
}
