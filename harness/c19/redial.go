package c19

// Re-dial sequences on ONE mail.Client (oracle only): DialWithContext, then the first session goes stale in some way,
// then a second DialWithContext whose own dialogue succeeds, then Close.  All connections the client ever opened are
// tracked.  Oracle: when a call returns an error, every connection opened by THAT call is closed; when every session
// was closed by the caller (Close between the dials), every connection is closed at the end.

import (
	"context"
	"fmt"
	"net"
	"strings"
	"sync"
	"time"

	mail "github.com/wneessen/go-mail"

	"verif/harness/dialx"
	"verif/harness/hx"
	"verif/harness/smtpx"
)

// redialCases: <policy> <what the server of the first connection does with the QUIT> <close between the dials 0|1>
func redialCases() []hx.Case {
	var out []hx.Case
	for _, pol := range []string{"N", "M"} {
		for _, quit := range []string{"ok", "451", "550", "0", "drop", "stall"} {
			for _, cl := range []string{"0", "1"} {
				out = append(out, hx.Case{Kind: "redial", Args: []string{pol, quit, cl}})
			}
		}
	}
	return out
}

func runRedial(r *hx.Run, pki *dialx.PKI, id string, args []string) {
	if len(args) != 3 {
		r.Fail(id, "bad-case", "redial needs 3 arguments")
		return
	}
	polTok, quit, closeBetween := args[0], args[1], args[2] == "1"
	hc := hx.Case{ID: id, Kind: "redial", Args: args}
	caps := []string{"8BITMIME", "STARTTLS"}
	var mu sync.Mutex
	var conns []*smtpx.Conn
	var servers []*smtpx.Server
	// positions of the first connection: GREETING EHLO [STARTTLS EHLO] then the QUIT (or whatever comes next)
	pre := 2
	if polTok == "M" {
		pre = 4
	}
	dial := func(ctx context.Context, network, address string) (net.Conn, error) {
		mu.Lock()
		defer mu.Unlock()
		var script []smtpx.Decision
		if len(conns) == 0 && quit != "ok" { // only the first connection misbehaves, at its QUIT
			for i := 0; i < pre; i++ {
				script = append(script, smtpx.OK())
			}
			script = append(script, smtpx.ParseDecision(quit))
		}
		srv := smtpx.NewServer(caps, script)
		srv.CapsAfterTLS = []string{"8BITMIME"}
		srv.TLSConfig = dialx.ServerTLS(pki)
		cl, sv := smtpx.NewPair()
		conns = append(conns, cl)
		servers = append(servers, srv)
		go srv.Serve(sv)
		return cl, nil
	}
	pol := map[string]mail.TLSPolicy{"M": mail.TLSMandatory, "N": mail.NoTLS}[polTok]
	to := 500 * time.Millisecond
	c, err := mail.NewClient(dialx.OtherMem, mail.WithHELO(dialx.HeloName), mail.WithTimeout(to), mail.WithTLSPolicy(pol), mail.WithDialContextFunc(dial))
	if err != nil {
		r.Fail(id, "harness-error", err.Error())
		return
	}
	opened := func() int { mu.Lock(); defer mu.Unlock(); return len(conns) }
	openOf := func(from int) []int {
		mu.Lock()
		defer mu.Unlock()
		var res []int
		for i := from; i < len(conns); i++ {
			if cl, _ := conns[i].Closed(); !cl {
				res = append(res, i+1)
			}
		}
		return res
	}
	var log []string
	call := func(name string, f func() error) (error, bool) {
		before := opened()
		ch := make(chan error, 1)
		go func() { ch <- f() }()
		select {
		case err := <-ch:
			log = append(log, fmt.Sprintf("%s=%s", name, dialx.Classify(err)))
			if err != nil {
				if still := openOf(before); len(still) > 0 {
					r.Fail(id, "redial-error-leaves-new-connection-open", fmt.Sprintf("%s returned %q but the connection(s) it opened are still open: #%v of %d; calls so far: %s",
						name, err.Error(), still, opened(), strings.Join(log, " ")))
				}
			}
			return err, true
		case <-time.After(dialx.Bound(to)):
			r.Fail(id, "call-blocked-beyond-bound", name+" did not return; calls so far: "+strings.Join(log, " "))
			return nil, false
		}
	}
	ctx := context.Background()
	ok := true
	if _, ok = call("Dial#1", func() error { return c.DialWithContext(ctx) }); ok && closeBetween {
		_, ok = call("Close#1", func() error { return c.Close() })
	}
	if ok {
		_, ok = call("Dial#2", func() error { return c.DialWithContext(ctx) })
	}
	if ok {
		_, ok = call("Close#2", func() error { return c.Close() })
	}
	if ok && closeBetween {
		// every session was closed by the caller: nothing may be left open
		if still := openOf(0); len(still) > 0 {
			r.Fail(id, "connection-open-after-close", fmt.Sprintf("after the last Close connection(s) #%v of %d are still open; calls: %s", still, opened(), strings.Join(log, " ")))
		}
	}
	mu.Lock()
	for _, cl := range conns {
		cl.Close()
	}
	for _, s := range servers {
		s.Finish(20 * time.Millisecond)
	}
	mu.Unlock()
	r.AddOracleOnly(hc, true)
	r.Dist["redial:"+strings.Join(log, " ")]++
}
