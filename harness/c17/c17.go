// Package c17: "Every network operation is bounded by the configured timeout".  A server that holds the connection
// open silently at every position of the dial / dial-and-send / dial+send+reset+close dialogues (script decision
// stall), in the middle of an AUTH exchange (replies muted from the k-th server write on) and inside the TLS handshake,
// for each TLS mode and auth mechanism class, with WithTimeout(dialx.StallTimeout = 600 ms).  Observable compared with the model: result
// classes, per-read "a deadline was set" (from the SetDeadline calls in the tracked connection's operation log), the
// server's log.  Direct oracle: every public call returns within max(20 x timeout, 5 s).
package c17

import (
	"fmt"
	"path/filepath"
	"strings"
	"time"

	"verif/harness/dialx"
	"verif/harness/hx"
)

func init() { hx.Register("C17", Run) }

var capsPre = []string{"8BITMIME", "STARTTLS", "AUTH PLAIN LOGIN CRAM-MD5 XOAUTH2"}
var capsTLS = []string{"8BITMIME", "AUTH PLAIN LOGIN CRAM-MD5 XOAUTH2"}

func oracle(r *hx.Run, id string, c dialx.Case, o dialx.Obs) {
	calls := 1
	if c.Kind == "sess" {
		calls = 4
	}
	bound := dialx.Bound(dialx.TimeoutFor(c))
	if c.Kind == "sess2" {
		calls = 5
	}
	if o.Hung || o.Elapsed > bound*time.Duration(calls) {
		at := o.LastVerb
		if at == "" {
			at = "CONNECT"
		}
		if c.HS == "stall" {
			at = "TLS-HANDSHAKE"
		}
		for _, t := range c.Script {
			if strings.HasPrefix(t, "ws") || strings.HasPrefix(t, "wf") {
				at = "CONTENT" // the server stopped reading after the 354
			}
		}
		call := o.HungCall
		if call == "" {
			call = c.Kind
		}
		r.Fail(id, "blocked-at-"+at, fmt.Sprintf("%s did not return within %v with WithTimeout(%v): the server went silent after %s; reads without a deadline: %d",
			call, bound, dialx.TimeoutFor(c), o.Srv, o.Unarmed))
	}
}

// periodsOf: the number of timeout periods a public call can spend (theorems C17_time_budget_*: arming points passed, plus
// the dial context for the connect): independent of the number of recipients, linear in the number of messages
func periodsOf(call string, nmsgs int) int {
	switch call {
	case "DialWithContext":
		return 2
	case "DialAndSendWithContext":
		return nmsgs + 5
	case "Send":
		return nmsgs + 1
	}
	return 1 // Reset, Close
}

// manyRecipients: the cases in which the time budget is checked tightly
func manyRecipients(c dialx.Case) bool {
	for _, n := range c.Msgs {
		if n >= 8 {
			return true
		}
	}
	return false
}

// budgetOracle: every call of a many-recipient stall case stays within (periods + 1.5) x timeout + 1 s -- a call that
// waits one timeout per recipient does not
func budgetOracle(r *hx.Run, id string, c dialx.Case, o dialx.Obs) {
	if !manyRecipients(c) || o.Hung {
		return
	}
	to := dialx.TimeoutFor(c)
	for _, ct := range o.Calls {
		k := periodsOf(ct.Name, len(c.Msgs))
		limit := time.Duration(float64(to)*(float64(k)+1.5)) + time.Second
		if ct.Elapsed > limit {
			r.Fail(id, "exceeds-time-budget-"+ct.Name, fmt.Sprintf("%s took %v with WithTimeout(%v) and %v recipients: more than the %d timeout periods the call can spend (limit %v); SetDeadline calls %d, deadlines waited out %d; server log %s",
				ct.Name, ct.Elapsed.Round(time.Millisecond), to, c.Msgs, k, limit, o.Arms, o.Spent, o.Srv))
		}
	}
}

func Run(r *hx.Run, replay []hx.Case) {
	pki, err := dialx.Setup(filepath.Join(r.Dir, "pki"))
	if err != nil {
		r.Fail("setup", "harness-setup", err.Error())
		return
	}
	var cases []dialx.Case
	var ids []string
	if replay != nil {
		cases, ids = dialx.FromReplay(r, replay)
	} else {
		cases = generate(r, pki)
		for range cases {
			ids = append(ids, r.NewID())
		}
	}
	nontriv := func(c dialx.Case) bool {
		return c.HS == "stall" || c.Mute >= 0 || strings.Contains(strings.Join(c.Script, ","), "stall")
	}
	dialx.RunCases(r, pki, cases, ids, 24, nontriv, func(r *hx.Run, id string, c dialx.Case, o dialx.Obs) {
		oracle(r, id, c, o)
		budgetOracle(r, id, c, o)
	})
	r.Notes["blocked_cases"] = dialx.Blocked()
	if dialx.Blocked() >= dialx.MaxBlocked {
		r.Notes["stopped_early"] = "more than MaxBlocked cases did not return: the remaining cases were skipped"
	}
	r.Notes["timeout_ms"] = dialx.StallTimeout.Milliseconds()
	r.Notes["bound"] = dialx.Bound(dialx.StallTimeout).String()
}

func generate(r *hx.Run, pki *dialx.PKI) []dialx.Case {
	thorough := r.Tier == "thorough"
	var out []dialx.Case
	type mode struct {
		pol  string
		ssl  bool
		host string
	}
	modes := []mode{{"N", false, dialx.OtherMem}, {"M", false, dialx.OtherMem}, {"O", false, dialx.OtherMem}, {"M", true, "127.0.0.1"}}
	auths := []string{"NOAUTH", "LOGIN", "CRAM-MD5"}
	kinds := []string{"dial", "das", "sess", "sess2"}
	if thorough {
		auths = append(auths, "PLAIN", "XOAUTH2", "AUTODISCOVER", "LOGIN-NOENC")
	}
	auths = append(auths, "SCRAM-SHA-256")
	for _, m := range modes {
		for _, a := range auths {
			for _, k := range kinds {
				if r.Expired() {
					return out
				}
				if !thorough && strings.HasPrefix(a, "SCRAM") && k != "dial" {
					continue
				}
				// a second Send on the persistent connection (sess2): quick tier for the cleartext and the STARTTLS mode,
				// without authentication
				if k == "sess2" && !thorough && (a != "NOAUTH" || m.ssl || m.pol == "O") {
					continue
				}
				au := a
				if m.pol == "N" && !m.ssl && a == "LOGIN" {
					au = "LOGIN-NOENC" // LOGIN proper refuses to run without TLS
				}
				base := dialx.Case{Kind: k, Policy: m.pol, SSL: m.ssl, Auth: au, Custom: "-", Host: m.host, Mute: -1, Caps: capsPre, CapsTLS: capsTLS, HS: "ok"}
				if m.ssl {
					base.Caps = capsTLS
				}
				if strings.HasPrefix(au, "SCRAM") {
					base.Caps = []string{"8BITMIME", "STARTTLS", "AUTH SCRAM-SHA-256"}
					base.CapsTLS = []string{"8BITMIME", "AUTH SCRAM-SHA-256"}
				}
				if k != "dial" {
					base.Msgs = []int{1}
					if thorough {
						base.Msgs = []int{2, 1}
						base.NoNoop = r.Rng.Intn(4) == 0
					}
				}
				n, pa, _, err := dialx.Baseline(pki, base)
				if err != nil {
					r.Fail("baseline", "harness-error", err.Error())
					continue
				}
				out = append(out, base) // the prompt server: every read must still be made under a deadline
				for p := 0; p < n; p++ {
					c := base
					c.Script = append(dialx.OKs(p), "stall")
					if strings.HasPrefix(au, "SCRAM") && pa >= 0 && p > pa {
						c.Script[pa] = "535"
					}
					out = append(out, c)
				}
				// SCRAM: silence after the client's first message (2nd step of the exchange)
				if strings.HasPrefix(au, "SCRAM") && pa >= 0 {
					c := base
					c.Script = append(dialx.OKs(pa), "334e", "stall")
					out = append(out, c)
				}
				// a 421 (service closing channel) that is not followed by a disconnect: the server keeps the connection
				// open and is silent from the next command on
				if k != "dial" {
					for q := 0; q+1 < n; q++ {
						c := base
						c.Script = append(dialx.OKs(q), "421", "stall")
						if strings.HasPrefix(au, "SCRAM") && pa >= 0 && q > pa {
							c.Script[pa] = "535"
						}
						out = append(out, c)
					}
				}
				// refused dial attempts: without a fallback port the call fails at once; with one, the second attempt
				// succeeds (or is refused too) and the dialogue -- here with a silent server -- runs on that connection
				if !m.ssl && k == "dial" {
					for _, fr := range [][2]int{{0, 1}, {1, 1}, {1, 2}} {
						c := base
						c.Fallback, c.Refuse = fr[0] == 1, fr[1]
						out = append(out, c)
						c2 := c
						c2.Script = []string{"ok", "stall"}
						out = append(out, c2)
					}
				}
				// silence inside the TLS handshake
				if m.pol != "N" || m.ssl {
					c := base
					c.HS = "stall"
					out = append(out, c)
				}
				// replies muted from the k-th server write on (cleartext sessions: one write per reply / 334 prompt)
				if m.pol == "N" && !m.ssl && k != "sess" && k != "sess2" {
					lim := n + 3
					for q := 0; q < lim; q++ {
						c := base
						c.Mute = q
						out = append(out, c)
					}
				}
			}
		}
	}
	// messages with many recipients, the server silent from the first / a middle RCPT on: the time a call takes must not
	// grow with the number of recipients (budgetOracle; the model's arms / spent counters are compared as well)
	for _, pol := range []string{"N", "M"} {
		for _, k := range []string{"das", "sess"} {
			base := dialx.Case{Kind: k, Policy: pol, Auth: "NOAUTH", Custom: "-", Host: dialx.OtherMem, Mute: -1, Caps: capsPre, CapsTLS: capsTLS, HS: "ok", Msgs: []int{12}}
			_, _, log, err := dialx.Baseline(pki, base)
			if err != nil {
				r.Fail("baseline", "harness-error", err.Error())
				continue
			}
			first := -1
			for i, e := range strings.Split(log, ",") {
				if strings.HasPrefix(e, "RCPT") && first < 0 {
					first = i
				}
			}
			if first < 0 {
				continue
			}
			for _, p := range []int{first, first + 6} {
				c := base
				c.Script = append(dialx.OKs(p), "stall")
				out = append(out, c)
			}
		}
	}
	if ws, err := dialx.WriteStallCases(pki); err == nil {
		out = append(out, ws...)
	} else {
		r.Fail("baseline", "harness-error", err.Error())
	}
	if thorough {
		out = append(out, dialx.WriteStallTCPCases()...)
	}
	return append(out, dialx.FallbackTCPCases()...)
}
