// Package c20: implementation side of the C20 check (engine smtpsend); the shared machinery is in harness/sendx.
package c20

import (
	"verif/harness/hx"
	"verif/harness/sendx"
)

func init() { hx.Register("C20", Run) }

// Run generates (or replays) the cases of C20, drives the real client and applies the direct oracle.
func Run(r *hx.Run, replay []hx.Case) { sendx.RunProp(r, replay, "C20") }
