// Package c15: "SCRAM authenticates the server" (C15).
// Implementation side of the correspondence and the direct oracle.  The real scramAuth mechanisms are driven
// through smtp.Client.Auth against a scripted adversarial server that speaks the property's alphabet of ten
// server messages, each made concrete against what the server has seen of the client so far (the same
// construction as coq/theories/SaslRun.v concretize / see_line).  Exhaustive over all sequences up to length
// 4 (quick) / 5 (thorough) for SCRAM-SHA-1, SCRAM-SHA-256 and both -PLUS variants; plus retries on the same Auth
// value (second call on a new connection) with an eleventh symbol: replay of the first call's valid server-final;
// plus the family "restart inside one AUTH dialogue" ([empty] ++ prefix ++ [empty] ++ suffix) with a twelfth symbol:
// the valid server-final of the earlier exchange of the same dialogue, resent.
//
// observable (compared with the model): result class and every line the client wrote.
// direct oracle (independent of the model; reference functions of harness/saslx written from RFC 5802):
// success only after a well-formed server-first extending the nonce of the running exchange and, later, the
// ServerSignature over this exchange's AuthMessage; an empty client line (acknowledgement) only directly after
// such a server-final.
package c15

import (
	"crypto/tls"
	"fmt"
	"strconv"
	"strings"

	"github.com/wneessen/go-mail/smtp"
	"verif/harness/hx"
	"verif/harness/saslx"
)

type variant struct {
	name   string
	mech   string
	hash   saslx.Hash
	plus   bool
	tlsVer uint16
}

var variants = []variant{
	{"sha1", "SCRAM-SHA-1", saslx.SHA1, false, 0},
	{"sha256", "SCRAM-SHA-256", saslx.SHA256, false, 0},
	{"sha1plus", "SCRAM-SHA-1-PLUS", saslx.SHA1, true, tls.VersionTLS12},
	{"sha256plus", "SCRAM-SHA-256-PLUS", saslx.SHA256, true, tls.VersionTLS13},
}

func variantOf(name string) variant {
	for _, v := range variants {
		if v.name == name {
			return v
		}
	}
	panic("unknown variant " + name)
}

// TLS connection states for the -PLUS variants: one real handshake per protocol version and run.
var tlsStates = map[uint16]*tls.ConnectionState{}

func tlsState(ver uint16) *tls.ConnectionState {
	if st, ok := tlsStates[ver]; ok {
		return st
	}
	c, s, err := saslx.NewTLSPair(ver)
	if err != nil {
		panic("tls pair: " + err.Error())
	}
	st := c.ConnectionState()
	_ = s
	tlsStates[ver] = &st
	return &st
}

func tlsArg(st *tls.ConnectionState) string {
	if st == nil {
		return "-"
	}
	v13 := "0"
	if st.Version >= tls.VersionTLS13 {
		v13 = "1"
	}
	u := "!"
	if st.TLSUnique != nil {
		u = hx.Hex(st.TLSUnique)
	}
	e := "!"
	if d, err := st.ExportKeyingMaterial("EXPORTER-Channel-Binding", []byte{}, 32); err == nil {
		e = hx.Hex(d)
	}
	return v13 + ":" + u + ":" + e
}

func newAuth(v variant, user, pass string, st *tls.ConnectionState) smtp.Auth {
	switch v.name {
	case "sha1":
		return smtp.ScramSHA1Auth(user, pass)
	case "sha256":
		return smtp.ScramSHA256Auth(user, pass)
	case "sha1plus":
		return smtp.ScramSHA1PlusAuth(user, pass, st)
	default:
		return smtp.ScramSHA256PlusAuth(user, pass, st)
	}
}

// ---- the adversary (mirror of SaslRun.v) ----

type view struct{ bare, cn, sfirst, cfwp, lastfinal string }

func (v *view) see(line string) {
	m, ok := saslx.UnB64(line)
	if !ok {
		return
	}
	s := string(m)
	switch {
	case strings.HasPrefix(s, "n,,") || strings.HasPrefix(s, "p="):
		i := strings.Index(s, ",,")
		if i < 0 {
			return
		}
		v.bare = s[i+2:]
		parts := strings.Split(v.bare, ",")
		last := parts[len(parts)-1]
		if len(last) >= 2 {
			v.cn = last[2:]
		} else {
			v.cn = ""
		}
	case strings.HasPrefix(s, "c="):
		parts := strings.Split(s, ",")
		v.cfwp = strings.Join(parts[:len(parts)-1], ",")
	}
}

// the server's account data (RFC 5802 section 3): salt, iteration count, ServerKey; otherKey is the ServerKey of
// another password, emptyKey = HMAC("", "Server Key")
type params struct {
	salt      []byte
	iter      int
	serverKey []byte
	otherKey  []byte
	emptyKey  []byte
	zeroKey   []byte // HMAC(0^hashlen, "Server Key")
	nonce     string
}

func mkParams(h saslx.Hash, npass, salt []byte, iter int) params {
	return params{salt: salt, iter: iter,
		serverKey: saslx.ServerKey(h, saslx.Hi(h, npass, salt, iter)),
		otherKey:  saslx.ServerKey(h, saslx.Hi(h, []byte("wrong-password"), salt, iter)),
		emptyKey:  saslx.HMAC(h, nil, []byte("Server Key")),
		zeroKey:   saslx.HMAC(h, make([]byte, h.Size), []byte("Server Key")), nonce: "srvNONCE"}
}

func (p params) arg() string {
	return hx.Hex(p.serverKey) + ":" + hx.Hex(p.otherKey) + ":" + hx.Hex(p.emptyKey) + ":" + hx.Hex(p.zeroKey)
}

func srvSig(h saslx.Hash, key []byte, v *view) string {
	am := v.bare + "," + v.sfirst + "," + v.cfwp
	return "v=" + saslx.B64(saslx.HMAC(h, key, []byte(am)))
}

const (
	symFirst = iota
	symFirstForeign
	symFirstMalformed
	symFinal
	symFinalOther
	symFinalEmpty
	symEmpty
	symJunk
	symSuccess
	symFailure
	symReplay         // second call of a retry only: the valid server-final of the FIRST call
	symReplayDialogue // the last valid server-final (symbol 3) sent earlier in THIS dialogue, resent
	symFirstEmpty     // server-first with an empty r=
	symFirstOne       // server-first whose r= is the first byte of the client nonce
	symFirstShort     // server-first whose r= is the client nonce without its last byte (nothing appended)
	symFirstExact     // server-first whose r= is the client nonce exactly (no server part)
	symIter0          // otherwise valid server-first with i=0
	symIterNeg        // i=-1
	symIter00         // i=00
	symIterPlus       // i=+5
	symIterEmpty      // i=
	symIterJunk       // i=4096x
	symIterHuge       // i=99999999999999999999
	symFinalZero      // server-final computed from an ALL-ZERO SaltedPassword of the hash's length
)

var iterTexts = map[byte]string{symIter0: "0", symIterNeg: "-1", symIter00: "00", symIterPlus: "+5", symIterEmpty: "", symIterJunk: "4096x", symIterHuge: "99999999999999999999"}

type reply struct {
	code int
	text string
}

func chal(m string) reply { return reply{334, saslx.B64([]byte(m))} }

func concretize(h saslx.Hash, p params, prev string, sym byte, v *view) reply {
	tail := ",s=" + saslx.B64(p.salt) + ",i=" + strconv.Itoa(p.iter)
	switch sym {
	case symFirst:
		m := "r=" + v.cn + p.nonce + tail
		v.sfirst = m
		return chal(m)
	case symFirstForeign:
		cn := v.cn
		if len(cn) > 0 {
			cn = cn[:len(cn)-1]
		}
		m := "r=" + cn + "~" + p.nonce + tail
		v.sfirst = m
		return chal(m)
	case symFirstEmpty, symFirstOne, symFirstShort, symFirstExact:
		cn := v.cn
		switch {
		case sym == symFirstEmpty:
			cn = ""
		case sym == symFirstOne && len(cn) > 1:
			cn = cn[:1]
		case sym == symFirstShort && len(cn) > 0:
			cn = cn[:len(cn)-1]
		}
		m := "r=" + cn + tail
		v.sfirst = m
		return chal(m)
	case symIter0, symIterNeg, symIter00, symIterPlus, symIterEmpty, symIterJunk, symIterHuge:
		m := "r=" + v.cn + p.nonce + ",s=" + saslx.B64(p.salt) + ",i=" + iterTexts[sym]
		v.sfirst = m
		return chal(m)
	case symFirstMalformed:
		m := "r=" + v.cn + p.nonce + ",s=!!!,i=" + strconv.Itoa(p.iter)
		v.sfirst = m
		return chal(m)
	case symFinal:
		v.lastfinal = srvSig(h, p.serverKey, v)
		return chal(v.lastfinal)
	case symReplayDialogue:
		return chal(v.lastfinal)
	case symFinalOther:
		return chal(srvSig(h, p.otherKey, v))
	case symFinalZero:
		return chal(srvSig(h, p.zeroKey, v))
	case symFinalEmpty:
		return chal("v=" + saslx.B64(saslx.HMAC(h, p.emptyKey, nil)))
	case symEmpty:
		return reply{334, ""}
	case symJunk:
		return chal("x=junk")
	case symSuccess:
		return reply{235, "2.7.0 ok"}
	case symFailure:
		return reply{535, "5.7.8 no"}
	default:
		return chal(prev)
	}
}

// one Auth call against the adversary; returns class, client lines, the replies given, the server's final view
func runAuth(a smtp.Auth, v variant, p params, prev string, syms []byte) (string, []string, []reply, *view, error) {
	vw := &view{}
	var replies []reply
	k := 0
	sess, err := saslx.NewSession("localhost", []string{"AUTH " + v.mech}, func(line string) string {
		vw.see(line)
		if k >= len(syms) {
			return ""
		}
		if line == "*" || line == "QUIT" {
			// the client has left the exchange: answer 250, the symbol is spent
			k++
			replies = append(replies, reply{250, "ok"})
			return saslx.FormatReply(250, "ok")
		}
		r := concretize(v.hash, p, prev, syms[k], vw)
		k++
		replies = append(replies, r)
		return saslx.FormatReply(r.code, r.text)
	})
	if err != nil {
		return "", nil, nil, nil, err
	}
	aerr := sess.Client.Auth(a)
	_ = sess.Conn.Close()
	return saslx.Classify(aerr), sess.Lines, replies, vw, nil
}

// ---- direct oracle ----

// check applies the property to one Auth call: lines[k] is answered by replies[k].
func check(r *hx.Run, id string, v variant, npass []byte, class string, lines []string, replies []reply) {
	type exch struct {
		cf       saslx.ClientFirst
		haveCF   bool
		sf       saslx.ServerFirst
		haveSF   bool
		verified bool
	}
	var e exch
	verifiedAt := -1 // index of the reply that was the valid server-final of the running exchange
	for k, line := range lines {
		// what the client wrote
		if m, ok := saslx.UnB64(line); ok && k > 0 {
			if cf, err := saslx.ParseClientFirst(m); err == nil {
				e = exch{cf: cf, haveCF: true}
				verifiedAt = -1
			}
			if len(line) == 0 {
				// acknowledgement: must directly follow the valid server-final
				if verifiedAt != k-1 {
					r.Fail(id, "ack-for-invalid-server-final", fmt.Sprintf("client line %d is an empty acknowledgement but reply %d was not the valid server-final of the running exchange (lines %q)", k, k-1, lines))
				}
			}
		}
		if k >= len(replies) {
			break
		}
		rp := replies[k]
		if rp.code != 334 {
			continue
		}
		m, ok := saslx.UnB64(rp.text)
		if !ok {
			continue
		}
		if sf, err := saslx.ParseServerFirst(m); err == nil {
			if e.haveCF && strings.HasPrefix(sf.Nonce, e.cf.Nonce) {
				e.sf, e.haveSF, e.verified = sf, true, false
				verifiedAt = -1
			}
			continue
		}
		if strings.HasPrefix(string(m), "v=") && e.haveCF && e.haveSF && k+1 <= len(lines) {
			// the client-final-message is the line that answered the server-first, i.e. lines[k] here when the
			// final directly follows; in general the last client line that parses as a client-final
			var cfin saslx.ClientFinal
			found := false
			for j := k; j >= 1; j-- {
				if mm, ok := saslx.UnB64(lines[j]); ok {
					if c, err := saslx.ParseClientFinal(mm); err == nil {
						cfin, found = c, true
						break
					}
					if _, err := saslx.ParseClientFirst(mm); err == nil {
						break
					}
				}
			}
			if !found {
				continue
			}
			am := e.cf.Bare + "," + e.sf.Raw + "," + cfin.WithoutProof
			want := "v=" + saslx.B64(saslx.ServerSignature(v.hash, saslx.ServerKey(v.hash, saslx.SaltedPassword(v.hash, npass, e.sf.Salt, e.sf.Iter)), []byte(am)))
			if string(m) == want {
				e.verified = true
				verifiedAt = k
			}
		}
	}
	if class == "OK" && !e.verified {
		if len(lines) == 1 {
			r.Fail(id, "success-reply-without-exchange", fmt.Sprintf("%s: the server answered the AUTH command itself with 235 and Auth returned nil", v.mech))
		} else {
			r.Fail(id, "success-without-server-signature", fmt.Sprintf("%s: Auth returned nil although no valid ServerSignature for the running exchange was presented; client lines %q", v.mech, lines))
		}
	}
}

// ---- cases ----

func randsOf(lines []string) [][]byte {
	var out [][]byte
	for _, l := range lines {
		if m, ok := saslx.UnB64(l); ok {
			if cf, err := saslx.ParseClientFirst(m); err == nil {
				if raw, ok := saslx.UnB64(cf.Nonce); ok {
					out = append(out, raw)
				}
			}
		}
	}
	return out
}

func obs(class string, lines []string) string {
	bl := make([][]byte, len(lines))
	for i, l := range lines {
		bl[i] = []byte(l)
	}
	return hx.Hex([]byte(class)) + " " + hx.HexList(bl)
}

func optHex(b []byte, ok bool) string {
	if !ok {
		return "!"
	}
	return hx.Hex(b)
}

func nontrivial(syms []byte) bool {
	for _, s := range syms {
		if s <= symFinalEmpty || s >= symReplay {
			return true
		}
	}
	return false
}

// args: variant syms rands user pass nuser npass salt iter tls keys
func runCase(r *hx.Run, c hx.Case) {
	defer func() {
		if p := recover(); p != nil {
			r.Fail(c.ID, "panic", fmt.Sprint(p))
			r.Add(c, "PANIC", true)
		}
	}()
	switch c.Kind {
	case "c15", "c15r":
		v := variantOf(c.Args[0])
		i := 1
		syms1 := hx.UnHex(c.Args[i])
		i++
		var syms2 []byte
		if c.Kind == "c15r" {
			syms2 = hx.UnHex(c.Args[i])
			i++
		}
		i++ // rands: observed, rewritten below
		user, pass := string(hx.UnHex(c.Args[i])), string(hx.UnHex(c.Args[i+1]))
		salt := hx.UnHex(c.Args[i+4])
		iter, _ := strconv.Atoi(c.Args[i+5])
		var st *tls.ConnectionState
		if v.plus {
			st = tlsState(v.tlsVer)
		}
		nuser, uok := saslx.Opaque(saslx.EscapeName(user))
		npass, pok := saslx.Opaque(pass)
		p := mkParams(v.hash, npass, salt, iter)
		a := newAuth(v, user, pass, st)
		class1, lines1, replies1, vw1, err := runAuth(a, v, p, "", syms1)
		if err != nil {
			r.Fail(c.ID, "harness", err.Error())
			return
		}
		rands := randsOf(lines1)
		check(r, c.ID, v, npass, class1, lines1, replies1)
		observable := obs(class1, lines1)
		args := []string{v.name, hx.Hex(syms1)}
		if c.Kind == "c15r" {
			// the valid server-final of the first call, as the honest server computes it
			prev := srvSig(v.hash, p.serverKey, vw1)
			class2, lines2, replies2, _, err := runAuth(a, v, p, prev, syms2)
			if err != nil {
				r.Fail(c.ID, "harness", err.Error())
				return
			}
			rands = append(rands, randsOf(lines2)...)
			check(r, c.ID, v, npass, class2, lines2, replies2)
			observable += " " + obs(class2, lines2)
			args = append(args, hx.Hex(syms2))
		}
		args = append(args, hx.HexList(rands), hx.Hex([]byte(user)), hx.Hex([]byte(pass)), optHex(nuser, uok), optHex(npass, pok),
			hx.Hex(salt), strconv.Itoa(iter), tlsArg(st), p.arg())
		c.Args = args
		r.Dist["variant:"+v.name]++
		r.Dist[fmt.Sprintf("len:%d", len(syms1)+len(syms2))]++
		r.Dist["result:"+class1]++
		r.Add(c, observable, nontrivial(syms1) || nontrivial(syms2))
	case "c15m":
		// several complete dialogues in ONE process, a fresh Auth value and a new connection each, same account
		// args: variant dialogues rands user pass nuser npass salt iter tls keys
		v := variantOf(c.Args[0])
		var ds [][]byte
		for _, d := range strings.Split(c.Args[1], "/") {
			ds = append(ds, hx.UnHex(d))
		}
		user, pass := string(hx.UnHex(c.Args[3])), string(hx.UnHex(c.Args[4]))
		salt := hx.UnHex(c.Args[7])
		iter, _ := strconv.Atoi(c.Args[8])
		var st *tls.ConnectionState
		if v.plus {
			st = tlsState(v.tlsVer)
		}
		nuser, uok := saslx.Opaque(saslx.EscapeName(user))
		npass, pok := saslx.Opaque(pass)
		p := mkParams(v.hash, npass, salt, iter)
		var rands [][]byte
		var parts []string
		nt := false
		for _, syms := range ds {
			class, lines, replies, _, err := runAuth(newAuth(v, user, pass, st), v, p, "", syms)
			if err != nil {
				r.Fail(c.ID, "harness", err.Error())
				return
			}
			rands = append(rands, randsOf(lines)...)
			check(r, c.ID, v, npass, class, lines, replies)
			parts = append(parts, obs(class, lines))
			nt = nt || nontrivial(syms)
		}
		c.Args = []string{v.name, c.Args[1], hx.HexList(rands), hx.Hex([]byte(user)), hx.Hex([]byte(pass)), optHex(nuser, uok), optHex(npass, pok),
			hx.Hex(salt), strconv.Itoa(iter), tlsArg(st), p.arg()}
		r.Dist["variant:"+v.name]++
		r.Dist["family:multi-dialogue"]++
		r.Add(c, strings.Join(parts, " | "), nt)
	default:
		panic("unknown case kind " + c.Kind)
	}
}

func mkCase(r *hx.Run, kind, variant string, syms1, syms2 []byte, user, pass string, salt []byte, iter int) hx.Case {
	args := []string{variant, hx.Hex(syms1)}
	if kind == "c15r" {
		args = append(args, hx.Hex(syms2))
	}
	args = append(args, "-", hx.Hex([]byte(user)), hx.Hex([]byte(pass)), "~", "~", hx.Hex(salt), strconv.Itoa(iter), "-", "-")
	return hx.Case{ID: r.NewID(), Kind: kind, Args: args}
}

func enumerate(n, alphabet int, f func(seq []byte) bool) {
	seq := make([]byte, n)
	var rec func(i int) bool
	rec = func(i int) bool {
		if i == n {
			return f(append([]byte(nil), seq...))
		}
		for s := 0; s < alphabet; s++ {
			seq[i] = byte(s)
			if !rec(i + 1) {
				return false
			}
		}
		return true
	}
	rec(0)
}

func init() { hx.Register("C15", Run) }

// Run generates (or replays) the C15 cases.
func Run(r *hx.Run, replay []hx.Case) {
	if err := saslx.SelfTest(); err != nil {
		r.Fail("selftest", "reference-selftest", err.Error())
		return
	}
	if replay != nil {
		for _, c := range replay {
			runCase(r, c)
		}
		return
	}
	thorough := r.Tier == "thorough"
	maxLen := 4
	if thorough {
		maxLen = 5
	}
	salt := []byte("saltSALTsalt")
	// exhaustive enumeration of the property's alphabet
	for _, v := range variants {
		for n := 1; n <= maxLen; n++ {
			enumerate(n, 10, func(seq []byte) bool {
				if r.Expired() {
					return false
				}
				runCase(r, mkCase(r, "c15", v.name, seq, nil, "user", "pencil", salt, 2))
				return true
			})
		}
	}
	// restart inside one AUTH dialogue: [empty] ++ prefix ++ [empty] ++ suffix, suffix over the alphabet + "earlier
	// server-final resent" up to length 2 (for the -PLUS variants in quick: 1; thorough: 3 for all)
	prefixes := [][]byte{{}, {symFirst}, {symFirst, symFinal}, {symFirstForeign}, {symFinalEmpty}}
	sufAlpha := []byte{0, 1, 2, 3, 4, 5, 6, 7, 8, 9, symReplayDialogue}
	for _, v := range variants {
		sl := 2
		if thorough {
			sl = 3
		} else if v.plus {
			sl = 1
		}
		for _, pf := range prefixes {
			for n := 0; n <= sl; n++ {
				enumerate(n, len(sufAlpha), func(seq []byte) bool {
					if r.Expired() {
						return false
					}
					full := append([]byte{symEmpty}, pf...)
					full = append(full, symEmpty)
					for _, x := range seq {
						full = append(full, sufAlpha[x])
					}
					r.Dist["family:restart"]++
					runCase(r, mkCase(r, "c15", v.name, full, nil, "user", "pencil", salt, 2))
					return true
				})
			}
		}
	}
	// server-first whose r= is only a prefix of the client nonce (lengths 0, 1, len-1) or exactly the client nonce:
	// [empty, that server-first] ++ suffix over {valid final, 235, final over empty state, valid first, empty, 535,
	// final under another key} up to length 2
	pfxAlpha := []byte{symFinal, symSuccess, symFinalEmpty, symFirst, symEmpty, symFailure, symFinalOther, symFinalZero}
	for _, v := range variants {
		for _, sf := range []byte{symFirstEmpty, symFirstOne, symFirstShort, symFirstExact} {
			for n := 0; n <= 2; n++ {
				enumerate(n, len(pfxAlpha), func(seq []byte) bool {
					if r.Expired() {
						return false
					}
					full := []byte{symEmpty, sf}
					for _, x := range seq {
						full = append(full, pfxAlpha[x])
					}
					r.Dist["family:nonce-prefix"]++
					runCase(r, mkCase(r, "c15", v.name, full, nil, "user", "pencil", salt, 2))
					return true
				})
			}
		}
	}
	// otherwise valid server-first with an unusual iteration count text (0, -1, 00, +5, empty, 4096x, 20 digits):
	// [empty, that server-first] ++ {nothing, 235, valid-looking final, 535, final then 235}
	for _, v := range variants {
		for s := byte(symIter0); s <= symIterHuge; s++ {
			for _, suf := range [][]byte{{}, {symSuccess}, {symFinal}, {symFailure}, {symFinal, symSuccess}} {
				if r.Expired() {
					break
				}
				r.Dist["family:iteration-text"]++
				runCase(r, mkCase(r, "c15", v.name, append([]byte{symEmpty, s}, suf...), nil, "user", "pencil", salt, 2))
			}
		}
	}
	// two and three complete dialogues in one process (fresh Auth value and connection each, same password / salt /
	// iteration count): the first ends in a reset after the server-first was processed (forged final, junk, 535,
	// restart, final over empty state), the next ones present the server-final computed from an all-zero SaltedPassword
	for _, v := range variants {
		ends := []byte{symFinalOther, symJunk, symFailure, symEmpty, symFinalEmpty, symFinalZero}
		if !thorough {
			ends = ends[:4]
		}
		for _, end := range ends {
			d1 := hx.Hex([]byte{symEmpty, symFirst, end})
			d2 := hx.Hex([]byte{symEmpty, symFirst, symFinalZero, symSuccess})
			lists := []string{d1 + "/" + d2, d1 + "/" + d2 + "/" + d2, d1 + "/" + d1 + "/" + d2}
			if !thorough {
				lists = lists[:2]
			}
			for _, dl := range lists {
				if r.Expired() {
					break
				}
				runCase(r, hx.Case{ID: r.NewID(), Kind: "c15m", Args: []string{v.name, dl, "-", hx.Hex([]byte("user")), hx.Hex([]byte("pencil")), "~", "~", hx.Hex(salt), "2", "-", "-"}})
			}
		}
	}
	// long dialogues: 11, 12, 13, 14, 20 empty challenges (each restarts the exchange) followed by {nothing, 235, 535}, and
	// as many alternations of valid server-first / restart followed by {nothing, 235}
	for _, v := range variants {
		for _, n := range []int{11, 12, 13, 14, 20} {
			for _, suf := range [][]byte{{}, {symSuccess}, {symFailure}} {
				if r.Expired() {
					break
				}
				seq := make([]byte, 0, n+1)
				for i := 0; i < n; i++ {
					seq = append(seq, symEmpty)
				}
				r.Dist["family:long-dialogue"]++
				runCase(r, mkCase(r, "c15", v.name, append(seq, suf...), nil, "user", "pencil", salt, 2))
				if (len(suf) == 0 || suf[0] == symSuccess) && (thorough || n == 12 || n == 13 || n == 20) {
					alt := make([]byte, 0, n+1)
					for i := 0; i < n; i++ {
						alt = append(alt, []byte{symEmpty, symFirst}[i%2])
					}
					r.Dist["family:long-dialogue"]++
					runCase(r, mkCase(r, "c15", v.name, append(alt, suf...), nil, "user", "pencil", salt, 2))
				}
			}
		}
	}
	// retries on the same Auth value: first call honest / interrupted, second call on a new connection.
	// thorough: 4 first calls x every second sequence up to length 2 (after the honest first call: 3) over the 11 symbols; quick: the honest and the
	// interrupted first call x every second sequence of length 1 and those of length 2 that start with the replayed
	// final, an empty challenge, a valid final or the empty-state final (the honest first call costs the model ~25 ms)
	firsts := [][]byte{{symEmpty, symFirst, symFinal, symSuccess}, {symEmpty, symFirst}, {symEmpty, symFirst, symFinal}, {symEmpty}}
	rl := 2
	if thorough {
		rl = 3
	} else {
		firsts = firsts[:2]
	}
	for _, v := range variants {
		for _, f1 := range firsts {
			for n := 1; n <= rl; n++ {
				enumerate(n, 11, func(seq []byte) bool {
					if r.Expired() {
						return false
					}
					if thorough && n == 3 && len(f1) != 4 {
						return false // length 3 only after the honest first call (model time)
					}
					if !thorough && n == 2 && seq[0] != symReplay && seq[0] != symEmpty && seq[0] != symFinal && seq[0] != symFinalEmpty {
						return true
					}
					runCase(r, mkCase(r, "c15r", v.name, f1, seq, "user", "pencil", salt, 2))
					return true
				})
			}
		}
	}
	// other credentials / salts / iteration counts with random sequences
	users := []string{"user", "u,ser=x", "Jürgen", "a b", "=", ",", "us­er", "x"}
	passes := []string{"pencil", "p,=", "pässword", " ", "Ⅸ", "secret with spaces"}
	nrand := 300
	if thorough {
		nrand = 5000
	}
	for i := 0; i < nrand && !r.Expired(); i++ {
		v := variants[r.Rng.Intn(len(variants))]
		n := 1 + r.Rng.Intn(6)
		seq := make([]byte, n)
		for j := range seq {
			// bias towards the honest order
			if r.Rng.Intn(3) == 0 {
				seq[j] = []byte{symEmpty, symFirst, symFinal, symSuccess}[j%4]
			} else {
				seq[j] = byte(r.Rng.Intn(10))
			}
		}
		s := make([]byte, 1+r.Rng.Intn(40))
		r.Rng.Read(s)
		runCase(r, mkCase(r, "c15", v.name, seq, nil, users[r.Rng.Intn(len(users))], passes[r.Rng.Intn(len(passes))], s, 1+r.Rng.Intn(5)))
	}
}
