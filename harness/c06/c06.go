// Package c06: recipients are exactly To+Cc+Bcc, and Bcc stays hidden (C06).
//
// A case is a sequence of calls of the public address setters of mail.Msg.  The implementation side
// applies it to a fresh Msg, reads GetSender / GetRecipients / GetAddrHeader, renders the message and
// sends it to the smtpx reference server.  The projected observable (error flags, sender,
// recipients, the six stored lists, the address fields of the header block, the MAIL/RCPT lines) is
// compared with the Coq model (coq/theories/MsgAddr.v, Envelope.v), whose oracles ParseAddress /
// Address.String / encodeString are supplied as tables of the real functions.  Independently of the
// model the direct oracle checks the property text on the implementation's output.
package c06

import (
	"bytes"
	"context"
	"fmt"
	"math/rand"
	"mime"
	netmail "net/mail"
	"strings"
	"time"
	"unicode/utf8"

	mail "github.com/wneessen/go-mail"
	"verif/harness/addrx"
	"verif/harness/hx"
	"verif/harness/smtpx"
)

func init() { hx.Register("C06", Run) }

type op struct {
	name string
	args []string
}

func (o op) String() string {
	parts := []string{o.name}
	for _, a := range o.args {
		parts = append(parts, hx.Hex([]byte(a)))
	}
	return strings.Join(parts, "/")
}

func parseOps(s string) ([]op, error) {
	if s == "-" || s == "" {
		return nil, nil
	}
	var out []op
	for _, item := range strings.Split(s, ",") {
		f := strings.Split(item, "/")
		o := op{name: f[0]}
		for _, a := range f[1:] {
			o.args = append(o.args, string(hx.UnHex(a)))
		}
		out = append(out, o)
	}
	return out, nil
}

func opsString(ops []op) string {
	if len(ops) == 0 {
		return "-"
	}
	parts := make([]string, len(ops))
	for i, o := range ops {
		parts[i] = o.String()
	}
	return strings.Join(parts, ",")
}

var slots = []string{"To", "Cc", "Bcc"}
var hdrOf = map[string]mail.AddrHeader{"To": mail.HeaderTo, "Cc": mail.HeaderCc, "Bcc": mail.HeaderBcc,
	"From": mail.HeaderFrom, "EnvelopeFrom": mail.HeaderEnvelopeFrom, "ReplyTo": mail.HeaderReplyTo}

// kind of a setter name: which family and which key
func classify(name string) (family, key string) {
	switch name {
	case "From", "FromFormat":
		return strings.TrimPrefix(name, "From"), "From"
	case "EnvelopeFrom", "EnvelopeFromFormat":
		return strings.TrimPrefix(name, "EnvelopeFrom"), "EnvelopeFrom"
	case "ReplyTo", "ReplyToFormat":
		return strings.TrimPrefix(name, "ReplyTo"), "ReplyTo"
	case "SetAddrHeader", "SetAddrHeaderIgnoreInvalid":
		return name, ""
	case "Reset":
		return "Reset", ""
	}
	for _, s := range slots {
		switch name {
		case s:
			return "Set", s
		case "Add" + s:
			return "Add", s
		case "Add" + s + "Format":
			return "AddFormat", s
		case s + "IgnoreInvalid":
			return "Ign", s
		case s + "FromString":
			return "FromString", s
		}
	}
	return "?", ""
}

// apply runs one setter on the real Msg; ok=false when the setter returned an error.
func apply(m *mail.Msg, o op) (ok bool, known bool) {
	a := func(i int) string {
		if i < len(o.args) {
			return o.args[i]
		}
		return ""
	}
	var err error
	switch o.name {
	case "To":
		err = m.To(o.args...)
	case "Cc":
		err = m.Cc(o.args...)
	case "Bcc":
		err = m.Bcc(o.args...)
	case "AddTo":
		err = m.AddTo(a(0))
	case "AddCc":
		err = m.AddCc(a(0))
	case "AddBcc":
		err = m.AddBcc(a(0))
	case "AddToFormat":
		err = m.AddToFormat(a(0), a(1))
	case "AddCcFormat":
		err = m.AddCcFormat(a(0), a(1))
	case "AddBccFormat":
		err = m.AddBccFormat(a(0), a(1))
	case "ToIgnoreInvalid":
		m.ToIgnoreInvalid(o.args...)
	case "CcIgnoreInvalid":
		m.CcIgnoreInvalid(o.args...)
	case "BccIgnoreInvalid":
		m.BccIgnoreInvalid(o.args...)
	case "ToFromString":
		err = m.ToFromString(a(0))
	case "CcFromString":
		err = m.CcFromString(a(0))
	case "BccFromString":
		err = m.BccFromString(a(0))
	case "From":
		err = m.From(a(0))
	case "FromFormat":
		err = m.FromFormat(a(0), a(1))
	case "EnvelopeFrom":
		err = m.EnvelopeFrom(a(0))
	case "EnvelopeFromFormat":
		err = m.EnvelopeFromFormat(a(0), a(1))
	case "ReplyTo":
		err = m.ReplyTo(a(0))
	case "ReplyToFormat":
		err = m.ReplyToFormat(a(0), a(1))
	case "Reset":
		m.Reset()
	case "SetAddrHeader":
		if len(o.args) == 0 {
			return false, false
		}
		err = m.SetAddrHeader(mail.AddrHeader(o.args[0]), o.args[1:]...)
	case "SetAddrHeaderIgnoreInvalid":
		if len(o.args) == 0 {
			return false, false
		}
		m.SetAddrHeaderIgnoreInvalid(mail.AddrHeader(o.args[0]), o.args[1:]...)
	default:
		return false, false
	}
	return err == nil, true
}

// formatAddr: the address string a ...Format(name, addr) call denotes — the name as an RFC 5322 quoted-string
// (backslash and double quote as quoted-pairs), the address in angle brackets.
func formatAddr(name, addr string) string { return addrx.QuoteName(name) + " <" + addr + ">" }

// nameCarriable: every byte of the name can stand in an RFC 5322 / 6532 quoted-string (TAB, SP, printable ASCII,
// valid UTF-8); CR, LF, NUL, the other C0 controls and DEL cannot.
func nameCarriable(n string) bool {
	if !utf8.ValidString(n) {
		return false
	}
	for i := 0; i < len(n); i++ {
		if b := n[i]; !(b == 9 || b >= 32 && b <= 126 || b >= 128) {
			return false
		}
	}
	return true
}

// fromStringPieces mirrors the documented behaviour of ...FromString (comma separated, trimmed,
// empty pieces dropped) — only used to know which strings the model may ask the parse oracle about;
// a divergence from the model's own splitting shows up as ORACLE-MISS.
func fromStringPieces(s string) []string {
	var out []string
	for _, p := range strings.Split(s, ",") {
		p = strings.TrimSpace(p)
		if p != "" {
			out = append(out, p)
		}
	}
	return out
}

// tablesFor collects every string the model can pass to an oracle for this op sequence.
func tablesFor(ops []op) *addrx.Tables {
	t := addrx.NewTables()
	for _, o := range ops {
		fam, _ := classify(o.name)
		switch fam {
		case "", "Set", "Add":
			for _, a := range o.args {
				t.AddParse(a)
			}
		case "Format", "AddFormat":
			if len(o.args) == 2 {
				t.AddParse(formatAddr(o.args[0], o.args[1]))
			}
		case "Ign":
			for _, a := range o.args {
				t.AddEncoded(a)
			}
		case "FromString":
			if len(o.args) == 1 {
				for _, p := range fromStringPieces(o.args[0]) {
					t.AddParse(p)
				}
			}
		case "SetAddrHeader":
			for _, a := range o.args[1:] {
				t.AddParse(a)
			}
		case "SetAddrHeaderIgnoreInvalid":
			for _, a := range o.args[1:] {
				t.AddEncoded(a)
			}
		}
	}
	t.Close()
	return t
}

// ---------------------------------------------------------------- header block helpers

type field struct {
	name string
	raw  []byte // all lines of the field including CRLFs
}

func headerFields(hdr []byte) []field {
	var out []field
	for _, l := range bytes.SplitAfter(hdr, []byte("\r\n")) {
		if len(l) == 0 {
			continue
		}
		if (l[0] == ' ' || l[0] == '\t') && len(out) > 0 {
			out[len(out)-1].raw = append(out[len(out)-1].raw, l...)
			continue
		}
		name := string(l)
		if i := bytes.IndexByte(l, ':'); i >= 0 {
			name = string(l[:i])
		}
		out = append(out, field{name: name, raw: append([]byte(nil), l...)})
	}
	return out
}

func unfold(raw []byte) string {
	s := strings.TrimSuffix(string(raw), "\r\n")
	s = strings.ReplaceAll(s, "\r\n ", " ")
	s = strings.ReplaceAll(s, "\r\n\t", "\t")
	return s
}

// generic header fields every message carries; everything else is projected
var genericFields = map[string]bool{"Date": true, "MIME-Version": true, "Message-ID": true, "Subject": true,
	"User-Agent": true, "X-Mailer": true, "Content-Type": true, "Content-Transfer-Encoding": true}

func addrListString(l []*netmail.Address) string {
	if len(l) == 0 {
		return "-"
	}
	parts := make([]string, len(l))
	for i, a := range l {
		parts[i] = hx.Hex([]byte(a.Name)) + ":" + hx.Hex([]byte(a.Address))
	}
	return strings.Join(parts, ",")
}

func sameAddrs(a, b []*netmail.Address) bool {
	if len(a) != len(b) {
		return false
	}
	for i := range a {
		if a[i].Name != b[i].Name || a[i].Address != b[i].Address {
			return false
		}
	}
	return true
}

var keyOrder = []mail.AddrHeader{mail.HeaderFrom, mail.HeaderTo, mail.HeaderCc, mail.HeaderBcc, mail.HeaderReplyTo, mail.HeaderEnvelopeFrom}

func runCase(r *hx.Run, c hx.Case) {
	defer func() {
		if p := recover(); p != nil {
			r.Fail(c.ID, "panic", fmt.Sprint(p))
			r.Add(c, "PANIC", true)
		}
	}()
	if (c.Kind != "seq" && c.Kind != "hist") || len(c.Args) < 1 {
		r.Add(c, "BAD-CASE", false)
		return
	}
	ops, _ := parseOps(c.Args[0])
	tabs := tablesFor(ops)
	pt, st, et := tabs.Args()
	c.Args = []string{opsString(ops), pt, st, et}
	for _, h := range append(append([]string(nil), tabs.HAddr...), tabs.HRound...) {
		r.Fail(c.ID, "h-addr-not-valid", "hypothesis on the address oracle does not hold: "+h)
	}
	for _, h := range tabs.HRoundQB {
		r.Fail(c.ID, knownQB, "H-addr does not hold (net/mail): "+h)
	}
	r.Dist["addresses-hypotheses-validated"] += tabs.NAddrs

	m := mail.NewMsg()
	flags := make([]byte, 0, len(ops))
	// "what was set", kept independently of go-mail and net/mail: for every key the list of (name, mailbox)
	// the calls so far denote, read from the call arguments by addrx.IntendedName / IntendedMailbox and the
	// reference semantics of the property (Set replaces, Add appends one, From keeps the first).  A key is
	// dropped from the bookkeeping (unknown) as soon as a call on it is outside what the reader covers.
	shadow := map[string][]wantAddr{}
	unknown := map[string]bool{}
	var steps []string // "hist": the observation after every step
	for i, o := range ops {
		fam, key := classify(o.name)
		var before []*netmail.Address
		if key != "" {
			before = append(before, m.GetAddrHeader(hdrOf[key])...)
		}
		ok, known := apply(m, o)
		if !known {
			r.Add(c, "BAD-CASE", false)
			return
		}
		if ok {
			flags = append(flags, '1')
		} else {
			flags = append(flags, '0')
		}
		r.Dist["setter:"+o.name]++
		trackShadow(shadow, unknown, o, fam, key, ok)
		if fam == "Reset" {
			// directly after Reset nothing of the address state may be left, whatever preceded (all six keys)
			for _, k := range keyOrder {
				if l := m.GetAddrHeader(k); len(l) > 0 {
					r.Fail(c.ID, "reset-leaves-address", fmt.Sprintf("op %d Reset: %s still holds %s", i, k, addrListString(l)))
				}
			}
			if s, err := m.GetSender(false); err == nil {
				r.Fail(c.ID, "reset-leaves-address", fmt.Sprintf("op %d Reset: GetSender still returns %q", i, s))
			}
			if l, err := m.GetRecipients(); err == nil || len(l) > 0 {
				r.Fail(c.ID, "reset-leaves-address", fmt.Sprintf("op %d Reset: GetRecipients still returns %q", i, l))
			}
		}
		if c.Kind == "hist" {
			so := "ERR"
			if s, err := m.GetSender(false); err == nil {
				so = hx.Hex([]byte(s))
			}
			rl, _ := m.GetRecipients()
			rbs := make([][]byte, len(rl))
			for j, x := range rl {
				rbs[j] = []byte(x)
			}
			ls := make([]string, len(keyOrder))
			for j, k := range keyOrder {
				ls[j] = addrListString(m.GetAddrHeader(k))
			}
			steps = append(steps, so+";"+hx.HexList(rbs)+";"+strings.Join(ls, "|"))
		}
		if (fam == "Format" || fam == "AddFormat") && len(o.args) == 2 {
			bare, perr := netmail.ParseAddress("<" + o.args[1] + ">")
			switch {
			case !nameCarriable(o.args[0]) && ok:
				r.Fail(c.ID, "format-accepts-name-no-quoted-string-can-hold", fmt.Sprintf("op %d %s(%q, %q) succeeded", i, o.name, o.args[0], o.args[1]))
			case nameCarriable(o.args[0]) && perr == nil && bare.Name == "" && !ok && !strings.ContainsAny(o.args[1], "<>"):
				r.Fail(c.ID, classQB("format-rejects-valid-name", before), fmt.Sprintf("op %d %s(%q, %q) failed", i, o.name, o.args[0], o.args[1]))
			}
		}
		// reference semantics of the append setters (direct oracle): a valid address is appended,
		// exactly once, and nothing already stored changes; an invalid one changes nothing
		if fam == "Add" || fam == "AddFormat" {
			v := o.args[0]
			if fam == "AddFormat" {
				v = formatAddr(o.args[0], o.args[1])
			}
			after := m.GetAddrHeader(hdrOf[key])
			a, err := netmail.ParseAddress(v)
			if err == nil && fam == "AddFormat" {
				a = &netmail.Address{Name: o.args[0], Address: a.Address} // the arguments themselves
			}
			if err == nil {
				if !ok || !sameAddrs(after, append(append([]*netmail.Address(nil), before...), a)) {
					r.Fail(c.ID, classQB("add-does-not-append-one", before), fmt.Sprintf("op %d %s(%q): list before %s, after %s, ok=%v", i, o.name, v, addrListString(before), addrListString(after), ok))
				}
			} else if ok || !sameAddrs(after, before) {
				r.Fail(c.ID, "add-invalid-changes-list", fmt.Sprintf("op %d %s(%q): list before %s, after %s, ok=%v", i, o.name, v, addrListString(before), addrListString(after), ok))
			}
		}
	}
	m.Subject("s")
	m.SetBodyString(mail.TypeTextPlain, "body")

	opt := func(s string, err error) string {
		if err != nil {
			return "ERR"
		}
		return hx.Hex([]byte(s))
	}
	sender, serr := m.GetSender(false)
	full, ferr := m.GetSender(true)
	rcpts, rerr := m.GetRecipients()
	if (rerr != nil) != (len(rcpts) == 0) {
		r.Fail(c.ID, "recipients-error-mismatch", fmt.Sprintf("GetRecipients returned %d recipients and err=%v", len(rcpts), rerr))
	}
	rb := make([][]byte, len(rcpts))
	for i, x := range rcpts {
		rb[i] = []byte(x)
	}
	lists := make([]string, len(keyOrder))
	stored := map[mail.AddrHeader][]*netmail.Address{}
	for i, k := range keyOrder {
		stored[k] = m.GetAddrHeader(k)
		lists[i] = addrListString(stored[k])
	}

	// render
	var buf bytes.Buffer
	_, werr := m.WriteTo(&buf)
	out := buf.Bytes()
	hdr := out
	if i := bytes.Index(out, []byte("\r\n\r\n")); i >= 0 {
		hdr = out[:i+2]
	}
	fields := headerFields(hdr)
	var proj []byte
	count := map[string]int{}
	val := map[string]string{}
	for _, f := range fields {
		count[f.name]++
		if !genericFields[f.name] {
			proj = append(proj, f.raw...)
			val[f.name] = strings.TrimPrefix(unfold(f.raw), f.name+": ")
		}
	}

	// send
	env := "NOSEND"
	var envLines []string
	var trace []smtpx.Event
	if serr == nil && rerr == nil {
		srv := smtpx.NewServer([]string{"8BITMIME", "SMTPUTF8"}, nil)
		d := &smtpx.Dialer{Srv: srv}
		cl, err := mail.NewClient("mx.verif.test", mail.WithTLSPolicy(mail.NoTLS), mail.WithHELO("client.verif.test"),
			mail.WithDialContextFunc(d.Dial), mail.WithTimeout(5*time.Second))
		if err != nil {
			r.Fail(c.ID, "harness", "NewClient: "+err.Error())
		} else {
			ctx, cancel := context.WithTimeout(context.Background(), 10*time.Second)
			sendErr := cl.DialAndSendWithContext(ctx, m)
			cancel()
			if d.Dials > 0 {
				srv.Finish(2 * time.Second)
			}
			trace, _ = srv.Snapshot()
			var lb [][]byte
			for _, e := range trace {
				if e.Verb == "MAIL" || e.Verb == "RCPT" {
					lb = append(lb, []byte(e.Line))
					envLines = append(envLines, e.Line)
				}
			}
			if len(lb) == 0 {
				env = "REFUSED"
				if sendErr == nil {
					r.Fail(c.ID, "send-without-envelope", "DialAndSend returned nil but no MAIL/RCPT line reached the server")
				}
			} else {
				env = hx.HexList(lb)
			}
		}
	}

	obs := fmt.Sprintf("F=%s S=%s SF=%s R=%s L=%s H=%s E=%s", flagsOrDash(flags), opt(sender, serr), opt(full, ferr),
		hx.HexList(rb), strings.Join(lists, "|"), hx.Hex(proj), env)
	if c.Kind == "hist" {
		if len(steps) == 0 {
			obs += " P=-"
		} else {
			obs += " P=" + strings.Join(steps, "/")
		}
	}
	nontrivial := len(ops) >= 2 && len(rcpts) >= 1
	r.Add(c, obs, nontrivial)

	// ------------------------------------------------------------ direct oracle (property text)
	// 1. envelope sender = envelope-from if set else From
	wantSender := ""
	if l := stored[mail.HeaderEnvelopeFrom]; len(l) > 0 {
		wantSender = l[0].Address
	} else if l := stored[mail.HeaderFrom]; len(l) > 0 {
		wantSender = l[0].Address
	}
	if (serr == nil && sender != wantSender) || (serr != nil && wantSender != "") {
		r.Fail(c.ID, "sender-not-envelope-from-else-from", fmt.Sprintf("GetSender=%q err=%v, expected %q", sender, serr, wantSender))
	}
	// 2. recipients = To ++ Cc ++ Bcc, in that order, one per occurrence
	var want []string
	for _, k := range []mail.AddrHeader{mail.HeaderTo, mail.HeaderCc, mail.HeaderBcc} {
		for _, a := range stored[k] {
			want = append(want, a.Address)
		}
	}
	if strings.Join(want, "\x00") != strings.Join(rcpts, "\x00") {
		r.Fail(c.ID, "recipients-not-to-cc-bcc", fmt.Sprintf("GetRecipients=%q, To++Cc++Bcc=%q", rcpts, want))
	}
	// 3. the RCPT sequence at the server: one RCPT per recipient, same order, same mailbox; MAIL = sender
	if len(envLines) > 0 {
		u8 := false
		var got []string
		for i, l := range envLines {
			if i == 0 {
				u8 = strings.Contains(strings.ToUpper(l), " SMTPUTF8")
			}
			pl, err := addrx.ParsePathLineAnyDomain(l, u8)
			if err != nil {
				r.Fail(c.ID, "envelope-path-unquoted-local-part", fmt.Sprintf("%q: %v (the C05 defect: local part sent unquoted)", l, err))
				got = nil
				break
			}
			got = append(got, pl.Verb+" "+pl.Box.Local+"@"+strings.ToLower(pl.Box.Domain))
		}
		if got != nil {
			exp := []string{"MAIL " + wantSender}
			for _, w := range want {
				exp = append(exp, "RCPT "+w)
			}
			// the local part byte for byte, the domain without regard to letter case (RFC 5321 section 2.4)
			for i, e := range exp {
				if at := strings.LastIndex(e, "@"); at >= 0 {
					exp[i] = e[:at] + strings.ToLower(e[at:])
				}
			}
			if strings.Join(got, "\x00") != strings.Join(exp, "\x00") {
				r.Fail(c.ID, "rcpt-sequence-differs", fmt.Sprintf("server saw %q, message says %q", got, exp))
			}
		}
	}
	if werr != nil {
		r.Fail(c.ID, "render-error", werr.Error())
		return
	}
	// 4. Bcc stays hidden: no Bcc field, and no Bcc address (or ASCII display name) anywhere in the
	//    rendered message unless the same text is also part of a rendered address
	if count["Bcc"] > 0 {
		r.Fail(c.ID, "bcc-field-rendered", "the header block contains a Bcc field")
	}
	visible := ""
	for _, k := range []mail.AddrHeader{mail.HeaderFrom, mail.HeaderTo, mail.HeaderCc, mail.HeaderReplyTo, mail.HeaderEnvelopeFrom} {
		for _, a := range stored[k] {
			visible += a.String() + "\n" + a.Address + "\n" + a.Name + "\n"
		}
	}
	for _, a := range stored[mail.HeaderBcc] {
		for _, needle := range []string{a.Address, a.Name} {
			if len(needle) < 4 || strings.Contains(visible, needle) {
				continue
			}
			if bytes.Contains(out, []byte(needle)) {
				r.Fail(c.ID, "bcc-visible-in-render", fmt.Sprintf("Bcc text %q occurs in the rendered message", needle))
			}
		}
	}
	// 5. From (or envelope-from), To, Cc, Reply-To: exactly once when non-empty, never when empty,
	//    and the field parses back to the stored names and addresses
	fromList := stored[mail.HeaderFrom]
	if len(fromList) == 0 {
		fromList = stored[mail.HeaderEnvelopeFrom]
	}
	if len(fromList) > 1 {
		fromList = fromList[:1]
	}
	for _, x := range []struct {
		name string
		l    []*netmail.Address
	}{{"From", fromList}, {"To", stored[mail.HeaderTo]}, {"Cc", stored[mail.HeaderCc]}, {"Reply-To", stored[mail.HeaderReplyTo]}} {
		wantN := 0
		if len(x.l) > 0 {
			wantN = 1
		}
		if count[x.name] != wantN {
			r.Fail(c.ID, "address-field-count", fmt.Sprintf("field %s occurs %d times, stored list has %d addresses", x.name, count[x.name], len(x.l)))
			continue
		}
		if wantN == 1 {
			back, err := netmail.ParseAddressList(val[x.name])
			if err != nil || !sameAddrs(back, x.l) {
				r.Fail(c.ID, classQB("address-field-does-not-parse-back", x.l), fmt.Sprintf("field %s: %q parses to %s (err=%v), stored %s", x.name, val[x.name], addrListString(back), err, addrListString(x.l)))
			}
		}
	}
	if count["EnvelopeFrom"] > 0 {
		r.Fail(c.ID, "envelope-from-field-rendered", "the header block contains an EnvelopeFrom field")
	}
	// 6. names and addresses are the ones that were set: the stored lists and the rendered fields (read by the
	//    independent reader, not net/mail) against the bookkeeping of the call arguments
	checked := 0
	for k, hk := range hdrOf {
		if unknown[k] {
			continue
		}
		checked++
		if !sameWant(shadow[k], storedWant(stored[hk])) {
			r.Fail(c.ID, "stored-list-differs-from-what-was-set", fmt.Sprintf("%s: stored %s, the calls set %s", k, wantString(storedWant(stored[hk])), wantString(shadow[k])))
		}
	}
	for _, x := range []struct{ field, key string }{{"From", "From"}, {"To", "To"}, {"Cc", "Cc"}, {"Reply-To", "ReplyTo"}} {
		key := x.key
		if key == "From" && !unknown["From"] && len(shadow["From"]) == 0 {
			key = "EnvelopeFrom"
		}
		if unknown[key] || count[x.field] != 1 {
			continue
		}
		exp := shadow[key]
		if x.field == "From" && len(exp) > 1 {
			exp = exp[:1]
		}
		got, ok := readAddressList(val[x.field])
		if !ok {
			r.Dist["rendered-field-not-readable-by-independent-reader"]++
			continue
		}
		if !sameWant(exp, got) {
			r.Fail(c.ID, "rendered-field-differs-from-what-was-set", fmt.Sprintf("field %s: %q reads as %s, the calls set %s", x.field, val[x.field], wantString(got), wantString(exp)))
		}
	}
	r.Dist["keys-compared-with-what-was-set"] += checked
}

// knownQB: the class of failures caused by net/mail.Address.String writing a display name of the class
// addrx.QBackslashName as a Q encoded-word that ParseAddress rejects (known_findings.txt).
const knownQB = "dispname-backslash-q-encoded-word"

// classQB returns the known class if one of the addresses carries such a name, else the class given.
func classQB(class string, l []*netmail.Address) string {
	for _, a := range l {
		if addrx.QBackslashName(a.Name) {
			return knownQB
		}
	}
	return class
}

type wantAddr struct{ name, addr string }

func storedWant(l []*netmail.Address) []wantAddr {
	out := make([]wantAddr, len(l))
	for i, a := range l {
		out[i] = wantAddr{a.Name, a.Address}
	}
	return out
}

func sameWant(a, b []wantAddr) bool {
	if len(a) != len(b) {
		return false
	}
	for i := range a {
		if a[i] != b[i] {
			return false
		}
	}
	return true
}

func wantString(l []wantAddr) string {
	parts := make([]string, len(l))
	for i, a := range l {
		parts[i] = fmt.Sprintf("%q/%q", a.name, a.addr)
	}
	return "[" + strings.Join(parts, " ") + "]"
}

func intendedAddr(s string) (wantAddr, bool) {
	mb, ok := addrx.IntendedMailbox(s)
	if !ok {
		return wantAddr{}, false
	}
	n, ok := addrx.IntendedName(s)
	if !ok {
		return wantAddr{}, false
	}
	return wantAddr{n, mb.String()}, true
}

var keyOfHeader = map[string]string{"To": "To", "Cc": "Cc", "Bcc": "Bcc", "From": "From", "Reply-To": "ReplyTo", "EnvelopeFrom": "EnvelopeFrom"}

// trackShadow applies the reference semantics of one call to the bookkeeping.
func trackShadow(shadow map[string][]wantAddr, unknown map[string]bool, o op, fam, key string, ok bool) {
	if fam == "Reset" {
		for _, k := range keyOfHeader {
			delete(shadow, k)
			unknown[k] = false
		}
		return
	}
	var vals []string
	var rawName *string // ...Format calls: the display name set is the name argument itself
	switch fam {
	case "Set", "":
		vals = o.args
	case "Format", "AddFormat":
		if len(o.args) != 2 {
			unknown[key] = true
			return
		}
		vals = []string{formatAddr(o.args[0], o.args[1])}
		rawName = &o.args[0]
	case "Add":
		vals = o.args
	case "SetAddrHeader":
		k, found := keyOfHeader[o.args[0]]
		if !found {
			return
		}
		key, vals = k, o.args[1:]
	case "SetAddrHeaderIgnoreInvalid":
		if k, found := keyOfHeader[o.args[0]]; found {
			unknown[k] = true
		}
		return
	default: // Ign, FromString: outside the reader
		unknown[key] = true
		return
	}
	if !ok {
		return // a failing setter changes nothing
	}
	l := make([]wantAddr, 0, len(vals))
	for _, v := range vals {
		w, readable := intendedAddr(v)
		if !readable {
			unknown[key] = true
			return
		}
		if rawName != nil {
			w.name = *rawName
		}
		l = append(l, w)
	}
	switch {
	case fam == "Add" || fam == "AddFormat":
		if !unknown[key] {
			shadow[key] = append(shadow[key], l...)
		}
	case key == "From":
		if len(l) > 0 {
			shadow[key], unknown[key] = l[:1], false
		}
	default:
		shadow[key], unknown[key] = l, false
	}
}

// readAddressList splits an unfolded address field at the commas outside quoted strings and angle
// brackets and reads every element with the independent reader.
func readAddressList(v string) ([]wantAddr, bool) {
	var out []wantAddr
	inq, esc, ang, start := false, false, false, 0
	flush := func(end int) bool {
		w, ok := intendedAddr(v[start:end])
		if !ok {
			return false
		}
		out = append(out, w)
		return true
	}
	for i := 0; i < len(v); i++ {
		ch := v[i]
		switch {
		case esc:
			esc = false
		case inq && ch == '\\':
			esc = true
		case ch == '"' && !ang:
			inq = !inq
		case !inq && ch == '<':
			ang = true
		case !inq && ch == '>':
			ang = false
		case !inq && !ang && ch == ',':
			if !flush(i) {
				return nil, false
			}
			start = i + 1
		}
	}
	if !flush(len(v)) {
		return nil, false
	}
	return out, true
}

func flagsOrDash(f []byte) string {
	if len(f) == 0 {
		return "-"
	}
	return string(f)
}

// ---------------------------------------------------------------- generator

var setterNames = []string{
	"To", "AddTo", "AddToFormat", "ToIgnoreInvalid", "ToFromString",
	"Cc", "AddCc", "AddCcFormat", "CcIgnoreInvalid", "CcFromString",
	"Bcc", "AddBcc", "AddBccFormat", "BccIgnoreInvalid", "BccFromString",
	"From", "FromFormat", "EnvelopeFrom", "EnvelopeFromFormat", "ReplyTo", "ReplyToFormat",
	"SetAddrHeader", "SetAddrHeaderIgnoreInvalid",
}

type gen struct {
	r    *hx.Run
	rng  *rand.Rand
	uniq int
}

// address string: mostly valid, from the grammar; a unique tag in the local part keeps Bcc
// addresses distinguishable from the visible ones
func (g *gen) addr() string {
	if g.rng.Intn(9) == 0 {
		g.r.Dist["value:malformed"]++
		return addrx.GenMalformed(g.rng)
	}
	mb, lk := addrx.GenMailbox(g.rng, true)
	if lk == addrx.LTab {
		lk = addrx.LPlain
		mb.Local = addrx.GenLocal(g.rng, lk)
	}
	if g.rng.Intn(3) > 0 {
		g.uniq++
		mb.Local = fmt.Sprintf("%s%d", mb.Local, g.uniq)
	}
	s, _, nk := addrx.RenderAddress(g.rng, mb)
	g.r.Dist["value:local-"+addrx.LocalKindNames[lk]]++
	g.r.Dist["value:name-"+addrx.NameKindNames[nk]]++
	return s
}

func (g *gen) addrs(max int) []string {
	n := g.rng.Intn(max + 1)
	out := make([]string, n)
	for i := range out {
		out[i] = g.addr()
	}
	return out
}

var formatNames = []string{"Plain Name", "Doe, John", "Jürgen Müller", "quo\"te", "back\\slash", "", "a <b> c", "日本",
	"\u00e9\\x",
	"C:\\dir\\file", "say \"hi\" \\ \"bye\"", "end\\", "\"", "\\\"", "a\\\\b", "ctl\x01x", "cr\rlf\n", "del\x7f", "nul\x00",
	"Jean\tLuc", "Jean\u00a0Luc", "zw\u200cnj", "zw\u200dj x", "soft\u00adhyphen", "lrm\u200e (x), y", "rlm\u200f", "line\u2028sep"}

// hardAddr: a plain, unique mailbox under a display name that is hard to re-serialise
func (g *gen) hardAddr() string {
	g.uniq++
	spec := fmt.Sprintf("rcpt%d@x.test", g.uniq)
	n := addrx.HardNames[g.rng.Intn(len(addrx.HardNames))]
	g.r.Dist["value:name-hard"]++
	switch g.rng.Intn(3) {
	case 0:
		return mime.QEncoding.Encode("utf-8", n) + " <" + spec + ">"
	case 1:
		return mime.BEncoding.Encode("utf-8", n) + " <" + spec + ">"
	}
	return addrx.QuoteName(n) + " <" + spec + ">"
}

// bareQuoted: an address without display name whose local part is not a dot-atom
func (g *gen) bareQuoted() string {
	g.uniq++
	l := addrx.QuoteNeedLocals[g.rng.Intn(len(addrx.QuoteNeedLocals))]
	if g.rng.Intn(3) == 0 {
		l = addrx.GenLocal(g.rng, addrx.LQuoteAscii)
	}
	g.r.Dist["value:bare-quoted-local"]++
	return addrx.BareAddrSpec(g.rng, addrx.Mailbox{Local: l, Domain: fmt.Sprintf("d%d.example.com", g.uniq)})
}

// chain: a Set on one of To / Cc / Bcc followed by Add / AddFormat calls on the SAME header (the stored
// entries are re-serialised and re-parsed by every one of them), other calls in between
func (g *gen) chain() []op {
	slot := slots[g.rng.Intn(len(slots))]
	var first []string
	for i := 0; i < 1+g.rng.Intn(3); i++ {
		switch g.rng.Intn(4) {
		case 0:
			first = append(first, g.addr())
		case 1: // no display name, local part that needs quoting: re-serialised by every following Add
			first = append(first, g.bareQuoted())
		default:
			first = append(first, g.hardAddr())
		}
	}
	ops := []op{{slot, first}}
	for i := 0; i < 1+g.rng.Intn(3); i++ {
		if g.rng.Intn(4) == 0 {
			ops = append(ops, g.op())
		}
		switch g.rng.Intn(3) {
		case 0:
			ops = append(ops, op{"Add" + slot, []string{g.hardAddr()}})
		case 1:
			ops = append(ops, op{"Add" + slot, []string{g.addr()}})
		default:
			g.uniq++
			ops = append(ops, op{"Add" + slot + "Format", []string{formatNames[g.rng.Intn(len(formatNames))], fmt.Sprintf("fmt%d@y.test", g.uniq)}})
		}
	}
	return ops
}

func (g *gen) op() op {
	name := setterNames[g.rng.Intn(len(setterNames))]
	fam, _ := classify(name)
	switch fam {
	case "Set", "Ign":
		return op{name, g.addrs(3)}
	case "Add", "":
		return op{name, []string{g.addr()}}
	case "AddFormat", "Format":
		mb, _ := addrx.GenMailbox(g.rng, true)
		a := addrx.RenderLocal(g.rng, mb.Local) + "@" + mb.Domain
		if g.rng.Intn(8) == 0 {
			a = addrx.GenMalformed(g.rng)
		}
		return op{name, []string{formatNames[g.rng.Intn(len(formatNames))], a}}
	case "FromString":
		l := g.addrs(3)
		seps := []string{",", ", ", " , ", ",,", ",\t", ",  ", ",  "}
		s := ""
		for i, a := range l {
			if i > 0 {
				s += seps[g.rng.Intn(len(seps))]
			}
			s += a
		}
		if g.rng.Intn(4) == 0 {
			s = " " + s + seps[g.rng.Intn(len(seps))]
		}
		return op{name, []string{s}}
	default: // generic setters: any of the six keys
		keys := []string{"From", "To", "Cc", "Bcc", "Reply-To", "EnvelopeFrom"}
		return op{name, append([]string{keys[g.rng.Intn(len(keys))]}, g.addrs(3)...)}
	}
}

// Run is the harness entry point.
func Run(r *hx.Run, replay []hx.Case) {
	if replay != nil {
		for _, c := range replay {
			runCase(r, c)
		}
		return
	}
	g := &gen{r: r, rng: r.Rng}
	n := 2500
	if r.Tier == "thorough" {
		n = 60000
	}
	// fixed witnesses first (also documents DESIGN section 6 row 18: outside C06, see the report)
	for _, ops := range [][]op{
		{{"From", []string{"a@x.test"}}, {"To", []string{"b@x.test"}}, {"AddBcc", []string{`"Hidden, H." <hidden.rcpt@y.test>`}}, {"AddTo", []string{"c@x.test"}}},
		{{"ToIgnoreInvalid", []string{`"Jürgen" <j@x.test>`, "plain@x.test"}}, {"From", []string{"a@x.test"}}},
		{{"EnvelopeFrom", []string{"bounce@x.test"}}, {"Bcc", []string{"only.bcc@y.test"}}},
		{{"From", []string{`"a b"@x.test`}}, {"To", []string{`"x>y"@x.test`, `"p@q"@x.test`}}},
	} {
		runCase(r, hx.Case{ID: r.NewID(), Kind: "seq", Args: []string{opsString(ops)}})
	}
	// histories with Reset: every address header incl. EnvelopeFrom set, Reset (or the setters called with nothing),
	// then refilled with and without a new EnvelopeFrom / From — observed after every step (kind "hist")
	fill := func(tag string, env, from bool) []op {
		ops := []op{{"To", []string{"to." + tag + "@x.test", "Name " + tag + " <to2." + tag + "@x.test>"}}, {"AddCc", []string{"cc." + tag + "@x.test"}},
			{"Bcc", []string{"bcc." + tag + "@y.test"}}, {"ReplyTo", []string{"reply." + tag + "@x.test"}}}
		if from {
			ops = append(ops, op{"From", []string{"from." + tag + "@x.test"}})
		}
		if env {
			ops = append(ops, op{"EnvelopeFrom", []string{"bounce." + tag + "@x.test"}})
		}
		return ops
	}
	clearAll := []op{{"To", nil}, {"Cc", nil}, {"Bcc", nil}, {"SetAddrHeader", []string{"Reply-To"}}, {"SetAddrHeader", []string{"EnvelopeFrom"}}, {"SetAddrHeader", []string{"From"}}}
	for _, second := range [][2]bool{{true, true}, {false, true}, {true, false}, {false, false}} {
		for _, mid := range [][]op{{{"Reset", nil}}, clearAll, {{"Reset", nil}, {"Reset", nil}}} {
			h := append(append(append([]op(nil), fill("one", true, true)...), mid...), fill("two", second[0], second[1])...)
			runCase(r, hx.Case{ID: r.NewID(), Kind: "hist", Args: []string{opsString(h)}})
			h2 := append(append(append([]op(nil), fill("one", true, false)...), mid...), fill("two", second[0], second[1])...)
			runCase(r, hx.Case{ID: r.NewID(), Kind: "hist", Args: []string{opsString(append(h2, op{"Reset", nil}))}})
		}
	}
	nh := 250
	if r.Tier == "thorough" {
		nh = 6000
	}
	for i := 0; i < nh && !r.Expired(); i++ {
		var h []op
		for seg := 0; seg < 2+g.rng.Intn(2); seg++ {
			for j := 0; j < 1+g.rng.Intn(5); j++ {
				h = append(h, g.op())
			}
			if g.rng.Intn(2) == 0 {
				h = append(h, op{[]string{"EnvelopeFrom", "From", "ReplyTo"}[g.rng.Intn(3)], []string{g.addr()}})
			}
			h = append(h, op{"Reset", nil})
		}
		for j := 0; j < g.rng.Intn(5); j++ {
			h = append(h, g.op())
		}
		r.Dist["shape:history-with-reset"]++
		runCase(r, hx.Case{ID: r.NewID(), Kind: "hist", Args: []string{opsString(h)}})
	}
	// '@' + upper case inside quoted local parts, mixed-case domains, recipients differing only in letter case
	for _, slot := range slots {
		runCase(r, hx.Case{ID: r.NewID(), Kind: "seq", Args: []string{opsString([]op{
			{"From", []string{`"Jane@HQ"@Example.COM`}}, {"EnvelopeFrom", []string{`"Bounce@Dept"@MAIL.Example.Org`}},
			{slot, append(addrx.CaseVariants("Alice", "example.com"), `"a@B"@Example.COM`)},
			{"Add" + slot, []string{`"Ann@X@Yz"@x.test`}}, {"Add" + slot + "Format", []string{"Upper", "ALICE@Example.com"}},
			{"Add" + slot, []string{`"jane@hq"@example.com`}},
		})}})
	}
	// an entry without display name whose local part needs quoting, then Add / AddFormat on the same header
	for i, l := range addrx.QuoteNeedLocals {
		slot := slots[i%3]
		q := addrx.RenderLocal(rand.New(rand.NewSource(1)), l)
		runCase(r, hx.Case{ID: r.NewID(), Kind: "seq", Args: []string{opsString([]op{
			{"From", []string{"sender@origin.test"}}, {slot, []string{q + "@example.com", "<" + q + "@second.example.com>"}},
			{"Add" + slot, []string{"admin@example.com"}}, {"Add" + slot + "Format", []string{"Third", "third@example.com"}},
		})}})
	}
	// net/mail quirk (known finding dispname-backslash-q-encoded-word): names that need encoding and hold a backslash
	for _, qn := range addrx.QBackslashNames {
		runCase(r, hx.Case{ID: r.NewID(), Kind: "seq", Args: []string{opsString([]op{
			{"FromFormat", []string{qn, "from@x.test"}}, {"To", []string{addrx.QuoteName(qn) + " <first@x.test>"}},
			{"AddTo", []string{"second@x.test"}}, {"AddCcFormat", []string{qn, "cc1@x.test"}}, {"AddCc", []string{"cc2@x.test"}},
			{"AddBcc", []string{mime.BEncoding.Encode("utf-8", qn) + " <bcc@y.test>"}},
		})}})
	}
	// ...Format setters: backslashes, double quotes, control characters in the name argument
	for _, fn := range []string{`C:\dir\file`, `say "hi"`, `end\`, `"`, `\"`, "ctl\x01x", "cr\r\nX-Injected: 1", "Tab\tName", "plain"} {
		runCase(r, hx.Case{ID: r.NewID(), Kind: "seq", Args: []string{opsString([]op{
			{"FromFormat", []string{fn, "from@x.test"}}, {"To", []string{"first@x.test"}}, {"AddToFormat", []string{fn, "second@x.test"}},
			{"AddTo", []string{"third@x.test"}}, {"ReplyToFormat", []string{fn, "reply@x.test"}}, {"EnvelopeFromFormat", []string{fn, "bounce@x.test"}},
			{"AddCcFormat", []string{fn, "cc1@x.test"}}, {"AddCcFormat", []string{"Second " + fn, "cc2@x.test"}}, {"AddBccFormat", []string{fn, "bcc@y.test"}},
		})}})
	}
	// every hard display name once: Set, then Add and AddFormat on the same header
	for i, hn := range addrx.HardNames {
		runCase(r, hx.Case{ID: r.NewID(), Kind: "seq", Args: []string{opsString([]op{
			{"From", []string{"sender@origin.test"}},
			{"To", []string{addrx.QuoteName(hn) + " <first@x.test>", "plain@x.test"}},
			{"AddTo", []string{"Second <second@x.test>"}},
			{"AddToFormat", []string{formatNames[19+i%8], "third@x.test"}},
			{"Cc", []string{mime.QEncoding.Encode("utf-8", hn) + " <cc1@x.test>"}},
			{"AddCcFormat", []string{"Plain Name", "cc2@x.test"}},
			{"AddCc", []string{mime.BEncoding.Encode("utf-8", hn) + " <cc3@x.test>"}},
		})}})
	}
	for i := 0; i < n && !r.Expired(); i++ {
		var ops []op
		if i%3 == 0 {
			ops = g.chain()
			r.Dist["shape:set-then-add-chain"]++
		} else {
			ops = make([]op, 1+g.rng.Intn(12))
			for j := range ops {
				ops[j] = g.op()
			}
		}
		// most sequences should be sendable: make sure a sender exists in 3 of 4 cases
		if g.rng.Intn(4) > 0 {
			ops = append([]op{{"From", []string{"sender@origin.test"}}}, ops...)
		}
		r.Dist[fmt.Sprintf("len:%02d", len(ops))]++
		runCase(r, hx.Case{ID: r.NewID(), Kind: "seq", Args: []string{opsString(ops)}})
	}
}
