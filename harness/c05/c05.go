// Package c05: envelope addresses and command lines cannot be smuggled (C05).
//
// Cases: "env"  — sender and recipient address strings from the RFC 5322 grammar, server capability
//
//	         set (8BITMIME / SMTPUTF8 / DSN, or EHLO rejected -> HELO fallback), DSN options;
//	"helo" — a HELO/EHLO name (WithHELO), optionally with the HELO fallback;
//	"auth" — user name / password with blanks, CR, LF (oracle only: every line is one command).
//
// Observable compared with the Coq model (coq/theories/Envelope.v): the MAIL/RCPT (EHLO/HELO) lines
// the reference server received, or REFUSED when nothing was written.  Direct oracle: every command
// line is a single line with a known verb; MAIL/RCPT lines parse with the strict RFC 5321 parser
// (harness/addrx) to exactly the intended mailbox with no parameter other than the client's own.
package c05

import (
	"context"
	"fmt"
	"math/rand"
	netmail "net/mail"
	"strings"
	"time"

	mail "github.com/wneessen/go-mail"
	"github.com/wneessen/go-mail/smtp"
	"verif/harness/addrx"
	"verif/harness/hx"
	"verif/harness/smtpx"
)

func init() { hx.Register("C05", Run) }

type dsnOpt struct {
	kind string // D | R | N
	vals []string
}

func dsnString(l []dsnOpt) string {
	if len(l) == 0 {
		return "-"
	}
	parts := make([]string, len(l))
	for i, o := range l {
		switch o.kind {
		case "D":
			parts[i] = "D"
		case "R":
			parts[i] = "R:" + hx.Hex([]byte(o.vals[0]))
		default:
			b := make([][]byte, len(o.vals))
			for j, v := range o.vals {
				b[j] = []byte(v)
			}
			parts[i] = "N:" + hx.HexList(b)
		}
	}
	return strings.Join(parts, "+")
}

func parseDSN(s string) []dsnOpt {
	if s == "-" {
		return nil
	}
	var out []dsnOpt
	for _, p := range strings.Split(s, "+") {
		switch {
		case p == "D":
			out = append(out, dsnOpt{kind: "D"})
		case strings.HasPrefix(p, "R:"):
			out = append(out, dsnOpt{kind: "R", vals: []string{string(hx.UnHex(p[2:]))}})
		case strings.HasPrefix(p, "N:"):
			var v []string
			for _, b := range hx.UnHexList(p[2:]) {
				v = append(v, string(b))
			}
			out = append(out, dsnOpt{kind: "N", vals: v})
		}
	}
	return out
}

func serverFor(caps string) *smtpx.Server {
	if caps == "h" {
		return smtpx.NewServer(nil, []smtpx.Decision{smtpx.OK(), smtpx.Reply(502, "5.5.1 EHLO not implemented")})
	}
	var c []string
	if caps[0] == '1' {
		c = append(c, "8BITMIME")
	}
	if caps[1] == '1' {
		c = append(c, "SMTPUTF8")
	}
	if caps[2] == '1' {
		c = append(c, "DSN")
	}
	return smtpx.NewServer(c, nil)
}

// checkLines: every event outside DATA is one well-formed command line.
func checkLines(r *hx.Run, id string, trace []smtpx.Event) {
	for _, e := range trace {
		if e.Verb == "GREETING" || e.Verb == "EOD" || e.Verb == "EOD-MISSING" {
			continue
		}
		if strings.ContainsAny(e.Line, "\r\n") || strings.Contains(e.Why, "CR/LF") || strings.Contains(e.Why, "CRLF") {
			r.Fail(id, "command-line-with-cr-lf", fmt.Sprintf("%q (%s)", e.Line, e.Why))
		}
		if e.Verb == "UNKNOWN" {
			r.Fail(id, "unknown-command-line", fmt.Sprintf("the server received %q", e.Line))
		}
		if e.Verb == "EHLO" || e.Verb == "HELO" {
			if len(e.Line) < 6 || e.Line[4] != ' ' || strings.ContainsAny(e.Line[5:], " \t") {
				r.Fail(id, "helo-with-blank", fmt.Sprintf("%q does not carry exactly one argument", e.Line))
			}
		}
	}
}

func runEnv(r *hx.Run, c hx.Case) {
	if len(c.Args) < 4 {
		r.Add(c, "BAD-CASE", false)
		return
	}
	caps := c.Args[0]
	dsn := parseDSN(c.Args[1])
	from := string(hx.UnHex(c.Args[2]))
	var rcpts []string
	for _, b := range hx.UnHexList(c.Args[3]) {
		rcpts = append(rcpts, string(b))
	}
	tabs := addrx.NewTables()
	tabs.AddParse(from)
	for _, x := range rcpts {
		tabs.AddParse(x)
	}
	tabs.Close()
	pt, _, _ := tabs.Args()
	c.Args = []string{caps, c.Args[1], c.Args[2], c.Args[3], pt}
	for _, h := range tabs.HAddr {
		r.Fail(c.ID, "h-addr-not-valid", "hypothesis on the address oracle does not hold: "+h)
	}
	r.Dist["addresses-hypotheses-validated"] += tabs.NAddrs

	srv := serverFor(caps)
	d := &smtpx.Dialer{Srv: srv}
	opts := []mail.Option{mail.WithTLSPolicy(mail.NoTLS), mail.WithHELO("client.verif.test"),
		mail.WithDialContextFunc(d.Dial), mail.WithTimeout(5 * time.Second)}
	for _, o := range dsn {
		switch o.kind {
		case "D":
			opts = append(opts, mail.WithDSN())
		case "R":
			opts = append(opts, mail.WithDSNMailReturnType(mail.DSNMailReturnOption(o.vals[0])))
		case "N":
			no := make([]mail.DSNRcptNotifyOption, len(o.vals))
			for i, v := range o.vals {
				no[i] = mail.DSNRcptNotifyOption(v)
			}
			opts = append(opts, mail.WithDSNRcptNotifyType(no...))
		}
	}
	cl, err := mail.NewClient("mx.verif.test", opts...)
	if err != nil {
		r.Add(c, "OPTERR", false)
		return
	}
	m := mail.NewMsg()
	f1 := m.From(from) == nil
	f2 := m.To(rcpts...) == nil
	if !f1 || !f2 {
		b := func(x bool) string {
			if x {
				return "1"
			}
			return "0"
		}
		r.Add(c, "SETERR:"+b(f1)+b(f2), false)
		return
	}
	m.Subject("s")
	m.SetBodyString(mail.TypeTextPlain, "body")
	if len(rcpts) == 0 {
		r.Add(c, "NOSEND", false)
		return
	}
	ctx, cancel := context.WithTimeout(context.Background(), 10*time.Second)
	sendErr := cl.DialAndSendWithContext(ctx, m)
	cancel()
	if d.Dials > 0 {
		srv.Finish(2 * time.Second)
	}
	trace, commits := srv.Snapshot()
	var lines [][]byte
	var raw []string
	for _, e := range trace {
		if e.Verb == "MAIL" || e.Verb == "RCPT" {
			lines = append(lines, []byte(e.Line))
			raw = append(raw, e.Line)
		}
	}
	obs := "REFUSED"
	if len(lines) > 0 {
		obs = hx.HexList(lines)
	}
	// intended mailboxes, read from the case itself by the independent RFC 5322 reader
	want := []addrx.Mailbox{}
	readable := true
	anyQuote := false
	for _, s := range append([]string{from}, rcpts...) {
		mb, ok := addrx.IntendedMailbox(s)
		if !ok {
			readable = false
			break
		}
		want = append(want, mb)
		if addrx.NeedsQuoting(mb.Local) {
			anyQuote = true
		}
	}
	r.Add(c, obs, anyQuote || caps != "000")

	// ------------------------------------------------------------ direct oracle
	checkLines(r, c.ID, trace)
	if !readable {
		r.Dist["env:intended-mailbox-not-readable"]++
		return
	}
	if len(raw) == 0 {
		// refused before anything was sent: allowed only for a local part that needs quoting
		if sendErr == nil {
			r.Fail(c.ID, "send-without-envelope", "DialAndSend returned nil but no MAIL/RCPT line reached the server")
		}
		if !anyQuote {
			r.Fail(c.ID, "plain-address-refused", fmt.Sprintf("no MAIL line although no local part needs quoting: %v", sendErr))
		}
		r.Dist["env:refused"]++
		return
	}
	if len(raw) != len(want) {
		r.Fail(c.ID, "partial-envelope", fmt.Sprintf("%d MAIL/RCPT lines for 1 sender + %d recipients (err=%v)", len(raw), len(rcpts), sendErr))
	}
	u8 := false
	wantRet, wantNotify := "", ""
	for _, o := range dsn {
		switch o.kind {
		case "D":
			wantRet, wantNotify = "FULL", "FAILURE,SUCCESS"
		case "R":
			wantRet = o.vals[0]
		case "N":
			tv := make([]string, len(o.vals))
			for j, v := range o.vals {
				tv[j] = strings.TrimSpace(v)
			}
			wantNotify = strings.Join(tv, ",")
		}
	}
	for i, l := range raw {
		if i == 0 {
			u8 = strings.Contains(strings.ToUpper(l), " SMTPUTF8")
		}
		pl, err := addrx.ParsePathLine(l, u8)
		if err != nil {
			cls := "path-not-rfc5321"
			if i < len(want) && addrx.NeedsQuoting(want[i].Local) {
				cls = "unquoted-local-part"
			}
			if strings.Contains(err.Error(), "esmtp-param") || strings.Contains(err.Error(), "text after '>'") {
				cls = "esmtp-parameter-malformed"
			}
			r.Fail(c.ID, cls, fmt.Sprintf("%q: %v (intended mailbox %q)", l, err, mbString(want, i)))
			continue
		}
		if i < len(want) && !addrx.SameMailbox(pl.Box, want[i]) {
			// the line is well-formed but names another mailbox (e.g. a quoting routine that rewrites bytes)
			cls := "path-denotes-other-mailbox"
			r.Fail(c.ID, cls, fmt.Sprintf("%q denotes %q, intended %q", l, pl.Box.String(), want[i].String()))
		}
		if (i == 0) != (pl.Verb == "MAIL") {
			r.Fail(c.ID, "envelope-order", fmt.Sprintf("line %d is %s", i, pl.Verb))
		}
		// parameters: only the client's own
		var own []string
		if pl.Verb == "MAIL" && caps != "h" {
			if caps[0] == '1' {
				own = append(own, "BODY=8BITMIME")
			}
			if caps[1] == '1' {
				own = append(own, "SMTPUTF8")
			}
			if caps[2] == '1' && wantRet != "" {
				own = append(own, "RET="+strings.ToUpper(strings.TrimSpace(wantRet)))
			}
		}
		if pl.Verb == "RCPT" && caps != "h" && caps[2] == '1' && wantNotify != "" {
			own = append(own, "NOTIFY="+strings.ToUpper(wantNotify))
		}
		// the DSN keywords are case-insensitive (RFC 3461): compared in upper case; their values must be well-formed
		gotParams, badParam := normParams(pl.Params)
		if badParam != "" {
			r.Fail(c.ID, "dsn-parameter-not-rfc3461", fmt.Sprintf("%q: parameter %q", l, badParam))
		}
		if strings.Join(own, " ") != strings.Join(gotParams, " ") {
			r.Fail(c.ID, "foreign-esmtp-parameter", fmt.Sprintf("%q carries parameters %q, the client's own are %q", l, pl.Params, own))
		}
	}
	if sendErr == nil && len(commits) == 1 {
		r.Dist["env:delivered"]++
	}
}

func mbString(l []addrx.Mailbox, i int) string {
	if i < len(l) {
		return l[i].String()
	}
	return "?"
}

func runHelo(r *hx.Run, c hx.Case) {
	if len(c.Args) < 2 {
		r.Add(c, "BAD-CASE", false)
		return
	}
	name := string(hx.UnHex(c.Args[0]))
	caps := "111"
	if c.Args[1] == "1" {
		caps = "h"
	}
	srv := serverFor(caps)
	d := &smtpx.Dialer{Srv: srv}
	cl, err := mail.NewClient("mx.verif.test", mail.WithTLSPolicy(mail.NoTLS), mail.WithHELO(name),
		mail.WithDialContextFunc(d.Dial), mail.WithTimeout(5*time.Second))
	if err != nil {
		r.AddOracleOnly(c, false) // empty name: refused by WithHELO, nothing to compare
		return
	}
	ctx, cancel := context.WithTimeout(context.Background(), 10*time.Second)
	derr := cl.DialWithContext(ctx)
	if derr == nil {
		_ = cl.Close()
	}
	cancel()
	if d.Dials > 0 {
		if d.Client != nil && derr != nil {
			_ = d.Client.Close()
		}
		srv.Finish(2 * time.Second)
	}
	trace, _ := srv.Snapshot()
	var lines [][]byte
	for _, e := range trace {
		if e.Verb == "EHLO" || e.Verb == "HELO" {
			lines = append(lines, []byte(e.Line))
		}
	}
	obs := "REFUSED"
	if len(lines) > 0 {
		obs = hx.HexList(lines)
	}
	bad := strings.ContainsAny(name, " \t\r\n")
	r.Add(c, obs, bad || c.Args[1] == "1")
	checkLines(r, c.ID, trace)
	for _, e := range trace {
		if (e.Verb == "EHLO" || e.Verb == "HELO") && e.Arg != name && !strings.ContainsAny(name, " \t\r\n") {
			r.Fail(c.ID, "helo-name-altered", fmt.Sprintf("%q sent for the name %q", e.Line, name))
		}
	}
	if len(lines) == 0 && derr == nil {
		r.Fail(c.ID, "dial-without-helo", "DialWithContext returned nil but no EHLO/HELO reached the server")
	}
	for _, e := range trace {
		if e.Verb != "GREETING" && e.Verb != "EHLO" && e.Verb != "HELO" && e.Verb != "QUIT" && e.Verb != "NOOP" && len(lines) == 0 {
			r.Fail(c.ID, "command-after-refused-helo", e.Line)
		}
	}
}

// runAuth: credentials only travel base64-encoded; every line of the AUTH exchange is one line.
func runAuth(r *hx.Run, c hx.Case) {
	if len(c.Args) < 3 {
		r.AddOracleOnly(c, false)
		return
	}
	mech := c.Args[0]
	user, pass := string(hx.UnHex(c.Args[1])), string(hx.UnHex(c.Args[2]))
	srv := smtpx.NewServer([]string{"AUTH PLAIN LOGIN CRAM-MD5"}, nil)
	d := &smtpx.Dialer{Srv: srv}
	at := map[string]mail.SMTPAuthType{"PLAIN": mail.SMTPAuthPlainNoEnc, "LOGIN": mail.SMTPAuthLoginNoEnc, "CRAM-MD5": mail.SMTPAuthCramMD5}[mech]
	cl, err := mail.NewClient("mx.verif.test", mail.WithTLSPolicy(mail.NoTLS), mail.WithHELO("client.verif.test"),
		mail.WithSMTPAuth(at), mail.WithUsername(user), mail.WithPassword(pass),
		mail.WithDialContextFunc(d.Dial), mail.WithTimeout(5*time.Second))
	if err != nil {
		r.AddOracleOnly(c, false)
		return
	}
	ctx, cancel := context.WithTimeout(context.Background(), 10*time.Second)
	derr := cl.DialWithContext(ctx)
	if derr == nil {
		_ = cl.Close()
	}
	cancel()
	if d.Dials > 0 {
		if d.Client != nil && derr != nil {
			_ = d.Client.Close()
		}
		srv.Finish(2 * time.Second)
	}
	trace, _ := srv.Snapshot()
	r.AddOracleOnly(c, strings.ContainsAny(user+pass, " \r\n"))
	checkLines(r, c.ID, trace)
	isB64 := func(s string) bool {
		for i := 0; i < len(s); i++ {
			ch := s[i]
			if !(ch >= 'a' && ch <= 'z' || ch >= 'A' && ch <= 'Z' || ch >= '0' && ch <= '9' || ch == '+' || ch == '/' || ch == '=') {
				return false
			}
		}
		return true
	}
	seen := false
	for _, e := range trace {
		if e.Verb != "AUTH" {
			continue
		}
		seen = true
		f := strings.Split(e.Line, " ")
		if len(f) < 2 || len(f) > 3 || f[1] != mech || (len(f) == 3 && !isB64(f[2])) {
			r.Fail(c.ID, "auth-line-malformed", fmt.Sprintf("%q", e.Line))
		}
		n := len(f) - 2
		for _, p := range e.Params[n:] {
			if !isB64(p) {
				r.Fail(c.ID, "auth-response-not-base64", fmt.Sprintf("%q", p))
			}
		}
	}
	if !seen {
		r.Dist["auth:no-auth-line"]++
	}
}

// rfc3461 normalises a DSN parameter (RFC 3461 sections 4.1, 4.3: the keywords are case-insensitive) and tells
// whether its value is well-formed: RET=FULL|HDRS, NOTIFY=NEVER | comma list of SUCCESS / FAILURE / DELAY.
// Other parameters are returned as they are.
func rfc3461(p string) (string, bool) {
	up := strings.ToUpper(p)
	switch {
	case strings.HasPrefix(up, "RET="):
		v := up[4:]
		return up, v == "FULL" || v == "HDRS"
	case strings.HasPrefix(up, "NOTIFY="):
		v := up[7:]
		if v == "NEVER" {
			return up, true
		}
		for _, e := range strings.Split(v, ",") {
			if e != "SUCCESS" && e != "FAILURE" && e != "DELAY" {
				return up, false
			}
		}
		return up, true
	}
	return p, true
}

func normParams(l []string) ([]string, string) {
	out := make([]string, len(l))
	bad := ""
	for i, p := range l {
		n, ok := rfc3461(p)
		out[i] = n
		if !ok {
			bad = p
		}
	}
	return out, bad
}

// runDSNSet: direct smtp.Client use with the raw setters SetDSNMailReturnOption / SetDSNRcptNotifyOption, then
// Mail, Rcpt, Quit.  Oracle only: Mail / Rcpt either refuse (error, nothing written) or the line is one line whose
// RET / NOTIFY parameter is the configured keyword (any letter case) per RFC 3461; without DSN in the EHLO reply
// no such parameter is sent.
func runDSNSet(r *hx.Run, c hx.Case) {
	if len(c.Args) < 3 {
		r.AddOracleOnly(c, false)
		return
	}
	ret, notify := string(hx.UnHex(c.Args[1])), string(hx.UnHex(c.Args[2]))
	caps := []string{"8BITMIME"}
	if c.Args[0] == "1" {
		caps = append(caps, "DSN")
	}
	srv := smtpx.NewServer(caps, nil)
	cc, sc := smtpx.NewPair()
	go srv.Serve(sc)
	_ = cc.SetDeadline(time.Now().Add(5 * time.Second))
	cl, err := smtp.NewClient(cc, "mx.verif.test")
	if err != nil {
		_ = cc.Close()
		srv.Finish(2 * time.Second)
		r.AddOracleOnly(c, false)
		return
	}
	cl.SetDSNMailReturnOption(ret)
	cl.SetDSNRcptNotifyOption(notify)
	_ = cl.Hello("client.verif.test")
	mailErr := cl.Mail("sender@origin.test")
	rcptErr := cl.Rcpt("rcpt@x.test")
	_ = cl.Quit()
	_ = cl.Close()
	srv.Finish(2 * time.Second)
	trace, _ := srv.Snapshot()
	r.AddOracleOnly(c, ret != strings.TrimSpace(ret) || notify != strings.TrimSpace(notify) || strings.ContainsAny(ret+notify, " \r\n"))
	tap := string(cc.Written())
	if n := strings.Count(tap, "\r\n"); n != len(trace)-1 || (len(tap) > 0 && !strings.HasSuffix(tap, "\r\n")) {
		r.Fail(c.ID, "command-lines-not-one-per-command", fmt.Sprintf("the client wrote %d CRLF-terminated lines, the server read %d commands: %q", n, len(trace)-1, tap))
	}
	seen := map[string]int{}
	for _, e := range trace {
		if e.Verb == "GREETING" {
			continue
		}
		if strings.ContainsAny(e.Line, "\r\n") || !e.Legal && (strings.Contains(e.Why, "CR/LF") || strings.Contains(e.Why, "CRLF")) {
			r.Fail(c.ID, "command-line-with-cr-lf", fmt.Sprintf("%q (%s)", e.Line, e.Why))
		}
		seen[e.Verb]++
		if (e.Verb != "EHLO" && e.Verb != "MAIL" && e.Verb != "RCPT" && e.Verb != "QUIT") || seen[e.Verb] > 1 {
			r.Fail(c.ID, "unintended-command-line", fmt.Sprintf("the server received %q (RET %q, NOTIFY %q)", e.Line, ret, notify))
			continue
		}
		if e.Verb != "MAIL" && e.Verb != "RCPT" {
			continue
		}
		if e.Verb == "MAIL" && mailErr != nil || e.Verb == "RCPT" && rcptErr != nil {
			r.Fail(c.ID, "line-written-although-refused", fmt.Sprintf("%q although the call returned an error (Mail: %v, Rcpt: %v)", e.Line, mailErr, rcptErr))
		}
		pl, perr := addrx.ParsePathLine(e.Line, false)
		if perr != nil {
			r.Fail(c.ID, "esmtp-parameter-malformed", fmt.Sprintf("%q: %v (RET %q, NOTIFY %q)", e.Line, perr, ret, notify))
			continue
		}
		got, bad := normParams(pl.Params)
		if bad != "" {
			r.Fail(c.ID, "dsn-parameter-not-rfc3461", fmt.Sprintf("%q: parameter %q", e.Line, bad))
		}
		var own []string
		if e.Verb == "MAIL" {
			own = append(own, "BODY=8BITMIME")
			if c.Args[0] == "1" && ret != "" {
				own = append(own, "RET="+strings.ToUpper(ret))
			}
		} else if c.Args[0] == "1" && notify != "" {
			own = append(own, "NOTIFY="+strings.ToUpper(notify))
		}
		if strings.Join(own, " ") != strings.Join(got, " ") {
			r.Fail(c.ID, "foreign-esmtp-parameter", fmt.Sprintf("%q carries parameters %q, configured are %q", e.Line, pl.Params, own))
		}
	}
}

// runSMTPSeq: direct use of smtp.Client — Hello(name), whatever it returns, followed by other methods (each of
// them runs the lazy EHLO/HELO when Hello has not completed).  Oracle only: EVERY line the server receives in
// the session is judged: one CRLF-terminated line per command the client issued, a known verb, EHLO/HELO with
// exactly one argument which is the accepted name (or the default "localhost" when Hello refused the name),
// and no line that no call of the sequence intended.
func runSMTPSeq(r *hx.Run, c hx.Case) {
	if len(c.Args) < 2 {
		r.AddOracleOnly(c, false)
		return
	}
	name := string(hx.UnHex(c.Args[0]))
	calls := c.Args[1]
	srv := smtpx.NewServer([]string{"8BITMIME", "SMTPUTF8"}, nil)
	if strings.HasPrefix(calls, "h") { // EHLO rejected: HELO fallback
		srv = smtpx.NewServer(nil, []smtpx.Decision{smtpx.OK(), smtpx.Reply(502, "5.5.1 EHLO not implemented")})
		calls = calls[1:]
	}
	cc, sc := smtpx.NewPair()
	go srv.Serve(sc)
	_ = cc.SetDeadline(time.Now().Add(5 * time.Second))
	cl, err := smtp.NewClient(cc, "mx.verif.test")
	if err != nil {
		_ = cc.Close()
		srv.Finish(2 * time.Second)
		r.Fail(c.ID, "harness", "smtp.NewClient: "+err.Error())
		r.AddOracleOnly(c, false)
		return
	}
	helloErr := cl.Hello(name)
	intended := map[string]int{}
	for _, ch := range calls {
		switch ch {
		case 'M':
			_ = cl.Mail("sender@origin.test")
			intended["MAIL"]++
		case 'N':
			_ = cl.Noop()
			intended["NOOP"]++
		case 'R':
			_ = cl.Reset()
			intended["RSET"]++
		case 'E':
			_, _ = cl.Extension("8BITMIME")
		case 'V':
			_ = cl.Verify("someone@x.test")
			intended["VRFY"]++
		case 'Q':
			_ = cl.Quit()
			intended["QUIT"]++
		}
	}
	_ = cl.Close()
	srv.Finish(2 * time.Second)
	trace, _ := srv.Snapshot()
	r.AddOracleOnly(c, helloErr != nil && calls != "")
	r.Dist["smtpseq:hello-refused="+fmt.Sprint(helloErr != nil)]++
	wantName := name
	if helloErr != nil {
		wantName = "localhost" // smtp.NewClient's default local name
	}
	tap := cc.Written()
	if n := strings.Count(string(tap), "\r\n"); n != len(trace)-1 || (len(tap) > 0 && !strings.HasSuffix(string(tap), "\r\n")) {
		r.Fail(c.ID, "command-lines-not-one-per-command", fmt.Sprintf("the client wrote %d CRLF-terminated lines, the server read %d commands: %q", n, len(trace)-1, tap))
	}
	seen := map[string]int{}
	for _, e := range trace {
		if e.Verb == "GREETING" {
			continue
		}
		if strings.ContainsAny(e.Line, "\r\n") || !e.Legal && (strings.Contains(e.Why, "CR/LF") || strings.Contains(e.Why, "CRLF")) {
			r.Fail(c.ID, "command-line-with-cr-lf", fmt.Sprintf("%q (%s)", e.Line, e.Why))
		}
		f := strings.SplitN(e.Line, " ", 2)
		verb := strings.ToUpper(f[0])
		if strings.HasPrefix(strings.ToUpper(e.Line), "MAIL FROM:") {
			verb = "MAIL"
		}
		switch verb {
		case "EHLO", "HELO":
			seen[verb]++
			if len(f) != 2 || f[1] == "" || strings.ContainsAny(f[1], " \t") {
				r.Fail(c.ID, "helo-with-blank", fmt.Sprintf("%q does not carry exactly one argument (Hello(%q) returned %v)", e.Line, name, helloErr))
			} else if f[1] != wantName {
				r.Fail(c.ID, "refused-helo-name-sent", fmt.Sprintf("%q: Hello(%q) returned %v, the name in force is %q", e.Line, name, helloErr, wantName))
			}
			if seen[verb] > 1 {
				r.Fail(c.ID, "unintended-command-line", fmt.Sprintf("second %s in one session: %q", verb, e.Line))
			}
		default:
			seen[verb]++
			if seen[verb] > intended[verb] {
				r.Fail(c.ID, "unintended-command-line", fmt.Sprintf("the server received %q, which no call of Hello(%q) -> %v; %s issued", e.Line, name, helloErr, calls))
			}
		}
	}
}

// runEnvSeq: recipients built up by several calls on one header (Set, then Add / AddFormat), then sent through
// the real client.  Oracle only: the harness keeps, from the ORIGINAL call arguments (independent RFC 5322
// reader) and the reference semantics Set replaces / Add appends, the mailboxes of To, Cc, Bcc; every RCPT line
// must parse (strict RFC 5321 parser) to exactly the mailbox the introducing call set, byte for byte, in order.
// Case: caps, steps "To/<hex>/<hex>,AddTo/<hex>,AddToFormat/<hexname>/<hexaddr>,..." (From is fixed).
func runEnvSeq(r *hx.Run, c hx.Case) {
	if len(c.Args) < 2 {
		r.AddOracleOnly(c, false)
		return
	}
	caps := c.Args[0]
	m := mail.NewMsg()
	_ = m.From("sender@origin.test")
	want := map[string][]addrx.Mailbox{}
	tainted := map[string]bool{}
	known := true
	for i, st := range strings.Split(c.Args[1], ",") {
		f := strings.Split(st, "/")
		var a []string
		for _, x := range f[1:] {
			a = append(a, string(hx.UnHex(x)))
		}
		name := f[0]
		var err error
		var vals []string
		slot := strings.TrimSuffix(strings.TrimPrefix(name, "Add"), "Format")
		switch {
		case name == "To":
			err, vals = m.To(a...), a
		case name == "Cc":
			err, vals = m.Cc(a...), a
		case name == "Bcc":
			err, vals = m.Bcc(a...), a
		case name == "AddTo" && len(a) == 1:
			err, vals = m.AddTo(a[0]), a
		case name == "AddCc" && len(a) == 1:
			err, vals = m.AddCc(a[0]), a
		case name == "AddBcc" && len(a) == 1:
			err, vals = m.AddBcc(a[0]), a
		case name == "AddToFormat" && len(a) == 2:
			err, vals = m.AddToFormat(a[0], a[1]), []string{"<" + a[1] + ">"}
		case name == "AddCcFormat" && len(a) == 2:
			err, vals = m.AddCcFormat(a[0], a[1]), []string{"<" + a[1] + ">"}
		case name == "AddBccFormat" && len(a) == 2:
			err, vals = m.AddBccFormat(a[0], a[1]), []string{"<" + a[1] + ">"}
		default:
			r.AddOracleOnly(c, false)
			return
		}
		var l []addrx.Mailbox
		readable := true
		for _, v := range vals {
			mb, ok := addrx.IntendedMailbox(v)
			if _, perr := netmail.ParseAddress(v); !ok || perr != nil {
				readable = false // the argument by itself is no address for the reader or for net/mail
			}
			l = append(l, mb)
		}
		for _, v := range a {
			// net/mail cannot re-read its own rendering of such a display name (known finding of C02 / C06,
			// dispname-backslash-q-encoded-word): a later Add on that header fails for that reason, not judged here
			if n, ok := addrx.IntendedName(v); ok && addrx.QBackslashName(n) || addrx.QBackslashName(v) {
				tainted[slot] = true
			}
		}
		if err != nil {
			// a call whose arguments are all well-formed addresses must not fail because of what is already stored
			if tainted[slot] {
				r.Dist["envseq:add-failed-after-q-backslash-name"]++
			} else if readable && strings.HasPrefix(name, "Add") {
				r.Fail(c.ID, "add-rejects-valid-address", fmt.Sprintf("step %d %s(%q) failed: %v", i, name, a, err))
			}
			continue
		}
		if !readable {
			known = false
			continue
		}
		if strings.HasPrefix(name, "Add") {
			want[slot] = append(want[slot], l...)
		} else {
			want[slot] = l
		}
	}
	m.Subject("s")
	m.SetBodyString(mail.TypeTextPlain, "body")
	srv := serverFor(caps)
	d := &smtpx.Dialer{Srv: srv}
	cl, err := mail.NewClient("mx.verif.test", mail.WithTLSPolicy(mail.NoTLS), mail.WithHELO("client.verif.test"),
		mail.WithDialContextFunc(d.Dial), mail.WithTimeout(5*time.Second))
	if err != nil {
		r.AddOracleOnly(c, false)
		return
	}
	ctx, cancel := context.WithTimeout(context.Background(), 10*time.Second)
	sendErr := cl.DialAndSendWithContext(ctx, m)
	cancel()
	if d.Dials > 0 {
		srv.Finish(2 * time.Second)
	}
	trace, _ := srv.Snapshot()
	r.AddOracleOnly(c, true)
	checkLines(r, c.ID, trace)
	if !known {
		r.Dist["envseq:not-readable"]++
		return
	}
	var exp []addrx.Mailbox
	for _, k := range []string{"To", "Cc", "Bcc"} {
		exp = append(exp, want[k]...)
	}
	var got []string
	var gotBoxes []addrx.Mailbox
	u8 := false
	for _, e := range trace {
		if e.Verb == "MAIL" {
			u8 = strings.Contains(strings.ToUpper(e.Line), " SMTPUTF8")
		}
		if e.Verb != "RCPT" {
			continue
		}
		pl, err := addrx.ParsePathLine(e.Line, u8)
		if err != nil {
			r.Fail(c.ID, "unquoted-local-part", fmt.Sprintf("%q: %v", e.Line, err))
			return
		}
		got = append(got, pl.Box.String())
		gotBoxes = append(gotBoxes, pl.Box)
	}
	if len(got) == 0 {
		refusable := len(exp) == 0
		for _, mb := range exp {
			if !addrx.Representable(mb.Local) {
				refusable = true
			}
		}
		if !refusable {
			r.Fail(c.ID, "envelope-refused", fmt.Sprintf("no RCPT line although every recipient can be transmitted: %v", sendErr))
		}
		r.Dist["envseq:refused"]++
		return
	}
	var es []string
	for _, mb := range exp {
		es = append(es, mb.String())
	}
	same := len(gotBoxes) == len(exp)
	for i := 0; same && i < len(exp); i++ {
		same = addrx.SameMailbox(gotBoxes[i], exp[i])
	}
	if !same {
		r.Fail(c.ID, "rcpt-not-the-mailbox-that-was-set", fmt.Sprintf("RCPT lines denote %q, the calls set %q", got, es))
	}
}

func runCase(r *hx.Run, c hx.Case) {
	defer func() {
		if p := recover(); p != nil {
			r.Fail(c.ID, "panic", fmt.Sprint(p))
			r.Add(c, "PANIC", true)
		}
	}()
	switch c.Kind {
	case "env":
		runEnv(r, c)
	case "helo":
		runHelo(r, c)
	case "auth":
		runAuth(r, c)
	case "smtpseq":
		runSMTPSeq(r, c)
	case "envseq":
		runEnvSeq(r, c)
	case "dsnset":
		runDSNSet(r, c)
	default:
		r.Add(c, "BAD-CASE", false)
	}
}

// ---------------------------------------------------------------- generators

var capsSets = []string{"000", "100", "010", "110", "001", "101", "011", "111", "h"}
var notifyOpts = []string{"NEVER", "SUCCESS", "FAILURE", "DELAY"}

func genDSN(rng *rand.Rand) []dsnOpt {
	var out []dsnOpt
	switch rng.Intn(8) {
	case 0, 1, 2:
		return nil
	case 3:
		out = append(out, dsnOpt{kind: "D"})
	case 4:
		out = append(out, dsnOpt{kind: "R", vals: []string{[]string{"HDRS", "FULL"}[rng.Intn(2)]}})
	case 5:
		out = append(out, dsnOpt{kind: "D"})
		fallthrough
	default:
		n := rng.Intn(4)
		var v []string
		if rng.Intn(5) == 0 {
			v = []string{"NEVER"}
		} else {
			for i := 0; i < n; i++ {
				v = append(v, notifyOpts[1+rng.Intn(3)])
			}
		}
		out = append(out, dsnOpt{kind: "N", vals: v})
		if rng.Intn(3) == 0 {
			out = append(out, dsnOpt{kind: "R", vals: []string{[]string{"HDRS", "FULL"}[rng.Intn(2)]}})
		}
	}
	if rng.Intn(25) == 0 { // malformed stream: values the option functions must reject
		bad := []dsnOpt{{kind: "R", vals: []string{"FULL FOO=bar"}}, {kind: "N", vals: []string{"SUCCESS", "NEVER"}},
			{kind: "N", vals: []string{"SUCCESS ORCPT=x"}}, {kind: "R", vals: []string{""}}, {kind: "R", vals: []string{"%s"}}}
		out = append(out, bad[rng.Intn(len(bad))])
	}
	return out
}

func envCase(r *hx.Run, caps string, dsn []dsnOpt, from string, rcpts []string) hx.Case {
	rb := make([][]byte, len(rcpts))
	for i, x := range rcpts {
		rb[i] = []byte(x)
	}
	return hx.Case{ID: r.NewID(), Kind: "env", Args: []string{caps, dsnString(dsn), hx.Hex([]byte(from)), hx.HexList(rb)}}
}

func heloCase(r *hx.Run, name string, fallback bool) hx.Case {
	fb := "0"
	if fallback {
		fb = "1"
	}
	return hx.Case{ID: r.NewID(), Kind: "helo", Args: []string{hx.Hex([]byte(name)), fb}}
}

var heloNames = []string{"client.verif.test", "localhost", "[192.0.2.1]", "my host", "a b c", "host\textra", " lead", "trail ",
	"h\x7fx", "h\x00x", "xn--bcher-kva.example", "bücher.example", "UPPER.Test", "h_1", "a", "host\r\nMAIL FROM:<x@y>", "host\nx", "host\rx", "\x01"}

var users = []string{"user", "user@x.test", "us er", "u\r\nRSET", "u\ns", "ü", "a b c", ""}

func genAddr(r *hx.Run, rng *rand.Rand, u8 bool) string {
	mb, lk := addrx.GenMailbox(rng, u8)
	r.Dist["local:"+addrx.LocalKindNames[lk]]++
	if rng.Intn(3) == 0 {
		s, _, nk := addrx.RenderAddress(rng, mb)
		r.Dist["name:"+addrx.NameKindNames[nk]]++
		return s
	}
	return addrx.RenderLocal(rng, mb.Local) + "@" + mb.Domain
}

// Run is the harness entry point.
func Run(r *hx.Run, replay []hx.Case) {
	if replay != nil {
		for _, c := range replay {
			runCase(r, c)
		}
		return
	}
	rng := r.Rng
	// DESIGN section 6 row 11 and the HELO witness first
	runCase(r, envCase(r, "110", nil, `"a b"@x.test`, []string{`"x>y"@x.test`, `"p@q"@x.test`, `"c,d"@x.test`, `"q\"uo\\te"@x.test`}))
	runCase(r, envCase(r, "111", []dsnOpt{{kind: "D"}}, "plain@x.test", []string{`"tab	x"@x.test`}))
	// quoted-string local parts with valid UTF-8 that is not "printable" for Go (an escaping routine meant for
	// Go source would turn them into ASCII escapes): must arrive byte for byte, SMTPUTF8 advertised
	for i, np := range addrx.NonPrintRunes {
		caps := []string{"010", "110", "111", "011"}[i%4]
		runCase(r, envCase(r, caps, nil, "sender@origin.test",
			[]string{`"john` + np + `doe smith"@rcpt.test`, `"` + np + ` "@x.test`, "a" + np + "b@x.test"}))
		runCase(r, envCase(r, caps, nil, `"bounce `+np+`"@origin.test`, []string{"plain@x.test"}))
	}
	// '@' inside a quoted local part followed by upper case, several '@', mixed-case local parts and domains, and
	// recipients that differ only in letter case: each goes out in its own spelling (local part byte for byte)
	for _, caps := range []string{"110", "000", "h"} {
		runCase(r, envCase(r, caps, nil, `"Jane@HQ"@Example.COM`, []string{`"a@B"@Example.COM`, `"Ann@X@Yz"@MAIL.Example.Org`, "McDonald.Ian@Example.COM", `"@TOP"@x.test`}))
		runCase(r, envCase(r, caps, nil, "Sender.Name@Origin.Test", addrx.CaseVariants("Alice", "example.com")))
		runCase(r, envCase(r, caps, nil, "sender@origin.test", append(addrx.CaseVariants("Bob.Builder", "Example.Org"), `"Jane@HQ"@example.com`, `"jane@hq"@example.com`)))
	}
	step0 := func(name string, args ...string) string {
		parts := []string{name}
		for _, a := range args {
			parts = append(parts, hx.Hex([]byte(a)))
		}
		return strings.Join(parts, "/")
	}
	for _, slot := range []string{"To", "Cc", "Bcc"} {
		runCase(r, hx.Case{ID: r.NewID(), Kind: "envseq", Args: []string{"110", strings.Join([]string{
			step0(slot, `"Jane@HQ"@Example.COM`, "Alice@example.com"), step0("Add"+slot, "alice@example.com"),
			step0("Add"+slot+"Format", "Upper", "ALICE@EXAMPLE.COM"), step0("Add"+slot, `"a@B@C"@x.test`)}, ",")}})
	}
	runCase(r, heloCase(r, "my host extra", false))
	for _, n := range heloNames {
		runCase(r, heloCase(r, n, false))
		runCase(r, heloCase(r, n, true))
	}
	// DSN option values: every keyword x {as is, lower / mixed case, blanks, TAB, CR, LF, CRLF, embedded blank, comma,
	// empty, NUL, smuggled command / parameter} through the options of mail.Client (DSN advertised and not) and
	// through the raw setters of smtp.Client
	variants := func(k string) []string {
		mixed := strings.ToLower(k[:1]) + k[1:]
		return []string{k, strings.ToLower(k), mixed, " " + k, k + " ", "\t" + k, k + "\r", k + "\n", k + "\r\n", k[:2] + " " + k[2:], k + ",", "",
			k + "\x00", k + "\r\nRSET", k + " X=y"}
	}
	for _, capsDSN := range []string{"111", "110"} {
		for _, k := range []string{"FULL", "HDRS"} {
			for _, v := range variants(k) {
				runCase(r, envCase(r, capsDSN, []dsnOpt{{kind: "R", vals: []string{v}}}, "sender@origin.test", []string{"rcpt@x.test"}))
			}
		}
		for _, k := range notifyOpts {
			for i, v := range variants(k) {
				vals := []string{v}
				if k != "NEVER" && i%2 == 0 {
					vals = append(vals, "FAILURE")
				}
				if k != "NEVER" && i%3 == 0 {
					vals = append([]string{"DELAY"}, vals...)
				}
				runCase(r, envCase(r, capsDSN, []dsnOpt{{kind: "N", vals: vals}}, "sender@origin.test", []string{"rcpt@x.test", "second@x.test"}))
			}
		}
	}
	for _, adv := range []string{"1", "0"} {
		for _, k := range []string{"FULL", "HDRS"} {
			for _, v := range variants(k) {
				if strings.HasSuffix(v, ",") {
					continue
				}
				runCase(r, hx.Case{ID: r.NewID(), Kind: "dsnset", Args: []string{adv, hx.Hex([]byte(v)), hx.Hex([]byte("SUCCESS,FAILURE"))}})
			}
		}
		for _, k := range notifyOpts {
			for _, v := range variants(k) {
				if strings.HasSuffix(v, ",") {
					continue
				}
				runCase(r, hx.Case{ID: r.NewID(), Kind: "dsnset", Args: []string{adv, hx.Hex([]byte("FULL")), hx.Hex([]byte(v))}})
				if k != "NEVER" && v != "" {
					runCase(r, hx.Case{ID: r.NewID(), Kind: "dsnset", Args: []string{adv, "~", hx.Hex([]byte("DELAY," + v))}})
				}
			}
		}
	}
	// recipients added in two and three steps on one header; the first entry has no display name and a local part
	// that needs quoting (it is re-serialised and re-parsed by every following Add)
	step := func(name string, args ...string) string {
		parts := []string{name}
		for _, a := range args {
			parts = append(parts, hx.Hex([]byte(a)))
		}
		return strings.Join(parts, "/")
	}
	seqRng := rand.New(rand.NewSource(r.Seed))
	for i, l := range addrx.QuoteNeedLocals {
		slot := []string{"To", "Cc", "Bcc"}[i%3]
		q := addrx.RenderLocal(seqRng, l)
		two := []string{step(slot, q+"@example.com"), step("Add"+slot, "admin@example.com")}
		three := []string{step(slot, "<"+q+"@example.com>", "plain@x.test"), step("Add"+slot+"Format", "Second Name", "second@x.test"), step("Add"+slot, q+"@third.example.com"), step("Add"+slot, "last@x.test")}
		runCase(r, hx.Case{ID: r.NewID(), Kind: "envseq", Args: []string{"110", strings.Join(two, ",")}})
		runCase(r, hx.Case{ID: r.NewID(), Kind: "envseq", Args: []string{"010", strings.Join(three, ",")}})
	}
	nseq := 300
	if r.Tier == "thorough" {
		nseq = 8000
	}
	for i := 0; i < nseq && !r.Expired(); i++ {
		var steps []string
		for _, slot := range []string{"To", "Cc", "Bcc"} {
			if rng.Intn(2) == 0 && !(slot == "Bcc" && len(steps) == 0) {
				continue
			}
			var first []string
			for j := 0; j < 1+rng.Intn(2); j++ {
				mb, _ := addrx.GenMailbox(rng, true)
				if rng.Intn(2) == 0 {
					mb.Local = addrx.QuoteNeedLocals[rng.Intn(len(addrx.QuoteNeedLocals))]
				}
				first = append(first, addrx.BareAddrSpec(rng, mb))
			}
			steps = append(steps, step(slot, first...))
			for j := 0; j < 1+rng.Intn(2); j++ {
				mb, _ := addrx.GenMailbox(rng, true)
				if rng.Intn(3) == 0 {
					steps = append(steps, step("Add"+slot+"Format", "N "+fmt.Sprint(i), addrx.RenderLocal(rng, mb.Local)+"@"+mb.Domain))
				} else {
					steps = append(steps, step("Add"+slot, genAddr(r, rng, true)))
				}
			}
		}
		runCase(r, hx.Case{ID: r.NewID(), Kind: "envseq", Args: []string{"110", strings.Join(steps, ",")}})
	}
	// direct smtp.Client sessions: Hello(name) -> error or nil, then the client goes on
	for _, n := range append([]string{"x\r\nMAIL FROM:<evil@x>", "x extra", "x\nNOOP", "ok.name.test"}, heloNames...) {
		for _, calls := range []string{"Q", "MQ", "N", "RQ", "E", "EQ", "VQ", "NMRQ", "hQ", "hMQ", "-"} {
			runCase(r, hx.Case{ID: r.NewID(), Kind: "smtpseq", Args: []string{hx.Hex([]byte(n)), calls}})
		}
	}
	for _, mech := range []string{"PLAIN", "LOGIN", "CRAM-MD5"} {
		for _, u := range users {
			for _, p := range users {
				if u == "" || p == "" {
					continue
				}
				runCase(r, hx.Case{ID: r.NewID(), Kind: "auth", Args: []string{mech, hx.Hex([]byte(u)), hx.Hex([]byte(p))}})
			}
		}
	}
	n := 3000
	if r.Tier == "thorough" {
		n = 80000
	}
	for i := 0; i < n && !r.Expired(); i++ {
		caps := capsSets[rng.Intn(len(capsSets))]
		u8 := caps != "h" && caps[1] == '1'
		from := genAddr(r, rng, u8)
		k := 1 + rng.Intn(4)
		rcpts := make([]string, k)
		for j := range rcpts {
			rcpts[j] = genAddr(r, rng, u8)
		}
		if rng.Intn(6) == 0 {
			if mb, ok := addrx.IntendedMailbox(rcpts[0]); ok && !addrx.NeedsQuoting(mb.Local) {
				v := addrx.CaseVariants(mb.Local, mb.Domain)
				rcpts = append(rcpts, v[1+rng.Intn(2)])
				r.Dist["env:case-variant-duplicate"]++
			}
		}
		r.Dist["caps:"+caps]++
		runCase(r, envCase(r, caps, genDSN(rng), from, rcpts))
		if i%40 == 0 {
			// random HELO names over printable ASCII, blanks and controls
			var b []byte
			for j := 0; j < 1+rng.Intn(12); j++ {
				switch rng.Intn(10) {
				case 0:
					b = append(b, " \t\x7f\x00\x1f"[rng.Intn(5)])
				default:
					b = append(b, byte(33+rng.Intn(94)))
				}
			}
			runCase(r, heloCase(r, string(b), rng.Intn(3) == 0))
		}
	}
}
