// Package bytex: message specs shared by the byte-core harnesses (C01 C02 C08 C11 C12).
// A MsgSpec builds a real mail.Msg through the public builder API and Describe() reads the
// Msg's observable state back into the textual spec the extracted Coq model parses
// (coq/extract/bytecore/driver.ml: parse_msg).
package bytex

import (
	"bytes"
	crand "crypto/rand"
	"errors"
	"fmt"
	"io"
	"io/fs"
	"mime"
	"os"
	"path/filepath"
	"regexp"
	"sort"
	"strings"
	"sync"
	"testing/fstest"
	"text/template"

	mail "github.com/wneessen/go-mail"
	"verif/harness/hx"
)

// Producer writes its chunks and then returns an error iff Fail.
type Producer struct {
	Chunks [][]byte
	Fail   bool
}

var ErrProducer = errors.New("verif: producer failed")

func (p Producer) Write(w io.Writer) (int64, error) {
	var n int64
	for _, c := range p.Chunks {
		k, err := w.Write(c)
		n += int64(k)
		if err != nil {
			return n, err
		}
	}
	if p.Fail {
		return n, ErrProducer
	}
	return n, nil
}

func (p Producer) Content() []byte { return bytes.Join(p.Chunks, nil) }

type PartSpec struct {
	CType   string
	Enc     string // "" = message default
	Charset string // "" = message default
	Desc    string
	Prod    Producer
	Src     string // builder entry point: "" = Set/AddAlternativeWriter, "str" = SetBodyString / AddAlternativeString, "set" = Part setters
}

type FileSpec struct {
	Name  string
	CType string // "" = derive from the extension
	Enc   string // "" = default (base64), "8bit", "base64"
	Desc  string
	CID   string // "" = synthesised
	Prod  Producer
	// Src selects the builder entry point the content goes through: "" = the harness' own Writer function,
	// "buf" = AttachReader/EmbedReader with a *bytes.Buffer that the caller reuses afterwards, "rs" = …ReadSeeker,
	// "file" = AttachFile/EmbedFile of a real file, "tpl" = …TextTemplate.  (Not with a failing producer.)
	Src string
	// PreCTE: a Content-Transfer-Encoding header the caller has put on the File (custom FileOption writing
	// File.Header): addFiles honours it — header and body encoding both follow it, whatever Enc says
	PreCTE string
}

type KV struct {
	K string
	V []string
}

type MsgSpec struct {
	WordB   bool   // EncodingB64 at message level (B word encoder)
	Enc     string // message-level encoding: quoted-printable (default), base64, 8bit, 7bit
	Gen     []KV   // generic headers (raw values)
	Pre     []KV   // preformatted headers (single value)
	From    string
	To      []string
	Cc      []string
	Bcc     []string
	ReplyTo string
	Parts   []PartSpec
	Embeds  []FileSpec
	Attach  []FileSpec
	// Boundary is a predefined boundary (WithBoundary); documented to work for messages with a single multipart only
	Boundary string
	// Middlewares are installed with WithMiddleware (they run at the start of every WriteTo)
	Middlewares []mail.Middleware
}

const FixedDate = "Tue, 01 Jan 2030 00:00:00 +0000"
const FixedMsgID = "<verif.0123456789abcdef@verif.test>"

// Build constructs the Msg through the public API.
func (s *MsgSpec) Build() (*mail.Msg, error) {
	var opts []mail.MsgOption
	enc := mail.Encoding(s.Enc)
	if s.Enc == "" {
		enc = mail.EncodingQP
	}
	opts = append(opts, mail.WithEncoding(enc))
	if s.Boundary != "" {
		opts = append(opts, mail.WithBoundary(s.Boundary))
	}
	for _, mw := range s.Middlewares {
		opts = append(opts, mail.WithMiddleware(mw))
	}
	m := mail.NewMsg(opts...)
	m.SetGenHeader(mail.HeaderDate, FixedDate)
	m.SetGenHeader(mail.HeaderMessageID, FixedMsgID)
	for _, kv := range s.Gen {
		m.SetGenHeader(mail.Header(kv.K), append([]string(nil), kv.V...)...)
	}
	for _, kv := range s.Pre {
		m.SetGenHeaderPreformatted(mail.Header(kv.K), kv.V[0])
	}
	if s.From != "" {
		if err := m.From(s.From); err != nil {
			return nil, err
		}
	}
	if len(s.To) > 0 {
		if err := m.To(s.To...); err != nil {
			return nil, err
		}
	}
	if len(s.Cc) > 0 {
		if err := m.Cc(s.Cc...); err != nil {
			return nil, err
		}
	}
	if len(s.Bcc) > 0 {
		if err := m.Bcc(s.Bcc...); err != nil {
			return nil, err
		}
	}
	if s.ReplyTo != "" {
		if err := m.ReplyTo(s.ReplyTo); err != nil {
			return nil, err
		}
	}
	for i, p := range s.Parts {
		var po []mail.PartOption
		if p.Enc != "" {
			po = append(po, mail.WithPartEncoding(mail.Encoding(p.Enc)))
		}
		if p.Charset != "" {
			po = append(po, mail.WithPartCharset(mail.Charset(p.Charset)))
		}
		if p.Desc != "" {
			po = append(po, mail.WithPartContentDescription(p.Desc))
		}
		if p.Src == "set" {
			// the part is created empty and filled through the Part setters
			if i == 0 {
				m.SetBodyString("text/x-placeholder", "placeholder")
			} else {
				m.AddAlternativeString("text/x-placeholder", "placeholder")
			}
			pp := m.GetParts()[len(m.GetParts())-1]
			pp.SetContentType(mail.ContentType(p.CType))
			pp.SetContent(string(p.Prod.Content()))
			if p.Enc != "" {
				pp.SetEncoding(mail.Encoding(p.Enc))
			}
			if p.Charset != "" {
				pp.SetCharset(mail.Charset(p.Charset))
			}
			if p.Desc != "" {
				pp.SetDescription(p.Desc)
			}
			continue
		}
		switch {
		case p.Src == "str" && i == 0:
			m.SetBodyString(mail.ContentType(p.CType), string(p.Prod.Content()), po...)
		case p.Src == "str":
			m.AddAlternativeString(mail.ContentType(p.CType), string(p.Prod.Content()), po...)
		case i == 0:
			m.SetBodyWriter(mail.ContentType(p.CType), p.Prod.Write, po...)
		default:
			m.AddAlternativeWriter(mail.ContentType(p.CType), p.Prod.Write, po...)
		}
	}
	addFile := func(f FileSpec, embed bool) error {
		var fo []mail.FileOption
		if f.CType != "" {
			fo = append(fo, mail.WithFileContentType(mail.ContentType(f.CType)))
		}
		if f.Enc != "" {
			fo = append(fo, mail.WithFileEncoding(mail.Encoding(f.Enc)))
		}
		if f.Desc != "" {
			fo = append(fo, mail.WithFileDescription(f.Desc))
		}
		if f.CID != "" {
			fo = append(fo, mail.WithFileContentID(f.CID))
		}
		if f.PreCTE != "" {
			pre := f.PreCTE
			fo = append(fo, func(fl *mail.File) { fl.Header.Set("Content-Transfer-Encoding", pre) })
		}
		var err error
		content := f.Prod.Content()
		switch f.Src {
		case "buf":
			// the caller's buffer is reused for something else after the call (as in a loop that fills one
			// buffer per file): the Msg must have taken its own copy
			buf := bytes.NewBuffer(append(make([]byte, 0, len(content)+64), content...))
			if embed {
				err = m.EmbedReader(f.Name, buf, fo...)
			} else {
				err = m.AttachReader(f.Name, buf, fo...)
			}
			buf.Reset()
			buf.Write(bytes.Repeat([]byte{'#'}, len(content)+32))
			return err
		case "rs":
			if embed {
				m.EmbedReadSeeker(f.Name, bytes.NewReader(content), fo...)
			} else {
				m.AttachReadSeeker(f.Name, bytes.NewReader(content), fo...)
			}
			return nil
		case "file":
			path, ferr := tempFile(content)
			if ferr != nil {
				return ferr
			}
			fo = append(fo, mail.WithFileName(f.Name))
			if embed {
				m.EmbedFile(path, fo...)
			} else {
				m.AttachFile(path, fo...)
			}
			return nil
		case "iofs":
			fsys := fstest.MapFS{"dir/data.bin": &fstest.MapFile{Data: append([]byte(nil), content...)}}
			fo = append(fo, mail.WithFileName(f.Name))
			if embed {
				return m.EmbedFromIOFS("dir/data.bin", fsys, fo...)
			}
			return m.AttachFromIOFS("dir/data.bin", fsys, fo...)
		case "iofsgone", "filegone":
			// the source can be opened when the file is attached and is gone when the message is rendered
			// (the producer of the spec must be {no data, Fail}: that is what the model renders)
			if f.Src == "filegone" {
				path, ferr := tempFile(content)
				if ferr != nil {
					return ferr
				}
				fo = append(fo, mail.WithFileName(f.Name))
				if embed {
					m.EmbedFile(path, fo...)
				} else {
					m.AttachFile(path, fo...)
				}
				return os.Remove(path)
			}
			fsys := &vanishingFS{inner: fstest.MapFS{"dir/data.bin": &fstest.MapFile{Data: []byte("was here")}}, opensLeft: 1}
			fo = append(fo, mail.WithFileName(f.Name))
			if embed {
				return m.EmbedFromIOFS("dir/data.bin", fsys, fo...)
			}
			return m.AttachFromIOFS("dir/data.bin", fsys, fo...)
		case "tpl":
			if embed {
				return m.EmbedTextTemplate(f.Name, verbatimTpl, string(content), fo...)
			}
			return m.AttachTextTemplate(f.Name, verbatimTpl, string(content), fo...)
		}
		if embed {
			err = m.EmbedReader(f.Name, bytes.NewReader(nil), fo...)
		} else {
			err = m.AttachReader(f.Name, bytes.NewReader(nil), fo...)
		}
		if err != nil {
			return err
		}
		var fl []*mail.File
		if embed {
			fl = m.GetEmbeds()
		} else {
			fl = m.GetAttachments()
		}
		fl[len(fl)-1].Writer = f.Prod.Write
		return nil
	}
	for _, f := range s.Embeds {
		if err := addFile(f, true); err != nil {
			return nil, err
		}
	}
	for _, f := range s.Attach {
		if err := addFile(f, false); err != nil {
			return nil, err
		}
	}
	return m, nil
}

// vanishingFS lets a file be opened opensLeft times; afterwards Open fails as if the file had been deleted.
type vanishingFS struct {
	inner     fstest.MapFS
	opensLeft int
}

func (v *vanishingFS) Open(name string) (fs.File, error) {
	if v.opensLeft <= 0 {
		return nil, &fs.PathError{Op: "open", Path: name, Err: fs.ErrNotExist}
	}
	v.opensLeft--
	return v.inner.Open(name)
}

var verbatimTpl = template.Must(template.New("verbatim").Parse("{{.}}"))

var (
	tmpMu  sync.Mutex
	tmpDir string
	tmpSeq int
)

// tempFile stores content in a file of a per-process scratch directory (removed by CleanTemp).
func tempFile(content []byte) (string, error) {
	tmpMu.Lock()
	defer tmpMu.Unlock()
	if tmpDir == "" {
		d, err := os.MkdirTemp("", "verif-bytex-")
		if err != nil {
			return "", err
		}
		tmpDir = d
	}
	tmpSeq++
	p := filepath.Join(tmpDir, fmt.Sprintf("f%d.dat", tmpSeq))
	return p, os.WriteFile(p, content, 0o600)
}

// CleanTemp removes the scratch directory of tempFile.
func CleanTemp() {
	tmpMu.Lock()
	defer tmpMu.Unlock()
	if tmpDir != "" {
		_ = os.RemoveAll(tmpDir)
		tmpDir = ""
	}
}

// FooterMiddleware appends a footer line to every text body part that does not end with it yet (idempotent, in
// place): what a disclaimer / tracking middleware does.
type FooterMiddleware struct{}

const Footer = "-- \r\nsent through the footer middleware\r\n"

func (FooterMiddleware) Handle(m *mail.Msg) *mail.Msg {
	for _, p := range m.GetParts() {
		if !strings.HasPrefix(string(p.GetContentType()), "text/") {
			continue
		}
		c, err := p.GetContent()
		if err != nil || bytes.HasSuffix(c, []byte(Footer)) {
			continue
		}
		p.SetContent(string(c) + Footer)
	}
	return m
}

func (FooterMiddleware) Type() mail.MiddlewareType { return "verif-footer" }

func h(s string) string { return hx.Hex([]byte(s)) }

func hl(l []string) string {
	b := make([][]byte, len(l))
	for i, s := range l {
		b[i] = []byte(s)
	}
	return hx.HexList(b)
}

// MimeOf reproduces the oracle part of addFiles' media type derivation.
func MimeOf(f *mail.File) string {
	mt := mime.TypeByExtension(filepath.Ext(f.Name))
	if mt == "" {
		mt = "application/octet-stream"
	}
	if f.ContentType != "" {
		mt = string(f.ContentType)
	}
	return mt
}

var boundaryRe = regexp.MustCompile(`multipart/(mixed|related|alternative);\r\n boundary=([^\r\n]+)`)

// Boundaries extracts the boundaries a full render used (what the Msg caches afterwards).
func Boundaries(out []byte) (mixed, related, alt string) {
	for _, m := range boundaryRe.FindAllSubmatch(out, -1) {
		switch string(m[1]) {
		case "mixed":
			mixed = string(m[2])
		case "related":
			related = string(m[2])
		case "alternative":
			alt = string(m[2])
		}
	}
	return
}

// Describe renders the observable state of m (built from s) as the model's message spec.
// cached: boundaries the Msg has cached (empty strings when fresh); rb: the boundaries
// multipart.NewWriter will draw, in order (placeholders of the right length when unknown).
func Describe(m *mail.Msg, s *MsgSpec, cached [3]string, rb []string) string {
	var it []string
	if s.WordB || s.Enc == "base64" {
		it = append(it, "Wb")
	} else {
		it = append(it, "Wq")
	}
	it = append(it, "C"+h("UTF-8"))
	keys := []string{"Date", "Message-ID"}
	for _, kv := range s.Gen {
		keys = append(keys, kv.K)
	}
	// keys the library itself may have added on an earlier render
	for _, k := range []string{"MIME-Version", "User-Agent", "X-Mailer"} {
		keys = append(keys, k)
	}
	seen := map[string]bool{}
	for _, k := range keys {
		if seen[k] {
			continue
		}
		seen[k] = true
		v := m.GetGenHeader(mail.Header(k))
		if v == nil {
			continue
		}
		it = append(it, "G"+h(k)+"="+hl(v))
	}
	for _, kv := range s.Pre {
		it = append(it, "R"+h(kv.K)+"="+h(kv.V[0]))
	}
	if f := m.GetFrom(); len(f) > 0 {
		it = append(it, "F"+h(f[0].String()))
	}
	for _, ah := range []mail.AddrHeader{mail.HeaderTo, mail.HeaderCc, mail.HeaderReplyTo} {
		a := m.GetAddrHeader(ah)
		if a == nil {
			continue
		}
		var l []string
		for _, x := range a {
			l = append(l, x.String())
		}
		it = append(it, "A"+h(string(ah))+"="+hl(l))
	}
	parts := m.GetParts()
	i := 0
	for _, p := range parts {
		if strings.HasPrefix(string(p.GetContentType()), "application/pkcs7-signature") || i >= len(s.Parts) {
			continue // the S/MIME signature part of an earlier render (signMessage drops it first)
		}
		ps := s.Parts[i]
		i++
		it = append(it, fmt.Sprintf("P%s:%s:%s:%s:%s:%s", h(string(p.GetContentType())), string(p.GetEncoding()),
			h(string(p.GetCharset())), h(p.GetDescription()), hx.HexList(ps.Prod.Chunks), b01(ps.Prod.Fail)))
	}
	file := func(tag string, f *mail.File, fs FileSpec) {
		enc := "-"
		if f.Enc != "" {
			enc = string(f.Enc)
		}
		var kv []string
		hk := make([]string, 0, len(f.Header))
		for k := range f.Header {
			hk = append(hk, k)
		}
		sort.Strings(hk)
		for _, k := range hk {
			kv = append(kv, h(k)+"="+h(f.Header.Get(k)))
		}
		hd := "-"
		if len(kv) > 0 {
			hd = strings.Join(kv, "&")
		}
		it = append(it, fmt.Sprintf("%s%s:%s:%s:%s:%s:%s:%s", tag, h(f.Name), h(MimeOf(f)), enc, h(f.Desc), hd,
			hx.HexList(fs.Prod.Chunks), b01(fs.Prod.Fail)))
	}
	for i, f := range m.GetEmbeds() {
		file("E", f, s.Embeds[i])
	}
	for i, f := range m.GetAttachments() {
		file("T", f, s.Attach[i])
	}
	if b := m.GetBoundary(); b != "" {
		// a predefined boundary takes precedence over the per-type cache for every multipart (getMultipartBoundary)
		cached = [3]string{b, b, b}
	}
	it = append(it, "B"+h(cached[0])+","+h(cached[1])+","+h(cached[2]))
	it = append(it, "N"+hl(rb))
	return strings.Join(it, ";")
}

func b01(b bool) string {
	if b {
		return "1"
	}
	return "0"
}

// Sink is the fault-injecting destination: accepts K bytes in total; the Write that does not
// fit accepts what fits and returns an error; afterwards every call fails (or, if Recover,
// everything is accepted again).
type Sink struct {
	K        int // < 0: unlimited
	Recover  bool
	Failed   bool
	Accepted []byte
	Calls    int
}

var ErrSink = errors.New("verif: sink failed")

func (s *Sink) Write(p []byte) (int, error) {
	s.Calls++
	if s.Failed && !s.Recover {
		return 0, ErrSink
	}
	if s.K < 0 {
		s.Accepted = append(s.Accepted, p...)
		return len(p), nil
	}
	if len(p) <= s.K {
		s.K -= len(p)
		s.Accepted = append(s.Accepted, p...)
		return len(p), nil
	}
	n := s.K
	s.Accepted = append(s.Accepted, p[:n]...)
	s.Failed = true
	if s.Recover {
		s.K = -1
	} else {
		s.K = 0
	}
	return n, ErrSink
}

func (s *Sink) String() string {
	if s.K < 0 && !s.Failed {
		return "inf"
	}
	if s.Recover {
		return fmt.Sprintf("r%d", s.K)
	}
	return fmt.Sprintf("k%d", s.K)
}

// detRand replaces crypto/rand.Reader so that the boundaries multipart.NewWriter draws are
// reproducible: the i-th Read call (i = 1, 2, …) fills its buffer with the byte i.
type detRand struct{ ctr byte }

func (d *detRand) Read(p []byte) (int, error) {
	for i := range p {
		p[i] = d.ctr
	}
	d.ctr++
	return len(p), nil
}

var det = &detRand{ctr: 1}

// ResetRand installs the deterministic randomness source and rewinds it.
func ResetRand() {
	det.ctr = 1
	crand.Reader = det
}

// RandDraws is the number of draws made since ResetRand.
func RandDraws() int { return int(det.ctr) - 1 }

// DrawnBoundaries lists the boundaries the draws from+1 … from+n produce.
func DrawnBoundaries(from, n int) []string {
	out := make([]string, n)
	for i := range out {
		out[i] = strings.Repeat(fmt.Sprintf("%02x", byte(from+i+1)), 30)
	}
	return out
}

// SafeWriteTo renders and converts a panic into a value.
func SafeWriteTo(m *mail.Msg, w io.Writer) (n int64, err error, panicked interface{}) {
	defer func() {
		if p := recover(); p != nil {
			panicked = p
		}
	}()
	n, err = m.WriteTo(w)
	return
}
