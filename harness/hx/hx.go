// Package hx holds the glue shared by all property harnesses: case files, hex encoding,
// the single PRNG, statistics and oracle-failure records.
package hx

import (
	"bufio"
	"crypto/sha256"
	"encoding/hex"
	"encoding/json"
	"fmt"
	"math/rand"
	"os"
	"path/filepath"
	"sort"
	"strings"
	"time"
)

// Registry maps a property id to its harness entry point.
var Registry = map[string]func(r *Run, replay []Case){}

// Register is called from the init() of each property package.
func Register(prop string, f func(r *Run, replay []Case)) { Registry[prop] = f }

// Hex encodes a byte string in the case-file format ("~" = empty).
func Hex(b []byte) string {
	if len(b) == 0 {
		return "~"
	}
	return hex.EncodeToString(b)
}

// UnHex decodes the case-file format.
func UnHex(s string) []byte {
	if s == "~" || s == "" {
		return nil
	}
	b, err := hex.DecodeString(s)
	if err != nil {
		panic("bad hex in case file: " + s)
	}
	return b
}

// HexList encodes a list of byte strings ("-" = empty list).
func HexList(l [][]byte) string {
	if len(l) == 0 {
		return "-"
	}
	parts := make([]string, len(l))
	for i, b := range l {
		parts[i] = Hex(b)
	}
	return strings.Join(parts, ",")
}

// UnHexList decodes HexList.
func UnHexList(s string) [][]byte {
	if s == "-" {
		return nil
	}
	parts := strings.Split(s, ",")
	out := make([][]byte, len(parts))
	for i, p := range parts {
		out[i] = UnHex(p)
	}
	return out
}

// Case is one line of a case file: id, kind and arguments.
type Case struct {
	ID   string
	Kind string
	Args []string
}

func (c Case) Line() string {
	return strings.TrimRight(c.ID+" "+c.Kind+" "+strings.Join(c.Args, " "), " ")
}

// ParseCase parses a case line.
func ParseCase(line string) (Case, bool) {
	line = strings.TrimSpace(line)
	if line == "" || line[0] == '#' {
		return Case{}, false
	}
	t := strings.Split(line, " ")
	if len(t) < 2 {
		return Case{}, false
	}
	return Case{ID: t[0], Kind: t[1], Args: t[2:]}, true
}

// ReadCases reads a case (or replay) file; lines starting with '#' are comments.
func ReadCases(path string) ([]Case, error) {
	f, err := os.Open(path)
	if err != nil {
		return nil, err
	}
	defer f.Close()
	var out []Case
	sc := bufio.NewScanner(f)
	sc.Buffer(make([]byte, 1<<20), 1<<28)
	for sc.Scan() {
		if c, ok := ParseCase(sc.Text()); ok {
			out = append(out, c)
		}
	}
	return out, sc.Err()
}

// Failure is an oracle failure on the implementation's output.
type Failure struct {
	ID     string `json:"id"`
	Class  string `json:"class"`  // stable class name; known findings are matched on it
	Detail string `json:"detail"` // human readable
}

// Run collects everything one harness run produces.
type Run struct {
	Prop     string
	Tier     string
	Seed     int64
	Dir      string
	Rng      *rand.Rand
	Cases    []Case
	Oracle   []Case
	Impl     []string // "<id> <observable>" lines, same format as the model driver's output
	Failures []Failure
	Dist     map[string]int // input distribution counters
	Notes    map[string]interface{}
	Deadline time.Time // zero = none; generators poll Expired()
	nontriv  map[string]bool
	seq      int
}

func NewRun(prop, tier string, seed int64, dir string) *Run {
	return &Run{Prop: prop, Tier: tier, Seed: seed, Dir: dir, Rng: rand.New(rand.NewSource(seed)),
		Dist: map[string]int{}, Notes: map[string]interface{}{}, nontriv: map[string]bool{}}
}

// Expired tells generators to stop (search time box).
func (r *Run) Expired() bool {
	return !r.Deadline.IsZero() && time.Now().After(r.Deadline)
}

// NewID returns the next case id.
func (r *Run) NewID() string {
	r.seq++
	return fmt.Sprintf("%s-%d-%d", r.Prop, r.Seed, r.seq)
}

// Add registers a case with the implementation's observable; nontrivial says whether the
// case counts as non-trivial by the property's stated rule.
func (r *Run) Add(c Case, observable string, nontrivial bool) {
	r.Cases = append(r.Cases, c)
	r.Impl = append(r.Impl, c.ID+" "+observable)
	r.Dist["kind:"+c.Kind]++
	if nontrivial {
		h := sha256.Sum256([]byte(c.Kind + " " + strings.Join(c.Args, " ")))
		r.nontriv[string(h[:8])] = true
	}
}

// AddOracleOnly registers a case that only the direct oracle looks at (no model observable).
func (r *Run) AddOracleOnly(c Case, nontrivial bool) {
	r.Dist["kind:"+c.Kind]++
	r.Dist["oracle-only"]++
	r.Oracle = append(r.Oracle, c)
	if nontrivial {
		h := sha256.Sum256([]byte(c.Kind + " " + strings.Join(c.Args, " ")))
		r.nontriv[string(h[:8])] = true
	}
}

func (r *Run) Fail(id, class, detail string) {
	r.Failures = append(r.Failures, Failure{ID: id, Class: class, Detail: detail})
}

// Write stores cases.txt, impl.txt, oracle.json and stats.json in r.Dir.
func (r *Run) Write() error {
	if err := os.MkdirAll(r.Dir, 0o755); err != nil {
		return err
	}
	var cb, ib, ob strings.Builder
	for _, c := range r.Cases {
		cb.WriteString(c.Line())
		cb.WriteByte('\n')
	}
	for _, l := range r.Impl {
		ib.WriteString(l)
		ib.WriteByte('\n')
	}
	for _, c := range r.Oracle {
		ob.WriteString(c.Line())
		ob.WriteByte('\n')
	}
	if err := os.WriteFile(filepath.Join(r.Dir, "cases.txt"), []byte(cb.String()), 0o644); err != nil {
		return err
	}
	if err := os.WriteFile(filepath.Join(r.Dir, "impl.txt"), []byte(ib.String()), 0o644); err != nil {
		return err
	}
	if err := os.WriteFile(filepath.Join(r.Dir, "oracle_cases.txt"), []byte(ob.String()), 0o644); err != nil {
		return err
	}
	fj, _ := json.MarshalIndent(r.Failures, "", " ")
	if r.Failures == nil {
		fj = []byte("[]")
	}
	if err := os.WriteFile(filepath.Join(r.Dir, "failures.json"), fj, 0o644); err != nil {
		return err
	}
	keys := make([]string, 0, len(r.Dist))
	for k := range r.Dist {
		keys = append(keys, k)
	}
	sort.Strings(keys)
	samples := []string{}
	step := len(r.Cases)/5 + 1
	for i := 0; i < len(r.Cases); i += step {
		l := r.Cases[i].Line()
		if len(l) > 300 {
			l = l[:300] + "..."
		}
		samples = append(samples, l)
	}
	for i := 0; i < len(r.Oracle) && len(samples) < 8; i += len(r.Oracle)/3 + 1 {
		l := r.Oracle[i].Line()
		if len(l) > 300 {
			l = l[:300] + "..."
		}
		samples = append(samples, l)
	}
	stats := map[string]interface{}{
		"evaluations":         len(r.Cases) + len(r.Oracle),
		"model_compared":      len(r.Cases),
		"distinct_nontrivial": len(r.nontriv),
		"distribution":        r.Dist,
		"samples":             samples,
		"notes":               r.Notes,
		"oracle_failures":     len(r.Failures),
	}
	sj, _ := json.MarshalIndent(stats, "", " ")
	return os.WriteFile(filepath.Join(r.Dir, "stats.json"), sj, 0o644)
}
