// Package addrx: shared pieces of the C05 / C06 harnesses.
//
//   - a generator of mailboxes (semantic local part + domain) and of RFC 5322 address strings that
//     denote them (dot-atom / quoted-string local parts, display names as atoms, quoted strings,
//     RFC 2047 encoded words, raw UTF-8);
//   - an independent reader of RFC 5322 address strings (IntendedMailbox) — not net/mail;
//   - a strict RFC 5321 section 4.1.2 parser of MAIL FROM / RCPT TO lines (ParsePathLine), with the
//     RFC 6531 extension when SMTPUTF8 is in force — written from the RFC, used as the direct oracle
//     at the reference server;
//   - the oracle tables (net/mail.ParseAddress, Address.String, mime.QEncoding.Encode) closed under
//     every query the Coq model can make, and the validation of the hypotheses H-addr.
package addrx

import (
	"errors"
	"fmt"
	"math/rand"
	"mime"
	"net/mail"
	"sort"
	"strings"
	"unicode/utf8"

	"verif/harness/hx"
)

// Mailbox is the meaning of an address: local part (unquoted) and domain.
type Mailbox struct{ Local, Domain string }

func (m Mailbox) String() string { return m.Local + "@" + m.Domain }

const atextSpecials = "!#$%&'*+-/=?^_`{|}~"

func isAlnum(c byte) bool {
	return c >= 'a' && c <= 'z' || c >= 'A' && c <= 'Z' || c >= '0' && c <= '9'
}

// IsAtext: RFC 5322 atext, with UTF-8 non-ASCII bytes when u8.
func IsAtext(c byte, u8 bool) bool {
	return isAlnum(c) || strings.IndexByte(atextSpecials, c) >= 0 || (u8 && c >= 0x80)
}

// IsDotAtom reports whether s is a dot-atom (atoms separated by single dots).
func IsDotAtom(s string, u8 bool) bool {
	if s == "" {
		return false
	}
	for _, a := range strings.Split(s, ".") {
		if a == "" {
			return false
		}
		for i := 0; i < len(a); i++ {
			if !IsAtext(a[i], u8) {
				return false
			}
		}
	}
	return true
}

// ---------------------------------------------------------------- generator

var plainLocals = []string{"Alice", "BOB", "McDonald.Ian", "alice", "bob", "carol.smith", "dave+tag", "e", "first.last", "user_1", "x-y", "a1", "mailer-daemon"}
var specialAtoms = []string{"o'brien", "a!b", "c#d", "e$f%g", "h&i", "j*k", "l/m", "n=o?p", "q^r", "s`t", "{u}", "v|w", "~x"}
var quoteChars = []string{" ", "<", ">", "@", ",", ";", ":", "\\", "\"", "(", ")", "[", "]"}
var utf8Bits = []string{"ü", "é", "ß", "ж", "日本", "λ", "ñ", "𝒳"}
var domains = []string{"Example.COM", "MAIL.Example.Org", "x.test", "example.org", "mail.example.com", "sub-1.a.test", "d.test", "h0st.example.net", "y.test", "z9.test"}
var utf8Domains = []string{"bücher.example", "例え.test", "müller.x.test"}
var literalDomains = []string{"[192.0.2.7]", "[10.1.2.3]"}

func pick(r *rand.Rand, l []string) string { return l[r.Intn(len(l))] }

// LocalKind names the generator class of a local part (input distribution).
type LocalKind int

const (
	LPlain LocalKind = iota
	LSpecialAtom
	LQuoteAscii // needs quoting: blanks, specials, leading/trailing/double dots
	LUTF8Atom
	LUTF8Quote
	LTab               // contains a TAB: cannot be represented in RFC 5321
	LUTF8NonPrintQuote // needs quoting AND holds valid UTF-8 that strconv.IsPrint rejects (U+00A0, U+200B, U+00AD, U+2028 ...)
	LUTF8NonPrintAtom  // a dot-atom holding such runes
	nLocalKinds
)

var LocalKindNames = []string{"plain", "special-atom", "needs-quote", "utf8-atom", "utf8-needs-quote", "tab", "utf8-nonprint-needs-quote", "utf8-nonprint-atom"}

// NonPrintRunes: valid UTF-8 that unicode.IsPrint / strconv.IsPrint reject — no-break space, zero width
// space, soft hyphen, line / paragraph separator, BOM, C1 control, private use, unassigned, noncharacter,
// last code point.  net/mail accepts all of them in atoms and quoted strings (RFC 6532); an escaping
// routine written for Go source (strconv.Quote, %q) rewrites them into ASCII escapes.
var NonPrintRunes = []string{"\u00a0", "\u200b", "\u00ad", "\u2028", "\u2029", "\ufeff", "\u0085", "\ue000", "\u0378", "\ufffe", "\U0010ffff", "\u061c", "\u3000"}

func GenLocal(r *rand.Rand, k LocalKind) string {
	switch k {
	case LPlain:
		return pick(r, plainLocals)
	case LSpecialAtom:
		s := pick(r, specialAtoms)
		if r.Intn(3) == 0 {
			s += "." + pick(r, specialAtoms)
		}
		return s
	case LQuoteAscii:
		switch r.Intn(6) {
		case 0:
			return "." + pick(r, plainLocals)
		case 1:
			return pick(r, plainLocals) + "."
		case 2:
			return "a.." + pick(r, plainLocals)
		}
		n := 1 + r.Intn(3)
		s := ""
		for i := 0; i < n; i++ {
			if r.Intn(2) == 0 {
				s += pick(r, plainLocals)
			}
			s += pick(r, quoteChars)
		}
		if r.Intn(2) == 0 {
			s += pick(r, plainLocals)
		}
		return s
	case LUTF8Atom:
		return pick(r, utf8Bits) + pick(r, plainLocals)
	case LUTF8Quote:
		return pick(r, utf8Bits) + pick(r, quoteChars) + pick(r, plainLocals) + pick(r, utf8Bits)
	case LTab:
		return pick(r, plainLocals) + "\t" + pick(r, plainLocals)
	case LUTF8NonPrintQuote:
		s := pick(r, plainLocals) + pick(r, NonPrintRunes) + pick(r, plainLocals) + pick(r, quoteChars) + pick(r, plainLocals)
		if r.Intn(3) == 0 {
			s = pick(r, quoteChars) + pick(r, NonPrintRunes) + s
		}
		return s
	case LUTF8NonPrintAtom:
		return pick(r, plainLocals) + pick(r, NonPrintRunes) + pick(r, plainLocals)
	}
	return "x"
}

// GenMailbox draws a mailbox; allowUTF8 admits non-ASCII local parts and domains.
func GenMailbox(r *rand.Rand, allowUTF8 bool) (Mailbox, LocalKind) {
	var k LocalKind
	switch x := r.Intn(23); {
	case x >= 20 && x < 22:
		k = LUTF8NonPrintQuote
	case x == 22:
		k = LUTF8NonPrintAtom
	case x < 6:
		k = LPlain
	case x < 9:
		k = LSpecialAtom
	case x < 15:
		k = LQuoteAscii
	case x < 17:
		k = LUTF8Atom
	case x < 19:
		k = LUTF8Quote
	default:
		k = LTab
	}
	if !allowUTF8 && (k == LUTF8Atom || k == LUTF8Quote || k == LUTF8NonPrintQuote || k == LUTF8NonPrintAtom) {
		k = LQuoteAscii
	}
	d := pick(r, domains)
	switch x := r.Intn(12); {
	case x == 0:
		d = pick(r, literalDomains)
	case x == 1 && allowUTF8:
		d = pick(r, utf8Domains)
	}
	return Mailbox{GenLocal(r, k), d}, k
}

// QuoteNeedLocals: local parts that are not a dot-atom, one per reason (leading / trailing blank, TAB, dots,
// every special).  Stored unquoted in mail.Address.Address; whoever re-serialises an address without
// Address.String() changes or breaks them.
var QuoteNeedLocals = []string{" admin", "admin ", "\tadmin", "a..b", ".a", "a.", "a(b", "a)b", "a,b", "a:b", "a;b", "a<b", "a>b", "a@b",
	"a[b", "a]b", "a\\b", "a\"b", "two words", " ", "Jane@HQ", "a@B", "Ann@X@Yz", "@TOP", "Mixed Case@Part"}

// SameMailbox: the local part byte for byte (it is case-sensitive, RFC 5321 section 2.4), the domain compared
// without regard to ASCII letter case (domain names are case-insensitive).
func SameMailbox(a, b Mailbox) bool {
	return a.Local == b.Local && strings.EqualFold(a.Domain, b.Domain)
}

// CaseVariants: the same address spelled with different letter case — different mailboxes as far as the local
// part goes; each must reach the server in its own spelling.
func CaseVariants(local, domain string) []string {
	return []string{local + "@" + domain, strings.ToLower(local) + "@" + strings.ToLower(domain), strings.ToUpper(local) + "@" + strings.ToUpper(domain)}
}

// BareAddrSpec writes mb WITHOUT display name (addr-spec, or addr-spec in angle brackets), the local part as
// quoted-string where needed.
func BareAddrSpec(r *rand.Rand, mb Mailbox) string {
	spec := RenderLocal(r, mb.Local) + "@" + mb.Domain
	if r.Intn(2) == 0 {
		return "<" + spec + ">"
	}
	return spec
}

// RenderLocal writes a local part in RFC 5322 syntax (dot-atom where possible unless forced).
func RenderLocal(r *rand.Rand, local string) string {
	if IsDotAtom(local, true) && r.Intn(5) != 0 {
		return local
	}
	var b strings.Builder
	b.WriteByte('"')
	for _, c := range local {
		switch {
		case c == '"' || c == '\\':
			b.WriteByte('\\')
			b.WriteRune(c)
		case c > ' ' && c < 0x7f && r.Intn(12) == 0: // gratuitous quoted-pair
			b.WriteByte('\\')
			b.WriteRune(c)
		default:
			b.WriteRune(c)
		}
	}
	b.WriteByte('"')
	return b.String()
}

// NameKind names the generator class of a display name.
var NameKindNames = []string{"none", "none-angle", "atoms", "quoted", "quoted-specials", "encoded-word", "raw-utf8", "quoted-utf8", "quoted-hard", "encoded-word-hard"}

// HardNames: display names a re-serialisation that is not Address.String() gets wrong: TAB, no-break
// space, ZWNJ / ZWJ, soft hyphen, LRM / RLM, line separator (Go's %q / strconv.Quote turn them into
// \t, \u00a0 ... which an RFC 5322 reader takes for quoted-pairs), together with quotes, backslashes,
// commas and parentheses.
var HardNames = []string{"Jean\tLuc", "Jean\u00a0Luc", "zw\u200cnj Name", "zw\u200dj Name", "soft\u00adhyphen", "lrm\u200e Name", "Name\u200frlm",
	"line\u2028sep", "Tab\there, \"Q\" (x) \\ y", "N\u00a0B, \"q\" (p)\\", "a\u200db\u00adc\u200ed", "(paren\u00a0) \\n",
	"\u00e9\\x"}

var asciiNames = []string{"John Doe", "Alice", "Bob B. Builder", "X Y Z", "Support Team"}
var specialNames = []string{"Doe, John", "Sales <EMEA>", "a@b", "semi;colon: x", "back\\slash", "say \"hi\"", "(paren)", "dot. dot"}
var utf8Names = []string{"Jürgen Müller", "Zoë", "日本 太郎", "Ærøskøbing Å", "Łukasz, Ż."}

// RenderAddress writes an RFC 5322 address for mb with a display name of a random class and
// returns the string and the display name it carries.
func RenderAddress(r *rand.Rand, mb Mailbox) (string, string, int) {
	spec := RenderLocal(r, mb.Local) + "@" + mb.Domain
	k := r.Intn(len(NameKindNames))
	switch k {
	case 0:
		return spec, "", k
	case 1:
		return "<" + spec + ">", "", k
	case 2:
		n := pick(r, asciiNames)
		return strings.ReplaceAll(n, ".", "") + " <" + spec + ">", strings.ReplaceAll(n, ".", ""), k
	case 3:
		n := pick(r, asciiNames)
		return "\"" + n + "\" <" + spec + ">", n, k
	case 4:
		n := pick(r, specialNames)
		q := strings.ReplaceAll(strings.ReplaceAll(n, "\\", "\\\\"), "\"", "\\\"")
		return "\"" + q + "\" <" + spec + ">", n, k
	case 5:
		n := pick(r, utf8Names)
		if r.Intn(2) == 0 {
			return mime.BEncoding.Encode("utf-8", n) + " <" + spec + ">", n, k
		}
		return mime.QEncoding.Encode("utf-8", n) + " <" + spec + ">", n, k
	case 6:
		n := strings.ReplaceAll(strings.ReplaceAll(pick(r, utf8Names), ",", ""), ".", "")
		return n + " <" + spec + ">", n, k
	case 7:
		n := pick(r, utf8Names)
		return "\"" + n + "\" <" + spec + ">", n, k
	case 8:
		n := pick(r, HardNames)
		return QuoteName(n) + " <" + spec + ">", n, k
	default:
		n := pick(r, HardNames)
		// a Q encoded-word must not hold raw specials (RFC 2047 section 5 (3)), and mime.QEncoding leaves pure ASCII alone
		if r.Intn(2) == 0 || strings.ContainsAny(n, "\"\\(),") || !QBackslashNameNeedsEncoding(n) {
			return mime.BEncoding.Encode("utf-8", n) + " <" + spec + ">", n, k
		}
		return mime.QEncoding.Encode("utf-8", n) + " <" + spec + ">", n, k
	}
}

// QBackslashName: the display names net/mail.Address.String (go1.23) writes as a Q encoded-word with a raw
// backslash inside, which ParseAddress rejects: the name needs encoding (a rune outside SP..~ / TAB), holds a
// backslash, and none of the characters that make String choose the B encoding.
func QBackslashName(n string) bool {
	needs := false
	for i := 0; i < len(n); i++ {
		if b := n[i]; !(b >= 32 && b <= 126 || b == 9) {
			needs = true
		}
	}
	return needs && strings.Contains(n, "\\") && !strings.ContainsAny(n, "\"#$%&'(),.:;<>@[]^`{|}~")
}

// QBackslashNameNeedsEncoding: the name has a byte outside SP..~ / TAB.
func QBackslashNameNeedsEncoding(n string) bool {
	for i := 0; i < len(n); i++ {
		if b := n[i]; !(b >= 32 && b <= 126 || b == 9) {
			return true
		}
	}
	return false
}

// QBackslashNames: members of that class for the generators.
var QBackslashNames = []string{"\u00e9\\x", "J\u00fcrgen \\ M", "\\\\\u00fc", "tab\t\u00e4 \\n"}

// QuoteName writes a display name as an RFC 5322 quoted-string (only '"' and '\\' are escaped).
func QuoteName(n string) string {
	return "\"" + strings.ReplaceAll(strings.ReplaceAll(n, "\\", "\\\\"), "\"", "\\\"") + "\""
}

// IntendedName reads the display name of "[display-name] <addr-spec>" / a bare addr-spec
// independently of net/mail (RFC 5322 3.2.4 quoted-string, 3.2.3 atoms, RFC 2047 encoded words via
// mime.WordDecoder).  ok=false whenever the form is not one of: nothing, ONE quoted-string, or words that
// are all plain atoms / all encoded words, single blanks in between.
func IntendedName(s string) (string, bool) {
	s = strings.TrimSpace(s)
	if !strings.HasSuffix(s, ">") {
		return "", true
	}
	inq, esc, at := false, false, -1
	for i := 0; i < len(s); i++ {
		c := s[i]
		switch {
		case esc:
			esc = false
		case inq && c == '\\':
			esc = true
		case c == '"':
			inq = !inq
		case !inq && c == '<':
			at = i
		}
	}
	if at < 0 {
		return "", false
	}
	ph := strings.TrimSpace(s[:at])
	if ph == "" {
		return "", true
	}
	if ph[0] == '"' {
		var b strings.Builder
		i := 1
		for i < len(ph) {
			c := ph[i]
			if c == '\\' {
				if i+1 >= len(ph) {
					return "", false
				}
				b.WriteByte(ph[i+1])
				i += 2
				continue
			}
			if c == '"' {
				if i != len(ph)-1 {
					return "", false
				}
				return b.String(), true
			}
			b.WriteByte(c)
			i++
		}
		return "", false
	}
	words := strings.Split(ph, " ")
	enc, plain := 0, 0
	var out []string
	dec := new(mime.WordDecoder)
	for _, w := range words {
		if w == "" {
			return "", false
		}
		if strings.HasPrefix(w, "=?") && strings.HasSuffix(w, "?=") {
			d, err := dec.Decode(w)
			if err != nil {
				return "", false
			}
			out = append(out, d)
			enc++
			continue
		}
		for i := 0; i < len(w); i++ {
			if !IsAtext(w[i], true) {
				return "", false
			}
		}
		out = append(out, w)
		plain++
	}
	if enc > 0 && plain > 0 {
		return "", false
	}
	if enc > 0 {
		return strings.Join(out, ""), true
	}
	return strings.Join(out, " "), true
}

var malformed = []string{"", "not an address", "a@", "@x.test", "<>", "a b@x.test", "x@y@z.test", "\"unclosed@x.test",
	"a@b c.test", "<a@x.test", "a@x.test>", "a..b@x.test", ".a@x.test", "a@[1.2.3]", "name only <>", "a@x.test, b@x.test", "a\r\n@x.test"}

func GenMalformed(r *rand.Rand) string { return pick(r, malformed) }

// ---------------------------------------------------------------- independent RFC 5322 reader

// IntendedMailbox reads "[display-name] <addr-spec>" or a bare addr-spec from RFC 5322 (3.4, 3.4.1,
// 3.2.4) and returns the mailbox it denotes.  It is deliberately small: no comments, no groups, no
// obsolete syntax — the generator does not produce them; ok=false for anything else.
func IntendedMailbox(s string) (Mailbox, bool) {
	s = strings.TrimSpace(s)
	spec := s
	if strings.HasSuffix(s, ">") {
		// the angle-addr starts at the last "<" that is outside a quoted-string
		inq, esc, at := false, false, -1
		for i := 0; i < len(s); i++ {
			c := s[i]
			switch {
			case esc:
				esc = false
			case inq && c == '\\':
				esc = true
			case c == '"':
				inq = !inq
			case !inq && c == '<':
				at = i
			}
		}
		if at < 0 {
			return Mailbox{}, false
		}
		spec = s[at+1 : len(s)-1]
	}
	var local string
	rest := spec
	if strings.HasPrefix(spec, "\"") {
		var b strings.Builder
		i := 1
		closed := false
		for i < len(spec) {
			c := spec[i]
			if c == '\\' {
				if i+1 >= len(spec) {
					return Mailbox{}, false
				}
				b.WriteByte(spec[i+1])
				i += 2
				continue
			}
			if c == '"' {
				closed = true
				i++
				break
			}
			b.WriteByte(c)
			i++
		}
		if !closed {
			return Mailbox{}, false
		}
		local, rest = b.String(), spec[i:]
	} else {
		i := 0
		for i < len(spec) && (IsAtext(spec[i], true) || spec[i] == '.') {
			i++
		}
		local, rest = spec[:i], spec[i:]
		if !IsDotAtom(local, true) {
			return Mailbox{}, false
		}
	}
	if !strings.HasPrefix(rest, "@") || local == "" {
		return Mailbox{}, false
	}
	dom := rest[1:]
	if dom == "" || strings.ContainsAny(dom, " <>@\"\\") {
		return Mailbox{}, false
	}
	return Mailbox{local, dom}, true
}

// NeedsQuoting: the local part is not a Dot-string.
func NeedsQuoting(local string) bool { return !IsDotAtom(local, true) }

// Representable: every byte of the local part can be carried by an RFC 5321 Quoted-string.
func Representable(local string) bool {
	for i := 0; i < len(local); i++ {
		if local[i] < 0x20 || local[i] == 0x7f {
			return false
		}
	}
	return local != ""
}

// ---------------------------------------------------------------- strict RFC 5321 path parser

// PathLine is the reading of a MAIL FROM / RCPT TO command line.
type PathLine struct {
	Verb   string // MAIL | RCPT
	Box    Mailbox
	Params []string
}

func qtextSMTP(c byte, u8 bool) bool {
	return c == 32 || c == 33 || c >= 35 && c <= 91 || c >= 93 && c <= 126 || (u8 && c >= 0x80)
}

func letDig(c byte, u8 bool) bool { return isAlnum(c) || (u8 && c >= 0x80) }

func domainOK(d string, u8 bool) bool {
	if strings.HasPrefix(d, "[") {
		if !strings.HasSuffix(d, "]") || len(d) < 3 {
			return false
		}
		in := d[1 : len(d)-1]
		if strings.HasPrefix(strings.ToLower(in), "ipv6:") {
			for i := 5; i < len(in); i++ {
				c := in[i]
				if !(isAlnum(c) || c == ':' || c == '.') {
					return false
				}
			}
			return len(in) > 5
		}
		// IPv4-address-literal = Snum 3("." Snum)
		parts := strings.Split(in, ".")
		if len(parts) != 4 {
			return false
		}
		for _, p := range parts {
			if len(p) == 0 || len(p) > 3 {
				return false
			}
			n := 0
			for i := 0; i < len(p); i++ {
				if p[i] < '0' || p[i] > '9' {
					return false
				}
				n = n*10 + int(p[i]-'0')
			}
			if n > 255 {
				return false
			}
		}
		return true
	}
	for _, l := range strings.Split(d, ".") {
		if l == "" || !letDig(l[0], u8) || !letDig(l[len(l)-1], u8) {
			return false
		}
		for i := 0; i < len(l); i++ {
			if !(letDig(l[i], u8) || l[i] == '-') {
				return false
			}
		}
	}
	return true
}

func esmtpParamOK(p string) bool {
	kw, val, has := p, "", false
	if i := strings.IndexByte(p, '='); i >= 0 {
		kw, val, has = p[:i], p[i+1:], true
	}
	if kw == "" || !isAlnum(kw[0]) {
		return false
	}
	for i := 0; i < len(kw); i++ {
		if !(isAlnum(kw[i]) || kw[i] == '-') {
			return false
		}
	}
	if has {
		if val == "" {
			return false
		}
		for i := 0; i < len(val); i++ {
			c := val[i]
			if !(c >= 33 && c <= 60 || c >= 62 && c <= 126) {
				return false
			}
		}
	}
	return true
}

// ParsePathLine parses "MAIL FROM:<Mailbox> [SP params]" / "RCPT TO:<Mailbox> [SP params]" strictly.
// u8: SMTPUTF8 is in force for this transaction (RFC 6531 widens atext, qtextSMTP and sub-domain).
func ParsePathLine(line string, u8 bool) (PathLine, error) { return parsePathLine(line, u8, false) }

// ParsePathLineAnyDomain is ParsePathLine without the Domain grammar: any non-empty run of bytes
// other than blanks, controls, '<', '>', '@', '"' and '\\' is taken as the domain.  C06 uses it: that
// property is about WHICH mailboxes are named, not about the syntax of their domains.
func ParsePathLineAnyDomain(line string, u8 bool) (PathLine, error) {
	return parsePathLine(line, u8, true)
}

func anyDomainOK(d string) bool {
	for i := 0; i < len(d); i++ {
		if d[i] <= ' ' || d[i] == 0x7f || strings.IndexByte("<>@\"\\", d[i]) >= 0 {
			return false
		}
	}
	return d != ""
}

func parsePathLine(line string, u8 bool, anyDomain bool) (PathLine, error) {
	var pl PathLine
	up := strings.ToUpper(line)
	var rest string
	switch {
	case strings.HasPrefix(up, "MAIL FROM:"):
		pl.Verb, rest = "MAIL", line[len("MAIL FROM:"):]
	case strings.HasPrefix(up, "RCPT TO:"):
		pl.Verb, rest = "RCPT", line[len("RCPT TO:"):]
	default:
		return pl, errors.New("not a MAIL FROM: / RCPT TO: line")
	}
	if strings.ContainsAny(line, "\r\n") {
		return pl, errors.New("CR or LF inside the line")
	}
	if u8 && !utf8.ValidString(line) {
		return pl, errors.New("invalid UTF-8")
	}
	if !strings.HasPrefix(rest, "<") {
		return pl, errors.New("path does not start with '<' directly after the colon")
	}
	i := 1
	var local strings.Builder
	if i < len(rest) && rest[i] == '"' {
		i++
		closed := false
		for i < len(rest) {
			c := rest[i]
			if c == '"' {
				closed = true
				i++
				break
			}
			if c == '\\' {
				if i+1 >= len(rest) || rest[i+1] < 32 || rest[i+1] > 126 {
					return pl, errors.New("bad quoted-pairSMTP")
				}
				local.WriteByte(rest[i+1])
				i += 2
				continue
			}
			if !qtextSMTP(c, u8) {
				return pl, fmt.Errorf("byte %#x is not qtextSMTP", c)
			}
			local.WriteByte(c)
			i++
		}
		if !closed {
			return pl, errors.New("unterminated Quoted-string")
		}
	} else {
		j := i
		for j < len(rest) && (IsAtext(rest[j], u8) || rest[j] == '.') {
			j++
		}
		if !IsDotAtom(rest[i:j], u8) {
			return pl, fmt.Errorf("local part %q is not a Dot-string", rest[i:j])
		}
		local.WriteString(rest[i:j])
		i = j
	}
	if i >= len(rest) || rest[i] != '@' {
		return pl, errors.New("'@' expected after the local part")
	}
	i++
	j := strings.IndexByte(rest[i:], '>')
	if j < 0 {
		return pl, errors.New("'>' missing")
	}
	dom := rest[i : i+j]
	if anyDomain && anyDomainOK(dom) {
		// accepted
	} else if !domainOK(dom, u8) {
		return pl, fmt.Errorf("%q is not a Domain / address-literal", dom)
	}
	pl.Box = Mailbox{local.String(), dom}
	tail := rest[i+j+1:]
	if tail == "" {
		return pl, nil
	}
	if tail[0] != ' ' {
		return pl, errors.New("text after '>' that is not SP esmtp-param")
	}
	for _, p := range strings.Split(tail[1:], " ") {
		if !esmtpParamOK(p) {
			return pl, fmt.Errorf("%q is not an esmtp-param", p)
		}
		pl.Params = append(pl.Params, p)
	}
	return pl, nil
}

// ---------------------------------------------------------------- oracle tables

// Tables are the finite parts of the three oracles a case needs.
type Tables struct {
	parse    map[string]*mail.Address // nil = parse error
	str      map[[2]string]string
	enc      map[string]string
	HAddr    []string // violated hypotheses on the shape of Address / String() / Name, human readable
	HRound   []string // Parse(String a) != a outside the class QBackslashName
	HRoundQB []string // Parse(String a) != a for a display name of the class QBackslashName (known net/mail defect)
	NAddrs   int
}

func NewTables() *Tables {
	return &Tables{parse: map[string]*mail.Address{}, str: map[[2]string]string{}, enc: map[string]string{}}
}

// AddParse records ParseAddress(s).
func (t *Tables) AddParse(s string) *mail.Address {
	if a, ok := t.parse[s]; ok {
		return a
	}
	a, err := mail.ParseAddress(s)
	if err != nil {
		a = nil
	}
	t.parse[s] = a
	return a
}

// AddEncoded records encodeString(s) (Msg default: mime.QEncoding, charset UTF-8) and the parse of the result.
func (t *Tables) AddEncoded(s string) {
	e := mime.QEncoding.Encode("UTF-8", s)
	t.enc[s] = e
	t.AddParse(e)
}

// Close adds Address.String() of every known address and the parse of that string until nothing
// new appears, and validates H-addr on every address.
func (t *Tables) Close() {
	for round := 0; round < 8; round++ {
		added := false
		keys := make([]string, 0, len(t.parse))
		for k := range t.parse {
			keys = append(keys, k)
		}
		sort.Strings(keys)
		for _, k := range keys {
			a := t.parse[k]
			if a == nil {
				continue
			}
			key := [2]string{a.Name, a.Address}
			if _, ok := t.str[key]; ok {
				continue
			}
			s := a.String()
			t.str[key] = s
			t.NAddrs++
			added = true
			b := t.AddParse(s)
			// H-addr
			if strings.ContainsAny(a.Address, "\r\n\x00") {
				t.HAddr = append(t.HAddr, fmt.Sprintf("Address %q contains CR/LF/NUL", a.Address))
			}
			if at := strings.LastIndex(a.Address, "@"); at <= 0 || at == len(a.Address)-1 {
				t.HAddr = append(t.HAddr, fmt.Sprintf("Address %q is not local@domain", a.Address))
			}
			if strings.ContainsAny(s, "\r\n") {
				t.HAddr = append(t.HAddr, fmt.Sprintf("String() of %q/%q contains CR/LF", a.Name, a.Address))
			}
			// H-name: on  DQUOTE ... DQUOTE SP "<" ... ">"  net/mail's Name is what the independent RFC 5322 reader reads
			if ks := strings.TrimSpace(k); strings.HasPrefix(ks, "\"") && strings.HasSuffix(ks, ">") {
				if n, ok := IntendedName(ks); ok && n != a.Name {
					t.HAddr = append(t.HAddr, fmt.Sprintf("H-name: ParseAddress(%q).Name = %q, the RFC 5322 quoted-string reader reads %q", k, a.Name, n))
				}
			}
			if (b == nil || b.Name != a.Name || b.Address != a.Address) && QBackslashName(a.Name) {
				t.HRoundQB = append(t.HRoundQB, fmt.Sprintf("ParseAddress(String()) of %q/%q fails: %q", a.Name, a.Address, s))
			} else if b == nil || b.Name != a.Name || b.Address != a.Address {
				t.HRound = append(t.HRound, fmt.Sprintf("ParseAddress(String()) of %q/%q is not the identity: %q", a.Name, a.Address, s))
			}
		}
		if !added {
			break
		}
	}
}

func sortedKeys[V any](m map[string]V) []string {
	keys := make([]string, 0, len(m))
	for k := range m {
		keys = append(keys, k)
	}
	sort.Strings(keys)
	return keys
}

// Args renders the three tables in the case-file syntax (parse, string, encode).
func (t *Tables) Args() (string, string, string) {
	var p, s, e []string
	for _, k := range sortedKeys(t.parse) {
		if a := t.parse[k]; a == nil {
			p = append(p, hx.Hex([]byte(k))+":!")
		} else {
			p = append(p, hx.Hex([]byte(k))+":"+hx.Hex([]byte(a.Name))+":"+hx.Hex([]byte(a.Address)))
		}
	}
	sk := make([][2]string, 0, len(t.str))
	for k := range t.str {
		sk = append(sk, k)
	}
	sort.Slice(sk, func(i, j int) bool {
		if sk[i][0] != sk[j][0] {
			return sk[i][0] < sk[j][0]
		}
		return sk[i][1] < sk[j][1]
	})
	for _, k := range sk {
		s = append(s, hx.Hex([]byte(k[0]))+":"+hx.Hex([]byte(k[1]))+":"+hx.Hex([]byte(t.str[k])))
	}
	for _, k := range sortedKeys(t.enc) {
		e = append(e, hx.Hex([]byte(k))+":"+hx.Hex([]byte(t.enc[k])))
	}
	j := func(l []string) string {
		if len(l) == 0 {
			return "-"
		}
		return strings.Join(l, ",")
	}
	return j(p), j(s), j(e)
}
