// Package c13: concurrent use of one mail.Client (C13).
//
// Implementation side of the correspondence and direct oracle.  In every round N goroutines send
// distinct messages through ONE mail.Client: ns of them with Client.Send on one connection
// established beforehand (DialWithContext), nd of them with Client.DialAndSend — against an
// in-process accept-all SMTP server on 127.0.0.1:0 that delays its replies by a seeded jitter and
// records the command stream of every connection and every committed message.
//
// The binary is built with the race detector (registry race=True).  The rounds run in a child
// process of the same binary (environment C13_WORKER=1, GORACE=halt_on_error=1) so that a race
// report becomes an oracle failure of class "data-race" attributed to the round in flight instead
// of a crashed harness.
package c13

import (
	"bufio"
	"bytes"
	"context"
	"crypto/tls"
	"crypto/x509"
	"encoding/base64"
	"encoding/json"
	"fmt"
	"io"
	"math/rand"
	"net"
	"os"
	"os/exec"
	"regexp"
	"runtime"
	"sort"
	"strconv"
	"strings"
	"sync"
	"time"

	mail "github.com/wneessen/go-mail"
	maillog "github.com/wneessen/go-mail/log"
	"verif/harness/hx"
	"verif/harness/saslx"
)

func init() { hx.Register("C13", Run) }

// ---------------------------------------------------------------------------------------------
// the SMTP server

type item struct {
	verb byte // H N M R D E Z Q ?
	id   int  // message id carried by the command / the data block (0 = none, -1 = unparsable)
}

type commit struct {
	conn     int
	mailID   int
	rcptIDs  []int
	bodyIDs  []int // ids of all MARK-<id>- lines in the data block
	complete bool  // the data block ends with the END-<id> line of its first marker
	authed   bool  // a successful AUTH exchange preceded it on the connection
}

// authRec is one AUTH exchange as the server saw it.
type authRec struct {
	conn   int
	mech   string
	ok     bool
	detail string // why it was rejected / what was malformed
}

const (
	authUser = "toni@c13.test"
	authPass = "V3ryS3cr3t+"
)

type server struct {
	ln      net.Listener
	mu      sync.Mutex
	streams [][]item
	commits []commit
	auths   []authRec
	tlsCfg  *tls.Config // non-nil: advertise STARTTLS
	tlsDone []bool      // per connection: STARTTLS handshake completed
	tlsErrs []string
	raw     []string // every command line received (all connections), for the debug-log oracle
	authOn  bool     // advertise and require AUTH
	scram1  saslx.Stored
	scram2  saslx.Stored
	seed    int64
	jitter  int // max reply delay in microseconds
	wg      sync.WaitGroup
}

var (
	reMail = regexp.MustCompile(`(?i)^MAIL FROM:<s(\d+)@c13\.test>`)
	reRcpt = regexp.MustCompile(`(?i)^RCPT TO:<r(\d+)x\d+@c13\.test>`)
	reMark = regexp.MustCompile(`MARK-(\d+)-`)
)

func newServer(seed int64, jitter int, authOn bool, tlsCfg *tls.Config) (*server, error) {
	ln, err := net.Listen("tcp", "127.0.0.1:0")
	if err != nil {
		return nil, err
	}
	s := &server{ln: ln, seed: seed, jitter: jitter, authOn: authOn, tlsCfg: tlsCfg}
	if authOn {
		s.scram1 = saslx.Store(saslx.SHA1, authPass, []byte("c13-salt-sha1"), 256)
		s.scram2 = saslx.Store(saslx.SHA256, authPass, []byte("c13-salt-sha256"), 256)
	}
	go s.accept()
	return s, nil
}

func (s *server) port() int { return s.ln.Addr().(*net.TCPAddr).Port }

func (s *server) accept() {
	for {
		c, err := s.ln.Accept()
		if err != nil {
			return
		}
		s.mu.Lock()
		idx := len(s.streams)
		s.streams = append(s.streams, nil)
		s.tlsDone = append(s.tlsDone, false)
		s.mu.Unlock()
		s.wg.Add(1)
		go s.serve(c, idx)
	}
}

func (s *server) record(idx int, it item) {
	s.mu.Lock()
	s.streams[idx] = append(s.streams[idx], it)
	s.mu.Unlock()
}

func (s *server) serve(c net.Conn, idx int) {
	defer s.wg.Done()
	defer c.Close()
	rng := rand.New(rand.NewSource(s.seed*1000003 + int64(idx)))
	rd := bufio.NewReader(c)
	isTLS := false
	reply := func(line string) bool {
		if s.jitter > 0 && rng.Intn(4) != 0 {
			time.Sleep(time.Duration(rng.Intn(s.jitter)) * time.Microsecond)
		}
		_ = c.SetWriteDeadline(time.Now().Add(8 * time.Second))
		_, err := io.WriteString(c, line+"\r\n")
		return err == nil
	}
	if !reply("220 c13.test ESMTP") {
		return
	}
	mailID := 0
	var rcpts []int
	for {
		_ = c.SetReadDeadline(time.Now().Add(8 * time.Second))
		line, err := rd.ReadString('\n')
		if err != nil {
			return
		}
		line = strings.TrimRight(line, "\r\n")
		s.mu.Lock()
		s.raw = append(s.raw, line)
		s.mu.Unlock()
		up := strings.ToUpper(line)
		switch {
		case strings.HasPrefix(up, "EHLO"), strings.HasPrefix(up, "HELO"):
			s.record(idx, item{'H', 0})
			caps := "250-c13.test\r\n250-8BITMIME\r\n"
			if s.tlsCfg != nil && !isTLS {
				caps += "250-STARTTLS\r\n"
			}
			if s.authOn {
				caps += "250-AUTH PLAIN LOGIN CRAM-MD5 SCRAM-SHA-1 SCRAM-SHA-256\r\n"
			}
			if !reply(caps + "250 ENHANCEDSTATUSCODES") {
				return
			}
		case up == "STARTTLS" && s.tlsCfg != nil && !isTLS:
			if !reply("220 2.0.0 ready to start TLS") {
				return
			}
			tc := tls.Server(c, s.tlsCfg)
			_ = tc.SetDeadline(time.Now().Add(8 * time.Second))
			if err := tc.Handshake(); err != nil {
				s.mu.Lock()
				s.tlsErrs = append(s.tlsErrs, fmt.Sprintf("conn %d: %v", idx, err))
				s.mu.Unlock()
				return
			}
			_ = tc.SetDeadline(time.Time{})
			c, rd, isTLS = tc, bufio.NewReader(tc), true
			mailID, rcpts = 0, nil
			s.mu.Lock()
			s.streams[idx] = nil // RFC 3207: the session starts over; the compared stream is the one inside TLS
			s.tlsDone[idx] = true
			s.mu.Unlock()
		case strings.HasPrefix(up, "AUTH "):
			if !s.authExchange(idx, line, rd, rng, reply, c) {
				return
			}
		case strings.HasPrefix(up, "NOOP"):
			s.record(idx, item{'N', 0})
			if !reply("250 2.0.0 OK") {
				return
			}
		case strings.HasPrefix(up, "RSET"):
			s.record(idx, item{'Z', 0})
			mailID, rcpts = 0, nil
			if !reply("250 2.0.0 OK") {
				return
			}
		case strings.HasPrefix(up, "MAIL FROM:"):
			id := -1
			if m := reMail.FindStringSubmatch(line); m != nil {
				id, _ = strconv.Atoi(m[1])
			}
			s.record(idx, item{'M', id})
			mailID, rcpts = id, nil
			if !reply("250 2.1.0 OK") {
				return
			}
		case strings.HasPrefix(up, "RCPT TO:"):
			id := -1
			if m := reRcpt.FindStringSubmatch(line); m != nil {
				id, _ = strconv.Atoi(m[1])
			}
			s.record(idx, item{'R', id})
			rcpts = append(rcpts, id)
			if !reply("250 2.1.5 OK") {
				return
			}
		case up == "DATA":
			s.record(idx, item{'D', 0})
			if !reply("354 go ahead") {
				return
			}
			var data bytes.Buffer
			for {
				_ = c.SetReadDeadline(time.Now().Add(8 * time.Second))
				l, err := rd.ReadString('\n')
				if err != nil {
					return
				}
				if l == ".\r\n" {
					break
				}
				data.WriteString(l)
			}
			cm := commit{conn: idx, mailID: mailID, rcptIDs: rcpts, authed: s.authedConn(idx)}
			for _, m := range reMark.FindAllStringSubmatch(data.String(), -1) {
				id, _ := strconv.Atoi(m[1])
				cm.bodyIDs = append(cm.bodyIDs, id)
			}
			first := -1
			if len(cm.bodyIDs) > 0 {
				first = cm.bodyIDs[0]
				cm.complete = strings.HasSuffix(data.String(), fmt.Sprintf("END-%d\r\n", first))
			}
			s.mu.Lock()
			s.streams[idx] = append(s.streams[idx], item{'E', first})
			s.commits = append(s.commits, cm)
			s.mu.Unlock()
			mailID, rcpts = 0, nil
			if !reply("250 2.0.0 queued") {
				return
			}
		case strings.HasPrefix(up, "QUIT"):
			s.record(idx, item{'Q', 0})
			reply("221 2.0.0 bye")
			return
		default:
			s.record(idx, item{'?', -1})
			if !reply("500 5.5.1 what") {
				return
			}
		}
	}
}

func (s *server) authedConn(idx int) bool {
	s.mu.Lock()
	defer s.mu.Unlock()
	for _, a := range s.auths {
		if a.conn == idx && a.ok {
			return true
		}
	}
	return false
}

// authExchange runs one SASL exchange (reference verifiers of harness/saslx) and records it.
// It returns false when the connection is gone.
func (s *server) authExchange(idx int, line string, rd *bufio.Reader, rng *rand.Rand, reply func(string) bool, c net.Conn) bool {
	f := strings.Fields(line)
	mech := strings.ToUpper(f[1])
	rec := authRec{conn: idx, mech: mech}
	alive := true
	finish := func(ok bool, detail string) bool {
		rec.ok, rec.detail = ok, detail
		s.mu.Lock()
		s.auths = append(s.auths, rec)
		s.mu.Unlock()
		if !alive {
			return false
		}
		if ok {
			return reply("235 2.7.0 Authentication successful")
		}
		return reply("535 5.7.8 Authentication credentials invalid")
	}
	// challenge sends a 334 and reads the client's answer; aborted = the client sent "*"
	challenge := func(ch []byte) (resp []byte, aborted bool, good bool) {
		if !reply("334 " + base64.StdEncoding.EncodeToString(ch)) {
			alive = false
			return nil, false, false
		}
		_ = c.SetReadDeadline(time.Now().Add(8 * time.Second))
		l, err := rd.ReadString('\n')
		if err != nil {
			alive = false
			return nil, false, false
		}
		l = strings.TrimRight(l, "\r\n")
		if l == "*" {
			return nil, true, true
		}
		b, ok := saslx.UnB64(l)
		return b, false, ok
	}
	var ir []byte
	hasIR := len(f) >= 3
	if hasIR {
		b, ok := saslx.UnB64(f[2])
		if !ok {
			return finish(false, "initial response is not base64: "+f[2])
		}
		ir = b
	}
	if len(f) > 3 {
		return finish(false, "malformed AUTH line: "+line)
	}
	if s.seenAuthOK(idx) {
		return finish(false, "second AUTH on an authenticated connection")
	}
	switch mech {
	case "PLAIN":
		if !hasIR {
			b, ab, ok := challenge(nil)
			if !alive || ab || !ok {
				return finish(false, "PLAIN: aborted or malformed response")
			}
			ir = b
		}
		_, user, pass, err := saslx.ParsePlain(ir)
		if err != nil || user != authUser || pass != authPass {
			return finish(false, fmt.Sprintf("PLAIN: user %q pass %q err %v", user, pass, err))
		}
		return finish(true, "")
	case "LOGIN":
		if hasIR {
			return finish(false, "LOGIN with initial response")
		}
		u, ab, ok := challenge([]byte("Username:"))
		if !alive || ab || !ok {
			return finish(false, "LOGIN: aborted or malformed user name step")
		}
		p, ab, ok := challenge([]byte("Password:"))
		if !alive || ab || !ok {
			return finish(false, fmt.Sprintf("LOGIN: aborted or malformed password step (user %q)", u))
		}
		if string(u) != authUser || string(p) != authPass {
			return finish(false, fmt.Sprintf("LOGIN: got user name %q, password %q", u, p))
		}
		return finish(true, "")
	case "CRAM-MD5":
		if hasIR {
			return finish(false, "CRAM-MD5 with initial response")
		}
		ch := saslx.CramChallenge(fmt.Sprintf("%d.%d", idx, rng.Int63()))
		resp, ab, ok := challenge([]byte(ch))
		if !alive || ab || !ok {
			return finish(false, "CRAM-MD5: aborted or malformed response")
		}
		user, good := saslx.VerifyCram(ch, resp, func(u string) (string, bool) { return authPass, u == authUser })
		if !good {
			return finish(false, fmt.Sprintf("CRAM-MD5: wrong digest for this challenge (user %q)", user))
		}
		return finish(true, "")
	case "SCRAM-SHA-1", "SCRAM-SHA-256":
		h, st := saslx.SHA1, s.scram1
		if mech == "SCRAM-SHA-256" {
			h, st = saslx.SHA256, s.scram2
		}
		if !hasIR {
			b, ab, ok := challenge(nil)
			if !alive || ab || !ok {
				return finish(false, mech+": aborted or malformed client-first")
			}
			ir = b
		}
		ss := &saslx.ScramServer{Hash: h, NonceSuffix: fmt.Sprintf("srv%d", rng.Int63()),
			Lookup: func(u string) (saslx.Stored, bool) { return st, u == authUser }}
		sf, err := ss.First(ir)
		if err != nil {
			return finish(false, mech+": "+err.Error())
		}
		cf, ab, ok := challenge(sf)
		if !alive || ab || !ok {
			return finish(false, mech+": aborted or malformed client-final")
		}
		fin, err := ss.Final(cf)
		if err != nil {
			return finish(false, mech+": "+err.Error())
		}
		last, ab, ok := challenge(fin)
		if !alive || ab || !ok || len(last) != 0 {
			return finish(false, mech+": client did not acknowledge the server signature")
		}
		return finish(true, "")
	}
	return finish(false, "unsupported mechanism "+mech)
}

func (s *server) seenAuthOK(idx int) bool { return s.authedConn(idx) }

func (s *server) stop() {
	_ = s.ln.Close()
	done := make(chan struct{})
	go func() { s.wg.Wait(); close(done) }()
	select {
	case <-done:
	case <-time.After(5 * time.Second):
	}
}

// ---------------------------------------------------------------------------------------------
// one round

type spec struct {
	ns, nd int
	rcpts  []int
	jseed  int64
	mech   string // "" = no SMTP auth; plain login cram scram1 scram256 auto
	warm   bool   // DialAndSend-only rounds: one sequential DialWithContext+Close before the concurrent calls
	cold   bool   // kind mixedcold: the round runs as the FIRST thing of a fresh worker process and the goroutines also build their messages themselves
	logm   string // "" = no debug log; s = WithDebugLog + log.New (Stdlog), j = log.NewJSON, d = WithDebugLog only (per-connection default logger on os.Stderr)
	tls    string // "" = NoTLS; o/m = STARTTLS opportunistic/mandatory with a caller-supplied tls.Config WITHOUT ServerName; O/M = with ServerName and verification
}

var authTypes = map[string]mail.SMTPAuthType{"plain": mail.SMTPAuthPlain, "login": mail.SMTPAuthLogin,
	"cram": mail.SMTPAuthCramMD5, "scram1": mail.SMTPAuthSCRAMSHA1, "scram256": mail.SMTPAuthSCRAMSHA256,
	"auto": mail.SMTPAuthAutoDiscover}

func parseSpec(c hx.Case) (spec, error) {
	var sp spec
	kp := strings.Split(c.Kind, ":")
	if kp[0] == "mixedcold" {
		sp.cold = true
		kp[0] = "mixed"
	}
	if kp[0] != "mixed" || len(c.Args) < 4 || (len(kp) != 1 && len(kp) != 3 && len(kp) != 4 && len(kp) != 5) {
		return sp, fmt.Errorf("bad case %q", c.Line())
	}
	if len(kp) >= 3 {
		if _, ok := authTypes[kp[1]]; !ok && kp[1] != "none" {
			return sp, fmt.Errorf("unknown auth mechanism %q", kp[1])
		}
		sp.mech, sp.warm = kp[1], kp[2] == "1"
		if sp.mech == "none" {
			sp.mech = ""
		}
	}
	if len(kp) >= 4 && kp[3] != "-" {
		if !strings.Contains("omOM", kp[3]) || len(kp[3]) != 1 {
			return sp, fmt.Errorf("unknown tls mode %q", kp[3])
		}
		sp.tls = kp[3]
	}
	if len(kp) == 5 {
		if !strings.Contains("sjd", kp[4]) || len(kp[4]) != 1 {
			return sp, fmt.Errorf("unknown log mode %q", kp[4])
		}
		sp.logm = kp[4]
	}
	var err error
	if sp.ns, err = strconv.Atoi(c.Args[0]); err != nil {
		return sp, err
	}
	if sp.nd, err = strconv.Atoi(c.Args[1]); err != nil {
		return sp, err
	}
	for _, t := range strings.Split(c.Args[2], ",") {
		v, err := strconv.Atoi(t)
		if err != nil || v < 1 {
			return sp, fmt.Errorf("bad rcpt count %q", t)
		}
		sp.rcpts = append(sp.rcpts, v)
	}
	if len(sp.rcpts) != sp.ns+sp.nd || sp.ns+sp.nd == 0 {
		return sp, fmt.Errorf("rcpt list does not match ns+nd")
	}
	sp.jseed, err = strconv.ParseInt(c.Args[3], 10, 64)
	return sp, err
}

func itemText(it item) string {
	if it.id == 0 {
		return string(it.verb)
	}
	return fmt.Sprintf("%c%d", it.verb, it.id)
}

func streamText(s []item) string {
	if len(s) == 0 {
		return "-"
	}
	p := make([]string, len(s))
	for i, it := range s {
		p[i] = itemText(it)
	}
	return strings.Join(p, ",")
}

func csv(l []int) string {
	if len(l) == 0 {
		return "-"
	}
	p := make([]string, len(l))
	for i, v := range l {
		p[i] = strconv.Itoa(v)
	}
	return strings.Join(p, ",")
}

type failure struct{ class, detail string }

type result struct {
	order      []int // goroutine ids (0-based): Send goroutines in the order of their MAIL on connection 0, then the DialAndSend ones
	observable string
	fails      []failure
}

// safeSink is the harness' goroutine-safe log destination.
type safeSink struct {
	mu sync.Mutex
	b  bytes.Buffer
}

func (s *safeSink) Write(p []byte) (int, error) {
	s.mu.Lock()
	defer s.mu.Unlock()
	return s.b.Write(p)
}

func (s *safeSink) String() string {
	s.mu.Lock()
	defer s.mu.Unlock()
	return s.b.String()
}

var reStdLine = regexp.MustCompile(`^\d{4}/\d\d/\d\d \d\d:\d\d:\d\d DEBUG: C (-->|<--) S: (.*)$`)
var reReply = regexp.MustCompile(`^\d{3} `)

// checkLog is the debug-log oracle: every line is one well-formed record (Stdlog: time stamp, level prefix,
// direction prefix; JSON: one object with level, msg and direction.from/to), server-to-client records start with
// a reply code, and the multiset of client-to-server payloads equals the multiset of command lines the server
// received (nothing lost, duplicated, truncated or mixed with another record).
func checkLog(text, mode string, raw []string) (fails []failure) {
	var sent []string
	nReply := 0
	lines := strings.Split(strings.TrimSuffix(text, "\n"), "\n")
	contOK := map[string]bool{"8BITMIME": true, "ENHANCEDSTATUSCODES": true, "STARTTLS": true,
		"AUTH PLAIN LOGIN CRAM-MD5 SCRAM-SHA-1 SCRAM-SHA-256": true}
	bad := 0
	for i, l := range lines {
		if text == "" {
			break
		}
		dir, payload := "", ""
		if mode == "j" {
			var rec struct {
				Level     string  `json:"level"`
				Msg       *string `json:"msg"`
				Direction *struct {
					From string `json:"from"`
					To   string `json:"to"`
				} `json:"direction"`
			}
			if err := json.Unmarshal([]byte(l), &rec); err != nil || rec.Msg == nil || rec.Direction == nil || rec.Level != "DEBUG" ||
				!((rec.Direction.From == "client" && rec.Direction.To == "server") || (rec.Direction.From == "server" && rec.Direction.To == "client")) {
				bad++
				if bad <= 3 {
					fails = append(fails, failure{"log-line-malformed", fmt.Sprintf("line %d is not one well-formed JSON record: %.200q", i+1, l)})
				}
				continue
			}
			dir, payload = map[bool]string{true: "-->", false: "<--"}[rec.Direction.From == "client"], *rec.Msg
		} else {
			m := reStdLine.FindStringSubmatch(l)
			if m == nil {
				if contOK[l] { // continuation of the multi-line EHLO reply
					continue
				}
				bad++
				if bad <= 3 {
					fails = append(fails, failure{"log-line-malformed", fmt.Sprintf("line %d is not one well-formed record: %.200q", i+1, l)})
				}
				continue
			}
			dir, payload = m[1], m[2]
		}
		if dir == "-->" {
			sent = append(sent, payload)
		} else {
			nReply++
			if !reReply.MatchString(payload) {
				bad++
				if bad <= 3 {
					fails = append(fails, failure{"log-line-malformed", fmt.Sprintf("line %d: server-to-client record without a reply code: %.200q", i+1, l)})
				}
			}
		}
	}
	a, b := append([]string(nil), sent...), append([]string(nil), raw...)
	sort.Strings(a)
	sort.Strings(b)
	if strings.Join(a, "\n") != strings.Join(b, "\n") {
		ex := ""
		for i := 0; i < len(a) || i < len(b); i++ {
			if i >= len(a) || i >= len(b) || a[i] != b[i] {
				if i < len(a) {
					ex += fmt.Sprintf(" logged %.80q", a[i])
				}
				if i < len(b) {
					ex += fmt.Sprintf(" sent %.80q", b[i])
				}
				break
			}
		}
		fails = append(fails, failure{"log-records-mismatch", fmt.Sprintf("%d client-to-server records logged, %d commands received by the server; first difference:%s", len(a), len(b), ex)})
	}
	if nReply != len(sent) {
		fails = append(fails, failure{"log-records-mismatch", fmt.Sprintf("%d server-to-client records for %d client-to-server records", nReply, len(sent))})
	}
	return
}

// tlsSnapshot renders the fields of a tls.Config a client library has no business changing.
func tlsSnapshot(c *tls.Config) string {
	return fmt.Sprintf("ServerName=%q InsecureSkipVerify=%v MinVersion=%d MaxVersion=%d RootCAs=%p Certificates=%d NextProtos=%v CipherSuites=%v ClientAuth=%d",
		c.ServerName, c.InsecureSkipVerify, c.MinVersion, c.MaxVersion, c.RootCAs, len(c.Certificates), c.NextProtos, c.CipherSuites, c.ClientAuth)
}

func buildMsg(id, nrcpt int, rng *rand.Rand) (*mail.Msg, error) {
	m := mail.NewMsg()
	if err := m.From(fmt.Sprintf("s%d@c13.test", id)); err != nil {
		return nil, err
	}
	var to []string
	for j := 0; j < nrcpt; j++ {
		to = append(to, fmt.Sprintf("r%dx%d@c13.test", id, j))
	}
	if err := m.To(to...); err != nil {
		return nil, err
	}
	m.Subject(fmt.Sprintf("message %d", id))
	var b strings.Builder
	lines := 1 + rng.Intn(40)
	for l := 0; l < lines; l++ {
		fmt.Fprintf(&b, "MARK-%d- line %d %s\r\n", id, l, strings.Repeat("x", rng.Intn(50)))
	}
	fmt.Fprintf(&b, "END-%d\r\n", id)
	m.SetBodyString(mail.TypeTextPlain, b.String(), mail.WithPartEncoding(mail.NoEncoding))
	return m, nil
}

func runRound(sp spec) (res result) {
	fail := func(class, format string, a ...interface{}) {
		res.fails = append(res.fails, failure{class, fmt.Sprintf(format, a...)})
	}
	n := sp.ns + sp.nd
	rng := rand.New(rand.NewSource(sp.jseed))
	// schedule diversity from the seed: number of OS threads running goroutines and the jitter regime
	procs := []int{1, 2, 4, 8, 16, 16}[rng.Intn(6)]
	runtime.GOMAXPROCS(procs)
	jmax := []int{0, 60, 150 + rng.Intn(400), 150 + rng.Intn(400), 1500}[rng.Intn(5)]
	var srvTLS, callerTLS *tls.Config
	callerSnap := ""
	if sp.tls != "" {
		var terr error
		if srvTLS, terr = saslx.ServerTLSConfig(0); terr != nil {
			fail("harness-tls", "%v", terr)
			res.observable = "HARNESS-ERROR"
			return
		}
		// the CALLER's config, handed to the Client once and used by every connection it dials
		if sp.tls == "o" || sp.tls == "m" {
			callerTLS = &tls.Config{InsecureSkipVerify: true, MinVersion: tls.VersionTLS12}
		} else {
			leaf, perr := x509.ParseCertificate(srvTLS.Certificates[0].Certificate[0])
			if perr != nil {
				fail("harness-tls", "%v", perr)
				res.observable = "HARNESS-ERROR"
				return
			}
			pool := x509.NewCertPool()
			pool.AddCert(leaf)
			callerTLS = &tls.Config{RootCAs: pool, ServerName: "localhost", MinVersion: tls.VersionTLS12}
		}
		callerSnap = tlsSnapshot(callerTLS)
	}
	srv, err := newServer(sp.jseed, jmax, sp.mech != "", srvTLS)
	if err != nil {
		fail("harness-listen", "%v", err)
		res.observable = "HARNESS-ERROR"
		return
	}
	defer srv.stop()
	policy := mail.NoTLS
	switch sp.tls {
	case "o", "O":
		policy = mail.TLSOpportunistic
	case "m", "M":
		policy = mail.TLSMandatory
	}
	opts := []mail.Option{mail.WithPort(srv.port()), mail.WithTLSPolicy(policy),
		mail.WithHELO("c13.test"), mail.WithTimeout(5 * time.Second)}
	if callerTLS != nil {
		opts = append(opts, mail.WithTLSConfig(callerTLS))
	}
	sink := &safeSink{}
	var restoreStderr func()
	switch sp.logm {
	case "s":
		opts = append(opts, mail.WithDebugLog(), mail.WithLogger(maillog.New(sink, maillog.LevelDebug)))
	case "j":
		opts = append(opts, mail.WithDebugLog(), mail.WithLogger(maillog.NewJSON(sink, maillog.LevelDebug)))
	case "d": // no explicit logger: every connection creates its own log.New(os.Stderr, ...)
		opts = append(opts, mail.WithDebugLog())
		pr, pw, perr := os.Pipe()
		if perr == nil {
			old := os.Stderr
			os.Stderr = pw
			copied := make(chan struct{})
			go func() { _, _ = io.Copy(sink, pr); close(copied) }()
			restoreStderr = func() { os.Stderr = old; _ = pw.Close(); <-copied; _ = pr.Close() }
		}
	}
	if restoreStderr != nil {
		defer func() {
			if restoreStderr != nil {
				restoreStderr()
			}
		}()
	}
	if sp.mech != "" {
		opts = append(opts, mail.WithSMTPAuth(authTypes[sp.mech]), mail.WithUsername(authUser), mail.WithPassword(authPass))
	}
	client, err := mail.NewClient("127.0.0.1", opts...)
	if err != nil {
		fail("harness-client", "%v", err)
		res.observable = "HARNESS-ERROR"
		return
	}
	msgs := make([]*mail.Msg, n)
	for i := 0; i < n && !sp.cold; i++ {
		if msgs[i], err = buildMsg(i+1, sp.rcpts[i], rng); err != nil {
			fail("harness-msg", "%v", err)
			res.observable = "HARNESS-ERROR"
			return
		}
	}
	if sp.ns > 0 {
		ctx, cancel := context.WithTimeout(context.Background(), 8*time.Second)
		err = client.DialWithContext(ctx)
		cancel()
		if err != nil {
			fail("dial-error", "DialWithContext: %v", err)
		}
	}
	warmConn := sp.ns == 0 && sp.warm
	if warmConn { // sequential warm-up dial: the concurrent dials that follow are not the Client's first
		ctx, cancel := context.WithTimeout(context.Background(), 8*time.Second)
		err = client.DialWithContext(ctx)
		cancel()
		if err != nil {
			fail("dial-error", "warm-up DialWithContext: %v", err)
		} else if err = client.Close(); err != nil {
			fail("close-error", "warm-up Close: %v", err)
		}
	}
	delays := make([]time.Duration, n)
	for i := range delays {
		delays[i] = time.Duration(rng.Intn(300)) * time.Microsecond
	}
	errs := make([]error, n)
	start := make(chan struct{})
	var wg sync.WaitGroup
	for i := 0; i < n; i++ {
		wg.Add(1)
		go func(i int) {
			defer wg.Done()
			<-start
			time.Sleep(delays[i])
			if sp.cold { // cold start: the first NewMsg / setters / render of the process happen concurrently
				var berr error
				if msgs[i], berr = buildMsg(i+1, sp.rcpts[i], rand.New(rand.NewSource(sp.jseed+int64(i)))); berr != nil {
					errs[i] = berr
					return
				}
			}
			if i < sp.ns {
				errs[i] = client.Send(msgs[i])
			} else {
				errs[i] = client.DialAndSend(msgs[i])
			}
		}(i)
	}
	close(start)
	done := make(chan struct{})
	go func() { wg.Wait(); close(done) }()
	select {
	case <-done:
	case <-time.After(20 * time.Second):
		fail("hang", "goroutines did not return within 20 s (ns=%d nd=%d): deadlock", sp.ns, sp.nd)
		res.observable = "HANG"
		return
	}
	if sp.ns > 0 {
		if err := client.Close(); err != nil {
			fail("close-error", "Close: %v", err)
		}
	}
	srv.stop()
	srv.mu.Lock()
	streams := srv.streams
	commits := srv.commits
	auths := srv.auths
	tlsDone := srv.tlsDone
	tlsErrs := srv.tlsErrs
	raw := append([]string(nil), srv.raw...)
	srv.mu.Unlock()

	// ---- debug log: one well-formed record per line, and the client-to-server records are exactly the commands
	if sp.logm != "" {
		if restoreStderr != nil {
			restoreStderr()
			restoreStderr = nil
		}
		for _, f := range checkLog(sink.String(), sp.logm, raw) {
			fail(f.class, "%s (log mode %s)", f.detail, sp.logm)
		}
	}

	// ---- STARTTLS: every connection was upgraded, and the CALLER's tls.Config is what it was before the round
	if sp.tls != "" {
		for _, e := range tlsErrs {
			fail("starttls-handshake", "%s (tls mode %s)", e, sp.tls)
		}
		for ci := range streams {
			if ci < len(tlsDone) && !tlsDone[ci] {
				fail("starttls-missing", "conn %d was not upgraded with STARTTLS although the policy is %s and the server offers it", ci, policy)
			}
		}
		if now := tlsSnapshot(callerTLS); now != callerSnap {
			fail("caller-tlsconfig-modified", "the tls.Config passed to WithTLSConfig was modified by the Client: before {%s} after {%s}", callerSnap, now)
		}
	}

	// ---- every AUTH exchange the server saw is well-formed and accepted; every connection authenticates once
	authCount := map[int]int{}
	for _, a := range auths {
		authCount[a.conn]++
		if !a.ok {
			fail("auth-exchange-rejected", "conn %d %s (configured %s, warm-up %v): %s", a.conn, a.mech, sp.mech, sp.warm, a.detail)
		}
	}
	for ci := range streams {
		want := 0
		if sp.mech != "" {
			want = 1
		}
		if authCount[ci] != want {
			fail("auth-exchange-count", "conn %d saw %d AUTH exchanges, expected %d (configured %q)", ci, authCount[ci], want, sp.mech)
		}
	}

	// ---- results of the calls
	allOK := true
	for i, e := range errs {
		if e != nil {
			allOK = false
			fail("send-error", "goroutine %d (%s): %v", i, map[bool]string{true: "Send", false: "DialAndSend"}[i < sp.ns], e)
		} else if msgs[i] == nil || !msgs[i].IsDelivered() {
			allOK = false
			fail("not-delivered", "goroutine %d returned nil but IsDelivered() is false", i)
		}
	}

	// ---- direct oracle, per connection: transactions are contiguous and consistent
	for ci, st := range streams {
		cur := 0 // id of the open transaction, 0 = none
		for pos, it := range st {
			switch it.verb {
			case 'M':
				if cur != 0 {
					fail("txn-interleaved", "conn %d pos %d: MAIL of message %d inside the transaction of message %d: %s", ci, pos, it.id, cur, streamText(st))
				}
				cur = it.id
			case 'R', 'E':
				if it.id != cur || cur == 0 {
					fail("txn-interleaved", "conn %d pos %d: %s belongs to message %d but the open transaction is %d: %s", ci, pos, itemText(it), it.id, cur, streamText(st))
				}
				if it.verb == 'E' {
					cur = 0
				}
			case 'D':
				if cur == 0 {
					fail("txn-interleaved", "conn %d pos %d: DATA outside a transaction: %s", ci, pos, streamText(st))
				}
			case 'N', 'Z', 'Q', 'H':
				if cur != 0 {
					fail("txn-interleaved", "conn %d pos %d: %c inside the transaction of message %d: %s", ci, pos, it.verb, cur, streamText(st))
				}
			default:
				fail("garbled-command", "conn %d pos %d: unparsable command: %s", ci, pos, streamText(st))
			}
		}
		if cur != 0 {
			fail("txn-incomplete", "conn %d: transaction of message %d never finished: %s", ci, cur, streamText(st))
		}
	}
	// ---- every message committed exactly once, with its own envelope and complete content
	count := make([]int, n+1)
	for _, cm := range commits {
		body := -1
		if len(cm.bodyIDs) > 0 {
			body = cm.bodyIDs[0]
		}
		for _, b := range cm.bodyIDs {
			if b != body {
				fail("content-mixed", "conn %d: one data block carries lines of messages %d and %d", cm.conn, body, b)
				break
			}
		}
		if body < 1 || body > n {
			fail("content-unknown", "conn %d: data block without a valid marker (MAIL id %d)", cm.conn, cm.mailID)
			continue
		}
		count[body]++
		if sp.mech != "" && !cm.authed {
			fail("unauthenticated-mail", "conn %d: message %d committed without a successful AUTH", cm.conn, body)
		}
		if !cm.complete {
			fail("content-incomplete", "conn %d: message %d committed without its last line", cm.conn, body)
		}
		if cm.mailID != body {
			fail("envelope-mismatch", "conn %d: content of message %d committed under MAIL FROM of message %d", cm.conn, body, cm.mailID)
		}
		if len(cm.rcptIDs) != sp.rcpts[body-1] {
			fail("envelope-mismatch", "conn %d: message %d committed with %d recipients, expected %d", cm.conn, body, len(cm.rcptIDs), sp.rcpts[body-1])
		}
		for _, r := range cm.rcptIDs {
			if r != body {
				fail("envelope-mismatch", "conn %d: message %d committed with a recipient of message %d", cm.conn, body, r)
			}
		}
	}
	for id := 1; id <= n; id++ {
		if count[id] == 0 {
			fail("message-lost", "message %d was never committed", id)
		} else if count[id] > 1 {
			fail("message-duplicated", "message %d was committed %d times", id, count[id])
		}
	}

	// ---- observable: connection 0 (shared), then the private connections in goroutine order
	var shared []item
	private := map[int][]item{} // message id -> stream of its connection
	for ci, st := range streams {
		if sp.ns > 0 && ci == 0 {
			shared = st
			continue
		}
		if warmConn && ci == 0 {
			if streamText(st) != "H,Q" {
				fail("warmup-conn", "the warm-up connection carries %s, expected H,Q", streamText(st))
			}
			continue
		}
		owner := 0
		ntx := 0
		for _, it := range st {
			if it.verb == 'M' {
				ntx++
				if owner == 0 {
					owner = it.id
				}
			}
		}
		if ntx != 1 || owner <= sp.ns || owner > n {
			fail("private-conn-misused", "conn %d (opened by a DialAndSend call) carries %d transactions, first of message %d: %s", ci, ntx, owner, streamText(st))
			continue
		}
		if _, dup := private[owner]; dup {
			fail("message-duplicated", "two connections carry message %d", owner)
			continue
		}
		private[owner] = st
	}
	if sp.ns > 0 {
		if len(shared) < 2 || shared[0].verb != 'H' || shared[len(shared)-1].verb != 'Q' {
			fail("shared-conn-frame", "connection 0 does not start with EHLO and end with QUIT: %s", streamText(shared))
		} else {
			shared = shared[1 : len(shared)-1]
		}
		for _, it := range shared {
			if it.verb == 'M' && (it.id < 1 || it.id > sp.ns) {
				fail("shared-conn-foreign", "connection 0 carries message %d of a DialAndSend goroutine", it.id)
			}
		}
	}
	seen := map[int]bool{}
	for _, it := range shared {
		if it.verb == 'M' && it.id >= 1 && it.id <= sp.ns && !seen[it.id] {
			seen[it.id] = true
			res.order = append(res.order, it.id-1)
		}
	}
	for i := sp.ns; i < n; i++ {
		res.order = append(res.order, i)
	}
	parts := []string{streamText(shared)}
	for i := sp.ns; i < n; i++ {
		parts = append(parts, streamText(private[i+1]))
	}
	verdict := "ok"
	if !allOK {
		verdict = "error"
	} else if !serialCheck(shared, sp) {
		verdict = "not-serial"
	}
	res.observable = strings.Join(parts, ";") + " " + verdict
	return
}

// serialCheck: independent of the model — the shared stream is a sequence of whole
// N M R* D E N Z blocks, one per Send goroutine, each exactly once.
func serialCheck(st []item, sp spec) bool {
	used := map[int]bool{}
	i := 0
	for i < len(st) {
		if i+1 >= len(st) || st[i].verb != 'N' || st[i+1].verb != 'M' {
			return false
		}
		id := st[i+1].id
		if id < 1 || id > sp.ns || used[id] {
			return false
		}
		used[id] = true
		want := []item{{'N', 0}, {'M', id}}
		for r := 0; r < sp.rcpts[id-1]; r++ {
			want = append(want, item{'R', id})
		}
		want = append(want, item{'D', 0}, item{'E', id}, item{'N', 0}, item{'Z', 0})
		if i+len(want) > len(st) {
			return false
		}
		for k, w := range want {
			if st[i+k] != w {
				return false
			}
		}
		i += len(want)
	}
	return len(used) == sp.ns
}

// ---------------------------------------------------------------------------------------------
// generation, worker protocol

func genCases(r *hx.Run) []hx.Case {
	rounds := 92
	if r.Tier == "thorough" {
		rounds = 2000
	}
	sizes := []int{2, 2, 3, 4, 5, 8, 8, 12, 16, 24, 32, 48, 64}
	mechs := []string{"login", "plain", "cram", "scram256", "auto", "scram1"}
	// fixed opening rounds: both ends of the goroutine range without auth, then the concurrent-dial shapes
	// with SMTP auth: first dials overlapping (cold) and after a sequential warm-up dial, stateless and
	// stateful mechanisms
	fixed := []struct {
		n, ns int
		kind  string
	}{{2, 2, "mixed"}, {64, 0, "mixed"}, {16, 7, "mixed"},
		{12, 0, "mixed:login:0"}, {12, 0, "mixed:login:1"}, {12, 0, "mixed:scram256:1"}, {16, 0, "mixed:auto:0"},
		{8, 0, "mixed:plain:0"}, {8, 0, "mixed:cram:1"}, {8, 3, "mixed:login:0"}, {32, 0, "mixed:scram1:0"}, {8, 8, "mixed:scram256:0"},
		// STARTTLS with a caller-supplied tls.Config shared by all connections of the Client
		{12, 0, "mixed:none:0:m"}, {12, 0, "mixed:login:0:o"}, {8, 0, "mixed:none:0:M"}, {8, 3, "mixed:plain:0:O"}, {16, 0, "mixed:scram256:1:m"}, {6, 6, "mixed:none:0:o"},
		// debug logging on: Stdlog / JSON / default logger, two or more connections of one Client active
		{8, 0, "mixedcold"}, {8, 3, "mixedcold"}, {8, 0, "mixedcold:login:0"}, {6, 0, "mixedcold:none:0:m:s"},
		{8, 3, "mixed:none:0:-:s"}, {12, 0, "mixed:none:0:-:s"}, {8, 3, "mixed:none:0:-:j"}, {12, 0, "mixed:none:0:-:j"}, {8, 3, "mixed:none:0:-:d"}, {16, 0, "mixed:none:1:-:s"}}
	var out []hx.Case
	for k := 0; k < rounds; k++ {
		n := sizes[r.Rng.Intn(len(sizes))]
		var ns int
		switch k % 3 {
		case 0:
			ns = n
		case 1:
			ns = 0
		default:
			ns = 1 + r.Rng.Intn(n-1)
		}
		kind := "mixed"
		if r.Rng.Intn(5) < 3 { // 60 % of the generated rounds run with SMTP auth configured
			kind = fmt.Sprintf("mixed:%s:%d", mechs[r.Rng.Intn(len(mechs))], r.Rng.Intn(2))
		}
		if r.Rng.Intn(20) < 7 { // 35 % of the generated rounds run over STARTTLS
			if kind == "mixed" {
				kind = "mixed:none:" + strconv.Itoa(r.Rng.Intn(2))
			}
			kind += ":" + string("omOM"[r.Rng.Intn(4)])
		}
		if kind == "mixed" && r.Rng.Intn(4) == 0 { // a quarter of the plain rounds run with the debug log on
			kind = "mixed:none:0:-:" + string("sjd"[r.Rng.Intn(3)])
		}
		if r.Rng.Intn(12) == 0 { // cold start in a fresh process
			kind = "mixedcold" + kind[len("mixed"):]
		}
		if r.Tier == "thorough" && kind != "mixed" && !strings.HasPrefix(kind, "mixedcold") {
			// schedule search on the auth rounds: mostly DialAndSend-only shapes with many goroutines
			n = []int{16, 24, 32, 48, 64, 64}[r.Rng.Intn(6)]
			if r.Rng.Intn(3) != 0 {
				ns = 0
			} else if ns > n {
				ns = n
			} else if ns > 0 && ns < n {
				ns = 1 + r.Rng.Intn(n-1)
			}
		}
		if k < len(fixed) {
			n, ns, kind = fixed[k].n, fixed[k].ns, fixed[k].kind
		}
		rc := make([]int, n)
		for i := range rc {
			rc[i] = 1 + r.Rng.Intn(3)
		}
		out = append(out, hx.Case{ID: r.NewID(), Kind: kind,
			Args: []string{strconv.Itoa(ns), strconv.Itoa(n - ns), csv(rc), strconv.FormatInt(r.Rng.Int63n(1<<40), 10)}})
	}
	return out
}

func worker() {
	sc := bufio.NewScanner(os.Stdin)
	sc.Buffer(make([]byte, 1<<20), 1<<26)
	out := bufio.NewWriter(os.Stdout)
	for sc.Scan() {
		c, ok := hx.ParseCase(sc.Text())
		if !ok {
			continue
		}
		fmt.Fprintf(out, "S %s\n", c.ID)
		out.Flush()
		sp, err := parseSpec(c)
		if err != nil {
			fmt.Fprintf(out, "F %s bad-case %s\n", c.ID, strings.ReplaceAll(err.Error(), "\n", " "))
			fmt.Fprintf(out, "R %s - BAD-CASE\n", c.ID)
			out.Flush()
			continue
		}
		res := runRound(sp)
		for _, f := range res.fails {
			fmt.Fprintf(out, "F %s %s %s\n", c.ID, f.class, strings.ReplaceAll(f.detail, "\n", " "))
		}
		fmt.Fprintf(out, "R %s %s %s\n", c.ID, csv(res.order), res.observable)
		out.Flush()
		if res.observable == "HANG" { // blocked goroutines stay behind: do not run further rounds in this process
			fmt.Fprintf(out, "X\n")
			out.Flush()
			os.Exit(0)
		}
	}
	out.Flush()
	os.Exit(0)
}

var reRaceFrame = regexp.MustCompile(`^\s+(\S*(go-mail|verif/harness)\S*)\(`)

func summariseRace(stderr string) string {
	var fr []string
	for _, l := range strings.Split(stderr, "\n") {
		if m := reRaceFrame.FindStringSubmatch(l); m != nil {
			dupe := false
			for _, f := range fr {
				if f == m[1] {
					dupe = true
				}
			}
			if !dupe {
				fr = append(fr, m[1])
			}
		}
		if len(fr) >= 8 {
			break
		}
	}
	return "race detector report; frames: " + strings.Join(fr, " | ")
}

// Run is the harness entry point.
func Run(r *hx.Run, replay []hx.Case) {
	if os.Getenv("C13_WORKER") == "1" {
		worker()
	}
	r.Notes["race_detector"] = raceEnabled
	var cases []hx.Case
	if replay != nil {
		for _, c := range replay {
			if len(c.Args) > 4 {
				c.Args = c.Args[:4] // the order of an earlier run is not an input
			}
			cases = append(cases, c)
		}
	} else {
		cases = genCases(r)
	}
	byID := map[string]hx.Case{}
	for _, c := range cases {
		byID[c.ID] = c
	}
	// cold-start rounds get a worker process of their own (lazily initialised package-level state of the library is
	// then first touched by concurrent goroutines); all other rounds share one worker
	var batches [][]hx.Case
	var warmBatch []hx.Case
	for _, c := range cases {
		if strings.HasPrefix(c.Kind, "mixedcold") {
			batches = append(batches, []hx.Case{c})
		} else {
			warmBatch = append(warmBatch, c)
		}
	}
	if len(warmBatch) > 0 {
		batches = append(batches, warmBatch)
	}
	races := 0
	failing := map[string]bool{} // rounds with an oracle failure; the run stops after the third one
	hangs := 0
	for _, pending := range batches {
		if len(failing) >= 3 || hangs >= 2 || r.Expired() {
			break
		}
		for attempt := 0; len(pending) > 0 && attempt < 6; attempt++ {
			var in bytes.Buffer
			for _, c := range pending {
				in.WriteString(c.Line() + "\n")
			}
			cmd := exec.Command(os.Args[0], os.Args[1:]...)
			cmd.Env = append(os.Environ(), "C13_WORKER=1", "GORACE=halt_on_error=1 exitcode=66")
			cmd.Stdin = &in
			var stderr bytes.Buffer
			cmd.Stderr = &stderr
			stdout, err := cmd.StdoutPipe()
			if err != nil {
				r.Fail("harness", "harness-worker", err.Error())
				return
			}
			if err := cmd.Start(); err != nil {
				r.Fail("harness", "harness-worker", err.Error())
				return
			}
			finished := map[string]bool{}
			inflight := ""
			sc := bufio.NewScanner(stdout)
			sc.Buffer(make([]byte, 1<<20), 1<<26)
			stop := false
			for sc.Scan() {
				t := strings.SplitN(sc.Text(), " ", 4)
				switch {
				case t[0] == "X":
					hangs++
				case t[0] == "S" && len(t) >= 2:
					inflight = t[1]
				case t[0] == "F" && len(t) >= 4:
					r.Fail(t[1], t[2], t[3])
					failing[t[1]] = true
				case t[0] == "R" && len(t) >= 4:
					c := byID[t[1]]
					c.Args = append(append([]string(nil), c.Args[:4]...), t[2])
					sp, _ := parseSpec(c)
					r.Add(c, t[3], sp.ns+sp.nd >= 2)
					r.Dist[fmt.Sprintf("goroutines<=%d", bucket(sp.ns+sp.nd))]++
					if sp.tls != "" {
						r.Dist["starttls:"+sp.tls]++
					}
					if sp.logm != "" {
						r.Dist["debuglog:"+sp.logm]++
					}
					if sp.cold {
						r.Dist["cold-start-process"]++
					}
					if sp.mech != "" {
						r.Dist["auth:"+sp.mech]++
						if sp.ns == 0 {
							r.Dist[map[bool]string{true: "dial-shape:after-warm-up", false: "dial-shape:first-dials-overlap"}[sp.warm]]++
						}
					} else {
						r.Dist["auth:none"]++
					}
					switch {
					case sp.nd == 0:
						r.Dist["mode:shared-connection"]++
					case sp.ns == 0:
						r.Dist["mode:dial-and-send"]++
					default:
						r.Dist["mode:mixed"]++
					}
					finished[t[1]] = true
					inflight = ""
					if r.Expired() || len(failing) >= 3 {
						stop = true
					}
				}
				if stop {
					break
				}
			}
			if stop {
				_ = cmd.Process.Kill()
				_ = cmd.Wait()
				break
			}
			werr := cmd.Wait()
			es := stderr.String()
			if strings.Contains(es, "DATA RACE") {
				races++
				id := inflight
				if id == "" && len(pending) > 0 {
					id = pending[0].ID
				}
				r.Fail(id, "data-race", summariseRace(es))
				failing[id] = true
				if c, ok := byID[id]; ok && !finished[id] {
					c.Args = append(append([]string(nil), c.Args[:4]...), "-")
					r.Add(c, "DATA-RACE", true)
					finished[id] = true
				}
				_ = os.WriteFile(r.Dir+"/race_report.txt", []byte(es), 0o644)
			} else if werr != nil {
				id := inflight
				if id == "" {
					id = "harness"
				}
				tail := es
				if len(tail) > 600 {
					tail = tail[len(tail)-600:]
				}
				r.Fail(id, "worker-crash", fmt.Sprintf("%v: %s", werr, strings.ReplaceAll(tail, "\n", " ")))
				if c, ok := byID[id]; ok && !finished[id] {
					c.Args = append(append([]string(nil), c.Args[:4]...), "-")
					r.Add(c, "CRASH", true)
					finished[id] = true
				}
			}
			var rest []hx.Case
			for _, c := range pending {
				if !finished[c.ID] {
					rest = append(rest, c)
				}
			}
			if len(rest) == len(pending) || hangs >= 2 || len(failing) >= 3 {
				break
			}
			pending = rest
		}
	}
	r.Notes["race_reports"] = races
	r.Notes["hangs"] = hangs
}

func bucket(n int) int {
	for _, b := range []int{2, 4, 8, 16, 32, 64} {
		if n <= b {
			return b
		}
	}
	return 64
}
