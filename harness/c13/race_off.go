//go:build !race

package c13

const raceEnabled = false
