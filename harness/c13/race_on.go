//go:build race

package c13

const raceEnabled = true
