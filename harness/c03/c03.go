// Package c03: implementation side of the C03 check (engine smtpsend); the shared machinery is in harness/sendx.
package c03

import (
	"verif/harness/hx"
	"verif/harness/sendx"
)

func init() { hx.Register("C03", Run) }

// Run generates (or replays) the cases of C03, drives the real client and applies the direct oracle.
func Run(r *hx.Run, replay []hx.Case) {
	sendx.RunProp(r, replay, "C03")
	sendx.RunDot(r, replay)
}
