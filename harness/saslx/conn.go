// Package saslx contains reference implementations of the SASL mechanisms used by SMTP AUTH (written from the RFCs,
// independent of go-mail) and small in-memory connection helpers for the verification harness.
package saslx

import (
	"bytes"
	"io"
	"net"
	"os"
	"strings"
	"sync"
	"time"
)

type dummyAddr string

func (a dummyAddr) Network() string { return "mem" }
func (a dummyAddr) String() string  { return string(a) }

// FuncConn is a synchronous scripted net.Conn for a client that never pipelines: bytes written by the client are
// collected; every time a complete line (terminated by "\n") has been written, handler(lineWithoutCRLF) is called
// synchronously inside Write and the bytes it returns are appended to the client's read buffer. Read returns buffered
// bytes; if the buffer is empty it returns io.EOF (the scripted server has nothing more to say = disconnect).
// Write after Close returns net.ErrClosed; Close is idempotent and counted. Deadlines are accepted and ignored.
type FuncConn struct {
	mu      sync.Mutex
	handler func(string) string
	rbuf    bytes.Buffer // server -> client
	wbuf    []byte       // incomplete line written by the client
	lines   []string
	closes  int
	stall   bool // the server is silent: the next Read on an empty buffer fails with a timeout error (once)
}

// StallMarker, returned by a FuncConn handler instead of reply bytes, makes the server stay silent: the client's
// next Read (with nothing buffered) returns a timeout error (a net.Error with Timeout() == true), as after an
// elapsed read deadline.
const StallMarker = "\x00STALL\x00"

type stallErr struct{}

func (stallErr) Error() string   { return "read mem: i/o timeout" }
func (stallErr) Timeout() bool   { return true }
func (stallErr) Temporary() bool { return true }

// NewFuncConn returns a FuncConn whose read buffer is pre-loaded with greeting (e.g. "220 x ESMTP\r\n").
func NewFuncConn(greeting string, handler func(line string) (reply string)) *FuncConn {
	c := &FuncConn{handler: handler}
	c.rbuf.WriteString(greeting)
	return c
}

// Read returns buffered server bytes, io.EOF when there are none, net.ErrClosed after Close.
func (c *FuncConn) Read(p []byte) (int, error) {
	c.mu.Lock()
	defer c.mu.Unlock()
	if c.closes > 0 {
		return 0, net.ErrClosed
	}
	if len(p) == 0 {
		return 0, nil
	}
	if c.rbuf.Len() == 0 && c.stall {
		c.stall = false
		return 0, stallErr{}
	}
	return c.rbuf.Read(p) // bytes.Buffer returns io.EOF when empty
}

// Write collects client bytes and runs the handler once per completed line (the handler runs without the lock held,
// so it may call Lines/CloseCount).
func (c *FuncConn) Write(p []byte) (int, error) {
	c.mu.Lock()
	if c.closes > 0 {
		c.mu.Unlock()
		return 0, net.ErrClosed
	}
	c.wbuf = append(c.wbuf, p...)
	var done []string
	for {
		i := bytes.IndexByte(c.wbuf, '\n')
		if i < 0 {
			break
		}
		line := strings.TrimSuffix(string(c.wbuf[:i]), "\r")
		c.wbuf = c.wbuf[i+1:]
		c.lines = append(c.lines, line)
		done = append(done, line)
	}
	c.mu.Unlock()
	for _, line := range done {
		reply := ""
		if c.handler != nil {
			reply = c.handler(line)
		}
		c.mu.Lock()
		if reply == StallMarker {
			c.stall = true
		} else {
			c.rbuf.WriteString(reply)
		}
		c.mu.Unlock()
	}
	return len(p), nil
}

// Close marks the connection closed; it may be called repeatedly and every call is counted.
func (c *FuncConn) Close() error {
	c.mu.Lock()
	defer c.mu.Unlock()
	c.closes++
	return nil
}

// Lines returns all complete lines the client wrote so far (without CRLF), in order.
func (c *FuncConn) Lines() []string {
	c.mu.Lock()
	defer c.mu.Unlock()
	return append([]string(nil), c.lines...)
}

// CloseCount returns how many times Close was called.
func (c *FuncConn) CloseCount() int {
	c.mu.Lock()
	defer c.mu.Unlock()
	return c.closes
}

func (c *FuncConn) LocalAddr() net.Addr              { return dummyAddr("funcconn-client") }
func (c *FuncConn) RemoteAddr() net.Addr             { return dummyAddr("funcconn-server") }
func (c *FuncConn) SetDeadline(time.Time) error      { return nil }
func (c *FuncConn) SetReadDeadline(time.Time) error  { return nil }
func (c *FuncConn) SetWriteDeadline(time.Time) error { return nil }

// pipeBuf is one direction of a Pipe: an unbounded byte queue with a single reader side and a single writer side.
type pipeBuf struct {
	mu       sync.Mutex
	cond     *sync.Cond
	data     []byte
	wclosed  bool // the writing end was closed: reader gets io.EOF once drained
	rclosed  bool // the reading end was closed: reads fail, writes fail
	deadline time.Time
	timer    *time.Timer
}

func newPipeBuf() *pipeBuf {
	b := &pipeBuf{}
	b.cond = sync.NewCond(&b.mu)
	return b
}

func (b *pipeBuf) wake(f func()) {
	b.mu.Lock()
	if f != nil {
		f()
	}
	b.cond.Broadcast()
	b.mu.Unlock()
}

type pipeEnd struct {
	rd, wr *pipeBuf
	name   string
}

// Pipe returns an in-memory full-duplex net.Conn pair with unbounded buffers: writes never block, reads block until
// data, peer close (io.EOF after the buffered data), local close (net.ErrClosed) or the read deadline
// (os.ErrDeadlineExceeded, a net.Error with Timeout()==true). Write deadlines are accepted and ignored.
func Pipe() (a, b net.Conn) {
	x, y := newPipeBuf(), newPipeBuf()
	return &pipeEnd{rd: x, wr: y, name: "pipe-a"}, &pipeEnd{rd: y, wr: x, name: "pipe-b"}
}

func (e *pipeEnd) Read(p []byte) (int, error) {
	b := e.rd
	b.mu.Lock()
	defer b.mu.Unlock()
	for {
		switch {
		case b.rclosed:
			return 0, net.ErrClosed
		case len(p) == 0:
			return 0, nil
		case len(b.data) > 0:
			n := copy(p, b.data)
			b.data = b.data[n:]
			if len(b.data) == 0 {
				b.data = nil // release the backing array
			}
			return n, nil
		case b.wclosed:
			return 0, io.EOF
		case !b.deadline.IsZero() && !time.Now().Before(b.deadline):
			return 0, os.ErrDeadlineExceeded
		}
		b.cond.Wait()
	}
}

func (e *pipeEnd) Write(p []byte) (int, error) {
	e.rd.mu.Lock()
	closed := e.rd.rclosed
	e.rd.mu.Unlock()
	if closed {
		return 0, net.ErrClosed
	}
	b := e.wr
	b.mu.Lock()
	defer b.mu.Unlock()
	if b.wclosed {
		return 0, net.ErrClosed
	}
	if b.rclosed {
		return 0, io.ErrClosedPipe
	}
	b.data = append(b.data, p...)
	b.cond.Broadcast()
	return len(p), nil
}

func (e *pipeEnd) Close() error {
	e.rd.wake(func() { e.rd.rclosed = true; e.rd.stopTimer() })
	e.wr.wake(func() { e.wr.wclosed = true })
	return nil
}

func (b *pipeBuf) stopTimer() {
	if b.timer != nil {
		b.timer.Stop()
		b.timer = nil
	}
}

func (e *pipeEnd) SetReadDeadline(t time.Time) error {
	b := e.rd
	b.wake(func() {
		b.stopTimer()
		b.deadline = t
		if d := time.Until(t); !t.IsZero() && d > 0 && !b.rclosed {
			b.timer = time.AfterFunc(d, func() { b.wake(nil) })
		}
	})
	return nil
}

func (e *pipeEnd) SetDeadline(t time.Time) error    { return e.SetReadDeadline(t) }
func (e *pipeEnd) SetWriteDeadline(time.Time) error { return nil }
func (e *pipeEnd) LocalAddr() net.Addr              { return dummyAddr(e.name) }
func (e *pipeEnd) RemoteAddr() net.Addr             { return dummyAddr(e.name + "-peer") }
