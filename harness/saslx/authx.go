package saslx

// Helpers shared by the C14/C15/C16 harnesses: driving smtp.Client.Auth of the code under test over a scripted
// in-memory connection, classifying its result, PRECIS through x/text.

import (
	"crypto/tls"
	"encoding/base64"
	"encoding/hex"
	"errors"
	"net"
	"net/textproto"
	"strconv"
	"strings"

	"github.com/wneessen/go-mail/smtp"
	"golang.org/x/text/secure/precis"
)

// Classify maps the error returned by smtp.Client.Auth to the result classes of the model
// (coq/theories/SaslRun.v result_code).
func Classify(err error) string {
	if err == nil {
		return "OK"
	}
	var te *textproto.Error
	if errors.As(err, &te) {
		return "ESRV" + strconv.Itoa(te.Code)
	}
	// only the Auth loop's own decoding error (returned unwrapped); a mechanism's wrapped decoding error is EMECH
	if _, ok := err.(base64.CorruptInputError); ok {
		return "EB64"
	}
	if errors.Is(err, smtp.ErrUnencrypted) || errors.Is(err, smtp.ErrWrongHostname) {
		return "ESTART"
	}
	var ne net.Error
	if errors.As(err, &ne) && ne.Timeout() {
		return "EIO"
	}
	var pe textproto.ProtocolError
	if errors.As(err, &pe) {
		return "EIO"
	}
	s := err.Error()
	if s == "EOF" || strings.Contains(s, "EOF") || strings.Contains(s, "closed") || strings.Contains(s, "short response") {
		return "EIO"
	}
	return "EMECH"
}

// Opaque is precis.OpaqueString (nil, false on error) — the PRECIS oracle value handed to the model.
func Opaque(s string) ([]byte, bool) {
	out, err := precis.OpaqueString.String(s)
	if err != nil {
		return nil, false
	}
	return []byte(out), true
}

// Session runs one smtp.Client over a FuncConn: the EHLO exchange is answered with caps, every later line
// goes to onLine, whose return value ("" = say nothing, the client then reads EOF) is the raw reply.
type Session struct {
	Conn   *FuncConn
	Client *smtp.Client
	Lines  []string // lines received after the EHLO exchange
	// HelloLines is the number of EHLO/HELO lines the server saw
	HelloLines int
	onLine     func(line string) string
}

// NewSession connects a client to a scripted server and completes the EHLO exchange.
func NewSession(host string, caps []string, onLine func(line string) string) (*Session, error) {
	return NewSessionHello(host, caps, onLine, "e")
}

// NewSessionHello is NewSession with a choice of how the hello exchange happens: "e" = the harness calls
// Client.Hello before handing the client out; "i" = no explicit hello: the first command method (e.g. Auth) performs
// the implicit EHLO; "h" = as "i" but the server rejects EHLO (502) so the client falls back to HELO.
// HelloLines counts the EHLO/HELO lines seen (their log records precede those of the command).
func NewSessionHello(host string, caps []string, onLine func(line string) string, mode string) (*Session, error) {
	s := &Session{onLine: onLine}
	inHello := true
	s.Conn = NewFuncConn("220 "+host+" ESMTP\r\n", func(line string) string {
		if inHello && strings.HasPrefix(line, "EHLO") {
			s.HelloLines++
			if mode == "h" {
				return "502 5.5.1 command not implemented\r\n"
			}
			var b strings.Builder
			b.WriteString("250-" + host + "\r\n")
			for _, c := range caps {
				b.WriteString("250-" + c + "\r\n")
			}
			b.WriteString("250 OK\r\n")
			return b.String()
		}
		if inHello && strings.HasPrefix(line, "HELO") {
			s.HelloLines++
			return "250 " + host + "\r\n"
		}
		inHello = false
		s.Lines = append(s.Lines, line)
		return s.onLine(line)
	})
	c, err := smtp.NewClient(s.Conn, host)
	if err != nil {
		return nil, err
	}
	if mode == "e" {
		if err := c.Hello("localhost"); err != nil {
			return nil, err
		}
		inHello = false
	}
	s.Client = c
	return s, nil
}

// FormatReply renders a reply the way an SMTP server writes it (multi-line texts are split at "\n").
func FormatReply(code int, text string) string {
	parts := strings.Split(text, "\n")
	var b strings.Builder
	for i, p := range parts {
		sep := "-"
		if i == len(parts)-1 {
			sep = " "
		}
		b.WriteString(strconv.Itoa(code) + sep + p + "\r\n")
	}
	return b.String()
}

// B64 is base64.StdEncoding.EncodeToString.
func B64(b []byte) string { return base64.StdEncoding.EncodeToString(b) }

// UnB64 decodes strictly (nil, false on error).
func UnB64(s string) ([]byte, bool) {
	b, err := base64.StdEncoding.DecodeString(s)
	if err != nil || strings.ContainsAny(s, "\r\n") {
		return nil, false
	}
	return b, true
}

// ---- TLS connection states for the -PLUS mechanisms: one real handshake per protocol version and process ----
var tlsStates = map[uint16]*tls.ConnectionState{}

// TLSState returns the client side's ConnectionState of a real in-memory handshake of the given version.
func TLSState(ver uint16) *tls.ConnectionState {
	if st, ok := tlsStates[ver]; ok {
		return st
	}
	c, _, err := NewTLSPair(ver)
	if err != nil {
		panic("tls pair: " + err.Error())
	}
	st := c.ConnectionState()
	tlsStates[ver] = &st
	return &st
}

// TLSArg renders what scramAuth reads from the state as a model case argument: "<v13>:<tls-unique|!>:<exporter|!>".
func TLSArg(st *tls.ConnectionState) string {
	if st == nil {
		return "-"
	}
	v13 := "0"
	if st.Version >= tls.VersionTLS13 {
		v13 = "1"
	}
	u := "!"
	if st.TLSUnique != nil {
		u = hex.EncodeToString(st.TLSUnique)
	}
	e := "!"
	if d, err := st.ExportKeyingMaterial("EXPORTER-Channel-Binding", []byte{}, 32); err == nil {
		e = hex.EncodeToString(d)
	}
	return v13 + ":" + u + ":" + e
}
