package saslx

import (
	"bytes"
	"crypto/hmac"
	"crypto/md5"
	"encoding/hex"
	"errors"
	"fmt"
	"strings"
	"unicode/utf8"
)

// ParsePlain parses an RFC 4616 PLAIN message [authzid] NUL authcid NUL passwd: exactly two NULs, valid UTF-8.
// An empty authcid or passwd (forbidden by the 1*SAFE grammar) is returned as the empty string without an error so
// that the caller can report it; any further NUL is an error.
func ParsePlain(msg []byte) (authzid, authcid, passwd string, err error) {
	parts := bytes.Split(msg, []byte{0})
	if len(parts) != 3 {
		return "", "", "", fmt.Errorf("plain: %d NUL separators, want exactly 2", len(parts)-1)
	}
	if !utf8.Valid(msg) {
		return "", "", "", errors.New("plain: message is not valid UTF-8")
	}
	return string(parts[0]), string(parts[1]), string(parts[2]), nil
}

// CramChallenge builds an RFC 2195 challenge (a msg-id) from a seed.
func CramChallenge(seed string) string { return "<" + seed + "@verif.test>" }

// CramResponse is the reference RFC 2195 client response: user SP hex(HMAC-MD5(secret, challenge)).
func CramResponse(user, secret, challenge string) string {
	m := hmac.New(md5.New, []byte(secret))
	m.Write([]byte(challenge))
	return user + " " + hex.EncodeToString(m.Sum(nil))
}

// VerifyCram checks an RFC 2195 response. The digest is the 32 lower-case hex digits after the LAST space (user names
// may contain spaces). user is returned whenever the response is well-formed; ok only if the digest matches.
func VerifyCram(challenge string, response []byte, secretOf func(user string) (string, bool)) (user string, ok bool) {
	resp := string(response)
	i := strings.LastIndexByte(resp, ' ')
	if i < 0 {
		return "", false
	}
	digest := resp[i+1:]
	if len(digest) != 2*md5.Size || strings.Trim(digest, "0123456789abcdef") != "" {
		return "", false
	}
	user = resp[:i]
	secret, known := secretOf(user)
	if !known {
		return user, false
	}
	return user, hmac.Equal([]byte(CramResponse(user, secret, challenge)), response)
}

// ParseXOAuth2 parses "user=" {User} "^A" "auth=Bearer " {token} "^A^A" (Google's XOAUTH2 initial response). The user
// runs to the first ^A; the token must not contain ^A. Empty user/token are returned as such without an error.
func ParseXOAuth2(msg []byte) (user, token string, err error) {
	const soh = "\x01"
	s := string(msg)
	if !strings.HasPrefix(s, "user=") {
		return "", "", errors.New("xoauth2: missing \"user=\" prefix")
	}
	s = s[len("user="):]
	i := strings.Index(s, soh)
	if i < 0 {
		return "", "", errors.New("xoauth2: missing ^A after the user")
	}
	user, s = s[:i], s[i+1:]
	if !strings.HasPrefix(s, "auth=Bearer ") {
		return "", "", errors.New("xoauth2: missing \"auth=Bearer \" field")
	}
	s = s[len("auth=Bearer "):]
	if !strings.HasSuffix(s, soh+soh) {
		return "", "", errors.New("xoauth2: message does not end in ^A^A")
	}
	token = s[:len(s)-2]
	if strings.Contains(token, soh) {
		return "", "", errors.New("xoauth2: ^A inside the token")
	}
	return user, token, nil
}

// selfTestSimple checks the RFC 2195 and RFC 4616 examples and the PLAIN/CRAM-MD5/XOAUTH2 corner cases.
func selfTestSimple() error {
	const chal, resp = "<1896.697170952@postoffice.reston.mci.net>", "tim b913a602c7eda7a495b4e6e7334d3890"
	secrets := map[string]string{"tim": "tanstaaftanstaaf", "tim the enchanter": "s3"}
	secretOf := func(u string) (string, bool) { s, ok := secrets[u]; return s, ok }
	if got := CramResponse("tim", "tanstaaftanstaaf", chal); got != resp {
		return fmt.Errorf("CramResponse: RFC 2195 example: got %q", got)
	}
	if u, ok := VerifyCram(chal, []byte(resp), secretOf); !ok || u != "tim" {
		return fmt.Errorf("VerifyCram: RFC 2195 example rejected (%q, %v)", u, ok)
	}
	if u, ok := VerifyCram(chal, []byte(CramResponse("tim the enchanter", "s3", chal)), secretOf); !ok || u != "tim the enchanter" {
		return fmt.Errorf("VerifyCram: user name with spaces rejected (%q, %v)", u, ok)
	}
	for _, r := range []string{"", "tim", "tim ", "tim B913A602C7EDA7A495B4E6E7334D3890", "tim b913a602c7eda7a495b4e6e7334d3891", "tom b913a602c7eda7a495b4e6e7334d3890",
		"tim b913a602c7eda7a495b4e6e7334d389", "tim  b913a602c7eda7a495b4e6e7334d3890", resp + " "} {
		if u, ok := VerifyCram(chal, []byte(r), secretOf); ok {
			return fmt.Errorf("VerifyCram(%q) accepted (user %q)", r, u)
		}
	}
	if _, ok := VerifyCram(CramChallenge("1"), []byte(resp), secretOf); ok || CramChallenge("1") != "<1@verif.test>" {
		return errors.New("VerifyCram accepted a response to another challenge, or CramChallenge is wrong")
	}
	if z, c, p, err := ParsePlain([]byte("\x00tim\x00tanstaaftanstaaf")); err != nil || z != "" || c != "tim" || p != "tanstaaftanstaaf" {
		return fmt.Errorf("ParsePlain: RFC 4616 example 1: %q %q %q %v", z, c, p, err)
	}
	if z, c, p, err := ParsePlain([]byte("Ursel\x00Kurt\x00xipj3plmq")); err != nil || z != "Ursel" || c != "Kurt" || p != "xipj3plmq" {
		return fmt.Errorf("ParsePlain: RFC 4616 example 2: %q %q %q %v", z, c, p, err)
	}
	if z, c, p, err := ParsePlain([]byte("\x00\x00")); err != nil || z+c+p != "" {
		return fmt.Errorf("ParsePlain: empty authcid/passwd must parse: %q %q %q %v", z, c, p, err)
	}
	for _, m := range []string{"", "tim", "tim\x00pw", "\x00tim\x00pw\x00", "\x00\x00tim\x00pw", "\x00tim\x00p\xffw"} {
		if _, _, _, err := ParsePlain([]byte(m)); err == nil {
			return fmt.Errorf("ParsePlain(%q) accepted", m)
		}
	}
	if u, tok, err := ParseXOAuth2([]byte("user=someuser@example.com\x01auth=Bearer ya29.vF9dft4qmTc2Nvb3RlckBhdHRhdmlzdGEuY29tCg\x01\x01")); err != nil ||
		u != "someuser@example.com" || tok != "ya29.vF9dft4qmTc2Nvb3RlckBhdHRhdmlzdGEuY29tCg" {
		return fmt.Errorf("ParseXOAuth2: documented example: %q %q %v", u, tok, err)
	}
	for _, m := range []string{"", "user=u", "user=u\x01auth=Bearer t", "user=u\x01auth=Bearer t\x01", "user=u\x01auth=Bearer t\x01\x01\x01", "user=u\x01auth=bearer t\x01\x01",
		"user=u\x01auth=Bearer t\x01\x01x", "User=u\x01auth=Bearer t\x01\x01", "user=u\x01\x01auth=Bearer t\x01\x01", " user=u\x01auth=Bearer t\x01\x01"} {
		if u, tok, err := ParseXOAuth2([]byte(m)); err == nil {
			return fmt.Errorf("ParseXOAuth2(%q) accepted: %q %q", m, u, tok)
		}
	}
	return nil
}
