package saslx

import (
	"crypto/hmac"
	"crypto/sha1"
	"crypto/sha256"
	"encoding/base64"
	"errors"
	"fmt"
	"hash"
	"strconv"
	"strings"
	"unicode/utf8"
)

// Hash names a SCRAM hash function (RFC 5802: SHA-1, RFC 7677: SHA-256).
type Hash struct {
	Name string
	New  func() hash.Hash
	Size int
}

var (
	SHA1   = Hash{Name: "SHA-1", New: sha1.New, Size: sha1.Size}
	SHA256 = Hash{Name: "SHA-256", New: sha256.New, Size: sha256.Size}
)

// HMAC is HMAC(key, str) of RFC 5802 section 2.2.
func HMAC(h Hash, key, msg []byte) []byte {
	m := hmac.New(h.New, key)
	m.Write(msg)
	return m.Sum(nil)
}

// H is the plain hash function.
func H(h Hash, msg []byte) []byte {
	d := h.New()
	d.Write(msg)
	return d.Sum(nil)
}

// XOR returns the byte-wise exclusive or of two equally long strings (nil if the lengths differ).
func XOR(a, b []byte) []byte {
	if len(a) != len(b) {
		return nil
	}
	out := make([]byte, len(a))
	for i := range a {
		out[i] = a[i] ^ b[i]
	}
	return out
}

// Hi is RFC 5802 section 2.2: U1 = HMAC(str, salt || INT(1)), Ui = HMAC(str, Ui-1), Hi = U1 xor ... xor Ui.
// It returns nil for iter < 1.
func Hi(h Hash, str, salt []byte, iter int) []byte {
	if iter < 1 {
		return nil
	}
	u := HMAC(h, str, append(append([]byte(nil), salt...), 0, 0, 0, 1))
	out := append([]byte(nil), u...)
	for i := 2; i <= iter; i++ {
		u = HMAC(h, str, u)
		for j := range out {
			out[j] ^= u[j]
		}
	}
	return out
}

func SaltedPassword(h Hash, normalizedPassword, salt []byte, iter int) []byte {
	return Hi(h, normalizedPassword, salt, iter)
}
func ClientKey(h Hash, salted []byte) []byte    { return HMAC(h, salted, []byte("Client Key")) }
func StoredKey(h Hash, clientKey []byte) []byte { return H(h, clientKey) }
func ServerKey(h Hash, salted []byte) []byte    { return HMAC(h, salted, []byte("Server Key")) }
func ClientSignature(h Hash, storedKey, authMessage []byte) []byte {
	return HMAC(h, storedKey, authMessage)
}
func ServerSignature(h Hash, serverKey, authMessage []byte) []byte {
	return HMAC(h, serverKey, authMessage)
}

// ClientProof is ClientKey XOR ClientSignature for the given SaltedPassword and AuthMessage (reference client side).
func ClientProof(h Hash, salted, authMessage []byte) []byte {
	ck := ClientKey(h, salted)
	return XOR(ck, ClientSignature(h, StoredKey(h, ck), authMessage))
}

// EscapeName encodes a saslname: '=' -> "=3D", ',' -> "=2C".
func EscapeName(s string) string {
	return strings.NewReplacer("=", "=3D", ",", "=2C").Replace(s)
}

// UnescapeName is the inverse of EscapeName; false on a '=' not followed by 2C/3D or on a raw ','.
func UnescapeName(s string) (string, bool) {
	var b strings.Builder
	for i := 0; i < len(s); i++ {
		switch {
		case s[i] == ',':
			return "", false
		case s[i] != '=':
			b.WriteByte(s[i])
		case strings.HasPrefix(s[i:], "=2C"):
			b.WriteByte(',')
			i += 2
		case strings.HasPrefix(s[i:], "=3D"):
			b.WriteByte('=')
			i += 2
		default:
			return "", false
		}
	}
	return b.String(), true
}

var b64 = base64.StdEncoding.Strict()

func b64dec(s string) ([]byte, error) {
	if strings.ContainsAny(s, "\r\n") { // the std decoder silently skips these
		return nil, errors.New("line break in base64")
	}
	return b64.DecodeString(s)
}

// saslname parses 1*(value-safe-char / "=2C" / "=3D") (value-safe-char: UTF-8 without NUL, ',' and '=').
func saslname(raw string) (string, error) {
	s, ok := UnescapeName(raw)
	if !ok || raw == "" || !utf8.ValidString(raw) || strings.IndexByte(raw, 0) >= 0 {
		return "", fmt.Errorf("invalid saslname %q", raw)
	}
	return s, nil
}

func isAlpha(c byte) bool { return c|0x20 >= 'a' && c|0x20 <= 'z' }

// checkExt validates optional extensions: attr-val = ALPHA "=" 1*value-char.
func checkExt(parts []string) error {
	for _, p := range parts {
		if len(p) < 3 || !isAlpha(p[0]) || p[1] != '=' || !utf8.ValidString(p) || strings.IndexByte(p, 0) >= 0 {
			return fmt.Errorf("malformed extension %q", p)
		}
	}
	return nil
}

// attr returns the value of p if p is "<name>=<value>".
func attr(p string, name byte) (string, error) {
	if strings.HasPrefix(p, "m=") && name != 'm' {
		return "", fmt.Errorf("unsupported mandatory extension %q", p)
	}
	if len(p) < 2 || p[0] != name || p[1] != '=' {
		return "", fmt.Errorf("expected attribute %q, got %q", string(name)+"=", p)
	}
	return p[2:], nil
}

// ClientFirst is a parsed client-first-message.
type ClientFirst struct {
	GS2Header string // e.g. "n,," or "p=tls-unique,," or "y,,"
	CBFlag    string // "n", "y", "p"
	CBName    string
	Authzid   string // unescaped
	User      string // unescaped
	RawUser   string
	Nonce     string
	Bare      string // client-first-message-bare
}

// ParseClientFirst is a strict RFC 5802 section 7 parser for
// gs2-cbind-flag "," [authzid] "," [reserved-mext ","] username "," nonce ["," extensions].
func ParseClientFirst(msg []byte) (cf ClientFirst, err error) {
	parts := strings.Split(string(msg), ",")
	if len(parts) < 4 {
		return cf, fmt.Errorf("client-first: too few fields in %q", msg)
	}
	switch flag := parts[0]; {
	case flag == "n" || flag == "y":
		cf.CBFlag = flag
	case strings.HasPrefix(flag, "p=") && len(flag) > 2:
		cf.CBFlag, cf.CBName = "p", flag[2:]
		for i := 0; i < len(cf.CBName); i++ {
			if c := cf.CBName[i]; !isAlpha(c) && (c < '0' || c > '9') && c != '.' && c != '-' {
				return cf, fmt.Errorf("client-first: invalid cb-name %q", cf.CBName)
			}
		}
	default:
		return cf, fmt.Errorf("client-first: invalid gs2-cbind-flag %q", flag)
	}
	if parts[1] != "" {
		a, err := attr(parts[1], 'a')
		if err == nil {
			cf.Authzid, err = saslname(a)
		}
		if err != nil {
			return cf, fmt.Errorf("client-first: authzid: %v", err)
		}
	}
	cf.GS2Header = parts[0] + "," + parts[1] + ","
	cf.Bare = string(msg[len(cf.GS2Header):])
	if cf.RawUser, err = attr(parts[2], 'n'); err != nil {
		return cf, fmt.Errorf("client-first: %v", err)
	}
	if cf.User, err = saslname(cf.RawUser); err != nil {
		return cf, fmt.Errorf("client-first: username: %v", err)
	}
	if cf.Nonce, err = attr(parts[3], 'r'); err != nil || cf.Nonce == "" {
		return cf, fmt.Errorf("client-first: missing or empty nonce (%v)", err)
	}
	if err = checkExt(parts[4:]); err != nil {
		return cf, fmt.Errorf("client-first: %v", err)
	}
	return cf, nil
}

// ClientFinal is a parsed client-final-message.
type ClientFinal struct {
	CBind64      string
	CBind        []byte // decoded c=
	Nonce        string
	Proof        []byte // decoded p=
	WithoutProof string // client-final-message-without-proof
}

// ParseClientFinal is a strict parser for channel-binding "," nonce ["," extensions] "," proof.
func ParseClientFinal(msg []byte) (cf ClientFinal, err error) {
	parts := strings.Split(string(msg), ",")
	if len(parts) < 3 {
		return cf, fmt.Errorf("client-final: too few fields in %q", msg)
	}
	last := parts[len(parts)-1]
	if cf.CBind64, err = attr(parts[0], 'c'); err != nil {
		return cf, fmt.Errorf("client-final: %v", err)
	}
	if cf.CBind, err = b64dec(cf.CBind64); err != nil || len(cf.CBind) == 0 {
		return cf, fmt.Errorf("client-final: invalid channel-binding %q (%v)", cf.CBind64, err)
	}
	if cf.Nonce, err = attr(parts[1], 'r'); err != nil || cf.Nonce == "" {
		return cf, fmt.Errorf("client-final: missing or empty nonce (%v)", err)
	}
	if err = checkExt(parts[2 : len(parts)-1]); err != nil {
		return cf, fmt.Errorf("client-final: %v", err)
	}
	p, err := attr(last, 'p')
	if err != nil {
		return cf, fmt.Errorf("client-final: %v", err)
	}
	if cf.Proof, err = b64dec(p); err != nil || len(cf.Proof) == 0 {
		return cf, fmt.Errorf("client-final: invalid proof %q (%v)", p, err)
	}
	cf.WithoutProof = string(msg[:len(msg)-len(last)-1])
	return cf, nil
}

// ServerFirst is a parsed server-first-message.
type ServerFirst struct {
	Nonce string
	Salt  []byte
	Iter  int
	Raw   string
}

// ParseServerFirst is a strict parser for [reserved-mext ","] nonce "," salt "," iteration-count ["," extensions]
// (iteration-count = posit-number: no sign, no leading zero, >= 1).
func ParseServerFirst(msg []byte) (sf ServerFirst, err error) {
	sf.Raw = string(msg)
	parts := strings.Split(sf.Raw, ",")
	if len(parts) < 3 {
		return sf, fmt.Errorf("server-first: too few fields in %q", msg)
	}
	if sf.Nonce, err = attr(parts[0], 'r'); err != nil || sf.Nonce == "" {
		return sf, fmt.Errorf("server-first: missing or empty nonce (%v)", err)
	}
	s, err := attr(parts[1], 's')
	if err != nil {
		return sf, fmt.Errorf("server-first: %v", err)
	}
	if sf.Salt, err = b64dec(s); err != nil || len(sf.Salt) == 0 {
		return sf, fmt.Errorf("server-first: invalid salt %q (%v)", s, err)
	}
	it, err := attr(parts[2], 'i')
	if err != nil {
		return sf, fmt.Errorf("server-first: %v", err)
	}
	if it == "" || it[0] < '1' || it[0] > '9' || strings.Trim(it, "0123456789") != "" {
		return sf, fmt.Errorf("server-first: invalid iteration count %q", it)
	}
	if sf.Iter, err = strconv.Atoi(it); err != nil {
		return sf, fmt.Errorf("server-first: iteration count: %v", err)
	}
	if err = checkExt(parts[3:]); err != nil {
		return sf, fmt.Errorf("server-first: %v", err)
	}
	return sf, nil
}

// Stored is the credential record kept by a SCRAM server.
type Stored struct {
	Salt                 []byte
	Iter                 int
	StoredKey, ServerKey []byte
}

// Store derives the server-side credentials from an already normalized (SASLprep) password.
func Store(h Hash, normalizedPassword string, salt []byte, iter int) Stored {
	sp := SaltedPassword(h, []byte(normalizedPassword), salt, iter)
	return Stored{Salt: append([]byte(nil), salt...), Iter: iter, StoredKey: StoredKey(h, ClientKey(h, sp)), ServerKey: ServerKey(h, sp)}
}

// ScramServer is a conforming SCRAM server for one exchange.
type ScramServer struct {
	Hash           Hash
	Plus           bool   // the selected mechanism is the -PLUS variant
	CBType         string // server side's channel binding type ("tls-unique", "tls-exporter")
	CBData         []byte // server side's view of the channel binding; nil if no TLS
	Lookup         func(user string) (Stored, bool)
	NonceSuffix    string // server nonce part to append ("SrvNonce" if empty)
	AdvertisedPlus bool   // optional: the server also advertised the -PLUS variant, so gs2 flag "y" is a downgrade (RFC 5802 section 6)
	// FirstExt is appended to the server-first-message: optional extensions after the iteration count (RFC 5802 section 7:
	// nonce "," salt "," iteration-count ["," extensions]), e.g. ",x-ext=1"; FirstPrefix is put in front of it (e.g. the
	// mandatory extension "m=1," which a client that does not know it must refuse)
	FirstExt    string
	FirstPrefix string

	cf          ClientFirst
	cred        Stored
	serverFirst string
	authMessage []byte
	state       int // 0 new, 1 first done, 2 finished (success or failure)
}

// First handles the client-first-message and returns the server-first-message.
func (s *ScramServer) First(clientFirst []byte) (serverFirst []byte, err error) {
	if s.state != 0 {
		return nil, errors.New("scram: First called twice")
	}
	s.state = 2
	cf, err := ParseClientFirst(clientFirst)
	if err != nil {
		return nil, err
	}
	switch {
	case s.Plus && cf.CBFlag != "p":
		return nil, fmt.Errorf("scram: -PLUS mechanism requires gs2 flag p, got %q", cf.CBFlag)
	case s.Plus && (cf.CBName != s.CBType || len(s.CBData) == 0):
		return nil, fmt.Errorf("scram: channel binding type %q not available (server has %q)", cf.CBName, s.CBType)
	case !s.Plus && cf.CBFlag == "p":
		return nil, errors.New("scram: gs2 flag p used with a non-PLUS mechanism")
	case !s.Plus && cf.CBFlag == "y" && s.AdvertisedPlus:
		return nil, errors.New("scram: gs2 flag y although -PLUS was advertised (downgrade)")
	}
	cred, ok := s.Lookup(cf.User)
	if !ok {
		return nil, fmt.Errorf("scram: unknown user %q", cf.User)
	}
	suffix := s.NonceSuffix
	if suffix == "" {
		suffix = "SrvNonce"
	}
	s.cf, s.cred, s.state = cf, cred, 1
	s.serverFirst = s.FirstPrefix + "r=" + cf.Nonce + suffix + ",s=" + b64.EncodeToString(cred.Salt) + ",i=" + strconv.Itoa(cred.Iter) + s.FirstExt
	return []byte(s.serverFirst), nil
}

// Final handles the client-final-message and returns the server-final-message "v=..."; any error means
// authentication failure (the caller answers 535).
func (s *ScramServer) Final(clientFinal []byte) (serverFinal []byte, err error) {
	if s.state != 1 {
		return nil, errors.New("scram: Final called out of order")
	}
	s.state = 2
	fin, err := ParseClientFinal(clientFinal)
	if err != nil {
		return nil, err
	}
	if want := s.serverFirst[2:strings.IndexByte(s.serverFirst, ',')]; fin.Nonce != want {
		return nil, fmt.Errorf("scram: nonce mismatch: got %q, want %q", fin.Nonce, want)
	}
	cbind := []byte(s.cf.GS2Header)
	if s.cf.CBFlag == "p" {
		cbind = append(cbind, s.CBData...)
	}
	if !hmac.Equal(fin.CBind, cbind) {
		return nil, fmt.Errorf("scram: channel binding mismatch: got c=%s, want c=%s", fin.CBind64, b64.EncodeToString(cbind))
	}
	s.authMessage = []byte(s.cf.Bare + "," + s.serverFirst + "," + fin.WithoutProof)
	clientKey := XOR(fin.Proof, ClientSignature(s.Hash, s.cred.StoredKey, s.authMessage))
	if clientKey == nil || !hmac.Equal(StoredKey(s.Hash, clientKey), s.cred.StoredKey) {
		return nil, errors.New("scram: invalid client proof")
	}
	return []byte("v=" + b64.EncodeToString(ServerSignature(s.Hash, s.cred.ServerKey, s.authMessage))), nil
}

// AuthMessage returns client-first-message-bare "," server-first-message "," client-final-message-without-proof
// (nil before Final got that far).
func (s *ScramServer) AuthMessage() []byte { return s.authMessage }

type scramVector struct {
	h                                             Hash
	user, pass, cnonce, suffix, salt64, proof, sv string
}

func (v scramVector) run() error {
	salt, err := b64dec(v.salt64)
	if err != nil {
		return err
	}
	cred := Store(v.h, v.pass, salt, 4096)
	lookup := func(u string) (Stored, bool) { return cred, u == v.user }
	bare := "n=" + EscapeName(v.user) + ",r=" + v.cnonce
	// exchange runs one full reference-client/ScramServer exchange and returns the client proof and server-final.
	exchange := func(s *ScramServer, gs2 string, clientCB []byte, tamper func(final string) string) (string, string, error) {
		first, err := s.First([]byte(gs2 + bare))
		if err != nil {
			return "", "", err
		}
		sf, err := ParseServerFirst(first)
		if err != nil {
			return "", "", err
		}
		if sf.Nonce != v.cnonce+s.NonceSuffix || !hmac.Equal(sf.Salt, salt) || sf.Iter != 4096 {
			return "", "", fmt.Errorf("unexpected server-first %q", first)
		}
		without := "c=" + b64.EncodeToString(append([]byte(gs2), clientCB...)) + ",r=" + sf.Nonce
		auth := bare + "," + sf.Raw + "," + without
		proof := b64.EncodeToString(ClientProof(v.h, SaltedPassword(v.h, []byte(v.pass), sf.Salt, sf.Iter), []byte(auth)))
		final := without + ",p=" + proof
		if tamper != nil {
			final = tamper(final)
		}
		out, err := s.Final([]byte(final))
		if err == nil && string(s.AuthMessage()) != auth {
			err = fmt.Errorf("AuthMessage %q, want %q", s.AuthMessage(), auth)
		}
		return proof, string(out), err
	}
	proof, out, err := exchange(&ScramServer{Hash: v.h, Lookup: lookup, NonceSuffix: v.suffix}, "n,,", nil, nil)
	if err != nil || proof != v.proof || out != "v="+v.sv {
		return fmt.Errorf("RFC vector: proof %q (want %q), server-final %q (want v=%s), err %v", proof, v.proof, out, v.sv, err)
	}
	cb := []byte{0, 1, 2, 0xff, ',', '='}
	plus := func() *ScramServer {
		return &ScramServer{Hash: v.h, Plus: true, CBType: "tls-exporter", CBData: cb, Lookup: lookup, NonceSuffix: v.suffix}
	}
	if _, _, err = exchange(plus(), "p=tls-exporter,,", cb, nil); err != nil {
		return fmt.Errorf("-PLUS exchange: %v", err)
	}
	flip := func(f string) string { // invert one bit of the proof
		i := strings.LastIndex(f, ",p=") + 3
		p, _ := b64dec(f[i:])
		p[0] ^= 1
		return f[:i] + b64.EncodeToString(p)
	}
	bad := map[string]func() (string, string, error){
		"wrong channel binding data": func() (string, string, error) { return exchange(plus(), "p=tls-exporter,,", []byte("other"), nil) },
		"wrong channel binding type": func() (string, string, error) { return exchange(plus(), "p=tls-unique,,", cb, nil) },
		"n flag with -PLUS":          func() (string, string, error) { return exchange(plus(), "n,,", nil, nil) },
		"p flag without -PLUS": func() (string, string, error) {
			return exchange(&ScramServer{Hash: v.h, Lookup: lookup, NonceSuffix: "x"}, "p=tls-exporter,,", cb, nil)
		},
		"y flag downgrade": func() (string, string, error) {
			return exchange(&ScramServer{Hash: v.h, Lookup: lookup, NonceSuffix: "x", AdvertisedPlus: true}, "y,,", nil, nil)
		},
		"tampered proof": func() (string, string, error) {
			return exchange(&ScramServer{Hash: v.h, Lookup: lookup, NonceSuffix: "x"}, "n,,", nil, flip)
		},
		"tampered nonce": func() (string, string, error) {
			return exchange(&ScramServer{Hash: v.h, Lookup: lookup, NonceSuffix: "x"}, "n,,", nil,
				func(f string) string { return strings.Replace(f, ",r=", ",r=z", 1) })
		},
		"unknown user": func() (string, string, error) {
			return exchange(&ScramServer{Hash: v.h, Lookup: func(string) (Stored, bool) { return Stored{}, false }}, "n,,", nil, nil)
		},
	}
	for name, f := range bad {
		if _, _, err := f(); err == nil {
			return fmt.Errorf("%s: accepted", name)
		}
	}
	return nil
}

// SelfTest validates this package on the RFC 5802 section 5 and RFC 7677 section 3 SCRAM vectors (ScramServer run
// against the RFC's client messages via a recomputed client proof, which must equal the RFC's), on negative and -PLUS
// variants, on parser corner cases, and on the RFC 2195 / RFC 4616 examples. It returns nil or a descriptive error.
func SelfTest() error {
	vectors := []scramVector{
		{SHA1, "user", "pencil", "fyko+d2lbbFgONRv9qkxdawL", "3rfcNHYJY1ZVvWVs7j", "QSXCR+Q6sek8bf92",
			"v0X8v3Bz2T0CJGbJQyF0X+HI4Ts=", "rmF9pqV8S7suAoZWja4dJRkFsKQ="},
		{SHA256, "user", "pencil", "rOprNGfwEbeRWgbNEkqO", "%hvYDpWUa2RaTCAfuxFIlj)hNlF$k0", "W22ZaJ0SNY7soEsUEjb6gQ==",
			"dHzbZapWIk4jUhN+Ute9ytag9zjfMHgsqmmiz7AndVQ=", "6rriTRBi23WpRR/wtup+mMhUZUn/dB5nLTJRsjl95G4="},
		{SHA256, "a=b,c", "p,=", "cn", "sn", "c2FsdA==", "", ""}, // escaping; expected values filled in below
	}
	for i, v := range vectors {
		if v.proof == "" { // no published vector: self-consistency only
			salt, _ := b64dec(v.salt64)
			sp := SaltedPassword(v.h, []byte(v.pass), salt, 4096)
			auth := []byte("n=" + EscapeName(v.user) + ",r=" + v.cnonce + ",r=" + v.cnonce + v.suffix + ",s=" + v.salt64 + ",i=4096,c=biws,r=" + v.cnonce + v.suffix)
			v.proof = b64.EncodeToString(ClientProof(v.h, sp, auth))
			v.sv = b64.EncodeToString(ServerSignature(v.h, ServerKey(v.h, sp), auth))
		}
		if err := v.run(); err != nil {
			return fmt.Errorf("scram vector %d (%s): %v", i, v.h.Name, err)
		}
	}
	// The literal RFC 5802 client messages against the server.
	salt, _ := b64dec("QSXCR+Q6sek8bf92")
	s := &ScramServer{Hash: SHA1, NonceSuffix: "3rfcNHYJY1ZVvWVs7j", Lookup: func(string) (Stored, bool) { return Store(SHA1, "pencil", salt, 4096), true }}
	if out, err := s.First([]byte("n,,n=user,r=fyko+d2lbbFgONRv9qkxdawL")); err != nil || string(out) != "r=fyko+d2lbbFgONRv9qkxdawL3rfcNHYJY1ZVvWVs7j,s=QSXCR+Q6sek8bf92,i=4096" {
		return fmt.Errorf("RFC 5802 server-first: %q, %v", out, err)
	}
	if out, err := s.Final([]byte("c=biws,r=fyko+d2lbbFgONRv9qkxdawL3rfcNHYJY1ZVvWVs7j,p=v0X8v3Bz2T0CJGbJQyF0X+HI4Ts=")); err != nil || string(out) != "v=rmF9pqV8S7suAoZWja4dJRkFsKQ=" {
		return fmt.Errorf("RFC 5802 server-final: %q, %v", out, err)
	}
	// Hi against the well-known PBKDF2-HMAC-SHA1 vector (RFC 6070: "password"/"salt", c=2, dkLen=20).
	if got := fmt.Sprintf("%x", Hi(SHA1, []byte("password"), []byte("salt"), 2)); got != "ea6c014dc72d6f8ccd1ed92ace1d41f0d8de8957" {
		return fmt.Errorf("Hi: RFC 6070 vector 2: got %s", got)
	}
	for _, n := range []string{"", "plain", "a=b", "x,y", "=2C", "=,=,", "=3D=2C"} {
		if u, ok := UnescapeName(EscapeName(n)); !ok || u != n {
			return fmt.Errorf("EscapeName/UnescapeName round trip of %q: %q, %v", n, u, ok)
		}
	}
	for _, n := range []string{"=", "a=", "=2", "=2c", "=3d", "a,b", "=41"} {
		if u, ok := UnescapeName(n); ok {
			return fmt.Errorf("UnescapeName(%q) accepted as %q", n, u)
		}
	}
	if cf, err := ParseClientFirst([]byte("p=tls-unique,a=adm=2Cin,n=us=3Der,r=abc,x=ext")); err != nil || cf.GS2Header != "p=tls-unique,a=adm=2Cin," ||
		cf.CBFlag != "p" || cf.CBName != "tls-unique" || cf.Authzid != "adm,in" || cf.User != "us=er" || cf.RawUser != "us=3Der" || cf.Nonce != "abc" || cf.Bare != "n=us=3Der,r=abc,x=ext" {
		return fmt.Errorf("ParseClientFirst: %+v, %v", cf, err)
	}
	for _, m := range []string{"", "n,,n=u", "n,n=u,r=x", "x,,n=u,r=x", "p=,,n=u,r=x", "p=a_b,,n=u,r=x", "n,,m=1,n=u,r=x", "n,,r=x,n=u", "n,,n=u,r=",
		"n,,n=,r=x", "n,,n=a=b,r=x", "n,b=z,n=u,r=x", "n,a=,n=u,r=x", "n,,n=u,r=x,", "n,,n=u,r=x,1=2", " n,,n=u,r=x", "n,,n=u\x00,r=x", "n,,n=\xff,r=x"} {
		if cf, err := ParseClientFirst([]byte(m)); err == nil {
			return fmt.Errorf("ParseClientFirst(%q) accepted: %+v", m, cf)
		}
	}
	if cf, err := ParseClientFinal([]byte("c=biws,r=abc,x=1,p=AAEC")); err != nil || cf.CBind64 != "biws" || string(cf.CBind) != "n,," || cf.Nonce != "abc" ||
		!hmac.Equal(cf.Proof, []byte{0, 1, 2}) || cf.WithoutProof != "c=biws,r=abc,x=1" {
		return fmt.Errorf("ParseClientFinal: %+v, %v", cf, err)
	}
	for _, m := range []string{"", "c=biws,r=abc", "r=abc,c=biws,p=AAEC", "c=biws,r=,p=AAEC", "c=biw,r=abc,p=AAEC", "c=biws,r=abc,p=AAE", "c=biws,r=abc,p=AAEC,x=1",
		"c=biws,r=abc,p=", "c=,r=abc,p=AAEC", "c=biws,r=abc,p=AA\nEC", "c=biws,r=abc,p=AAF=", "c=biws,m=1,r=abc,p=AAEC", "c=biws,r=abc,,p=AAEC"} {
		if cf, err := ParseClientFinal([]byte(m)); err == nil {
			return fmt.Errorf("ParseClientFinal(%q) accepted: %+v", m, cf)
		}
	}
	if sf, err := ParseServerFirst([]byte("r=abc,s=AAEC,i=10,x=y")); err != nil || sf.Nonce != "abc" || !hmac.Equal(sf.Salt, []byte{0, 1, 2}) || sf.Iter != 10 || sf.Raw != "r=abc,s=AAEC,i=10,x=y" {
		return fmt.Errorf("ParseServerFirst: %+v, %v", sf, err)
	}
	for _, m := range []string{"", "r=abc,s=AAEC", "s=AAEC,r=abc,i=1", "m=x,r=abc,s=AAEC,i=1", "r=,s=AAEC,i=1", "r=abc,s=,i=1", "r=abc,s=A,i=1", "r=abc,s=AAEC,i=0",
		"r=abc,s=AAEC,i=01", "r=abc,s=AAEC,i=+1", "r=abc,s=AAEC,i=-1", "r=abc,s=AAEC,i=", "r=abc,s=AAEC,i=1x", "r=abc,s=AAEC,i=99999999999999999999", "r=abc,s=AAEC,i=1,"} {
		if sf, err := ParseServerFirst([]byte(m)); err == nil {
			return fmt.Errorf("ParseServerFirst(%q) accepted: %+v", m, sf)
		}
	}
	return selfTestSimple()
}
