package saslx

import (
	"bytes"
	"crypto/tls"
	"errors"
	"io"
	"net"
	"net/textproto"
	"os"
	"reflect"
	"runtime"
	"testing"
	"time"
)

func TestSelfTest(t *testing.T) {
	if err := SelfTest(); err != nil {
		t.Fatal(err)
	}
}

func TestTLSPairAndChannelBinding(t *testing.T) {
	before := runtime.NumGoroutine()
	for _, tc := range []struct {
		version uint16
		cbType  string
	}{{tls.VersionTLS12, "tls-unique"}, {tls.VersionTLS13, "tls-exporter"}} {
		client, server, err := NewTLSPair(tc.version)
		if err != nil {
			t.Fatalf("NewTLSPair(%#x): %v", tc.version, err)
		}
		cs, ss := client.ConnectionState(), server.ConnectionState()
		if cs.Version != tc.version || ss.Version != tc.version || !cs.HandshakeComplete || !ss.HandshakeComplete {
			t.Fatalf("version %#x/%#x, want %#x", cs.Version, ss.Version, tc.version)
		}
		ct, cd, err := ChannelBinding(cs)
		if err != nil {
			t.Fatal(err)
		}
		st, sd, err := ChannelBinding(ss)
		if err != nil {
			t.Fatal(err)
		}
		if ct != tc.cbType || st != tc.cbType || len(cd) == 0 || !bytes.Equal(cd, sd) {
			t.Fatalf("channel binding mismatch: client %s %x, server %s %x, want type %s", ct, cd, st, sd, tc.cbType)
		}
		// application data in both directions (also drains the TLS 1.3 session tickets)
		done := make(chan error, 1)
		go func() {
			buf := make([]byte, 5)
			if _, err := io.ReadFull(server, buf); err != nil {
				done <- err
				return
			}
			_, err := server.Write(bytes.ToUpper(buf))
			done <- err
		}()
		if _, err := client.Write([]byte("hello")); err != nil {
			t.Fatal(err)
		}
		buf := make([]byte, 5)
		if _, err := io.ReadFull(client, buf); err != nil || string(buf) != "HELLO" {
			t.Fatalf("echo: %q, %v", buf, err)
		}
		if err := <-done; err != nil {
			t.Fatal(err)
		}
		client.Close()
		if _, err := server.Read(buf); err != io.EOF {
			t.Fatalf("server read after client close: %v, want io.EOF", err)
		}
		server.Close()
	}
	if _, _, err := NewTLSPair(tls.VersionTLS11); err == nil {
		t.Fatal("NewTLSPair(TLS 1.1) accepted")
	}
	if _, _, err := ChannelBinding(tls.ConnectionState{}); err == nil {
		t.Fatal("ChannelBinding of an empty state accepted")
	}
	for i := 0; i < 50 && runtime.NumGoroutine() > before; i++ {
		time.Sleep(10 * time.Millisecond)
	}
	if n := runtime.NumGoroutine(); n > before {
		t.Fatalf("goroutine leak: %d before, %d after", before, n)
	}
}

func TestFuncConn(t *testing.T) {
	var conn *FuncConn
	conn = NewFuncConn("220 x ESMTP\r\n", func(line string) string {
		switch line {
		case "EHLO client":
			if got := conn.Lines(); len(got) != 1 { // Lines is usable from inside the handler
				return "500 bad\r\n"
			}
			return "250-x\r\n250 AUTH PLAIN\r\n"
		case "QUIT":
			return "221 bye\r\n"
		}
		return "" // no reply
	})
	var _ net.Conn = conn
	tp := textproto.NewConn(conn)
	if _, _, err := tp.ReadResponse(220); err != nil {
		t.Fatal(err)
	}
	if _, err := conn.Write([]byte("EHLO cl")); err != nil { // partial line: no handler call yet
		t.Fatal(err)
	}
	if len(conn.Lines()) != 0 {
		t.Fatalf("partial line reported: %q", conn.Lines())
	}
	if err := tp.PrintfLine("ient"); err != nil {
		t.Fatal(err)
	}
	if _, msg, err := tp.ReadResponse(250); err != nil || msg != "x\nAUTH PLAIN" {
		t.Fatalf("EHLO reply: %q, %v", msg, err)
	}
	if err := tp.PrintfLine("NOOP"); err != nil {
		t.Fatal(err)
	}
	if err := tp.PrintfLine("QUIT"); err != nil {
		t.Fatal(err)
	}
	if _, _, err := tp.ReadResponse(221); err != nil {
		t.Fatal(err)
	}
	if _, err := tp.ReadLine(); err != io.EOF {
		t.Fatalf("read after the script: %v, want io.EOF", err)
	}
	if want := []string{"EHLO client", "NOOP", "QUIT"}; !reflect.DeepEqual(conn.Lines(), want) {
		t.Fatalf("Lines() = %q, want %q", conn.Lines(), want)
	}
	if conn.SetDeadline(time.Now()) != nil || conn.CloseCount() != 0 {
		t.Fatal("deadline / close count")
	}
	tp.Close()
	conn.Close()
	if conn.CloseCount() != 2 {
		t.Fatalf("CloseCount() = %d, want 2", conn.CloseCount())
	}
	if _, err := conn.Write([]byte("X\r\n")); !errors.Is(err, net.ErrClosed) {
		t.Fatalf("write after close: %v", err)
	}
	if len(conn.Lines()) != 3 {
		t.Fatal("write after close was recorded")
	}
}

func TestPipe(t *testing.T) {
	a, b := Pipe()
	const total = 1 << 20
	go func() { // unbounded buffer: all writes complete without a reader
		chunk := bytes.Repeat([]byte("0123456789abcdef"), 64)
		for i := 0; i < total/len(chunk); i++ {
			if _, err := a.Write(chunk); err != nil {
				t.Error(err)
			}
		}
		a.Close()
	}()
	data, err := io.ReadAll(b) // ends with io.EOF on peer close, after all buffered data
	if err != nil || len(data) != total {
		t.Fatalf("read %d bytes, err %v", len(data), err)
	}
	if _, err := b.Write([]byte("x")); err == nil {
		t.Fatal("write to a closed peer accepted")
	}
	if _, err := a.Read(make([]byte, 1)); !errors.Is(err, net.ErrClosed) {
		t.Fatalf("read on a locally closed end: %v", err)
	}
	if a.Close() != nil || b.Close() != nil || b.Close() != nil {
		t.Fatal("Close is not idempotent")
	}

	a, b = Pipe()
	start := time.Now()
	a.SetReadDeadline(start.Add(50 * time.Millisecond))
	_, err = a.Read(make([]byte, 1))
	var ne net.Error
	if !errors.Is(err, os.ErrDeadlineExceeded) || !errors.As(err, &ne) || !ne.Timeout() || time.Since(start) < 40*time.Millisecond {
		t.Fatalf("deadline: err %v after %v", err, time.Since(start))
	}
	if _, err = a.Read(make([]byte, 1)); !errors.Is(err, os.ErrDeadlineExceeded) { // still expired
		t.Fatalf("second read after the deadline: %v", err)
	}
	b.Write([]byte("late"))
	buf := make([]byte, 8)
	if n, err := a.Read(buf); err != nil || string(buf[:n]) != "late" { // buffered data wins over an expired deadline
		t.Fatalf("read with data and expired deadline: %q, %v", buf[:n], err)
	}
	a.SetReadDeadline(time.Time{}) // cleared: blocks until data arrives
	go func() { time.Sleep(20 * time.Millisecond); b.Write([]byte("ok")) }()
	if n, err := a.Read(buf); err != nil || string(buf[:n]) != "ok" {
		t.Fatalf("blocking read: %q, %v", buf[:n], err)
	}
	go func() { time.Sleep(20 * time.Millisecond); a.Close() }() // local close unblocks a pending read
	if _, err := a.Read(buf); !errors.Is(err, net.ErrClosed) {
		t.Fatalf("read interrupted by local close: %v", err)
	}
	if _, err := b.Read(buf); err != io.EOF {
		t.Fatalf("peer of a closed end: %v, want io.EOF", err)
	}
}
