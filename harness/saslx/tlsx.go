package saslx

import (
	"crypto/ecdsa"
	"crypto/elliptic"
	"crypto/rand"
	"crypto/tls"
	"crypto/x509"
	"crypto/x509/pkix"
	"errors"
	"fmt"
	"math/big"
	"sync"
	"time"
)

// selfSigned generates a fresh self-signed ECDSA P-256 certificate for "localhost".
func selfSigned() (tls.Certificate, error) {
	key, err := ecdsa.GenerateKey(elliptic.P256(), rand.Reader)
	if err != nil {
		return tls.Certificate{}, err
	}
	serial, err := rand.Int(rand.Reader, new(big.Int).Lsh(big.NewInt(1), 120))
	if err != nil {
		return tls.Certificate{}, err
	}
	now := time.Now()
	tmpl := &x509.Certificate{
		SerialNumber:          serial,
		Subject:               pkix.Name{CommonName: "localhost"},
		DNSNames:              []string{"localhost"},
		NotBefore:             now.Add(-time.Hour),
		NotAfter:              now.Add(24 * time.Hour),
		KeyUsage:              x509.KeyUsageDigitalSignature,
		ExtKeyUsage:           []x509.ExtKeyUsage{x509.ExtKeyUsageServerAuth},
		BasicConstraintsValid: true,
	}
	der, err := x509.CreateCertificate(rand.Reader, tmpl, tmpl, &key.PublicKey, key)
	if err != nil {
		return tls.Certificate{}, err
	}
	return tls.Certificate{Certificate: [][]byte{der}, PrivateKey: key}, nil
}

// NewTLSPair performs a real crypto/tls handshake over Pipe() with a self-signed ECDSA P-256 certificate generated at
// run time (valid now-1h .. now+24h, DNSName "localhost"), forcing exactly the given version (tls.VersionTLS12 or
// tls.VersionTLS13) via MinVersion=MaxVersion on both sides, client InsecureSkipVerify=true. It returns both ends as
// *tls.Conn with the handshake completed; the server handshake goroutine has ended when NewTLSPair returns.
func NewTLSPair(version uint16) (client, server *tls.Conn, err error) {
	if version != tls.VersionTLS12 && version != tls.VersionTLS13 {
		return nil, nil, fmt.Errorf("saslx: unsupported TLS version %#x", version)
	}
	cert, err := selfSigned()
	if err != nil {
		return nil, nil, err
	}
	a, b := Pipe()
	client = tls.Client(a, &tls.Config{MinVersion: version, MaxVersion: version, ServerName: "localhost", InsecureSkipVerify: true})
	server = tls.Server(b, &tls.Config{MinVersion: version, MaxVersion: version, Certificates: []tls.Certificate{cert}})
	srvErr := make(chan error, 1)
	go func() {
		e := server.Handshake()
		if e != nil {
			b.Close() // unblock the client side
		}
		srvErr <- e
	}()
	cerr := client.Handshake()
	if cerr != nil {
		a.Close() // unblock the server side
	}
	serr := <-srvErr
	if cerr != nil || serr != nil {
		a.Close()
		b.Close()
		return nil, nil, fmt.Errorf("saslx: TLS handshake failed: client: %v, server: %v", cerr, serr)
	}
	if cv, sv := client.ConnectionState().Version, server.ConnectionState().Version; cv != version || sv != version {
		a.Close()
		b.Close()
		return nil, nil, fmt.Errorf("saslx: negotiated TLS version %#x/%#x, want %#x", cv, sv, version)
	}
	return client, server, nil
}

// ChannelBinding computes, from one side's tls.ConnectionState, the RFC 5929/9266 channel binding the way RFC 9266
// prescribes: TLS <= 1.2: ("tls-unique", state.TLSUnique); TLS 1.3:
// ("tls-exporter", ExportKeyingMaterial("EXPORTER-Channel-Binding", empty context, 32)).
func ChannelBinding(st tls.ConnectionState) (cbType string, data []byte, err error) {
	switch {
	case !st.HandshakeComplete || st.Version == 0:
		return "", nil, errors.New("saslx: TLS handshake not complete")
	case st.Version >= tls.VersionTLS13:
		data, err = st.ExportKeyingMaterial("EXPORTER-Channel-Binding", nil, 32)
		if err != nil {
			return "", nil, err
		}
		return "tls-exporter", data, nil
	default:
		if len(st.TLSUnique) == 0 {
			return "", nil, errors.New("saslx: tls-unique not available for this connection")
		}
		return "tls-unique", append([]byte(nil), st.TLSUnique...), nil
	}
}

var (
	srvCertOnce sync.Once
	srvCert     tls.Certificate
	srvCertErr  error
)

// ServerTLSConfig returns a server-side tls.Config for exactly the given protocol version with a self-signed
// certificate for "localhost" generated once per process (clients use InsecureSkipVerify).
func ServerTLSConfig(version uint16) (*tls.Config, error) {
	srvCertOnce.Do(func() { srvCert, srvCertErr = selfSigned() })
	if srvCertErr != nil {
		return nil, srvCertErr
	}
	return &tls.Config{MinVersion: version, MaxVersion: version, Certificates: []tls.Certificate{srvCert}}, nil
}
