// Package c09: EML parsing is total (C09).
//
// Implementation side of the correspondence: every case is a byte string (plus a reader failure
// offset) parsed by the real EMLToMsgFromString / EMLToMsgFromReader under recover() and a
// wall-clock box.  The observable is the outcome class (ok / err / panic) and, for ok, what the
// public getters of the Msg show (charset, encoding, parts, file names, content ids, which generic
// headers were set).  The model (coq/theories/Eml.v, extracted) gets the same input in the form of
// the stdlib's results on it (emlx.Tree) and must print the same line.
// Direct oracle: no panic, returns inside the time box.
package c09

import (
	"bytes"
	"fmt"
	"strconv"
	"strings"
	"time"

	mail "github.com/wneessen/go-mail"
	"verif/harness/emlx"
	"verif/harness/hx"
)

const box = 10 * time.Second

func init() { hx.Register("C09", Run) }

// mkCase builds the case line for an input: the oracle tree is recomputed from the raw bytes,
// so a replayed line never depends on the tokens stored in the file.
func mkCase(id string, raw []byte, off, chunk int) hx.Case {
	offs := strconv.Itoa(off)
	if chunk > 0 {
		offs += "/" + strconv.Itoa(chunk)
	}
	args := []string{hx.Hex(raw), offs}
	args = append(args, strings.Split(emlx.Tree(raw, off, chunk), " ")...)
	return hx.Case{ID: id, Kind: "eml", Args: args}
}

func parseOff(s string) (off, chunk int) {
	a, b, has := strings.Cut(s, "/")
	off, _ = strconv.Atoi(a)
	if has {
		chunk, _ = strconv.Atoi(b)
	}
	return
}

func nontrivial(c hx.Case) bool {
	// the message was readable and has a MIME structure or transfer encoding to look at
	if len(c.Args) < 3 || c.Args[2] != "1" {
		return false
	}
	line := strings.Join(c.Args[2:], " ")
	return strings.Count(line, " E ") > 1 || strings.Contains(line, hx.Hex([]byte("Content-Transfer-Encoding"))) ||
		strings.Contains(line, hx.Hex([]byte("Content-Type")))
}

// hung is set by the first input that does not return inside the time box: its goroutine keeps
// running, so generation stops there (the failure is reported; nothing else would be reliable).
var hung bool

func runOne(r *hx.Run, id string, raw []byte, off, chunk int, gen string, modelCompare bool) {
	if hung {
		return
	}
	res := emlx.Parse(raw, off, chunk, box)
	c := mkCase(id, raw, off, chunk)
	r.Dist["gen:"+gen]++
	cls := res.Obs
	if i := strings.IndexByte(cls, ' '); i > 0 {
		cls = cls[:i]
	}
	r.Dist["outcome:"+cls]++
	switch res.Obs {
	case "panic":
		r.Fail(id, "panic-"+res.PanicFn, fmt.Sprintf("%s on %.200q (reader fails at %d)", res.PanicMsg, raw, off))
	case "hang":
		hung = true
		r.Fail(id, "hang", fmt.Sprintf("no return within %s on %.200q", box, raw))
	}
	if modelCompare {
		r.Add(c, res.Obs, nontrivial(c))
	} else {
		r.AddOracleOnly(c, nontrivial(c))
	}
}

// ---------- generators ----------

type g struct{ r *hx.Run }

func (x g) n(k int) int      { return x.r.Rng.Intn(k) }
func (x g) p(pc int) bool    { return x.r.Rng.Intn(100) < pc }
func (x g) pick(l []string) string { return l[x.r.Rng.Intn(len(l))] }

// mostly picks from good with probability pct %, else from bad
func (x g) mostly(pct int, good, bad []string) string {
	if x.p(pct) {
		return x.pick(good)
	}
	return x.pick(bad)
}

var weird = []string{"", "\"", "\"\"", ";", "=", " ", "  ", "\t", "\\", "ſ", "K", "İ", "\xff", "\x00", "é", "=?UTF-8?Q?a?=", "(c)", "<", ">", ",", ":"}

func (x g) token() string {
	switch x.n(12) {
	case 0:
		return ""
	case 1:
		return x.pick(weird)
	case 2:
		b := make([]byte, 1+x.n(4))
		for i := range b {
			b[i] = byte(x.n(256))
			if b[i] == '\n' || b[i] == '\r' {
				b[i] = 'n'
			}
		}
		return string(b)
	default:
		const al = "abcdefghijklmnopqrstuvwxyzABCDEFGHIJKLMNOPQRSTUVWXYZ0123456789.-_"
		b := make([]byte, 1+x.n(8))
		for i := range b {
			b[i] = al[x.n(len(al))]
		}
		return string(b)
	}
}

// value of a parameter: quoted, unquoted, half-quoted, empty, one character …
func (x g) pvalue() string {
	t := x.token()
	switch x.n(10) {
	case 0:
		return ""
	case 1:
		return t[:min(1, len(t))]
	case 2:
		return "\"" + t
	case 3:
		return t + "\""
	case 4:
		return "\"\""
	case 5:
		return "\""
	case 6:
		return t
	default:
		return "\"" + t + "\""
	}
}

func min(a, b int) int {
	if a < b {
		return a
	}
	return b
}

func (x g) params(names []string) string {
	var sb strings.Builder
	k := x.n(4)
	for i := 0; i < k; i++ {
		sep := x.pick([]string{"; ", ";", " ;", ";  ", "; ", "; "})
		name := x.pick(names)
		if x.p(10) {
			name = x.token()
		}
		if x.p(8) {
			name = strings.ToUpper(name)
		}
		switch x.n(16) {
		case 12: // a numeric edge value where a name, charset or boundary is expected
			sb.WriteString(sep + name + "=" + x.pick(numEdge))
		case 13: // RFC 2231 continuations and charset/language forms
			sb.WriteString(sep + name + "*0*=" + x.pick([]string{"UTF-8''a%20b", "''", "utf-8'en'%C3%A4", x.pick(numEdge)}) + sep + name + "*1=" + x.pvalue())
		case 14:
			sb.WriteString(sep + name + "*0=" + x.pvalue() + sep + name + "*" + x.pick(numEdge) + "=" + x.pvalue())
		case 15:
			sb.WriteString(sep + name + "*=" + x.pick([]string{"UTF-8''x", "'", "%", x.pick(numEdge)}))
		case 0:
			sb.WriteString(sep + name) // no '='
		case 1:
			sb.WriteString(sep + name + "=" + x.pvalue() + "=" + x.pvalue())
		case 2:
			sb.WriteString(sep) // empty parameter
		default:
			sb.WriteString(sep + name + "=" + x.pvalue())
		}
	}
	if x.p(3) {
		sb.WriteString(";")
	}
	return sb.String()
}

func (x g) caseMix(s string) string {
	if x.p(85) {
		return s
	}
	switch x.n(4) {
	case 0:
		return strings.ToUpper(s)
	case 1:
		return strings.Replace(s, "s", "ſ", 1)
	case 2:
		return strings.Replace(strings.Replace(s, "i", "İ", 1), "k", "K", 1)
	default:
		b := []byte(s)
		for i := range b {
			if x.p(50) && b[i] >= 'a' && b[i] <= 'z' {
				b[i] -= 32
			}
		}
		return string(b)
	}
}

func (x g) cd() string {
	t := x.mostly(90, []string{"attachment", "inline"}, []string{"form-data", "", "attachment ", " inline"})
	if x.p(3) {
		t = x.token()
	}
	return x.caseMix(t) + x.params([]string{"filename", "filename", "filename", "name", "size", "filename*"})
}

func (x g) ct(multi bool, boundary string) string {
	var t string
	if multi {
		t = x.mostly(94, []string{"multipart/mixed", "multipart/alternative", "multipart/related"}, []string{"multipart/signed", "multipart/"})
	} else {
		t = x.mostly(88, []string{"text/plain", "text/html", "text/plain", "text/html", "application/octet-stream", "image/png"}, []string{"text", "", "text/", "multipart/related", "multipart/alternative", "multipart/mixed", "message/rfc822"})
	}
	if x.p(2) {
		t = x.token()
	}
	s := x.caseMix(t)
	if multi && !x.p(4) {
		q := x.pick([]string{"\"", "", ""})
		s += x.pick([]string{"; ", ";", ";\r\n "}) + "boundary=" + q + boundary + q
	}
	if multi && x.p(85) {
		// mime.ParseMediaType is strict: keep the remaining parameters well-formed most of the time
		return s + x.pick([]string{"", "", "; charset=UTF-8", "; charset=\"iso-8859-1\"", "; type=\"text/html\""})
	}
	return s + x.params([]string{"charset", "charset", "name", "boundary", "format"})
}

func (x g) cte() string {
	t := x.mostly(92, []string{"7bit", "8bit", "quoted-printable", "base64"}, []string{"binary", "", "x-uuencode"})
	if x.p(2) {
		t = x.token()
	}
	s := x.caseMix(t)
	if x.p(8) {
		s += x.params([]string{"x"})
	}
	return s
}

func (x g) cid() string {
	switch x.n(6) {
	case 0:
		return ""
	case 1:
		return x.token()
	case 2:
		return "<" + x.token() + ">;" + x.token()
	default:
		return "<" + x.token() + "@x.test>"
	}
}

func (x g) body(cte string) string {
	if x.p(75) {
		switch {
		case strings.EqualFold(cte, "base64"):
			return x.pick([]string{"QUJD", "QUJDRA==\r\n", "QUJD\r\nRUZH\r\n", ""})
		case strings.EqualFold(cte, "quoted-printable"):
			return x.pick([]string{"a=3Db=\r\nc", "plain\r\n", "h=C3=A9\r\n"})
		default:
			return x.pick([]string{"line one\r\nline two\r\n", "x", ""})
		}
	}
	switch x.n(8) {
	case 0:
		return ""
	case 1:
		return "QUJD"
	case 2:
		return "QUJDRA==\r\n"
	case 3:
		return "a=3Db=\r\nc"
	case 4:
		return "a=ZZ bad qp =\r\n"
	case 5:
		return "QUJ!!D===\r\n"
	case 6:
		return "line one\r\nline two\r\n"
	default:
		return x.token() + "\r\n"
	}
}

// field writes "Name: value\r\n" 0, 1 or 2 times (absent / present / duplicated)
func (x g) field(sb *strings.Builder, name, value string, presentPct int) {
	if !x.p(presentPct) {
		return
	}
	if x.p(4) {
		name = strings.ToLower(name)
	}
	sb.WriteString(name + ": " + value + "\r\n")
	if x.p(4) {
		sb.WriteString(name + ": " + value + "x\r\n")
	}
}

// leaf part: generated header strings + body
func (x g) leaf(sb *strings.Builder, withCD bool) {
	cte := x.cte()
	if withCD {
		x.field(sb, "Content-Disposition", x.cd(), 95)
	}
	x.field(sb, "Content-Type", x.ct(false, ""), 85)
	x.field(sb, "Content-Transfer-Encoding", cte, 70)
	x.field(sb, "Content-ID", x.cid(), 40)
	x.field(sb, "Content-Description", x.mostly(50, []string{"a description"}, []string{x.encWord(x.pick(charsets))}), 15)
	x.extraFields(sb, 25)
	sb.WriteString("\r\n")
	sb.WriteString(x.body(cte))
}

func (x g) boundary() string {
	return fmt.Sprintf("B%d_%s", x.n(7), x.pick([]string{"x", "yy", "=_z", "q"}))
}

// multipart entity body with k parts, nesting up to depth
func (x g) multipart(sb *strings.Builder, b string, depth int) {
	k := x.n(4)
	if x.p(10) {
		sb.WriteString("preamble\r\n")
	}
	for i := 0; i < k; i++ {
		sb.WriteString("--" + b + "\r\n")
		if depth > 0 && x.p(30) {
			nb := x.boundary()
			if x.p(10) {
				nb = b // same boundary as the parent
			}
			x.field(sb, "Content-Type", x.ct(true, nb), 97)
			x.extraFields(sb, 15)
			if x.p(10) {
				x.field(sb, "Content-Disposition", x.cd(), 100)
			}
			if x.p(10) {
				x.field(sb, "Content-Transfer-Encoding", x.cte(), 100)
			}
			sb.WriteString("\r\n")
			x.multipart(sb, nb, depth-1)
		} else {
			x.leaf(sb, x.p(60))
		}
		sb.WriteString("\r\n")
	}
	switch x.n(30) {
	case 0: // closing delimiter missing
	case 1:
		sb.WriteString("--" + b + "\r\n") // open part at the end
	case 2:
		sb.WriteString("--" + b + "--") // no final CRLF
	default:
		sb.WriteString("--" + b + "--\r\n")
	}
}

// RFC 5322 address syntax for which the standard library's parsers return something unusual: an empty list
// without an error (empty group), several addresses where one is expected, comments, obsolete forms
var oddAddrs = []string{"undisclosed-recipients:;", "undisclosed-senders:;", "g: a@x.test, \"B\" <b@x.test>;", "g:;, h:;", "(only a comment) a@x.test",
	"a@x.test (Name)", "\"a b\"@x.test", "<a@x.test>", "<>", ",", "a@x.test,", ",a@x.test", "=?UTF-8?Q?J=C3=BCrgen?= <j@x.test>", "=?UTF-8?B?SsO8cmdlbg==?= <j@x.test>",
	"\"\" <e@x.test>", "a@[127.0.0.1]", "j\xc3\xbcrgen@x.test", "A <a@x.test> B", "<@r.test:a@x.test>", ":;", ";", "g:", "g: ;"}

// charsets a decoder may be asked for (RFC 2047 encoded-words, charset= parameters)
var charsets = []string{"utf-8", "UTF-8", "iso-8859-1", "iso-8859-2", "iso-8859-5", "iso-8859-7", "iso-8859-9", "iso-8859-11", "iso-8859-15", "iso-8859-16",
	"windows-1250", "windows-1251", "windows-1252", "windows-1258", "koi8-r", "koi8-u", "us-ascii", "UTF-7", "utf-7", "UTF-16", "UTF-16LE", "UTF-16BE",
	"UTF-32", "UTF-32BE", "ISO-2022-JP", "ISO-2022-KR", "ISO-2022-CN", "ISO-2022-CN-EXT", "GBK", "GB18030", "gb2312", "Big5", "EUC-JP", "EUC-KR", "Shift_JIS",
	"HZ-GB-2312", "IBM037", "macintosh", "x-unknown", "", "utf-8*en", "iso-8859-1*de-DE", "UTF-7*x", strings.Repeat("x-very-long-charset-name-", 12), "utf 8", "?", "unicode-1-1-utf-7", "cp437", "latin1"}

// an RFC 2047 encoded-word with that charset
func (x g) encWord(cs string) string {
	if x.p(50) {
		return "=?" + cs + "?" + x.pick([]string{"Q", "q"}) + "?" + x.pick([]string{"caf=E9", "a_b", "=C3=A4", "+AGE-", "=1B$B", ""}) + "?="
	}
	return "=?" + cs + "?" + x.pick([]string{"B", "b"}) + "?" + x.pick([]string{"Y2Fmw6k=", "K0FHRS0=", "GyRC", "", "/v8AYQ=="}) + "?="
}

// every header a decoder could touch, at the top level and in parts; pos selects the ONE header that carries the
// encoded-word w / the charset cs (so that an error on one header cannot mask the decoder behind another one);
// pos = nEncPos-1: all of them at once
const nEncPos = 18

func encWordMessage(cs, w string, pos int) []byte {
	all := pos == nEncPos-1
	v := func(k int, plain string) string {
		if all || pos == k {
			return w
		}
		return plain
	}
	c := func(k int) string {
		if all || pos == k {
			return "; charset=" + cs
		}
		return "; charset=utf-8"
	}
	if pos == 15 { // not a multipart message
		return []byte("From: a@x.test\r\nSubject: s\r\nContent-Description: " + w + "\r\nContent-Type: text/plain; charset=" + cs + "\r\nContent-Transfer-Encoding: quoted-printable\r\n\r\nbody\r\n")
	}
	top := "From: " + v(0, "A") + " <a@x.test>\r\nTo: " + v(1, "B") + " <b@x.test>, \"" + v(1, "C") + "\" <c@x.test>\r\nCc: " + v(2, "D") + " <d@x.test>\r\nSubject: " + v(3, "s") + " and " + v(3, "t") +
		"\r\nComments: " + v(4, "c") + "\r\nContent-Description: " + v(5, "d") + "\r\nMIME-Version: 1.0\r\n"
	part := func(k int) string {
		return "Content-Description: " + v(k, "part") + "\r\nContent-ID: <" + v(7, "id") + ">\r\nComments: " + v(16, "c") + "\r\n"
	}
	fstar := ""
	if all || pos == 11 {
		fstar = "; filename*=" + cs + "''a%20b"
	}
	return []byte(top + "Content-Type: multipart/mixed; boundary=EW" + c(14) + "\r\n\r\n--EW\r\nContent-Type: text/plain" + c(9) + "; name=\"" + v(8, "n") + "\"\r\n" + part(6) +
		"Content-Transfer-Encoding: 8bit\r\n\r\nbody\r\n--EW\r\nContent-Type: multipart/alternative; boundary=EX\r\nContent-Description: " + v(13, "nested") + "\r\n\r\n--EX\r\nContent-Type: text/html" + c(9) + "\r\n" + part(12) +
		"\r\n<p>x</p>\r\n--EX--\r\n\r\n--EW\r\nContent-Disposition: attachment; filename=\"" + v(10, "f.bin") + "\"" + fstar + "\r\nContent-Type: application/octet-stream; name=" + v(8, "f.bin") + "\r\n" + part(17) +
		"Content-Transfer-Encoding: base64\r\n\r\nQUJD\r\n--EW--\r\n")
}

// values a refactoring might read as a number
var numEdge = []string{"-1", "0", "1", "-9223372036854775808", "9223372036854775807", "9223372036854775808", "18446744073709551616",
	"4294967296", "2147483648", "-2147483649", "1e9", "0x10", "+5", " 7 ", "007", "1.5", "NaN", "", "12abc", "٣", "99999999999999999999999999"}

// headers the parser does not consult today but a refactoring may start to (sizes, counts, versions, routing)
var extraHeaders = []string{"Content-Length", "Lines", "Content-MD5", "Content-Language", "Content-Location", "Content-Base",
	"Return-Path", "Received", "X-Priority", "X-Spam-Score", "X-Size", "Content-Duration", "X-Content-Length", "Max-Forwards", "X-Mozilla-Status"}

func (x g) extraFields(sb *strings.Builder, pct int) {
	for k := x.n(3); k > 0; k-- {
		if !x.p(pct) {
			continue
		}
		h := x.pick(extraHeaders)
		v := x.pick(numEdge)
		switch h {
		case "Content-MD5":
			v = x.mostly(50, []string{"Q2hlY2sgSW50ZWdyaXR5IQ=="}, numEdge)
		case "Received":
			v = x.mostly(50, []string{"from a.test by b.test; Wed, 01 Jan 2025 10:00:00 +0000"}, numEdge)
		case "Return-Path":
			v = x.mostly(50, []string{"<a@x.test>", "<>"}, numEdge)
		case "Content-Language", "Content-Location", "Content-Base":
			v = x.mostly(50, []string{"en", "http://x.test/a", "de, en-US"}, numEdge)
		}
		x.field(sb, h, v, 100)
		if x.p(10) {
			x.field(sb, h, x.pick(numEdge), 100) // duplicated with another value
		}
	}
}

func (x g) topHeaders(sb *strings.Builder) {
	x.extraFields(sb, 45)
	x.field(sb, "From", x.mostly(92, []string{"a@x.test", "\"A B\" <a@x.test>", ""}, append([]string{"bad address", "<a@x.test>, <b@x.test>"}, oddAddrs...)), 90)
	x.field(sb, "To", x.mostly(93, []string{"b@x.test", "b@x.test, \"C\" <c@x.test>", ""}, append([]string{"nonsense"}, oddAddrs...)), 80)
	x.field(sb, "Cc", x.mostly(90, []string{"c@x.test", ""}, append([]string{"@@"}, oddAddrs...)), 20)
	x.field(sb, "Bcc", x.mostly(85, []string{"d@x.test"}, append([]string{"x y z"}, oddAddrs...)), 10)
	x.field(sb, "Reply-To", x.mostly(60, []string{"r@x.test"}, oddAddrs), 8)
	x.field(sb, "Date", x.mostly(96, []string{"Wed, 01 Jan 2025 10:00:00 +0000", "Wed, 01 Jan 2025 10:00:00 +0000 (UTC)", ""}, []string{"yesterday"}), 70)
	x.field(sb, "Subject", x.pick([]string{"hello", "=?UTF-8?Q?h=C3=A9?=", "", "a\tb"}), 80)
	x.field(sb, "MIME-Version", x.mostly(80, []string{"1.0"}, []string{"1.0 (comment)", "2.0", "", "(produced by x) 1.0", "1", "-1", "1.0.0"}), 80)
	for _, h := range []string{"Message-ID", "User-Agent", "X-Mailer", "Importance", "Priority", "X-Priority", "Organization", "References", "In-Reply-To", "Precedence", "List-Unsubscribe", "X-MSMail-Priority", "List-Unsubscribe-Post"} {
		x.field(sb, h, x.pick([]string{"<id@x.test>", "v", "high", ""}), 8)
	}
}

// message from the header-string grammar: single part or (nested) multipart
func (x g) message() []byte {
	var sb strings.Builder
	x.topHeaders(&sb)
	if x.p(35) {
		cte := x.cte()
		ctv := x.ct(false, "")
		if x.p(80) {
			ctv = x.caseMix(x.pick([]string{"text/plain", "text/html"})) + x.pick([]string{"", "; charset=UTF-8", "; charset=\"us-ascii\"", "; charset=ISO-8859-15; format=flowed"})
		}
		x.field(&sb, "Content-Type", ctv, 85)
		x.field(&sb, "Content-Transfer-Encoding", cte, 70)
		sb.WriteString("\r\n")
		sb.WriteString(x.body(cte))
	} else {
		b := x.boundary()
		x.field(&sb, "Content-Type", x.ct(true, b), 97)
		if x.p(5) {
			x.field(&sb, "Content-Transfer-Encoding", x.cte(), 100)
		}
		sb.WriteString("\r\n")
		x.multipart(&sb, b, 3)
	}
	return []byte(sb.String())
}

// seeds rendered by go-mail itself (valid single-part and nested multipart messages)
func seeds() [][]byte {
	var out [][]byte
	mk := func(f func(m *mail.Msg)) {
		m := mail.NewMsg()
		_ = m.From("a@x.test")
		_ = m.To("b@x.test")
		m.Subject("seed")
		m.SetDateWithValue(time.Date(2025, 1, 1, 10, 0, 0, 0, time.UTC))
		f(m)
		var b bytes.Buffer
		if _, err := m.WriteTo(&b); err == nil {
			out = append(out, b.Bytes())
		}
	}
	mk(func(m *mail.Msg) { m.SetBodyString(mail.TypeTextPlain, "plain body a=b") })
	mk(func(m *mail.Msg) {
		m.SetEncoding(mail.EncodingB64)
		m.SetBodyString(mail.TypeTextHTML, "<p>html</p>")
	})
	mk(func(m *mail.Msg) {
		m.SetBodyString(mail.TypeTextPlain, "plain")
		m.AddAlternativeString(mail.TypeTextHTML, "<p>html</p>")
	})
	mk(func(m *mail.Msg) {
		m.SetBodyString(mail.TypeTextPlain, "plain")
		_ = m.AttachReader("a.txt", strings.NewReader("attached"))
	})
	mk(func(m *mail.Msg) {
		m.SetBodyString(mail.TypeTextPlain, "plain")
		m.AddAlternativeString(mail.TypeTextHTML, "<p>html <img src=\"cid:i.png\"></p>")
		_ = m.EmbedReader("i.png", strings.NewReader("\x89PNG"))
		_ = m.AttachReader("näme with blanks.pdf", strings.NewReader("%PDF"))
	})
	out = append(out, []byte("Subject: no mime\r\n\r\njust text\r\n"))
	return out
}

// structure-aware mutation: line level (delete / duplicate / truncate / swap), token level
// (parameter values emptied, re-quoted, boundaries changed, encodings swapped), byte level
func (x g) mutate(in []byte) []byte {
	out := append([]byte(nil), in...)
	for k := 1 + x.n(3); k > 0; k-- {
		lines := bytes.SplitAfter(out, []byte("\r\n"))
		switch x.n(14) {
		case 0: // delete a line
			if len(lines) > 1 {
				i := x.n(len(lines))
				lines = append(lines[:i], lines[i+1:]...)
			}
			out = bytes.Join(lines, nil)
		case 1: // duplicate a line
			i := x.n(len(lines))
			lines = append(lines[:i+1], lines[i:]...)
			out = bytes.Join(lines, nil)
		case 2: // truncate
			out = out[:x.n(len(out)+1)]
		case 3: // empty a parameter value
			if i := bytes.Index(out, []byte("=\"")); i >= 0 {
				if j := bytes.IndexByte(out[i+2:], '"'); j >= 0 {
					out = append(out[:i+1], out[i+2+j+1:]...)
				}
			}
		case 4: // unquote parameter values
			out = bytes.Replace(out, []byte("\""), nil, 1+x.n(2))
		case 5: // one-character value
			if i := bytes.Index(out, []byte("filename=")); i >= 0 {
				if j := bytes.Index(out[i:], []byte("\r\n")); j >= 0 {
					out = append(append(append([]byte(nil), out[:i+9]...), 'x'), out[i+j:]...)
				}
			}
		case 6: // swap transfer encodings
			encs := []string{"quoted-printable", "base64", "7bit", "8bit", "binary"}
			out = bytes.Replace(out, []byte(x.pick(encs)), []byte(x.pick(encs)), 1)
		case 7: // break a boundary
			if i := bytes.Index(out, []byte("boundary=")); i >= 0 && i+12 < len(out) {
				out[i+10+x.n(2)] ^= 1
			}
		case 8: // drop the closing delimiter
			if i := bytes.LastIndex(out, []byte("--\r\n")); i >= 0 {
				out = out[:i]
			}
		case 9: // change multipart subtype
			subs := []string{"multipart/mixed", "multipart/alternative", "multipart/related", "text/plain"}
			out = bytes.Replace(out, []byte(x.pick(subs)), []byte(x.pick(subs)), 1)
		case 10: // flip a byte
			if len(out) > 0 {
				out[x.n(len(out))] = byte(x.n(256))
			}
		case 11: // insert a weird token
			i := x.n(len(out) + 1)
			out = append(append(append([]byte(nil), out[:i]...), []byte(x.pick(weird))...), out[i:]...)
		case 12: // replace a header value by a generated one
			repl := map[string]string{"Content-Disposition: ": x.cd(), "Content-Type: ": x.ct(x.p(50), "B"), "Content-Transfer-Encoding: ": x.cte(), "Content-ID: ": x.cid()}
			for name, v := range repl {
				if i := bytes.Index(out, []byte(name)); i >= 0 && x.p(50) {
					if j := bytes.Index(out[i:], []byte("\r\n")); j >= 0 {
						out = append(append(append([]byte(nil), out[:i+len(name)]...), []byte(v)...), out[i+j:]...)
					}
					break
				}
			}
		default: // LF-only line ends
			out = bytes.Replace(out, []byte("\r\n"), []byte("\n"), 1+x.n(5))
		}
	}
	return out
}

// the targeted witnesses: filename values of length 0, 1, 2 (quoted and not), in attachment and inline parts
func witnesses() [][]byte {
	var out [][]byte
	for _, disp := range []string{"attachment", "inline", "ATTACHMENT", "İnline"} {
		for _, v := range []string{"", "x", "\"", "xy", "\"\"", "\"x", "x\"", "\"a.txt\"", "a.txt", "\"a;b=c.txt\"", "=?UTF-8?Q?n=C3=A4me?="} {
			out = append(out, []byte("From: a@x.test\r\nTo: b@x.test\r\nMIME-Version: 1.0\r\nContent-Type: multipart/mixed; boundary=BB\r\n\r\n--BB\r\nContent-Type: text/plain; charset=UTF-8\r\nContent-Transfer-Encoding: 7bit\r\n\r\nhello\r\n--BB\r\nContent-Disposition: "+disp+"; filename="+v+"\r\nContent-Type: application/octet-stream\r\nContent-Transfer-Encoding: base64\r\n\r\nQUJD\r\n--BB--\r\n"))
		}
	}
	// every unusual address form in every address header of a small message
	for _, h := range []string{"From", "To", "Cc", "Bcc", "Reply-To", "Sender"} {
		for _, v := range oddAddrs {
			hdr := "From: a@x.test\r\nTo: b@x.test\r\n"
			switch h {
			case "From":
				hdr = "To: b@x.test\r\n"
			case "To":
				hdr = "From: a@x.test\r\n"
			}
			out = append(out, []byte(hdr+h+": "+v+"\r\nSubject: s\r\nContent-Type: text/plain; charset=UTF-8\r\nContent-Transfer-Encoding: 7bit\r\n\r\nhello\r\n"))
		}
	}
	return out
}

// Run generates (or replays) the C09 cases.
func Run(r *hx.Run, replay []hx.Case) {
	if replay != nil {
		for _, c := range replay {
			if c.Kind != "eml" || len(c.Args) < 2 {
				continue
			}
			off, chunk := parseOff(c.Args[1])
			runOne(r, c.ID, hx.UnHex(c.Args[0]), off, chunk, "replay", true)
		}
		return
	}
	x := g{r}
	thorough := r.Tier == "thorough"
	// quick: about 10 000 model-compared cases (a few seconds); the volume is in the thorough tier
	nGrammar, nMut, nRead, nBytes, nFuzz := 6000, 3000, 700, 300, 5000
	if thorough {
		nGrammar, nMut, nRead, nBytes, nFuzz = 300000, 150000, 37500, 15000, 375000
	}
	// 1. targeted witnesses (string entry point and reader entry point)
	for _, w := range witnesses() {
		runOne(r, r.NewID(), w, -1, 0, "witness", true)
	}
	// 1b. every extra header x every numeric edge value, at the top level and in a part header
	for _, h := range extraHeaders {
		for _, v := range numEdge {
			runOne(r, r.NewID(), []byte("From: a@x.test\r\nTo: b@x.test\r\n"+h+": "+v+"\r\nMIME-Version: 1.0\r\nContent-Type: text/plain\r\n\r\nbody\r\n"), -1, 0, "extra-header", true)
			runOne(r, r.NewID(), []byte("From: a@x.test\r\nMIME-Version: 1.0\r\nContent-Type: multipart/mixed; boundary=BB\r\n\r\n--BB\r\nContent-Type: text/plain\r\n"+h+": "+v+"\r\n\r\nbody\r\n--BB\r\nContent-Disposition: attachment; filename=\"a\"\r\n"+h+": "+v+"\r\n\r\nQUJD\r\n--BB--\r\n"), -1, 0, "extra-header", true)
		}
	}
	// 1c. RFC 2047 encoded-words and charset= parameters over a wide charset list, one message per header a decoder
	// could touch (top level, parts, nested parts) and one with all of them
	for _, cs := range charsets {
		for pos := 0; pos < nEncPos; pos++ {
			runOne(r, r.NewID(), encWordMessage(cs, x.encWord(cs), pos), -1, 0, "charsets", true)
		}
	}
	// 2. grammar-based messages
	for i := 0; i < nGrammar && !r.Expired() && !hung; i++ {
		runOne(r, r.NewID(), x.message(), -1, 0, "grammar", true)
	}
	// 3. structure-aware mutations of valid renderings
	sd := seeds()
	sd = append(sd, witnesses()[7], witnesses()[8])
	for i := 0; i < nMut && !r.Expired() && !hung; i++ {
		runOne(r, r.NewID(), x.mutate(sd[x.n(len(sd))]), -1, 0, "mutation", true)
	}
	// 4. readers that fail at an offset / deliver small chunks
	for i := 0; i < nRead && !r.Expired() && !hung; i++ {
		var raw []byte
		if x.p(50) {
			raw = x.message()
		} else {
			raw = x.mutate(sd[x.n(len(sd))])
		}
		off := x.n(len(raw) + 2)
		if x.p(15) {
			off = -1
		}
		chunk := x.pick3()
		runOne(r, r.NewID(), raw, off, chunk, "failing-reader", true)
	}
	// every failure offset of two seeds
	for _, s := range [][]byte{sd[0], sd[3]} {
		step := 1
		if !thorough {
			step = 7
		}
		for off := 0; off <= len(s) && !r.Expired() && !hung; off += step {
			runOne(r, r.NewID(), s, off, 0, "failing-reader-sweep", true)
		}
	}
	// 4b. long encoded lines: base64 / quoted-printable bodies whose lines exceed the 76 characters of RFC 2045
	//     (unwrapped base64, joined lines, per-line padding, blanks and garbage inside; soft-break-free QP lines,
	//     '=' at a line end, "=XY" across a join), in multipart body parts without Content-Disposition, in
	//     attachment parts and as the body of a single-part message
	nLong := 400
	if thorough {
		nLong = 10000
	}
	for i := 0; i < nLong && !r.Expired() && !hung; i++ {
		runOne(r, r.NewID(), x.longLines(i), -1, 0, "long-lines", true)
	}
	// 5. arbitrary bytes
	for i := 0; i < nBytes && !r.Expired() && !hung; i++ {
		b := make([]byte, x.n(120))
		for j := range b {
			switch x.n(6) {
			case 0:
				b[j] = '\n'
			case 1:
				b[j] = ':'
			default:
				b[j] = byte(x.n(256))
			}
		}
		runOne(r, r.NewID(), b, -1, 0, "bytes", true)
	}
	// 6. search aid: mutation fuzz loop, pool grows with inputs that reach new outcome lines;
	//    only the direct oracle looks at these (no panic, returns in the time box)
	pool := append([][]byte(nil), sd...)
	seen := map[string]bool{}
	iters := nFuzz
	for i := 0; i < iters && !r.Expired() && !hung; i++ {
		in := x.mutate(pool[x.n(len(pool))])
		if len(in) > 6000 {
			continue
		}
		res := emlx.Parse(in, -1, 0, box)
		r.Dist["fuzz-iterations"]++
		if res.Obs == "hang" {
			runOne(r, r.NewID(), in, -1, 0, "fuzz", false)
			break
		}
		key := res.Obs
		if len(key) > 80 {
			key = key[:80]
		}
		fresh := !seen[key]
		if fresh {
			seen[key] = true
			if len(pool) < 400 {
				pool = append(pool, in)
			}
		}
		if res.Obs == "panic" || res.Obs == "hang" || fresh && len(seen) < 200 {
			runOne(r, r.NewID(), in, -1, 0, "fuzz", false)
		}
	}
	r.Notes["per-input time box"] = box.String()
	r.Notes["fuzz pool size"] = len(pool)
}

func (x g) pick3() int {
	return []int{0, 0, 1, 3, 64}[x.n(5)]
}

// b64line: n characters of valid base64 text (n rounded down to a multiple of 4), optionally padded
func (x g) b64line(n int, pad bool) string {
	const al = "ABCDEFGHIJKLMNOPQRSTUVWXYZabcdefghijklmnopqrstuvwxyz0123456789+/"
	n -= n % 4
	if n < 4 {
		n = 4
	}
	b := make([]byte, n)
	for i := range b {
		b[i] = al[x.n(64)]
	}
	if pad {
		b[n-1] = '='
		if x.p(50) {
			b[n-2] = '='
		}
	}
	return string(b)
}

func (x g) longBody(enc string, i int) string {
	var sb strings.Builder
	if enc == "base64" {
		lines := 1 + x.n(4)
		for k := 0; k < lines; k++ {
			var l string
			switch (i + k) % 7 {
			case 0:
				l = x.b64line(77+x.n(124), false) // 77..200
			case 1:
				l = x.b64line(4096, false) // one very long unwrapped line
			case 2:
				l = x.b64line(76, false) + x.b64line(76, false) // two wrapped lines joined
			case 3:
				l = x.b64line(80+x.n(60), true) // padded per line
			case 4:
				l = x.b64line(40, false) + " " + x.b64line(60, false) // blank inside
			case 5:
				l = x.b64line(90, false) + "!*" + x.b64line(8, false) // garbage inside
			default:
				l = x.b64line(76, k == lines-1)
			}
			sb.WriteString(l)
			if k < lines-1 || x.p(70) {
				sb.WriteString(x.pick([]string{"\r\n", "\r\n", "\n"}))
			}
		}
		return sb.String()
	}
	// quoted-printable
	switch i % 5 {
	case 0:
		sb.WriteString(strings.Repeat("x", 2000) + "\r\n")
	case 1:
		sb.WriteString(strings.Repeat("ab=3Dc", 300) + "=\r\nnext\r\n")
	case 2:
		sb.WriteString(strings.Repeat("y", 100) + "=\r\n" + "3D" + strings.Repeat("z", 100) + "\r\n") // "=XY" across a join
	case 3:
		sb.WriteString(strings.Repeat("w", 500) + "=") // '=' at the very end
	default:
		sb.WriteString(strings.Repeat("=C3=A9", 400) + "\r\n" + strings.Repeat("q", 77) + "=\r\n")
	}
	return sb.String()
}

// longLines: messages whose encoded bodies have over-long lines
func (x g) longLines(i int) []byte {
	enc := []string{"base64", "base64", "quoted-printable"}[i%3]
	body := x.longBody(enc, i/3)
	var sb strings.Builder
	sb.WriteString("From: a@x.test\r\nTo: b@x.test\r\nSubject: long lines\r\nMIME-Version: 1.0\r\n")
	switch (i / 21) % 3 {
	case 0: // single part
		sb.WriteString("Content-Type: text/plain; charset=UTF-8\r\nContent-Transfer-Encoding: " + enc + "\r\n\r\n" + body)
	case 1: // body part of a multipart (no Content-Disposition)
		sb.WriteString("Content-Type: multipart/mixed; boundary=LL\r\n\r\n--LL\r\nContent-Type: text/plain; charset=UTF-8\r\nContent-Transfer-Encoding: " + enc +
			"\r\n\r\n" + body + "\r\n--LL\r\nContent-Type: text/html; charset=UTF-8\r\nContent-Transfer-Encoding: " + enc + "\r\n\r\n" + x.longBody(enc, i+1) + "\r\n--LL--\r\n")
	default: // nested alternative + attachment
		sb.WriteString("Content-Type: multipart/mixed; boundary=LL\r\n\r\n--LL\r\nContent-Type: multipart/alternative; boundary=MM\r\n\r\n--MM\r\nContent-Type: text/plain; charset=UTF-8\r\nContent-Transfer-Encoding: " + enc +
			"\r\n\r\n" + body + "\r\n--MM--\r\n\r\n--LL\r\nContent-Disposition: attachment; filename=\"a.bin\"\r\nContent-Type: application/octet-stream\r\nContent-Transfer-Encoding: " + enc + "\r\n\r\n" + x.longBody(enc, i+2) + "\r\n--LL--\r\n")
	}
	return []byte(sb.String())
}
