// Package c08: S/MIME signatures verify for every message shape (C08).
package c08

import (
	"bytes"
	"crypto/ecdsa"
	"crypto/elliptic"
	crand "crypto/rand"
	"crypto/rsa"
	"crypto/tls"
	"crypto/x509"
	"crypto/x509/pkix"
	"encoding/base64"
	"errors"
	"fmt"
	"io"
	"math/big"
	"strings"
	"time"

	mail "github.com/wneessen/go-mail"
	"verif/harness/bytex"
	"verif/harness/cmsx"
	"verif/harness/hx"
	"verif/harness/mimeread"
)

func init() { hx.Register("C08", Run) }

type keyset struct {
	leaf  tls.Certificate // leaf only
	chain tls.Certificate // leaf + intermediate
	inter *x509.Certificate
}

var keys map[string]*keyset

func mkCert(tmpl, parent *x509.Certificate, pub, parentKey interface{}) (*x509.Certificate, []byte) {
	der, err := x509.CreateCertificate(realRand, tmpl, parent, pub, parentKey)
	if err != nil {
		panic(err)
	}
	c, err := x509.ParseCertificate(der)
	if err != nil {
		panic(err)
	}
	return c, der
}

var realRand = crand.Reader

func genKeys() {
	keys = map[string]*keyset{}
	now := time.Now()
	caKey, _ := ecdsa.GenerateKey(elliptic.P256(), realRand)
	caT := &x509.Certificate{SerialNumber: big.NewInt(1), Subject: pkix.Name{CommonName: "verif root"}, NotBefore: now.Add(-time.Hour),
		NotAfter: now.Add(240 * time.Hour), IsCA: true, BasicConstraintsValid: true, KeyUsage: x509.KeyUsageCertSign}
	ca, _ := mkCert(caT, caT, &caKey.PublicKey, caKey)
	inKey, _ := ecdsa.GenerateKey(elliptic.P256(), realRand)
	inT := &x509.Certificate{SerialNumber: big.NewInt(2), Subject: pkix.Name{CommonName: "verif intermediate"}, NotBefore: now.Add(-time.Hour),
		NotAfter: now.Add(240 * time.Hour), IsCA: true, BasicConstraintsValid: true, KeyUsage: x509.KeyUsageCertSign}
	inter, interDER := mkCert(inT, ca, &inKey.PublicKey, caKey)
	leafT := func(serial int64) *x509.Certificate {
		return &x509.Certificate{SerialNumber: big.NewInt(serial), Subject: pkix.Name{CommonName: "signer"}, NotBefore: now.Add(-time.Hour),
			NotAfter: now.Add(240 * time.Hour), KeyUsage: x509.KeyUsageDigitalSignature, EmailAddresses: []string{"from@x.test"}}
	}
	rk, err := rsa.GenerateKey(realRand, 2048)
	if err != nil {
		panic(err)
	}
	// the RSA signer has the same serial number as the intermediate: serial numbers are unique per issuer only
	_, rder := mkCert(leafT(2), inter, &rk.PublicKey, inKey)
	ek, _ := ecdsa.GenerateKey(elliptic.P256(), realRand)
	_, eder := mkCert(leafT(11), inter, &ek.PublicKey, inKey)
	keys["rsa"] = &keyset{leaf: tls.Certificate{Certificate: [][]byte{rder}, PrivateKey: rk},
		chain: tls.Certificate{Certificate: [][]byte{rder, interDER}, PrivateKey: rk}, inter: inter}
	keys["ecdsa"] = &keyset{leaf: tls.Certificate{Certificate: [][]byte{eder}, PrivateKey: ek},
		chain: tls.Certificate{Certificate: [][]byte{eder, interDER}, PrivateKey: ek}, inter: inter}
}

func parseList(s string) [][]string {
	if s == "-" {
		return nil
	}
	var out [][]string
	for _, it := range strings.Split(s, ",") {
		out = append(out, strings.Split(it, ":"))
	}
	return out
}

// verify one rendering; returns a failure class ("" = fine) and detail
func verify(out []byte, ks *keyset, wantInter bool) (string, string) {
	ent, err := mimeread.Read(out)
	if err != nil {
		return "unreadable", err.Error()
	}
	if ent.MediaType != "multipart/signed" {
		return "not-signed", "top level is " + ent.MediaType
	}
	if ent.CTParams["protocol"] != "application/pkcs7-signature" || !strings.EqualFold(ent.CTParams["micalg"], "sha-256") {
		return "wrapper-params", fmt.Sprintf("protocol %q micalg %q", ent.CTParams["protocol"], ent.CTParams["micalg"])
	}
	raw, err := mimeread.SplitMultipart(ent.Raw, ent.Boundary)
	if err != nil || len(raw) != 2 {
		return "wrapper-parts", fmt.Sprintf("%d parts (%v)", len(raw), err)
	}
	sig := ent.Kids[1]
	if !strings.HasPrefix(sig.MediaType, "application/pkcs7-signature") || sig.CTE != "base64" {
		return "signature-part", fmt.Sprintf("type %q cte %q", sig.MediaType, sig.CTE)
	}
	res, err := cmsx.Verify(sig.Body, raw[0])
	if err != nil {
		cl := "cms-" + strings.SplitN(err.Error(), ":", 2)[0]
		cl = strings.ReplaceAll(cl, " ", "-")
		return cl, err.Error()
	}
	wantCerts := 1
	if wantInter {
		wantCerts = 2
	}
	if res.NCerts != wantCerts {
		return "cert-count", fmt.Sprintf("%d certificates in SignedData, want %d", res.NCerts, wantCerts)
	}
	if wantInter {
		if err := res.SignerCert.CheckSignatureFrom(ks.inter); err != nil {
			return "chain", err.Error()
		}
	}
	return "", ""
}

// case args: <msgenc> <parts> <embeds> <attach> <hdrvar> <key> <inter 0|1>
// parts: enc:desc(0|1):hexcontent ; files: enc:hexname:hexcontent
func runCase(r *hx.Run, c hx.Case) {
	if keys == nil {
		genKeys()
	}
	msgenc := c.Args[0]
	parts, embeds, attach := parseList(c.Args[1]), parseList(c.Args[2]), parseList(c.Args[3])
	hdrvar, key, inter := c.Args[4], c.Args[5], c.Args[6] == "1"
	spec := bytex.MsgSpec{From: "from@x.test", To: []string{"to@y.test"}, Enc: msgenc,
		Gen: []bytex.KV{{K: "Subject", V: []string{"signed message"}}}}
	shape := fmt.Sprintf("n%de%da%d", len(parts), len(embeds), len(attach))
	for i, p := range parts {
		ct := "text/plain"
		if i == 1 {
			ct = "text/html"
		}
		ps := bytex.PartSpec{CType: ct, Enc: p[0], Prod: bytex.Producer{Chunks: [][]byte{hx.UnHex(p[2])}}}
		if p[1] == "1" {
			ps.Desc = "a part description"
		}
		spec.Parts = append(spec.Parts, ps)
	}
	mk := func(items [][]string) []bytex.FileSpec {
		var fs []bytex.FileSpec
		for _, f := range items {
			fs = append(fs, bytex.FileSpec{Name: string(hx.UnHex(f[1])), Enc: f[0], Prod: bytex.Producer{Chunks: [][]byte{hx.UnHex(f[2])}}})
		}
		return fs
	}
	spec.Embeds, spec.Attach = mk(embeds), mk(attach)
	if strings.HasPrefix(hdrvar, "fail:") {
		// a producer that fails on every call (after its data): position p<i> / e<i> / a<i>
		pos := strings.TrimPrefix(hdrvar, "fail:")
		idx := int(pos[1] - '0')
		switch {
		case pos[0] == 'p' && idx < len(spec.Parts):
			spec.Parts[idx].Prod.Fail = true
		case pos[0] == 'e' && idx < len(spec.Embeds):
			spec.Embeds[idx].Prod.Fail = true
		case pos[0] == 'a' && idx < len(spec.Attach):
			spec.Attach[idx].Prod.Fail = true
		default:
			r.Fail(c.ID, "bad-replay", "no such producer "+pos)
			return
		}
	}
	switch hdrvar {
	case "preform":
		spec.Pre = []bytex.KV{{K: "X-Pre", V: []string{"preformatted value"}}}
	case "multiline":
		spec.Pre = []bytex.KV{{K: "X-Multi", V: []string{"line one\r\n line two\r\n line three"}}}
	case "lfmulti":
		// folded by the caller with bare LF + TAB: one CRLF-terminated line for the header-line accounting
		spec.Pre = []bytex.KV{{K: "X-Multi-LF", V: []string{"line one\n\tline two\n\tline three"}}}
	case "fixedb":
		// a predefined boundary (documented for messages with a single inner multipart): the multipart/signed wrapper
		// needs a boundary of its own
		layers := 0
		if len(parts) > 1 {
			layers++
		}
		if (len(parts) > 0 && len(embeds) > 0) || len(embeds) > 1 {
			layers++
		}
		if ((len(parts) > 0 || len(embeds) > 0) && len(attach) > 0) || len(attach) > 1 {
			layers++
		}
		if layers != 1 {
			r.AddOracleOnly(c, false)
			return
		}
		spec.Boundary = "predefined-boundary-verif"
	case "middleware":
		// a middleware that changes the signed entity (appends a footer to the text parts): it has to run before the
		// message is signed, the emitted first part is what was signed
		spec.Middlewares = []mail.Middleware{bytex.FooterMiddleware{}}
	case "longsubject":
		spec.Gen[0].V = []string{strings.Repeat("a long subject that must be folded ", 6)}
	}
	m, err := spec.Build()
	if err != nil {
		r.Fail(c.ID, "harness-build", err.Error())
		return
	}
	switch hdrvar {
	case "emptygen":
		m.SetGenHeader(mail.Header("X-Empty"))
		spec.Gen = append(spec.Gen, bytex.KV{K: "X-Empty"})
	case "ccignore":
		m.CcIgnoreInvalid("not an address")
	case "toignore":
		m.ToIgnoreInvalid("bad one", "worse")
	}
	ks := keys[key]
	cert := &ks.leaf
	if inter {
		cert = &ks.chain
	}
	crand.Reader = realRand
	// both ways of configuring the signer: a tls.Certificate, or key pair + certificate (+ intermediate) separately
	var serr error
	if (len(c.ID)+len(hdrvar))%2 == 0 {
		serr = m.SignWithTLSCertificate(cert)
	} else {
		leafX, perr := x509.ParseCertificate(cert.Certificate[0])
		if perr != nil {
			r.Fail(c.ID, "harness-sign-setup", perr.Error())
			return
		}
		var interX *x509.Certificate
		if inter {
			interX = ks.inter
		}
		serr = m.SignWithKeypair(cert.PrivateKey, leafX, interX)
	}
	if serr != nil {
		r.Fail(c.ID, "harness-sign-setup", serr.Error())
		return
	}
	if strings.HasPrefix(hdrvar, "fail:") {
		// the message cannot be rendered: nothing may be signed or written, WriteTo must return (0, error);
		// compared with the model (kind smimefail: no signature oracle needed because nothing is signed)
		desc := bytex.Describe(m, &spec, [3]string{}, nil)
		sink := &bytex.Sink{K: -1}
		n, werr, pan := bytex.SafeWriteTo(m, sink)
		if pan != nil {
			r.Fail(c.ID, "panic", fmt.Sprint(pan))
			r.AddOracleOnly(c, true)
			return
		}
		cls := "ok"
		if werr != nil {
			cls = "err"
		}
		mc := hx.Case{ID: c.ID + "-f", Kind: "smimefail", Args: append([]string{desc, hx.Hex([]byte("SB"))}, c.Args...)}
		r.Add(mc, fmt.Sprintf("%s %d %s", cls, n, hx.Hex(sink.Accepted)), true)
		if werr == nil || n != 0 || len(sink.Accepted) != 0 {
			r.Fail(c.ID, "failing-producer-signed-"+shapeClass(shape, parts), fmt.Sprintf("shape %s %s: WriteTo returned (%d, %v) and wrote %d bytes; a message that cannot be rendered must not be signed or written", shape, hdrvar, n, werr, len(sink.Accepted)))
		}
		r.AddOracleOnly(c, true)
		return
	}
	modelSpec := &spec
	if hdrvar == "afterskip" || hdrvar == "flaky" || hdrvar == "middleware" {
		modelSpec = nil // the extra render is outside the single-render model case (middleware: the Msg changes inside WriteTo)
	}
	if hdrvar == "flaky" && len(m.GetParts()) > 0 {
		// a source that is temporarily unavailable: the first call of the first part's producer fails after a few
		// bytes, every later call succeeds.  A render that reports success must verify all the same.
		p0 := m.GetParts()[0]
		content, _ := p0.GetContent()
		calls := 0
		p0.SetWriteFunc(func(w io.Writer) (int64, error) {
			calls++
			if calls == 1 {
				n, _ := w.Write(content[:len(content)/2])
				return int64(n), errors.New("verif: source temporarily unavailable")
			}
			n, err := w.Write(content)
			return int64(n), err
		})
	}
	if hdrvar == "afterskip" {
		// a render through the other entry point first: must not disturb the signing of later renders
		_, _ = m.WriteToSkipMiddleware(io.Discard, "none")
	}
	var prev []byte
	var cachedB [3]string
	for render := 1; render <= 3; render++ {
		if render == 3 {
			// the message is edited after it has been rendered (the signature part of the earlier renders is
			// still in the part list, now no longer last) and rendered again: it is a message that can be built
			if hdrvar == "afterskip" || hdrvar == "fixedb" || len(parts) == 0 {
				break // (fixedb: a second inner multipart is outside what a predefined boundary is documented for)
			}
			extra := bytex.PartSpec{CType: "text/x-added", Enc: msgenc, Prod: bytex.Producer{Chunks: [][]byte{[]byte("added after the first render\r\n")}}}
			m.AddAlternativeWriter(mail.ContentType(extra.CType), extra.Prod.Write, mail.WithPartEncoding(mail.Encoding(msgenc)))
			spec.Parts = append(spec.Parts, extra)
		}
		desc := ""
		if modelSpec != nil {
			desc = bytex.Describe(m, modelSpec, cachedB, nil)
		}
		sink := &bytex.Sink{K: -1}
		_, werr, pan := bytex.SafeWriteTo(m, sink)
		if pan != nil {
			r.Fail(c.ID, "panic", fmt.Sprint(pan))
			break
		}
		if werr != nil && hdrvar == "flaky" && render == 1 {
			prev = nil
			continue // the failed source was reported: fine; the next render must succeed and verify
		}
		if werr != nil {
			r.Fail(c.ID, "render-error", werr.Error())
			break
		}
		if modelSpec != nil {
			// model comparison: boundaries and the CMS signature are read from the output (oracles)
			if ent, err := mimeread.Read(sink.Accepted); err == nil && ent.MediaType == "multipart/signed" && len(ent.Kids) == 2 {
				bm, br, ba := bytex.Boundaries(sink.Accepted)
				var rb [][]byte
				for _, b := range []string{bm, br, ba} {
					if b != "" { // positional: one per multipart writer opened (a cached boundary overrides the drawn one)
						rb = append(rb, []byte(b))
					}
				}
				d := strings.TrimSuffix(desc, ";N-") + ";N" + hx.HexList(rb)
				digest := "nodigest"
				if raw, err := mimeread.SplitMultipart(ent.Raw, ent.Boundary); err == nil && len(raw) == 2 {
					if res, _ := cmsx.Verify(ent.Kids[1].Body, raw[0]); res != nil && res.Digest != nil {
						digest = hx.Hex(res.Digest)
					}
				}
				mc := hx.Case{ID: fmt.Sprintf("%s-r%d", c.ID, render), Kind: "smime", Args: append([]string{d, hx.Hex([]byte(ent.Boundary)), hx.Hex(ent.Kids[1].Body), "inf"}, c.Args...)}
				r.Add(mc, fmt.Sprintf("ok %d %s %s", len(sink.Accepted), hx.Hex(sink.Accepted), digest), true)
				cachedB = [3]string{bm, br, ba}
			}
		}
		if cl, det := verify(sink.Accepted, ks, inter); cl != "" {
			r.Fail(c.ID, fmt.Sprintf("%s-%s-%s-render%d", cl, shapeClass(shape, parts), hdrvar, render), fmt.Sprintf("shape %s hdr %s key %s render %d: %s", shape, hdrvar, key, render, det))
		}
		if render == 2 {
			// same signed entity on the second render
			a, _ := mimeread.Read(prev)
			b, _ := mimeread.Read(sink.Accepted)
			if a != nil && b != nil && a.Boundary != "" && b.Boundary != "" {
				ra, _ := mimeread.SplitMultipart(a.Raw, a.Boundary)
				rb, _ := mimeread.SplitMultipart(b.Raw, b.Boundary)
				if len(ra) == 2 && len(rb) == 2 && !bytes.Equal(ra[0], rb[0]) {
					r.Fail(c.ID, "signed-entity-changed-"+hdrvar, "the signed entity of the second render differs from the first")
				}
			}
		}
		prev = sink.Accepted
	}
	_ = base64.StdEncoding
	r.AddOracleOnly(c, true)
}

// the class distinguishes the structural situation that matters for the header accounting
func shapeClass(shape string, parts [][]string) string {
	desc := ""
	for _, p := range parts {
		if p[1] == "1" {
			desc = "-desc"
		}
	}
	switch {
	case strings.HasPrefix(shape, "n1e0a0"):
		return "single" + desc
	case strings.HasPrefix(shape, "n0"):
		return "nobody" + desc
	}
	return "multi" + desc
}

func Run(r *hx.Run, replay []hx.Case) {
	if replay != nil {
		for _, c := range replay {
			if c.Kind == "smimefail" && len(c.Args) >= 9 {
				c = hx.Case{ID: strings.TrimSuffix(c.ID, "-f"), Kind: "smimecase", Args: c.Args[2:9]}
			}
			if c.Kind == "smime" && len(c.Args) >= 11 {
				c = hx.Case{ID: strings.TrimSuffix(strings.TrimSuffix(c.ID, "-r1"), "-r2"), Kind: "smimecase", Args: c.Args[4:11]}
			}
			if len(c.Args) < 7 {
				r.Fail(c.ID, "bad-replay", "case needs 7 arguments")
				continue
			}
			runCase(r, c)
		}
		return
	}
	thorough := r.Tier == "thorough"
	txt := [][]byte{[]byte("Hello signed world\r\n"), []byte("line with = and trailing blank \r\n.dot\r\n"), []byte("\xc3\xa4 UTF-8 text\r\nsecond\r\n"), []byte("no final newline")}
	bin := [][]byte{[]byte("\x00\x01binary\xff"), bytes.Repeat([]byte("0123456789"), 30)}
	encs := []string{"quoted-printable", "base64", "8bit"}
	hdrvars := []string{"none", "emptygen", "ccignore", "toignore", "preform", "multiline", "lfmulti", "longsubject", "afterskip", "flaky", "fixedb", "middleware"}
	names := []string{"a.bin", "a long file name that makes the disposition header exceed the folding limit.pdf", "na\xc3\xafve.txt"}
	ci := 0
	for n := 0; n <= 2; n++ {
		for e := 0; e <= 1; e++ {
			for a := 0; a <= 2; a++ {
				if n == 0 && e+a == 0 {
					continue
				}
				hvs := append([]string(nil), hdrvars...)
				for i := 0; i < n; i++ {
					hvs = append(hvs, fmt.Sprintf("fail:p%d", i))
				}
				for i := 0; i < e; i++ {
					hvs = append(hvs, fmt.Sprintf("fail:e%d", i))
				}
				for i := 0; i < a; i++ {
					hvs = append(hvs, fmt.Sprintf("fail:a%d", i))
				}
				for _, hv := range hvs {
					reps := 1
					if thorough {
						reps = 6
					}
					for k := 0; k < reps; k++ {
						if r.Expired() {
							return
						}
						var ps, es, as []string
						for i := 0; i < n; i++ {
							d := "0"
							if (ci+i)%4 == 0 {
								d = "1"
							}
							ps = append(ps, fmt.Sprintf("%s:%s:%s", []string{"", encs[(ci+i)%3]}[ci%2], d, hx.Hex(txt[(ci+i)%len(txt)])))
						}
						for i := 0; i < e; i++ {
							es = append(es, fmt.Sprintf("%s:%s:%s", []string{"", "8bit"}[(ci+i)%2], hx.Hex([]byte(names[(ci+i)%len(names)])), hx.Hex(bin[(ci+i)%len(bin)])))
						}
						for i := 0; i < a; i++ {
							as = append(as, fmt.Sprintf("%s:%s:%s", []string{"", "base64", "8bit"}[(ci+i)%3], hx.Hex([]byte(names[(ci+i+1)%len(names)])), hx.Hex(bin[(ci+i+1)%len(bin)])))
						}
						j := func(l []string) string {
							if len(l) == 0 {
								return "-"
							}
							return strings.Join(l, ",")
						}
						key := []string{"rsa", "ecdsa"}[ci%2]
						inter := []string{"0", "1"}[(ci/2)%2]
						runCase(r, hx.Case{ID: r.NewID(), Kind: "smimecase", Args: []string{encs[ci%3], j(ps), j(es), j(as), hv, key, inter}})
						ci++
					}
				}
			}
		}
	}
}
