(* Extraction of the lock model for the C13 correspondence check (ExtrOcamlBasic only). *)
From Verif Require Import Bytes Locks.
Require Extraction.
Require Import ExtrOcamlBasic.
Extraction "model.ml" Locks.model_mixed Locks.check_stream Locks.txn_items Locks.dial_items.
