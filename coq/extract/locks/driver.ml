(* driver.ml — line protocol for the lock model (engine locks, C13).
   input  : <id> mixed[:<mech>:<warm>] <ns> <nd> <rcpts> <jitter seed> <order>      output : <id> <streams> <verdict>
   streams: connection 0 first, then the private connections in goroutine order, separated by ';';
   items separated by ','; an item is the verb letter followed by the message id when there is one. *)
open Util
module M = Model

let rec pos_of_int (i : int) : M.positive =
  if i = 1 then M.XH else if i land 1 = 0 then M.XO (pos_of_int (i lsr 1)) else M.XI (pos_of_int (i lsr 1))
let n_of_int (i : int) : M.n = if i = 0 then M.N0 else M.Npos (pos_of_int i)
let rec int_of_pos (p : M.positive) : int = match p with
  | M.XH -> 1 | M.XO q -> 2 * int_of_pos q | M.XI q -> 2 * int_of_pos q + 1
let int_of_n (x : M.n) : int = match x with M.N0 -> 0 | M.Npos p -> int_of_pos p
let rec nat_of_int (i : int) : M.nat = if i <= 0 then M.O else M.S (nat_of_int (i - 1))

let ints_of_csv s = if s = "-" || s = "" then [] else List.map int_of_string (split_on ',' s)

let item_text (it : M.n list) : string =
  match List.map int_of_n it with
  | [v; 0] -> String.make 1 (Char.chr v)
  | [v; id] -> Printf.sprintf "%c%d" (Char.chr v) id
  | _ -> "?"
let stream_text (s : M.n list list) : string =
  if s = [] then "-" else String.concat "," (List.map item_text s)

let run (toks : string list) : string =
  match toks with
  | kind :: ns :: _nd :: rcpts :: _seed :: order :: _
    when String.length kind >= 5 && String.sub kind 0 5 = "mixed" ->
      (* kind = mixed | mixed:<auth mechanism>:<warm-up>; the AUTH exchange is not part of the compared
         stream (it is checked by the harness oracle), so the model run is the same *)
      let rc = List.map nat_of_int (ints_of_csv rcpts) in
      let ord = List.map nat_of_int (ints_of_csv order) in
      let ((shared, priv), fin) = M.model_mixed (nat_of_int (int_of_string ns)) rc ord in
      (* the model's own stream must pass the model's serialisation check *)
      let ids = List.mapi (fun i r -> (i, r)) rc in
      let nsi = int_of_string ns in
      let bodies = List.filter_map (fun (i, r) -> if i < nsi then Some (M.txn_items (n_of_int (i + 1)) r) else None) ids in
      let chk = M.check_stream bodies shared in
      String.concat ";" (stream_text shared :: List.map stream_text priv)
      ^ (if fin && chk then " ok" else if fin then " not-serial" else " stuck")
  | k :: _ -> "UNKNOWN-KIND-" ^ k
  | [] -> "EMPTY"

let () =
  try
    while true do
      let line = input_line stdin in
      if String.length line > 0 && line.[0] <> '#' then begin
        match split_on ' ' line with
        | id :: rest -> print_string id; print_char ' '; print_endline (run rest)
        | [] -> ()
      end
    done
  with End_of_file -> ()
