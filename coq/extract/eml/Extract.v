(* Extraction of the EML parser model for the correspondence check (ExtrOcamlBasic only). *)
From Verif Require Import Bytes WordEnc Writer Eml EmlRender EmlWriter EmlFront EmlWord EmlRerender.
Require Extraction.
Require Import ExtrOcamlBasic.
Extraction "model.ml"
  Eml.pobs_tuple Eml.fobs_tuple Eml.state_tuple Eml.parse_eml_fixed Eml.parse_eml_old Eml.parse_multipart_header Eml.filename_of
  EmlRender.parse_and_rerender_fields EmlRender.roundtrip_filename EmlRender.needs_encoding EmlRender.sanitize
  EmlWriter.filename_via_writer EmlWriter.fresh_file
  EmlFront.eml_parse EmlFront.media_type EmlFront.fields_of_block
  EmlWord.decode_header EmlRerender.rerender.
