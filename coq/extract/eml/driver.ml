(* driver.ml — line protocol for the EML parser model (engine eml: C09, C10).
   input  : <id> <kind> <args...>      output : <id> <observable>
   kind eml : <rawhex> <failoff> <msg_ok> <addr_ok> <date_ok> <entity...>
     entity := E <nfields> (<key> <value>)* <mt> <bits> <nparts> <end_ok> entity*
     mt     := N | X | M <mediatype> <charset|-> <has_boundary>
     bits   := four 0/1 characters: read_ok qp_ok b64s_ok b64d_ok
   (rawhex / failoff are what the implementation side parses; the model works on the tree of
   stdlib results that the harness computed for the same input) *)
open Util
module M = Model

let rec pos_of_int (i : int) : M.positive =
  if i = 1 then M.XH else if i land 1 = 0 then M.XO (pos_of_int (i lsr 1)) else M.XI (pos_of_int (i lsr 1))
let n_of_int (i : int) : M.n = if i = 0 then M.N0 else M.Npos (pos_of_int i)
let rec int_of_pos (p : M.positive) : int = match p with
  | M.XH -> 1 | M.XO q -> 2 * int_of_pos q | M.XI q -> 2 * int_of_pos q + 1
let int_of_n (x : M.n) : int = match x with M.N0 -> 0 | M.Npos p -> int_of_pos p

let bytes_of_hex s = List.map n_of_int (ints_of_hex s)
let hex_of_bytes l = hex_of_ints (List.map int_of_n l)
let b01 s = (s = "1")

exception Bad of string

(* token stream *)
let next (r : string list ref) : string =
  match !r with
  | [] -> raise (Bad "short")
  | x :: t -> r := t; x

let rec read_entity (r : string list ref) : M.entity =
  let tag = next r in
  if tag <> "E" then raise (Bad ("tag " ^ tag));
  let nf = int_of_string (next r) in
  let rec fields k = if k = 0 then [] else
    let key = bytes_of_hex (next r) in
    let v = bytes_of_hex (next r) in
    (key, v) :: fields (k - 1) in
  let h = fields nf in
  let mt = match next r with
    | "N" -> M.MTNone
    | "X" -> M.MTErr
    | "M" ->
        let m = bytes_of_hex (next r) in
        let cs = (match next r with "-" -> None | x -> Some (bytes_of_hex x)) in
        let hb = b01 (next r) in
        M.MTOk (m, cs, hb)
    | x -> raise (Bad ("mt " ^ x)) in
  let bs = next r in
  if String.length bs <> 4 then raise (Bad "bits");
  let bit i = bs.[i] = '1' in
  let b = { M.read_ok = bit 0; M.qp_ok = bit 1; M.b64s_ok = bit 2; M.b64d_ok = bit 3 } in
  let np = int_of_string (next r) in
  let end_ok = b01 (next r) in
  let rec parts k = if k = 0 then [] else
    let p = read_entity r in p :: parts (k - 1) in
  let ps = parts np in
  M.Entity (h, mt, b, ps, end_ok)

let join_or_dash l = if l = [] then "-" else String.concat "," l

let show_state (st : M.mstate) : string =
  let part (p : M.pobs) = hex_of_bytes p.M.p_ct ^ ":" ^ hex_of_bytes p.M.p_cs ^ ":" ^ hex_of_bytes p.M.p_enc in
  let file (f : M.fobs) = hex_of_bytes f.M.fo_name ^ ":" ^ hex_of_bytes f.M.fo_cid in
  let gen = List.sort compare (List.map (fun (k, _) -> hex_of_bytes k) st.M.m_gen) in
  Printf.sprintf "ok cs=%s enc=%s parts=%s att=%s emb=%s gen=%s"
    (hex_of_bytes st.M.m_charset) (hex_of_bytes st.M.m_enc)
    (join_or_dash (List.map part st.M.m_parts))
    (join_or_dash (List.map file st.M.m_atts))
    (join_or_dash (List.map file st.M.m_embs))
    (join_or_dash gen)

let show_outcome (o : M.mstate M.outcome) : string =
  match o with
  | M.Ok st -> show_state st
  | M.Err -> "err"
  | M.Panic -> "panic"

let run (toks : string list) : string =
  match toks with
  | "eml" :: _raw :: _off :: msg_ok :: addr_ok :: date_ok :: rest ->
      let r = ref rest in
      let e = read_entity r in
      let t = { M.t_msg_ok = b01 msg_ok; M.t_addr_ok = b01 addr_ok; M.t_date_ok = b01 date_ok; M.t_ent = e } in
      show_outcome (M.parse_eml_fixed t)
  | "emlold" :: _raw :: _off :: msg_ok :: addr_ok :: date_ok :: rest ->
      let r = ref rest in
      let e = read_entity r in
      let t = { M.t_msg_ok = b01 msg_ok; M.t_addr_ok = b01 addr_ok; M.t_date_ok = b01 date_ok; M.t_ent = e } in
      show_outcome (M.parse_eml_old t)
  | "rt" :: _enc :: _subj :: _from :: _nto :: _ncc :: _date :: _plain :: _html :: _atts :: _embs
    :: flags :: msg_ok :: addr_ok :: date_ok :: rest ->
      (* C10: parse go-mail's own rendering (stdlib view of it in the tree), then the header field
         names of the re-render *)
      let r = ref rest in
      let e = read_entity r in
      let t = { M.t_msg_ok = b01 msg_ok; M.t_addr_ok = b01 addr_ok; M.t_date_ok = b01 date_ok; M.t_ent = e } in
      let fl i = String.length flags > i && flags.[i] = '1' in
      (match M.parse_and_rerender_fields M.filename_of false t (fl 0) (fl 1) (fl 2) with
       | M.Ok (st, fields) ->
           show_state st ^ " | " ^
           String.concat "," (List.map (fun f -> String.concat "" (List.map (fun b -> String.make 1 (Char.chr (int_of_n b land 255))) f)) fields)
       | M.Err -> "err"
       | M.Panic -> "panic")
  | ["fname"; name] ->
      (* C10 tier B: Writer.file_hdrs (sanitize, word encoder Q = 113, header cache of a fresh file)
         -> Content-Disposition -> parser; the Content-Type guess is irrelevant to the name *)
      let f = M.fresh_file (bytes_of_hex name) (bytes_of_hex "6170706c69636174696f6e2f6f637465742d73747265616d") in
      (match M.filename_via_writer (n_of_int 113) true f with
       | M.Ok f -> "ok " ^ hex_of_bytes f
       | M.Err -> "err"
       | M.Panic -> "panic")
  | k :: _ -> "UNKNOWN-KIND-" ^ k
  | [] -> "EMPTY"

let () =
  try
    while true do
      let line = input_line stdin in
      if String.length line > 0 && line.[0] <> '#' then begin
        match split_on ' ' line with
        | id :: rest ->
            print_string id; print_char ' ';
            print_endline (try run rest with Bad m -> "BAD-CASE-" ^ m | Failure m -> "BAD-CASE-" ^ m)
        | [] -> ()
      end
    done
  with End_of_file -> ()
