(* driver.ml — line protocol for the EML parser model (engine eml: C09, C10).
   input  : <id> <kind> <args...>      output : <id> <observable>
   kind eml : <rawhex> <failoff> <top>
     entity := E <nfields> (<key> <value>)* <mt> <bits> <nparts> <end_ok> entity*
     mt     := N | X | M <mediatype> <charset|-> <has_boundary>
     bits   := <read_ok 0/1> <raw body hex> <qp> <b64 stream> <b64 DecodeString>  (decoder results: hex, "=" same as raw, "!" error)
     top    := <msg_ok> <from> <to> <cc> <bcc> <date> entity     (address fields: "-" absent, "!" error, "a"hex,hex… ; date: "-", "!", "d"hex)
   (rawhex / failoff are what the implementation side parses; the model works on the tree of
   stdlib results that the harness computed for the same input) *)
open Util
module M = Model

let rec pos_of_int (i : int) : M.positive =
  if i = 1 then M.XH else if i land 1 = 0 then M.XO (pos_of_int (i lsr 1)) else M.XI (pos_of_int (i lsr 1))
let n_of_int (i : int) : M.n = if i = 0 then M.N0 else M.Npos (pos_of_int i)
let rec int_of_pos (p : M.positive) : int = match p with
  | M.XH -> 1 | M.XO q -> 2 * int_of_pos q | M.XI q -> 2 * int_of_pos q + 1
let int_of_n (x : M.n) : int = match x with M.N0 -> 0 | M.Npos p -> int_of_pos p

let bytes_of_hex s = List.map n_of_int (ints_of_hex s)
let hex_of_bytes l = hex_of_ints (List.map int_of_n l)
let b01 s = (s = "1")

exception Bad of string

(* token stream *)
let next (r : string list ref) : string =
  match !r with
  | [] -> raise (Bad "short")
  | x :: t -> r := t; x

let rec read_entity (r : string list ref) : M.entity =
  let tag = next r in
  if tag <> "E" then raise (Bad ("tag " ^ tag));
  let nf = int_of_string (next r) in
  let rec fields k = if k = 0 then [] else
    let key = bytes_of_hex (next r) in
    let v = bytes_of_hex (next r) in
    (key, v) :: fields (k - 1) in
  let h = fields nf in
  let mt = match next r with
    | "N" -> M.MTNone
    | "X" -> M.MTErr
    | "M" ->
        let m = bytes_of_hex (next r) in
        let cs = (match next r with "-" -> None | x -> Some (bytes_of_hex x)) in
        let hb = b01 (next r) in
        M.MTOk (m, cs, hb)
    | x -> raise (Bad ("mt " ^ x)) in
  let rd = b01 (next r) in
  let rawh = next r in
  let rawb = bytes_of_hex rawh in
  let dec () = (match next r with "!" -> None | "=" -> Some rawb | x -> Some (bytes_of_hex x)) in
  let q = dec () in
  let s64 = dec () in
  let d64 = dec () in
  let b = { M.read_ok = rd; M.raw = rawb; M.qp_dec = q; M.b64s_dec = s64; M.b64d_dec = d64 } in
  let np = int_of_string (next r) in
  let end_ok = b01 (next r) in
  let rec parts k = if k = 0 then [] else
    let p = read_entity r in p :: parts (k - 1) in
  let ps = parts np in
  M.Entity (h, mt, b, ps, end_ok)

let join_or_dash l = if l = [] then "-" else String.concat "," l

let show_state (st : M.mstate) : string =
  let ((((((cs, enc), parts), atts), embs), gens), (((afrom, ato), acc), abcc)) = M.state_tuple st in
  let part (p : M.pobs) = let (((ct, pcs), penc), content) = M.pobs_tuple p in
    hex_of_bytes ct ^ ":" ^ hex_of_bytes pcs ^ ":" ^ hex_of_bytes penc ^ ":" ^ hex_of_bytes content in
  let file (f : M.fobs) = let ((name, cid), data) = M.fobs_tuple f in
    hex_of_bytes name ^ ":" ^ hex_of_bytes cid ^ ":" ^ hex_of_bytes data in
  let gen = List.sort compare (List.map (fun (k, _) -> hex_of_bytes k) gens) in
  let al l = join_or_dash (List.map hex_of_bytes l) in
  Printf.sprintf "ok cs=%s enc=%s parts=%s att=%s emb=%s gen=%s from=%s to=%s cc=%s bcc=%s"
    (hex_of_bytes cs) (hex_of_bytes enc)
    (join_or_dash (List.map part parts))
    (join_or_dash (List.map file atts))
    (join_or_dash (List.map file embs))
    (join_or_dash gen) (al afrom) (al ato) (al acc) (al abcc)

(* generic header values that C10 looks at (Subject, Date): raw value handed to SetGenHeader *)
let show_gen_values (st : M.mstate) : string =
  let ((((((_, _), _), _), _), gens), _) = M.state_tuple st in
  let get k = (match List.find_opt (fun (k', _) -> hex_of_bytes k' = k) gens with
               | Some (_, v) -> hex_of_bytes v | None -> "-") in
  Printf.sprintf "subj=%s date=%s" (get "5375626a656374") (get "44617465")

let read_ares (s : string) : M.ares =
  if s = "-" then M.ANone else if s = "!" then M.AErr
  else M.AOk (if s = "a" then [] else List.map bytes_of_hex (split_on ',' (String.sub s 1 (String.length s - 1))))
let read_dres (s : string) : M.dres =
  if s = "-" then M.DNone else if s = "!" then M.DErr else M.DOk (bytes_of_hex (String.sub s 1 (String.length s - 1)))

(* <msg_ok> <from> <to> <cc> <bcc> <date> <entity…> *)
let read_top (r : string list ref) : M.top =
  let msg_ok = b01 (next r) in
  let f = read_ares (next r) in let t = read_ares (next r) in
  let c = read_ares (next r) in let b = read_ares (next r) in
  let d = read_dres (next r) in
  let e = read_entity r in
  { M.t_msg_ok = msg_ok; M.t_from = f; M.t_to = t; M.t_cc = c; M.t_bcc = b; M.t_date = d; M.t_ent = e }

let show_outcome (o : M.mstate M.outcome) : string =
  match o with
  | M.Ok st -> show_state st
  | M.Err -> "err"
  | M.Panic -> "panic"

let run (toks : string list) : string =
  match toks with
  | "eml" :: _raw :: _off :: rest ->
      show_outcome (M.parse_eml_fixed (read_top (ref rest)))
  | "emlold" :: _raw :: _off :: rest ->
      show_outcome (M.parse_eml_old (read_top (ref rest)))
  | "rt" :: _enc :: _subj :: _from :: _nto :: _ncc :: _date :: _plain :: _html :: _atts :: _embs
    :: flags :: rest ->
      (* C10: parse go-mail's own rendering (stdlib view of it in the tree), then the header field
         names of the re-render *)
      let t = read_top (ref rest) in
      let fl i = String.length flags > i && flags.[i] = '1' in
      (match M.parse_and_rerender_fields M.filename_of false t (fl 0) (fl 1) (fl 2) with
       | M.Ok (st, fields) ->
           show_state st ^ " " ^ show_gen_values st ^ " | " ^
           String.concat "," (List.map (fun f -> String.concat "" (List.map (fun b -> String.make 1 (Char.chr (int_of_n b land 255))) f)) fields)
       | M.Err -> "err"
       | M.Panic -> "panic")
  | "front" :: raw :: from :: date :: lists ->
      (* C10: the whole parser on the rendered bytes in Gallina (MimeRead + EmlFront + Eml); net/mail's
         results are handed in: From, Date, and a table value=result for the address-list fields *)
      let tbl = List.filter_map (fun tok -> match String.index_opt tok '=' with
          | Some i -> Some (bytes_of_hex (String.sub tok 0 i), read_ares (String.sub tok (i + 1) (String.length tok - i - 1)))
          | None -> None) lists in
      let plist v = (match List.find_opt (fun (k, _) -> k = v) tbl with Some (_, r) -> r | None -> M.AErr) in
      (match M.eml_parse (fun _ -> read_ares from) plist (fun _ -> read_dres date) (bytes_of_hex raw) with
       | M.Ok st -> show_state st ^ " " ^ show_gen_values st
       | M.Err -> "err"
       | M.Panic -> "panic")
  | "rr" :: bounds :: mimes :: rest ->
      (* C10: the Writer.msg the parsed Msg denotes (EmlRerender.msg_of_parsed), rendered by the writer model
         with the boundaries of the real re-render; mimes = name=type table of mime.TypeByExtension *)
      let t = read_top (ref rest) in
      let tbl = if mimes = "-" then [] else List.map (fun tok -> match String.index_opt tok '=' with
          | Some i -> (bytes_of_hex (String.sub tok 0 i), bytes_of_hex (String.sub tok (i + 1) (String.length tok - i - 1)))
          | None -> ([], [])) (split_on ',' mimes) in
      let mime_of n = (match List.find_opt (fun (k, _) -> k = n) tbl with Some (_, v) -> v | None -> bytes_of_hex "6170706c69636174696f6e2f6f637465742d73747265616d") in
      let rb = if bounds = "-" then [] else List.map bytes_of_hex (split_on ',' bounds) in
      (match M.parse_eml_fixed t with
       | M.Ok st ->
           let out = M.rerender mime_of rb st in
           let str = String.concat "" (List.map (fun b -> String.make 1 (Char.chr (int_of_n b land 255))) out) in
           Printf.sprintf "%d %s" (String.length str) (Digest.to_hex (Digest.string str))
       | M.Err -> "err"
       | M.Panic -> "panic")
  | ["dec2047"; v] ->
      (* C10: mime.WordDecoder.DecodeHeader in Gallina *)
      (match M.decode_header (bytes_of_hex v) with
       | Some d -> "ok " ^ hex_of_bytes d
       | None -> "err")
  | ["fname"; name] ->
      (* C10 tier B: Writer.file_hdrs (sanitize, word encoder Q = 113, header cache of a fresh file)
         -> Content-Disposition -> parser; the Content-Type guess is irrelevant to the name *)
      let f = M.fresh_file (bytes_of_hex name) (bytes_of_hex "6170706c69636174696f6e2f6f637465742d73747265616d") in
      (match M.filename_via_writer (n_of_int 113) true f with
       | M.Ok f -> "ok " ^ hex_of_bytes f
       | M.Err -> "err"
       | M.Panic -> "panic")
  | k :: _ -> "UNKNOWN-KIND-" ^ k
  | [] -> "EMPTY"

let () =
  try
    while true do
      let line = input_line stdin in
      if String.length line > 0 && line.[0] <> '#' then begin
        match split_on ' ' line with
        | id :: rest ->
            print_string id; print_char ' ';
            print_endline (try run rest with Bad m -> "BAD-CASE-" ^ m | Failure m -> "BAD-CASE-" ^ m)
        | [] -> ()
      end
    done
  with End_of_file -> ()
