(* util.ml — glue shared by all drivers: conversions between OCaml ints/strings and the
   extracted N / nat / list types, hex line protocol.  Generic over the extracted module's
   constructors via functions passed in by each driver (the extracted types are per-module). *)
let hexdigit c = match c with
  | '0'..'9' -> Char.code c - 48
  | 'a'..'f' -> Char.code c - 87
  | 'A'..'F' -> Char.code c - 55
  | _ -> failwith "bad hex"
let ints_of_hex (s : string) : int list =
  if s = "~" then [] else begin
    let n = String.length s / 2 in
    List.init n (fun i -> hexdigit s.[2*i] * 16 + hexdigit s.[2*i+1])
  end
let hex_of_ints (l : int list) : string =
  if l = [] then "~" else begin
    let b = Buffer.create (2 * List.length l) in
    List.iter (fun x -> Buffer.add_string b (Printf.sprintf "%02x" (x land 255))) l;
    Buffer.contents b
  end
let split_on c s = String.split_on_char c s
(* comma separated list of hex strings; "-" is the empty list *)
let hexlist (s : string) : int list list =
  if s = "-" then [] else List.map ints_of_hex (split_on ',' s)
