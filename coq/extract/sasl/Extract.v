(* Extraction of the SASL / Auth-loop model for the correspondence checks C14, C15, C16 (ExtrOcamlBasic only). *)
From Verif Require Import Bytes Base64 Scram AuthLoop Sasl Crypto SaslRun.
Require Extraction.
Require Import ExtrOcamlBasic.
Extraction "model.ml"
  SaslRun.c15_run SaslRun.c15_retry SaslRun.c15_multi SaslRun.run_auth SaslRun.run_auth_seq SaslRun.ref_server_run SaslRun.post_records SaslRun.gen_cfg SaslRun.table_oracle
  Scram.cfg_fixed Scram.cfg_old Scram.escape_name Scram.unescape_name Scram.go_atoi Scram.go_b64dec
  Crypto.sha1 Crypto.sha256 Crypto.md5 Crypto.hmac_sha1 Crypto.hmac_sha256 Crypto.hmac_md5
  Scram.pbkdf2_key Scram.Hi Base64.b64enc.
