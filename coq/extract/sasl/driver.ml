(* driver.ml — line protocol for the SASL / Auth-loop model (engine sasl: C14, C15, C16).
   input  : <id> <kind> <args...>      output : <id> <result>
   kinds:
     c15   <variant> <syms> <rands> <user> <pass> <nuser> <npass> <salt> <iter> <tls> <keys>
     c15r  <variant> <syms1> <syms2> <rands> <user> <pass> <nuser> <npass> <salt> <iter> <tls> <keys>
     auth14s <lad> <replies/replies/...> <mech> <mech args...> <scenario>   several exchanges on one Auth value
     auth  <lad 0|1> <replies> <mech> <mech args...>       (auth16: the same plus the records of a NOOP after Auth)
     srv   <variant> <cbname> <cbdata> <snonce> <ext> <acct> <npass> <salt> <iter> <client-first> <client-final>
     hash  <sha1|sha256|md5> <msg>          hmac <sha1|sha256|md5> <key> <msg>
     pbkdf2 <sha1|sha256> <pass> <salt> <iter> <keylen>
     esc <name>     unesc <name>     atoi <text>     b64d <text>
   byte strings are hex ("~" = empty), lists comma separated ("-" = empty list), "!" = oracle error *)
open Util
module M = Model

let rec pos_of_int (i : int) : M.positive =
  if i = 1 then M.XH else if i land 1 = 0 then M.XO (pos_of_int (i lsr 1)) else M.XI (pos_of_int (i lsr 1))
let n_of_int (i : int) : M.n = if i = 0 then M.N0 else M.Npos (pos_of_int i)
let rec int_of_pos (p : M.positive) : int = match p with
  | M.XH -> 1 | M.XO q -> 2 * int_of_pos q | M.XI q -> 2 * int_of_pos q + 1
let int_of_n (x : M.n) : int = match x with M.N0 -> 0 | M.Npos p -> int_of_pos p
let rec nat_of_int (i : int) : M.nat = if i <= 0 then M.O else M.S (nat_of_int (i - 1))
let z_of_int (i : int) : M.z = if i = 0 then M.Z0 else if i > 0 then M.Zpos (pos_of_int i) else M.Zneg (pos_of_int (-i))
(* decimal text of a Z without going through OCaml's 63-bit ints: little-endian digit lists *)
let rec dbl (carry : int) (d : int list) : int list = match d with
  | [] -> if carry = 0 then [] else [carry]
  | x :: t -> let v = 2 * x + carry in (v mod 10) :: dbl (v / 10) t
let rec digits_of_pos (p : M.positive) : int list = match p with
  | M.XH -> [1] | M.XO q -> dbl 0 (digits_of_pos q) | M.XI q -> dbl 1 (digits_of_pos q)
let string_of_pos p = String.concat "" (List.rev_map string_of_int (digits_of_pos p))
let string_of_z (x : M.z) : string = match x with M.Z0 -> "0" | M.Zpos p -> string_of_pos p | M.Zneg p -> "-" ^ string_of_pos p

let bytes_of_hex s = List.map n_of_int (ints_of_hex s)
let hex_of_bytes l = hex_of_ints (List.map int_of_n l)
let byteslist_of s = List.map (fun l -> List.map n_of_int l) (hexlist s)
let hexlist_of (l : M.n list list) : string =
  if l = [] then "-" else String.concat "," (List.map hex_of_bytes l)
let opt_of s = if s = "!" then None else Some (bytes_of_hex s)
let bool_of s = s = "1"

(* tls: "-" or "<v13>:<unique|!>:<exporter|!>" *)
let tls_of s =
  if s = "-" then None else
  match split_on ':' s with
  | [v; u; e] -> Some { M.ti_unique = opt_of u; M.ti_v13 = bool_of v; M.ti_exporter = opt_of e }
  | _ -> failwith "bad tls"

let variant_of v = match v with
  | "sha1" -> (false, false, "SCRAM-SHA-1") | "sha256" -> (true, false, "SCRAM-SHA-256")
  | "sha1plus" -> (false, true, "SCRAM-SHA-1-PLUS") | "sha256plus" -> (true, true, "SCRAM-SHA-256-PLUS")
  | _ -> failwith "bad variant"

let bytes_of_string s = List.init (String.length s) (fun i -> n_of_int (Char.code s.[i]))

let scram_id variant user pass tls =
  let (v256, plus, name) = variant_of variant in
  (v256, { M.sid_user = bytes_of_hex user; M.sid_pass = bytes_of_hex pass; M.sid_algo = bytes_of_string name;
           M.sid_plus = plus; M.sid_tls = tls_of tls })

let precis_tab user pass nuser npass =
  [ (M.escape_name (bytes_of_hex user), opt_of nuser); (bytes_of_hex pass, opt_of npass) ]

(* keys: "<ServerKey>:<ServerKey of the other password>:<HMAC("", "Server Key")>" *)
let params keys salt iter =
  match split_on ':' keys with
  | sk :: ok :: ek :: zk ->
    { M.sp_salt = bytes_of_hex salt; M.sp_iter = n_of_int (int_of_string iter);
      M.sp_server_key = bytes_of_hex sk; M.sp_other_key = bytes_of_hex ok; M.sp_empty_key = bytes_of_hex ek;
      M.sp_zero_key = (match zk with [z] -> bytes_of_hex z | _ -> []);
      M.sp_nonce = bytes_of_string "srvNONCE" }
  | _ -> failwith "bad keys"

let syms_of s = List.map n_of_int (ints_of_hex s)

(* replies: "-" or comma list of "<code>:<hex>" / "bad" *)
let replies_of s =
  if s = "-" then [] else
  List.map (fun t -> if t = "bad" then M.RBad else
    match split_on ':' t with
    | [c; m] -> M.Reply (n_of_int (int_of_string c), bytes_of_hex m)
    | _ -> failwith "bad reply") (split_on ',' s)

let b s = if s then "1" else "0"

let run (toks : string list) : string =
  match toks with
  | ["c15"; variant; syms; rands; user; pass; nuser; npass; salt; iter; tls; keys] ->
      let (v256, id) = scram_id variant user pass tls in
      let tab = precis_tab user pass nuser npass in
      let (cls, sent) = M.c15_run v256 M.gen_cfg (M.table_oracle tab) id (params keys salt iter) (byteslist_of rands) (syms_of syms) in
      hex_of_bytes cls ^ " " ^ hexlist_of sent
  | ["c15m"; variant; dialogues; rands; user; pass; nuser; npass; salt; iter; tls; keys] ->
      let (v256, id) = scram_id variant user pass tls in
      let tab = precis_tab user pass nuser npass in
      let ds = List.map syms_of (split_on '/' dialogues) in
      String.concat " | " (List.map (fun (cls, sent) -> hex_of_bytes cls ^ " " ^ hexlist_of sent)
        (M.c15_multi v256 M.gen_cfg (M.table_oracle tab) id (params keys salt iter) (byteslist_of rands) ds))
  | ["c15r"; variant; syms1; syms2; rands; user; pass; nuser; npass; salt; iter; tls; keys] ->
      let (v256, id) = scram_id variant user pass tls in
      let tab = precis_tab user pass nuser npass in
      let ((c1, s1), (c2, s2)) = M.c15_retry v256 M.gen_cfg (M.table_oracle tab) id (params keys salt iter) (byteslist_of rands) (syms_of syms1) (syms_of syms2) in
      hex_of_bytes c1 ^ " " ^ hexlist_of s1 ^ " " ^ hex_of_bytes c2 ^ " " ^ hexlist_of s2
  | ("auth" | "auth16" | "auth14" | "auth14s" as kind) :: lad :: replies :: mech :: args0 ->
      (* auth16 cases carry the harness scenario as a last argument the model does not use *)
      let args = if kind = "auth16" || kind = "auth14" || kind = "auth14s" then List.rev (List.tl (List.rev args0)) else args0 in
      let si name tls = { M.si_name = bytes_of_hex name; M.si_tls = bool_of tls } in
      let d = match mech, args with
        | "plain", [ident; user; pass; host; allow; sname; tls] ->
            M.MPlain ({ M.pl_identity = bytes_of_hex ident; M.pl_user = bytes_of_hex user; M.pl_pass = bytes_of_hex pass;
                        M.pl_host = bytes_of_hex host; M.pl_allow_unenc = bool_of allow }, si sname tls)
        | "login", [user; pass; host; allow; sname; tls] ->
            M.MLogin ({ M.lg_user = bytes_of_hex user; M.lg_pass = bytes_of_hex pass;
                        M.lg_host = bytes_of_hex host; M.lg_allow_unenc = bool_of allow }, si sname tls)
        | "cram", [user; secret] -> M.MCram (bytes_of_hex user, bytes_of_hex secret)
        | "xoauth2", [user; token] -> M.MXoauth2 (bytes_of_hex user, bytes_of_hex token)
        | "scram", [variant; user; pass; nuser; npass; rands; tls] ->
            let (v256, id) = scram_id variant user pass tls in
            M.MScram (v256, id, precis_tab user pass nuser npass, byteslist_of rands)
        | _ -> failwith "bad mech" in
      if kind = "auth14s" then
        (* several exchanges on the same Auth value: reply scripts separated by '/' *)
        String.concat " | " (List.map (fun o -> Printf.sprintf "%s S:%s" (hex_of_bytes o.M.ro_class) (hexlist_of o.M.ro_sent))
          (M.run_auth_seq M.gen_cfg d (bool_of lad) (List.map replies_of (split_on '/' replies))))
      else
      let o = M.run_auth M.gen_cfg d (bool_of lad) (replies_of replies) in
      let base = Printf.sprintf "%s %s %s S:%s L:%s" (hex_of_bytes o.M.ro_class) (b o.M.ro_active) (b o.M.ro_closed)
        (hexlist_of o.M.ro_sent) (hexlist_of o.M.ro_log) in
      if kind = "auth14" then Printf.sprintf "%s S:%s" (hex_of_bytes o.M.ro_class) (hexlist_of o.M.ro_sent)
      else if kind = "auth16" then
        (* the NOOP the harness sends after Auth when the connection is still open, answered "250 ok" *)
        base ^ " P:" ^ (if o.M.ro_closed then "-" else
                         hexlist_of (M.post_records o (bytes_of_string "NOOP") (M.Reply (n_of_int 250, bytes_of_string "ok"))))
      else base
  | [("srv" | "srvstale"); variant; cbname; cbdata; snonce; ext; acct; npass; salt; iter; cfirst; cfinal; _] ->
      (* the Gallina reference SCRAM server on the client messages of a real exchange *)
      let (v256, plus, _) = variant_of variant in
      (match M.ref_server_run v256 plus (bytes_of_hex cbname) (bytes_of_hex cbdata) (bytes_of_hex snonce) (bytes_of_hex ext) (bytes_of_hex acct)
               (bytes_of_hex npass) (bytes_of_hex salt) (nat_of_int (int_of_string iter)) (bytes_of_hex cfirst) (bytes_of_hex cfinal) with
       | None -> "!"
       | Some (sf, None) -> hex_of_bytes sf ^ " !"
       | Some (sf, Some fin) -> hex_of_bytes sf ^ " " ^ hex_of_bytes fin)
  | ["hash"; h; m] ->
      let f = match h with "sha1" -> M.sha1 | "sha256" -> M.sha256 | "md5" -> M.md5 | _ -> failwith "bad hash" in
      hex_of_bytes (f (bytes_of_hex m))
  | ["hmac"; h; k; m] ->
      let f = match h with "sha1" -> M.hmac_sha1 | "sha256" -> M.hmac_sha256 | "md5" -> M.hmac_md5 | _ -> failwith "bad hash" in
      hex_of_bytes (f (bytes_of_hex k) (bytes_of_hex m))
  | ["pbkdf2"; h; pass; salt; iter; keylen] ->
      let (f, hs) = match h with "sha1" -> (M.hmac_sha1, 20) | "sha256" -> (M.hmac_sha256, 32) | _ -> failwith "bad hash" in
      hex_of_bytes (M.pbkdf2_key f (bytes_of_hex pass) (bytes_of_hex salt) (z_of_int (int_of_string iter))
                      (nat_of_int (int_of_string keylen)) (nat_of_int hs))
  | ["esc"; name] -> hex_of_bytes (M.escape_name (bytes_of_hex name))
  | ["unesc"; name] -> (match M.unescape_name (bytes_of_hex name) with Some x -> hex_of_bytes x | None -> "!")
  | ["atoi"; t] -> (match M.go_atoi (bytes_of_hex t) with Some z -> string_of_z z | None -> "!")
  | ["b64d"; t] -> (match M.go_b64dec (bytes_of_hex t) with Some x -> hex_of_bytes x | None -> "!")
  | k :: _ -> "UNKNOWN-KIND-" ^ k
  | [] -> "EMPTY"

let () =
  try
    while true do
      let line = input_line stdin in
      if String.length line > 0 && line.[0] <> '#' then begin
        match split_on ' ' line with
        | id :: rest -> print_string id; print_char ' ';
            (try print_endline (run rest) with Failure m -> print_endline ("DRIVER-ERROR-" ^ m))
        | [] -> ()
      end
    done
  with End_of_file -> ()
