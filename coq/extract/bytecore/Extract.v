(* Extraction of the byte-core model for the correspondence check (ExtrOcamlBasic only). *)
From Verif Require Import Bytes Base64 LineBreaker QP HeaderFold WordEnc Writer Smime Crypto Builder Setters Paths.
Require Extraction.
Require Import ExtrOcamlBasic.
Extraction "model.ml"
  Base64.b64enc Base64.b64dec LineBreaker.lb_run LineBreaker.b64_body LineBreaker.wrap
  QP.qp_run QP.qp_body QP.qp_decode
  HeaderFold.write_header HeaderFold.unfold_hdr
  Bytes.lines_ok
  WordEnc.word_encode Writer.write_to Writer.unlimited Writer.fail_at Writer.enc_of_name Writer.sanitize Writer.file_headers Writer.has_mixed Writer.has_related Writer.has_alt
  Smime.write_to_signed Smime.sign_input Crypto.sha256
  Builder.build Builder.apply_bop Builder.empty_state
  Setters.apply_cop Setters.new_state
  Paths.run_op Paths.run_ops Paths.render_plain Paths.render_signed.
