(* driver.ml — line protocol for the byte-core model.
   input  : <id> <kind> <args...>      output : <id> <result>            *)
open Util
module M = Model

let rec pos_of_int (i : int) : M.positive =
  if i = 1 then M.XH else if i land 1 = 0 then M.XO (pos_of_int (i lsr 1)) else M.XI (pos_of_int (i lsr 1))
let n_of_int (i : int) : M.n = if i = 0 then M.N0 else M.Npos (pos_of_int i)
let rec int_of_pos (p : M.positive) : int = match p with
  | M.XH -> 1 | M.XO q -> 2 * int_of_pos q | M.XI q -> 2 * int_of_pos q + 1
let int_of_n (x : M.n) : int = match x with M.N0 -> 0 | M.Npos p -> int_of_pos p
let rec int_of_nat (x : M.nat) : int = match x with M.O -> 0 | M.S y -> 1 + int_of_nat y
let rec nat_of_int (i : int) : M.nat = if i <= 0 then M.O else M.S (nat_of_int (i - 1))

let bytes_of_hex s = List.map n_of_int (ints_of_hex s)
let hex_of_bytes l = hex_of_ints (List.map int_of_n l)
let byteslist_of s = List.map (fun l -> List.map n_of_int l) (hexlist s)

let run (toks : string list) : string =
  match toks with
  | ["b64"; chunks] | ["b64f"; chunks] ->
      (match M.b64_body (List.concat (byteslist_of chunks)) with
       | Some o -> hex_of_bytes o | None -> "OUTOFFUEL")
  | ["lb"; chunks] ->
      (match M.lb_run (byteslist_of chunks) with
       | Some o -> hex_of_bytes o | None -> "OUTOFFUEL")
  | ["qp"; chunks] -> hex_of_bytes (M.qp_run (byteslist_of chunks))
  | ["hdr"; key; values] ->
      let (o, _) = M.write_header (bytes_of_hex key) (byteslist_of values) in
      hex_of_bytes o
  | ["hdrn"; key; values] ->
      let (o, n) = M.write_header (bytes_of_hex key) (byteslist_of values) in
      Printf.sprintf "%s %d" (hex_of_bytes o) (int_of_nat n)
  | k :: _ -> "UNKNOWN-KIND-" ^ k
  | [] -> "EMPTY"

let () =
  try
    while true do
      let line = input_line stdin in
      if String.length line > 0 && line.[0] <> '#' then begin
        match split_on ' ' line with
        | id :: rest -> print_string id; print_char ' '; print_endline (run rest)
        | [] -> ()
      end
    done
  with End_of_file -> ()
